(* Lemmas for C17 about Model/ConcKG.v.
   Part 1: names (the text before the first ':' / the `kg:` prefix test are exact for names
           without ':').
   Part 2: frame lemmas — an atomic section of an operation on KG k changes neither the in-memory
           entry nor the disk view (shards, directory) of any other KG k'.
   Part 3: sequential histories: isolation of whole operations, well-formedness, restart locality.
   Part 4: all schedules: no shard outlives the drop of its graph (drop finality). *)
From Coq Require Import PeanoNat Arith.
From IL Require Import Model.Conc Model.ConcKG Proofs.Conc.
Open Scope N_scope.

(* ------------------------------------------------------------------ Part 1: names *)
Local Opaque colon.
Lemma has_colon_cons c k : has_colon (c :: k) = N.eqb colon c || has_colon k.
Proof. reflexivity. Qed.
Lemma name_eqb_eq : forall a b, name_eqb a b = true <-> a = b.
Proof.
  induction a as [|x a IH]; intros [|y b]; cbn; split; intros H; try discriminate; auto.
  - apply andb_true_iff in H. destruct H as [H1 H2]. apply N.eqb_eq in H1. apply IH in H2. congruence.
  - inversion H; subst. rewrite N.eqb_refl. cbn. apply IH. reflexivity.
Qed.
Lemma name_eqb_refl a : name_eqb a a = true.
Proof. apply name_eqb_eq. reflexivity. Qed.
Lemma name_eqb_neq a b : a <> b -> name_eqb a b = false.
Proof. intros H. destruct (name_eqb a b) eqn:E; auto. apply name_eqb_eq in E. contradiction. Qed.
Lemma name_eqb_sym a b : name_eqb a b = name_eqb b a.
Proof.
  destruct (name_eqb a b) eqn:E.
  - apply name_eqb_eq in E. subst. symmetry. apply name_eqb_refl.
  - symmetry. apply name_eqb_neq. intros ->. rewrite name_eqb_refl in E. discriminate.
Qed.

Lemma kg_part_shard : forall k rel, has_colon k = false -> kg_part (shard_name k rel) = k.
Proof.
  induction k as [|c k IH]; intros rel H; cbn.
  - reflexivity.
  - rewrite has_colon_cons in H. apply orb_false_iff in H. destruct H as [H1 H2].
    rewrite N.eqb_sym in H1. rewrite H1. f_equal. apply IH. exact H2.
Qed.

Lemma starts_prefix_kg_part : forall k s,
    has_colon k = false -> starts_with (kg_prefix k) s = true -> kg_part s = k.
Proof.
  induction k as [|c k IH]; intros s H Hs.
  - destruct s as [|y s]; cbn in Hs; try discriminate.
    apply andb_true_iff in Hs. destruct Hs as [Hy _]. apply N.eqb_eq in Hy. subst y. reflexivity.
  - destruct s as [|y s]; cbn in Hs; try discriminate.
    apply andb_true_iff in Hs. destruct Hs as [Hy Hs]. apply N.eqb_eq in Hy. subst y.
    rewrite has_colon_cons in H. apply orb_false_iff in H. destruct H as [H1 H2].
    cbn. rewrite N.eqb_sym in H1. rewrite H1. f_equal. apply IH; auto.
Qed.

Lemma starts_with_shard : forall k rel, starts_with (kg_prefix k) (shard_name k rel) = true.
Proof.
  induction k as [|c k IH]; intros rel; cbn.
  - reflexivity.
  - rewrite N.eqb_refl. cbn. apply IH.
Qed.

Lemma kg_part_no_colon : forall s, has_colon (kg_part s) = false.
Proof.
  induction s as [|c s IH]; cbn; auto.
  destruct (N.eqb c colon) eqn:E; auto. rewrite has_colon_cons, N.eqb_sym, E. exact IH.
Qed.

Lemma create_ok_no_colon k : create_ok true k = true -> has_colon k = false /\ reserved k = false.
Proof.
  unfold create_ok. intros H. apply andb_true_iff in H. destruct H as [_ H].
  apply andb_true_iff in H. destruct H as [H1 H2]. split; apply negb_true_iff; assumption.
Qed.

(* ------------------------------------------------------------------ association lists *)
Lemma lookup_set_key_other {A} : forall (m : list (name * A)) k k' v,
    k <> k' -> lookup k' (set_key k v m) = lookup k' m.
Proof.
  induction m as [|[k0 v0] m IH]; intros k k' v H; cbn.
  - rewrite name_eqb_neq; auto.
  - destruct (name_eqb k k0) eqn:E; cbn.
    + apply name_eqb_eq in E. subst k0. rewrite name_eqb_neq; auto.
    + destruct (name_eqb k' k0); auto.
Qed.
Lemma lookup_set_key_same {A} : forall (m : list (name * A)) k v, lookup k (set_key k v m) = Some v.
Proof.
  induction m as [|[k0 v0] m IH]; intros k v; cbn.
  - rewrite name_eqb_refl. reflexivity.
  - destruct (name_eqb k k0) eqn:E; cbn.
    + rewrite name_eqb_refl. reflexivity.
    + rewrite E. apply IH.
Qed.
Lemma lookup_remove_key_other {A} : forall (m : list (name * A)) k k',
    k <> k' -> lookup k' (remove_key k m) = lookup k' m.
Proof.
  induction m as [|[k0 v0] m IH]; intros k k' H; cbn; auto.
  destruct (name_eqb k k0) eqn:E; cbn.
  - apply name_eqb_eq in E. subst k0. rewrite (name_eqb_neq k' k); auto.
  - destruct (name_eqb k' k0); auto.
Qed.
Lemma lookup_remove_key_same {A} : forall (m : list (name * A)) k, lookup k (remove_key k m) = None.
Proof.
  induction m as [|[k0 v0] m IH]; intros k; cbn; auto.
  destruct (name_eqb k k0) eqn:E; cbn; auto. rewrite E. apply IH.
Qed.
Lemma lookup_app_other {A} : forall (m : list (name * A)) k k' v,
    k <> k' -> lookup k' (m ++ [(k, v)]) = lookup k' m.
Proof.
  induction m as [|[k0 v0] m IH]; intros k k' v H; cbn.
  - rewrite name_eqb_neq; auto.
  - destruct (name_eqb k' k0); auto.
Qed.
Lemma lookup_Some_in_keys {A} : forall (m : list (name * A)) k v, lookup k m = Some v -> In k (keys m).
Proof.
  induction m as [|[k0 v0] m IH]; intros k v H; cbn in *; try discriminate.
  destruct (name_eqb k k0) eqn:E.
  - left. apply name_eqb_eq in E. auto.
  - right. eapply IH; eauto.
Qed.
Lemma lookup_None_not_in_keys {A} : forall (m : list (name * A)) k, lookup k m = None -> ~ In k (keys m).
Proof.
  induction m as [|[k0 v0] m IH]; intros k H; cbn in *; auto.
  destruct (name_eqb k k0) eqn:E; try discriminate.
  intros [->|Hin]. rewrite name_eqb_refl in E. discriminate. eapply IH; eauto.
Qed.
Lemma not_in_keys_lookup_None {A} : forall (m : list (name * A)) k, ~ In k (keys m) -> lookup k m = None.
Proof.
  induction m as [|[k0 v0] m IH]; intros k H; cbn in *; auto.
  destruct (name_eqb k k0) eqn:E.
  - apply name_eqb_eq in E. subst. exfalso. apply H. auto.
  - apply IH. tauto.
Qed.
Lemma keys_set_key_present {A} : forall (m : list (name * A)) k v v0,
    lookup k m = Some v0 -> keys (set_key k v m) = keys m.
Proof.
  induction m as [|[k0 w] m IH]; intros k v v0 H; cbn in *; try discriminate.
  destruct (name_eqb k k0) eqn:E; cbn.
  - apply name_eqb_eq in E. subst. reflexivity.
  - f_equal. eapply IH; eauto.
Qed.
Lemma keys_remove_key_incl {A} : forall (m : list (name * A)) k, incl (keys (remove_key k m)) (keys m).
Proof.
  induction m as [|[k0 w] m IH]; intros k; cbn.
  - apply incl_refl.
  - destruct (name_eqb k k0); cbn.
    + apply incl_tl. apply IH.
    + intros x [->|Hx]; [left; auto | right; apply (IH k); auto].
Qed.

(* ------------------------------------------------------------------ Part 2: frame lemmas *)
Lemma shards_of_set_key : forall sh s v k',
    name_eqb (kg_part s) k' = false -> shards_of k' (set_key s v sh) = shards_of k' sh.
Proof.
  induction sh as [|[s0 v0] sh IH]; intros s v k' H; cbn.
  - rewrite H. reflexivity.
  - destruct (name_eqb s s0) eqn:E; cbn.
    + apply name_eqb_eq in E. subst s0. rewrite H. reflexivity.
    + destruct (name_eqb (kg_part s0) k'); [f_equal|]; apply IH; auto.
Qed.

Lemma shards_of_filter_prefix : forall sh k k',
    has_colon k = false -> k <> k' ->
    shards_of k' (filter (fun s => negb (starts_with (kg_prefix k) (fst s))) sh) = shards_of k' sh.
Proof.
  induction sh as [|[s0 v0] sh IH]; intros k k' Hc Hn; cbn; auto.
  destruct (starts_with (kg_prefix k) s0) eqn:E; cbn.
  - rewrite (starts_prefix_kg_part _ _ Hc E). rewrite name_eqb_neq by auto. apply IH; auto.
  - destruct (name_eqb (kg_part s0) k'); [f_equal|]; apply IH; auto.
Qed.

Lemma persist_section_frame fx g k rel ts b g' k' :
  persist_section fx g k rel ts b = Some g' -> k <> k' -> has_colon k = false ->
  mem g' = mem g /\ diskview k' g' = diskview k' g.
Proof.
  unfold persist_section. intros H Hn Hc.
  destruct (mem_name k (dropping g)); try discriminate.
  destruct (fx && match lookup k (mem g) with None => true | Some _ => false end); try discriminate.
  inversion H; subst; clear H. split; [reflexivity|].
  unfold diskview, set_readers, set_shards. cbn [shards dirs].
  rewrite shards_of_set_key; auto. rewrite kg_part_shard; auto. apply name_eqb_neq; auto.
Qed.

(* in-memory frame: any section of an operation on k leaves every other map entry alone *)
Lemma kstep_mem_frame : forall fx t l g o rest k',
    ktodo l = o :: rest -> kop_target o <> Some k' ->
    lookup k' (mem (snd (kstep fx t l g))) = lookup k' (mem g).
Proof.
  intros fx t l g o rest k' T Hn. unfold kstep. rewrite T.
  destruct o as [id k|id k|id k rel ts|id k rel ts|id k rel|id]; cbn in Hn;
    try (assert (Hk : k <> k') by congruence).
  - (* create *)
    destruct (kpc l).
    + destruct (negb (create_ok fx k)); cbn; auto. destruct (mem_name k (dropping g)); cbn; auto.
    + destruct (negb (create_ok fx k)); cbn; auto.
      destruct (lookup k (mem g)); cbn; auto. apply lookup_app_other; auto.
  - (* drop *)
    destruct (kpc l) as [|[|[|[|[|[|n]]]]]]; cbn; auto.
    + destruct (name_eqb k default_kg); cbn; auto. destruct (lookup k (mem g)); cbn; auto.
    + destruct (readers g); cbn; auto.
    + apply lookup_remove_key_other; auto.
    + destruct (readers g); cbn; auto.
  - (* insert *)
    destruct (kpc l) as [|[|[|n]]]; cbn.
    + destruct (lookup k (mem g)) as [m|]; cbn; auto. destruct (mem_name rel (krules m)); cbn; auto.
    + destruct (persist_section fx g k rel ts true) as [g'|] eqn:P; cbn; auto.
      unfold persist_section in P.
      destruct (mem_name k (dropping g)); try discriminate.
      destruct (fx && match lookup k (mem g) with None => true | Some _ => false end); try discriminate.
      inversion P; subst. reflexivity.
    + reflexivity.
    + destruct (lookup k (mem g)) as [m|]; cbn; auto. apply lookup_set_key_other; auto.
  - (* delete *)
    destruct (kpc l) as [|[|n]]; cbn.
    + destruct (lookup k (mem g)) as [m|]; cbn; auto.
      destruct (persist_section fx g k rel ts false) as [g'|] eqn:P; cbn; auto.
      unfold persist_section in P.
      destruct (mem_name k (dropping g)); try discriminate.
      destruct (fx && match lookup k (mem g) with None => true | Some _ => false end); try discriminate.
      inversion P; subst. reflexivity.
    + reflexivity.
    + destruct (lookup k (mem g)) as [m|]; cbn; auto. apply lookup_set_key_other; auto.
  - (* rule *)
    destruct (lookup k (mem g)) as [m|]; cbn; auto. apply lookup_set_key_other; auto.
  - reflexivity.
Qed.

(* disk frame: for names without ':' any section of an operation on k leaves the shards and the
   directory of every other KG alone *)
Lemma kstep_disk_frame : forall fx t l g o rest k k',
    ktodo l = o :: rest -> kop_target o = Some k -> k <> k' -> has_colon k = false ->
    diskview k' (snd (kstep fx t l g)) = diskview k' g.
Proof.
  intros fx t l g o rest k k' T Ht Hn Hc. unfold kstep. rewrite T.
  destruct o as [id k0|id k0|id k0 rel ts|id k0 rel ts|id k0 rel|id]; cbn in Ht; inversion Ht; subst k0; clear Ht.
  - (* create *)
    destruct (kpc l).
    + destruct (negb (create_ok fx k)); cbn; auto. destruct (mem_name k (dropping g)); cbn; auto.
    + destruct (negb (create_ok fx k)); cbn; auto.
      destruct (lookup k (mem g)); cbn; auto. unfold diskview. cbn. f_equal.
      destruct (lookup k (dirs g)); auto. apply lookup_app_other; auto.
  - (* drop *)
    destruct (kpc l) as [|[|[|[|[|[|n]]]]]]; cbn; auto.
    + destruct (name_eqb k default_kg); cbn; auto. destruct (lookup k (mem g)); cbn; auto.
    + destruct (readers g); cbn; auto.
    + unfold diskview. cbn. f_equal. apply shards_of_filter_prefix; auto.
    + unfold diskview. cbn. f_equal. apply lookup_remove_key_other; auto.
    + destruct (readers g); cbn; auto.
  - (* insert *)
    destruct (kpc l) as [|[|[|n]]]; cbn.
    + destruct (lookup k (mem g)) as [m|]; cbn; auto. destruct (mem_name rel (krules m)); cbn; auto.
    + destruct (persist_section fx g k rel ts true) as [g'|] eqn:P; cbn; auto.
      eapply persist_section_frame; eauto.
    + reflexivity.
    + destruct (lookup k (mem g)) as [m|]; cbn; auto.
  - (* delete *)
    destruct (kpc l) as [|[|n]]; cbn.
    + destruct (lookup k (mem g)) as [m|]; cbn; auto.
      destruct (persist_section fx g k rel ts false) as [g'|] eqn:P; cbn; auto.
      eapply persist_section_frame; eauto.
    + reflexivity.
    + destruct (lookup k (mem g)) as [m|]; cbn; auto.
  - (* rule *)
    destruct (lookup k (mem g)) as [m|]; cbn; auto. unfold diskview. cbn. f_equal.
    apply lookup_set_key_other; auto.
Qed.

(* ------------------------------------------------------------------ Part 3: sequential histories *)
Definition nocolon (l : list name) : Prop := Forall (fun k => has_colon k = false) l.
Definition Wf (g : g17) : Prop := nocolon (keys (mem g)) /\ nocolon (kglist g).

Lemma nocolon_incl l l' : nocolon l -> incl l' l -> nocolon l'.
Proof. unfold nocolon. rewrite !Forall_forall. intros H I x Hx. apply H, I, Hx. Qed.
Lemma nocolon_lookup {A} (m : list (name * A)) k v :
  nocolon (keys m) -> lookup k m = Some v -> has_colon k = false.
Proof.
  intros H L. unfold nocolon in H. rewrite Forall_forall in H. apply H. eapply lookup_Some_in_keys; eauto.
Qed.
Lemma colon_not_in_mem g k : Wf g -> has_colon k = true -> lookup k (mem g) = None.
Proof.
  intros [W _] H. destruct (lookup k (mem g)) eqn:E; auto.
  pose proof (nocolon_lookup _ _ _ W E). congruence.
Qed.

Lemma persist_section_mem fx g k rel ts b g' :
  persist_section fx g k rel ts b = Some g' -> mem g' = mem g /\ kglist g' = kglist g.
Proof.
  unfold persist_section. intros H.
  destruct (mem_name k (dropping g)); try discriminate.
  destruct (fx && match lookup k (mem g) with None => true | Some _ => false end); try discriminate.
  inversion H; subst. split; reflexivity.
Qed.

Lemma Wf_kstep : forall t l g, Wf g -> Wf (snd (kstep true t l g)).
Proof.
  intros t l g [Wm Wl]. unfold kstep. destruct (ktodo l) as [|o rest]; [split; auto|].
  destruct o as [id k|id k|id k rel ts|id k rel ts|id k rel|id].
  - destruct (kpc l).
    + destruct (negb (create_ok true k)); cbn; [split; auto|].
      destruct (mem_name k (dropping g)); cbn; split; auto.
    + destruct (create_ok true k) eqn:C; cbn; [|split; auto].
      destruct (lookup k (mem g)) eqn:E; cbn; [split; auto|].
      apply create_ok_no_colon in C. destruct C as [C _].
      assert (W' : nocolon (keys (mem g ++ [(k, mkKgm (S (inc_of g k)) []
                      match lookup k (dirs g) with Some r => r | None => [] end)]))).
      { unfold keys. rewrite map_app. apply Forall_app. split; auto. cbn. constructor; auto. }
      split; exact W'.
  - destruct (kpc l) as [|[|[|[|[|[|n]]]]]]; cbn.
    + destruct (name_eqb k default_kg); cbn; [split; auto|].
      destruct (lookup k (mem g)); cbn; split; auto.
    + destruct (readers g); cbn; split; auto.
    + split; cbn [mem kglist snd]; auto. eapply nocolon_incl; [exact Wm | apply keys_remove_key_incl].
    + split; cbn; auto.
    + split; cbn; auto.
    + split; cbn; auto.
    + destruct (readers g); cbn; split; auto.
  - destruct (kpc l) as [|[|[|n]]]; cbn.
    + destruct (lookup k (mem g)) as [m|]; cbn; [|split; auto].
      destruct (mem_name rel (krules m)); cbn; split; auto.
    + destruct (persist_section true g k rel ts true) as [g'|] eqn:P; cbn; [|split; auto].
      destruct (persist_section_mem _ _ _ _ _ _ _ P) as [E1 E2]. unfold Wf. rewrite E1, E2. split; auto.
    + split; auto.
    + destruct (lookup k (mem g)) as [m|] eqn:E; cbn; [|split; auto].
      split; cbn [mem kglist snd set_mem]; auto. erewrite keys_set_key_present; eauto.
  - destruct (kpc l) as [|[|n]]; cbn.
    + destruct (lookup k (mem g)) as [m|]; cbn; [|split; auto].
      destruct (persist_section true g k rel ts false) as [g'|] eqn:P; cbn; [|split; auto].
      destruct (persist_section_mem _ _ _ _ _ _ _ P) as [E1 E2]. unfold Wf. rewrite E1, E2. split; auto.
    + split; auto.
    + destruct (lookup k (mem g)) as [m|] eqn:E; cbn; [|split; auto].
      split; cbn [mem kglist snd set_mem]; auto. erewrite keys_set_key_present; eauto.
  - destruct (lookup k (mem g)) as [m|] eqn:E; cbn; [|split; auto].
    split; cbn [mem kglist snd set_mem]; auto. erewrite keys_set_key_present; eauto.
  - split; auto.
Qed.

(* a section either stays inside the current operation or finishes it *)
Lemma kstep_todo : forall fx t l g o rest,
    ktodo l = o :: rest ->
    ktodo (fst (kstep fx t l g)) = o :: rest \/ ktodo (fst (kstep fx t l g)) = rest.
Proof.
  intros fx t l g o rest T. unfold kstep. rewrite T.
  destruct o as [id k|id k|id k rel ts|id k rel ts|id k rel|id].
  - destruct (kpc l).
    + destruct (negb (create_ok fx k)); cbn; auto. destruct (mem_name k (dropping g)); cbn; auto.
    + destruct (negb (create_ok fx k)); cbn; auto. destruct (lookup k (mem g)); cbn; auto.
  - destruct (kpc l) as [|[|[|[|[|[|n]]]]]]; cbn; auto.
    + destruct (name_eqb k default_kg); cbn; auto. destruct (lookup k (mem g)); cbn; auto.
    + destruct (readers g); cbn; auto.
    + destruct (readers g); cbn; auto.
  - destruct (kpc l) as [|[|[|n]]]; cbn; auto.
    + destruct (lookup k (mem g)) as [m|]; cbn; auto. destruct (mem_name rel (krules m)); cbn; auto.
    + destruct (persist_section fx g k rel ts true); cbn; auto.
    + destruct (lookup k (mem g)); cbn; auto.
  - destruct (kpc l) as [|[|n]]; cbn; auto.
    + destruct (lookup k (mem g)); cbn; auto. destruct (persist_section fx g k rel ts false); cbn; auto.
    + destruct (lookup k (mem g)); cbn; auto.
  - destruct (lookup k (mem g)); cbn; auto.
  - cbn. auto.
Qed.

Lemma has_colon_create_ok k : has_colon k = true -> create_ok true k = false.
Proof. intros H. unfold create_ok. rewrite H. cbn. apply andb_false_r. Qed.

(* with the name validation in place, an operation that names a KG containing ':' ends in its
   first section without touching anything *)
Lemma kstep_colon_target : forall t l g o rest k,
    Wf g -> ktodo l = o :: rest -> kpc l = O -> kop_target o = Some k -> has_colon k = true ->
    snd (kstep true t l g) = g /\ ktodo (fst (kstep true t l g)) = rest.
Proof.
  intros t l g o rest k W T P Ht Hc. unfold kstep. rewrite T, P.
  pose proof (colon_not_in_mem g k W Hc) as Hm.
  destruct o as [id k0|id k0|id k0 rel ts|id k0 rel ts|id k0 rel|id]; cbn in Ht; inversion Ht; subst k0.
  - rewrite (has_colon_create_ok k Hc). cbn. auto.
  - destruct (name_eqb k default_kg); cbn; auto. rewrite Hm. cbn. auto.
  - rewrite Hm. cbn. auto.
  - rewrite Hm. cbn. auto.
  - rewrite Hm. cbn. auto.
Qed.

Lemma run_to_end_frame : forall fuel l g o k k',
    (ktodo l = [o] \/ ktodo l = []) -> kop_target o = Some k -> k <> k' -> has_colon k = false ->
    lookup k' (mem (snd (run_to_end true fuel l g))) = lookup k' (mem g) /\
    diskview k' (snd (run_to_end true fuel l g)) = diskview k' g.
Proof.
  induction fuel as [|f IH]; intros l g o k k' T Ht Hn Hc; cbn; auto.
  destruct T as [T|T]; rewrite T; auto.
  destruct (kstep true O l g) as [l' g'] eqn:S.
  assert (Hm : lookup k' (mem g') = lookup k' (mem g)).
  { replace g' with (snd (kstep true O l g)) by (rewrite S; reflexivity).
    eapply kstep_mem_frame; eauto. congruence. }
  assert (Hd : diskview k' g' = diskview k' g).
  { replace g' with (snd (kstep true O l g)) by (rewrite S; reflexivity).
    eapply kstep_disk_frame; eauto. }
  assert (T' : ktodo l' = [o] \/ ktodo l' = []).
  { replace l' with (fst (kstep true O l g)) by (rewrite S; reflexivity).
    apply kstep_todo. exact T. }
  destruct (IH l' g' o k k' T' Ht Hn Hc) as [I1 I2]. rewrite I1, I2. auto.
Qed.

Theorem seq_op_isolation : forall g o k k',
    Wf g -> kop_target o = Some k -> k <> k' ->
    lookup k' (mem (snd (seq_op true g o))) = lookup k' (mem g) /\
    diskview k' (snd (seq_op true g o)) = diskview k' g.
Proof.
  intros g o k k' W Ht Hn. unfold seq_op.
  destruct (run_to_end true 8 (kinit_l [o]) g) as [l g'] eqn:R. cbn [snd].
  replace g' with (snd (run_to_end true 8 (kinit_l [o]) g)) by (rewrite R; reflexivity).
  destruct (has_colon k) eqn:Hc.
  - (* invalid target: the first section fails, nothing changes *)
    cbn [run_to_end kinit_l ktodo].
    destruct (kstep true O (kinit_l [o]) g) as [l1 g1] eqn:S.
    destruct (kstep_colon_target O (kinit_l [o]) g o [] k W eq_refl eq_refl Ht Hc) as [E1 E2].
    rewrite S in E1, E2. cbn in E1, E2. subst g1. cbn [run_to_end]. rewrite E2. auto.
  - eapply run_to_end_frame; eauto. cbn. auto.
Qed.

Lemma seq_op_obs_unchanged : forall fx g id, snd (seq_op fx g (KObs id)) = g.
Proof. intros. reflexivity. Qed.

Lemma Wf_run_to_end : forall fuel l g, Wf g -> Wf (snd (run_to_end true fuel l g)).
Proof.
  induction fuel as [|f IH]; intros l g W; cbn; auto.
  destruct (ktodo l); auto.
  destruct (kstep true O l g) as [l' g'] eqn:S. apply IH.
  replace g' with (snd (kstep true O l g)) by (rewrite S; reflexivity). apply Wf_kstep. exact W.
Qed.

Lemma Wf_seq_op g o : Wf g -> Wf (snd (seq_op true g o)).
Proof.
  intros W. unfold seq_op. destruct (run_to_end true 8 (kinit_l [o]) g) as [l g'] eqn:R. cbn [snd].
  replace g' with (snd (run_to_end true 8 (kinit_l [o]) g)) by (rewrite R; reflexivity).
  apply Wf_run_to_end. exact W.
Qed.

Lemma dedup_names_incl : forall l, incl (dedup_names l) l.
Proof.
  induction l as [|x l IH]; cbn. apply incl_refl.
  destruct (mem_name x l). apply incl_tl, IH.
  intros y [->|H]; [left; auto | right; apply IH, H].
Qed.
Lemma mem_name_In k l : mem_name k l = true <-> In k l.
Proof.
  unfold mem_name. rewrite existsb_exists. split.
  - intros (x & Hx & E). apply name_eqb_eq in E. subst. exact Hx.
  - intros H. exists k. split; auto. apply name_eqb_refl.
Qed.
Lemma dedup_names_In : forall l k, In k l -> In k (dedup_names l).
Proof.
  induction l as [|x l IH]; intros k H; cbn in *; auto.
  destruct H as [->|H].
  - destruct (mem_name k l) eqn:E. apply IH. apply mem_name_In. exact E. left. reflexivity.
  - destruct (mem_name x l); [apply IH, H | right; apply IH, H].
Qed.

Definition restart_names (g : g17) : list name :=
  dedup_names (map (fun s => kg_part (fst s)) (shards g) ++ kglist g).

Lemma restart_names_nocolon g : nocolon (kglist g) -> nocolon (restart_names g).
Proof.
  intros W. eapply nocolon_incl; [|apply dedup_names_incl].
  apply Forall_app. split; auto. apply Forall_forall. intros x Hx. apply in_map_iff in Hx.
  destruct Hx as (s & <- & _). apply kg_part_no_colon.
Qed.

Lemma keys_map_pair {A} (f : name -> A) l : keys (map (fun n => (n, f n)) l) = l.
Proof. unfold keys. rewrite map_map. cbn. apply map_id. Qed.

Lemma default_no_colon : has_colon default_kg = false.
Proof. Transparent colon. vm_compute. reflexivity. Opaque colon. Qed.

Lemma Wf_restart g : Wf g -> Wf (restart g).
Proof.
  intros [Wm Wl]. unfold restart. fold (restart_names g).
  pose proof (restart_names_nocolon g Wl) as Wn.
  destruct (mem_name default_kg (restart_names g)); split; cbn [mem kglist]; auto.
  - rewrite keys_map_pair. exact Wn.
  - unfold keys. rewrite map_app. apply Forall_app. split.
    + fold (keys (map (fun n => (n, load_kg g n)) (restart_names g))). rewrite keys_map_pair. exact Wn.
    + cbn. constructor; auto; try apply default_no_colon.
  - unfold keys. rewrite map_app. apply Forall_app. split.
    + fold (keys (map (fun n => (n, load_kg g n)) (restart_names g))). rewrite keys_map_pair. exact Wn.
    + cbn. constructor; auto; try apply default_no_colon.
Qed.

Lemma Wf_init : Wf kinit_g.
Proof. split; cbn; constructor; auto; try apply default_no_colon. Qed.

Theorem Wf_seq_run : forall h g, Wf g -> Wf (seq_run true g h).
Proof.
  induction h as [|i h IH]; intros g W; cbn; auto.
  apply IH. destruct i; cbn. apply Wf_seq_op; auto. apply Wf_restart; auto.
Qed.

(* what a restart loads for a KG is a function of that KG's own shards and directory *)
Lemma load_facts_local : forall sh k,
    has_colon k = false -> load_facts k sh = load_facts k (shards_of k sh).
Proof.
  induction sh as [|[s v] sh IH]; intros k Hc; cbn; auto.
  destruct (starts_with (kg_prefix k) s) eqn:E.
  - rewrite (starts_prefix_kg_part _ _ Hc E), name_eqb_refl. cbn. rewrite E. f_equal. apply IH; auto.
  - cbn. destruct (name_eqb (kg_part s) k); cbn; [rewrite E; cbn|]; apply IH; auto.
Qed.

Theorem restart_local : forall g1 g2 k,
    has_colon k = false -> diskview k g1 = diskview k g2 ->
    kfacts (load_kg g1 k) = kfacts (load_kg g2 k) /\ krules (load_kg g1 k) = krules (load_kg g2 k).
Proof.
  intros g1 g2 k Hc Hd. unfold diskview in Hd. inversion Hd as [[H1 H2]]. unfold load_kg. cbn.
  rewrite (load_facts_local (shards g1) k Hc), (load_facts_local (shards g2) k Hc), H1, H2. auto.
Qed.

Lemma lookup_map_pair {A} (f : name -> A) : forall l k, In k l -> lookup k (map (fun n => (n, f n)) l) = Some (f k).
Proof.
  induction l as [|x l IH]; intros k H; cbn in *. contradiction.
  destruct (name_eqb k x) eqn:E.
  - apply name_eqb_eq in E. subst. reflexivity.
  - destruct H as [->|H]. rewrite name_eqb_refl in E. discriminate. apply IH, H.
Qed.
Lemma lookup_app_found {A} : forall (m m' : list (name * A)) k v, lookup k m = Some v -> lookup k (m ++ m') = Some v.
Proof.
  induction m as [|[k0 v0] m IH]; intros m' k v H; cbn in *; try discriminate.
  destruct (name_eqb k k0); auto.
Qed.

Theorem restart_loads : forall g k,
    In k (map (fun s => kg_part (fst s)) (shards g) ++ kglist g) ->
    lookup k (mem (restart g)) = Some (load_kg g k).
Proof.
  intros g k H. apply dedup_names_In in H. fold (restart_names g) in H. unfold restart.
  fold (restart_names g).
  pose proof (lookup_map_pair (load_kg g) _ _ H) as L.
  destruct (mem_name default_kg (restart_names g)); cbn [mem]; auto.
  apply lookup_app_found. exact L.
Qed.

(* ------------------------------------------------------------------ Part 4: all schedules *)
Definition mem_kinc (g : g17) (k : name) : option nat := option_map kinc (lookup k (mem g)).

(* every shard on disk belongs to a KG whose drop is in progress, or to a live KG and then it
   holds only tuples written during that KG's current incarnation *)
Definition owned (g : g17) : Prop :=
  forall s ts, In (s, ts) (shards g) ->
    (exists t, In (t, kg_part s) (pending g)) \/
    (exists n, mem_kinc g (kg_part s) = Some n /\ forall x tag, In (x, tag) ts -> tag = n).
Definition kinc_ok (g : g17) : Prop := forall k n, mem_kinc g k = Some n -> n = inc_of g k.
Definition shard_names_ok (g : g17) : Prop :=
  forall s ts, In (s, ts) (shards g) -> starts_with (kg_prefix (kg_part s)) s = true.
Definition list_ok (g : g17) : Prop := unsaved g = [] -> kglist g = keys (mem g).
Definition GInv (g : g17) : Prop := Wf g /\ kinc_ok g /\ shard_names_ok g /\ owned g /\ list_ok g.

Lemma In_set_key {A} : forall (m : list (name * A)) k v k0 v0,
    In (k0, v0) (set_key k v m) -> (k0 = k /\ v0 = v) \/ In (k0, v0) m.
Proof.
  induction m as [|[k1 v1] m IH]; intros k v k0 v0 H; cbn in *.
  - destruct H as [H|[]]. inversion H. auto.
  - destruct (name_eqb k k1) eqn:E; cbn in H.
    + destruct H as [H|H]. inversion H. auto. auto.
    + destruct H as [H|H]. auto. destruct (IH _ _ _ _ H); auto.
Qed.
Lemma lookup_Some_In {A} : forall (m : list (name * A)) k v, lookup k m = Some v -> In (k, v) m.
Proof.
  induction m as [|[k1 v1] m IH]; intros k v H; cbn in *; try discriminate.
  destruct (name_eqb k k1) eqn:E.
  - apply name_eqb_eq in E. inversion H. subst. auto.
  - right. apply IH, H.
Qed.
Lemma lookup_app_None_same {A} : forall (m : list (name * A)) k v, lookup k m = None -> lookup k (m ++ [(k, v)]) = Some v.
Proof.
  induction m as [|[k1 v1] m IH]; intros k v H; cbn in *.
  - rewrite name_eqb_refl. reflexivity.
  - destruct (name_eqb k k1); try discriminate. apply IH, H.
Qed.
Lemma shard_add_tags : forall ts tag cur x tag',
    In (x, tag') (shard_add tag ts cur) -> In (x, tag') cur \/ tag' = tag.
Proof.
  induction ts as [|a ts IH]; intros tag cur x tag' H; cbn in *; auto.
  unfold shard_add in H. cbn [fold_left] in H. fold (shard_add tag ts) in H.
  destruct (existsb (fun y => N.eqb (fst y) a) cur).
  - apply IH, H.
  - destruct (IH _ _ _ _ H) as [Hi|Hi]; auto. apply in_app_or in Hi. destruct Hi as [Hi|[Hi|[]]]; auto.
    inversion Hi. auto.
Qed.
Lemma shard_del_incl ts cur e : In e (shard_del ts cur) -> In e cur.
Proof. unfold shard_del. intros H. apply filter_In in H. tauto. Qed.

Lemma mem_kinc_set_key g k mk f r k0 :
  lookup k (mem g) = Some mk ->
  option_map kinc (lookup k0 (set_key k (mkKgm (kinc mk) f r) (mem g))) = mem_kinc g k0.
Proof.
  intros H. unfold mem_kinc. destruct (name_eqb k k0) eqn:E.
  - apply name_eqb_eq in E. subst k0. rewrite lookup_set_key_same, H. reflexivity.
  - rewrite lookup_set_key_other; auto. intros ->. rewrite name_eqb_refl in E. discriminate.
Qed.

(* a step that keeps shards, pending, incs, unsaved, kglist, key set and incarnations *)
Lemma GInv_ext g g' :
  GInv g -> shards g' = shards g -> pending g' = pending g -> incs g' = incs g ->
  unsaved g' = unsaved g -> kglist g' = kglist g -> keys (mem g') = keys (mem g) ->
  (forall k, mem_kinc g' k = mem_kinc g k) -> GInv g'.
Proof.
  intros ([Wm Wl] & Hk & Hs & Ho & Hl) Es Ep Ei Eu El Ek Em.
  repeat split.
  - rewrite Ek. exact Wm.
  - rewrite El. exact Wl.
  - intros k n H. rewrite Em in H. unfold inc_of. rewrite Ei. apply Hk, H.
  - intros s ts H. rewrite Es in H. eapply Hs; eauto.
  - intros s ts H. rewrite Es in H. destruct (Ho s ts H) as [L|R].
    + left. rewrite Ep. exact L.
    + right. rewrite Em. exact R.
  - intros U. rewrite Eu in U. rewrite El, Ek. apply Hl, U.
Qed.

Lemma GInv_persist g k rel ts b g' :
  GInv g -> persist_section true g k rel ts b = Some g' -> GInv g'.
Proof.
  intros G P. pose proof G as ([Wm Wl] & Hk & Hs & Ho & Hl).
  unfold persist_section in P.
  destruct (mem_name k (dropping g)); try discriminate.
  destruct (lookup k (mem g)) as [mk|] eqn:L; cbn in P; try discriminate.
  inversion P; subst g'; clear P.
  assert (Hc : has_colon k = false) by (eapply nocolon_lookup; eauto).
  assert (Hkk : mem_kinc g k = Some (kinc mk)) by (unfold mem_kinc; rewrite L; reflexivity).
  split; [split; assumption|]. split; [exact Hk|]. split; [|split; [|exact Hl]].
  - intros s ts0 H. cbn [shards set_readers set_shards] in H. apply In_set_key in H. destruct H as [[-> _]|H].
    + rewrite kg_part_shard; auto. apply starts_with_shard.
    + eapply Hs; eauto.
  - intros s ts0 H. cbn [shards set_readers set_shards] in H. apply In_set_key in H.
    destruct H as [[-> ->]|H]; [|apply (Ho s ts0 H)].
    rewrite kg_part_shard; auto.
    unfold shard_get. destruct (lookup (shard_name k rel) (shards g)) as [cur|] eqn:Lc.
    + apply lookup_Some_In in Lc. destruct (Ho _ _ Lc) as [Lf|(n & Hn & Ht)].
      * left. rewrite kg_part_shard in Lf; auto.
      * right. rewrite kg_part_shard in Hn; auto. exists n. split; auto.
        intros x tag Hx. destruct b.
        -- apply shard_add_tags in Hx. destruct Hx as [Hx| ->]; [eapply Ht; eauto|].
           rewrite Hkk in Hn. inversion Hn. symmetry. apply Hk. exact Hkk.
        -- apply shard_del_incl in Hx. eapply Ht; eauto.
    + right. exists (kinc mk). split; auto. intros x tag Hx. destruct b.
      * apply shard_add_tags in Hx. destruct Hx as [[]| ->]. symmetry. apply Hk. exact Hkk.
      * apply shard_del_incl in Hx. destruct Hx.
Qed.

Lemma filter_pending_other t k (p : list (nat * name)) t0 k0 :
  k0 <> k -> In (t0, k0) p ->
  In (t0, k0) (filter (fun e => negb (Nat.eqb (fst e) t && name_eqb (snd e) k)) p).
Proof.
  intros Hn Hi. apply filter_In. split; auto. cbn.
  rewrite (name_eqb_neq k0 k Hn). rewrite andb_false_r. reflexivity.
Qed.

Lemma GInv_kstep : forall t l g, GInv g -> GInv (snd (kstep true t l g)).
Proof.
  intros t l g G. pose proof G as ([Wm Wl] & Hk & Hs & Ho & Hl).
  unfold kstep. destruct (ktodo l) as [|o rest]; [exact G|].
  destruct o as [id k|id k|id k rel ts|id k rel ts|id k rel|id].
  - (* create *)
    destruct (kpc l).
    + destruct (negb (create_ok true k)); cbn; auto. destruct (mem_name k (dropping g)); cbn; auto.
    + destruct (create_ok true k) eqn:C; cbn; auto.
      destruct (lookup k (mem g)) eqn:L; cbn; auto.
      apply create_ok_no_colon in C. destruct C as [C _].
      set (ninc := S (inc_of g k)).
      set (rules := match lookup k (dirs g) with Some r => r | None => [] end).
      assert (Hmk : forall k0, option_map kinc (lookup k0 (mem g ++ [(k, mkKgm ninc [] rules)])) =
                               if name_eqb k k0 then Some ninc else mem_kinc g k0).
      { intros k0. destruct (name_eqb k k0) eqn:E.
        - apply name_eqb_eq in E. subst k0. rewrite lookup_app_None_same; auto.
        - rewrite lookup_app_other. reflexivity. intros ->. rewrite name_eqb_refl in E. discriminate. }
      assert (W' : nocolon (keys (mem g ++ [(k, mkKgm ninc [] rules)]))).
      { unfold keys. rewrite map_app. apply Forall_app. split; auto. cbn. constructor; auto. }
      repeat split; cbn [mem kglist unsaved shards pending]; auto.
      * intros k0 n0 H. unfold mem_kinc in H. cbn [mem] in H. rewrite Hmk in H.
        unfold inc_of. cbn [incs]. destruct (name_eqb k k0) eqn:E.
        -- apply name_eqb_eq in E. subst k0. rewrite lookup_set_key_same. congruence.
        -- rewrite lookup_set_key_other. apply Hk, H. intros ->. rewrite name_eqb_refl in E. discriminate.
      * intros s ts H. destruct (Ho s ts H) as [Lf|(n0 & Hn & Ht)]; [left; exact Lf|].
        right. exists n0. split; auto. unfold mem_kinc. cbn [mem]. rewrite Hmk.
        destruct (name_eqb k (kg_part s)) eqn:E; auto.
        apply name_eqb_eq in E. unfold mem_kinc in Hn. rewrite <- E, L in Hn. discriminate.
  - (* drop *)
    destruct (kpc l) as [|[|[|[|[|[|n]]]]]]; cbn.
    + destruct (name_eqb k default_kg); cbn; auto. destruct (lookup k (mem g)); cbn; auto.
    + destruct (readers g); cbn; auto; try (eapply GInv_ext; eauto; fail).
    + (* map removal *)
      assert (Hmk : forall k0, option_map kinc (lookup k0 (remove_key k (mem g))) =
                               if name_eqb k k0 then None else mem_kinc g k0).
      { intros k0. destruct (name_eqb k k0) eqn:E.
        - apply name_eqb_eq in E. subst k0. rewrite lookup_remove_key_same. reflexivity.
        - rewrite lookup_remove_key_other. reflexivity. intros ->. rewrite name_eqb_refl in E. discriminate. }
      repeat split; cbn [mem kglist unsaved shards pending incs]; auto.
      * eapply nocolon_incl; [exact Wm | apply keys_remove_key_incl].
      * intros k0 n0 H. unfold mem_kinc in H. cbn [mem] in H. rewrite Hmk in H.
        destruct (name_eqb k k0); try discriminate. apply Hk, H.
      * intros s ts H. destruct (Ho s ts H) as [(t0 & Lf)|(n0 & Hn & Ht)].
        -- left. exists t0. right. exact Lf.
        -- destruct (name_eqb k (kg_part s)) eqn:E.
           ++ left. exists t. left. apply name_eqb_eq in E. congruence.
           ++ right. exists n0. split; auto. unfold mem_kinc. cbn [mem]. rewrite Hmk, E. exact Hn.
      * intros U. discriminate.
    + (* save the list *)
      repeat split; cbn [mem kglist unsaved shards pending incs]; auto.
    + (* delete the shards of k *)
      repeat split; cbn [mem kglist unsaved shards pending incs]; auto.
      * intros s ts H. apply filter_In in H. destruct H as [H _]. eapply Hs; eauto.
      * intros s ts H. apply filter_In in H. destruct H as [H F]. cbn in F.
        apply negb_true_iff in F.
        assert (Hne : kg_part s <> k).
        { intros E. pose proof (Hs s ts H) as S. rewrite E in S. congruence. }
        destruct (Ho s ts H) as [(t0 & Lf)|R]; [left|right; exact R].
        exists t0. apply filter_pending_other; auto.
    + first [exact G | eapply GInv_ext; eauto].
    + destruct (readers g); cbn; auto; try (eapply GInv_ext; eauto; fail).
  - (* insert *)
    destruct (kpc l) as [|[|[|n]]]; cbn.
    + destruct (lookup k (mem g)) as [m|]; cbn; auto. destruct (mem_name rel (krules m)); cbn; auto.
    + destruct (persist_section true g k rel ts true) as [g'|] eqn:P; cbn; auto.
      eapply GInv_persist; eauto.
    + first [exact G | eapply GInv_ext; eauto].
    + destruct (lookup k (mem g)) as [m|] eqn:L; cbn; auto.
      eapply GInv_ext; eauto; cbn [mem set_mem].
      * eapply keys_set_key_present; eauto.
      * intros k0. unfold mem_kinc at 1. cbn [mem set_mem]. apply mem_kinc_set_key. exact L.
  - (* delete *)
    destruct (kpc l) as [|[|n]]; cbn.
    + destruct (lookup k (mem g)) as [m|]; cbn; auto.
      destruct (persist_section true g k rel ts false) as [g'|] eqn:P; cbn; auto.
      eapply GInv_persist; eauto.
    + first [exact G | eapply GInv_ext; eauto].
    + destruct (lookup k (mem g)) as [m|] eqn:L; cbn; auto.
      eapply GInv_ext; eauto; cbn [mem set_mem].
      * eapply keys_set_key_present; eauto.
      * intros k0. unfold mem_kinc at 1. cbn [mem set_mem]. apply mem_kinc_set_key. exact L.
  - (* rule *)
    destruct (lookup k (mem g)) as [m|] eqn:L; cbn; auto.
    eapply GInv_ext; eauto; cbn [mem].
    + eapply keys_set_key_present; eauto.
    + intros k0. unfold mem_kinc at 1. cbn [mem]. apply mem_kinc_set_key. exact L.
  - exact G.
Qed.

Lemma GInv_init : GInv kinit_g.
Proof.
  repeat split.
  - apply Wf_init.
  - apply Wf_init.
  - intros k n H. unfold mem_kinc, kinit_g in H. cbn in H.
    unfold inc_of, kinit_g. cbn. destruct (name_eqb k default_kg); cbn in *; congruence.
  - intros s ts [].
  - intros s ts [].
Qed.

(* ---- the ghost lists name exactly the threads that are inside a drop *)
Definition pend_ok (ls : list l17) (g : g17) : Prop :=
  (forall t k, In (t, k) (pending g) ->
     exists l id rest, nth_error ls t = Some l /\ ktodo l = KDrop id k :: rest /\
                       (kpc l = 3 \/ kpc l = 4)%nat) /\
  (forall t, In t (unsaved g) ->
     exists l id k rest, nth_error ls t = Some l /\ ktodo l = KDrop id k :: rest /\ kpc l = 3%nat).

Lemma pend_ok_D ls g t l l' g' :
  nth_error ls t = Some l -> pend_ok ls g ->
  pending g' = pending g -> unsaved g' = unsaved g ->
  (forall id k rest, ktodo l = KDrop id k :: rest -> kpc l <> 3%nat /\ kpc l <> 4%nat) ->
  pend_ok (upd ls t l') g'.
Proof.
  intros Hn [P U] Ep Eu Hd. split.
  - intros t0 k0 Hi. rewrite Ep in Hi. destruct (P t0 k0 Hi) as (l0 & id & rest & N0 & T0 & Pc).
    destruct (Nat.eq_dec t0 t) as [->|Ne].
    + rewrite Hn in N0. inversion N0; subst l0. destruct (Hd _ _ _ T0). lia.
    + exists l0, id, rest. rewrite nth_error_upd_other; auto.
  - intros t0 Hi. rewrite Eu in Hi. destruct (U t0 Hi) as (l0 & id & k & rest & N0 & T0 & Pc).
    destruct (Nat.eq_dec t0 t) as [->|Ne].
    + rewrite Hn in N0. inversion N0; subst l0. destruct (Hd _ _ _ T0). lia.
    + exists l0, id, k, rest. rewrite nth_error_upd_other; auto.
Qed.

Lemma persist_section_ghost fx g k rel ts b g' :
  persist_section fx g k rel ts b = Some g' -> pending g' = pending g /\ unsaved g' = unsaved g.
Proof.
  unfold persist_section. intros H.
  destruct (mem_name k (dropping g)); try discriminate.
  destruct (fx && match lookup k (mem g) with None => true | Some _ => false end); try discriminate.
  inversion H; subst. split; reflexivity.
Qed.

Lemma pend_ok_kstep : forall ls g t l,
    nth_error ls t = Some l -> pend_ok ls g ->
    pend_ok (upd ls t (fst (kstep true t l g))) (snd (kstep true t l g)).
Proof.
  intros ls g t l Hn HP. unfold kstep.
  destruct (ktodo l) as [|o rest] eqn:T.
  { cbn. eapply pend_ok_D; eauto. intros; congruence. }
  destruct o as [id k|id k|id k rel ts|id k rel ts|id k rel|id].
  - destruct (kpc l).
    + destruct (negb (create_ok true k)); cbn; [|destruct (mem_name k (dropping g)); cbn];
        (eapply pend_ok_D; eauto; intros; congruence).
    + destruct (negb (create_ok true k)); cbn; [|destruct (lookup k (mem g)); cbn];
        (eapply pend_ok_D; eauto; intros; congruence).
  - (* drop *)
    destruct HP as [P U].
    destruct (kpc l) as [|[|[|[|[|[|n]]]]]] eqn:Pc; cbn [fst snd].
    + destruct (name_eqb k default_kg); cbn; [|destruct (lookup k (mem g)); cbn];
        (eapply pend_ok_D; eauto; [split; auto | intros; lia]).
    + destruct (readers g); cbn; (eapply pend_ok_D; eauto; [split; auto | intros; lia]).
    + (* pc 2: map removal, the thread enters the ghost lists *)
      split; cbn [pending unsaved].
      * intros t0 k0 [E|Hi].
        -- inversion E; subst t0 k0. exists (kadvance l), id, rest.
           rewrite (nth_error_upd_same ls t (kadvance l) l Hn). cbn. rewrite T, Pc. auto.
        -- destruct (P t0 k0 Hi) as (l0 & id0 & rest0 & N0 & T0 & Pc0).
           destruct (Nat.eq_dec t0 t) as [->|Ne].
           ++ rewrite Hn in N0. inversion N0; subst l0. lia.
           ++ exists l0, id0, rest0. rewrite nth_error_upd_other; auto.
      * intros t0 [E|Hi].
        -- subst t0. exists (kadvance l), id, k, rest.
           rewrite (nth_error_upd_same ls t (kadvance l) l Hn). cbn. rewrite T, Pc. auto.
        -- destruct (U t0 Hi) as (l0 & id0 & k1 & rest0 & N0 & T0 & Pc0).
           destruct (Nat.eq_dec t0 t) as [->|Ne].
           ++ rewrite Hn in N0. inversion N0; subst l0. lia.
           ++ exists l0, id0, k1, rest0. rewrite nth_error_upd_other; auto.
    + (* pc 3: list saved, the thread leaves `unsaved` *)
      split; cbn [pending unsaved].
      * intros t0 k0 Hi. destruct (P t0 k0 Hi) as (l0 & id0 & rest0 & N0 & T0 & Pc0).
        destruct (Nat.eq_dec t0 t) as [->|Ne].
        -- rewrite Hn in N0. inversion N0; subst l0. exists (kadvance l), id0, rest0.
           rewrite (nth_error_upd_same ls t (kadvance l) l Hn). cbn. rewrite Pc. auto.
        -- exists l0, id0, rest0. rewrite nth_error_upd_other; auto.
      * intros t0 Hi. apply filter_In in Hi. destruct Hi as [Hi F].
        apply negb_true_iff, Nat.eqb_neq in F.
        destruct (U t0 Hi) as (l0 & id0 & k1 & rest0 & N0 & T0 & Pc0).
        exists l0, id0, k1, rest0. rewrite nth_error_upd_other; auto.
    + (* pc 4: shards deleted, the thread leaves `pending` *)
      split; cbn [pending unsaved].
      * intros t0 k0 Hi. apply filter_In in Hi. destruct Hi as [Hi F]. cbn in F.
        destruct (P t0 k0 Hi) as (l0 & id0 & rest0 & N0 & T0 & Pc0).
        destruct (Nat.eq_dec t0 t) as [->|Ne].
        -- rewrite Hn in N0. inversion N0; subst l0. rewrite T in T0. inversion T0; subst.
           rewrite Nat.eqb_refl, name_eqb_refl in F. discriminate.
        -- exists l0, id0, rest0. rewrite nth_error_upd_other; auto.
      * intros t0 Hi. destruct (U t0 Hi) as (l0 & id0 & k1 & rest0 & N0 & T0 & Pc0).
        destruct (Nat.eq_dec t0 t) as [->|Ne].
        -- rewrite Hn in N0. inversion N0; subst l0. lia.
        -- exists l0, id0, k1, rest0. rewrite nth_error_upd_other; auto.
    + eapply pend_ok_D; eauto; [split; auto | intros; lia].
    + destruct (readers g); cbn; (eapply pend_ok_D; eauto; [split; auto | intros; lia]).
  - destruct (kpc l) as [|[|[|n]]]; cbn [fst snd].
    + destruct (lookup k (mem g)) as [m|]; cbn; [destruct (mem_name rel (krules m)); cbn|];
        (eapply pend_ok_D; eauto; intros; congruence).
    + destruct (persist_section true g k rel ts true) as [g'|] eqn:Ps; cbn.
      * destruct (persist_section_ghost _ _ _ _ _ _ _ Ps). eapply pend_ok_D; eauto. intros; congruence.
      * eapply pend_ok_D; eauto. intros; congruence.
    + eapply pend_ok_D; eauto. intros; congruence.
    + destruct (lookup k (mem g)); cbn; (eapply pend_ok_D; eauto; intros; congruence).
  - destruct (kpc l) as [|[|n]]; cbn [fst snd].
    + destruct (lookup k (mem g)) as [m|]; cbn.
      * destruct (persist_section true g k rel ts false) as [g'|] eqn:Ps; cbn.
        -- destruct (persist_section_ghost _ _ _ _ _ _ _ Ps). eapply pend_ok_D; eauto. intros; congruence.
        -- eapply pend_ok_D; eauto. intros; congruence.
      * eapply pend_ok_D; eauto. intros; congruence.
    + eapply pend_ok_D; eauto. intros; congruence.
    + destruct (lookup k (mem g)); cbn; (eapply pend_ok_D; eauto; intros; congruence).
  - destruct (lookup k (mem g)); cbn; (eapply pend_ok_D; eauto; intros; congruence).
  - cbn. eapply pend_ok_D; eauto. intros; congruence.
Qed.

Definition all_done (ls : list l17) : Prop := Forall (fun l => ktodo l = []) ls.

Theorem finality_invariant : forall progs sched,
    let r := run_sched (kstep true) sched (map kinit_l progs) kinit_g in
    GInv (snd r) /\ pend_ok (fst r) (snd r).
Proof.
  intros progs sched. cbn zeta.
  apply (run_sched_inv (kstep true) (fun ls g => GInv g /\ pend_ok ls g)).
  - intros ls g t l Hn [G P]. split. apply GInv_kstep; auto. apply pend_ok_kstep; auto.
  - split. apply GInv_init. split; intros ? ? ; try intros ?; cbn in *; contradiction.
Qed.

Lemma done_no_ghosts ls g : all_done ls -> pend_ok ls g -> pending g = [] /\ unsaved g = [].
Proof.
  intros D [P U]. unfold all_done in D. rewrite Forall_forall in D. split.
  - destruct (pending g) as [|[t k] r]; auto.
    destruct (P t k (or_introl eq_refl)) as (l & id & rest & N & T & _).
    apply nth_error_In in N. rewrite (D l N) in T. discriminate.
  - destruct (unsaved g) as [|t r]; auto.
    destruct (U t (or_introl eq_refl)) as (l & id & k & rest & N & T & _).
    apply nth_error_In in N. rewrite (D l N) in T. discriminate.
Qed.

(* DROP FINALITY, all schedules: once every client has returned, every shard on disk belongs to a
   knowledge graph that is in the map and holds only tuples written during that graph's current
   incarnation, and the persisted KG list is the map's key set. *)
Theorem drop_final : forall progs sched,
    let r := run_sched (kstep true) sched (map kinit_l progs) kinit_g in
    all_done (fst r) ->
    (forall s ts, In (s, ts) (shards (snd r)) ->
       exists m, lookup (kg_part s) (mem (snd r)) = Some m /\
                 forall x tag, In (x, tag) ts -> tag = kinc m) /\
    kglist (snd r) = keys (mem (snd r)).
Proof.
  intros progs sched. cbn zeta. intros D.
  destruct (finality_invariant progs sched) as [(W & Hk & Hs & Ho & Hl) P].
  destruct (done_no_ghosts _ _ D P) as [Ep Eu]. split.
  - intros s ts Hi. destruct (Ho s ts Hi) as [(t & Lf)|(n & Hn & Ht)].
    + rewrite Ep in Lf. destruct Lf.
    + unfold mem_kinc in Hn. destruct (lookup (kg_part s) (mem _)) as [m|] eqn:L; try discriminate.
      exists m. split; auto. cbn in Hn. inversion Hn; subst. exact Ht.
  - apply Hl, Eu.
Qed.

(* hence a restart at that point brings back no knowledge graph that is not in the map *)
Corollary no_resurrection : forall progs sched k,
    let r := run_sched (kstep true) sched (map kinit_l progs) kinit_g in
    all_done (fst r) -> In k (restart_names (snd r)) -> In k (keys (mem (snd r))).
Proof.
  intros progs sched k. cbn zeta. intros D Hi.
  destruct (drop_final progs sched D) as [Hs Hl].
  apply dedup_names_incl in Hi. apply in_app_or in Hi. destruct Hi as [Hi|Hi].
  - apply in_map_iff in Hi. destruct Hi as ([s ts] & <- & Hin). cbn.
    destruct (Hs s ts Hin) as (m & L & _). eapply lookup_Some_in_keys; eauto.
  - rewrite Hl in Hi. exact Hi.
Qed.
