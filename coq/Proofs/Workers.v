(* C03: partitioned execution returns the single-worker answer whenever the guard lets it run.
   Everything about the guard comes from [guard_ok] (an obligation on the generated table). *)
From Coq Require Import Permutation.
From IL Require Import Model.Value Model.IR Model.Workers Proofs.ValueEq Proofs.IR.
Open Scope nat_scope.

(* ------------------------------------------------------------------ facts from the generated table *)
Lemma kind_ok_of k : guard_ok = true -> In k all_gkinds -> kind_ok k = true.
Proof. unfold guard_ok. intros H HI. exact (proj1 (forallb_forall _ _) H k HI). Qed.

Ltac in_kinds := cbn; repeat (first [left; reflexivity | right]).

(* a kind that the guard lets through is distributive and its inputs are inspected *)
Lemma free_kind k :
  guard_ok = true -> In k all_gkinds ->
  guard_action k <> GForce ->
  distributive_kind k = true /\ guard_action k <> GPartial /\
  (guard_action k = GFree -> gkind_inputs k = 0).
Proof.
  intros HG HI HF. pose proof (kind_ok_of k HG HI) as HK. unfold kind_ok in HK.
  destruct (guard_action k); try congruence.
  - apply andb_true_iff in HK. destruct HK as [HD HN]. apply Nat.eqb_eq in HN.
    repeat split; auto; congruence.
  - repeat split; auto; congruence.
Qed.

(* ------------------------------------------------------------------ partitions *)
Section Part.
Variable h : tuple -> nat.
Variable n : nat.
Hypothesis Hn : n > 0.

Lemma lookup_partition w d r :
  lookup_rel (partition h n w d) r = part_rel h n w (lookup_rel d r).
Proof.
  induction d as [|[r' ts] d IH]; cbn; [reflexivity|].
  destruct (N.eqb r r'); [reflexivity | exact IH].
Qed.

Lemma scan_cover d r x :
  In x (lookup_rel d r) <-> exists w, w < n /\ In x (lookup_rel (partition h n w d) r).
Proof.
  split.
  - intros HI. exists (h x mod n). split; [apply Nat.mod_upper_bound; lia|].
    rewrite lookup_partition. unfold part_rel. apply filter_In. split; [exact HI | apply Nat.eqb_refl].
  - intros [w [_ HI]]. rewrite lookup_partition in HI. unfold part_rel in HI.
    apply filter_In in HI. tauto.
Qed.

(* the set-level distribution property of one plan over the partition of [d] *)
Definition distributes (t : ir) (d : db) : Prop :=
  forall x, In x (den t d) <-> exists w, w < n /\ In x (den t (partition h n w d)).

Lemma distributes_map (f : tuple -> tuple) t d :
  distributes t d ->
  forall x, In x (map f (den t d)) <-> exists w, w < n /\ In x (map f (den t (partition h n w d))).
Proof.
  intros IH x. rewrite in_map_iff. split.
  - intros [y [E HI]]. apply IH in HI. destruct HI as [w [Hw HI]]. exists w. split; [exact Hw|].
    apply in_map_iff. exists y. tauto.
  - intros [w [Hw HI]]. apply in_map_iff in HI. destruct HI as [y [E HI]]. exists y. split; [exact E|].
    apply IH. exists w. tauto.
Qed.

Lemma distributes_flat_map (f : tuple -> list tuple) t d :
  distributes t d ->
  forall x, In x (flat_map f (den t d)) <->
            exists w, w < n /\ In x (flat_map f (den t (partition h n w d))).
Proof.
  intros IH x. rewrite in_flat_map. split.
  - intros [y [HI E]]. apply IH in HI. destruct HI as [w [Hw HI]]. exists w. split; [exact Hw|].
    apply in_flat_map. exists y. tauto.
  - intros [w [Hw HI]]. apply in_flat_map in HI. destruct HI as [y [HI E]]. exists y. split; [|exact E].
    apply IH. exists w. tauto.
Qed.

Lemma distributes_filter (f : tuple -> bool) t d :
  distributes t d ->
  forall x, In x (filter f (den t d)) <-> exists w, w < n /\ In x (filter f (den t (partition h n w d))).
Proof.
  intros IH x. rewrite filter_In. split.
  - intros [HI E]. apply IH in HI. destruct HI as [w [Hw HI]]. exists w. split; [exact Hw|].
    apply filter_In. tauto.
  - intros [w [Hw HI]]. apply filter_In in HI. split; [|tauto]. apply IH. exists w. tauto.
Qed.

Local Opaque guard_action.

Theorem guard_false_distributes :
  guard_ok = true ->
  forall t d, guard t = false -> distributes t d.
Proof.
  intros HG t d. induction t using ir_ind'; intros Hg.
  - (* Scan *) intros x. cbn [den]. apply scan_cover.
  - (* Map *)
    assert (HA : guard_action GMap <> GForce) by (intros E; cbn in Hg; rewrite E in Hg; discriminate).
    destruct (free_kind GMap HG ltac:(in_kinds) HA) as [_ [HP HF]].
    assert (Hx : guard t = false).
    { cbn in Hg. destruct (guard_action GMap) eqn:E; try congruence. specialize (HF eq_refl). discriminate. }
    unfold distributes; cbn [den]. apply distributes_map. auto.
  - (* Filter *)
    assert (HA : guard_action GFilter <> GForce) by (intros E; cbn in Hg; rewrite E in Hg; discriminate).
    destruct (free_kind GFilter HG ltac:(in_kinds) HA) as [_ [HP HF]].
    assert (Hx : guard t = false).
    { cbn in Hg. destruct (guard_action GFilter) eqn:E; try congruence. specialize (HF eq_refl). discriminate. }
    unfold distributes; cbn [den]. apply distributes_filter. auto.
  - (* Join: never let through *)
    assert (HA : guard_action GJoin <> GForce) by (intros E; cbn in Hg; rewrite E in Hg; discriminate).
    destruct (free_kind GJoin HG ltac:(in_kinds) HA) as [HD _]. discriminate.
  - (* Distinct *)
    assert (HA : guard_action GDistinct <> GForce) by (intros E; cbn in Hg; rewrite E in Hg; discriminate).
    destruct (free_kind GDistinct HG ltac:(in_kinds) HA) as [_ [HP HF]].
    assert (Hx : guard t = false).
    { cbn in Hg. destruct (guard_action GDistinct) eqn:E; try congruence. specialize (HF eq_refl). discriminate. }
    intros x. cbn [den]. rewrite dedup_tuples_In. rewrite (IHt Hx x).
    split; intros [w [Hw HI]]; exists w; (split; [exact Hw|]).
    + rewrite dedup_tuples_In. exact HI.
    + rewrite dedup_tuples_In in HI. exact HI.
  - (* Union *)
    assert (HA : guard_action GUnion <> GForce) by (intros E; cbn in Hg; rewrite E in Hg; discriminate).
    destruct (free_kind GUnion HG ltac:(in_kinds) HA) as [_ [HP HF]].
    assert (Hx : existsb guard ts = false).
    { cbn in Hg. destruct (guard_action GUnion) eqn:E; try congruence. specialize (HF eq_refl). discriminate. }
    intros x. cbn [den]. rewrite in_flat_map. split.
    + intros [y [Hy HI]].
      assert (Hgy : guard y = false).
      { destruct (guard y) eqn:Ey; [|reflexivity].
        assert (existsb guard ts = true) by (apply existsb_exists; exists y; tauto). congruence. }
      rewrite Forall_forall in H. apply (H y Hy Hgy) in HI. destruct HI as [w [Hw HI]].
      exists w. split; [exact Hw|]. apply in_flat_map. exists y. tauto.
    + intros [w [Hw HI]]. apply in_flat_map in HI. destruct HI as [y [Hy HI]]. exists y. split; [exact Hy|].
      assert (Hgy : guard y = false).
      { destruct (guard y) eqn:Ey; [|reflexivity].
        assert (existsb guard ts = true) by (apply existsb_exists; exists y; tauto). congruence. }
      rewrite Forall_forall in H. apply (H y Hy Hgy). exists w. tauto.
  - (* Aggregate: never let through *)
    assert (HA : guard_action GAggregate <> GForce) by (intros E; cbn in Hg; rewrite E in Hg; discriminate).
    destruct (free_kind GAggregate HG ltac:(in_kinds) HA) as [HD _]. discriminate.
  - (* Antijoin *)
    assert (HA : guard_action GAntijoin <> GForce) by (intros E; cbn in Hg; rewrite E in Hg; discriminate).
    destruct (free_kind GAntijoin HG ltac:(in_kinds) HA) as [HD _]. discriminate.
  - (* Compute *)
    assert (HA : guard_action GCompute <> GForce) by (intros E; cbn in Hg; rewrite E in Hg; discriminate).
    destruct (free_kind GCompute HG ltac:(in_kinds) HA) as [_ [HP HF]].
    assert (Hx : guard t = false).
    { cbn in Hg. destruct (guard_action GCompute) eqn:E; try congruence. specialize (HF eq_refl). discriminate. }
    unfold distributes; cbn [den]. apply distributes_map. auto.
  - (* HnswScan: empty everywhere *)
    intros x. cbn [den]. split; [intros [] | intros [w [_ []]]].
  - (* FlatMap *)
    assert (HA : guard_action GFlatMap <> GForce) by (intros E; cbn in Hg; rewrite E in Hg; discriminate).
    destruct (free_kind GFlatMap HG ltac:(in_kinds) HA) as [_ [HP HF]].
    assert (Hx : guard t = false).
    { cbn in Hg. destruct (guard_action GFlatMap) eqn:E; try congruence. specialize (HF eq_refl). discriminate. }
    unfold distributes; cbn [den]. unfold den_flatmap. apply distributes_flat_map. auto.
  - (* JoinFlatMap *)
    assert (HA : guard_action GJoinFlatMap <> GForce) by (intros E; cbn in Hg; rewrite E in Hg; discriminate).
    destruct (free_kind GJoinFlatMap HG ltac:(in_kinds) HA) as [HD _]. discriminate.
Qed.

Theorem exec_workers_correct :
  guard_ok = true ->
  forall t d, Permutation (exec_workers h n t d) (dens t d).
Proof.
  intros HG t d. unfold exec_workers.
  destruct (Nat.eqb n 1 || guard t) eqn:E; [apply Permutation_refl|].
  apply orb_false_iff in E. destruct E as [_ Hg].
  apply NoDup_Permutation; try apply dedup_tuples_NoDup.
  intros x. unfold dens. rewrite !dedup_tuples_In. rewrite in_flat_map.
  rewrite (guard_false_distributes HG t d Hg x). split.
  - intros [w [Hw HI]]. apply in_seq in Hw. rewrite dedup_tuples_In in HI. exists w. split; [lia | exact HI].
  - intros [w [Hw HI]]. exists w. split; [apply in_seq; lia | rewrite dedup_tuples_In; exact HI].
Qed.
End Part.
