(* Lemmas for C04, C07, C08, C34 over Model/Datalog.v. *)
From IL Require Import Model.Value Model.Datalog Proofs.ValueEq Proofs.DatalogMono Proofs.DatalogSpec.
From Coq Require Import Lia Permutation.
Open Scope N_scope.

(* ------------------------------------------------------------------ heads *)
Lemma heads_of_complete p : forall seen c, In c p -> In (chead c) seen \/ In (chead c) (heads_of p seen).
Proof.
  induction p as [|c0 p IH]; intros seen c Hc; [destruct Hc|]. cbn [heads_of].
  destruct (existsb (N.eqb (chead c0)) seen) eqn:E.
  - destruct Hc as [<-|Hc]; [|apply IH, Hc]. left.
    apply existsb_exists in E. destruct E as [x [Hx Ex]]. apply N.eqb_eq in Ex; subst; exact Hx.
  - destruct Hc as [<-|Hc]; [right; left; reflexivity|].
    destruct (IH (chead c0 :: seen) c Hc) as [[<-|H]|H]; [right; left; reflexivity|left; exact H|right; right; exact H].
Qed.

Lemma heads_complete p c : In c p -> In (chead c) (heads p).
Proof. intros H. destruct (heads_of_complete p [] c H) as [[]|H']; exact H'. Qed.

Lemma head_refs_head p h r b : In (r, b) (head_refs p h) -> In h (heads p).
Proof.
  intros H. unfold head_refs in H. apply in_flat_map in H. destruct H as [c [Hc _]].
  apply clauses_of_In in Hc. destruct Hc as [Hc <-]. apply heads_complete, Hc.
Qed.

(* ------------------------------------------------------------------ C34 *)
Definition respects (Lv : rel -> nat) (p : program) : Prop :=
  forall h r b, In (r, b) (head_refs p h) -> if b : bool then (Lv r < Lv h)%nat else (Lv r <= Lv h)%nat.

Lemma reach_bound p Lv a : respects Lv p -> forall fuel front seen,
  (forall x, In x seen -> (Lv x <= Lv a)%nat) -> (forall x, In x front -> (Lv x <= Lv a)%nat) ->
  forall y, In y (reach fuel p (heads p) front seen) -> (Lv y <= Lv a)%nat.
Proof.
  intros HR. induction fuel as [|f IH]; intros front seen Hs Hf y Hy; cbn [reach] in Hy; [apply Hs, Hy|].
  set (nxt := nodupN (flat_map (fun h => filter (fun r => memN r (heads p)) (map fst (head_refs p h))) front)) in *.
  assert (Hn : forall x, In x nxt -> (Lv x <= Lv a)%nat).
  { intros x Hx. unfold nxt in Hx.
    assert (Hx' : In x (flat_map (fun h => filter (fun r => memN r (heads p)) (map fst (head_refs p h))) front)).
    { clear - Hx. revert Hx. generalize (flat_map (fun h => filter (fun r => memN r (heads p)) (map fst (head_refs p h))) front).
      intros l. induction l as [|z l IHl]; cbn; [tauto|].
      destruct (existsb (N.eqb z) l); cbn; intros H; [right; apply IHl, H|].
      destruct H as [<-|H]; [left; reflexivity|right; apply IHl, H]. }
    apply in_flat_map in Hx'. destruct Hx' as [h [Hh Hx']]. apply filter_In in Hx'. destruct Hx' as [Hx' _].
    apply in_map_iff in Hx'. destruct Hx' as [[r b] [E Hr]]. cbn in E; subst r.
    pose proof (HR h x b Hr) as Hl. pose proof (Hf h Hh). destruct b; lia. }
  destruct (filter (fun r => negb (memN r seen)) nxt) as [|z fresh] eqn:Ef; [apply Hs, Hy|].
  apply (IH (z :: fresh) (seen ++ z :: fresh)); [| |exact Hy].
  - intros x Hx. apply in_app_or in Hx. destruct Hx as [Hx|Hx]; [apply Hs, Hx|].
    apply Hn. rewrite <- Ef in Hx. apply filter_In in Hx. tauto.
  - intros x Hx. apply Hn. rewrite <- Ef in Hx. apply filter_In in Hx. tauto.
Qed.

Lemma reaches_bound p Lv a b : respects Lv p -> reaches p a b = true -> (Lv b <= Lv a)%nat.
Proof.
  intros HR H. unfold reaches in H. apply memN_In in H.
  eapply (reach_bound p Lv a HR _ [a] []); [intros x []| |exact H].
  intros x [<-|[]]. lia.
Qed.

Lemma stratifiable_no_neg_cycle p Lv : respects Lv p -> neg_cycle p = false.
Proof.
  intros HR. destruct (neg_cycle p) eqn:E; [exfalso|reflexivity].
  unfold neg_cycle in E. apply existsb_exists in E. destruct E as [h [Hh E]].
  apply existsb_exists in E. destruct E as [[r b] [Hr E]]. cbn [fst snd] in E.
  apply andb_true_iff in E. destruct E as [Eb E]. subst b.
  pose proof (HR h r true Hr) as Hlt. cbn in Hlt.
  apply orb_true_iff in E. destruct E as [E|E].
  - apply N.eqb_eq in E; subst. lia.
  - pose proof (reaches_bound p Lv r h HR E). lia.
Qed.

Lemma stratified_respects p : no_agg p -> stratified p = true -> respects (L p) p.
Proof.
  intros Ha Hs h r b Hr. pose proof (head_refs_head p h r b Hr) as Hh.
  destruct b; [apply (level_neg p Ha Hs h r Hh Hr)|apply (level_pos p Ha Hs h r Hh Hr)].
Qed.

(* ------------------------------------------------------------------ C07 *)
Lemma inst_head_shape th hs t : inst_head th hs = Some t ->
  length t = length hs /\ forall i v, nth_error hs i = Some (HConst v) -> nth_error t i = Some v.
Proof.
  revert t; induction hs as [|h hs IH]; intros t H; cbn in H.
  - inversion H; subst. split; [reflexivity|]. intros [|i] v E; discriminate.
  - destruct (inst_hterm th h) as [v0|] eqn:E1; [|discriminate].
    destruct (inst_head th hs) as [t0|] eqn:E2; [|discriminate]. inversion H; subst.
    destruct (IH t0 eq_refl) as [IH1 IH2]. split; [cbn; lia|].
    intros [|i] v E; cbn in *.
    + inversion E; subst. cbn in E1. symmetry. exact E1.
    + apply IH2, E.
Qed.

(* a tuple is a well-formed instance of clause c: right arity, head constants verbatim *)
Definition wf_inst (c : clause) (t : tuple) : Prop :=
  length t = length (cargs c) /\ forall i v, nth_error (cargs c) i = Some (HConst v) -> nth_error t i = Some v.

Definition wf_for (p : program) (h : rel) (t : tuple) : Prop :=
  exists c, In c p /\ chead c = h /\ (has_agg c = false -> wf_inst c t).

Lemma eval_clause_wf d c t : In t (eval_clause d c) -> has_agg c = false -> wf_inst c t.
Proof.
  intros Ht Ha. unfold eval_clause in Ht. rewrite Ha in Ht. unfold eval_clause_plain in Ht.
  apply (proj1 (dedup_tuples_In _ _)) in Ht. apply in_flat_map in Ht. destruct Ht as [th [_ Ht]].
  destruct (inst_head th (cargs c)) as [t0|] eqn:E; cbn in Ht; [|destruct Ht].
  destruct Ht as [<-|[]]. apply (inst_head_shape th (cargs c) t0 E).
Qed.

Lemma apply_head_wf p d h t : In t (apply_head p d h) -> wf_for p h t.
Proof.
  intros Ht. unfold apply_head in Ht. apply (proj1 (dedup_tuples_In _ _)) in Ht.
  apply in_flat_map in Ht. destruct Ht as [c [Hc Ht]]. apply clauses_of_In in Hc. destruct Hc as [Hc Hh].
  exists c. split; [exact Hc|]. split; [exact Hh|]. intros Ha. apply (eval_clause_wf d c t Ht Ha).
Qed.

Lemma local_lfp_wf p env h : forall f cur X, NoDup cur -> (forall t, In t cur -> wf_for p h t) ->
  local_lfp f p env h cur = Some X -> NoDup X /\ forall t, In t X -> wf_for p h t.
Proof.
  induction f as [|f IH]; intros cur X Hnd Hwf H; cbn in H; [discriminate|].
  destruct (Nat.eqb _ _).
  - inversion H; subst. split; assumption.
  - apply (IH (dedup_tuples (cur ++ apply_head p (set_rel env h cur) h)) X); [apply dedup_tuples_NoDup| |exact H].
    intros t Ht. apply (proj1 (dedup_tuples_In _ _)) in Ht. apply in_app_or in Ht.
    destruct Ht as [Ht|Ht]; [apply Hwf, Ht|eapply apply_head_wf, Ht].
Qed.

Lemma run_node_wf fuel p env h res : run_node fuel p env h = Some res ->
  NoDup res /\ forall t, In t res -> wf_for p h t.
Proof.
  unfold run_node. destruct (self_rec p h).
  - apply local_lfp_wf; [constructor|intros t []].
  - intros H; inversion H; subst. split; [apply dedup_tuples_NoDup|]. intros t. apply apply_head_wf.
Qed.

Lemma run_nodes_wf fuel p : forall o env l0 env' ans,
  run_nodes fuel p o env l0 = Some (env', ans) ->
  match o with [] => ans = l0 | _ => NoDup ans /\ forall t, In t ans -> wf_for p (last o 0) t end.
Proof.
  induction o as [|h o IH]; intros env l0 env' ans H; cbn in H; [inversion H; reflexivity|].
  destruct (run_node fuel p env h) as [res|] eqn:R; [|discriminate].
  specialize (IH _ _ _ _ H). destruct o as [|h2 o2]; [subst ans; apply (run_node_wf fuel p env h res R)|exact IH].
Qed.

Lemma engine_wf fuel p edb ans : eval_engine fuel p edb = Some ans -> topo_order p <> [] ->
  NoDup ans /\ forall t, In t ans -> wf_for p (engine_query p) t.
Proof.
  unfold eval_engine. destruct (run_nodes fuel p (topo_order p) edb []) as [[env' a]|] eqn:R; [|discriminate].
  intros H Hne; inversion H; subst a. pose proof (run_nodes_wf fuel p _ _ _ _ _ R) as W.
  unfold engine_query. destruct (topo_order p); [contradiction|exact W].
Qed.

(* ------------------------------------------------------------------ C04 *)
Lemma clauses_of_perm p p' h : Permutation p p' -> Permutation (clauses_of p h) (clauses_of p' h).
Proof.
  intros H. unfold clauses_of. induction H; cbn.
  - constructor.
  - destruct (N.eqb (chead x) h); [constructor|]; exact IHPermutation.
  - destruct (N.eqb (chead y) h), (N.eqb (chead x) h); try apply Permutation_refl. apply perm_swap.
  - eapply Permutation_trans; eauto.
Qed.

Lemma apply_head_perm p p' d h : Permutation p p' -> seq (apply_head p d h) (apply_head p' d h).
Proof.
  intros H. pose proof (clauses_of_perm p p' h H) as Hc.
  split; intros t Ht; unfold apply_head in *; apply (proj1 (dedup_tuples_In _ _)) in Ht; apply dedup_tuples_In;
    apply in_flat_map in Ht; destruct Ht as [c [Hc' Ht]]; apply in_flat_map; exists c; split; try exact Ht.
  - eapply Permutation_in; eauto.
  - eapply Permutation_in; [apply Permutation_sym; exact Hc|exact Hc'].
Qed.

(* repeating a clause changes nothing *)
Lemma apply_head_dup p c d h : In c p -> seq (apply_head (c :: p) d h) (apply_head p d h).
Proof.
  intros Hc. split; intros t Ht; unfold apply_head in *; apply (proj1 (dedup_tuples_In _ _)) in Ht;
    apply dedup_tuples_In; apply in_flat_map in Ht; destruct Ht as [c' [Hc' Ht]]; apply in_flat_map;
    exists c'; split; try exact Ht; apply clauses_of_In in Hc'; apply clauses_of_In; destruct Hc' as [H1 H2]; split; auto.
  - destruct H1 as [<-|H1]; assumption.
  - right; exact H1.
Qed.

(* evaluation never changes a stored (non-head) relation *)
Lemma run_nodes_base fuel p : forall o env l0 env' ans,
  run_nodes fuel p o env l0 = Some (env', ans) ->
  forall r, ~ In r o -> get env' r = get env r.
Proof.
  induction o as [|h o IH]; intros env l0 env' ans H r Hr; cbn in H; [inversion H; reflexivity|].
  destruct (run_node fuel p env h) as [res|]; [|discriminate].
  rewrite (IH _ _ _ _ H r); [|intros Hin; apply Hr; right; exact Hin].
  rewrite get_set_rel. destruct (N.eqb r h) eqn:E; [|reflexivity].
  apply N.eqb_eq in E; subst. exfalso; apply Hr; left; reflexivity.
Qed.

(* ------------------------------------------------------------------ C08 *)
Section Limit.
  Variable n : nat.
  Variable pick : list tuple -> list tuple.
  Hypothesis pick_incl : forall l, incl (pick l) l.
  Hypothesis pick_len : forall l, length (pick l) = Nat.min n (length l).
  Hypothesis pick_nodup : forall l, NoDup l -> NoDup (pick l).

  Lemma limit_truncates fuel p edb A Lm :
    eval_engine fuel p edb = Some A -> eval_limit pick fuel p edb = Some Lm ->
    incl Lm A /\ length Lm = Nat.min n (length A) /\ (NoDup A -> NoDup Lm).
  Proof.
    intros HA HL. unfold eval_limit in HL. rewrite HA in HL. cbn in HL. inversion HL; subst.
    split; [apply pick_incl|]. split; [apply pick_len|apply pick_nodup].
  Qed.
End Limit.

Lemma firstn_incl {A} n : forall l : list A, incl (firstn n l) l.
Proof.
  induction n as [|n IH]; intros [|x l] t Ht; cbn in Ht; try (destruct Ht; fail).
  destruct Ht as [<-|H]; [left; reflexivity|right; apply IH, H].
Qed.

Lemma firstn_is_pick n : (forall l : list tuple, incl (firstn n l) l) /\
  (forall l : list tuple, length (firstn n l) = Nat.min n (length l)) /\
  (forall l : list tuple, NoDup l -> NoDup (firstn n l)).
Proof.
  split; [|split].
  - intros l. apply firstn_incl.
  - intros l. apply firstn_length.
  - intros l H. revert n; induction H as [|x l Hx Hnd IH]; intros [|k]; cbn; try constructor.
    + intros Hin. apply Hx. apply (firstn_incl k l x Hin).
    + apply IH.
Qed.
