(* Proofs/SyntaxBase.v — string and number lemmas for Model/Syntax.v *)
From IL Require Import Model.Syntax Model.SyntaxWf.
Open Scope N_scope.

(* ------------------------------------------------------------------ generic list facts *)
Lemma forallb_app_iff {A} (p : A -> bool) a b :
  forallb p (a ++ b) = forallb p a && forallb p b.
Proof. apply forallb_app. Qed.

Lemma forallb_rev {A} (p : A -> bool) l : forallb p (rev l) = forallb p l.
Proof.
  induction l; cbn [rev forallb]; auto.
  rewrite forallb_app, IHl. cbn. rewrite andb_true_r. apply andb_comm.
Qed.

Lemma forallb_In {A} (p : A -> bool) l x : forallb p l = true -> In x l -> p x = true.
Proof. intros H I. rewrite forallb_forall in H. auto. Qed.

Lemma str_eqb_refl s : str_eqb s s = true.
Proof. induction s; cbn; auto. rewrite N.eqb_refl. auto. Qed.
Lemma str_eqb_eq a b : str_eqb a b = true <-> a = b.
Proof.
  revert b; induction a; destruct b; cbn; split; intros H; try congruence; auto.
  - apply andb_true_iff in H as [H1 H2]. apply N.eqb_eq in H1. apply IHa in H2. congruence.
  - inversion H; subst. rewrite N.eqb_refl. apply IHa. auto.
Qed.
Lemma str_eqb_sym a b : str_eqb a b = str_eqb b a.
Proof.
  revert b; induction a as [|x a IH]; destruct b as [|y b]; cbn; auto. rewrite N.eqb_sym, IH. reflexivity.
Qed.
Lemma str_eqb_neq a b : a <> b -> str_eqb a b = false.
Proof. intros H. destruct (str_eqb a b) eqn:E; auto. apply str_eqb_eq in E. contradiction. Qed.

(* ------------------------------------------------------------------ trim *)
Definition first_nws (s : str) : bool := match s with c :: _ => negb (is_ws c) | [] => false end.
Definition last_nws (s : str) : bool := first_nws (rev s).

Lemma drop_ws_id s : first_nws s = true -> drop_ws s = s.
Proof. destruct s; cbn; auto. intros H. apply negb_true_iff in H. rewrite H. auto. Qed.

Lemma trim_id s : first_nws s = true -> last_nws s = true -> trim s = s.
Proof.
  intros F L. unfold trim. rewrite (drop_ws_id s F). unfold last_nws in L.
  rewrite (drop_ws_id _ L). apply rev_involutive.
Qed.
Lemma trim_nil : trim [] = [].
Proof. reflexivity. Qed.
Lemma trim_ws_cons c s : is_ws c = true -> trim (c :: s) = trim s.
Proof. intros H. unfold trim. cbn [drop_ws]. rewrite H. auto. Qed.
Lemma trim_sp s : trim (32 :: s) = trim s.
Proof. apply trim_ws_cons. reflexivity. Qed.

Lemma first_nws_app s t : first_nws s = true -> first_nws (s ++ t) = true.
Proof. destruct s; cbn; auto. discriminate. Qed.
Lemma last_nws_app s t : last_nws t = true -> last_nws (s ++ t) = true.
Proof. unfold last_nws. rewrite rev_app_distr. apply first_nws_app. Qed.
Lemma last_nws_snoc s c : is_ws c = false -> last_nws (s ++ [c]) = true.
Proof. intros H. unfold last_nws. rewrite rev_app_distr. cbn. rewrite H. auto. Qed.
Lemma last_nws_cons c s : last_nws s = true -> last_nws (c :: s) = true.
Proof. intros H. change (c :: s) with ([c] ++ s). apply last_nws_app; auto. Qed.

(* a string all of whose characters are not whitespace trims to itself *)
Lemma first_nws_all s : s <> [] -> forallb (fun c => negb (is_ws c)) s = true -> first_nws s = true.
Proof. destruct s; cbn; try congruence. intros _ H. apply andb_true_iff in H. tauto. Qed.
Lemma trim_all_nws s : forallb (fun c => negb (is_ws c)) s = true -> trim s = s.
Proof.
  intros H. destruct s as [|c s]; auto.
  apply trim_id. apply first_nws_all; auto; discriminate.
  unfold last_nws. apply first_nws_all.
  - cbn. intros E. apply (f_equal (@length N)) in E. rewrite app_length in E. cbn in E. lia.
  - rewrite forallb_rev. auto.
Qed.

(* ------------------------------------------------------------------ first / last / inner *)
Lemma last_is_snoc c s : last_is c (s ++ [c]) = true.
Proof. unfold last_is. rewrite rev_app_distr. cbn. apply N.eqb_refl. Qed.
Lemma last_is_snoc_ne c d s : d <> c -> last_is c (s ++ [d]) = false.
Proof. intros H. unfold last_is. rewrite rev_app_distr. cbn. apply N.eqb_neq. auto. Qed.
Lemma last_is_cons_snoc c a s b : last_is c (a :: s ++ [b]) = (b =? c).
Proof. unfold last_is. cbn [rev]. rewrite rev_app_distr. cbn. auto. Qed.
Lemma inner_cons_snoc a s b : inner (a :: s ++ [b]) = s.
Proof. unfold inner. apply removelast_last. Qed.
Lemma length_cons_snoc (a : N) s b : (2 <=? length (a :: s ++ [b]))%nat = true.
Proof. cbn [length]. rewrite app_length. cbn [length]. rewrite Nat.add_1_r. reflexivity. Qed.

(* ------------------------------------------------------------------ find_char *)
Lemma find_char_none c s pre : forallb (fun x => negb (x =? c)) s = true -> find_char c s pre = None.
Proof.
  revert pre; induction s; cbn; auto. intros pre H. apply andb_true_iff in H as [H1 H2].
  apply negb_true_iff in H1. rewrite H1. auto.
Qed.
Lemma find_char_hit c p q pre :
  forallb (fun x => negb (x =? c)) p = true -> find_char c (p ++ c :: q) pre = Some (rev pre ++ p, q).
Proof.
  revert pre; induction p; cbn; intros pre H.
  - rewrite N.eqb_refl. rewrite app_nil_r. auto.
  - apply andb_true_iff in H as [H1 H2]. apply negb_true_iff in H1. rewrite H1.
    rewrite IHp; auto. cbn. rewrite <- app_assoc. auto.
Qed.

(* ------------------------------------------------------------------ decimal numbers *)
Lemma is_digit_val d : d < 10 -> is_digit (48 + d) = true /\ 48 + d - 48 = d.
Proof. intros H. unfold is_digit. split. apply andb_true_iff; split; apply N.leb_le; lia. lia. Qed.

Lemma digits_val_app a b acc :
  digits_val (a ++ b) acc = match digits_val a acc with Some v => digits_val b v | None => None end.
Proof.
  revert acc; induction a; cbn; auto. intros acc. destruct (is_digit a); auto.
Qed.

Lemma dec_aux_spec f : forall n, (0 < f)%nat -> n < 10 ^ N.of_nat f ->
  exists ds, (forall acc, dec_aux f n acc = ds ++ acc) /\ ds <> [] /\ forallb is_digit ds = true /\
             forall a, digits_val ds a = Some (a * 10 ^ N.of_nat (length ds) + n).
Proof.
  induction f; intros n Hf Hn. lia.
  cbn [dec_aux].
  assert (Hd : n mod 10 < 10) by (apply N.mod_lt; lia).
  destruct (is_digit_val _ Hd) as [D1 D2].
  destruct (n / 10 =? 0) eqn:Q.
  - apply N.eqb_eq in Q. exists [48 + n mod 10]. repeat split; auto; try discriminate.
    + cbn [forallb]. rewrite D1. auto.
    + intros a. cbn [digits_val length]. rewrite D1, D2. f_equal.
      pose proof (N.div_mod' n 10). rewrite Q in H. cbn. lia.
  - apply N.eqb_neq in Q.
    assert (F' : (0 < f)%nat).
    { destruct f; try lia. exfalso. apply Q. apply N.div_small. cbn in Hn. lia. }
    assert (Hn' : n / 10 < 10 ^ N.of_nat f).
    { apply N.div_lt_upper_bound; try lia. rewrite Nat2N.inj_succ, N.pow_succ_r' in Hn. lia. }
    destruct (IHf (n / 10) F' Hn') as (ds & A & B & C & D).
    exists (ds ++ [48 + n mod 10]). repeat split.
    + intros acc. rewrite A. rewrite <- app_assoc. auto.
    + destruct ds; discriminate.
    + rewrite forallb_app, C. cbn [forallb]. rewrite D1. auto.
    + intros a. rewrite digits_val_app, D. cbn [digits_val]. rewrite D1, D2. f_equal.
      rewrite app_length. cbn [length]. rewrite Nat.add_1_r, Nat2N.inj_succ, N.pow_succ_r'.
      pose proof (N.div_mod' n 10). lia.
Qed.

Lemma show_N_spec n :
  show_N n <> [] /\ forallb is_digit (show_N n) = true /\ digits_val (show_N n) 0 = Some n.
Proof.
  unfold show_N.
  assert (H : n < 10 ^ N.of_nat (S (N.to_nat (N.log2 n)))).
  { rewrite Nat2N.inj_succ, N2Nat.id.
    destruct (N.eq_dec n 0) as [->|Z]. cbn. lia.
    destruct (N.log2_spec n) as [_ U]. lia.
    eapply N.lt_le_trans. apply U. apply N.pow_le_mono_l. lia. }
  destruct (dec_aux_spec (S (N.to_nat (N.log2 n))) n (Nat.lt_0_succ _) H) as (ds & A & B & C & D).
  rewrite A, app_nil_r. split; [exact B|]. split; [exact C|]. rewrite D. reflexivity.
Qed.
Lemma parse_nat_show n : parse_nat (show_N n) = Some n.
Proof.
  destruct (show_N_spec n) as (A & _ & C). unfold parse_nat.
  destruct (show_N n); congruence.
Qed.
Lemma show_N_digits n : forallb is_digit (show_N n) = true.
Proof. apply show_N_spec. Qed.
Lemma show_N_nonempty n : show_N n <> [].
Proof. apply show_N_spec. Qed.
Lemma show_N_first_digit n : exists c t, show_N n = c :: t /\ is_digit c = true.
Proof.
  destruct (show_N_spec n) as (A & B & _). destruct (show_N n) as [|c t]; try congruence.
  exists c, t. cbn in B. apply andb_true_iff in B. tauto.
Qed.

Lemma digit_not c : is_digit c = true -> (c =? 43) = false /\ (c =? 45) = false.
Proof.
  unfold is_digit. intros H. apply andb_true_iff in H as [A B].
  apply N.leb_le in A. apply N.leb_le in B. split; apply N.eqb_neq; lia.
Qed.

Lemma parse_usize_show k : k < 18446744073709551616 -> parse_usize (show_N k) = Some k.
Proof.
  intros H. unfold parse_usize. destruct (show_N_first_digit k) as (c & t & E & D).
  rewrite E. destruct (digit_not c D) as [P _]. rewrite P. rewrite <- E, parse_nat_show.
  apply N.ltb_lt in H. rewrite H. auto.
Qed.

Lemma parse_i64_show z : wf_int z = true -> parse_i64 (show_Z z) = Some z.
Proof.
  unfold wf_int. intros H. apply andb_true_iff in H as [A B].
  apply Z.leb_le in A. apply Z.ltb_lt in B. unfold show_Z.
  destruct (z <? 0)%Z eqn:S.
  - apply Z.ltb_lt in S. cbn [parse_i64]. rewrite N.eqb_refl, parse_nat_show.
    assert (L : Z.to_N (- z) <=? 9223372036854775808 = true) by (apply N.leb_le; lia).
    rewrite L. f_equal. lia.
  - apply Z.ltb_ge in S. destruct (show_N_first_digit (Z.to_N z)) as (c & t & E & D).
    unfold parse_i64. rewrite E. destruct (digit_not c D) as [P M]. rewrite P, M.
    rewrite <- E, parse_nat_show.
    assert (L : Z.to_N z <? 9223372036854775808 = true) by (apply N.ltb_lt; lia).
    rewrite L. f_equal. lia.
Qed.

(* what parse_i64 accepts: sign-or-digit first, digits after *)
Lemma digits_val_some s acc v : digits_val s acc = Some v -> forallb is_digit s = true.
Proof.
  revert acc; induction s; cbn; auto. intros acc. destruct (is_digit a); try discriminate.
  intros H. cbn. eauto.
Qed.
Lemma parse_nat_some s v : parse_nat s = Some v -> forallb is_digit s = true.
Proof. unfold parse_nat. destruct s; try discriminate. apply digits_val_some. Qed.
Lemma parse_i64_some s z : parse_i64 s = Some z ->
  exists c t, s = c :: t /\ (is_digit c || (c =? 43) || (c =? 45)) = true /\ forallb is_digit t = true.
Proof.
  destruct s as [|c t]; cbn; try discriminate. intros H. exists c, t. split; auto.
  destruct (c =? 45) eqn:M.
  - rewrite orb_true_r. split; auto. destruct (parse_nat t) eqn:P; try discriminate.
    eapply parse_nat_some; eauto.
  - destruct (c =? 43) eqn:P.
    + rewrite orb_true_r. split; auto. destruct (parse_nat t) eqn:Q; try discriminate.
      eapply parse_nat_some; eauto.
    + destruct (parse_nat (c :: t)) eqn:Q; try discriminate.
      apply parse_nat_some in Q. cbn in Q. apply andb_true_iff in Q as [Q1 Q2]. rewrite Q1. auto.
Qed.
Lemma parse_i64_none_first c t :
  (is_digit c || (c =? 43) || (c =? 45)) = false -> parse_i64 (c :: t) = None.
Proof.
  intros H. destruct (parse_i64 (c :: t)) eqn:P; auto.
  apply parse_i64_some in P as (c' & t' & E & A & _). inversion E; subst. congruence.
Qed.
Lemma parse_i64_none_later c t :
  forallb is_digit t = false -> parse_i64 (c :: t) = None.
Proof.
  intros H. destruct (parse_i64 (c :: t)) eqn:P; auto.
  apply parse_i64_some in P as (c' & t' & E & _ & A). inversion E; subst. congruence.
Qed.
