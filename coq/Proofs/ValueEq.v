(* value_eqb / tuple_eqb decide Leibniz equality on the model's values. *)
From IL Require Import Model.Value.
Open Scope N_scope.

Lemma list_eqb_spec {A} (eqb : A -> A -> bool) :
  (forall x y, eqb x y = true <-> x = y) ->
  forall a b, list_eqb eqb a b = true <-> a = b.
Proof.
  intros H a; induction a as [|x a IH]; intros [|y b]; cbn; try (split; congruence).
  rewrite andb_true_iff, H, IH. split; [intros [-> ->]; reflexivity | intros E; inversion E; auto].
Qed.

Lemma value_eqb_spec a b : value_eqb a b = true <-> a = b.
Proof.
  destruct a, b; cbn; try (split; congruence).
  - rewrite Bool.eqb_true_iff; split; congruence.
  - rewrite Z.eqb_eq; split; congruence.
  - rewrite Z.eqb_eq; split; congruence.
  - rewrite N.eqb_eq; split; congruence.
  - rewrite Z.eqb_eq; split; congruence.
  - rewrite (list_eqb_spec N.eqb N.eqb_eq); split; congruence.
  - rewrite (list_eqb_spec N.eqb N.eqb_eq); split; congruence.
  - rewrite (list_eqb_spec Z.eqb Z.eqb_eq); split; congruence.
Qed.

Lemma tuple_eqb_spec a b : tuple_eqb a b = true <-> a = b.
Proof. apply list_eqb_spec, value_eqb_spec. Qed.

Lemma tuple_eqb_refl a : tuple_eqb a a = true.
Proof. apply tuple_eqb_spec; reflexivity. Qed.

Lemma tuple_eqb_false a b : tuple_eqb a b = false <-> a <> b.
Proof.
  split.
  - intros H E. apply tuple_eqb_spec in E. congruence.
  - intros H. destruct (tuple_eqb a b) eqn:E; [apply tuple_eqb_spec in E; contradiction | reflexivity].
Qed.

Lemma tuple_eqb_sym a b : tuple_eqb a b = tuple_eqb b a.
Proof.
  destruct (tuple_eqb a b) eqn:E.
  - apply tuple_eqb_spec in E; subst. symmetry; apply tuple_eqb_refl.
  - symmetry. apply tuple_eqb_false. apply tuple_eqb_false in E. congruence.
Qed.

Lemma tuple_eq_dec (a b : tuple) : {a = b} + {a <> b}.
Proof.
  destruct (tuple_eqb a b) eqn:E; [left; apply tuple_eqb_spec; exact E | right; apply tuple_eqb_false; exact E].
Qed.

Lemma mem_tuple_In t l : mem_tuple t l = true <-> In t l.
Proof.
  unfold mem_tuple. rewrite existsb_exists. split.
  - intros [x [Hx E]]. apply tuple_eqb_spec in E; subst; exact Hx.
  - intros H. exists t; split; [exact H | apply tuple_eqb_refl].
Qed.

Lemma dedup_tuples_In t l : In t (dedup_tuples l) <-> In t l.
Proof.
  induction l as [|x l IH]; cbn; [tauto|].
  destruct (mem_tuple x l) eqn:M.
  - rewrite IH. split; [auto|]. intros [->|H]; [apply mem_tuple_In; exact M | exact H].
  - cbn. rewrite IH. tauto.
Qed.

Lemma dedup_tuples_NoDup l : NoDup (dedup_tuples l).
Proof.
  induction l as [|x l IH]; cbn; [constructor|].
  destruct (mem_tuple x l) eqn:M; [exact IH|].
  constructor; [|exact IH]. rewrite dedup_tuples_In. intros H. apply mem_tuple_In in H. congruence.
Qed.
