(* Consequence of C31: sort-then-merge-adjacent consolidation (Model/Consolidate.v) sums the diffs per tuple,
   because `Tuple::cmp` is a total order whose compare-equal is `==` — equal data end up adjacent. *)
From IL Require Import Model.Value Model.ValueOrd Model.WireSort Model.Consolidate
     Proofs.ValueEq Proofs.OrdLaws Proofs.ValueOrd Proofs.SortLaws.
From Coq Require Import Lia Sorting.Permutation Sorting.Sorted.
Open Scope Z_scope.

Definition upd_wf (u : update) : Prop := tuple_wf (u_data u).
Definition upd_lt (a b : update) : Prop := upd_cmp a b = Lt.

Lemma upd_preorder : preorder_on upd_wf upd_cmp.
Proof.
  apply (key_preorder upd_wf tuple_wf u_data tuple_cmp).
  - apply laws_preorder, tuple_cmp_laws.
  - auto.
  - reflexivity.
Qed.

Lemma upd_cmp_eq a b : upd_wf a -> upd_wf b -> (upd_cmp a b = Eq <-> tuple_eqb (u_data a) (u_data b) = true).
Proof.
  intros Wa Wb. unfold upd_cmp. destruct tuple_cmp_laws as [He _].
  rewrite (He _ _ Wa Wb). symmetry. apply tuple_eqb_spec.
Qed.

(* ---- net multiplicities *)
Lemma net_app t a b : net t (a ++ b) = net t a + net t b.
Proof. induction a as [|u a IH]; cbn; [reflexivity|]. rewrite IH. destruct (tuple_eqb t (u_data u)); lia. Qed.

Lemma net_perm t l l' : Permutation l l' -> net t l = net t l'.
Proof.
  induction 1; cbn; auto.
  - rewrite IHPermutation. reflexivity.
  - destruct (tuple_eqb t (u_data x)), (tuple_eqb t (u_data y)); lia.
  - congruence.
Qed.

Lemma net_emit t cur : net t (emit cur) = net t [cur].
Proof.
  unfold emit. destruct (Z.eqb_spec (u_diff cur) 0) as [E|E]; cbn; [|reflexivity].
  destruct (tuple_eqb t (u_data cur)); lia.
Qed.

Lemma net_merge_adj t l : forall cur, net t (merge_adj cur l) = net t (cur :: l).
Proof.
  induction l as [|u r IH]; intros cur; cbn [merge_adj].
  - apply net_emit.
  - destruct (tuple_eqb (u_data cur) (u_data u)) eqn:E.
    + rewrite IH. apply tuple_eqb_spec in E. cbn. rewrite <- E.
      destruct (tuple_eqb t (u_data cur)); lia.
    + rewrite net_app, net_emit, IH. cbn. destruct (tuple_eqb t (u_data cur)); lia.
Qed.

Lemma net_consolidate t l : net t (consolidate_to_current l) = net t l.
Proof.
  unfold consolidate_to_current. rewrite <- (net_perm t _ _ (sort_by_perm upd_cmp l)).
  destruct (sort_by upd_cmp l) as [|u r]; [reflexivity | apply net_merge_adj].
Qed.

(* ---- no zero entries *)
Lemma emit_nonzero cur : Forall (fun u => u_diff u <> 0) (emit cur).
Proof. unfold emit. destruct (Z.eqb_spec (u_diff cur) 0); repeat constructor; auto. Qed.

Lemma merge_nonzero l : forall cur, Forall (fun u => u_diff u <> 0) (merge_adj cur l).
Proof.
  induction l as [|u r IH]; intros cur; cbn [merge_adj]; [apply emit_nonzero|].
  destruct (tuple_eqb _ _); [apply IH | apply Forall_app; split; [apply emit_nonzero | apply IH]].
Qed.

(* ---- strictly sorted output *)
Lemma in_emit o cur : In o (emit cur) -> o = cur.
Proof. unfold emit. destruct (u_diff cur =? 0); cbn; intros []; auto; contradiction. Qed.

Lemma merge_sorted l : forall cur,
  Forall upd_wf (cur :: l) -> StronglySorted (le_by upd_cmp) (cur :: l) ->
  StronglySorted upd_lt (merge_adj cur l) /\
  Forall (fun o => upd_cmp cur o <> Gt) (merge_adj cur l) /\
  Forall upd_wf (merge_adj cur l).
Proof.
  pose proof upd_preorder as HP.
  induction l as [|u r IH]; intros cur F S; cbn [merge_adj].
  - inversion F as [|? ? Wc _]; subst. unfold emit. destruct (u_diff cur =? 0).
    + repeat split; constructor.
    + repeat split; repeat constructor; auto. rewrite (pre_refl upd_wf upd_cmp HP cur Wc). discriminate.
  - inversion F as [|? ? Wc F']; subst. inversion F' as [|? ? Wu Fr]; subst.
    inversion S as [|? ? S' Fc]; subst. inversion Fc as [|? ? Lcu Fcr]; subst.
    inversion S' as [|? ? Sr Fur]; subst.
    destruct (tuple_eqb (u_data cur) (u_data u)) eqn:E.
    + (* merged: same data, so it compares like cur *)
      set (cur' := mkUpd (u_data cur) (u_time cur) (u_diff cur + u_diff u)).
      assert (Forall upd_wf (cur' :: r)) as F2 by (constructor; auto).
      assert (StronglySorted (le_by upd_cmp) (cur' :: r)) as S2 by (constructor; auto).
      destruct (IH cur' F2 S2) as [A [B C]]. repeat split; auto.
    + destruct (IH u F' S') as [A [B C]].
      assert (upd_cmp cur u = Lt) as Lt1.
      { unfold le_by in Lcu. destruct (upd_cmp cur u) eqn:Q; auto; [|congruence].
        apply (upd_cmp_eq cur u Wc Wu) in Q. congruence. }
      assert (forall o, In o (merge_adj u r) -> upd_cmp cur o = Lt) as Lto.
      { intros o Ho. apply (pre_lt_le upd_wf upd_cmp HP cur u o); auto.
        - apply (proj1 (Forall_forall _ _) C); auto.
        - apply (proj1 (Forall_forall _ _) B); auto. }
      unfold emit. destruct (u_diff cur =? 0); cbn [app].
      * repeat split; auto. apply Forall_forall. intros o Ho. rewrite (Lto o Ho). discriminate.
      * repeat split.
        -- constructor; auto. apply Forall_forall. exact Lto.
        -- constructor; [rewrite (pre_refl upd_wf upd_cmp HP cur Wc); discriminate|].
           apply Forall_forall. intros o Ho. rewrite (Lto o Ho). discriminate.
        -- constructor; auto.
Qed.

Lemma sorted_nodup l : Forall upd_wf l -> StronglySorted upd_lt l -> nodup_data l = true.
Proof.
  induction l as [|u r IH]; intros F S; cbn; auto.
  inversion F as [|? ? Wu Fr]; subst. inversion S as [|? ? Sr Fl]; subst.
  rewrite (IH Fr Sr), andb_true_r. apply negb_true_iff.
  destruct (existsb _ r) eqn:X; auto. apply existsb_exists in X. destruct X as [v [Hv E]].
  assert (upd_cmp u v = Lt) as L by (apply (proj1 (Forall_forall _ _) Fl); auto).
  assert (upd_wf v) as Wv by (apply (proj1 (Forall_forall _ _) Fr); auto).
  apply (upd_cmp_eq u v Wu Wv) in E. congruence.
Qed.

Theorem consolidate_correct l :
  Forall upd_wf l ->
  let out := consolidate_to_current l in
  (forall t, net t out = net t l) /\
  Forall (fun u => u_diff u <> 0) out /\
  StronglySorted upd_lt out /\
  nodup_data out = true.
Proof.
  intros F out. split; [intros t; apply net_consolidate|].
  unfold out, consolidate_to_current.
  assert (Forall upd_wf (sort_by upd_cmp l)) as FS
    by (apply (Permutation_Forall (Permutation_sym (sort_by_perm upd_cmp l))); auto).
  assert (StronglySorted (le_by upd_cmp) (sort_by upd_cmp l)) as SS
    by (apply (sort_by_sorted upd_wf); [apply upd_preorder | auto]).
  destruct (sort_by upd_cmp l) as [|u r].
  - repeat split; constructor.
  - destruct (merge_sorted r u FS SS) as [A [_ C]].
    repeat split; [apply merge_nonzero | exact A | apply sorted_nodup; auto].
Qed.
