(* Lemmas about Model/Store.v: set semantics of the live relation, per-key sums of the log,
   consolidation, recovery, and the invariant "the live relation is what recovery would rebuild". *)
From IL Require Import Model.Value Proofs.ValueEq Model.Store.
Open Scope N_scope.

(* ---------------------------------------------------------------- live relation *)

Lemma NoDup_snoc {A} (s : list A) x : NoDup s -> ~ In x s -> NoDup (s ++ [x]).
Proof.
  induction s as [|y s IH]; cbn; intros ND H.
  - constructor; [tauto | constructor].
  - inversion ND; subst. constructor.
    + rewrite in_app_iff. cbn. intuition congruence.
    + apply IH; tauto.
Qed.

Lemma ins_mem_In s ts t : In t (fst (ins_mem s ts)) <-> In t s \/ In t ts.
Proof.
  revert s; induction ts as [|x r IH]; intros s; cbn [ins_mem].
  - cbn. tauto.
  - destruct (mem_tuple x s) eqn:M.
    + specialize (IH s). destruct (ins_mem s r) as [s' [n d]]. cbn [fst] in *.
      rewrite IH. apply mem_tuple_In in M. cbn [In]. split; [tauto|].
      intros [H|[->|H]]; auto.
    + specialize (IH (s ++ [x])). destruct (ins_mem (s ++ [x]) r) as [s' [n d]]. cbn [fst] in *.
      rewrite IH, in_app_iff. cbn [In]. tauto.
Qed.

Lemma ins_mem_NoDup s ts : NoDup s -> NoDup (fst (ins_mem s ts)).
Proof.
  revert s; induction ts as [|x r IH]; intros s ND; cbn [ins_mem].
  - exact ND.
  - destruct (mem_tuple x s) eqn:M.
    + specialize (IH s ND). destruct (ins_mem s r) as [s' [n d]]. exact IH.
    + assert (ND' : NoDup (s ++ [x])).
      { apply NoDup_snoc; [exact ND|]. intros H. apply mem_tuple_In in H. congruence. }
      specialize (IH _ ND'). destruct (ins_mem (s ++ [x]) r) as [s' [n d]]. exact IH.
Qed.

Lemma del_mem_In s ts t : In t (fst (del_mem s ts)) <-> In t s /\ ~ In t ts.
Proof.
  unfold del_mem. cbn [fst]. rewrite filter_In, negb_true_iff.
  split; intros [H1 H2]; split; auto.
  - intros H. apply mem_tuple_In in H. congruence.
  - destruct (mem_tuple t ts) eqn:M; [apply mem_tuple_In in M; contradiction | reflexivity].
Qed.

Lemma del_mem_NoDup s ts : NoDup s -> NoDup (fst (del_mem s ts)).
Proof. intros. unfold del_mem. cbn [fst]. apply NoDup_filter. assumption. Qed.

(* ---------------------------------------------------------------- log: keys, sums, latest time *)

Definition has_key (t : tuple) (tm : N) (l : list update) : Prop :=
  exists u, In u l /\ u_data u = t /\ u_time u = tm.

Lemma same_data_true t u : same_data t u = true <-> u_data u = t.
Proof. unfold same_data. rewrite tuple_eqb_spec. split; congruence. Qed.

Lemma same_key_true t tm u : same_key t tm u = true <-> u_data u = t /\ u_time u = tm.
Proof.
  unfold same_key. rewrite andb_true_iff, tuple_eqb_spec, N.eqb_eq. split; intros [? ?]; split; congruence.
Qed.

Lemma has_key_app t tm l1 l2 : has_key t tm (l1 ++ l2) <-> has_key t tm l1 \/ has_key t tm l2.
Proof.
  unfold has_key. split.
  - intros [u [H K]]. apply in_app_iff in H. destruct H; [left|right]; exists u; auto.
  - intros [[u [H K]]|[u [H K]]]; exists u; rewrite in_app_iff; auto.
Qed.

Lemma has_key_cons t tm u l :
  has_key t tm (u :: l) <-> (u_data u = t /\ u_time u = tm) \/ has_key t tm l.
Proof.
  unfold has_key. split.
  - intros [v [[->|H] K]]; [left; exact K | right; exists v; auto].
  - intros [K|[v [H K]]]; [exists u; cbn; auto | exists v; cbn; auto].
Qed.

Lemma zsum_app a b : zsum (a ++ b) = (zsum a + zsum b)%Z.
Proof. unfold zsum. induction a as [|x a IH]; cbn [app fold_right]; [reflexivity | rewrite IH; lia]. Qed.

Lemma sum_at_app t tm l1 l2 : sum_at t tm (l1 ++ l2) = (sum_at t tm l1 + sum_at t tm l2)%Z.
Proof. unfold sum_at. rewrite filter_app, map_app, zsum_app. reflexivity. Qed.

Lemma sum_at_cons t tm u l :
  sum_at t tm (u :: l) = ((if same_key t tm u then u_diff u else 0) + sum_at t tm l)%Z.
Proof. unfold sum_at. cbn [filter]. destruct (same_key t tm u); cbn; reflexivity. Qed.

Lemma sum_at_no_key t tm l : ~ has_key t tm l -> sum_at t tm l = 0%Z.
Proof.
  induction l as [|u l IH]; intros H; [reflexivity|].
  rewrite sum_at_cons, IH.
  - destruct (same_key t tm u) eqn:K; [|reflexivity].
    exfalso. apply H. apply has_key_cons. left. apply same_key_true. exact K.
  - intros K. apply H. apply has_key_cons. right. exact K.
Qed.

Definition omax (a b : option N) : option N :=
  match a, b with
  | Some x, Some y => Some (N.max x y)
  | Some x, None => Some x
  | None, b => b
  end.

Lemma max_time_app t l1 l2 : max_time t (l1 ++ l2) = omax (max_time t l1) (max_time t l2).
Proof.
  induction l1 as [|u l1 IH]; cbn [app max_time].
  - destruct (max_time t l2); reflexivity.
  - destruct (same_data t u); [|exact IH]. rewrite IH.
    destruct (max_time t l1), (max_time t l2); cbn; try reflexivity.
    rewrite N.max_assoc. reflexivity.
Qed.

Lemma max_time_Some t l m :
  max_time t l = Some m -> has_key t m l /\ forall tm, has_key t tm l -> tm <= m.
Proof.
  revert m; induction l as [|u l IH]; intros m; cbn [max_time]; [discriminate|].
  destruct (same_data t u) eqn:D.
  - apply same_data_true in D. destruct (max_time t l) as [m'|] eqn:E.
    + intros [= <-]. destruct (IH m' eq_refl) as [K B]. split.
      * destruct (N.max_spec (u_time u) m') as [[_ ->]|[_ ->]].
        -- apply has_key_cons. right. exact K.
        -- apply has_key_cons. left. auto.
      * intros tm H. apply has_key_cons in H. destruct H as [[_ <-]|H]; [lia|]. specialize (B tm H). lia.
    + intros [= <-]. split.
      * apply has_key_cons. left. auto.
      * intros tm H. apply has_key_cons in H. destruct H as [[_ <-]|H]; [lia|].
        exfalso. clear IH. induction l as [|v l IHl]; [destruct H as [? [[] _]]|].
        cbn [max_time] in E. destruct (same_data t v) eqn:Dv.
        -- destruct (max_time t l); discriminate.
        -- apply has_key_cons in H. destruct H as [[Hd _]|H]; [apply same_data_true in Hd; congruence | auto].
  - intros E. destruct (IH m E) as [K B]. split.
    + apply has_key_cons. right. exact K.
    + intros tm H. apply has_key_cons in H. destruct H as [[Hd _]|H]; [apply same_data_true in Hd; congruence | auto].
Qed.

Lemma max_time_None t l : max_time t l = None -> forall tm, ~ has_key t tm l.
Proof.
  induction l as [|u l IH]; cbn [max_time]; intros E tm H.
  - destruct H as [? [[] _]].
  - destruct (same_data t u) eqn:D.
    + destruct (max_time t l); discriminate.
    + apply has_key_cons in H. destruct H as [[Hd _]|H]; [apply same_data_true in Hd; congruence | exact (IH E tm H)].
Qed.

(* `present` in terms of keys and per-key sums only *)
Lemma present_spec l t :
  present l t = true <->
  exists m, has_key t m l /\ (forall tm, has_key t tm l -> tm <= m) /\ (0 < sum_at t m l)%Z.
Proof.
  unfold present. destruct (max_time t l) as [m|] eqn:E.
  - destruct (max_time_Some _ _ _ E) as [K B]. rewrite Z.ltb_lt. split.
    + intros H. exists m. auto.
    + intros [m' [K' [B' S]]]. assert (m' = m) by (specialize (B _ K'); specialize (B' _ K); lia). subst. exact S.
  - split; [discriminate|]. intros [m [K _]]. exfalso. exact (max_time_None _ _ E m K).
Qed.

(* two logs with the same keys and the same per-key sums recover the same tuples *)
Lemma present_ext l1 l2 t :
  (forall tm, has_key t tm l1 <-> has_key t tm l2) ->
  (forall tm, sum_at t tm l1 = sum_at t tm l2) ->
  present l1 t = present l2 t.
Proof.
  intros HK HS. apply eq_true_iff_eq. rewrite !present_spec.
  split; intros [m [K [B S]]]; exists m; (split; [apply HK; exact K|]); split.
  - intros tm H. apply B, HK, H.
  - rewrite <- HS. exact S.
  - intros tm H. apply B, HK, H.
  - rewrite HS. exact S.
Qed.

Lemma recover_In l t : In t (recover l) <-> present l t = true.
Proof.
  unfold recover. rewrite filter_In, dedup_tuples_In, in_map_iff. split; [tauto|].
  intros P. split; [|exact P]. apply present_spec in P. destruct P as [m [[u [H [D _]]] _]]. exists u. auto.
Qed.

Lemma recover_NoDup l : NoDup (recover l).
Proof. unfold recover. apply NoDup_filter, dedup_tuples_NoDup. Qed.

(* ---------------------------------------------------------------- one logged batch *)

Definition batch (c : N) (d : Z) (ts : list tuple) : list update := map (fun x => mkU x c d) ts.
Definition count (t : tuple) (ts : list tuple) : nat := length (filter (tuple_eqb t) ts).

Lemma batch_key t tm c d ts : has_key t tm (batch c d ts) <-> In t ts /\ tm = c.
Proof.
  unfold has_key, batch. split.
  - intros [u [H [D T]]]. apply in_map_iff in H. destruct H as [x [<- Hx]]. cbn in *. subst. auto.
  - intros [H ->]. exists (mkU t c d). split; [apply in_map_iff; exists t; auto | auto].
Qed.

Lemma batch_sum t c d ts : sum_at t c (batch c d ts) = (d * Z.of_nat (count t ts))%Z.
Proof.
  unfold count, batch. induction ts as [|x r IH]; [cbn; lia|].
  cbn [map]. rewrite sum_at_cons, IH. unfold same_key. cbn [u_data u_time u_diff filter].
  rewrite N.eqb_refl, andb_true_r. destruct (tuple_eqb t x); cbn [length]; lia.
Qed.

Lemma count_pos t ts : In t ts -> (0 < count t ts)%nat.
Proof.
  unfold count. induction ts as [|x r IH]; cbn [In filter]; [tauto|].
  intros [->|H].
  - rewrite tuple_eqb_refl. cbn. lia.
  - destruct (tuple_eqb t x); cbn [length]; [lia | auto].
Qed.

Lemma max_time_batch t c d ts :
  max_time t (batch c d ts) = if mem_tuple t ts then Some c else None.
Proof.
  destruct (max_time t (batch c d ts)) as [m|] eqn:E.
  - destruct (max_time_Some _ _ _ E) as [K _]. apply batch_key in K. destruct K as [H ->].
    apply mem_tuple_In in H. rewrite H. reflexivity.
  - destruct (mem_tuple t ts) eqn:M; [|reflexivity]. exfalso. apply mem_tuple_In in M.
    apply (max_time_None _ _ E c). apply batch_key. auto.
Qed.

(* appending the log entries of one operation that carries a fresh (strictly larger) time *)
Lemma present_append_batch l c d ts t :
  (forall u, In u l -> u_time u < c) -> d <> 0%Z ->
  present (l ++ batch c d ts) t = if mem_tuple t ts then Z.ltb 0 d else present l t.
Proof.
  intros Hc Hd. unfold present. rewrite max_time_app, max_time_batch.
  destruct (mem_tuple t ts) eqn:M.
  - assert (omax (max_time t l) (Some c) = Some c) as ->.
    { destruct (max_time t l) as [m|] eqn:E; cbn; [|reflexivity].
      destruct (max_time_Some _ _ _ E) as [[u [Hu [_ <-]]] _]. specialize (Hc u Hu). f_equal. lia. }
    rewrite sum_at_app, batch_sum, (sum_at_no_key t c l).
    + apply mem_tuple_In, count_pos in M.
      destruct (Z.ltb_spec 0 d); destruct (Z.ltb_spec 0 (0 + d * Z.of_nat (count t ts))); try reflexivity; nia.
    + intros [u [Hu [_ T]]]. specialize (Hc u Hu). lia.
  - assert (omax (max_time t l) None = max_time t l) as -> by (destruct (max_time t l); reflexivity).
    destruct (max_time t l) as [m|]; [|reflexivity].
    rewrite sum_at_app, (sum_at_no_key t m (batch c d ts)), Z.add_0_r; [reflexivity|].
    intros K. apply batch_key in K. destruct K as [H _]. apply mem_tuple_In in H. congruence.
Qed.

(* ---------------------------------------------------------------- consolidation *)

Definition ukey (u : update) : tuple * N := (u_data u, u_time u).
Definition keys_nodup (l : list update) : Prop := NoDup (map ukey l).

Lemma same_key_of_eq u v t tm :
  same_key (u_data u) (u_time u) v = true -> same_key t tm u = same_key t tm v.
Proof. intros H. apply same_key_true in H. destruct H as [D T]. unfold same_key. rewrite D, T. reflexivity. Qed.

Lemma add_diff_sum t tm u acc :
  sum_at t tm (add_diff u acc) = (sum_at t tm acc + (if same_key t tm u then u_diff u else 0))%Z.
Proof.
  induction acc as [|v r IH]; cbn [add_diff].
  - rewrite sum_at_cons. unfold sum_at. cbn. lia.
  - destruct (same_key (u_data u) (u_time u) v) eqn:K.
    + rewrite !sum_at_cons. rewrite (same_key_of_eq u v t tm K).
      unfold same_key at 1. cbn [u_data u_time u_diff]. fold (same_key t tm v).
      destruct (same_key t tm v); lia.
    + rewrite !sum_at_cons, IH. lia.
Qed.

Lemma add_diff_key t tm u acc :
  has_key t tm (add_diff u acc) <-> has_key t tm acc \/ (u_data u = t /\ u_time u = tm).
Proof.
  induction acc as [|v r IH]; cbn [add_diff].
  - rewrite has_key_cons. tauto.
  - destruct (same_key (u_data u) (u_time u) v) eqn:K.
    + apply same_key_true in K. destruct K as [D T]. rewrite !has_key_cons. cbn [u_data u_time].
      split; [tauto|]. intros [H|[H1 H2]]; [tauto|]. left. split; congruence.
    + rewrite !has_key_cons, IH. tauto.
Qed.

Lemma add_diff_keys u acc : keys_nodup acc -> keys_nodup (add_diff u acc).
Proof.
  unfold keys_nodup. induction acc as [|v r IH]; cbn [add_diff map]; intros ND.
  - constructor; [tauto | constructor].
  - inversion ND as [|k ks Hk ND']; subst. destruct (same_key (u_data u) (u_time u) v) eqn:K.
    + cbn [map]. unfold ukey at 1. cbn [u_data u_time]. fold (ukey v). constructor; assumption.
    + cbn [map]. constructor; [|auto]. intros H. apply in_map_iff in H. destruct H as [w [E Hw]].
      assert (HK : has_key (u_data v) (u_time v) (add_diff u r)).
      { exists w. unfold ukey in E. inversion E. auto. }
      apply add_diff_key in HK. destruct HK as [[w' [Hw' [D T]]]|[D T]].
      * apply Hk. apply in_map_iff. exists w'. split; [unfold ukey; congruence | exact Hw'].
      * assert (same_key (u_data u) (u_time u) v = true) by (apply same_key_true; split; congruence). congruence.
Qed.

Lemma fold_add_sum t tm l acc :
  sum_at t tm (fold_left (fun a u => add_diff u a) l acc) = (sum_at t tm acc + sum_at t tm l)%Z.
Proof.
  revert acc; induction l as [|u l IH]; intros acc; cbn [fold_left].
  - unfold sum_at at 3. cbn. lia.
  - rewrite IH, add_diff_sum, (sum_at_cons t tm u l). lia.
Qed.

Lemma fold_add_key t tm l acc :
  has_key t tm (fold_left (fun a u => add_diff u a) l acc) <-> has_key t tm acc \/ has_key t tm l.
Proof.
  revert acc; induction l as [|u l IH]; intros acc; cbn [fold_left].
  - split; [auto|]. intros [H|[? [[] _]]]. exact H.
  - rewrite IH, add_diff_key, has_key_cons. tauto.
Qed.

Lemma fold_add_keys l acc :
  keys_nodup acc -> keys_nodup (fold_left (fun a u => add_diff u a) l acc).
Proof. revert acc; induction l as [|u l IH]; intros acc H; cbn [fold_left]; [exact H | apply IH, add_diff_keys, H]. Qed.

Lemma merge_all_sum t tm l : sum_at t tm (merge_all l) = sum_at t tm l.
Proof. unfold merge_all. rewrite fold_add_sum. unfold sum_at at 1. cbn. lia. Qed.

Lemma merge_all_key t tm l : has_key t tm (merge_all l) <-> has_key t tm l.
Proof. unfold merge_all. rewrite fold_add_key. split; [|auto]. intros [[? [[] _]]|H]. exact H. Qed.

Lemma merge_all_keys l : keys_nodup (merge_all l).
Proof. apply fold_add_keys. constructor. Qed.

(* in a list with unique keys the per-key sum is the diff of the entry *)
Lemma sum_at_unique l u : keys_nodup l -> In u l -> sum_at (u_data u) (u_time u) l = u_diff u.
Proof.
  unfold keys_nodup. induction l as [|v r IH]; cbn [map In]; intros ND H; [tauto|].
  inversion ND as [|k ks Hk ND']; subst. rewrite sum_at_cons. destruct H as [->|H].
  - assert (same_key (u_data u) (u_time u) u = true) as -> by (apply same_key_true; auto).
    rewrite sum_at_no_key; [lia|]. intros [w [Hw [D T]]]. apply Hk. apply in_map_iff. exists w.
    split; [unfold ukey; congruence | exact Hw].
  - rewrite (IH ND' H). destruct (same_key (u_data u) (u_time u) v) eqn:K; [|lia].
    exfalso. apply same_key_true in K. destruct K as [D T]. apply Hk. apply in_map_iff. exists u.
    split; [unfold ukey; congruence | exact H].
Qed.

Definition nz (u : update) : bool := negb (Z.eqb (u_diff u) 0).

Lemma sum_at_filter_nz t tm l : sum_at t tm (filter nz l) = sum_at t tm l.
Proof.
  induction l as [|u l IH]; [reflexivity|]. cbn [filter]. unfold nz at 1.
  destruct (Z.eqb_spec (u_diff u) 0) as [Z0|NZ]; cbn [negb].
  - rewrite sum_at_cons, IH, Z0. destruct (same_key t tm u); lia.
  - rewrite !sum_at_cons, IH. reflexivity.
Qed.

(* consolidation preserves every per-key sum ... *)
Lemma consolidate_sum t tm l : sum_at t tm (consolidate l) = sum_at t tm l.
Proof. unfold consolidate. fold nz. rewrite sum_at_filter_nz. apply merge_all_sum. Qed.

(* ... and keeps exactly the keys whose sum is not zero *)
Lemma consolidate_key t tm l :
  has_key t tm (consolidate l) <-> has_key t tm l /\ sum_at t tm l <> 0%Z.
Proof.
  unfold consolidate. fold nz. split.
  - intros [u [H [D T]]]. apply filter_In in H. destruct H as [H NZ]. split.
    + apply merge_all_key. exists u. auto.
    + rewrite <- merge_all_sum, <- D, <- T, (sum_at_unique _ _ (merge_all_keys l) H).
      unfold nz in NZ. destruct (Z.eqb_spec (u_diff u) 0); [discriminate | assumption].
  - intros [K S]. apply merge_all_key in K. destruct K as [u [H [D T]]]. exists u. split; [|auto].
    apply filter_In. split; [exact H|]. unfold nz.
    rewrite <- (sum_at_unique _ _ (merge_all_keys l) H), D, T, merge_all_sum.
    destruct (Z.eqb_spec (sum_at t tm l) 0); [contradiction | reflexivity].
Qed.

Lemma consolidate_time l u : In u (consolidate l) -> exists v, In v l /\ u_time v = u_time u.
Proof.
  intros H. assert (K : has_key (u_data u) (u_time u) (consolidate l)) by (exists u; auto).
  apply consolidate_key in K. destruct K as [[v [Hv [_ T]]] _]. exists v. auto.
Qed.

(* ---------------------------------------------------------------- the invariant *)

Record Inv (s : st) : Prop := {
  inv_nodup : NoDup (live s);
  inv_live : forall t, In t (live s) <-> present (log s) t = true;
  inv_clock : forall u, In u (log s) -> u_time u < clock s;
  inv_coh : forall t tm, has_key t tm (log s) -> sum_at t tm (log s) <> 0%Z
}.

Lemma Inv_st0 : Inv st0.
Proof.
  split; cbn.
  - constructor.
  - intros t. split; [tauto | discriminate].
  - tauto.
  - intros t tm [? [[] _]].
Qed.

(* effect of appending one operation's batch at the current clock *)
Lemma Inv_append s l' d ts :
  Inv s -> d <> 0%Z -> NoDup l' ->
  (forall t, In t l' <-> if mem_tuple t ts then Z.ltb 0 d = true else In t (live s)) ->
  forall a, Inv (mkSt l' a (log s ++ batch (clock s) d ts) (clock s + 1)).
Proof.
  intros I Hd ND HL a. destruct I as [_ IL IC IH]. split; cbn [live log clock].
  - exact ND.
  - intros t. rewrite HL, (present_append_batch _ _ _ _ _ IC Hd).
    destruct (mem_tuple t ts); [tauto | apply IL].
  - intros u H. apply in_app_iff in H. destruct H as [H|H]; [specialize (IC u H); lia|].
    unfold batch in H. apply in_map_iff in H. destruct H as [x [<- _]]. cbn. lia.
  - intros t tm K. rewrite sum_at_app. apply has_key_app in K. destruct K as [K|K].
    + assert (tm < clock s) by (destruct K as [u [Hu [_ <-]]]; auto).
      rewrite (sum_at_no_key t tm (batch _ _ _)), Z.add_0_r; [apply IH; exact K|].
      intros K'. apply batch_key in K'. lia.
    + apply batch_key in K. destruct K as [Ht ->].
      rewrite (sum_at_no_key t (clock s) (log s)), batch_sum.
      * apply count_pos in Ht. nia.
      * intros [u [Hu [_ T]]]. specialize (IC u Hu). lia.
Qed.

Lemma step_ins_Inv s ts : Inv s -> Inv (fst (step_ins s ts)).
Proof.
  intros I. unfold step_ins. destruct ts as [|x r]; [exact I|].
  set (ts := x :: r). destruct (negb (uniform_arity (arity_of_first ts) ts)); [exact I|].
  destruct (match rel_arity s with Some a' => negb (Nat.eqb a' (arity_of_first ts)) | None => false end); [exact I|].
  pose proof (ins_mem_In (live s) ts) as HI. pose proof (ins_mem_NoDup (live s) ts (inv_nodup _ I)) as HN.
  destruct (ins_mem (live s) ts) as [l' [n d]]. cbn [fst] in *.
  apply (Inv_append s l' 1 ts I); [lia | exact HN |].
  intros t. rewrite HI. destruct (mem_tuple t ts) eqn:M.
  - apply mem_tuple_In in M. cbn. tauto.
  - split; [|auto]. intros [H|H]; [exact H|]. apply mem_tuple_In in H. congruence.
Qed.

Lemma step_del_Inv s ts : Inv s -> Inv (fst (step_del s ts)).
Proof.
  intros I. unfold step_del. destruct ts as [|x r]; [exact I|].
  set (ts := x :: r). destruct (negb (uniform_arity (arity_of_first ts) ts)); [exact I|].
  destruct (match rel_arity s with Some a' => negb (Nat.eqb a' (arity_of_first ts)) | None => false end); [exact I|].
  pose proof (del_mem_In (live s) ts) as HI. pose proof (del_mem_NoDup (live s) ts (inv_nodup _ I)) as HN.
  destruct (del_mem (live s) ts) as [l' n]. cbn [fst] in *.
  apply (Inv_append s l' (-1) ts I); [lia | exact HN |].
  intros t. rewrite HI. destruct (mem_tuple t ts) eqn:M.
  - apply mem_tuple_In in M. cbn. split; [tauto | discriminate].
  - split; [tauto|]. intros H. split; [exact H|]. intros H'. apply mem_tuple_In in H'. congruence.
Qed.

Lemma present_consolidate l t :
  (forall tm, has_key t tm l -> sum_at t tm l <> 0%Z) -> present (consolidate l) t = present l t.
Proof.
  intros C. apply present_ext.
  - intros tm. rewrite consolidate_key. split; [tauto|]. intros K. split; [exact K | apply C, K].
  - intros tm. apply consolidate_sum.
Qed.

Lemma step_compact_Inv s : Inv s -> Inv (mkSt (live s) (rel_arity s) (consolidate (log s)) (clock s)).
Proof.
  intros [IN IL IC IH]. split; cbn [live log clock].
  - exact IN.
  - intros t. rewrite IL. symmetry. rewrite present_consolidate; [tauto | apply IH].
  - intros u H. apply consolidate_time in H. destruct H as [v [Hv <-]]. apply IC, Hv.
  - intros t tm K. rewrite consolidate_sum. apply consolidate_key in K. tauto.
Qed.

Lemma step_restart_Inv s : Inv s -> Inv (step_restart s).
Proof.
  intros [IN IL IC IH]. unfold step_restart. split; cbn [live log clock].
  - apply recover_NoDup.
  - intros t. apply recover_In.
  - exact IC.
  - exact IH.
Qed.

Lemma step_Inv s o : Inv s -> Inv (fst (step s o)).
Proof.
  intros I. destruct o; cbn [step fst].
  - apply step_ins_Inv, I.
  - apply step_del_Inv, I.
  - exact I.
  - apply step_compact_Inv, I.
  - apply step_restart_Inv, I.
Qed.

Lemma run_from_Inv h : forall s, Inv s -> Inv (run_from s h).
Proof.
  unfold run_from. induction h as [|o h IH]; intros s I; cbn [fold_left]; [exact I|].
  apply IH, step_Inv, I.
Qed.

Lemma run_Inv h : Inv (run h).
Proof. apply run_from_Inv, Inv_st0. Qed.

(* what a restart would rebuild is, as a set, what is being served — after every history *)
Lemma restart_reproduces_live h :
  let s := run h in
  (forall t, In t (recover (log s)) <-> In t (live s)) /\ NoDup (recover (log s)) /\ NoDup (live s).
Proof.
  cbn zeta. pose proof (run_Inv h) as I. split; [|split].
  - intros t. rewrite recover_In. symmetry. apply (inv_live _ I).
  - apply recover_NoDup.
  - apply (inv_nodup _ I).
Qed.
