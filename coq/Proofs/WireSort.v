(* C35: `compare_wire_values` (model `opt_wire_cmp`, tables from Gen/WireRank.v) is a total preorder on
   every sort-key column that satisfies `good_col`; hence `row_cmp keys` is a total preorder on the rows and
   the handler's sort + pagination returns exactly a slice of a sorted permutation of the full answer.
   The key argument mirrors C31: wire_cmp is the lexicographic comparison of  group :: payload-key,
   where `group` is COMPUTED from the generated arm table (number of kinds that compare Less). *)
From IL Require Import Model.Value Model.WireSort Proofs.ValueEq Proofs.OrdLaws Proofs.SortLaws.
From Coq Require Import Lia Sorting.Permutation Sorting.Sorted.
Open Scope N_scope.

(* ---- what the generated tables say about a pair of kinds *)
Definition arm_cmp (k1 k2 : wkind) : option comparison :=
  match wire_arm k1 k2 with
  | WConst c => Some c
  | WRank => Some (N.compare (wire_rank k1) (wire_rank k2))
  | WPayload => None
  end.
Definition is_ltc (c : option comparison) : bool := match c with Some Lt => true | _ => false end.
Definition wgroup (k : wkind) : N := N.of_nat (length (filter (fun k' => is_ltc (arm_cmp k' k)) all_wkinds)).

(* kinds whose values all compare Equal among themselves *)
Definition nopay (k : wkind) : bool :=
  match k with WKNull | WKVector | WKVectorInt8 | WKBytes => true | _ => false end.
(* the pairs of kinds the hand-written payload model covers *)
Definition paypair (k1 k2 : wkind) : bool :=
  match k1, k2 with
  | WKInt32, WKInt32 | WKInt64, WKInt64 | WKFloat64, WKFloat64 | WKString, WKString | WKBool, WKBool
  | WKTimestamp, WKTimestamp | WKInt64, WKFloat64 | WKFloat64, WKInt64 => true
  | _, _ => false
  end.

Lemma table_decided k1 k2 c : arm_cmp k1 k2 = Some c ->
  c = N.compare (wgroup k1) (wgroup k2) /\ (c = Eq -> nopay k1 = true /\ nopay k2 = true).
Proof.
  destruct k1, k2; vm_compute; intros H; inversion H; subst;
    (split; [reflexivity | intros E; try discriminate E; split; reflexivity]).
Qed.

Lemma table_payload k1 k2 : arm_cmp k1 k2 = None -> wgroup k1 = wgroup k2 /\ paypair k1 k2 = true.
Proof. destruct k1, k2; vm_compute; intros H; try discriminate H; split; reflexivity. Qed.

Lemma wire_cmp_arm a b :
  wire_cmp a b = match arm_cmp (wkind_of a) (wkind_of b) with Some c => c | None => wire_payload_cmp a b end.
Proof. unfold wire_cmp, arm_cmp. destruct (wire_arm _ _); reflexivity. Qed.

(* ---- the key *)
Definition wpk (hf : bool) (w : wire) : list Z :=
  match w with
  | WNull | WVec _ | WVec8 _ | WBytes _ => []
  | WI32 z | WTs z => [z]
  | WI64 z => [int_key hf z]
  | WF64 b => [f64_total_key b]
  | WStr s => map Z.of_N s
  | WBool b => [if b then 1 else 0]%Z
  end.
Definition wkey (hf : bool) (w : wire) : list Z := Z.of_N (wgroup (wkind_of w)) :: wpk hf w.
Definition okey (hf : bool) (o : option wire) : list Z :=
  match o with None => [] | Some w => 0%Z :: wkey hf w end.

(* what the key argument needs from a pair, given hf = "the column contains a Float64" *)
Definition ok_pair (hf : bool) (a b : wire) : Prop :=
  match a, b with
  | WI64 x, WI64 y => Z.compare x y = Z.compare (int_key hf x) (int_key hf y)
  | WI64 _, WF64 _ | WF64 _, WI64 _ => hf = true
  | _, _ => True
  end.

Lemma nopay_wpk hf w : nopay (wkind_of w) = true -> wpk hf w = [].
Proof. destruct w; cbn; congruence. Qed.

Lemma cmp1 (c : comparison) : match c with Eq => Eq | Lt => Lt | Gt => Gt end = c.
Proof. destruct c; reflexivity. Qed.

Lemma wire_cmp_key hf a b : ok_pair hf a b -> wire_cmp a b = lex_cmp Z.compare (wkey hf a) (wkey hf b).
Proof.
  intros OK. rewrite wire_cmp_arm. unfold wkey. cbn [lex_cmp].
  destruct (arm_cmp (wkind_of a) (wkind_of b)) as [c|] eqn:A.
  - destruct (table_decided _ _ _ A) as [Hc Hn]. rewrite N2Z.inj_compare, <- Hc.
    destruct c; auto.
    destruct (Hn eq_refl) as [Na Nb]. rewrite (nopay_wpk hf a Na), (nopay_wpk hf b Nb). reflexivity.
  - destruct (table_payload _ _ A) as [Hg Hp]. rewrite Hg, Z.compare_refl.
    destruct a, b; cbn [wkind_of paypair] in Hp; try discriminate Hp; cbn [wire_payload_cmp wpk lex_cmp].
    + symmetry; apply cmp1.
    + cbn in OK. rewrite OK. symmetry; apply cmp1.
    + cbn in OK. subst hf. unfold f64_tcmp, int_key. symmetry; apply cmp1.
    + cbn in OK. subst hf. unfold f64_tcmp, int_key. symmetry; apply cmp1.
    + unfold f64_tcmp. symmetry; apply cmp1.
    + apply lex_cmp_map. intros; symmetry; apply N2Z.inj_compare.
    + destruct b, b0; reflexivity.
    + symmetry; apply cmp1.
Qed.

Definition ok_opt (hf : bool) (a b : option wire) : Prop :=
  match a, b with Some x, Some y => ok_pair hf x y | _, _ => True end.

Lemma opt_wire_cmp_key hf a b : ok_opt hf a b -> opt_wire_cmp a b = lex_cmp Z.compare (okey hf a) (okey hf b).
Proof.
  destruct a as [x|], b as [y|]; cbn [opt_wire_cmp okey ok_opt]; try reflexivity.
  intros OK. cbn [lex_cmp]. rewrite Z.compare_refl. apply wire_cmp_key; exact OK.
Qed.

(* ---- good columns *)
Lemma col_ints_in vs z : In (Some (WI64 z)) vs -> In z (col_ints vs).
Proof. unfold col_ints. intros H. apply in_flat_map. exists (Some (WI64 z)). cbn. auto. Qed.

Lemma cmp_eqb_spec a b : cmp_eqb a b = true <-> a = b.
Proof. destruct a, b; cbn; split; congruence. Qed.

Lemma good_col_ok vs a b : good_col vs = true -> In a vs -> In b vs -> ok_opt (existsb is_f64 vs) a b.
Proof.
  unfold good_col. intros G Ia Ib. destruct a as [x|], b as [y|]; cbn [ok_opt]; auto.
  destruct x, y; cbn [ok_pair]; auto.
  - rewrite forallb_forall in G. specialize (G z (col_ints_in _ _ Ia)).
    rewrite forallb_forall in G. specialize (G z0 (col_ints_in _ _ Ib)).
    apply cmp_eqb_spec in G. exact G.
  - apply existsb_exists. exists (Some (WF64 bits)). auto.
  - apply existsb_exists. exists (Some (WF64 bits)). auto.
Qed.

Theorem opt_wire_preorder vs : good_col vs = true -> preorder_on (fun o => In o vs) opt_wire_cmp.
Proof.
  intros G.
  apply (key_preorder (fun o => In o vs) any (okey (existsb is_f64 vs)) (lex_cmp Z.compare)).
  - apply laws_preorder, listZ_laws.
  - intros; exact I.
  - intros a b Ia Ib. apply opt_wire_cmp_key, good_col_ok; auto.
Qed.

(* ---- rows *)
Definition col_cmp (col : nat) (a b : row) : comparison := opt_wire_cmp (nth_error a col) (nth_error b col).

Lemma col_cmp_preorder rows col :
  good_col (column col rows) = true -> preorder_on (fun r => In r rows) (col_cmp col).
Proof.
  intros G.
  apply (key_preorder (fun r => In r rows) (fun o => In o (column col rows)) (fun r => nth_error r col) opt_wire_cmp).
  - apply opt_wire_preorder; exact G.
  - intros r Hr. unfold column. apply in_map_iff. exists r; auto.
  - reflexivity.
Qed.

Lemma row_cmp_cons col desc keys a b :
  row_cmp ((col, desc) :: keys) a b =
  match (if desc then CompOpp (col_cmp col a b) else col_cmp col a b) with
  | Eq => row_cmp keys a b | Lt => Lt | Gt => Gt end.
Proof. cbn [row_cmp]. unfold col_cmp. destruct desc; destruct (opt_wire_cmp _ _); reflexivity. Qed.

Theorem row_cmp_preorder keys rows :
  good_keys keys rows = true -> preorder_on (fun r => In r rows) (row_cmp keys).
Proof.
  induction keys as [|[col desc] keys IH]; cbn [good_keys forallb]; intros G.
  - apply pre_const.
  - apply andb_true_iff in G. destruct G as [G1 G2]. cbn [fst] in G1.
    pose proof (col_cmp_preorder rows col G1) as C.
    apply (preorder_ext _ (fun a b => match (if desc then CompOpp (col_cmp col a b) else col_cmp col a b) with
                                       | Eq => row_cmp keys a b | Lt => Lt | Gt => Gt end)).
    + intros a b. symmetry. apply row_cmp_cons.
    + destruct desc.
      * apply (pre_lex2 _ (fun a b => CompOpp (col_cmp col a b))); [apply pre_flip; exact C | apply IH; exact G2].
      * apply (pre_lex2 _ (col_cmp col)); [exact C | apply IH; exact G2].
Qed.

(* ---- the handler step *)
Lemma apply_pagination_slice rows limit offset : apply_pagination rows limit offset = slice limit offset rows.
Proof.
  unfold apply_pagination, slice. set (o := match offset with Some o => o | None => O end).
  destruct (Nat.leb_spec (length rows) o) as [L|L]; [|reflexivity].
  rewrite skipn_all2 by exact L. destruct limit; [rewrite firstn_nil|]; reflexivity.
Qed.

Lemma Forall_In_self {A} (l : list A) : Forall (fun x => In x l) l.
Proof. apply Forall_forall. auto. Qed.

Theorem query_out_slice keys limit offset rows :
  let sorted := sort_rows keys rows in
  query_out keys limit offset rows = (slice limit offset sorted, length rows) /\
  Permutation sorted rows /\
  (good_keys keys rows = true -> StronglySorted (le_by (row_cmp keys)) sorted).
Proof.
  cbn zeta. unfold query_out. rewrite apply_pagination_slice.
  assert (Permutation (sort_rows keys rows) rows) as Perm.
  { unfold sort_rows. destruct keys; [reflexivity | apply sort_by_perm]. }
  split; [|split].
  - rewrite (Permutation_length Perm). reflexivity.
  - exact Perm.
  - intros G. unfold sort_rows. destruct keys as [|k keys].
    + (* no keys: every list is sorted for the constant comparator *)
      clear Perm G. induction rows as [|r rows IH]; constructor.
      * exact IH.
      * apply Forall_forall. intros; cbn. unfold le_by. cbn. discriminate.
    + apply (sort_by_sorted (fun r => In r rows)); [apply row_cmp_preorder; exact G | apply Forall_In_self].
Qed.

(* the executable specification accepts the model's output, and what it accepts is a slice of the sorted
   full answer up to ties *)
Lemma wire_eqb_spec a b : wire_eqb a b = true <-> a = b.
Proof.
  destruct a, b; cbn; try (split; congruence).
  - rewrite Z.eqb_eq; split; congruence.
  - rewrite Z.eqb_eq; split; congruence.
  - rewrite N.eqb_eq; split; congruence.
  - rewrite (list_eqb_spec N.eqb N.eqb_eq); split; congruence.
  - rewrite Bool.eqb_true_iff; split; congruence.
  - rewrite Z.eqb_eq; split; congruence.
  - rewrite (list_eqb_spec N.eqb N.eqb_eq); split; congruence.
  - rewrite (list_eqb_spec Z.eqb Z.eqb_eq); split; congruence.
  - rewrite (list_eqb_spec N.eqb N.eqb_eq); split; congruence.
Qed.

Lemma row_eqb_spec a b : row_eqb a b = true <-> a = b.
Proof. apply list_eqb_spec, wire_eqb_spec. Qed.

Lemma rows_eqb_refl l : rows_eqb l l = true.
Proof. apply (list_eqb_spec row_eqb row_eqb_spec). reflexivity. Qed.

Theorem model_meets_spec keys limit offset rows :
  good_keys keys rows = true ->
  c35_spec keys limit offset rows (fst (query_out keys limit offset rows)) (snd (query_out keys limit offset rows)) = true.
Proof.
  intros G. destruct (query_out_slice keys limit offset rows) as [E [Perm Sd]]. rewrite E. cbn [fst snd].
  unfold c35_spec. rewrite Nat.eqb_refl. cbn [andb].
  destruct keys as [|k keys].
  - cbn [sort_rows]. rewrite apply_pagination_slice. apply rows_eqb_refl.
  - apply (checker_complete row_eqb row_eqb_spec (fun r => In r rows) (row_cmp (k :: keys))).
    + apply row_cmp_preorder; exact G.
    + apply Forall_In_self.
    + exact Perm.
    + apply Sd; exact G.
Qed.

(* ---- refutations *)
(* (1) still in the tree: Int64 and Float64 are compared after rounding the integer to f64, two Int64
   among themselves exactly; beyond 2^53 this is not transitive *)
Definition w_big1 := WI64 9007199254740993.            (* 2^53 + 1 *)
Definition w_f53 := WF64 0x4340000000000000.            (* 2^53 as f64 *)
Definition w_big0 := WI64 9007199254740992.            (* 2^53 *)

Lemma wire_cmp_not_transitive :
  wire_cmp w_big1 w_f53 <> Gt /\ wire_cmp w_f53 w_big0 <> Gt /\ wire_cmp w_big1 w_big0 = Gt.
Proof. vm_compute. repeat split; congruence. Qed.

Lemma witness_not_good : good_col [Some w_big1; Some w_f53; Some w_big0] = false.
Proof. vm_compute. reflexivity. Qed.

(* the model sorts the witness rows into an order that is not sorted *)
Lemma witness_unsorted :
  let rows := [[w_big1]; [w_f53]; [w_big0]] in
  c35_spec [(O, false)] None None rows (fst (query_out [(O, false)] None None rows)) 3 = false.
Proof. vm_compute. reflexivity. Qed.

(* (2) the comparator of the pinned tree: partial_cmp(..).unwrap_or(Equal) *)
Definition f64_pcmp (a b : N) : comparison := match f64_partial_cmp a b with Some c => c | None => Eq end.
Definition wire_cmp_old (a b : wire) : comparison :=
  match a, b with
  | WF64 x, WF64 y => f64_pcmp x y
  | WI64 x, WF64 y => f64_pcmp (f64_of_i64 x) y
  | WF64 x, WI64 y => f64_pcmp x (f64_of_i64 y)
  | _, _ => wire_cmp a b
  end.

Lemma old_wire_cmp_not_transitive :
  let nan := WF64 0x7FF8000000000000 in let one := WF64 0x3FF0000000000000 in let two := WF64 0x4000000000000000 in
  wire_cmp_old two nan <> Gt /\ wire_cmp_old nan one <> Gt /\ wire_cmp_old two one = Gt.
Proof. vm_compute. repeat split; congruence. Qed.

(* ---- `i64 as f64` is exact, hence strictly monotone, up to 2^53: such columns are always good *)
Definition small_int (z : Z) : Prop := (Z.abs z <= 9007199254740992)%Z.
