(* Lemmas about Model/ProvDatalog.v:
   - check_proof_iff : the boolean checker decides the specification valid_proof (C21)
   - level_sound     : every tuple of level k has a complete valid proof of height <= k+1 (C22) *)
From IL Require Import Model.Value Proofs.ValueEq Model.ProvDatalog.
From Coq Require Import Lia.
Open Scope N_scope.

(* ---------------------------------------------------------------- small facts *)
Lemma in_rel_In d r t : in_rel d r t = true <-> In t (rel_tuples d r).
Proof. unfold in_rel. apply mem_tuple_In. Qed.

Lemma opt_value_eqb_spec a b : opt_value_eqb a b = true <-> a = b.
Proof.
  destruct a, b; cbn; try (split; congruence).
  rewrite value_eqb_spec. split; congruence.
Qed.

Lemma pat_gen_self th args : pat_gen th args (map (term_pat th) args) = true.
Proof.
  induction args as [|t args IH]; [reflexivity|].
  cbn [map pat_gen]. rewrite IH, andb_true_r.
  destruct t as [x|c]; unfold term_pat, pos_gen.
  - destruct (lookup th x) as [v|] eqn:E.
    + cbn. apply value_eqb_spec; reflexivity.
    + apply N.eqb_refl.
  - apply value_eqb_spec; reflexivity.
Qed.

Lemma values_eqb_spec (a b : list value) : list_eqb value_eqb a b = true <-> a = b.
Proof. apply list_eqb_spec, value_eqb_spec. Qed.

Lemma existsb_false_forall {A} (f : A -> bool) l :
  existsb f l = false <-> forall x, In x l -> f x = false.
Proof.
  induction l as [|y l IH]; cbn; [split; [intros _ x []|reflexivity]|].
  rewrite orb_false_iff, IH. split.
  - intros [H1 H2] x [<-|H]; auto.
  - intros H; split; [apply H; auto | intros x Hx; apply H; auto].
Qed.

(* ---------------------------------------------------------------- induction on proof trees *)
Section ptree_induction.
  Variable Q : ptree -> Prop.
  Variable Hfact : forall d r t, Q (PFact d r t).
  Variable Hrule : forall r t ci th kids, Forall Q kids -> Q (PRule r t ci th kids).
  Variable Hneg : forall r p a, Q (PNeg r p a).
  Variable Htrunc : forall r t, Q (PTrunc r t).
  Variable Hother : Q POther.
  Fixpoint ptree_ind2 (t : ptree) : Q t :=
    match t with
    | PFact d r tu => Hfact d r tu
    | PRule r tu ci th kids =>
        Hrule r tu ci th kids
              ((fix go (l : list ptree) : Forall Q l :=
                  match l with
                  | [] => Forall_nil Q
                  | k :: l' => Forall_cons k (ptree_ind2 k) (go l')
                  end) kids)
    | PNeg r p a => Hneg r p a
    | PTrunc r tu => Htrunc r tu
    | POther => Hother
    end.
End ptree_induction.

(* ---------------------------------------------------------------- the checker decides the spec *)
Scheme valid_proof_mut := Induction for valid_proof Sort Prop
  with valid_body_mut := Induction for valid_body Sort Prop.
Combined Scheme valid_proof_mutind from valid_proof_mut, valid_body_mut.

Section CheckSpec.
  Variable lenient : bool.
  Variable P : program.
  Variable edb M : db.

  Notation valid := (valid_proof lenient P edb M).
  Notation vbody := (valid_body lenient P edb M).
  Notation chk := (check_proof lenient P edb M).

  Lemma strip_cmps_sound th ls ls' :
    strip_cmps th ls = Some ls' -> forall ks, vbody th ls' ks -> vbody th ls ks.
  Proof.
    revert ls'. induction ls as [|l ls IH]; intros ls' H ks Hv.
    - cbn in H. inversion H; subst; exact Hv.
    - destruct l as [a|a|x o y]; cbn in H; try (inversion H; subst; exact Hv).
      destruct (cmp_ok th x o y) eqn:E; [|discriminate].
      unfold cmp_ok in E.
      destruct (term_val th x) as [vx|] eqn:Ex; [|discriminate].
      destruct (term_val th y) as [vy|] eqn:Ey; [|discriminate].
      eapply B_cmp; eauto.
  Qed.

  Lemma check_body_unfold f th ks ls :
    check_body M f th ks ls =
    match strip_cmps th ls with
    | None => false
    | Some [] => match ks with [] => true | _ :: _ => false end
    | Some (LPos a :: ls') =>
        match ks with
        | k :: ks' => pos_kid_ok th a k && f k && check_body M f th ks' ls'
        | [] => false
        end
    | Some (LNeg a :: ls') =>
        match ks with
        | k :: ks' => neg_leaf_ok M th a k && check_body M f th ks' ls'
        | [] => false
        end
    | Some (LCmp _ _ _ :: _) => false
    end.
  Proof. destruct ks; reflexivity. Qed.

  Lemma neg_leaf_ok_spec th a k :
    neg_leaf_ok M th a k = true <->
    exists pat, k = PNeg (arel a) pat (concretes pat) /\ pat_gen th (aargs a) pat = true /\
    (forall tu, In tu (rel_tuples M (arel a)) -> pat_matches pat tu = false).
  Proof.
    destruct k as [d r t|r t ci th' kids|r pat args|r t|]; cbn;
      try (split; [discriminate | intros [p [H _]]; discriminate]).
    rewrite !andb_true_iff, N.eqb_eq, values_eqb_spec, negb_true_iff, existsb_false_forall.
    split.
    - intros [[[-> Hg] ->] H]. exists pat. auto.
    - intros [p [E [Hg H]]]. inversion E; subst. repeat split; auto.
  Qed.

  Lemma pos_kid_ok_spec th a k :
    pos_kid_ok th a k = true <->
    exists tu, atom_tuple th a = Some tu /\ concl k = Some (arel a, tu).
  Proof.
    unfold pos_kid_ok.
    destruct (atom_tuple th a) as [tu|]; [|split; [discriminate | intros [tu [H _]]; discriminate]].
    destruct (concl k) as [[r tu']|]; [|split; [discriminate | intros [x [_ H]]; discriminate]].
    rewrite andb_true_iff, N.eqb_eq, tuple_eqb_spec. split.
    - intros [-> ->]. eauto.
    - intros [x [E1 E2]]. inversion E1; inversion E2; subst; auto.
  Qed.

  Lemma check_body_sound f th ks :
    Forall (fun k => f k = true -> valid k) ks ->
    forall ls, check_body M f th ks ls = true -> vbody th ls ks.
  Proof.
    induction ks as [|k ks IH]; intros HF ls H; rewrite check_body_unfold in H.
    - destruct (strip_cmps th ls) as [ls'|] eqn:E; [|discriminate].
      destruct ls' as [|[a|a|x o y] ls'']; try discriminate.
      eapply strip_cmps_sound; [exact E | constructor].
    - inversion HF as [|? ? Hk HF']; subst.
      destruct (strip_cmps th ls) as [ls'|] eqn:E; [|discriminate].
      destruct ls' as [|[a|a|x o y] ls'']; try discriminate.
      + apply andb_true_iff in H as [H H3]. apply andb_true_iff in H as [H1 H2].
        apply pos_kid_ok_spec in H1 as [tu [E1 E2]].
        eapply strip_cmps_sound; [exact E|].
        eapply B_pos; eauto.
      + apply andb_true_iff in H as [H1 H2].
        apply neg_leaf_ok_spec in H1 as [pat [-> [Hg Hn]]].
        eapply strip_cmps_sound; [exact E|].
        apply B_neg; auto.
  Qed.

  Lemma check_proof_sound t : chk t = true -> valid t.
  Proof.
    induction t as [d r tu|r tu ci th kids IH|r p a|r tu|] using ptree_ind2; cbn; intros H; try discriminate.
    - destruct d.
      + apply andb_true_iff in H as [-> H]. apply V_hole_derived; [reflexivity | apply in_rel_In; exact H].
      + apply V_fact. apply in_rel_In; exact H.
    - destruct (nth_error P ci) as [c|] eqn:Ec; [|discriminate].
      apply andb_true_iff in H as [H H3]. apply andb_true_iff in H as [H1 H2].
      apply N.eqb_eq in H1.
      destruct (atom_tuple th (chead c)) as [hu|] eqn:Eh; [|discriminate].
      apply tuple_eqb_spec in H2; subst hu.
      eapply V_rule; eauto.
      eapply check_body_sound; [|exact H3]. exact IH.
    - apply andb_true_iff in H as [-> H]. apply V_hole_trunc; [reflexivity | apply in_rel_In; exact H].
  Qed.

  Lemma check_body_cmp f th ks x o y ls :
    cmp_ok th x o y = true ->
    check_body M f th ks (LCmp x o y :: ls) = check_body M f th ks ls.
  Proof.
    intros H. rewrite (check_body_unfold f th ks (LCmp x o y :: ls)), (check_body_unfold f th ks ls).
    cbn [strip_cmps]. rewrite H. reflexivity.
  Qed.

  Lemma valid_complete_mut :
    (forall t, valid t -> chk t = true) /\
    (forall th ls ks, vbody th ls ks -> check_body M chk th ks ls = true).
  Proof.
    apply (valid_proof_mutind lenient P edb M
             (fun t _ => chk t = true)
             (fun th ls ks _ => check_body M chk th ks ls = true)).
    - intros r tu H. cbn. apply in_rel_In; exact H.
    - intros r tu -> H. cbn. apply in_rel_In; exact H.
    - intros r tu -> H. cbn. apply in_rel_In; exact H.
    - intros r tu ci th kids c Hn Hr Hh Hb IH. cbn. rewrite Hn, Hr, N.eqb_refl, Hh, tuple_eqb_refl. cbn.
      exact IH.
    - intros th. reflexivity.
    - intros th a ls k ks tu Ha Hc Hk IHk Hb IHb.
      rewrite check_body_unfold. cbn [strip_cmps]. rewrite IHk, IHb.
      replace (pos_kid_ok th a k) with true; [reflexivity|].
      symmetry. apply pos_kid_ok_spec. eauto.
    - intros th a ls ks pat Hg Hn Hb IHb.
      rewrite check_body_unfold. cbn [strip_cmps]. rewrite IHb.
      replace (neg_leaf_ok M th a _) with true; [reflexivity|].
      symmetry. apply neg_leaf_ok_spec. exists pat. auto.
    - intros th l o r ls ks x y Hx Hy Hc Hb IHb.
      rewrite check_body_cmp; [exact IHb|]. unfold cmp_ok. rewrite Hx, Hy. exact Hc.
  Qed.

  Theorem check_proof_iff t : chk t = true <-> valid t.
  Proof. split; [apply check_proof_sound | apply (proj1 valid_complete_mut)]. Qed.
End CheckSpec.

(* ---------------------------------------------------------------- bottom-up levels have proofs *)
Definition extends (th th' : subst) : Prop :=
  forall v x, lookup th v = Some x -> lookup th' v = Some x.

Lemma extends_refl th : extends th th.
Proof. intros v x H; exact H. Qed.
Lemma extends_trans a b c : extends a b -> extends b c -> extends a c.
Proof. intros H1 H2 v x H; auto. Qed.

Lemma extends_cons th v x : lookup th v = None -> extends th ((v, x) :: th).
Proof.
  intros H w y Hw. cbn. destruct (N.eqb v w) eqn:E; [|exact Hw].
  apply N.eqb_eq in E; subst. congruence.
Qed.

Lemma term_val_ext th th' t x : extends th th' -> term_val th t = Some x -> term_val th' t = Some x.
Proof. intros He. destruct t; cbn; auto. Qed.

Lemma match_args_ext args : forall th t th', match_args th args t = Some th' -> extends th th'.
Proof.
  induction args as [|a args IH]; intros th t th' H; destruct t as [|x t]; cbn in H; try discriminate.
  - inversion H; subst; apply extends_refl.
  - destruct a; discriminate.
  - destruct a as [v|c].
    + destruct (lookup th v) as [y|] eqn:E.
      * destruct (value_eqb y x); [eauto | discriminate].
      * eapply extends_trans; [apply extends_cons; exact E | eauto].
    + destruct (value_eqb c x); [eauto | discriminate].
Qed.

Lemma match_args_tuple args : forall th t th' th'',
  match_args th args t = Some th' -> extends th' th'' ->
  opt_all (map (term_val th'') args) = Some t.
Proof.
  induction args as [|a args IH]; intros th t th' th'' H He; destruct t as [|x t]; cbn in H; try discriminate.
  - reflexivity.
  - destruct a; discriminate.
  - cbn [map opt_all term_val]. destruct a as [v|c].
    + destruct (lookup th v) as [y|] eqn:E.
      * destruct (value_eqb y x) eqn:Ev; [|discriminate]. apply value_eqb_spec in Ev; subst y.
        assert (lookup th'' v = Some x) as Hv.
        { apply He. eapply match_args_ext; eauto. }
        cbn [term_val]. rewrite Hv. erewrite IH; eauto.
      * assert (lookup th'' v = Some x) as Hv.
        { apply He. eapply match_args_ext; [exact H|]. cbn. rewrite N.eqb_refl. reflexivity. }
        cbn [term_val]. rewrite Hv. erewrite IH; eauto.
    + destruct (value_eqb c x) eqn:Ev; [|discriminate]. apply value_eqb_spec in Ev; subst c.
      cbn [term_val]. erewrite IH; eauto.
Qed.

Lemma atom_tuple_ext th th' a tu : extends th th' -> atom_tuple th a = Some tu -> atom_tuple th' a = Some tu.
Proof.
  unfold atom_tuple, atom_pat. intros He. generalize (aargs a) tu. clear a tu.
  induction l as [|t l IH]; intros tu H; cbn in *; [exact H|].
  destruct (term_val th t) as [x|] eqn:E; [|discriminate].
  rewrite (term_val_ext _ _ _ _ He E).
  destruct (opt_all (map (term_val th) l)) as [r|] eqn:E2; [|discriminate].
  rewrite (IH r eq_refl). exact H.
Qed.

Lemma sat_pos_spec L ats : forall th th',
  In th' (sat_pos L ats th) ->
  extends th th' /\
  Forall (fun a => exists tu, atom_tuple th' a = Some tu /\ In tu (rel_tuples L (arel a))) ats.
Proof.
  induction ats as [|a ats IH]; intros th th' H; cbn in H.
  - destruct H as [<-|[]]. split; [apply extends_refl | constructor].
  - apply in_flat_map in H as [t [Ht H]].
    destruct (match_args th (aargs a) t) as [th1|] eqn:E; [|destruct H].
    apply IH in H as [He HF]. split.
    + eapply extends_trans; [eapply match_args_ext; eauto | exact He].
    + constructor; [|exact HF]. exists t. split; [|exact Ht].
      unfold atom_tuple. eapply match_args_tuple; eauto.
Qed.

Lemma in_pos_atoms a body : In a (pos_atoms body) <-> In (LPos a) body.
Proof.
  unfold pos_atoms. rewrite in_flat_map. split.
  - intros [l [Hl H]]. destruct l; cbn in H; try contradiction. destruct H as [<-|[]]. exact Hl.
  - intros H. exists (LPos a). split; [exact H | left; reflexivity].
Qed.

Lemma rel_tuples_app d1 d2 r : rel_tuples (d1 ++ d2) r = rel_tuples d1 r ++ rel_tuples d2 r.
Proof. unfold rel_tuples. apply flat_map_app. Qed.

Lemma fresh_tuples_incl I r ts t : In t (fresh_tuples I r ts) -> In t ts.
Proof.
  unfold fresh_tuples. rewrite dedup_tuples_In, filter_In. tauto.
Qed.

Lemma add_fresh_In I r ts r' t :
  In t (rel_tuples (add_fresh I r ts) r') -> In t (rel_tuples I r') \/ (r = r' /\ In t ts).
Proof.
  unfold add_fresh. destruct (fresh_tuples I r ts) as [|x new] eqn:E; [auto|].
  rewrite rel_tuples_app. rewrite in_app_iff. intros [H|H]; [auto|].
  right. cbn in H. destruct (N.eqb r r') eqn:Er; cbn in H; [|destruct H].
  apply N.eqb_eq in Er. split; [exact Er|].
  rewrite app_nil_r in H. apply (fresh_tuples_incl I r). rewrite E. exact H.
Qed.

Lemma add_fresh_mono I r ts r' t : In t (rel_tuples I r') -> In t (rel_tuples (add_fresh I r ts) r').
Proof.
  unfold add_fresh. destruct (fresh_tuples I r ts); [auto|].
  rewrite rel_tuples_app, in_app_iff. auto.
Qed.

Lemma level_step_In P M L : forall r t,
  In t (rel_tuples (level_step P M L) r) ->
  In t (rel_tuples L r) \/ exists c, In c P /\ arel (chead c) = r /\ In t (clause_heads L M c).
Proof.
  unfold level_step.
  assert (G : forall cs acc r t,
             In t (rel_tuples (fold_left (fun acc c => add_fresh acc (arel (chead c)) (clause_heads L M c)) cs acc) r) ->
             In t (rel_tuples acc r) \/ exists c, In c cs /\ arel (chead c) = r /\ In t (clause_heads L M c)).
  { induction cs as [|c cs IH]; intros acc r t H; cbn in H; [auto|].
    apply IH in H as [H|[c' [H1 [H2 H3]]]].
    - apply add_fresh_In in H as [H|[H1 H2]]; [auto|]. right. exists c. cbn; auto.
    - right. exists c'. cbn; auto. }
  intros r t H. apply G in H. exact H.
Qed.

Lemma level_step_mono P M L r t : In t (rel_tuples L r) -> In t (rel_tuples (level_step P M L) r).
Proof.
  unfold level_step. generalize L at 1 3. induction P as [|c cs IH]; intros acc H; cbn; [exact H|].
  apply IH. apply add_fresh_mono. exact H.
Qed.

Lemma fold_max_le (l : list ptree) h :
  Forall (fun k => (height k <= h)%nat) l -> (fold_right (fun k m => Nat.max (height k) m) O l <= h)%nat.
Proof. induction 1; cbn; lia. Qed.

Lemma iter_shift {A} (f : A -> A) j : forall x, Nat.iter j f (f x) = f (Nat.iter j f x).
Proof.
  induction j as [|j IH]; intros x; [reflexivity|].
  change (f (Nat.iter j f (f x)) = f (f (Nat.iter j f x))). rewrite IH. reflexivity.
Qed.

Section Levels.
  Variable P : program.
  Variable edb M : db.
  Notation valid := (valid_proof false P edb M).
  Notation vbody := (valid_body false P edb M).

  Definition good (h : nat) (r : rel) (tu : tuple) : Prop :=
    exists tr, valid tr /\ concl tr = Some (r, tu) /\ (height tr <= h)%nat /\ complete tr = true.

  Lemma body_build th (h : nat) body :
    (1 <= h)%nat ->
    (forall a, In (LPos a) body -> exists tu, atom_tuple th a = Some tu /\ good h (arel a) tu) ->
    forallb (side_ok M th) body = true ->
    exists kids, vbody th body kids /\ Forall (fun k => (height k <= h)%nat) kids /\ forallb complete kids = true.
  Proof.
    intros Hh. induction body as [|l body IH]; intros Hp Hs.
    - exists []. repeat split; constructor.
    - cbn in Hs. apply andb_true_iff in Hs as [Hl Hs].
      destruct IH as [kids [Hv [Hk Hc]]]; [intros a Ha; apply Hp; right; exact Ha | exact Hs |].
      destruct l as [a|a|x o y].
      + destruct (Hp a (or_introl eq_refl)) as [tu [Ha [tr [V [C [Hle Cm]]]]]].
        exists (tr :: kids). repeat split.
        * eapply B_pos; eauto.
        * constructor; auto.
        * cbn. rewrite Cm, Hc. reflexivity.
      + exists (PNeg (arel a) (atom_pat th a) (concretes (atom_pat th a)) :: kids). repeat split.
        * apply B_neg; [apply pat_gen_self | | exact Hv]. cbn in Hl. unfold neg_ok in Hl.
          apply negb_true_iff in Hl. apply existsb_false_forall. exact Hl.
        * constructor; [cbn; lia | exact Hk].
        * cbn. exact Hc.
      + exists kids. repeat split; auto.
        cbn in Hl. unfold cmp_ok in Hl.
        destruct (term_val th x) as [vx|] eqn:Ex; [|discriminate].
        destruct (term_val th y) as [vy|] eqn:Ey; [|discriminate].
        eapply B_cmp; eauto.
  Qed.

  Lemma clause_heads_good (L : db) (h : nat) c tu :
    (1 <= h)%nat ->
    In c P ->
    (forall r t, In t (rel_tuples L r) -> good h r t) ->
    In tu (clause_heads L M c) -> good (S h) (arel (chead c)) tu.
  Proof.
    intros Hh Hc HL H. unfold clause_heads in H.
    apply in_flat_map in H as [th [Hth H]].
    destruct (atom_tuple th (chead c)) as [hu|] eqn:Eh; [|destruct H].
    destruct H as [<-|[]].
    unfold clause_thetas in Hth. apply filter_In in Hth as [Hsat Hside].
    apply sat_pos_spec in Hsat as [_ HF]. rewrite Forall_forall in HF.
    destruct (body_build th h (cbody c) Hh) as [kids [Hv [Hk Hcm]]].
    - intros a Ha. apply in_pos_atoms in Ha. destruct (HF a Ha) as [tu [E Hin]].
      exists tu. split; [exact E | apply HL; exact Hin].
    - exact Hside.
    - destruct (In_nth_error _ _ Hc) as [ci Hci].
      exists (PRule (arel (chead c)) hu ci th kids). repeat split.
      + eapply V_rule; eauto.
      + cbn. apply le_n_S. apply fold_max_le. exact Hk.
      + cbn. exact Hcm.
  Qed.

  Lemma good_mono h h' r t : (h <= h')%nat -> good h r t -> good h' r t.
  Proof. intros Hle [tr [V [C [H Cm]]]]. exists tr. repeat split; auto. lia. Qed.

  Theorem level_sound k : forall r t, In t (rel_tuples (level P edb M k) r) -> good (S k) r t.
  Proof.
    induction k as [|k IH]; intros r t H.
    - cbn in H. exists (PFact false r t). repeat split; [constructor; exact H | cbn; lia].
    - cbn in H. apply level_step_In in H as [H|[c [Hc [<- H]]]].
      + eapply good_mono; [|apply IH; exact H]. lia.
      + eapply clause_heads_good; eauto. lia.
  Qed.

  Lemma depth_from_level L fuel : forall k r t d,
    depth_from P M L fuel k r t = Some d ->
    exists j, d = (k + j)%nat /\ In t (rel_tuples (Nat.iter j (level_step P M) L) r).
  Proof.
    revert L. induction fuel as [|f IH]; intros L k r t d H; cbn in H.
    - destruct (in_rel L r t) eqn:E; [|discriminate]. inversion H; subst.
      exists O. split; [lia | apply in_rel_In; exact E].
    - destruct (in_rel L r t) eqn:E.
      + inversion H; subst. exists O. split; [lia | apply in_rel_In; exact E].
      + apply IH in H as [j [-> Hj]]. exists (S j). split; [lia|].
        change (Nat.iter (S j) (level_step P M) L) with (level_step P M (Nat.iter j (level_step P M) L)).
        rewrite <- iter_shift. exact Hj.
  Qed.

  Lemma level_iter k : level P edb M k = Nat.iter k (level_step P M) edb.
  Proof.
    induction k as [|k IH]; [reflexivity|].
    change (level_step P M (level P edb M k) = level_step P M (Nat.iter k (level_step P M) edb)).
    rewrite IH. reflexivity.
  Qed.

  Theorem depth_of_has_proof fuel r t d :
    depth_of P edb M fuel r t = Some d -> good (S d) r t.
  Proof.
    unfold depth_of. intros H. apply depth_from_level in H as [j [-> Hj]].
    cbn. apply level_sound. rewrite level_iter. exact Hj.
  Qed.
End Levels.
