(* Proofs/Catalog.v — crash safety of the catalog save (C16). *)
From Coq Require Import List NArith Bool Arith Lia.
From IL Require Import Model.FS Model.Catalog.
Import ListNotations.

(* ------------------------------------------------------------------ the file format *)
Lemma parse_body_ser : forall c, parse_body (map (fun e => TEnt (fst e) (snd e)) c ++ [TClose]) = Some c.
Proof.
  induction c as [|[n v] c IH]; cbn [map app fst snd parse_body]; auto.
  rewrite IH. reflexivity.
Qed.

Lemma parse_ser : forall c, parse (ser c) = Some c.
Proof. intro c. unfold ser, parse. apply parse_body_ser. Qed.

Lemma parse_body_prefix : forall c t,
  (t < length c + 1)%nat -> parse_body (firstn t (map (fun e => TEnt (fst e) (snd e)) c ++ [TClose])) = None.
Proof.
  induction c as [|[n v] c IH]; intros t H; cbn [map app length] in *.
  - assert (t = 0)%nat by lia. subst. reflexivity.
  - destruct t as [|t]; [reflexivity|].
    cbn [firstn parse_body fst snd]. rewrite IH by lia.
    destruct (firstn t (map (fun e => TEnt (fst e) (snd e)) c ++ [TClose])); reflexivity.
Qed.

(* no strict prefix of a serialised catalog parses: a torn catalog file is never mistaken for a catalog *)
Lemma parse_strict_prefix : forall c t, (t < length (ser c))%nat -> parse (firstn t (ser c)) = None.
Proof.
  intros c t H. unfold ser in *. cbn [length] in H. rewrite app_length, map_length in H. cbn [length] in H.
  destruct t as [|t]; [reflexivity|].
  cbn [firstn parse]. apply parse_body_prefix. lia.
Qed.

(* ------------------------------------------------------------------ generic file-system facts *)
Section FSFacts.
Context {A : Type}.

Lemma exec_app : forall (a b : list (mstep A)) f, exec (a ++ b) f = exec b (exec a f).
Proof. intros. unfold exec. apply fold_left_app. Qed.

Definition run_dir (ms : list (mstep A)) (x : dir A) : dir A := fold_left (fun y m => step_on m y) ms x.

Lemma run_dir_app : forall a b x, run_dir (a ++ b) x = run_dir b (run_dir a x).
Proof. intros. unfold run_dir. apply fold_left_app. Qed.

(* a step only changes its own directory *)
Lemma exec_proj : forall (ms : list (mstep A)) f e,
  exec ms f e = run_dir (filter (fun m => N.eqb (step_dir m) e) ms) (f e).
Proof.
  induction ms as [|m ms IH]; intros f e; [reflexivity|].
  cbn [exec fold_left filter]. fold (exec ms (exec_step f m)). rewrite IH.
  unfold exec_step, fs_upd. rewrite (N.eqb_sym e).
  destruct (N.eqb (step_dir m) e) eqn:E.
  - apply N.eqb_eq in E. subst e. reflexivity.
  - reflexivity.
Qed.

Lemma filter_firstn_prefix : forall {X} (p : X -> bool) (l : list X) k,
  exists k', filter p (firstn k l) = firstn k' (filter p l) /\ (k' <= length (filter p l))%nat
             /\ (length l <= k -> k' = length (filter p l))%nat.
Proof.
  induction l as [|x l IH]; intros k.
  - exists 0%nat. rewrite firstn_nil. cbn. repeat split; auto.
  - destruct k as [|k].
    + exists 0%nat. cbn [firstn filter]. repeat split; [lia|cbn [length]; lia].
    + destruct (IH k) as [k' [E [L F]]]. cbn [firstn filter].
      destruct (p x).
      * exists (S k'). cbn [firstn length]. rewrite E. repeat split; [lia|]. intro. f_equal. apply F. cbn [length] in *. lia.
      * exists k'. repeat split; auto. intro. apply F. cbn [length] in *. lia.
Qed.

Lemma vdent_nil : forall (x : dir A), dpend x = [] -> vdent x = dent x.
Proof. intros x H. unfold vdent. rewrite H. reflexivity. Qed.

End FSFacts.

(* ------------------------------------------------------------------ one catalog directory *)
(* A directory is Good for catalog [c]: nothing pending, the catalog file (if any) is fully durable and
   holds [ser c] (no file = the empty catalog), and a left-over .tmp never aliases the catalog file. *)
Definition GoodDir (x : dir tok) (c : cat) : Prop :=
  dpend x = [] /\
  (forall n i, dent x n = Some i -> (i < next x)%nat) /\
  match dent x f_cat with
  | Some i => ino x i = mkInode (ser c) [] /\ dent x f_tmp <> Some i
  | None => c = []
  end.

Lemma crash_content_nil : forall {A} n t (d : list A), crash_content n t (mkInode d []) = d.
Proof. intros. unfold crash_content. cbn [pends dur]. rewrite firstn_nil. destruct n; reflexivity. Qed.

Ltac neqb :=
  repeat match goal with
  | |- context[Nat.eqb ?a ?a] => rewrite (Nat.eqb_refl a)
  | |- context[Nat.eqb ?a ?b] => rewrite (proj2 (Nat.eqb_neq a b)) by (first [congruence | lia])
  end.

Ltac bound Hlt :=
  let n := fresh "n" in let i := fresh "i" in let H := fresh "H" in
  intros n i H; unfold dm_set in H;
  repeat match type of H with context[N.eqb ?a ?b] => destruct (N.eqb a b) end;
  try discriminate; try (injection H as <-; lia); try (apply Hlt in H; lia).

Ltac stepc E0 Et :=
  repeat (progress (cbn -[crash_content ser];
                    unfold f_cat, f_tmp, d_create, d_write, d_fsync, d_rename, d_fsync_dir, set_ino, vdent, crash_dir, vol;
                    rewrite ?fold_left_app, ?firstn_nil, ?Et, ?E0; neqb)).

Ltac good E0 Et Hlt Hi0 :=
  unfold GoodDir; stepc E0 Et; split; [reflexivity|split; [bound Hlt|]];
  stepc E0 Et; rewrite ?Hi0, ?crash_content_nil; stepc E0 Et;
  try reflexivity; try (split; [reflexivity | congruence]); try (split; congruence).

Ltac leaf E0 Et Hlt Hi0 := first [left; solve [good E0 Et Hlt Hi0] | right; solve [good E0 Et Hlt Hi0]].

(* crash at any point of the atomic save, any loss choice: the directory is Good for the old or the new catalog *)
Lemma save_crash_good : forall x c c' d ch k, GoodDir x c -> (k <= 5)%nat ->
  let y := crash_dir ch (run_dir (firstn k (save_steps true d c')) x) in GoodDir y c \/ GoodDir y c'.
Proof.
  intros [ino next dent dpend] c c' d [dc ic] k (Hp & Hlt & Hc) Hk. cbn in Hp, Hlt, Hc. subst dpend.
  unfold f_cat, f_tmp in *.
  assert (Hk' : (k = 0 \/ k = 1 \/ k = 2 \/ k = 3 \/ k = 4 \/ k = 5)%nat) by lia.
  destruct (dent 0%N) as [i0|] eqn:E0; [destruct Hc as [Hi0 Hne]; pose proof (Hlt _ _ E0) as Hlt0|];
  (destruct (dent 1%N) as [j|] eqn:Et; [pose proof (Hlt _ _ Et) as Hltj|]).
  - assert (j <> i0) by congruence.
    destruct Hk' as [->|[->|[->|[->|[->| ->]]]]]; cbv zeta; unfold save_steps, run_dir; cbn [firstn fold_left step_on].
    + leaf E0 Et Hlt Hi0.
    + leaf E0 Et Hlt Hi0.
    + leaf E0 Et Hlt Hi0.
    + leaf E0 Et Hlt Hi0.
    + destruct dc as [|dc]; leaf E0 Et Hlt Hi0.
    + leaf E0 Et Hlt Hi0.
  - assert (next <> i0) by lia.
    destruct Hk' as [->|[->|[->|[->|[->| ->]]]]]; cbv zeta; unfold save_steps, run_dir; cbn [firstn fold_left step_on].
    + leaf E0 Et Hlt Hi0.
    + destruct dc as [|dc]; leaf E0 Et Hlt Hi0.
    + destruct dc as [|dc]; leaf E0 Et Hlt Hi0.
    + destruct dc as [|dc]; leaf E0 Et Hlt Hi0.
    + destruct dc as [|[|dc]]; leaf E0 Et Hlt Hi0.
    + leaf E0 Et Hlt Hi0.
  - subst c.
    destruct Hk' as [->|[->|[->|[->|[->| ->]]]]]; cbv zeta; unfold save_steps, run_dir; cbn [firstn fold_left step_on].
    + leaf E0 Et Hlt Hlt.
    + leaf E0 Et Hlt Hlt.
    + leaf E0 Et Hlt Hlt.
    + leaf E0 Et Hlt Hlt.
    + destruct dc as [|dc]; leaf E0 Et Hlt Hlt.
    + leaf E0 Et Hlt Hlt.
  - subst c.
    destruct Hk' as [->|[->|[->|[->|[->| ->]]]]]; cbv zeta; unfold save_steps, run_dir; cbn [firstn fold_left step_on].
    + leaf E0 Et Hlt Hlt.
    + destruct dc as [|dc]; leaf E0 Et Hlt Hlt.
    + destruct dc as [|dc]; leaf E0 Et Hlt Hlt.
    + destruct dc as [|dc]; leaf E0 Et Hlt Hlt.
    + destruct dc as [|[|dc]]; leaf E0 Et Hlt Hlt.
    + leaf E0 Et Hlt Hlt.
Qed.

(* a crash of a quiescent Good directory changes nothing *)
Lemma crash_good : forall x c ch, GoodDir x c -> GoodDir (crash_dir ch x) c.
Proof.
  intros [ino next dent dpend] c [dc ic] (Hp & Hlt & Hc). cbn in Hp, Hlt, Hc. subst dpend.
  unfold f_cat, f_tmp in *.
  destruct (dent 0%N) as [i0|] eqn:E0; [destruct Hc as [Hi0 Hne]|].
  - good E0 E0 Hlt Hi0.
  - subst c. good E0 E0 Hlt Hlt.
Qed.

(* the completed save leaves the directory Good for the new catalog *)
Lemma save_done_good : forall x c c' d, GoodDir x c -> GoodDir (run_dir (save_steps true d c') x) c'.
Proof.
  intros [ino next dent dpend] c c' d (Hp & Hlt & Hc). cbn in Hp, Hlt, Hc. subst dpend.
  unfold f_cat, f_tmp in *. unfold save_steps, run_dir; cbn [fold_left step_on].
  destruct (dent 0%N) as [i0|] eqn:E0; [destruct Hc as [Hi0 Hne]; pose proof (Hlt _ _ E0) as Hlt0|];
  (destruct (dent 1%N) as [j|] eqn:Et; [pose proof (Hlt _ _ Et) as Hltj|]).
  - assert (j <> i0) by congruence. good E0 Et Hlt Hi0.
  - assert (next <> i0) by lia. good E0 Et Hlt Hi0.
  - good E0 Et Hlt Hlt.
  - good E0 Et Hlt Hlt.
Qed.

Lemma good_empty : GoodDir empty_dir [].
Proof. unfold GoodDir, empty_dir. cbn. split; [reflexivity|split; [discriminate|reflexivity]]. Qed.

Lemma good_loads : forall x c, GoodDir x c -> load_rules x = Some c /\ load_schemas x = c /\ loads_clean x = true.
Proof.
  intros x c (Hp & _ & Hc). unfold load_rules, load_schemas, loads_clean, d_read. rewrite (vdent_nil x Hp).
  destruct (dent x f_cat) as [i|].
  - destruct Hc as [Hi _]. rewrite Hi. unfold vol. cbn [pends dur fold_left]. rewrite parse_ser. auto.
  - subst c. auto.
Qed.
