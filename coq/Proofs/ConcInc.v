(* Lemmas for C19 about Model/ConcInc.v (flag fx = true): for every schedule the worker never
   dies, the summed diffs mirror the engine's relations (1 for a present tuple, 0 otherwise — also
   under duplicate inserts, in-batch duplicates and absent deletes), the snapshot is the engine
   state, and every consistent read returns exactly the relation's tuples in the snapshot. *)
From IL Require Import Model.Conc Model.ConcInc Proofs.Conc.
Open Scope N_scope.

Lemma ifact_eqb_eq a b : ifact_eqb a b = true <-> a = b.
Proof.
  destruct a as [a1 a2], b as [b1 b2]. unfold ifact_eqb. cbn. rewrite andb_true_iff, !N.eqb_eq.
  split. intros [-> ->]; reflexivity. intros H; inversion H; auto.
Qed.
Lemma ifact_eqb_refl a : ifact_eqb a a = true.
Proof. apply ifact_eqb_eq. reflexivity. Qed.
Lemma ifact_eqb_neq a b : a <> b -> ifact_eqb a b = false.
Proof. intros H. destruct (ifact_eqb a b) eqn:E; auto. apply ifact_eqb_eq in E. contradiction. Qed.
Lemma ifact_eqb_sym a b : ifact_eqb a b = ifact_eqb b a.
Proof.
  destruct (ifact_eqb a b) eqn:E.
  - apply ifact_eqb_eq in E. subst. symmetry. apply ifact_eqb_refl.
  - symmetry. apply ifact_eqb_neq. intros ->. rewrite ifact_eqb_refl in E. discriminate.
Qed.

Lemma memi_In f l : memi f l = true <-> In f l.
Proof.
  unfold memi. rewrite existsb_exists. split.
  - intros (x & Hx & E). apply ifact_eqb_eq in E. subst. exact Hx.
  - intros H. exists f. split; auto. apply ifact_eqb_refl.
Qed.
Lemma memi_app f l1 l2 : memi f (l1 ++ l2) = memi f l1 || memi f l2.
Proof. unfold memi. apply existsb_app. Qed.
Lemma memi_cons f a l : memi f (a :: l) = ifact_eqb f a || memi f l.
Proof. reflexivity. Qed.
Lemma memi_filter_other f g l :
  f <> g -> memi f (filter (fun x => negb (ifact_eqb x g)) l) = memi f l.
Proof.
  intros Hn. induction l as [|a l IH]; auto.
  cbn [filter]. destruct (ifact_eqb a g) eqn:E; cbn [negb].
  - apply ifact_eqb_eq in E. subst a. rewrite memi_cons, (ifact_eqb_neq f g Hn). exact IH.
  - rewrite !memi_cons, IH. reflexivity.
Qed.
Lemma memi_filter_same g l : memi g (filter (fun x => negb (ifact_eqb x g)) l) = false.
Proof.
  induction l as [|a l IH]; auto.
  cbn [filter]. destruct (ifact_eqb a g) eqn:E; cbn [negb]; auto.
  rewrite memi_cons, ifact_eqb_sym, E. exact IH.
Qed.

(* ---- counters *)
Lemma find_filter_other (f g : ifact) (c : list (ifact * Z)) :
  f <> g ->
  find (fun e => ifact_eqb (fst e) f) (filter (fun e => negb (ifact_eqb (fst e) g)) c)
  = find (fun e => ifact_eqb (fst e) f) c.
Proof.
  intros Hn. induction c as [|e c IH]; cbn; auto.
  destruct (ifact_eqb (fst e) g) eqn:E; cbn.
  - apply ifact_eqb_eq in E. rewrite E. rewrite (ifact_eqb_neq g f) by congruence. exact IH.
  - destruct (ifact_eqb (fst e) f); auto.
Qed.
Lemma cnt_of_bump_same f d c : cnt_of f (bump f d c) = (cnt_of f c + d)%Z.
Proof. unfold bump, cnt_of at 1. cbn. rewrite ifact_eqb_refl. reflexivity. Qed.
Lemma cnt_of_bump_other f g d c : f <> g -> cnt_of f (bump g d c) = cnt_of f c.
Proof.
  intros Hn. unfold bump, cnt_of at 1. cbn. rewrite (ifact_eqb_neq g f) by congruence.
  rewrite find_filter_other by exact Hn. reflexivity.
Qed.
Lemma bump_all_snoc rel xs x d c : bump_all rel (xs ++ [x]) d c = bump (rel, x) d (bump_all rel xs d c).
Proof. unfold bump_all. rewrite fold_left_app. reflexivity. Qed.

Definition ind (b : bool) : Z := if b then 1%Z else 0%Z.
(* the counters `c` mirror the relation state `live` *)
Definition mirrors (c : list (ifact * Z)) (live : list ifact) : Prop :=
  forall f, cnt_of f c = ind (memi f live).

Lemma ins_mem_mirrors : forall rel ts live eff c0,
    mirrors (bump_all rel eff 1 c0) live ->
    mirrors (bump_all rel (snd (ins_mem rel ts live eff)) 1 c0) (fst (ins_mem rel ts live eff)).
Proof.
  induction ts as [|x ts IH]; intros live eff c0 M; cbn; auto.
  destruct (memi (rel, x) live) eqn:E.
  - apply IH. exact M.
  - apply IH. intros f. rewrite bump_all_snoc, memi_app.
    destruct (ifact_eqb f (rel, x)) eqn:F.
    + apply ifact_eqb_eq in F. subst f. rewrite cnt_of_bump_same, M, E. cbn.
      rewrite ifact_eqb_refl. reflexivity.
    + assert (Hn : f <> (rel, x)) by (intros ->; rewrite ifact_eqb_refl in F; discriminate).
      rewrite cnt_of_bump_other by exact Hn. rewrite M. cbn. rewrite F. cbn.
      rewrite orb_false_r. reflexivity.
Qed.

Lemma del_mem_mirrors : forall rel ts live eff c0,
    mirrors (bump_all rel eff (-1) c0) live ->
    mirrors (bump_all rel (snd (del_mem rel ts live eff)) (-1) c0) (fst (del_mem rel ts live eff)).
Proof.
  induction ts as [|x ts IH]; intros live eff c0 M; cbn; auto.
  destruct (memi (rel, x) live) eqn:E.
  - apply IH. intros f. rewrite bump_all_snoc.
    destruct (ifact_eqb f (rel, x)) eqn:F.
    + apply ifact_eqb_eq in F. subst f. rewrite cnt_of_bump_same, M, E, memi_filter_same. reflexivity.
    + assert (Hn : f <> (rel, x)) by (intros ->; rewrite ifact_eqb_refl in F; discriminate).
      rewrite cnt_of_bump_other by exact Hn. rewrite M, memi_filter_other by exact Hn. reflexivity.
  - apply IH. exact M.
Qed.

(* ---- reading *)
Lemma dedup_N_In : forall l x, In x (dedup_N l) <-> In x l.
Proof.
  induction l as [|a l IH]; intros x; cbn; [tauto|].
  destruct (existsb (N.eqb a) l) eqn:E.
  - rewrite IH. split; auto. intros [->|H]; auto.
    apply existsb_exists in E. destruct E as (y & Hy & Ey). apply N.eqb_eq in Ey. subst. exact Hy.
  - cbn. rewrite IH. tauto.
Qed.

Lemma cnt_pos_in c f : (0 < cnt_of f c)%Z -> exists e, In e c /\ fst e = f.
Proof.
  unfold cnt_of. destruct (find (fun e => ifact_eqb (fst e) f) c) as [e|] eqn:F; [|lia].
  intros _. apply find_some in F. destruct F as [Hi He]. apply ifact_eqb_eq in He. exists e. auto.
Qed.

Lemma read_rel_spec rel c x : In x (read_rel rel c) <-> (0 < cnt_of (rel, x) c)%Z.
Proof.
  unfold read_rel. rewrite dedup_N_In, in_map_iff. split.
  - intros (e & Hx & Hi). apply filter_In in Hi. destruct Hi as [Hi P].
    apply andb_true_iff in P. destruct P as [P1 P2]. apply N.eqb_eq in P1. apply Z.ltb_lt in P2.
    destruct e as [[r y] z]. cbn in *. subst. exact P2.
  - intros H. destruct (cnt_pos_in _ _ H) as (e & Hi & He).
    destruct e as [[r y] z]. cbn in He. inversion He; subst r y.
    exists (rel, x, z). split; [reflexivity|].
    apply filter_In. split; auto. cbn. rewrite N.eqb_refl. cbn. apply Z.ltb_lt. exact H.
Qed.

(* ---- the invariant *)
Definition read_ok (r : N * list N * list ifact) : Prop :=
  let '(rel, xs, snap) := r in forall x, In x xs <-> In (rel, x) snap.

Definition IInv (g : gI) : Prop :=
  idead g = false /\
  (forall e, In e (ifronts g) -> (snd e <= icur g)%nat) /\
  mirrors (icnt g) (ilive g) /\
  isnap g = ilive g /\
  Forall read_ok (ireads g).

Lemma front_of_In r fr n : front_of r fr = Some n -> exists e, In e fr /\ snd e = n.
Proof.
  unfold front_of. destruct (find (fun e => N.eqb (fst e) r) fr) as [e|] eqn:F; [|discriminate].
  intros H. inversion H; subst. apply find_some in F. exists e. tauto.
Qed.

Lemma shadow_write_inv g live' rel eff d t0 :
  IInv g -> mirrors (bump_all rel eff d (icnt g)) live' ->
  IInv (fst (shadow_write true g live' rel eff d t0)) /\ snd (shadow_write true g live' rel eff d t0) = true.
Proof.
  intros (D & Fr & M & S & R) M'. unfold shadow_write. rewrite D.
  set (fr := match front_of rel (ifronts g) with Some _ => ifronts g | None => ifronts g ++ [(rel, O)] end).
  assert (Hfr : forall e, In e fr -> (snd e <= icur g)%nat).
  { intros e He. unfold fr in He. destruct (front_of rel (ifronts g)); auto.
    apply in_app_or in He. destruct He as [He|[<-|[]]]; auto. cbn. lia. }
  set (f := match front_of rel fr with Some n => n | None => O end).
  assert (Hf : (f <= icur g)%nat).
  { unfold f. destruct (front_of rel fr) as [n|] eqn:E; [|lia].
    destruct (front_of_In _ _ _ E) as (e & He & <-). apply Hfr, He. }
  destruct (Nat.ltb (Nat.max t0 (icur g)) f) eqn:L.
  - apply Nat.ltb_lt in L. lia.
  - cbn. split; auto. repeat split; auto.
Qed.

Lemma istep_inv : forall t l g, IInv g -> IInv (snd (istep true t l g)).
Proof.
  intros t l g I. pose proof I as (D & Fr & M & S & R). unfold istep.
  destruct (itodo l) as [|o rest]; [exact I|].
  destruct o as [id rel ts|id rel ts|id rel].
  - (* insert *)
    destruct (ipc l) as [|[|n]]; cbn [snd].
    + repeat split; auto.
    + exact I.
    + destruct (ireaders g); [|exact I].
      destruct (ins_mem rel ts (ilive g) []) as [live' eff] eqn:E.
      assert (M' : mirrors (bump_all rel eff 1 (icnt g)) live').
      { pose proof (ins_mem_mirrors rel ts (ilive g) [] (icnt g) M) as H. rewrite E in H. exact H. }
      destruct eff as [|e0 eff0]; [exact I|].
      destruct (shadow_write true g live' rel (e0 :: eff0) 1 (itime l)) as [g' ok] eqn:W.
      pose proof (shadow_write_inv g live' rel (e0 :: eff0) 1 (itime l) I M') as [H1 H2].
      rewrite W in H1. exact H1.
  - (* delete *)
    destruct (ipc l) as [|[|n]]; cbn [snd].
    + repeat split; auto.
    + exact I.
    + destruct (ireaders g); [|exact I].
      destruct (del_mem rel ts (ilive g) []) as [live' eff] eqn:E.
      assert (M' : mirrors (bump_all rel eff (-1) (icnt g)) live').
      { pose proof (del_mem_mirrors rel ts (ilive g) [] (icnt g) M) as H. rewrite E in H. exact H. }
      destruct eff as [|e0 eff0]; [exact I|].
      destruct (shadow_write true g live' rel (e0 :: eff0) (-1) (itime l)) as [g' ok] eqn:W.
      pose proof (shadow_write_inv g live' rel (e0 :: eff0) (-1) (itime l) I M') as [H1 H2].
      rewrite W in H1. exact H1.
  - (* consistent read *)
    destruct (ipc l) as [|n]; rewrite D; cbn [snd].
    + repeat split; auto; cbn [ifronts icur].
      intros e He. apply in_map_iff in He. destruct He as (e' & <- & _). cbn. lia.
    + repeat split; auto. cbn [ireads]. apply Forall_app. split; auto. constructor; auto.
      unfold read_ok. intros x. rewrite read_rel_spec, M, S, <- memi_In.
      destruct (memi (rel, x) (ilive g)); cbn; split; intros H; try lia; auto; discriminate.
Qed.

Lemma IInv_init : IInv iinit_g.
Proof. repeat split; cbn; auto. intros e []. Qed.

Theorem mirror_invariant : forall progs sched,
    IInv (snd (run_sched (istep true) sched (map iinit_l progs) iinit_g)).
Proof.
  intros progs sched. apply run_sched_inv_global.
  - intros. apply istep_inv. assumption.
  - apply IInv_init.
Qed.

(* no operation of a client ever fails *)
Definition no_err (l : lI) : Prop := forall id, ~ In (id, IRErr) (iresults l).

Lemma istep_no_err : forall t l g, IInv g -> no_err l -> no_err (fst (istep true t l g)).
Proof.
  intros t l g I N. pose proof I as (D & Fr & M & S & R). unfold istep.
  destruct (itodo l) as [|o rest]; [exact N|].
  assert (Hfin : forall r, r <> IRErr -> no_err (ifinish l rest (iop_id o) r)).
  { intros r Hr id' Hin. cbn in Hin. apply in_app_or in Hin. destruct Hin as [Hin|[Hin|[]]].
    - eapply N; eauto.
    - inversion Hin. congruence. }
  destruct o as [id rel ts|id rel ts|id rel]; cbn [iop_id] in Hfin.
  - destruct (ipc l) as [|[|n]]; cbn [fst]; try exact N.
    destruct (ireaders g); [|exact N].
    destruct (ins_mem rel ts (ilive g) []) as [live' eff] eqn:E.
    assert (M' : mirrors (bump_all rel eff 1 (icnt g)) live').
    { pose proof (ins_mem_mirrors rel ts (ilive g) [] (icnt g) M) as H. rewrite E in H. exact H. }
    destruct eff as [|e0 eff0]; cbn [fst]; [apply Hfin; discriminate|].
    destruct (shadow_write true g live' rel (e0 :: eff0) 1 (itime l)) as [g' ok] eqn:W.
    pose proof (shadow_write_inv g live' rel (e0 :: eff0) 1 (itime l) I M') as [_ H2].
    rewrite W in H2. cbn in H2. subst ok. cbn [fst]. apply Hfin. discriminate.
  - destruct (ipc l) as [|[|n]]; cbn [fst]; try exact N.
    destruct (ireaders g); [|exact N].
    destruct (del_mem rel ts (ilive g) []) as [live' eff] eqn:E.
    assert (M' : mirrors (bump_all rel eff (-1) (icnt g)) live').
    { pose proof (del_mem_mirrors rel ts (ilive g) [] (icnt g) M) as H. rewrite E in H. exact H. }
    destruct eff as [|e0 eff0]; cbn [fst]; [apply Hfin; discriminate|].
    destruct (shadow_write true g live' rel (e0 :: eff0) (-1) (itime l)) as [g' ok] eqn:W.
    pose proof (shadow_write_inv g live' rel (e0 :: eff0) (-1) (itime l) I M') as [_ H2].
    rewrite W in H2. cbn in H2. subst ok. cbn [fst]. apply Hfin. discriminate.
  - destruct (ipc l) as [|n]; rewrite D; cbn [fst]; [exact N|]. apply Hfin. discriminate.
Qed.

Theorem no_operation_fails : forall progs sched,
    Forall no_err (fst (run_sched (istep true) sched (map iinit_l progs) iinit_g)).
Proof.
  intros progs sched.
  pose (I := fun (ls : list lI) (g : gI) => IInv g /\ Forall no_err ls).
  assert (H : I (fst (run_sched (istep true) sched (map iinit_l progs) iinit_g))
                (snd (run_sched (istep true) sched (map iinit_l progs) iinit_g))).
  { apply run_sched_inv.
    - intros ls g t l Hn [Ig F]. split. apply istep_inv; auto.
      apply Forall_upd; auto. apply istep_no_err; auto.
      rewrite Forall_forall in F. apply F. eapply nth_error_In; eauto.
    - split. apply IInv_init. apply Forall_forall. intros l Hl. apply in_map_iff in Hl.
      destruct Hl as (p & <- & _). intros id []. }
  exact (proj2 H).
Qed.
