(* Kahn ordering of the engine (topological_sort_ir_nodes): every node it outputs has its
   dependencies before it, and on a dependency graph that is acyclic apart from self-loops (witnessed by a
   rank function) it outputs every head, so the execution order of the engine respects dependencies. *)
From IL Require Import Model.Value Model.Datalog Proofs.DatalogSpec Proofs.DatalogMisc Proofs.DatalogEngine Proofs.DatalogPerm.
From Coq Require Import Lia List.
Import ListNotations.
Open Scope N_scope.

Lemma kahn_sound p hs : forall fuel done,
  exists l, kahn fuel p hs done = rev done ++ l /\ order_okb p hs done l = true.
Proof.
  induction fuel as [|f IH]; intros done; cbn [kahn].
  - exists []. rewrite app_nil_r. split; reflexivity.
  - destruct (find (fun h => negb (memN h done) && forallb (fun r => memN r done) (deps p hs h)) hs) as [h|] eqn:E.
    + apply find_some in E. destruct E as [Hin Hc]. apply andb_true_iff in Hc. destruct Hc as [_ Hd].
      destruct (IH (h :: done)) as [l [El Ol]].
      exists (h :: l). split.
      * rewrite El. cbn [rev]. rewrite <- app_assoc. reflexivity.
      * cbn [order_okb]. apply andb_true_iff; split; [apply andb_true_iff; split|exact Ol].
        -- apply memN_In; exact Hin.
        -- exact Hd.
    + exists []. rewrite app_nil_r. split; reflexivity.
Qed.

Theorem kahn_order_ok p : order_okb p (heads p) [] (kahn (length (heads p)) p (heads p) []) = true.
Proof.
  destruct (kahn_sound p (heads p) (length (heads p)) []) as [l [E O]]. rewrite E. exact O.
Qed.

(* ------------------------------------------------------------------ completeness of Kahn on acyclic graphs *)
Lemma forallb_false_ex {A} (f : A -> bool) l : forallb f l = false -> exists x, In x l /\ f x = false.
Proof.
  induction l as [|a l IH]; cbn [forallb]; intros H; [discriminate|].
  destruct (f a) eqn:E; cbn in H.
  - destruct (IH H) as [x [Hx Fx]]. exists x; split; [right; exact Hx|exact Fx].
  - exists a; split; [left; reflexivity|exact E].
Qed.

Lemma deps_in_hs p hs h g : In g (deps p hs h) -> In g hs /\ g <> h.
Proof.
  unfold deps. intros H. apply filter_In in H. destruct H as [_ H]. apply andb_true_iff in H.
  destruct H as [H1 H2]. split; [apply memN_In; exact H1|]. apply negb_true_iff, N.eqb_neq in H2. exact H2.
Qed.

Section Acyclic.
  Variable p : program.
  Variable hs : list rel.
  Variable rank : rel -> nat.
  Hypothesis Hrank : forall h g, In h hs -> In g (deps p hs h) -> (rank g < rank h)%nat.

  Definition ready (done : list rel) (h : rel) : bool :=
    negb (memN h done) && forallb (fun r => memN r done) (deps p hs h).

  Lemma ready_exists done : forall n h, (rank h < n)%nat -> In h hs -> ~ In h done ->
    exists h', In h' hs /\ ready done h' = true.
  Proof.
    induction n as [|n IH]; intros h Hn Hh Hnd; [lia|].
    destruct (forallb (fun r => memN r done) (deps p hs h)) eqn:E.
    - exists h. split; [exact Hh|]. unfold ready. rewrite E.
      destruct (memN h done) eqn:Em; [apply memN_In in Em; contradiction|reflexivity].
    - apply forallb_false_ex in E. destruct E as [g [Hg Fg]].
      pose proof (Hrank h g Hh Hg) as Hlt. destruct (deps_in_hs p hs h g Hg) as [Hgh _].
      apply (IH g); [lia|exact Hgh|]. intros X. apply memN_In in X. rewrite X in Fg. discriminate.
  Qed.

  Lemma kahn_complete : forall fuel done,
    NoDup done -> incl done hs -> (length hs <= length done + fuel)%nat ->
    incl hs (kahn fuel p hs done).
  Proof.
    induction fuel as [|f IH]; intros done Hnd Hincl Hlen.
    - cbn [kahn]. intros x Hx. rewrite <- in_rev.
      assert (Hl : (length hs <= length done)%nat) by lia.
      exact (NoDup_length_incl Hnd Hl Hincl x Hx).
    - change (kahn (S f) p hs done) with
        (match find (ready done) hs with Some h => kahn f p hs (h :: done) | None => rev done end).
      destruct (find (ready done) hs) as [h|] eqn:E.
      + apply find_some in E. destruct E as [Hin Hr]. unfold ready in Hr. apply andb_true_iff in Hr.
        destruct Hr as [Hr _]. apply negb_true_iff in Hr.
        apply (IH (h :: done)).
        * constructor; [|exact Hnd]. intros X. apply memN_In in X. rewrite X in Hr. discriminate.
        * intros x [<-|Hx]; [exact Hin|apply Hincl, Hx].
        * cbn [length]. lia.
      + intros x Hx. rewrite <- in_rev.
        destruct (in_dec N.eq_dec x done) as [Hd|Hd]; [exact Hd|].
        destruct (ready_exists done (S (rank x)) x (Nat.lt_succ_diag_r _) Hx Hd) as [h' [Hh' Hr']].
        pose proof (find_none _ _ E h' Hh') as F. rewrite F in Hr'. discriminate.
  Qed.
End Acyclic.

(* order_okb looks at `done` only through membership *)
Lemma order_okb_filter p hs q : forall o done done',
  (forall h, In h hs -> ~ In q (deps p hs h)) ->
  (forall g, In g done -> g <> q -> In g done') ->
  order_okb p hs done o = true ->
  order_okb p hs done' (filter (fun h => negb (N.eqb h q)) o) = true.
Proof.
  induction o as [|h r IH]; intros done done' HB Hd Ho; [reflexivity|].
  cbn [order_okb] in Ho. apply andb_true_iff in Ho. destruct Ho as [Ho Ho3].
  apply andb_true_iff in Ho. destruct Ho as [Ho1 Ho2].
  cbn [filter]. destruct (N.eqb h q) eqn:E; cbn [negb].
  - apply N.eqb_eq in E. subst h. apply (IH (q :: done) done' HB); [|exact Ho3].
    intros g [<-|Hg] Hne; [contradiction|apply Hd; assumption].
  - apply N.eqb_neq in E. cbn [order_okb].
    apply andb_true_iff; split; [apply andb_true_iff; split|].
    + exact Ho1.
    + apply forallb_forall. intros g Hg. apply memN_In. apply Hd.
      * rewrite forallb_forall in Ho2. apply memN_In, Ho2, Hg.
      * intros ->. apply memN_In in Ho1. exact (HB h Ho1 Hg).
    + apply (IH (h :: done) (h :: done') HB); [|exact Ho3].
      intros g [<-|Hg] Hne; [left; reflexivity|right; apply Hd; assumption].
Qed.

Lemma order_okb_app p hs : forall l1 l2 done,
  order_okb p hs done l1 = true -> order_okb p hs (rev l1 ++ done) l2 = true ->
  order_okb p hs done (l1 ++ l2) = true.
Proof.
  induction l1 as [|h r IH]; intros l2 done H1 H2; [exact H2|].
  cbn [order_okb app] in *. apply andb_true_iff in H1. destruct H1 as [H1 H3].
  rewrite H1. cbn [andb]. apply IH; [exact H3|].
  cbn [rev] in H2. rewrite <- app_assoc in H2. exact H2.
Qed.

Theorem acyclic_order_ok (p : program) (rank : rel -> nat) :
  (forall h g, In h (heads p) -> In g (deps p (heads p) h) -> (rank g < rank h)%nat) ->
  (forall h, In h (heads p) -> ~ In (last (heads p) 0) (deps p (heads p) h)) ->
  order_ok p = true.
Proof.
  intros Hrank HB. unfold order_ok, topo_order.
  set (hs := heads p) in *. set (o := kahn (length hs) p hs []).
  assert (Hall : incl hs o).
  { apply (kahn_complete p hs rank Hrank (length hs) []); [constructor|intros x []|cbn; lia]. }
  assert (Hfil : filter (fun h => negb (memN h o)) hs = []).
  { assert (G : forall l, incl l o -> filter (fun h => negb (memN h o)) l = []).
    { induction l as [|a l IHl]; intros Hl; [reflexivity|]. cbn [filter].
      rewrite (proj2 (memN_In a o) (Hl a (or_introl eq_refl))). cbn [negb].
      apply IHl. intros x Hx. apply Hl. right; exact Hx. }
    apply G, Hall. }
  rewrite Hfil, app_nil_r.
  pose proof (kahn_order_ok p) as Hko. fold hs in Hko. fold o in Hko.
  destruct (rev hs) as [|q rr] eqn:Er; [exact Hko|].
  assert (Hq : last hs 0 = q).
  { rewrite <- (rev_involutive hs), Er. cbn [rev]. apply last_last. }
  rewrite Hq in HB.
  assert (Hqin : In q hs). { apply in_rev. rewrite Er. left; reflexivity. }
  apply order_okb_app.
  - apply (order_okb_filter p hs q o [] [] HB); [intros g []|exact Hko].
  - cbn [order_okb]. rewrite (proj2 (memN_In q hs) Hqin). cbn [andb]. rewrite andb_true_r.
    apply forallb_forall. intros g Hg. apply memN_In.
    destruct (deps_in_hs p hs q g Hg) as [Hgh Hne].
    rewrite app_nil_r. rewrite <- in_rev. apply filter_In. split; [apply Hall, Hgh|].
    apply negb_true_iff, N.eqb_neq, Hne.
Qed.

(* ------------------------------------------------------------------ converse: a dependency-respecting engine order yields a rank *)
(* position of the first occurrence *)
Fixpoint pos (x : N) (l : list N) : nat :=
  match l with [] => 0%nat | y :: r => if N.eqb x y then 0%nat else S (pos x r) end.

Lemma pos_app_in x l r : In x l -> pos x (l ++ r) = pos x l /\ (pos x l < length l)%nat.
Proof.
  induction l as [|y l IH]; intros H; [destruct H|]. cbn [pos app length].
  destruct (N.eqb x y) eqn:E; [split; [reflexivity|lia]|].
  destruct H as [->|H]; [rewrite N.eqb_refl in E; discriminate|].
  destruct (IH H) as [A B]. split; [rewrite A; reflexivity|lia].
Qed.

Lemma pos_app_notin x l : ~ In x l -> pos x (l ++ [x]) = length l.
Proof.
  induction l as [|y l IH]; intros H; cbn [pos app length]; [rewrite N.eqb_refl; reflexivity|].
  destruct (N.eqb x y) eqn:E; [apply N.eqb_eq in E; subst; exfalso; apply H; left; reflexivity|].
  rewrite IH; [reflexivity|]. intros X; apply H; right; exact X.
Qed.

Lemma order_okb_pos p hs : forall o done, order_okb p hs done o = true ->
  forall h g, In h o -> In g (deps p hs h) -> In g done \/ (pos g o < pos h o)%nat.
Proof.
  induction o as [|x r IH]; intros done Ho h g Hh Hg; [destruct Hh|].
  cbn [order_okb] in Ho. apply andb_true_iff in Ho. destruct Ho as [Ho Ho3].
  apply andb_true_iff in Ho. destruct Ho as [_ Ho2].
  cbn [pos]. destruct (N.eqb h x) eqn:Ehx.
  - apply N.eqb_eq in Ehx. subst h. left. rewrite forallb_forall in Ho2. apply memN_In, Ho2, Hg.
  - destruct Hh as [->|Hh]; [rewrite N.eqb_refl in Ehx; discriminate|].
    destruct (N.eqb g x) eqn:Egx; [right; lia|].
    destruct (IH (x :: done) Ho3 h g Hh Hg) as [[<-|Hd]|Hlt].
    + rewrite N.eqb_refl in Egx. discriminate.
    + left; exact Hd.
    + right; lia.
Qed.

Theorem order_ok_rank (p : program) : order_ok p = true ->
  exists rank : rel -> nat,
    (forall h g, In h (heads p) -> In g (deps p (heads p) h) -> (rank g < rank h)%nat) /\
    (forall h, In h (heads p) -> ~ In (last (heads p) 0) (deps p (heads p) h)).
Proof.
  intros Ho. exists (fun r => pos r (topo_order p)).
  assert (H1 : forall h g, In h (heads p) -> In g (deps p (heads p) h) ->
                           (pos g (topo_order p) < pos h (topo_order p))%nat).
  { intros h g Hh Hg. unfold order_ok in Ho.
    destruct (order_okb_pos p (heads p) (topo_order p) [] Ho h g (topo_order_complete p h Hh) Hg) as [[]|H]; exact H. }
  split; [exact H1|].
  intros h Hh Hq.
  pose proof (H1 h _ Hh Hq) as Hlt.
  destruct (deps_in_hs p (heads p) h _ Hq) as [_ Hne].
  pose proof (topo_order_complete p h Hh) as Hin.
  unfold topo_order in Hlt, Hin.
  set (o' := kahn (length (heads p)) p (heads p) [] ++
             filter (fun x => negb (memN x (kahn (length (heads p)) p (heads p) []))) (heads p)) in *.
  destruct (rev (heads p)) as [|q rr] eqn:Er.
  - assert (E : heads p = []) by (rewrite <- (rev_involutive (heads p)), Er; reflexivity).
    rewrite E in Hh. destruct Hh.
  - assert (Hql : last (heads p) 0 = q).
    { rewrite <- (rev_involutive (heads p)), Er. cbn [rev]. apply last_last. }
    rewrite Hql in *.
    set (l := filter (fun x => negb (N.eqb x q)) o') in *.
    assert (Hnq : ~ In q l).
    { intros X. apply filter_In in X. destruct X as [_ X]. rewrite N.eqb_refl in X. discriminate. }
    assert (Hhl : In h l).
    { apply in_app_or in Hin. destruct Hin as [X|[X|[]]]; [exact X|]. subst h. exfalso. apply Hne. reflexivity. }
    pose proof (pos_app_notin q l Hnq) as P. destruct (pos_app_in h l [q] Hhl) as [A B].
    unfold rel in *. rewrite P, A in Hlt. lia.
Qed.

Theorem order_ok_iff (p : program) :
  order_ok p = true <->
  exists rank : rel -> nat,
    (forall h g, In h (heads p) -> In g (deps p (heads p) h) -> (rank g < rank h)%nat) /\
    (forall h, In h (heads p) -> ~ In (last (heads p) 0) (deps p (heads p) h)).
Proof.
  split; [apply order_ok_rank|]. intros [rank [H1 H2]]. exact (acyclic_order_ok p rank H1 H2).
Qed.
