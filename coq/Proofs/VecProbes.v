(* C26 (a): probe sequences of lsh_probes -- proof by reflection over the 63 possible bit counts. *)
From IL Require Import Model.VecOps.
From Coq Require Import Permutation Sorted Orders Mergesort FinFun.
Open Scope Z_scope.

(* ================================================================ (a) probe sequences *)
Module ZLeb <: TotalLeBool.
  Definition t := Z.
  Definition leb := Z.leb.
  Theorem leb_total : forall a b, leb a b = true \/ leb b a = true.
  Proof. intros a b. unfold leb. destruct (Z.leb_spec a b); [left; reflexivity | right; apply Z.leb_le; lia]. Qed.
End ZLeb.
Module ZSort := Sort ZLeb.

Fixpoint strict_incr (l : list Z) : bool :=
  match l with
  | a :: ((b :: _) as r) => (a <? b) && strict_incr r
  | _ => true
  end.

Lemma strict_incr_lt l : strict_incr l = true ->
  match l with [] => True | a :: r => forall x, In x r -> a < x end.
Proof.
  induction l as [|a r IH]; [exact (fun _ => I)|]. intros H x Hx.
  destruct r as [|b r']; [destruct Hx|]. cbn [strict_incr] in H. apply andb_true_iff in H.
  destruct H as [Hab Hr]. apply Z.ltb_lt in Hab. destruct Hx as [<-|Hx]; [exact Hab|].
  specialize (IH Hr x Hx). lia.
Qed.

Lemma strict_incr_NoDup l : strict_incr l = true -> NoDup l.
Proof.
  induction l as [|a r IH]; intros H; [constructor|]. constructor.
  - intros Hin. pose proof (strict_incr_lt (a :: r) H a Hin). lia.
  - apply IH. destruct r as [|b r']; [reflexivity|]. cbn [strict_incr] in H. apply andb_true_iff in H. tauto.
Qed.

(* reflection: a list whose sorted version is strictly increasing has no duplicates *)
Definition nodup_check (l : list Z) : bool := strict_incr (ZSort.sort l).
Lemma nodup_check_sound l : nodup_check l = true -> NoDup l.
Proof.
  intros H. apply strict_incr_NoDup in H.
  apply (Permutation_NoDup (Permutation_sym (ZSort.Permuted_sort l)) H).
Qed.

(* what is checked by computation for every number of bits 0..62 *)
Definition masks_ok (nb : nat) : bool :=
  nodup_check (all_masks nb)
  && forallb (fun m => 0 <=? m) (all_masks nb)
  && nondec_nat (map popZ (all_masks nb)).

Lemma masks_ok_all : forallb masks_ok (seq 0 63) = true.
Proof. vm_compute. reflexivity. Qed.

Lemma masks_ok_le nb : (nb <= 62)%nat -> masks_ok nb = true.
Proof.
  intros H. pose proof masks_ok_all as A. rewrite forallb_forall in A. apply A, in_seq. lia.
Qed.

Lemma lxor_cancel a x y : Z.lxor a x = Z.lxor a y -> x = y.
Proof.
  intros H. apply (f_equal (Z.lxor a)) in H. rewrite <- !Z.lxor_assoc, Z.lxor_nilpotent, !Z.lxor_0_l in H. exact H.
Qed.

Lemma NoDup_app_l' {A} (l1 l2 : list A) : NoDup (l1 ++ l2) -> NoDup l1.
Proof.
  induction l1 as [|x r IH]; cbn [app]; intros H; [constructor|].
  inversion H as [|? ? Hx Hr]; subst. constructor; [|apply IH, Hr].
  intros Hin. apply Hx, in_or_app. left. exact Hin.
Qed.
Lemma NoDup_firstn' {A} n (l : list A) : NoDup l -> NoDup (firstn n l).
Proof. intros H. rewrite <- (firstn_skipn n l) in H. apply NoDup_app_l' in H. exact H. Qed.

Lemma nondec_firstn n l : nondec_nat l = true -> nondec_nat (firstn n l) = true.
Proof.
  revert n. induction l as [|a r IH]; intros n H; [destruct n; reflexivity|].
  destruct n as [|n]; [reflexivity|]. cbn [firstn]. destruct r as [|b r']; [destruct n; reflexivity|].
  cbn [nondec_nat] in H. apply andb_true_iff in H. destruct H as [Hab Hr].
  specialize (IH n Hr). destruct n as [|n]; [reflexivity|]. cbn [firstn] in *. cbn [nondec_nat].
  rewrite Hab. exact IH.
Qed.

Lemma hamming_of_mask b m : 0 <= m -> hamming64 b (Z.lxor b m) = popZ m.
Proof.
  intros Hm. unfold hamming64. rewrite <- Z.lxor_assoc, Z.lxor_nilpotent, Z.lxor_0_l.
  destruct (Z.ltb_spec m 0); [lia | reflexivity].
Qed.

Theorem probes_laws (bucket : Z) (nh np : N) :
  let l := lsh_probes bucket nh np in
  (np <> 0%N -> hd_error l = Some bucket) /\
  NoDup l /\
  nondec_nat (map (hamming64 bucket) l) = true /\
  (List.length l <= N.to_nat np)%nat.
Proof.
  intros l. unfold l, lsh_probes.
  set (nb := N.to_nat (N.min nh 62)).
  assert (Hnb : (nb <= 62)%nat) by (unfold nb; lia).
  pose proof (masks_ok_le nb Hnb) as Hok. unfold masks_ok in Hok.
  apply andb_true_iff in Hok. destruct Hok as [Hok Hdec]. apply andb_true_iff in Hok. destruct Hok as [Hnd Hpos].
  repeat split.
  - intros Hnp. destruct (N.to_nat np) as [|n] eqn:E; [lia|]. unfold all_masks. cbn [map firstn hd_error].
    rewrite Z.lxor_0_r. reflexivity.
  - apply NoDup_firstn'. apply Injective_map_NoDup; [intros x y; apply lxor_cancel | apply nodup_check_sound, Hnd].
  - rewrite <- firstn_map. apply nondec_firstn. rewrite map_map.
    rewrite (map_ext_in _ popZ); [exact Hdec|]. intros m Hm. apply hamming_of_mask.
    rewrite forallb_forall in Hpos. apply Z.leb_le, Hpos, Hm.
  - apply firstn_le_length.
Qed.

