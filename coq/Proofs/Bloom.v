From IL Require Import Model.Value Model.Bloom Proofs.ValueEq.
Open Scope N_scope.

(* ------------------------------------------------------------ bit array *)
Lemma testbit_fold_setbit l : forall a j,
  N.testbit (fold_left N.setbit l a) j = N.testbit a j || existsb (N.eqb j) l.
Proof.
  induction l as [|i l IH]; intros a j; cbn [fold_left existsb].
  - rewrite orb_false_r; reflexivity.
  - rewrite IH, N.setbit_eqb. rewrite (N.eqb_sym i j).
    destruct (N.eqb j i), (N.testbit a j); reflexivity.
Qed.

Definition covers (b : bloom) (k : N * N) : Prop := might_contain b (fst k) (snd k) = true.

Lemma insert_covers_self b h1 h2 : covers (bloom_insert b h1 h2) (h1, h2).
Proof.
  unfold covers, might_contain, bloom_insert, indices; cbn [fst snd nbits nhash arr].
  apply forallb_forall. intros j Hj. rewrite testbit_fold_setbit.
  apply orb_true_iff; right. apply existsb_exists. exists j. split; [exact Hj | apply N.eqb_refl].
Qed.

Lemma insert_covers_mono b h1 h2 k : covers b k -> covers (bloom_insert b h1 h2) k.
Proof.
  unfold covers, might_contain, bloom_insert, indices; cbn [fst snd nbits nhash arr].
  rewrite !forallb_forall. intros H j Hj. rewrite testbit_fold_setbit, (H j Hj). reflexivity.
Qed.

Lemma no_false_negative_gen ops : forall b acc,
  (forall k, In k acc -> covers b k) ->
  forall k, In k (live_keys acc ops) -> covers (brun b ops) k.
Proof.
  induction ops as [|o ops IH]; intros b acc Hacc k Hk; cbn in *.
  - apply Hacc; exact Hk.
  - destruct o as [h1 h2|]; cbn [bstep].
    + eapply IH; [|exact Hk]. intros k' [<-|Hin].
      * apply insert_covers_self.
      * apply insert_covers_mono, Hacc, Hin.
    + eapply IH; [|exact Hk]. intros k' [].
Qed.

Lemma no_false_negative b ops h1 h2 :
  In (h1, h2) (live_keys [] ops) -> might_contain (brun b ops) h1 h2 = true.
Proof.
  intros H. apply (no_false_negative_gen ops b [] (fun k (F : In k []) => match F with end) (h1, h2) H).
Qed.

(* a cleared / fresh filter reports nothing (so "true" answers carry information) *)
Lemma empty_reports_absent b h1 h2 : nhash b <> 0%nat -> might_contain (bloom_clear b) h1 h2 = false.
Proof.
  unfold might_contain, bloom_clear, indices; cbn [nbits nhash arr].
  destruct (nhash b) as [|n]; [congruence|]. intros _. cbn. reflexivity.
Qed.

(* ------------------------------------------------------------ hash index *)
Section Index.
  Variable hf : tuple -> N * N.
  Variable cols : list nat.

  Definition norm (l : list tuple) : option (list tuple) :=
    match l with [] => None | _ => Some l end.

  (* entries agree with the specification, and every stored key is covered by the bloom filter *)
  Record Inv (h : hidx) (s : list tuple) : Prop := {
    inv_cols : keycols h = cols;
    inv_nodup : NoDup (map fst (entries h));
    inv_lookup : forall k, e_lookup k (entries h) = norm (spec_lookup cols s k);
    inv_bloom : forall k, spec_lookup cols s k <> [] -> covers (hbloom h) (hf k)
  }.

  Lemma spec_lookup_app s t k :
    spec_lookup cols (s ++ [t]) k =
    spec_lookup cols s k ++ (if tuple_eqb k (project t cols) then [t] else []).
  Proof. unfold spec_lookup. rewrite filter_app. cbn. destruct (tuple_eqb _ _); reflexivity. Qed.

  Lemma norm_app_nonempty l t : norm (l ++ [t]) = Some (l ++ [t]).
  Proof. destruct l; reflexivity. Qed.

  Lemma e_lookup_push k t es k' :
    e_lookup k' (e_push k t es) =
    if tuple_eqb k' k then Some (opt_list (e_lookup k es) ++ [t]) else e_lookup k' es.
  Proof.
    induction es as [|[k0 ts] es IH]; cbn.
    - destruct (tuple_eqb k' k); reflexivity.
    - destruct (tuple_eqb k k0) eqn:E0; cbn.
      + apply tuple_eqb_spec in E0; subst k0.
        destruct (tuple_eqb k' k) eqn:E; reflexivity.
      + destruct (tuple_eqb k' k0) eqn:E1.
        * apply tuple_eqb_spec in E1; subst k0.
          rewrite tuple_eqb_sym in E0. rewrite E0. reflexivity.
        * exact IH.
  Qed.

  Lemma map_fst_push k t es :
    NoDup (map fst es) -> NoDup (map fst (e_push k t es)).
  Proof.
    induction es as [|[k0 ts] es IH]; cbn; intros H.
    - constructor; [intros []|constructor].
    - destruct (tuple_eqb k k0) eqn:E0; cbn; [exact H|].
      inversion H as [|? ? Hn Hd]; subst. constructor; [|apply IH; exact Hd].
      intros Hin. apply Hn.
      clear - Hin E0. induction es as [|[k1 ts1] es IH]; cbn in *.
      + destruct Hin as [<-|[]]. rewrite tuple_eqb_refl in E0; discriminate.
      + destruct (tuple_eqb k k1); cbn in Hin; destruct Hin as [<-|Hin]; auto.
  Qed.

  Lemma opt_list_norm l : opt_list (norm l) = l.
  Proof. destruct l; reflexivity. Qed.

  Lemma insert_inv h s t : Inv h s -> Inv (hi_insert hf h t) (s ++ [t]).
  Proof.
    intros [Hc Hn Hl Hb]. unfold hi_insert. rewrite Hc. constructor; cbn [keycols entries hbloom].
    - reflexivity.
    - apply map_fst_push; exact Hn.
    - intros k. rewrite e_lookup_push, spec_lookup_app, !Hl, opt_list_norm.
      destruct (tuple_eqb k (project t cols)) eqn:E.
      + apply tuple_eqb_spec in E; subst k. rewrite norm_app_nonempty. reflexivity.
      + rewrite app_nil_r. reflexivity.
    - intros k Hk. rewrite spec_lookup_app in Hk.
      destruct (tuple_eqb k (project t cols)) eqn:E.
      + apply tuple_eqb_spec in E; subst k. destruct (hf (project t cols)) as [a b] eqn:Eh.
        cbn [fst snd]. apply insert_covers_self.
      + rewrite app_nil_r in Hk. apply insert_covers_mono, Hb, Hk.
  Qed.

  (* removing the first copy of t commutes with filtering by a predicate t satisfies *)
  Lemma remove_first_filter (p : tuple -> bool) t : p t = true -> forall s,
    match remove_first t s with
    | Some s' => remove_first t (filter p s) = Some (filter p s')
    | None => remove_first t (filter p s) = None
    end.
  Proof.
    intros Hp s; induction s as [|x s IH]; cbn; [reflexivity|].
    destruct (tuple_eqb x t) eqn:E.
    - apply tuple_eqb_spec in E; subst x. rewrite Hp. cbn. rewrite tuple_eqb_refl. reflexivity.
    - destruct (remove_first t s) as [s'|] eqn:R; cbn; destruct (p x); cbn; rewrite ?E, ?IH; reflexivity.
  Qed.

  Lemma remove_first_filter_other (p : tuple -> bool) t : p t = false -> forall s s',
    remove_first t s = Some s' -> filter p s' = filter p s.
  Proof.
    intros Hp s; induction s as [|x s IH]; cbn; intros s' H; [discriminate|].
    destruct (tuple_eqb x t) eqn:E.
    - apply tuple_eqb_spec in E; subst x. inversion H; subst. rewrite Hp. reflexivity.
    - destruct (remove_first t s) as [r|] eqn:R; [|discriminate]. inversion H; subst. cbn.
      rewrite (IH r eq_refl). reflexivity.
  Qed.

  Lemma remove_first_In t s s' x : remove_first t s = Some s' -> In x s' -> In x s.
  Proof.
    revert s'; induction s as [|y s IH]; cbn; intros s' H Hin; [discriminate|].
    destruct (tuple_eqb y t); [inversion H; subst; auto|].
    destruct (remove_first t s) as [r|]; [|discriminate]. inversion H; subst.
    destruct Hin as [<-|Hin]; [auto | right; eapply IH; eauto].
  Qed.

  Lemma e_lookup_None_notin k es : e_lookup k es = None -> ~ In k (map fst es).
  Proof.
    induction es as [|[k0 ts] es IH]; cbn; [tauto|].
    destruct (tuple_eqb k k0) eqn:E; [discriminate|]. intros H [<-|Hin].
    - rewrite tuple_eqb_refl in E; discriminate.
    - apply IH; assumption.
  Qed.

  Lemma e_lookup_notin k es : ~ In k (map fst es) -> e_lookup k es = None.
  Proof.
    induction es as [|[k0 ts] es IH]; cbn; [reflexivity|]. intros H.
    destruct (tuple_eqb k k0) eqn:E.
    - apply tuple_eqb_spec in E; subst. exfalso; apply H; auto.
    - apply IH. tauto.
  Qed.

  (* e_remove k t: characterisation when keys are distinct *)
  Lemma e_remove_spec k t : forall es, NoDup (map fst es) ->
    match e_lookup k es with
    | None => e_remove k t es = None
    | Some ts =>
        match remove_first t ts with
        | None => e_remove k t es = None
        | Some ts' => exists es', e_remove k t es = Some es' /\
            NoDup (map fst es') /\
            (forall k', e_lookup k' es' = if tuple_eqb k' k then norm ts' else e_lookup k' es)
        end
    end.
  Proof.
    induction es as [|[k0 ts0] es IH]; cbn; intros Hnd; [reflexivity|].
    inversion Hnd as [|? ? Hn Hd]; subst.
    destruct (tuple_eqb k k0) eqn:E.
    - apply tuple_eqb_spec in E; subst k0.
      destruct (remove_first t ts0) as [[|x ts']|] eqn:R; [| |reflexivity].
      + exists es. split; [reflexivity|]. split; [exact Hd|]. intros k'.
        cbn. destruct (tuple_eqb k' k) eqn:E'; [|reflexivity].
        apply tuple_eqb_spec in E'; subst k'. apply e_lookup_notin; exact Hn.
      + eexists. split; [reflexivity|]. split; [exact Hnd|]. intros k'. cbn.
        destruct (tuple_eqb k' k); reflexivity.
    - specialize (IH Hd). destruct (e_lookup k es) as [ts|] eqn:L.
      + destruct (remove_first t ts) as [ts'|] eqn:R.
        * destruct IH as [es' [He [Hnd' Hl']]]. rewrite He. eexists. split; [reflexivity|]. split.
          -- cbn. constructor; [|exact Hnd']. intros Hin.
             assert (Hk0 : e_lookup k0 es' <> None).
             { intros Hnone. apply e_lookup_None_notin in Hnone. contradiction. }
             rewrite Hl' in Hk0. destruct (tuple_eqb k0 k) eqn:E0.
             ++ apply tuple_eqb_spec in E0; subst. rewrite tuple_eqb_refl in E; discriminate.
             ++ apply Hk0. apply e_lookup_notin; exact Hn.
          -- intros k'. cbn. destruct (tuple_eqb k' k0) eqn:E1.
             ++ apply tuple_eqb_spec in E1; subst k'. rewrite tuple_eqb_sym, E. reflexivity.
             ++ apply Hl'.
        * rewrite IH. reflexivity.
      + rewrite IH. reflexivity.
  Qed.

  Lemma norm_Some_inv l l' : norm l = Some l' -> l = l'.
  Proof. destruct l; cbn; congruence. Qed.
  Lemma norm_None_inv l : norm l = None -> l = [].
  Proof. destruct l; cbn; congruence. Qed.

  Lemma remove_inv h s t : Inv h s ->
    Inv (fst (hi_remove h t)) (sstep s (HRem t)) /\
    snd (hi_remove h t) = match remove_first t s with Some _ => true | None => false end.
  Proof.
    intros I. pose proof I as [Hc Hn Hl Hb]. unfold hi_remove, sstep. rewrite Hc.
    set (k := project t cols).
    assert (Hpk : tuple_eqb k (project t cols) = true) by apply tuple_eqb_refl.
    pose proof (e_remove_spec k t (entries h) Hn) as S.
    pose proof (remove_first_filter (fun x => tuple_eqb k (project x cols)) t Hpk s) as F.
    fold (spec_lookup cols s k) in F.
    rewrite Hl in S.
    destruct (remove_first t s) as [s'|] eqn:R.
    - (* present in the spec: the entry exists and contains t *)
      destruct (norm (spec_lookup cols s k)) as [ts|] eqn:Nm.
      + apply norm_Some_inv in Nm. rewrite <- Nm in S. rewrite F in S.
        destruct S as [es' [He [Hnd' Hl']]]. rewrite He. cbn [fst snd]. split; [|reflexivity].
        constructor; cbn [keycols entries hbloom]; auto.
        * intros k'. rewrite Hl'. destruct (tuple_eqb k' k) eqn:E.
          -- apply tuple_eqb_spec in E; subst k'. reflexivity.
          -- rewrite Hl. f_equal. symmetry.
             apply (remove_first_filter_other (fun x => tuple_eqb k' (project x cols)) t); [|exact R].
             exact E.
        * intros k' Hk'. apply Hb. intros Hnil. apply Hk'.
          destruct (spec_lookup cols s' k') as [|x l] eqn:Es; [reflexivity|exfalso].
          assert (In x (spec_lookup cols s k')).
          { unfold spec_lookup in *. apply filter_In.
            assert (Hx : In x (filter (fun t0 => tuple_eqb k' (project t0 cols)) s')) by (rewrite Es; left; reflexivity).
            apply filter_In in Hx. destruct Hx as [Hx1 Hx2]. split; [|exact Hx2].
            eapply remove_first_In; eauto. }
          rewrite Hnil in H. destruct H.
      + apply norm_None_inv in Nm. rewrite Nm in F. cbn in F. discriminate.
    - (* absent in the spec *)
      assert (e_remove k t (entries h) = None) as ->.
      { destruct (norm (spec_lookup cols s k)) as [ts|] eqn:Nm; [|exact S].
        apply norm_Some_inv in Nm. rewrite <- Nm in S. rewrite F in S. exact S. }
      cbn [fst snd]. split; [exact I|reflexivity].
  Qed.

  Lemma empty_inv h : keycols h = cols ->
    Inv {| keycols := keycols h; entries := []; hbloom := bloom_clear (hbloom h) |} [].
  Proof.
    intros Hc. constructor; cbn; auto.
    - constructor.
    - intros k H; congruence.
  Qed.

  Lemma fold_insert_inv ts : forall h s, Inv h s -> Inv (fold_left (hi_insert hf) ts h) (s ++ ts).
  Proof.
    induction ts as [|t ts IH]; intros h s I; cbn.
    - rewrite app_nil_r; exact I.
    - replace (s ++ t :: ts) with ((s ++ [t]) ++ ts) by (rewrite <- app_assoc; reflexivity).
      apply IH, insert_inv, I.
  Qed.

  Lemma step_inv h s o : Inv h s -> Inv (hstep hf h o) (sstep s o).
  Proof.
    intros I. destruct o as [t|t|ts]; cbn [hstep].
    - apply insert_inv; exact I.
    - apply remove_inv; exact I.
    - unfold hi_build. cbn [sstep]. change ts with ([] ++ ts) at 2.
      apply fold_insert_inv, empty_inv. apply I.
  Qed.

  Lemma run_inv ops : forall h s, Inv h s -> Inv (hrun hf h ops) (srun s ops).
  Proof.
    induction ops as [|o ops IH]; intros h s I; cbn; [exact I|]. apply IH, step_inv, I.
  Qed.

  Lemma lookup_exact_inv h s k : Inv h s ->
    opt_list (hi_get_with_bloom hf h k) = spec_lookup cols s k.
  Proof.
    intros [Hc Hn Hl Hb]. unfold hi_get_with_bloom.
    destruct (spec_lookup cols s k) as [|x l] eqn:E.
    - rewrite Hl, E. destruct (might_contain _ _ _); reflexivity.
    - assert (C : covers (hbloom h) (hf k)) by (apply Hb; rewrite E; discriminate).
      unfold covers in C. rewrite C, Hl, E. reflexivity.
  Qed.

  Lemma lookup_exact b0 ops k :
    let h0 := {| keycols := cols; entries := []; hbloom := bloom_clear b0 |} in
    opt_list (hi_get_with_bloom hf (hrun hf h0 ops) k) = spec_lookup cols (srun [] ops) k.
  Proof.
    intros h0. apply lookup_exact_inv, run_inv.
    apply (empty_inv {| keycols := cols; entries := []; hbloom := b0 |}). reflexivity.
  Qed.
End Index.
