(* Proofs/SyntaxArith2.v — parith (show_arith a) = Some a for well-formed a *)
From IL Require Import Model.Syntax Model.SyntaxWf Proofs.SyntaxBase Proofs.SyntaxArith.
Open Scope N_scope.

Definition is_leaf (a : arith) : bool := match a with ABin _ _ _ => false | _ => true end.
Definition addop (o : aop) : bool := match o with OAdd | OSub => true | _ => false end.
Definition mulish (a : arith) : bool := match a with ABin o _ _ => negb (addop o) | _ => true end.
Fixpoint need (a : arith) : nat := match a with ABin _ l r => 4 + need l + need r | _ => 3 end.

Lemma lastc_forall (p : N -> bool) s : s <> [] -> forallb p s = true -> lastc p s = true.
Proof.
  intros NE H. unfold lastc. rewrite <- forallb_rev in H.
  destruct (rev s) eqn:R. { apply (f_equal (@rev N)) in R. rewrite rev_involutive in R. contradiction. }
  cbn in H. apply andb_true_iff in H. tauto.
Qed.
Lemma lastc_app p a b : b <> [] -> lastc p (a ++ b) = lastc p b.
Proof.
  intros NE. unfold lastc. rewrite rev_app_distr.
  destruct (rev b) eqn:R; auto. apply (f_equal (@rev N)) in R. rewrite rev_involutive in R. contradiction.
Qed.
Lemma lastc_ne p s : lastc p s = true -> s <> [].
Proof. intros H ->. discriminate. Qed.
Lemma lastc_impl (p q : N -> bool) s : (forall c, p c = true -> q c = true) -> lastc p s = true -> lastc q s = true.
Proof. unfold lastc. intros I. destruct (rev s); auto. Qed.

(* every '(' is the first character or follows an operator or another '(' *)
Definition lpctx (p : N) : bool := opc p || (p =? 0).
Fixpoint lp_ok (prev : N) (s : str) : bool :=
  match s with [] => true | c :: t => (if c =? 40 then lpctx prev else true) && lp_ok c t end.
Definition lastd (d : N) (s : str) : N := match rev s with c :: _ => c | [] => d end.
Lemma lastd_cons d c s : lastd d (c :: s) = lastd c s.
Proof.
  unfold lastd. cbn [rev]. destruct (rev s) eqn:R; reflexivity.
Qed.
Lemma lp_ok_app p a b : lp_ok p (a ++ b) = lp_ok p a && lp_ok (lastd p a) b.
Proof.
  revert p; induction a as [|c a IH]; intros p; cbn [app lp_ok]. reflexivity.
  rewrite IH, lastd_cons, andb_assoc. reflexivity.
Qed.
Lemma lp_ok_no40 p s : forallb (fun c => negb (c =? 40)) s = true -> lp_ok p s = true.
Proof.
  revert p; induction s as [|c s IH]; intros p H; cbn [lp_ok forallb] in *; auto.
  apply andb_true_iff in H as [H1 H2]. apply negb_true_iff in H1. rewrite H1. cbn. auto.
Qed.

(* ------------------------------------------------------------------ good texts *)
Definition endc (c : N) : bool := idc c || (c =? 41).
Record good (T : str) : Prop := mkGood {
  g_ac : forallb ac T = true;
  g_last : lastc endc T = true;
  g_rb : forall lo d, lo <= d -> rb lo (rev T) d = Some d;
  g_fb : forall lo d, lo <= d -> fb lo T d = Some d;
  g_lp : forall p, lpctx p = true -> lp_ok p T = true }.

Lemma good_ne T : good T -> T <> [].
Proof. intros G. apply (lastc_ne endc). apply G. Qed.
Lemma good_trim T : good T -> trim T = T.
Proof.
  intros G. apply trim_all_nws. eapply forallb_impl; [|apply G].
  intros c H. cbn. rewrite (ac_nws c H). reflexivity.
Qed.

Lemma lc_noparen c : lc c = true -> negb ((c =? 40) || (c =? 41)) = true.
Proof. intros H. charfact. Qed.

Lemma good_leaf T : leaf_text T -> good T.
Proof.
  intros (A & B & C). constructor.
  - eapply forallb_impl; [apply lc_ac | exact A].
  - eapply lastc_impl; [|exact C]. intros c H. unfold endc. rewrite H. reflexivity.
  - intros lo d _. apply rb_noparen. rewrite forallb_rev. eapply forallb_impl; [apply lc_noparen|exact A].
  - intros lo d _. apply fb_noparen. eapply forallb_impl; [apply lc_noparen|exact A].
  - intros p _. apply lp_ok_no40. eapply forallb_impl; [|exact A]. intros c H. clear - H. charfact.
Qed.

Lemma good_paren X : good X -> good (paren X).
Proof.
  intros G. unfold paren. constructor.
  - cbn [forallb]. rewrite forallb_app. rewrite (g_ac _ G). reflexivity.
  - change (40 :: X ++ [41]) with ((40 :: X) ++ [41]). rewrite lastc_app by discriminate. reflexivity.
  - intros lo d L. cbn [rev]. rewrite rev_app_distr. cbn [rev app rb].
    change (41 =? 41) with true. cbv iota. rewrite rb_app. rewrite (g_rb _ G) by lia.
    cbn [rb]. change (40 =? 41) with false. change (40 =? 40) with true. cbv iota.
    assert (Q : d + 1 <=? lo = false) by (apply N.leb_gt; lia). rewrite Q. f_equal. lia.
  - intros lo d L. cbn [fb]. change (40 =? 40) with true. cbv iota. rewrite fb_app.
    rewrite (g_fb _ G) by lia. cbn [fb]. change (41 =? 40) with false. change (41 =? 41) with true.
    cbv iota. assert (Q : d + 1 <=? lo = false) by (apply N.leb_gt; lia). rewrite Q. f_equal. lia.
  - intros p P. cbn [lp_ok]. change (40 =? 40) with true. cbv iota. rewrite P. cbn [andb].
    rewrite lp_ok_app. rewrite (g_lp _ G 40 eq_refl). reflexivity.
Qed.

Definition binop_char (c : N) : bool := (c =? 43) || (c =? 45) || (c =? 42) || (c =? 47) || (c =? 37).
Lemma op_char_binop o : binop_char (op_char o) = true.
Proof. destruct o; reflexivity. Qed.
Lemma binop_facts c : binop_char c = true ->
  ac c = true /\ opc c = true /\ (c =? 40) = false /\ (c =? 41) = false.
Proof. intros H. unfold binop_char in H. charfact. Qed.

Lemma good_bin L c R : good L -> good R -> binop_char c = true -> good (L ++ c :: R).
Proof.
  intros GL GR C. destruct (binop_facts c C) as (A1 & A2 & A3 & A4). constructor.
  - rewrite forallb_app. cbn [forallb]. rewrite (g_ac _ GL), (g_ac _ GR), A1. reflexivity.
  - change (L ++ c :: R) with (L ++ [c] ++ R). rewrite app_assoc. rewrite lastc_app. apply GR.
    apply (good_ne _ GR).
  - intros lo d H. rewrite rev_app_distr. cbn [rev]. rewrite <- app_assoc. cbn [app].
    rewrite rb_app, (g_rb _ GR) by auto. cbn [rb]. rewrite A4, A3. apply GL; auto.
  - intros lo d H. rewrite fb_app, (g_fb _ GL) by auto. cbn [fb]. rewrite A3, A4. apply GR; auto.
  - intros p P. rewrite lp_ok_app. rewrite (g_lp _ GL p P). cbn [lp_ok andb]. rewrite A3.
    apply (g_lp _ GR). unfold lpctx. rewrite A2. reflexivity.
Qed.

Section WithEnv.
Variable E : env.

Definition lopnd (o : aop) (l : arith) : str :=
  match l with
  | ABin co _ _ => if (prec co <? prec o)%nat then paren (show_arith E l) else show_arith E l
  | _ => show_arith E l end.
Definition ropnd (o : aop) (r : arith) : str :=
  match r with
  | ABin co _ _ => if (prec co <=? prec o)%nat then paren (show_arith E r) else show_arith E r
  | _ => show_arith E r end.
Lemma show_bin o l r : show_arith E (ABin o l r) = lopnd o l ++ op_char o :: ropnd o r.
Proof. reflexivity. Qed.

(* ------------------------------------------------------------------ leaves *)
Lemma idc_not45 c : idc c = true -> negb (c =? 45) = true.
Proof. intros H. charfact. Qed.

Lemma leaf_var s : ident s = true -> leaf_text s.
Proof.
  unfold ident. intros H. destruct s as [|c s]; try discriminate. repeat split.
  - eapply forallb_impl; [apply idc_lc|exact H].
  - apply minus_ok_nominus. eapply forallb_impl; [apply idc_not45|exact H].
  - apply lastc_forall; auto. discriminate.
Qed.
Lemma leaf_digits ds : ds <> [] -> forallb is_digit ds = true -> leaf_text ds.
Proof.
  intros NE H. apply leaf_var. unfold ident. destruct ds; try congruence.
  eapply forallb_impl; [apply digit_idc|exact H].
Qed.
Lemma leaf_int z : leaf_text (show_Z z).
Proof.
  unfold show_Z. destruct (z <? 0)%Z.
  - destruct (leaf_digits _ (show_N_nonempty (Z.to_N (- z))) (show_N_digits _)) as (A & B & C).
    repeat split.
    + cbn [forallb]. rewrite A. reflexivity.
    + cbn [minus_ok]. change (45 =? 45) with true. cbv iota. cbn [andb].
      apply minus_ok_nominus. eapply forallb_impl; [|apply show_N_digits].
      intros c H. apply idc_not45. apply digit_idc. exact H.
    + change (45 :: show_N (Z.to_N (- z))) with ([45] ++ show_N (Z.to_N (- z))).
      rewrite lastc_app. exact C. apply show_N_nonempty.
  - apply leaf_digits. apply show_N_nonempty. apply show_N_digits.
Qed.
Lemma leaf_float b : dbg_ok E b = true -> leaf_text (e_dbg E b).
Proof.
  intros Hdbg. unfold dbg_ok in Hdbg.
  apply andb_true_iff in Hdbg as [H _]. apply andb_true_iff in H as [H _].
  unfold dbg_shape in H. apply andb_true_iff in H as [H _]. apply andb_true_iff in H as [H L].
  apply andb_true_iff in H as [A M]. repeat split.
  - eapply forallb_impl; [apply num_char_lc|exact A].
  - exact M.
  - unfold last_alnum in L. unfold lastc. destruct (rev (e_dbg E b)); auto.
    unfold idc. rewrite L. reflexivity.
Qed.
Lemma leaf_text_of a : wf_arith E a = true -> is_leaf a = true -> leaf_text (show_arith E a).
Proof.
  destruct a; cbn [wf_arith is_leaf show_arith]; intros W L; try discriminate.
  - unfold wf_avar in W. apply andb_true_iff in W as [W _]. apply andb_true_iff in W as [W _].
    apply leaf_var. exact W.
  - apply leaf_int.
  - apply leaf_float. apply andb_true_iff in W. apply W.
Qed.

(* ------------------------------------------------------------------ every printed expression is good *)
Lemma good_show a : wf_arith E a = true -> good (show_arith E a).
Proof.
  induction a as [s|z|b|o l IHl r IHr]; intros W.
  - apply good_leaf. apply leaf_text_of; auto.
  - apply good_leaf. apply leaf_text_of; auto.
  - apply good_leaf. apply leaf_text_of; auto.
  - cbn [wf_arith] in W. apply andb_true_iff in W as [W _]. apply andb_true_iff in W as [Wl Wr].
    specialize (IHl Wl). specialize (IHr Wr). rewrite show_bin.
    apply good_bin; [| |apply op_char_binop].
    + unfold lopnd. destruct l; auto. destruct (prec o0 <? prec o)%nat; auto. apply good_paren; auto.
    + unfold ropnd. destruct r; auto. destruct (prec o0 <=? prec o)%nat; auto. apply good_paren; auto.
Qed.
Lemma good_lopnd o l : wf_arith E l = true -> good (lopnd o l).
Proof.
  intros W. pose proof (good_show l W). unfold lopnd. destruct l; auto.
  destruct (prec o0 <? prec o)%nat; auto. apply good_paren; auto.
Qed.
Lemma good_ropnd o r : wf_arith E r = true -> good (ropnd o r).
Proof.
  intros W. pose proof (good_show r W). unfold ropnd. destruct r; auto.
  destruct (prec o0 <=? prec o)%nat; auto. apply good_paren; auto.
Qed.

(* ------------------------------------------------------------------ inert texts *)
Definition inert_as (T : str) : Prop := forall ctx suffix, opctx ctx = true ->
  scan_addsub E (rev T ++ ctx) suffix 0 = scan_addsub E ctx (T ++ suffix) 0.
Definition inert_md (T : str) : Prop := forall rest suffix d,
  scan_muldiv (rev T ++ rest) suffix d = scan_muldiv rest (T ++ suffix) d.

Lemma inert_as_leaf T : leaf_text T -> inert_as T.
Proof.
  intros (A & B & _) ctx suffix O.
  apply (scan_as_leaf E T [] ctx suffix A B). intros _. exact O.
Qed.
Lemma inert_as_paren X : good X -> inert_as (paren X).
Proof. intros G ctx suffix _. apply scan_as_paren. apply G. Qed.
Lemma lc_plain c : lc c = true ->
  negb ((c =? 41) || (c =? 40) || (c =? 42) || (c =? 47) || (c =? 37)) = true.
Proof. intros H. charfact. Qed.
Lemma inert_md_leaf T : leaf_text T -> inert_md T.
Proof.
  intros (A & _ & _) rest suffix d. apply scan_md_plain.
  eapply forallb_impl; [apply lc_plain|exact A].
Qed.
Lemma inert_md_paren X : good X -> inert_md (paren X).
Proof. intros G rest suffix d. apply scan_md_paren. apply G. Qed.

Lemma inert_as_bin L c R : inert_as L -> inert_as R -> binop_char c = true ->
  (c =? 43) = false -> (c =? 45) = false -> inert_as (L ++ c :: R).
Proof.
  intros IL IR C P M ctx suffix O. destruct (binop_facts c C) as (_ & A2 & A3 & A4).
  rewrite rev_app_distr. cbn [rev]. rewrite <- !app_assoc. cbn [app].
  rewrite IR by (cbn [opctx]; exact A2).
  rewrite scan_as_skip by auto. rewrite IL by exact O. reflexivity.
Qed.

Lemma inert_as_mulish a : wf_arith E a = true -> mulish a = true -> inert_as (show_arith E a).
Proof.
  induction a as [s|z|b|o l IHl r IHr]; intros W Mu.
  - apply inert_as_leaf. apply leaf_text_of; auto.
  - apply inert_as_leaf. apply leaf_text_of; auto.
  - apply inert_as_leaf. apply leaf_text_of; auto.
  - cbn [mulish] in Mu. apply negb_true_iff in Mu.
    cbn [wf_arith] in W. apply andb_true_iff in W as [W _]. apply andb_true_iff in W as [Wl Wr].
    rewrite show_bin. apply inert_as_bin.
    + unfold lopnd. destruct l as [s|z|b|co l1 l2].
      * apply inert_as_leaf. apply leaf_text_of; auto.
      * apply inert_as_leaf. apply leaf_text_of; auto.
      * apply inert_as_leaf. apply leaf_text_of; auto.
      * destruct (prec co <? prec o)%nat eqn:P.
        -- apply inert_as_paren. apply good_show. auto.
        -- apply IHl; auto. cbn [mulish]. destruct co, o; cbn in *; congruence.
    + unfold ropnd. destruct r as [s|z|b|co r1 r2].
      * apply inert_as_leaf. apply leaf_text_of; auto.
      * apply inert_as_leaf. apply leaf_text_of; auto.
      * apply inert_as_leaf. apply leaf_text_of; auto.
      * assert (P : (prec co <=? prec o)%nat = true) by (destruct co, o; cbn in *; congruence).
        rewrite P. apply inert_as_paren. apply good_show. auto.
    + apply op_char_binop.
    + destruct o; cbn in *; congruence.
    + destruct o; cbn in *; congruence.
Qed.

(* the right operand of any operator is inert for the add/sub scan; of a mul-level operator, for both *)
Lemma inert_as_ropnd o r : wf_arith E r = true -> inert_as (ropnd o r).
Proof.
  intros W. unfold ropnd. destruct r as [s|z|b|co r1 r2].
  - apply inert_as_leaf. apply leaf_text_of; auto.
  - apply inert_as_leaf. apply leaf_text_of; auto.
  - apply inert_as_leaf. apply leaf_text_of; auto.
  - destruct (prec co <=? prec o)%nat eqn:P.
    + apply inert_as_paren. apply good_show. auto.
    + apply inert_as_mulish; auto. cbn [mulish]. destruct co, o; cbn in *; congruence.
Qed.
Lemma inert_md_ropnd o r : wf_arith E r = true -> addop o = false -> inert_md (ropnd o r).
Proof.
  intros W A. unfold ropnd. destruct r as [s|z|b|co r1 r2].
  - apply inert_md_leaf. apply leaf_text_of; auto.
  - apply inert_md_leaf. apply leaf_text_of; auto.
  - apply inert_md_leaf. apply leaf_text_of; auto.
  - assert (P : (prec co <=? prec o)%nat = true) by (destruct co, o; cbn in *; congruence).
    rewrite P. apply inert_md_paren. apply good_show. auto.
Qed.

End WithEnv.
