(* Lemmas about the search wrapper of Model/Hnsw.v (C24). *)
From IL Require Import Model.Hnsw Proofs.Hnsw.
From Coq Require Import Permutation Sorted.
Open Scope N_scope.

(* ------------------------------------------------------------ stable insertion sort *)
Section SortFacts.
  Variable A : Type.
  Variable le : A -> A -> bool.
  Variable le_total : forall a b, le a b = true \/ le b a = true.
  Variable le_trans : forall a b c, le a b = true -> le b c = true -> le a c = true.

  Definition leP (a b : A) : Prop := le a b = true.

  Lemma ins_by_perm x l : Permutation (ins_by le x l) (x :: l).
  Proof.
    induction l as [|y r IH]; cbn [ins_by]; [apply Permutation_refl|].
    destruct (le x y); [apply Permutation_refl|].
    eapply perm_trans; [apply perm_skip, IH | apply perm_swap].
  Qed.

  Lemma sort_by_perm l : Permutation (sort_by le l) l.
  Proof.
    induction l as [|x r IH]; cbn [sort_by fold_right]; [constructor|].
    eapply perm_trans; [apply ins_by_perm | apply perm_skip, IH].
  Qed.

  Lemma ins_by_sorted x l : StronglySorted leP l -> StronglySorted leP (ins_by le x l).
  Proof.
    induction 1 as [|y r Hr IH Hy]; cbn [ins_by]; [repeat constructor|].
    destruct (le x y) eqn:E.
    - constructor; [constructor; assumption|]. constructor; [exact E|].
      rewrite Forall_forall in *. intros z Hz. eapply le_trans; [exact E | apply Hy, Hz].
    - constructor; [exact IH|]. rewrite Forall_forall in *. intros z Hz.
      apply (Permutation_in _ (ins_by_perm x r)) in Hz. destruct Hz as [<-|Hz]; [|apply Hy, Hz].
      destruct (le_total x y) as [H|H]; [congruence | exact H].
  Qed.

  Lemma sort_by_sorted l : StronglySorted leP (sort_by le l).
  Proof. induction l as [|x r IH]; cbn [sort_by fold_right]; [constructor | apply ins_by_sorted, IH]. Qed.

  Lemma sorted_app_le (l1 l2 : list A) :
    StronglySorted leP (l1 ++ l2) -> forall a b, In a l1 -> In b l2 -> leP a b.
  Proof.
    induction l1 as [|x r IH]; cbn [app]; intros Hs a b Ha Hb; [destruct Ha|].
    inversion Hs as [|? ? Hr Hx]; subst. destruct Ha as [<-|Ha].
    - rewrite Forall_forall in Hx. apply Hx, in_or_app. right. exact Hb.
    - apply IH; assumption.
  Qed.

  Lemma sorted_app_l (l1 l2 : list A) : StronglySorted leP (l1 ++ l2) -> StronglySorted leP l1.
  Proof.
    induction l1 as [|x r IH]; cbn [app]; intros Hs; [constructor|].
    inversion Hs as [|? ? Hr Hx]; subst. constructor; [apply IH, Hr|].
    rewrite Forall_forall in *. intros z Hz. apply Hx, in_or_app. left. exact Hz.
  Qed.

  Lemma sorted_firstn n l : StronglySorted leP l -> StronglySorted leP (firstn n l).
  Proof. intros H. rewrite <- (firstn_skipn n l) in H. apply sorted_app_l in H. exact H. Qed.

  Lemma firstn_sorted_le n l a b :
    StronglySorted leP l -> In a (firstn n l) -> In b (skipn n l) -> leP a b.
  Proof. intros H. rewrite <- (firstn_skipn n l) in H. apply sorted_app_le. exact H. Qed.
End SortFacts.

(* ------------------------------------------------------------ small list facts *)
Lemma NoDup_app_l {A} (l1 l2 : list A) : NoDup (l1 ++ l2) -> NoDup l1.
Proof.
  induction l1 as [|x r IH]; cbn [app]; intros H; [constructor|].
  inversion H as [|? ? Hx Hr]; subst. constructor; [|apply IH, Hr].
  intros Hin. apply Hx, in_or_app. left. exact Hin.
Qed.

Lemma NoDup_firstn {A} n (l : list A) : NoDup l -> NoDup (firstn n l).
Proof. intros H. rewrite <- (firstn_skipn n l) in H. apply NoDup_app_l in H. exact H. Qed.

Lemma In_firstn {A} n (l : list A) x : In x (firstn n l) -> In x l.
Proof. intros H. rewrite <- (firstn_skipn n l). apply in_or_app. left. exact H. Qed.

Lemma In_first_or_skip {A} n (l : list A) x : In x l -> In x (firstn n l) \/ In x (skipn n l).
Proof. intros H. rewrite <- (firstn_skipn n l) in H. apply in_app_or in H. exact H. Qed.

Lemma filter_split_length {A} (f : A -> bool) l :
  List.length l = (List.length (filter f l) + List.length (filter (fun x => negb (f x)) l))%nat.
Proof. induction l as [|x r IH]; cbn [filter List.length]; [reflexivity|]. destruct (f x); cbn [negb List.length]; lia. Qed.

(* a duplicate-free list of n numbers below n contains all of them *)
Lemma full_range (l : list nat) n :
  NoDup l -> (forall i, In i l -> (i < n)%nat) -> List.length l = n -> forall j, (j < n)%nat -> In j l.
Proof.
  intros Hnd Hlt Hlen j Hj.
  assert (Hincl : incl (seq 0 n) l).
  { apply NoDup_length_incl; [exact Hnd | rewrite seq_length; lia |].
    intros i Hi. apply in_seq. specialize (Hlt i Hi). lia. }
  apply Hincl, in_seq. lia.
Qed.

Lemma combine_seq_In {A} (l : list A) : forall start i x,
  In (i, x) (combine (seq start (List.length l)) l) <-> (start <= i)%nat /\ nth_error l (i - start) = Some x.
Proof.
  induction l as [|y r IH]; intros start i x; cbn [List.length seq combine In].
  - split; [tauto|]. intros [_ H]. destruct (i - start)%nat; discriminate.
  - rewrite IH. split.
    + intros [E|[Hle Hn]].
      * inversion E; subst. split; [lia|]. rewrite Nat.sub_diag. reflexivity.
      * split; [lia|]. replace (i - start)%nat with (S (i - S start)) by lia. exact Hn.
    + intros [Hle Hn]. destruct (Nat.eq_dec i start) as [->|Hne].
      * left. rewrite Nat.sub_diag in Hn. cbn in Hn. inversion Hn. reflexivity.
      * right. split; [lia|]. replace (i - start)%nat with (S (i - S start)) in Hn by lia. exact Hn.
Qed.

Lemma combine_seq_fst {A} (l : list A) start :
  map fst (combine (seq start (List.length l)) l) = seq start (List.length l).
Proof.
  revert start. induction l as [|y r IH]; intros start; cbn [List.length seq combine map fst]; [reflexivity|].
  rewrite IH. reflexivity.
Qed.

Lemma nth_error_map_inv {A B} (f : A -> B) l i d :
  nth_error (map f l) i = Some d -> exists v, nth_error l i = Some v /\ d = f v.
Proof.
  revert i. induction l as [|x r IH]; intros [|i]; cbn [map nth_error]; try discriminate.
  - intros E. inversion E. eauto.
  - apply IH.
Qed.

Lemma nth_error_In_fst {A B} (l : list (A * B)) i a b : nth_error l i = Some (a, b) -> In a (map fst l).
Proof. intros H. apply nth_error_In in H. apply (in_map fst) in H. exact H. Qed.

Section SearchProofs.
  Variable V : Type.
  Variable vlen : V -> N.
  Variable normalize : V -> V.
  Variable tiny_norm : V -> bool.
  Variable Hlen : forall v, vlen (normalize v) = vlen v.
  Variable R : Type.
  Variable D : Type.
  Variable rle : R -> R -> bool.
  Variable dle : D -> D -> bool.
  Variable l2 : V -> V -> R.
  Variable ann : list V -> V -> N -> N -> list (nat * R).
  Variable transform : metric -> R -> D.
  Variable l1 : V -> V -> D.
  Variable rle_total : forall a b, rle a b = true \/ rle b a = true.
  Variable rle_trans : forall a b c, rle a b = true -> rle b c = true -> rle a c = true.
  Variable dle_total : forall a b, dle a b = true \/ dle b a = true.
  Variable dle_trans : forall a b c, dle a b = true -> dle b c = true -> dle a c = true.
  Variable transform_mono : forall m a b, rle a b = true -> dle (transform m a) (transform m b) = true.
  (* the contract of the graph search: distinct internal indices, each in range and paired with the
     L2 distance between the query and that node's vector *)
  Variable ann_wf : forall vs q k ef,
    NoDup (map fst (ann vs q k ef)) /\
    forall i d, In (i, d) (ann vs q k ef) -> exists v, nth_error vs i = Some v /\ d = l2 q v.

  Notation state := (state V).
  Notation search := (search V normalize R D rle dle l2 ann transform l1).
  Notation candidates := (candidates V R rle l2 ann).
  Notation scan := (scan V R rle l2).
  Notation map_neighbour := (map_neighbour V R D transform l1).
  Notation live_entries := (live_entries V).
  Notation live_lookup := (live_lookup V).
  Notation Inv := (Inv V vlen).

  Definition rle2 (a b : nat * R) : bool := rle (snd a) (snd b).
  Definition dle2 (a b : N * D) : bool := dle (snd a) (snd b).
  Lemma rle2_total a b : rle2 a b = true \/ rle2 b a = true. Proof. apply rle_total. Qed.
  Lemma rle2_trans a b c : rle2 a b = true -> rle2 b c = true -> rle2 a c = true. Proof. apply rle_trans. Qed.
  Lemma dle2_total a b : dle2 a b = true \/ dle2 b a = true. Proof. apply dle_total. Qed.
  Lemma dle2_trans a b c : dle2 a b = true -> dle2 b c = true -> dle2 a c = true. Proof. apply dle_trans. Qed.

  (* the distance of the configured metric between the prepared query and a stored vector *)
  Definition dist_of (m : metric) (pq v : V) : D :=
    if is_manhattan m then l1 pq v else transform m (l2 pq v).

  (* ---------------------------------------------------------- the exact scan *)
  Definition all_pairs (vs : list V) (pq : V) : list (nat * R) :=
    combine (seq 0 (List.length vs)) (map (l2 pq) vs).

  Lemma all_pairs_In vs pq i d :
    In (i, d) (all_pairs vs pq) <-> exists v, nth_error vs i = Some v /\ d = l2 pq v.
  Proof.
    unfold all_pairs. rewrite <- (map_length (l2 pq) vs). rewrite combine_seq_In, Nat.sub_0_r. split.
    - intros [_ H]. apply nth_error_map_inv in H. exact H.
    - intros [v [Hv ->]]. split; [lia|]. apply map_nth_error. exact Hv.
  Qed.

  Lemma all_pairs_fst vs pq : map fst (all_pairs vs pq) = seq 0 (List.length vs).
  Proof. unfold all_pairs. rewrite <- (map_length (l2 pq) vs). apply combine_seq_fst. Qed.

  Lemma scan_eq vs pq sk : scan vs pq sk = firstn (N.to_nat sk) (sort_by rle2 (all_pairs vs pq)).
  Proof. reflexivity. Qed.

  Lemma scan_wf vs pq sk :
    NoDup (map fst (scan vs pq sk)) /\
    forall i d, In (i, d) (scan vs pq sk) -> exists v, nth_error vs i = Some v /\ d = l2 pq v.
  Proof.
    rewrite scan_eq. split.
    - rewrite <- firstn_map. apply NoDup_firstn.
      apply (Permutation_NoDup (l := map fst (all_pairs vs pq))).
      + apply Permutation_map, Permutation_sym, sort_by_perm.
      + rewrite all_pairs_fst. apply seq_NoDup.
    - intros i d H. apply In_firstn in H. apply (Permutation_in _ (sort_by_perm _ rle2 _)) in H.
      apply all_pairs_In. exact H.
  Qed.

  Lemma scan_length vs pq sk : List.length (scan vs pq sk) = Nat.min (N.to_nat sk) (List.length vs).
  Proof.
    rewrite scan_eq, firstn_length. f_equal.
    rewrite (Permutation_length (sort_by_perm _ rle2 _)).
    rewrite <- (map_length fst), all_pairs_fst, seq_length. reflexivity.
  Qed.

  Lemma scan_nearest vs pq sk i d j v :
    In (i, d) (scan vs pq sk) -> nth_error vs j = Some v -> ~ In j (map fst (scan vs pq sk)) ->
    rle d (l2 pq v) = true.
  Proof.
    rewrite scan_eq. intros Hi Hj Hnot.
    assert (Hall : In (j, l2 pq v) (sort_by rle2 (all_pairs vs pq))).
    { apply (Permutation_in _ (Permutation_sym (sort_by_perm _ rle2 _))). apply all_pairs_In. eauto. }
    destruct (In_first_or_skip (N.to_nat sk) _ _ Hall) as [H|H].
    - exfalso. apply Hnot. apply (in_map fst) in H. exact H.
    - apply (firstn_sorted_le _ rle2 (N.to_nat sk) _ (i, d) (j, l2 pq v)
               (sort_by_sorted _ rle2 rle2_total rle2_trans _) Hi H).
  Qed.

  Lemma candidates_wf vs pq sk b :
    NoDup (map fst (candidates vs pq sk b)) /\
    forall i d, In (i, d) (candidates vs pq sk b) -> exists v, nth_error vs i = Some v /\ d = l2 pq v.
  Proof. unfold Hnsw.candidates. destruct (_ <=? _); [apply scan_wf | apply ann_wf]. Qed.

  (* ---------------------------------------------------------- association-list facts *)
  Lemma lookup_of_In (l : list (N * V)) id v : NoDup (map fst l) -> In (id, v) l -> lookup V id l = Some v.
  Proof.
    induction l as [|[i w] r IH]; cbn [map fst In Hnsw.lookup]; [tauto|]. intros Hnd [E|Hin].
    - inversion E; subst. rewrite N.eqb_refl. reflexivity.
    - inversion Hnd as [|? ? Hi Hr]; subst. destruct (N.eqb_spec i id) as [->|Hne]; [|apply IH; assumption].
      exfalso. apply Hi. apply (in_map fst) in Hin. exact Hin.
  Qed.

  Lemma nth_inj (g : list (N * V)) i i' id v v' :
    NoDup (map fst g) -> nth_error g i = Some (id, v) -> nth_error g i' = Some (id, v') -> i = i'.
  Proof.
    intros Hnd H1 H2. rewrite NoDup_nth_error in Hnd. apply Hnd.
    - rewrite map_length. apply nth_error_Some. congruence.
    - rewrite (map_nth_error fst _ _ H1), (map_nth_error fst _ _ H2). reflexivity.
  Qed.

  Lemma flat_map_ext_in {A B} (f g : A -> list B) l :
    (forall x, In x l -> f x = g x) -> flat_map f l = flat_map g l.
  Proof.
    induction l as [|x r IH]; intros H; cbn [flat_map]; [reflexivity|].
    rewrite (H x (or_introl eq_refl)), IH; [reflexivity|]. intros y Hy. apply H. right. exact Hy.
  Qed.

  (* ---------------------------------------------------------- selecting identifiers through the graph *)
  Section Select.
    Variable g : list (N * V).
    Variable Gn : NoDup (map fst g).
    Definition sel (P : N -> bool) (i : nat) : list N :=
      match nth_error g i with Some (id, _) => if P id then [id] else [] | None => [] end.

    Lemma sel_In P idxs id :
      In id (flat_map (sel P) idxs) <-> exists i v, In i idxs /\ nth_error g i = Some (id, v) /\ P id = true.
    Proof.
      rewrite in_flat_map. unfold sel. split.
      - intros [i [Hi H]]. destruct (nth_error g i) as [[id0 v0]|] eqn:E; [|destruct H].
        destruct (P id0) eqn:EP; [|destruct H]. destruct H as [<-|[]]. eauto.
      - intros [i [v [Hi [E HP]]]]. exists i. split; [exact Hi|]. rewrite E, HP. left. reflexivity.
    Qed.

    Lemma sel_NoDup P idxs : NoDup idxs -> NoDup (flat_map (sel P) idxs).
    Proof.
      induction 1 as [|i r Hi Hr IH]; cbn [flat_map]; [constructor|].
      unfold sel at 1. destruct (nth_error g i) as [[id v]|] eqn:E; [|exact IH].
      destruct (P id); [|exact IH]. cbn [app]. constructor; [|exact IH].
      intros Hin. apply sel_In in Hin. destruct Hin as [i' [v' [Hi' [E' _]]]].
      assert (i = i') by (eapply nth_inj; eauto). subst. contradiction.
    Qed.

    Lemma sel_count P idxs :
      (forall i, In i idxs -> nth_error g i <> None) ->
      (List.length (flat_map (sel P) idxs) + List.length (flat_map (sel (fun x => negb (P x))) idxs))%nat
      = List.length idxs.
    Proof.
      induction idxs as [|i r IH]; intros H; cbn [flat_map List.length]; [reflexivity|].
      rewrite !app_length. rewrite <- IH by (intros j Hj; apply H; right; exact Hj).
      unfold sel at 1 3. destruct (nth_error g i) as [[id v]|] eqn:E.
      - destruct (P id); cbn [negb List.length]; lia.
      - exfalso. apply (H i (or_introl eq_refl)). exact E.
    Qed.
  End Select.

  (* ---------------------------------------------------------- the results of one search *)
  Section OneSearch.
    Variable s : state.
    Variable a : astate V.
    Variable HI : Inv s a.
    Variable g : list (N * V).
    Variable Hg : graph s = Some g.
    Variable pq : V.
    Variable cand : list (nat * R).
    Variable cand_nd : NoDup (map fst cand).
    Variable cand_wf : forall i d, In (i, d) cand -> exists v, nth_error (map snd g) i = Some v /\ d = l2 pq v.

    Let m := c_metric (cfg s).
    Let ts := tombs s.
    Let isLive (id : N) : bool := negb (memN id ts).

    Lemma Gr : active_of V g ts = live_entries s.
    Proof. destruct HI as [_ [G _]]. unfold Hnsw.reachable in G. rewrite Hg in G. exact G. Qed.
    Lemma Gn : NoDup (map fst g).
    Proof. destruct HI as [_ [_ G]]. rewrite Hg in G. exact G. Qed.
    Lemma vec_nd : NoDup (map fst (vectors s)).
    Proof. destruct HI as [I _]. apply (i_nd_ids _ _ _ _ I). Qed.

    Lemma live_node i id v0 :
      nth_error g i = Some (id, v0) -> memN id ts = false ->
      In (id, v0) (live_entries s) /\ lookup V id (vectors s) = Some v0 /\ live_lookup s id = Some v0.
    Proof.
      intros Hn Ht.
      assert (Hin : In (id, v0) (live_entries s)).
      { rewrite <- Gr. unfold Hnsw.active_of, is_tomb. apply filter_In. split; [eapply nth_error_In; eauto|].
        cbn [fst]. fold ts. rewrite Ht. reflexivity. }
      assert (Hl : lookup V id (vectors s) = Some v0).
      { apply lookup_of_In; [apply vec_nd|]. unfold Hnsw.live_entries, Hnsw.active_of in Hin.
        apply filter_In in Hin. tauto. }
      repeat split; [exact Hin | exact Hl|]. unfold Hnsw.live_lookup. fold ts. rewrite Ht. exact Hl.
    Qed.

    Lemma node_of_live id v : In (id, v) (live_entries s) -> exists j, nth_error g j = Some (id, v) /\ memN id ts = false.
    Proof.
      rewrite <- Gr. unfold Hnsw.active_of, is_tomb. intros H. apply filter_In in H. destruct H as [Hin Ht].
      apply In_nth_error in Hin. destruct Hin as [j Hj]. exists j. split; [exact Hj|].
      cbn [fst] in Ht. fold ts in Ht. destruct (memN id ts); [discriminate | reflexivity].
    Qed.

    (* map_neighbour on a candidate, with the invariants applied *)
    Definition mn' (c : nat * R) : list (N * D) :=
      match nth_error g (fst c) with
      | Some (id, v0) => if memN id ts then [] else [(id, dist_of m pq v0)]
      | None => []
      end.

    Lemma mn_eq c : In c cand -> map_neighbour s pq g c = mn' c.
    Proof.
      intros Hc. unfold Hnsw.map_neighbour, mn'. destruct c as [i d]. cbn [fst snd].
      destruct (nth_error g i) as [[id v0]|] eqn:E; [|reflexivity]. fold ts.
      destruct (memN id ts) eqn:Et; [reflexivity|].
      destruct (live_node i id v0 E Et) as [_ [Hl _]]. fold m. unfold dist_of.
      destruct (is_manhattan m); [rewrite Hl; reflexivity|].
      destruct (cand_wf i d Hc) as [v [Hv ->]].
      rewrite (map_nth_error snd _ _ E) in Hv. inversion Hv. reflexivity.
    Qed.

    Definition res : list (N * D) := flat_map (map_neighbour s pq g) cand.

    Lemma res_eq : res = flat_map mn' cand.
    Proof. apply flat_map_ext_in. intros c Hc. apply mn_eq. exact Hc. Qed.

    Lemma mn'_ids (l : list (nat * R)) : map fst (flat_map mn' l) = flat_map (sel g isLive) (map fst l).
    Proof.
      induction l as [|c r IH]; cbn [flat_map map]; [reflexivity|].
      rewrite map_app, IH. f_equal. unfold mn', sel, isLive.
      destruct (nth_error g (fst c)) as [[id v0]|]; [|reflexivity].
      destruct (memN id ts); reflexivity.
    Qed.

    Lemma res_ids : map fst res = flat_map (sel g isLive) (map fst cand).
    Proof. rewrite res_eq. apply mn'_ids. Qed.

    Lemma res_In id d :
      In (id, d) res <->
      exists i v0, In i (map fst cand) /\ nth_error g i = Some (id, v0) /\ memN id ts = false /\ d = dist_of m pq v0.
    Proof.
      rewrite res_eq, in_flat_map. unfold mn'. split.
      - intros [[i r] [Hc H]]. cbn [fst] in H. destruct (nth_error g i) as [[id0 v0]|] eqn:E; [|destruct H].
        destruct (memN id0 ts) eqn:Et; [destruct H|]. destruct H as [H|[]]. inversion H; subst.
        exists i, v0. repeat split; try assumption. apply (in_map fst) in Hc. exact Hc.
      - intros [i [v0 [Hi [E [Et ->]]]]]. apply in_map_iff in Hi. destruct Hi as [[i' r] [Ei Hc]]. cbn [fst] in Ei. subst i'.
        exists (i, r). split; [exact Hc|]. cbn [fst]. rewrite E, Et. left. reflexivity.
    Qed.

    Lemma res_NoDup : NoDup (map fst res).
    Proof. rewrite res_ids. apply sel_NoDup; [apply Gn | exact cand_nd]. Qed.

    Lemma res_live id d :
      In (id, d) res -> exists v, live_lookup s id = Some v /\ In (id, v) (live_entries s) /\ d = dist_of m pq v.
    Proof.
      intros H. apply res_In in H. destruct H as [i [v0 [_ [E [Et ->]]]]].
      destruct (live_node i id v0 E Et) as [H1 [_ H3]]. eauto.
    Qed.

    Lemma cand_in_range i : In i (map fst cand) -> nth_error g i <> None.
    Proof.
      intros Hi. apply in_map_iff in Hi. destruct Hi as [[i' d] [E Hc]]. cbn [fst] in E. subst i'.
      destruct (cand_wf i d Hc) as [v [Hv _]]. intros Hn. rewrite nth_error_map, Hn in Hv. discriminate.
    Qed.

    (* how many candidates survive the tombstone filter *)
    Lemma res_count : (List.length cand <= List.length res + List.length ts)%nat.
    Proof.
      pose proof (sel_count g isLive (map fst cand) cand_in_range) as Hc.
      rewrite <- res_ids, !map_length in Hc.
      assert (Ht : (List.length (flat_map (sel g (fun x => negb (isLive x))) (map fst cand)) <= List.length ts)%nat).
      { apply NoDup_incl_length; [apply sel_NoDup; [apply Gn | exact cand_nd]|].
        intros id Hid. apply sel_In in Hid. destruct Hid as [i [v [_ [_ HP]]]].
        unfold isLive in HP. apply memN_In. destruct (memN id ts); [reflexivity | discriminate]. }
      lia.
    Qed.

    Lemma res_le_live : (List.length res <= List.length (live_entries s))%nat.
    Proof.
      assert (H : (List.length (map fst res) <= List.length (map fst (live_entries s)))%nat).
      { apply NoDup_incl_length; [apply res_NoDup|]. intros id Hid. apply in_map_iff in Hid.
        destruct Hid as [[id' d] [E H]]. cbn [fst] in E. subst id'.
        destruct (res_live id d H) as [v [_ [Hin _]]]. apply (in_map fst) in Hin. exact Hin. }
      rewrite !map_length in H. exact H.
    Qed.

    (* if every node index is a candidate, every live entry is a result *)
    Lemma res_all_live :
      (forall j, (j < List.length g)%nat -> In j (map fst cand)) ->
      forall id v, In (id, v) (live_entries s) -> In (id, dist_of m pq v) res.
    Proof.
      intros Hall id v Hin. destruct (node_of_live id v Hin) as [j [Hj Ht]].
      apply res_In. exists j, v. repeat split; try assumption. apply Hall. apply nth_error_Some. congruence.
    Qed.
  End OneSearch.

  (* ---------------------------------------------------------- the theorems *)
  Lemma filter_fst_ids (P : N -> bool) (l : list (N * V)) :
    map fst (filter (fun e => P (fst e)) l) = filter P (map fst l).
  Proof.
    induction l as [|e r IH]; cbn [filter map]; [reflexivity|].
    destruct (P (fst e)); cbn [map]; rewrite IH; reflexivity.
  Qed.

  Lemma live_ids_NoDup s a : Inv s a -> NoDup (map fst (live_entries s)).
  Proof.
    intros [I _]. unfold Hnsw.live_entries, Hnsw.active_of, is_tomb.
    rewrite (filter_fst_ids (fun i => negb (memN i (tombs s)))). apply NoDup_filter, (i_nd_ids _ _ _ _ I).
  Qed.

  Lemma graph_size s a g :
    Inv s a -> graph s = Some g ->
    (List.length g <= List.length (live_entries s) + List.length (tombs s))%nat.
  Proof.
    intros HI Hg. rewrite <- (Gr s a HI g Hg).
    rewrite (filter_split_length (fun e => negb (is_tomb V (tombs s) e)) g).
    unfold Hnsw.active_of. apply Nat.add_le_mono_l.
    set (T := filter (fun x => negb (negb (is_tomb V (tombs s) x))) g).
    assert (H : (List.length (map fst T) <= List.length (tombs s))%nat).
    { unfold T, is_tomb.
      rewrite (filter_ext _ (fun e => (fun i => memN i (tombs s)) (fst e)))
        by (intros e; apply negb_involutive).
      rewrite (filter_fst_ids (fun i => memN i (tombs s))).
      apply NoDup_incl_length; [apply NoDup_filter, (Gn s a HI g Hg)|].
      intros i Hi. apply filter_In in Hi. apply memN_In. tauto. }
    rewrite map_length in H. exact H.
  Qed.

  Theorem search_valid s a q k ef :
    Inv s a ->
    let m := c_metric (cfg s) in
    let pq := prepare V normalize (cfg s) q in
    let r := search s q k ef in
    (List.length r <= N.to_nat k)%nat /\
    NoDup (map fst r) /\
    StronglySorted (leP _ dle2) r /\
    forall id d, In (id, d) r ->
      exists v, live_lookup s id = Some v /\ In (id, v) (live_entries s) /\ d = dist_of m pq v.
  Proof.
    intros HI m pq r. unfold r, Hnsw.search. destruct (graph s) as [g|] eqn:Hg.
    2:{ repeat split; [cbn; lia | constructor | constructor | intros ? ? []]. }
    fold pq. fold m.
    set (efs := match ef with Some e => e | None => c_efs (cfg s) end).
    set (nt := N.of_nat (List.length (tombs s))).
    set (cand := candidates (map snd g) pq (search_k m k efs nt) (efs + nt)).
    destruct (candidates_wf (map snd g) pq (search_k m k efs nt) (efs + nt)) as [Cnd Cwf]. fold cand in Cnd, Cwf.
    change (flat_map (map_neighbour s pq g) cand) with (res s g pq cand).
    repeat split.
    - apply firstn_le_length.
    - rewrite <- firstn_map. apply NoDup_firstn.
      apply (Permutation_NoDup (l := map fst (res s g pq cand))).
      + apply Permutation_map, Permutation_sym, sort_by_perm.
      + apply (res_NoDup s a HI g Hg pq cand Cnd Cwf).
    - apply sorted_firstn, sort_by_sorted; [apply dle2_total | apply dle2_trans].
    - intros id d H. apply In_firstn in H. apply (Permutation_in _ (sort_by_perm _ _ _)) in H.
      apply (res_live s a HI g Hg pq cand Cwf id d H).
  Qed.

  Theorem search_exact s a q k ef :
    Inv s a ->
    let m := c_metric (cfg s) in
    let pq := prepare V normalize (cfg s) q in
    let efs := match ef with Some e => e | None => c_efs (cfg s) end in
    let r := search s q k ef in
    N.of_nat (List.length (live_entries s)) <= efs ->
    List.length r = Nat.min (N.to_nat k) (List.length (live_entries s)) /\
    forall id d id' v', In (id, d) r -> In (id', v') (live_entries s) -> ~ In id' (map fst r) ->
      dle d (dist_of m pq v') = true.
  Proof.
    intros HI m pq efs r Hsmall. unfold r, Hnsw.search. destruct (graph s) as [g|] eqn:Hg.
    2:{ assert (E : live_entries s = []).
        { destruct HI as [_ [G _]]. unfold Hnsw.reachable in G. rewrite Hg in G. symmetry. exact G. }
        rewrite E. split; [rewrite Nat.min_0_r; reflexivity | intros ? ? ? ? []]. }
    fold pq. fold m. fold efs.
    set (nt := N.of_nat (List.length (tombs s))).
    set (sk := search_k m k efs nt).
    pose proof (graph_size s a g HI Hg) as Hsize.
    assert (Hfit : (N.of_nat (List.length (map snd g)) <=? efs + nt) = true).
    { apply N.leb_le. rewrite map_length. unfold nt. unfold Hnsw.entry in *. lia. }
    unfold Hnsw.candidates. rewrite Hfit.
    set (cand := scan (map snd g) pq sk).
    destruct (scan_wf (map snd g) pq sk) as [Cnd Cwf]. fold cand in Cnd, Cwf.
    change (flat_map (map_neighbour s pq g) cand) with (res s g pq cand).
    set (RES := res s g pq cand).
    set (SRT := sort_by (fun a0 b : N * D => dle (snd a0) (snd b)) RES).
    assert (Hperm : Permutation SRT RES) by apply sort_by_perm.
    assert (Hsorted : StronglySorted (leP _ dle2) SRT)
      by (apply sort_by_sorted; [apply dle2_total | apply dle2_trans]).
    assert (Hclen : List.length cand = Nat.min (N.to_nat sk) (List.length g)).
    { unfold cand. rewrite scan_length, map_length. reflexivity. }
    assert (Hrange : forall i, In i (map fst cand) -> (i < List.length g)%nat).
    { intros i Hi. apply nth_error_Some. apply (cand_in_range g pq cand Cwf i Hi). }
    assert (Hfull : (List.length g <= N.to_nat sk)%nat -> forall j, (j < List.length g)%nat -> In j (map fst cand)).
    { intros Hle. apply full_range; [exact Cnd | exact Hrange|]. rewrite map_length, Hclen. lia. }
    assert (Hsk : (N.to_nat k + List.length (tombs s) <= N.to_nat sk)%nat).
    { unfold sk, Hnsw.search_k, nt. destruct (is_manhattan m); lia. }
    pose proof (res_le_live s a HI g Hg pq cand Cnd Cwf) as Hle. fold RES in Hle.
    split.
    - rewrite firstn_length, (Permutation_length Hperm).
      destruct (le_lt_dec (List.length g) (N.to_nat sk)) as [Hbig|Hsmallk].
      + (* every node is a candidate: every live entry is a result *)
        assert (Hge : (List.length (live_entries s) <= List.length RES)%nat).
        { assert (H : (List.length (map fst (live_entries s)) <= List.length (map fst RES))%nat).
          { apply NoDup_incl_length; [apply (live_ids_NoDup s a HI)|].
            intros id Hid. apply in_map_iff in Hid. destruct Hid as [[id' v] [E Hin]]. cbn [fst] in E. subst id'.
            apply (in_map fst) with (x := (id, dist_of m pq v)).
            apply (res_all_live s a HI g Hg pq cand Cwf (Hfull Hbig) id v Hin). }
          rewrite !map_length in H. exact H. }
        lia.
      + pose proof (res_count s a HI g Hg pq cand Cnd Cwf) as Hcnt. fold RES in Hcnt. lia.
    - intros id d id' v' Hin Hlive Hnot.
      destruct (node_of_live s a HI g Hg id' v' Hlive) as [j [Hj Ht]].
      assert (Hjlt : (j < List.length g)%nat) by (apply (proj1 (nth_error_Some g j)); unfold Hnsw.entry in *; congruence).
      assert (HinRES : In (id, d) RES) by (apply (Permutation_in _ Hperm), (In_firstn _ _ _ Hin)).
      destruct (in_dec Nat.eq_dec j (map fst cand)) as [Hjc|Hjc].
      + assert (H' : In (id', dist_of m pq v') SRT).
        { apply (Permutation_in _ (Permutation_sym Hperm)).
          apply (res_In s a HI g Hg pq cand Cwf). exists j, v'. repeat split; assumption. }
        destruct (In_first_or_skip (N.to_nat k) _ _ H') as [H|H].
        * exfalso. apply Hnot. apply (in_map fst) in H. exact H.
        * apply (firstn_sorted_le _ dle2 (N.to_nat k) SRT (id, d) (id', dist_of m pq v') Hsorted Hin H).
      + apply (res_In s a HI g Hg pq cand Cwf) in HinRES.
        destruct HinRES as [i [v0 [Hi [Ei [_ ->]]]]].
        apply in_map_iff in Hi. destruct Hi as [[i' r0] [E Hc]]. cbn [fst] in E. subst i'.
        destruct (Cwf i r0 Hc) as [v [Hv ->]].
        rewrite (map_nth_error snd _ _ Ei) in Hv. inversion Hv; subst v. clear Hv.
        assert (Hnear : rle (l2 pq v0) (l2 pq v') = true).
        { apply (scan_nearest (map snd g) pq sk i (l2 pq v0) j v' Hc); [|exact Hjc].
          apply (map_nth_error snd _ _ Hj). }
        unfold dist_of. change (c_metric (cfg s)) with m. destruct (is_manhattan m) eqn:Em.
        * exfalso. apply Hjc. apply Hfull; [|exact Hjlt].
          unfold sk, Hnsw.search_k, nt. rewrite Em. unfold Hnsw.entry in *. lia.
        * apply transform_mono. exact Hnear.
  Qed.
End SearchProofs.
