(* Proofs/SyntaxScan.v — the splitters of the parser (split_args, split_body, find_op, split_arrow,
   has_eqeq) skip over texts that are "closed" for them.  Each splitter gets an abstract run function
   that fails exactly where the splitter would do something to the text. *)
From IL Require Import Model.Syntax Model.SyntaxWf Proofs.SyntaxBase Proofs.SyntaxArith Proofs.SyntaxArith2.
Open Scope N_scope.

Lemma pred_sub n : N.pred n = n - 1.
Proof. lia. Qed.
(* evaluate comparisons between literal characters *)
Ltac ceq :=
  repeat match goal with
  | |- context [(?a =? ?b)] =>
      let v := eval vm_compute in (a =? b) in
      match v with
      | true => change (a =? b) with true
      | false => change (a =? b) with false
      end
  end; cbv iota; cbn [andb orb negb].

(* ------------------------------------------------------------------ split_args *)
Fixpoint sa_run (s : str) (ad pd bd : N) : option (N * N * N) :=
  match s with
  | [] => Some (ad, pd, bd)
  | c :: t =>
      if c =? 60 then sa_run t (ad + 1) pd bd
      else if c =? 62 then (if ad =? 0 then None else sa_run t (ad - 1) pd bd)
      else if c =? 40 then sa_run t ad (pd + 1) bd
      else if c =? 41 then (if pd =? 0 then None else sa_run t ad (pd - 1) bd)
      else if c =? 91 then sa_run t ad pd (bd + 1)
      else if c =? 93 then (if bd =? 0 then None else sa_run t ad pd (bd - 1))
      else if (c =? 44) && (ad =? 0) && (pd =? 0) && (bd =? 0) then None
      else sa_run t ad pd bd
  end.
(* closed: no top-level comma, every counter returns to where it started, never clamps *)
Definition sa_closed (T : str) : Prop := forall ad pd bd, sa_run T ad pd bd = Some (ad, pd, bd).
(* balanced: the same when at least one counter is positive (commas are then harmless) *)
Definition sa_bal (T : str) : Prop :=
  forall ad pd bd, 0 < ad + pd + bd -> sa_run T ad pd bd = Some (ad, pd, bd).

Lemma sa_run_app a b : forall ad pd bd,
  sa_run (a ++ b) ad pd bd =
  match sa_run a ad pd bd with Some (x, y, z) => sa_run b x y z | None => None end.
Proof.
  induction a as [|c a IH]; intros ad pd bd; cbn [app sa_run]. reflexivity.
  destruct (c =? 60); auto. destruct (c =? 62). destruct (ad =? 0); auto.
  destruct (c =? 40); auto. destruct (c =? 41). destruct (pd =? 0); auto.
  destruct (c =? 91); auto. destruct (c =? 93). destruct (bd =? 0); auto.
  destruct ((c =? 44) && (ad =? 0) && (pd =? 0) && (bd =? 0)); auto.
Qed.

Lemma split_args_run T : forall rest cur ad pd bd ad' pd' bd',
  sa_run T ad pd bd = Some (ad', pd', bd') ->
  split_args (T ++ rest) cur ad pd bd = split_args rest (rev T ++ cur) ad' pd' bd'.
Proof.
  induction T as [|c T IH]; intros rest cur ad pd bd ad' pd' bd' R.
  - cbn in *. inversion R; subst. reflexivity.
  - cbn [sa_run] in R. cbn [app split_args rev]. rewrite <- app_assoc. cbn [app].
    destruct (c =? 60). { apply IH; auto. }
    destruct (c =? 62). { destruct (ad =? 0); try discriminate. rewrite pred_sub. apply IH; auto. }
    destruct (c =? 40). { apply IH; auto. }
    destruct (c =? 41). { destruct (pd =? 0); try discriminate. rewrite pred_sub. apply IH; auto. }
    destruct (c =? 91). { apply IH; auto. }
    destruct (c =? 93). { destruct (bd =? 0); try discriminate. rewrite pred_sub. apply IH; auto. }
    destruct ((c =? 44) && (ad =? 0) && (pd =? 0) && (bd =? 0)); try discriminate.
    apply IH; auto.
Qed.

Definition sa_plain (c : N) : bool :=
  negb ((c =? 60) || (c =? 62) || (c =? 40) || (c =? 41) || (c =? 91) || (c =? 93) || (c =? 44)).
Lemma sa_closed_plain T : forallb sa_plain T = true -> sa_closed T.
Proof.
  induction T as [|c T IH]; intros H ad pd bd. reflexivity.
  cbn [forallb] in H. apply andb_true_iff in H as [H1 H2]. unfold sa_plain in H1.
  apply negb_true_iff in H1. repeat (apply orb_false_iff in H1 as [H1 ?]).
  cbn [sa_run]. rewrite H1, H4, H3, H0, H5, H6, H. cbn [andb]. apply IH; auto.
Qed.
Lemma sa_closed_bal T : sa_closed T -> sa_bal T.
Proof. intros C ad pd bd _. apply C. Qed.
Lemma sa_closed_app a b : sa_closed a -> sa_closed b -> sa_closed (a ++ b).
Proof. intros A B ad pd bd. rewrite sa_run_app, A. apply B. Qed.
Lemma sa_bal_app a b : sa_bal a -> sa_bal b -> sa_bal (a ++ b).
Proof. intros A B ad pd bd P. rewrite sa_run_app, A by auto. apply B; auto. Qed.
Lemma sa_bal_sep : sa_bal [44; 32].
Proof.
  intros ad pd bd P. cbn [sa_run]. ceq.
  destruct (ad =? 0) eqn:A; destruct (pd =? 0) eqn:B; destruct (bd =? 0) eqn:C; cbn; auto.
  apply N.eqb_eq in A, B, C. lia.
Qed.
Lemma sa_bal_join l : Forall sa_bal l -> sa_bal (join_cs l).
Proof.
  induction 1 as [|x l Hx Hl IH]. { intros ad pd bd _. reflexivity. }
  unfold join_cs in *. cbn [join]. destruct l as [|y l]; auto.
  apply sa_bal_app; auto. apply sa_bal_app; auto. apply sa_bal_sep.
Qed.
Lemma sa_closed_wrap_paren T : sa_bal T -> sa_closed (40 :: T ++ [41]).
Proof.
  intros B ad pd bd. cbn [sa_run]. ceq. rewrite sa_run_app, B by lia. cbn [sa_run]. ceq.
  assert (Q : (pd + 1 =? 0) = false) by (apply N.eqb_neq; lia). rewrite Q.
  replace (pd + 1 - 1) with pd by lia. reflexivity.
Qed.
Lemma sa_closed_wrap_angle T : sa_bal T -> sa_closed (60 :: T ++ [62]).
Proof.
  intros B ad pd bd. cbn [sa_run]. ceq. rewrite sa_run_app, B by lia. cbn [sa_run]. ceq.
  assert (Q : (ad + 1 =? 0) = false) by (apply N.eqb_neq; lia). rewrite Q.
  replace (ad + 1 - 1) with ad by lia. reflexivity.
Qed.
Lemma sa_closed_wrap_bracket T : sa_bal T -> sa_closed (91 :: T ++ [93]).
Proof.
  intros B ad pd bd. cbn [sa_run]. ceq. rewrite sa_run_app, B by lia. cbn [sa_run]. ceq.
  assert (Q : (bd + 1 =? 0) = false) by (apply N.eqb_neq; lia). rewrite Q.
  replace (bd + 1 - 1) with bd by lia. reflexivity.
Qed.

(* splitting a ", "-joined list of closed non-empty texts gives the pieces back (with the space) *)
Lemma split_args_join l : forall cur, l <> [] -> Forall (fun x => sa_closed x /\ x <> []) l ->
  split_args (join_cs l) cur 0 0 0 =
  match l with x :: t => (rev cur ++ x) :: List.map (cons 32) t | [] => [] end.
Proof.
  induction l as [|x l IH]; intros cur NE F. congruence.
  inversion F as [|? ? [Cx Nx] Fl]; subst. unfold join_cs in *. cbn [join].
  destruct l as [|y l].
  - rewrite <- (app_nil_r x) at 1. rewrite (split_args_run x [] cur 0 0 0 0 0 0 (Cx 0 0 0)).
    cbn [split_args]. destruct (rev x ++ cur) eqn:R.
    + apply app_eq_nil in R as [R _]. apply (f_equal (@rev N)) in R. rewrite rev_involutive in R.
      cbn in R. contradiction.
    + rewrite <- R, rev_app_distr, rev_involutive. reflexivity.
  - rewrite (split_args_run x _ cur 0 0 0 0 0 0 (Cx 0 0 0)).
    cbn [app split_args]. ceq.
    rewrite rev_app_distr, rev_involutive. f_equal.
    cbn [split_args]. ceq.
    rewrite (IH [32]) by (auto; discriminate). reflexivity.
Qed.

(* ------------------------------------------------------------------ split_body *)
Definition hd0 (s : str) : N := match s with c :: _ => c | [] => 0 end.
Section WithEnv.
Variable E : env.

Fixpoint sb_run (s : str) (prev pd ad : N) : option (N * N) :=
  match s with
  | [] => Some (pd, ad)
  | c :: t =>
      if c =? 40 then sb_run t c (pd + 1) ad
      else if c =? 41 then (if pd =? 0 then None else sb_run t c (pd - 1) ad)
      else if c =? 60 then sb_run t c pd (if is_word E prev then ad + 1 else ad)
      else if c =? 62 then sb_run t c pd (N.pred ad)
      else if (c =? 44) && (pd =? 0) && (ad =? 0) then None
      else sb_run t c pd ad
  end.
(* closed from parenthesis depth lo upwards, whatever precedes *)
Definition sb_bal (lo : N) (T : str) : Prop :=
  forall prev pd ad, lo <= pd -> sb_run T prev pd ad = Some (pd, ad).

Lemma is_word_0 : is_word E 0 = false.
Proof. reflexivity. Qed.

Lemma split_body_run T : forall rest cur pd ad pd' ad',
  sb_run T (hd0 cur) pd ad = Some (pd', ad') ->
  split_body E (T ++ rest) cur pd ad = split_body E rest (rev T ++ cur) pd' ad'.
Proof.
  induction T as [|c T IH]; intros rest cur pd ad pd' ad' R.
  - cbn in *. inversion R; subst. reflexivity.
  - cbn [sb_run] in R. cbn [app split_body rev]. rewrite <- app_assoc. cbn [app].
    destruct (c =? 40). { apply IH; auto. }
    destruct (c =? 41). { destruct (pd =? 0); try discriminate. rewrite pred_sub. apply IH; auto. }
    destruct (c =? 60).
    { apply IH. cbn [hd0]. destruct cur as [|p cur']; cbn [hd0] in R.
      - rewrite is_word_0 in R. exact R.
      - exact R. }
    destruct (c =? 62). { apply IH; auto. }
    destruct ((c =? 44) && (pd =? 0) && (ad =? 0)); try discriminate.
    apply IH; auto.
Qed.

Lemma sb_run_app a b : forall prev pd ad,
  sb_run (a ++ b) prev pd ad =
  match sb_run a prev pd ad with Some (x, y) => sb_run b (lastd prev a) x y | None => None end.
Proof.
  induction a as [|c a IH]; intros prev pd ad; cbn [app sb_run]. reflexivity.
  rewrite lastd_cons.
  destruct (c =? 40); auto. destruct (c =? 41). destruct (pd =? 0); auto.
  destruct (c =? 60); auto. destruct (c =? 62); auto.
  destruct ((c =? 44) && (pd =? 0) && (ad =? 0)); auto.
Qed.
Lemma sb_bal_app lo a b : sb_bal lo a -> sb_bal lo b -> sb_bal lo (a ++ b).
Proof. intros A B prev pd ad L. rewrite sb_run_app, A by auto. apply B; auto. Qed.
Lemma sb_bal_mono lo lo' T : lo <= lo' -> sb_bal lo T -> sb_bal lo' T.
Proof. intros L B prev pd ad P. apply B. lia. Qed.

Definition sb_plain (c : N) : bool :=
  negb ((c =? 40) || (c =? 41) || (c =? 60) || (c =? 62) || (c =? 44)).
Lemma sb_bal_plain T : forallb sb_plain T = true -> sb_bal 0 T.
Proof.
  induction T as [|c T IH]; intros H prev pd ad L. reflexivity.
  cbn [forallb] in H. apply andb_true_iff in H as [H1 H2]. unfold sb_plain in H1.
  apply negb_true_iff in H1. repeat (apply orb_false_iff in H1 as [H1 ?]).
  cbn [sb_run]. rewrite H1, H3, H0, H4, H. cbn [andb]. apply IH; auto.
Qed.
(* commas are harmless below parenthesis depth 1 *)
Lemma sb_bal1_sep : sb_bal 1 [44; 32].
Proof.
  intros prev pd ad L. cbn [sb_run]. ceq.
  assert (Q : (pd =? 0) = false) by (apply N.eqb_neq; lia). rewrite Q. reflexivity.
Qed.
Lemma sb_bal1_join l : Forall (sb_bal 1) l -> sb_bal 1 (join_cs l).
Proof.
  induction 1 as [|x l Hx Hl IH]. { intros prev pd ad _. reflexivity. }
  unfold join_cs in *. cbn [join]. destruct l as [|y l]; auto.
  apply sb_bal_app; auto. apply sb_bal_app; auto. apply sb_bal1_sep.
Qed.
Lemma sb_bal_wrap_paren T : sb_bal 1 T -> sb_bal 0 (40 :: T ++ [41]).
Proof.
  intros B prev pd ad _. cbn [sb_run]. ceq. rewrite sb_run_app, B by lia. cbn [sb_run]. ceq.
  assert (Q : (pd + 1 =? 0) = false) by (apply N.eqb_neq; lia). rewrite Q.
  replace (pd + 1 - 1) with pd by lia. reflexivity.
Qed.
(* texts with parentheses only: the run is the parenthesis balance *)
Lemma sb_run_fb T : forall prev pd ad d',
  forallb (fun c => negb ((c =? 60) || (c =? 62) || (c =? 44))) T = true ->
  fb 0 T pd = Some d' -> sb_run T prev pd ad = Some (d', ad).
Proof.
  induction T as [|c T IH]; intros prev pd ad d' H F.
  - cbn in *. inversion F; subst. reflexivity.
  - cbn [forallb] in H. apply andb_true_iff in H as [H1 H2].
    apply negb_true_iff in H1. repeat (apply orb_false_iff in H1 as [H1 ?]).
    cbn [fb] in F. cbn [sb_run].
    destruct (c =? 40). { apply IH; auto. }
    destruct (c =? 41).
    { destruct (pd <=? 0) eqn:L; try discriminate. apply N.leb_gt in L.
      assert (Q : (pd =? 0) = false) by (apply N.eqb_neq; lia). rewrite Q. apply IH; auto. }
    rewrite H1, H0, H. cbn [andb]. apply IH; auto.
Qed.

End WithEnv.

(* ------------------------------------------------------------------ find_op *)
Definition opstart (c : N) : bool := (c =? 60) || (c =? 61) || (c =? 62) || (c =? 33).
Fixpoint fo_run (s : str) (d : N) : option N :=
  match s with
  | [] => Some d
  | c :: t => if c =? 40 then fo_run t (d + 1)
              else if c =? 41 then (if d =? 0 then None else fo_run t (d - 1))
              else if (d =? 0) && opstart c then None else fo_run t d
  end.
Definition fo_bal (lo : N) (T : str) : Prop := forall d, lo <= d -> fo_run T d = Some d.

Lemma opstart_ne o c : opstart o = true -> opstart c = false -> (o =? c) = false.
Proof.
  intros A B. apply N.eqb_neq. intros ->. congruence.
Qed.
Lemma find_op_run op0 op T : forall rest pre d d',
  opstart op0 = true -> fo_run T d = Some d' ->
  find_op (op0 :: op) (T ++ rest) pre d = find_op (op0 :: op) rest (rev T ++ pre) d'.
Proof.
  induction T as [|c T IH]; intros rest pre d d' O R.
  - cbn in *. inversion R; subst. reflexivity.
  - cbn [fo_run] in R. cbn [app find_op rev]. rewrite <- app_assoc. cbn [app].
    destruct (c =? 40) eqn:A.
    { assert (Q : (d + 1 =? 0) = false) by (apply N.eqb_neq; lia). rewrite Q. cbn [andb].
      apply IH; auto. }
    destruct (c =? 41) eqn:B.
    { destruct (d =? 0) eqn:D; try discriminate. rewrite pred_sub.
      cbn [starts_with]. apply N.eqb_eq in B. subst c.
      assert (Q : (op0 =? 41) = false) by (apply opstart_ne; auto).
      rewrite Q. cbn [andb]. rewrite andb_false_r. apply IH; auto. }
    destruct (d =? 0) eqn:D; cbn [andb] in *.
    + destruct (opstart c) eqn:OC; try discriminate. cbn [starts_with].
      rewrite (opstart_ne op0 c O OC). cbn [andb]. apply IH; auto.
    + apply IH; auto.
Qed.
Lemma fo_run_app a b d :
  fo_run (a ++ b) d = match fo_run a d with Some d' => fo_run b d' | None => None end.
Proof.
  revert d; induction a as [|c a IH]; intros d; cbn [app fo_run]. reflexivity.
  destruct (c =? 40); auto. destruct (c =? 41). destruct (d =? 0); auto.
  destruct ((d =? 0) && opstart c); auto.
Qed.
Lemma fo_bal_app lo a b : fo_bal lo a -> fo_bal lo b -> fo_bal lo (a ++ b).
Proof. intros A B d L. rewrite fo_run_app, A by auto. apply B; auto. Qed.
(* below depth 1 only the parenthesis balance matters *)
Lemma fo_of_fb T : forall d d', 1 <= d -> fb 1 T d = Some d' -> fo_run T d = Some d' /\ 1 <= d'.
Proof.
  induction T as [|c T IH]; intros d d' L F.
  - cbn in *. inversion F; subst. auto.
  - cbn [fb] in F. cbn [fo_run].
    destruct (c =? 40). { apply IH; auto. lia. }
    destruct (c =? 41).
    { destruct (d <=? 1) eqn:Q; try discriminate. apply N.leb_gt in Q.
      assert (Z : (d =? 0) = false) by (apply N.eqb_neq; lia). rewrite Z. apply IH; auto. lia. }
    assert (Z : (d =? 0) = false) by (apply N.eqb_neq; lia). rewrite Z. cbn [andb]. apply IH; auto.
Qed.
Lemma fo_bal1_of_fb T : (forall lo d, lo <= d -> fb lo T d = Some d) -> fo_bal 1 T.
Proof. intros F d L. apply (fo_of_fb T d d L). apply F. exact L. Qed.
(* texts without operator-start characters: the parenthesis balance at every depth *)
Lemma fo_run_fb T : forallb (fun c => negb (opstart c)) T = true ->
  forall d d', fb 0 T d = Some d' -> fo_run T d = Some d'.
Proof.
  induction T as [|c T IH]; intros H d d' F.
  - cbn in *. exact F.
  - cbn [forallb] in H. apply andb_true_iff in H as [H1 H2]. apply negb_true_iff in H1.
    cbn [fb] in F. cbn [fo_run].
    destruct (c =? 40). { apply IH; auto. }
    destruct (c =? 41).
    { destruct (d <=? 0) eqn:Q; try discriminate. apply N.leb_gt in Q.
      assert (Z : (d =? 0) = false) by (apply N.eqb_neq; lia). rewrite Z. apply IH; auto. }
    rewrite H1, andb_false_r. apply IH; auto.
Qed.
Lemma fo_bal0_of_fb T : forallb (fun c => negb (opstart c)) T = true ->
  (forall lo d, lo <= d -> fb lo T d = Some d) -> fo_bal 0 T.
Proof. intros H F d _. apply fo_run_fb; auto. apply F. lia. Qed.
Lemma fo_bal_wrap_paren T : fo_bal 1 T -> fo_bal 0 (40 :: T ++ [41]).
Proof.
  intros B d _. cbn [fo_run]. ceq.
  rewrite fo_run_app, B by lia. cbn [fo_run]. ceq.
  assert (Q : (d + 1 =? 0) = false) by (apply N.eqb_neq; lia). rewrite Q.
  replace (d + 1 - 1) with d by lia. reflexivity.
Qed.
Lemma fo_bal_mono lo lo' T : lo <= lo' -> fo_bal lo T -> fo_bal lo' T.
Proof. intros L B d P. apply B. lia. Qed.
Lemma find_op_none op0 op T : opstart op0 = true -> fo_bal 0 T -> find_op (op0 :: op) T [] 0 = None.
Proof.
  intros O B. rewrite <- (app_nil_r T).
  rewrite (find_op_run op0 op T [] [] 0 0 O (B 0 (N.le_refl 0))). reflexivity.
Qed.

(* ------------------------------------------------------------------ has_eqeq / arrows *)
Lemma has_eqeq_skip a b : forallb (fun c => negb (c =? 61)) a = true -> has_eqeq (a ++ b) = has_eqeq b.
Proof.
  induction a as [|c a IH]; intros H. reflexivity.
  cbn [forallb] in H. apply andb_true_iff in H as [H1 H2]. apply negb_true_iff in H1.
  cbn [app has_eqeq]. rewrite IH by auto.
  destruct (a ++ b); [|rewrite H1]; reflexivity.
Qed.
Lemma has_eqeq_noeq a : forallb (fun c => negb (c =? 61)) a = true -> has_eqeq a = false.
Proof. intros H. rewrite <- (app_nil_r a). rewrite has_eqeq_skip by auto. reflexivity. Qed.

Definition not_lt_last (T : str) : bool := match rev T with c :: _ => negb (c =? 60) | [] => true end.
Lemma split_arrow_skip T : forall rest cur,
  has_arrow T = false -> not_lt_last T = true ->
  split_arrow (T ++ rest) cur = split_arrow rest (rev T ++ cur).
Proof.
  induction T as [|a T IH]; intros rest cur H L. reflexivity.
  cbn [app split_arrow rev]. rewrite <- app_assoc. cbn [app].
  cbn [has_arrow] in H. apply orb_false_iff in H as [H1 H2].
  destruct T as [|b T].
  - cbn [app]. unfold not_lt_last in L. cbn in L. apply negb_true_iff in L.
    destruct rest as [|b u]. reflexivity. rewrite L. cbn [andb]. reflexivity.
  - cbn [app]. rewrite H1. rewrite <- (IH rest (a :: cur)); auto.
    unfold not_lt_last in *. cbn [rev] in *. destruct (rev T ++ [b]) eqn:R.
    + destruct (rev T); discriminate.
    + cbn [app] in L. exact L.
Qed.
Lemma has_arrow_app a b : has_arrow a = false -> has_arrow b = false -> not_lt_last a = true ->
  has_arrow (a ++ b) = false.
Proof.
  induction a as [|x a IH]; intros A B L. exact B.
  cbn [has_arrow] in A. apply orb_false_iff in A as [A1 A2].
  cbn [app has_arrow]. destruct a as [|y a].
  - cbn [app]. unfold not_lt_last in L. cbn in L. apply negb_true_iff in L.
    destruct b; auto. rewrite L. cbn [andb orb]. exact B.
  - cbn [app]. rewrite A1. cbn [orb]. apply IH; auto.
    unfold not_lt_last in *. cbn [rev] in *. destruct (rev a ++ [y]) eqn:R.
    + destruct (rev a); discriminate.
    + cbn [app] in L. exact L.
Qed.
Lemma not_lt_last_app a b : b <> [] -> not_lt_last (a ++ b) = not_lt_last b.
Proof.
  intros NE. unfold not_lt_last. rewrite rev_app_distr. destruct (rev b) eqn:R; auto.
  apply (f_equal (@rev N)) in R. rewrite rev_involutive in R. contradiction.
Qed.
Lemma has_arrow_nolt a : forallb (fun c => negb (c =? 60)) a = true -> has_arrow a = false.
Proof.
  induction a as [|c a IH]; intros H. reflexivity.
  cbn [forallb] in H. apply andb_true_iff in H as [H1 H2]. apply negb_true_iff in H1.
  cbn [has_arrow]. rewrite IH by auto. destruct a; [|rewrite H1]; reflexivity.
Qed.
