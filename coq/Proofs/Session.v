(* Lemmas for C10 (Model/Session.v): frame lemma per handler step and the simulation between a
   schedule and its restriction to what a set of sessions may depend on. *)
From IL Require Import Model.Value Model.Mat Model.Session Proofs.Mat.
Open Scope N_scope.

Lemma sess_of_set_eq st s x : sess_of (set_sess st s x) s = x.
Proof. unfold sess_of, set_sess. cbn [sessions]. rewrite lookup_upd_eq. reflexivity. Qed.

Lemma sess_of_set_neq st s s' x : s <> s' -> sess_of (set_sess st s x) s' = sess_of st s'.
Proof. intros H. unfold sess_of, set_sess. cbn [sessions]. rewrite lookup_upd_neq by exact H. reflexivity. Qed.

Lemma kg_of_ext a b k : kgs a = kgs b -> kg_of a k = kg_of b k.
Proof. intros H. unfold kg_of. rewrite H. reflexivity. Qed.

Lemma eval_with_ext a b se r : kgs a = kgs b -> eval_with a se r = eval_with b se r.
Proof. intros H. unfold eval_with. rewrite (kg_of_ext a b _ H). reflexivity. Qed.

Lemma set_kg_ext a b k g : kgs a = kgs b -> kgs (set_kg a k g) = kgs (set_kg b k g).
Proof. intros H. unfold set_kg. cbn [kgs]. rewrite H. reflexivity. Qed.

Lemma sess_of_set_kg st k g s : sess_of (set_kg st k g) s = sess_of st s.
Proof. reflexivity. Qed.

Lemma answers_cons a o r :
  answers a (o :: r) = (o, snd (hstep a o)) :: answers (fst (hstep a o)) r.
Proof.
  unfold answers. cbn [htrace]. destruct (hstep a o) as [st1 ans]. cbn [fst snd].
  destruct (htrace st1 r) as [st2 tr]. reflexivity.
Qed.

Lemma hrun_cons a o r : hrun a (o :: r) = hrun (fst (hstep a o)) r.
Proof.
  unfold hrun. cbn [htrace]. destruct (hstep a o) as [st1 ans]. cbn [fst].
  destruct (htrace st1 r) as [st2 tr]. reflexivity.
Qed.

(* ------------------------------------------------------------------ the simulation *)
Section View.
  Variable ks : sid -> bool.          (* the sessions whose view is kept *)

  Definition keep (o : hop) : bool := match owner o with None => true | Some s => ks s end.

  Definition agreeK (a b : hst) : Prop :=
    kgs a = kgs b /\ forall s, ks s = true -> sess_of a s = sess_of b s.

  Lemma agree_set a b s x :
    agreeK a b -> agreeK (set_sess a s x) (set_sess b s x).
  Proof.
    intros (Hg & Hk). split; [exact Hg|].
    intros s' K. destruct (N.eq_dec s s') as [<-|Hne].
    - now rewrite !sess_of_set_eq.
    - rewrite !sess_of_set_neq by exact Hne. now apply Hk.
  Qed.

  Lemma agree_set_left a b s x :
    ks s = false -> agreeK a b -> agreeK (set_sess a s x) b.
  Proof.
    intros K (Hg & Hk). split; [exact Hg|].
    intros s' K'. rewrite sess_of_set_neq; [now apply Hk|]. intros ->. congruence.
  Qed.

  Lemma agree_set_kg a b k g :
    agreeK a b -> agreeK (set_kg a k g) (set_kg b k g).
  Proof.
    intros (Hg & Hk). split; [now apply set_kg_ext|].
    intros s K. rewrite !sess_of_set_kg. now apply Hk.
  Qed.

  (* a kept step: same answer, still in agreement *)
  Lemma kept_step a b o :
    agreeK a b -> keep o = true ->
    agreeK (fst (hstep a o)) (fst (hstep b o)) /\ snd (hstep a o) = snd (hstep b o).
  Proof.
    intros A K. pose proof A as (Hg & Hk).
    destruct o; cbn [keep owner] in K; cbn [hstep];
      try rewrite (kg_of_ext a b k Hg); try rewrite (Hk s K).
    - destruct (is_head (pcat (kg_of b k)) r || negb (schema_ok (kg_of b k) r ts)); cbn [fst snd]; split; auto.
      now apply agree_set_kg.
    - cbn [fst snd]. split; auto. now apply agree_set_kg.
    - destruct acc; cbn [fst snd]; split; auto. now apply agree_set_kg.
    - cbn [fst snd]. split; auto. now apply agree_set_kg.
    - cbn [fst snd]. split; auto. unfold eval_pers. now rewrite (kg_of_ext a b k Hg).
    - cbn [fst snd]. split; auto. now apply agree_set.
    - cbn [fst snd]. split; auto. now apply agree_set.
    - destruct acc; cbn [fst snd]; split; auto. now apply agree_set.
    - cbn [fst snd]. split; auto. now apply agree_set.
    - cbn [fst snd]. split; auto. now apply agree_set.
    - destruct (Nat.ltb i (length (srules (sess_of b s)))); cbn [fst snd]; split; auto. now apply agree_set.
    - cbn [fst snd]. split; auto. now apply agree_set.
    - cbn [fst snd]. split; auto. now rewrite (eval_with_ext a b _ r Hg).
    - cbn [fst snd]. split; auto. now rewrite (eval_with_ext a b _ r Hg).
    - rewrite (kg_of_ext a b _ Hg). cbn [fst snd]. split; auto. now apply agree_set_kg.
  Qed.

  (* a step of a session outside the kept set, not a schema declaration: invisible *)
  Lemma erased_step a b o :
    agreeK a b -> keep o = false -> is_schema o = false -> agreeK (fst (hstep a o)) b.
  Proof.
    intros A K NS. destruct o; cbn [keep owner] in K; try discriminate; cbn [hstep].
    - cbn [fst]. now apply agree_set_left.
    - cbn [fst]. now apply agree_set_left.
    - destruct acc; cbn [fst]; auto. now apply agree_set_left.
    - cbn [fst]. now apply agree_set_left.
    - cbn [fst]. now apply agree_set_left.
    - destruct (Nat.ltb i (length (srules (sess_of a s)))); cbn [fst]; auto. now apply agree_set_left.
    - cbn [fst]. now apply agree_set_left.
    - exact A.
    - exact A.
  Qed.

  Theorem view_sim h : forall a b,
    forallb (fun o => keep o || negb (is_schema o)) h = true ->
    agreeK a b ->
    filter (fun e => keep (fst e)) (answers a h) = answers b (filter keep h) /\
    agreeK (hrun a h) (hrun b (filter keep h)).
  Proof.
    induction h as [|o r IH]; intros a b NS A.
    - split; [reflexivity|exact A].
    - cbn [forallb] in NS. apply andb_true_iff in NS. destruct NS as [NSo NS].
      rewrite answers_cons, hrun_cons. cbn [filter fst].
      destruct (keep o) eqn:K.
      + destruct (kept_step a b o A K) as [A' E].
        rewrite answers_cons, hrun_cons, E.
        destruct (IH _ _ NS A') as [IH1 IH2]. split; [now rewrite IH1|exact IH2].
      + cbn [orb] in NSo. apply negb_true_iff in NSo.
        exact (IH _ _ NS (erased_step a b o A K NSo)).
  Qed.
End View.

Lemma agreeK_refl ks a : agreeK ks a a.
Proof. split; auto. Qed.

Lemma no_schema_forall ks h :
  no_session_schema h = true -> forallb (fun o => keep ks o || negb (is_schema o)) h = true.
Proof.
  unfold no_session_schema. rewrite !forallb_forall. intros H o Ho. rewrite (H o Ho). apply orb_true_r.
Qed.

(* view of one session *)
Lemma keep_one s o : keep (N.eqb s) o = (is_pers o || owned_by s o).
Proof. unfold keep, is_pers, owned_by. destruct (owner o); reflexivity. Qed.

Lemma filter_ext_bool {A} (f g : A -> bool) l : (forall x, f x = g x) -> filter f l = filter g l.
Proof. intros H. induction l as [|x l IH]; cbn [filter]; auto. rewrite H, IH. reflexivity. Qed.

Theorem session_view s h :
  no_session_schema h = true ->
  filter (fun e => is_pers (fst e) || owned_by s (fst e)) (answers hinit h) = answers hinit (view_of s h) /\
  kgs (hrun hinit h) = kgs (hrun hinit (view_of s h)) /\
  sess_of (hrun hinit h) s = sess_of (hrun hinit (view_of s h)) s.
Proof.
  intros NS.
  destruct (view_sim (N.eqb s) h hinit hinit (no_schema_forall _ h NS) (agreeK_refl _ _)) as [E (Hg & Hk)].
  assert (V : filter (keep (N.eqb s)) h = view_of s h).
  { unfold view_of. apply filter_ext_bool. intros o. apply keep_one. }
  rewrite V in *. split; [|split; [exact Hg|]].
  - rewrite <- E. apply filter_ext_bool. intros e. symmetry. apply keep_one.
  - apply Hk. apply N.eqb_refl.
Qed.

(* persistent view: no session at all *)
Lemma keep_none o : keep (fun _ => false) o = is_pers o.
Proof. unfold keep, is_pers. destruct (owner o); reflexivity. Qed.

Theorem persistent_frame h :
  no_session_schema h = true ->
  pers_answers (answers hinit h) = answers hinit (filter is_pers h) /\
  kgs (hrun hinit h) = kgs (hrun hinit (filter is_pers h)).
Proof.
  intros NS.
  destruct (view_sim (fun _ => false) h hinit hinit (no_schema_forall _ h NS) (agreeK_refl _ _)) as [E (Hg & _)].
  assert (V : filter (keep (fun _ => false)) h = filter is_pers h).
  { apply filter_ext_bool. intros o. apply keep_none. }
  rewrite V in *. split; [|exact Hg].
  rewrite <- E. unfold pers_answers. apply filter_ext_bool. intros e. symmetry. apply keep_none.
Qed.

(* ------------------------------------------------------------------ a session's own state depends on
   its own operations only (also in the presence of schema declarations) *)
Lemma own_state_step s a b o :
  sess_of a s = sess_of b s ->
  (owned_by s o = true -> sess_of (fst (hstep a o)) s = sess_of (fst (hstep b o)) s) /\
  (owned_by s o = false -> sess_of (fst (hstep a o)) s = sess_of b s).
Proof.
  intros E. unfold owned_by.
  destruct o; cbn [owner hstep]; split; intros K; try discriminate;
    try (apply N.eqb_eq in K; subst s0); try rewrite E;
    try (apply N.eqb_neq in K);
    repeat match goal with
           | |- context [if ?c then _ else _] => destruct c
           end;
    cbn [fst]; rewrite ?sess_of_set_kg, ?sess_of_set_eq; try reflexivity; try exact E;
    try (rewrite sess_of_set_neq by congruence; exact E).
Qed.

Theorem own_state s h : forall a b,
  sess_of a s = sess_of b s ->
  sess_of (hrun a h) s = sess_of (hrun b (filter (owned_by s) h)) s.
Proof.
  induction h as [|o r IH]; intros a b E; [exact E|].
  rewrite hrun_cons. cbn [filter]. destruct (own_state_step s a b o E) as [H1 H2].
  destruct (owned_by s o) eqn:K.
  - rewrite hrun_cons. apply IH. now apply H1.
  - apply IH. now apply H2.
Qed.

(* ------------------------------------------------------------------ clear / KG switch reset the
   session: afterwards it behaves like a fresh session bound to that knowledge graph *)
Lemma answers_agree_all own : forall a b,
  forallb (fun x => keep (fun _ => true) x) own = true ->
  agreeK (fun _ => true) a b -> answers a own = answers b own.
Proof.
  induction own as [|o r IH]; intros a b F A; [reflexivity|].
  cbn [forallb] in F. apply andb_true_iff in F. destruct F as [Fo F].
  rewrite !answers_cons. destruct (kept_step _ a b o A Fo) as [A' E]. rewrite E. f_equal. now apply IH.
Qed.

Lemma after_reset_like_fresh st s o own :
  (o = SClear s \/ exists k, o = SKgUse s k) ->
  forallb (fun x => is_pers x || owned_by s x) own = true ->
  answers (fst (hstep st o)) own
  = answers (set_sess st s (mkSess [] [] (skg (sess_of (fst (hstep st o)) s)))) own.
Proof.
  intros Ho _. apply answers_agree_all.
  - apply forallb_forall. intros x _. unfold keep. destruct (owner x); reflexivity.
  - destruct Ho as [->|[k ->]]; cbn [hstep fst]; rewrite sess_of_set_eq; cbn [skg]; apply agreeK_refl.
Qed.

(* ------------------------------------------------------------------ the known finding: a session's
   schema declaration changes what happens to other sessions' persistent inserts *)
Definition w_schema : list hop :=
  [SSchema 1 7 [CInt; CStr]; PInsert 0 7 [[VI64 1; VI64 2]]; SQuery 2 7].

Lemma refuted_schema :
  exists h, c10_known h = 1 /\
    get (pfacts (kg_of (hrun hinit h) 0)) 7 <> get (pfacts (kg_of (hrun hinit (filter is_pers h)) 0)) 7.
Proof. exists w_schema. split; [reflexivity|]. vm_compute. discriminate. Qed.
