(* Proofs/SyntaxArith.v — printed arithmetic expressions parse back to themselves
   (parse_arithmetic_expr / parse_add_sub / parse_mul_div / parse_primary vs Display for ArithExpr) *)
From IL Require Import Model.Syntax Model.SyntaxWf Proofs.SyntaxBase.
Open Scope N_scope.

(* ------------------------------------------------------------------ character classes *)
Definition opc (c : N) : bool :=
  (c =? 43) || (c =? 45) || (c =? 42) || (c =? 47) || (c =? 37) || (c =? 40).
Definition opctx (ctx : str) : bool := match ctx with [] => true | c :: _ => opc c end.
(* leaf characters / all characters of printed arithmetic *)
Definition lc (c : N) : bool := idc c || (c =? 46) || (c =? 45).
Definition ac (c : N) : bool := idc c || (c =? 46) || opc c || (c =? 41).

Ltac bools :=
  repeat match goal with
  | H : _ && _ = true |- _ => apply andb_true_iff in H; destruct H
  | H : _ || _ = true |- _ => apply orb_true_iff in H; destruct H
  | H : _ || _ = false |- _ => apply orb_false_iff in H; destruct H
  | H : negb _ = true |- _ => apply negb_true_iff in H
  | H : negb _ = false |- _ => apply negb_false_iff in H
  end.
Ltac nums :=
  repeat match goal with
  | H : (_ =? _) = true |- _ => apply N.eqb_eq in H
  | H : (_ =? _) = false |- _ => apply N.eqb_neq in H
  | H : (_ <=? _) = true |- _ => apply N.leb_le in H
  | H : (_ <=? _) = false |- _ => apply N.leb_gt in H
  | H : (_ <? _) = true |- _ => apply N.ltb_lt in H
  | H : (_ <? _) = false |- _ => apply N.ltb_ge in H
  end.
(* decide a boolean fact about one character from boolean facts about the same character *)
Ltac charfact :=
  unfold ac, lc, opc, idc, num_char, is_digit, is_aupper, is_alower, is_ws in *;
  repeat match goal with
  | |- _ /\ _ => split
  | |- _ = false => apply not_true_is_false; intro
  end;
  bools; nums;
  repeat match goal with
  | |- _ && _ = true => apply andb_true_iff; split
  | |- negb _ = true => apply negb_true_iff; apply not_true_is_false; intro; bools; nums
  end;
  try lia;
  repeat (rewrite ?orb_true_iff, ?andb_true_iff, ?N.eqb_eq, ?N.leb_le); lia.

Lemma ac_nws c : ac c = true -> is_ws c = false.
Proof. intros H. charfact. Qed.
Lemma lc_ac c : lc c = true -> ac c = true.
Proof. intros H. charfact. Qed.
Lemma num_char_lc c : num_char c = true -> lc c = true.
Proof. intros H. charfact. Qed.
Lemma idc_lc c : idc c = true -> lc c = true.
Proof. intros H. unfold lc. rewrite H. auto. Qed.
Lemma digit_idc c : is_digit c = true -> idc c = true.
Proof. intros H. unfold idc. rewrite H. auto. Qed.
Lemma idc_small c : idc c = true -> c <? 128 = true.
Proof. intros H. apply N.ltb_lt. charfact. Qed.

Lemma forallb_impl {A} (p q : A -> bool) l :
  (forall x, p x = true -> q x = true) -> forallb p l = true -> forallb q l = true.
Proof. intros I. induction l; cbn; auto. intros H. bools. rewrite I, IHl; auto. Qed.

Section WithEnv.
Variable E : env.

Lemma idc_word c : idc c = true -> is_word E c = true.
Proof.
  intros H. unfold is_word, is_alnum. rewrite (idc_small c H). unfold idc in H.
  destruct (is_digit c), (is_aupper c), (is_alower c); cbn in *; auto.
Qed.
Lemma opc_not_binprev c t : opc c = true -> sci (c :: t) = false /\ minus_is_binary E (c :: t) = false.
Proof.
  intros H. unfold opc in H. bools; nums; subst;
    (split; [destruct t; reflexivity | unfold minus_is_binary; destruct t; reflexivity]).
Qed.

(* ------------------------------------------------------------------ skipping characters in the scans *)
Lemma scan_as_skip c before suffix d :
  (c =? 41) = false -> (c =? 40) = false -> (c =? 43) = false -> (c =? 45) = false ->
  scan_addsub E (c :: before) suffix d = scan_addsub E before (c :: suffix) d.
Proof. intros A B C D. cbn [scan_addsub]. rewrite A, B, C, D. reflexivity. Qed.
Lemma scan_as_deep c before suffix d :
  (c =? 41) = false -> (c =? 40) = false -> (d =? 0) = false ->
  scan_addsub E (c :: before) suffix d = scan_addsub E before (c :: suffix) d.
Proof.
  intros A B D. cbn [scan_addsub]. rewrite A, B, D. rewrite !andb_false_r.
  destruct (c =? 45); reflexivity.
Qed.
Lemma scan_md_skip c before suffix d :
  (c =? 41) = false -> (c =? 40) = false -> ((c =? 42) || (c =? 47) || (c =? 37)) = false ->
  scan_muldiv (c :: before) suffix d = scan_muldiv before (c :: suffix) d.
Proof. intros A B C. cbn [scan_muldiv]. rewrite A, B, C. reflexivity. Qed.
Lemma scan_md_deep c before suffix d :
  (c =? 41) = false -> (c =? 40) = false -> (d =? 0) = false ->
  scan_muldiv (c :: before) suffix d = scan_muldiv before (c :: suffix) d.
Proof. intros A B D. cbn [scan_muldiv]. rewrite A, B, D. rewrite andb_false_r. reflexivity. Qed.

(* ------------------------------------------------------------------ parenthesis balance *)
(* right-to-left: ')' opens, '(' closes; fails when a '(' would take the depth to lo or below *)
Fixpoint rb (lo : N) (rv : str) (d : N) : option N :=
  match rv with
  | [] => Some d
  | c :: t => if c =? 41 then rb lo t (d + 1)
              else if c =? 40 then (if d <=? lo then None else rb lo t (d - 1))
              else rb lo t d
  end.
(* left-to-right *)
Fixpoint fb (lo : N) (s : str) (d : N) : option N :=
  match s with
  | [] => Some d
  | c :: t => if c =? 40 then fb lo t (d + 1)
              else if c =? 41 then (if d <=? lo then None else fb lo t (d - 1))
              else fb lo t d
  end.
Lemma rb_app lo a b d : rb lo (a ++ b) d = match rb lo a d with Some d' => rb lo b d' | None => None end.
Proof.
  revert d; induction a; cbn [app rb]; auto. intros d.
  destruct (a =? 41); auto. destruct (a =? 40); auto. destruct (d <=? lo); auto.
Qed.
Lemma fb_app lo a b d : fb lo (a ++ b) d = match fb lo a d with Some d' => fb lo b d' | None => None end.
Proof.
  revert d; induction a; cbn [app fb]; auto. intros d.
  destruct (a =? 40); auto. destruct (a =? 41); auto. destruct (d <=? lo); auto.
Qed.
Lemma rb_noparen lo s d : forallb (fun c => negb ((c =? 40) || (c =? 41))) s = true -> rb lo s d = Some d.
Proof.
  revert d; induction s as [|c s IH]; cbn [rb forallb]; auto. intros d H.
  apply andb_true_iff in H as [H1 H2]. apply negb_true_iff in H1. apply orb_false_iff in H1 as [A B].
  rewrite B, A. auto.
Qed.
Lemma fb_noparen lo s d : forallb (fun c => negb ((c =? 40) || (c =? 41))) s = true -> fb lo s d = Some d.
Proof.
  revert d; induction s as [|c s IH]; cbn [fb forallb]; auto. intros d H.
  apply andb_true_iff in H as [H1 H2]. apply negb_true_iff in H1. apply orb_false_iff in H1 as [A B].
  rewrite A, B. auto.
Qed.

(* scanning a stretch that stays at depth >= 1 never triggers *)
Lemma scan_as_inside rv : forall rest suffix d d',
  1 <= d -> rb 1 rv d = Some d' ->
  scan_addsub E (rv ++ rest) suffix d = scan_addsub E rest (rev rv ++ suffix) d' /\ 1 <= d'.
Proof.
  induction rv as [|c t IH]; intros rest suffix d d' D R.
  - cbn in *. inversion R; subst. auto.
  - cbn [rb] in R. cbn [app rev]. rewrite <- app_assoc. cbn [app].
    destruct (c =? 41) eqn:A.
    + cbn [scan_addsub]. rewrite A. apply IH; auto. lia.
    + destruct (c =? 40) eqn:B.
      * destruct (d <=? 1) eqn:L; try discriminate. apply N.leb_gt in L.
        cbn [scan_addsub]. rewrite A, B. replace (N.pred d) with (d - 1) by lia.
        apply IH; auto. lia.
      * rewrite scan_as_deep; auto. apply N.eqb_neq. lia.
Qed.
Lemma scan_md_inside rv : forall rest suffix d d',
  1 <= d -> rb 1 rv d = Some d' ->
  scan_muldiv (rv ++ rest) suffix d = scan_muldiv rest (rev rv ++ suffix) d' /\ 1 <= d'.
Proof.
  induction rv as [|c t IH]; intros rest suffix d d' D R.
  - cbn in *. inversion R; subst. auto.
  - cbn [rb] in R. cbn [app rev]. rewrite <- app_assoc. cbn [app].
    destruct (c =? 41) eqn:A.
    + cbn [scan_muldiv]. rewrite A. apply IH; auto. lia.
    + destruct (c =? 40) eqn:B.
      * destruct (d <=? 1) eqn:L; try discriminate. apply N.leb_gt in L.
        cbn [scan_muldiv]. rewrite A, B. replace (N.pred d) with (d - 1) by lia.
        apply IH; auto. lia.
      * rewrite scan_md_deep; auto. apply N.eqb_neq. lia.
Qed.

(* a parenthesised balanced text is invisible to both scans *)
Lemma scan_as_paren X rest suffix d :
  (forall lo d, lo <= d -> rb lo (rev X) d = Some d) ->
  scan_addsub E (rev (paren X) ++ rest) suffix d = scan_addsub E rest (paren X ++ suffix) d.
Proof.
  intros B. unfold paren. cbn [rev]. rewrite rev_app_distr. cbn [rev app].
  rewrite <- !app_assoc. cbn [app scan_addsub]. rewrite N.eqb_refl.
  destruct (scan_as_inside (rev X) (40 :: rest) (41 :: suffix) (d + 1) (d + 1)) as [S _]; try lia.
  { apply B. lia. }
  rewrite S. cbn [scan_addsub]. change (40 =? 41) with false. rewrite N.eqb_refl.
  rewrite rev_involutive. replace (N.pred (d + 1)) with d by lia.
  cbn [app]. reflexivity.
Qed.
Lemma scan_md_paren X rest suffix d :
  (forall lo d, lo <= d -> rb lo (rev X) d = Some d) ->
  scan_muldiv (rev (paren X) ++ rest) suffix d = scan_muldiv rest (paren X ++ suffix) d.
Proof.
  intros B. unfold paren. cbn [rev]. rewrite rev_app_distr. cbn [rev app].
  rewrite <- !app_assoc. cbn [app scan_muldiv]. rewrite N.eqb_refl.
  destruct (scan_md_inside (rev X) (40 :: rest) (41 :: suffix) (d + 1) (d + 1)) as [S _]; try lia.
  { apply B. lia. }
  rewrite S. cbn [scan_muldiv]. change (40 =? 41) with false. rewrite N.eqb_refl.
  rewrite rev_involutive. replace (N.pred (d + 1)) with d by lia.
  cbn [app]. reflexivity.
Qed.

(* ------------------------------------------------------------------ leaf texts *)
Lemma minus_ok_app b x y : minus_ok b (x ++ y) = minus_ok b x && minus_ok (rev x ++ b) y.
Proof.
  revert b; induction x; intros b; cbn [app minus_ok rev]; auto.
  rewrite IHx. rewrite <- app_assoc. cbn [app]. rewrite andb_assoc. reflexivity.
Qed.
Lemma minus_ok_nominus b s : forallb (fun c => negb (c =? 45)) s = true -> minus_ok b s = true.
Proof.
  revert b; induction s; intros b H; cbn [minus_ok forallb] in *; auto. bools.
  rewrite H. cbn. auto.
Qed.

(* a leaf: leaf characters, every '-' is leading or an exponent sign, last character a word character *)
Definition lastc (p : N -> bool) (s : str) : bool := match rev s with c :: _ => p c | [] => false end.
Definition leaf_text (s : str) : Prop :=
  forallb lc s = true /\ minus_ok [] s = true /\ lastc idc s = true.

Lemma scan_as_leaf q : forall p ctx suffix,
  forallb lc q = true -> minus_ok (rev p) q = true -> (p = [] -> opctx ctx = true) ->
  scan_addsub E (rev q ++ rev p ++ ctx) suffix 0 = scan_addsub E (rev p ++ ctx) (q ++ suffix) 0.
Proof.
  induction q as [|c q IH] using rev_ind; intros p ctx suffix L M O.
  - reflexivity.
  - rewrite forallb_app in L. cbn [forallb] in L.
    apply andb_true_iff in L as [L1 L2]. rewrite andb_true_r in L2.
    rewrite minus_ok_app in M. apply andb_true_iff in M as [M1 M2].
    cbn [minus_ok] in M2. rewrite andb_true_r in M2.
    rewrite rev_app_distr. cbn [rev app]. rewrite <- app_assoc.
    assert (NP : (c =? 41) = false /\ (c =? 40) = false /\ (c =? 43) = false).
    { clear - L2. charfact. }
    destruct NP as (N1 & N2 & N3).
    destruct (c =? 45) eqn:C45.
    + (* a minus sign: leading (then the context decides) or an exponent sign *)
      rewrite app_assoc.
      cbn [scan_addsub]. rewrite N1, N2, N3, C45. cbn [andb].
      change (0 =? 0) with true. cbn [andb].
      destruct (rev q ++ rev p) as [|e r] eqn:B.
      * (* leading minus *)
        cbn [app].
        assert (p = []).
        { destruct p as [|x p']; auto. cbn [rev] in B. apply app_eq_nil in B as [_ B].
          apply app_eq_nil in B as [_ B]. discriminate. }
        assert (q = []).
        { destruct q as [|x q' _] using rev_ind; auto. rewrite rev_app_distr in B. discriminate. }
        subst. specialize (O eq_refl). cbn [app rev] in *.
        destruct ctx as [|x ctx]; cbn [negb].
        -- reflexivity.
        -- cbn [opctx] in O. destruct (opc_not_binprev x ctx O) as [S1 S2]. rewrite S1, S2.
           reflexivity.
      * cbn [app negb].
        assert (SC : sci (e :: r ++ ctx) = true).
        { destruct r as [|dg r']; try discriminate.
          apply andb_true_iff in M2 as [Me Md]. apply N.eqb_eq in Me. subst e.
          cbn [app sci]. change (101 =? 101) with true. cbn [orb andb]. rewrite Md. reflexivity. }
        rewrite SC.
        specialize (IH p ctx (c :: suffix) L1 M1 O). rewrite app_assoc, B in IH. cbn [app] in IH.
        rewrite IH. rewrite <- ?app_assoc. reflexivity.
    + rewrite scan_as_skip by auto. rewrite IH by auto. rewrite <- ?app_assoc. reflexivity.
Qed.

Lemma scan_md_plain q : forall rest suffix d,
  forallb (fun c => negb ((c =? 41) || (c =? 40) || (c =? 42) || (c =? 47) || (c =? 37))) q = true ->
  scan_muldiv (rev q ++ rest) suffix d = scan_muldiv rest (q ++ suffix) d.
Proof.
  induction q as [|c q IH] using rev_ind; intros rest suffix d H.
  - reflexivity.
  - rewrite forallb_app in H. cbn [forallb] in H. bools.
    rewrite rev_app_distr. cbn [rev app]. rewrite scan_md_skip; auto.
    + rewrite IH; auto. rewrite <- ?app_assoc. reflexivity.
    + rewrite H4, H3, H2. reflexivity.
Qed.

End WithEnv.
