(* C31: `value_cmp` (Model/ValueOrd.v, with the cross-kind table of Gen/ValueRank.v) is a total order
   whose compare-equal is `value_eqb`; tuples inherit it lexicographically.
   Argument: an injective key  value -> list Z  (rank of the kind :: payload key) under which
   `value_cmp` is the lexicographic comparison of keys.  The rank is COMPUTED from the generated
   table (number of kinds that compare Less), so the proof goes through for whatever strict total
   order on kinds the Rust source encodes, and fails if the arms stop being one. *)
From IL Require Import Model.Value Model.ValueOrd Proofs.ValueEq Proofs.OrdLaws.
From Coq Require Import Lia.
Open Scope N_scope.

(* ---- the generated table is a strict total order on kinds *)
Definition is_lt (c : option comparison) : bool := match c with Some Lt => true | _ => false end.
Definition vrank (k : vkind) : N := N.of_nat (length (filter (fun k' => is_lt (cross_cmp k' k)) all_vkinds)).

Definition vkind_eqb (a b : vkind) : bool := N.eqb (vkind_discr a) (vkind_discr b).

Lemma vkind_eqb_spec a b : vkind_eqb a b = true <-> a = b.
Proof. destruct a, b; vm_compute; split; congruence. Qed.

Lemma cross_cmp_rank k1 k2 : k1 <> k2 -> cross_cmp k1 k2 = Some (N.compare (vrank k1) (vrank k2)).
Proof. destruct k1, k2; intros H; try congruence; vm_compute; reflexivity. Qed.

Lemma cross_cmp_same k : cross_cmp k k = match k with KNull => Some Eq | _ => None end.
Proof. destruct k; reflexivity. Qed.

Lemma vrank_inj k1 k2 : vrank k1 = vrank k2 -> k1 = k2.
Proof. destruct k1, k2; vm_compute; congruence. Qed.

(* ---- the key *)
Definition payload_key (v : value) : list Z :=
  match v with
  | VNull => []
  | VBool b => [if b then 1 else 0]%Z
  | VI32 z | VI64 z | VTs z => [z]
  | VF64 b => [f64_total_key b]
  | VStr s => map Z.of_N s
  | VVec xs => Z.of_nat (length xs) :: map Z.of_N xs
  | VVec8 xs => Z.of_nat (length xs) :: xs
  end.

Definition vkey (v : value) : list Z := Z.of_N (vrank (kind_of v)) :: payload_key v.

(* every f64 bit pattern is below 2^64 *)
Definition value_wf (v : value) : Prop :=
  match v with VF64 b => b < 18446744073709551616 | _ => True end.
Definition value_wfb (v : value) : bool :=
  match v with VF64 b => b <? 18446744073709551616 | _ => true end.

Lemma value_wfb_spec v : value_wfb v = true <-> value_wf v.
Proof. destruct v; cbn; try tauto. apply N.ltb_lt. Qed.

Lemma lex_cmp_N_Z a b : lex_cmp N.compare a b = lex_cmp Z.compare (map Z.of_N a) (map Z.of_N b).
Proof. apply lex_cmp_map. intros; symmetry; apply N2Z.inj_compare. Qed.

Lemma len_then_lex_key {A} (cmp : A -> A -> comparison) (f : A -> Z) :
  (forall x y, cmp x y = Z.compare (f x) (f y)) ->
  forall a b, len_then_lex cmp a b =
              lex_cmp Z.compare (Z.of_nat (length a) :: map f a) (Z.of_nat (length b) :: map f b).
Proof.
  intros H a b. unfold len_then_lex. cbn [lex_cmp].
  rewrite Nat2Z.inj_compare, <- (lex_cmp_map f cmp Z.compare H a b). reflexivity.
Qed.

Lemma payload_cmp_key a b : kind_of a = kind_of b ->
  payload_cmp a b = lex_cmp Z.compare (payload_key a) (payload_key b).
Proof.
  destruct a, b; cbn [kind_of]; try discriminate; intros _; cbn [payload_cmp payload_key].
  - reflexivity.
  - destruct b, b0; reflexivity.
  - cbn. destruct (Z.compare z z0); reflexivity.
  - cbn. destruct (Z.compare z z0); reflexivity.
  - unfold f64_total_cmp. cbn. destruct (Z.compare _ _); reflexivity.
  - cbn. destruct (Z.compare z z0); reflexivity.
  - apply lex_cmp_N_Z.
  - apply (len_then_lex_key N.compare Z.of_N). intros; symmetry; apply N2Z.inj_compare.
  - rewrite (len_then_lex_key Z.compare (fun z => z)) by reflexivity. rewrite !map_id. reflexivity.
Qed.

Lemma value_cmp_key a b : value_cmp a b = lex_cmp Z.compare (vkey a) (vkey b).
Proof.
  unfold value_cmp, vkey. cbn [lex_cmp].
  destruct (vkind_eqb (kind_of a) (kind_of b)) eqn:E.
  - apply vkind_eqb_spec in E. rewrite <- E, Z.compare_refl, cross_cmp_same.
    destruct (kind_of a) eqn:K; try (apply payload_cmp_key; congruence).
    destruct a, b; cbn in K, E; try discriminate. reflexivity.
  - assert (kind_of a <> kind_of b) as NE
      by (intros H; apply vkind_eqb_spec in H; congruence).
    rewrite (cross_cmp_rank _ _ NE), N2Z.inj_compare.
    destruct (N.compare (vrank (kind_of a)) (vrank (kind_of b))) eqn:C; auto.
    apply N.compare_eq_iff, vrank_inj in C. contradiction.
Qed.

(* ---- injectivity of the key *)
Lemma f64_decomp b : b < 18446744073709551616 ->
  b = (if f64_sign b then 9223372036854775808 else 0) + f64_mag b /\ f64_mag b < 9223372036854775808.
Proof.
  intros Hb. unfold f64_sign, f64_mag. rewrite N.land_ones.
  change (2 ^ 63) with 9223372036854775808.
  pose proof (N.testbit_spec' b 63) as T. change (2 ^ 63) with 9223372036854775808 in T.
  pose proof (N.div_mod' b 9223372036854775808) as D.
  assert (b / 9223372036854775808 < 2) as Q by (apply N.div_lt_upper_bound; lia).
  rewrite (N.mod_small _ 2 Q) in T.
  pose proof (N.mod_lt b 9223372036854775808 ltac:(lia)) as M.
  destruct (N.testbit b 63); cbn [N.b2n] in T; split; lia.
Qed.

Lemma f64_total_key_inj a b :
  a < 18446744073709551616 -> b < 18446744073709551616 -> f64_total_key a = f64_total_key b -> a = b.
Proof.
  intros Ha Hb. destruct (f64_decomp a Ha) as [Da Ma], (f64_decomp b Hb) as [Db Mb].
  unfold f64_total_key. destruct (f64_sign a), (f64_sign b); lia.
Qed.

Lemma map_ZofN_inj a b : map Z.of_N a = map Z.of_N b -> a = b.
Proof.
  revert b; induction a as [|x a IH]; intros [|y b]; cbn; try congruence.
  intros H; inversion H. f_equal; [lia | auto].
Qed.

Lemma vkey_inj a b : value_wf a -> value_wf b -> vkey a = vkey b -> a = b.
Proof.
  unfold vkey. intros Wa Wb H. inversion H as [[R Pk]].
  apply N2Z.inj, vrank_inj in R.
  destruct a, b; cbn [kind_of] in R; try discriminate; cbn [payload_key] in Pk.
  - reflexivity.
  - destruct b, b0; try reflexivity; discriminate.
  - congruence.
  - congruence.
  - inversion Pk as [K]. f_equal. apply f64_total_key_inj; auto.
  - congruence.
  - f_equal. apply map_ZofN_inj; auto.
  - inversion Pk. f_equal. apply map_ZofN_inj; auto.
  - inversion Pk. reflexivity.
Qed.

(* ---- the laws *)
Theorem value_cmp_laws : laws_on value_wf value_cmp.
Proof.
  apply (key_laws value_wf any vkey (lex_cmp Z.compare)).
  - exact listZ_laws.
  - intros; exact I.
  - exact vkey_inj.
  - intros; apply value_cmp_key.
Qed.

Definition tuple_wf (t : tuple) : Prop := Forall value_wf t.

Theorem tuple_cmp_laws : laws_on tuple_wf tuple_cmp.
Proof. apply lex_laws, value_cmp_laws. Qed.

Lemma value_order a b c : value_wf a -> value_wf b -> value_wf c ->
  (value_cmp a b = Eq <-> value_eqb a b = true) /\
  (value_eqb a b = true -> hash_feed a = hash_feed b) /\
  value_cmp a b = CompOpp (value_cmp b a) /\
  (value_cmp a b <> Gt -> value_cmp b c <> Gt -> value_cmp a c <> Gt).
Proof.
  intros Wa Wb Wc. pose proof value_cmp_laws as L. destruct L as [He [Ha Ht]].
  repeat split.
  - intros H. apply value_eqb_spec, He; auto.
  - intros H. apply He; auto. apply value_eqb_spec; auto.
  - intros H. apply value_eqb_spec in H. congruence.
  - apply Ha; auto.
  - apply (laws_le_trans _ _ value_cmp_laws); auto.
Qed.

Lemma tuple_order a b c : tuple_wf a -> tuple_wf b -> tuple_wf c ->
  (tuple_cmp a b = Eq <-> tuple_eqb a b = true) /\
  (tuple_eqb a b = true -> tuple_hash_feed a = tuple_hash_feed b) /\
  tuple_cmp a b = CompOpp (tuple_cmp b a) /\
  (tuple_cmp a b <> Gt -> tuple_cmp b c <> Gt -> tuple_cmp a c <> Gt).
Proof.
  intros Wa Wb Wc. pose proof tuple_cmp_laws as L. destruct L as [He [Ha Ht]].
  repeat split.
  - intros H. apply tuple_eqb_spec, He; auto.
  - intros H. apply He; auto. apply tuple_eqb_spec; auto.
  - intros H. apply tuple_eqb_spec in H. congruence.
  - apply Ha; auto.
  - apply (laws_le_trans _ _ tuple_cmp_laws); auto.
Qed.

(* ---- the pre-repair comparator (`partial_cmp(..).unwrap_or(Equal)` on Float64) violates the laws *)
Definition value_cmp_old (a b : value) : comparison :=
  match a, b with
  | VF64 x, VF64 y => match f64_partial_cmp x y with Some c => c | None => Eq end
  | _, _ => value_cmp a b
  end.

Definition f_nan := VF64 0x7FF8000000000000.
Definition f_one := VF64 0x3FF0000000000000.
Definition f_two := VF64 0x4000000000000000.
Definition f_pz := VF64 0.
Definition f_nz := VF64 0x8000000000000000.

Lemma old_cmp_not_transitive :
  value_cmp_old f_two f_nan <> Gt /\ value_cmp_old f_nan f_one <> Gt /\ value_cmp_old f_two f_one = Gt.
Proof. vm_compute. repeat split; congruence. Qed.

Lemma old_cmp_eq_not_eqb :
  value_cmp_old f_pz f_nz = Eq /\ value_eqb f_pz f_nz = false.
Proof. vm_compute. split; reflexivity. Qed.
