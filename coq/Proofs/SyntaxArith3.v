(* Proofs/SyntaxArith3.v — the arithmetic round trip: parith n LAdd (show_arith a) = Some a *)
From IL Require Import Model.Syntax Model.SyntaxWf Proofs.SyntaxBase Proofs.SyntaxArith Proofs.SyntaxArith2.
Open Scope N_scope.

Lemma prev_sig_nws x t : is_ws x = false -> prev_sig (x :: t) = x.
Proof. intros H. destruct t; cbn [prev_sig]; auto. rewrite H. reflexivity. Qed.
Lemma endc_ac c : endc c = true -> ac c = true.
Proof. unfold endc. intros H. charfact. Qed.

Lemma rev_eq_cons {A} (l : list A) x t : rev l = x :: t -> l = rev t ++ [x].
Proof. intros H. rewrite <- (rev_involutive l), H. reflexivity. Qed.
Lemma ne_cons {A} (l : list A) : l <> [] -> exists x t, l = x :: t.
Proof. destruct l; [congruence|eauto]. Qed.
Lemma rev_ne {A} (l : list A) : l <> [] -> rev l <> [].
Proof.
  intros H R. apply H. rewrite <- (rev_involutive l), R. reflexivity.
Qed.

(* paren_matched: inside a stretch that stays at depth >= 1 *)
Lemma pm_inside X : forall rest d d', 1 <= d -> fb 1 X d = Some d' ->
  paren_matched (X ++ rest) d = paren_matched rest d' /\ 1 <= d'.
Proof.
  induction X as [|c t IH]; intros rest d d' D F.
  - cbn in *. inversion F; subst. auto.
  - cbn [fb] in F. cbn [app paren_matched].
    destruct (c =? 40) eqn:A.
    + apply IH; auto. lia.
    + destruct (c =? 41) eqn:B.
      * destruct (d <=? 1) eqn:L; try discriminate. apply N.leb_gt in L.
        assert (Q : (N.pred d =? 0) = false) by (apply N.eqb_neq; lia). rewrite Q.
        replace (N.pred d) with (d - 1) by lia. apply IH; auto. lia.
      * apply IH; auto.
Qed.
Lemma pm_paren X : good X -> paren_matched (paren X) 0 = true.
Proof.
  intros G. unfold paren. cbn [paren_matched]. change (40 =? 40) with true. cbv iota.
  destruct (pm_inside X [41] (0 + 1) (0 + 1)) as [P _]; try lia.
  { apply G. lia. }
  rewrite P. reflexivity.
Qed.

Section WithEnv.
Variable E : env.

Lemma endc_binary T : lastc endc T = true -> minus_is_binary E (rev T) = true.
Proof.
  unfold lastc. destruct (rev T) as [|x t]; try discriminate. intros H.
  unfold minus_is_binary. rewrite prev_sig_nws by (apply ac_nws, endc_ac, H).
  unfold endc in H. apply orb_true_iff in H as [H|H].
  - pose proof (idc_word E x H) as W. unfold is_word in W.
    destruct (is_alnum E x); cbn in *; auto. rewrite W. apply orb_true_r.
  - rewrite H. rewrite orb_true_r. reflexivity.
Qed.

Lemma lopnd_add o l : addop o = true -> lopnd E o l = show_arith E l.
Proof. intros A. unfold lopnd. destruct l; auto. destruct o; try discriminate; reflexivity. Qed.

Lemma wf_bin o l r : wf_arith E (ABin o l r) = true ->
  wf_arith E l = true /\ wf_arith E r = true /\
  (addop o = true -> sci (rev (show_arith E l)) = false).
Proof.
  cbn [wf_arith]. intros W. apply andb_true_iff in W as [W S]. apply andb_true_iff in W as [Wl Wr].
  repeat split; auto. intros A. destruct o; try discriminate; apply negb_true_iff in S; exact S.
Qed.

Lemma scan_as_top o l r : addop o = true -> wf_arith E (ABin o l r) = true ->
  scan_addsub E (rev (show_arith E (ABin o l r))) [] 0 = Some (o, show_arith E l, ropnd E o r).
Proof.
  intros A W. destruct (wf_bin o l r W) as (Wl & Wr & S). specialize (S A).
  rewrite show_bin, (lopnd_add o l A).
  pose proof (good_show E l Wl) as GL. pose proof (good_ropnd E o r Wr) as GR.
  destruct (ne_cons _ (rev_ne _ (good_ne _ GL))) as (x & t & RL).
  destruct (ne_cons _ (good_ne _ GR)) as (y & u & RR).
  rewrite rev_app_distr. cbn [rev]. rewrite <- app_assoc. cbn [app].
  rewrite (inert_as_ropnd E o r Wr) by (cbn [opctx]; apply binop_facts, op_char_binop).
  rewrite app_nil_r.
  assert (BIN : minus_is_binary E (rev (show_arith E l)) = true) by (apply endc_binary, GL).
  rewrite (rev_eq_cons _ _ _ RL) at 2.
  rewrite RL in *. rewrite RR.
  destruct o; try discriminate; cbn [op_char scan_addsub].
  - change (43 =? 41) with false. change (43 =? 40) with false. change (43 =? 43) with true.
    change (0 =? 0) with true. cbn [andb]. rewrite S. reflexivity.
  - change (45 =? 41) with false. change (45 =? 40) with false. change (45 =? 43) with false.
    change (45 =? 45) with true. change (0 =? 0) with true. cbn [andb negb]. rewrite S, BIN. reflexivity.
Qed.

Lemma scan_as_none a : wf_arith E a = true -> mulish a = true ->
  scan_addsub E (rev (show_arith E a)) [] 0 = None.
Proof.
  intros W M. pose proof (inert_as_mulish E a W M [] [] eq_refl) as I.
  rewrite app_nil_r in I. rewrite I. reflexivity.
Qed.
Lemma scan_as_none_paren X : good X -> scan_addsub E (rev (paren X)) [] 0 = None.
Proof.
  intros G. pose proof (inert_as_paren E X G [] [] eq_refl) as I.
  rewrite app_nil_r in I. rewrite I. reflexivity.
Qed.

Lemma scan_md_top o l r : addop o = false -> wf_arith E (ABin o l r) = true ->
  scan_muldiv (rev (show_arith E (ABin o l r))) [] 0 = Some (o, lopnd E o l, ropnd E o r).
Proof.
  intros A W. destruct (wf_bin o l r W) as (Wl & Wr & _).
  rewrite show_bin.
  pose proof (good_lopnd E o l Wl) as GL. pose proof (good_ropnd E o r Wr) as GR.
  destruct (ne_cons _ (rev_ne _ (good_ne _ GL))) as (x & t & RL).
  destruct (ne_cons _ (good_ne _ GR)) as (y & u & RR).
  rewrite rev_app_distr. cbn [rev]. rewrite <- app_assoc. cbn [app].
  rewrite (inert_md_ropnd E o r Wr A). rewrite app_nil_r.
  rewrite (rev_eq_cons _ _ _ RL) at 2. rewrite RL, RR.
  destruct o; try discriminate; reflexivity.
Qed.
Lemma scan_md_none_leaf T : leaf_text T -> scan_muldiv (rev T) [] 0 = None.
Proof.
  intros L. pose proof (inert_md_leaf T L [] [] 0) as I. rewrite app_nil_r in I. rewrite I. reflexivity.
Qed.
Lemma scan_md_none_paren X : good X -> scan_muldiv (rev (paren X)) [] 0 = None.
Proof.
  intros G. pose proof (inert_md_paren X G [] [] 0) as I. rewrite app_nil_r in I. rewrite I. reflexivity.
Qed.

(* ------------------------------------------------------------------ descending through parentheses *)
Lemma first_is_paren c X : first_is c (paren X) = (40 =? c).
Proof. reflexivity. Qed.
Lemma parith_pri_paren n X : good X -> parith E (S n) LPri (paren X) = parith E n LAdd X.
Proof.
  intros G. cbn [parith]. rewrite (good_trim _ (good_paren X G)).
  unfold paren at 1 2. cbn [first_is]. change (40 =? 40) with true.
  rewrite last_is_cons_snoc. change (41 =? 41) with true. cbn [andb].
  change (40 :: X ++ [41]) with (paren X). rewrite (pm_paren X G).
  unfold paren. rewrite inner_cons_snoc. reflexivity.
Qed.
Lemma parith_mul_paren n X : good X -> parith E (S n) LMul (paren X) = parith E n LPri (paren X).
Proof.
  intros G. cbn [parith]. rewrite (good_trim _ (good_paren X G)).
  rewrite (scan_md_none_paren X G). reflexivity.
Qed.

(* ------------------------------------------------------------------ leaves at LPri *)
Lemma leaf_first_not T c : leaf_text T -> lc c = false -> first_is c T = false.
Proof.
  intros (A & _ & L) C. destruct T as [|x T]; auto. cbn [first_is forallb] in *.
  apply andb_true_iff in A as [A _]. apply N.eqb_neq. intros ->. congruence.
Qed.

Lemma parith_leaf n a : wf_arith E a = true -> is_leaf a = true ->
  parith E (S n) LPri (show_arith E a) = Some a.
Proof.
  intros W L. pose proof (leaf_text_of E a W L) as LT.
  pose proof (good_leaf _ LT) as G.
  cbn [parith]. rewrite (good_trim _ G).
  rewrite (leaf_first_not _ 40 LT eq_refl). cbn [andb].
  destruct a as [s|z|b|]; try discriminate; cbn [show_arith wf_arith] in *.
  - unfold wf_avar in W. apply andb_true_iff in W as [W F]. apply andb_true_iff in W as [I P].
    apply negb_true_iff in P. apply negb_true_iff in F.
    destruct (parse_i64 s) eqn:PI; try discriminate.
    unfold parse_f64. rewrite F.
    unfold ident in I. destruct s as [|c s]; try discriminate.
    assert (F45 : first_is 45 (c :: s) = false).
    { cbn [first_is forallb] in *. apply andb_true_iff in I as [I _].
      apply negb_true_iff. apply idc_not45. exact I. }
    rewrite F45.
    assert (Wd : forallb (is_word E) (c :: s) = true).
    { eapply forallb_impl; [apply idc_word|exact I]. }
    rewrite Wd. reflexivity.
  - rewrite (parse_i64_show z W). reflexivity.
  - apply andb_true_iff in W as [_ Hdbg]. unfold dbg_ok in Hdbg.
    apply andb_true_iff in Hdbg as [H I]. apply andb_true_iff in H as [_ F].
    apply negb_true_iff in I. destruct (parse_i64 (e_dbg E b)) eqn:PI; try discriminate.
    unfold optN_is in F. destruct (parse_f64 E (e_dbg E b)) eqn:PF; try discriminate.
    apply N.eqb_eq in F. subst. reflexivity.
Qed.

(* ------------------------------------------------------------------ fuel is monotone *)
Lemma bin_some o x y a : bin o x y = Some a -> exists l r, x = Some l /\ y = Some r /\ a = ABin o l r.
Proof. destruct x, y; cbn; intros H; inversion H; eauto. Qed.

Lemma parith_mono n : forall l s a, parith E n l s = Some a -> parith E (S n) l s = Some a.
Proof.
  induction n as [|n IH]; intros l s a H. discriminate.
  remember (S n) as m eqn:Em. rewrite Em in H. cbn [parith] in H.
  cbn [parith]. subst m. destruct l.
  - destruct (scan_addsub E (rev (trim s)) [] 0) as [[[o le] ri]|].
    + apply bin_some in H as (x & y & H1 & H2 & ->).
      rewrite (IH _ _ _ H1), (IH _ _ _ H2). reflexivity.
    + apply IH. exact H.
  - destruct (scan_muldiv (rev (trim s)) [] 0) as [[[o le] ri]|].
    + apply bin_some in H as (x & y & H1 & H2 & ->).
      rewrite (IH _ _ _ H1), (IH _ _ _ H2). reflexivity.
    + apply IH. exact H.
  - destruct (first_is 40 (trim s) && last_is 41 (trim s) && paren_matched (trim s) 0).
    + apply IH. exact H.
    + exact H.
Qed.
Lemma parith_mono_le n m l s a : (n <= m)%nat -> parith E n l s = Some a -> parith E m l s = Some a.
Proof. induction 1; auto. intros Hp. apply parith_mono. auto. Qed.

(* ------------------------------------------------------------------ the round trip *)
Lemma parith_paren_pri n a : wf_arith E a = true ->
  (forall m, (need a <= m)%nat -> parith E m LAdd (show_arith E a) = Some a) ->
  (S (need a) <= n)%nat -> parith E n LPri (paren (show_arith E a)) = Some a.
Proof.
  intros W IH L. destruct n; try lia. rewrite parith_pri_paren by (apply good_show; auto).
  apply IH. lia.
Qed.
Lemma parith_paren_mul n a : wf_arith E a = true ->
  (forall m, (need a <= m)%nat -> parith E m LAdd (show_arith E a) = Some a) ->
  (S (S (need a)) <= n)%nat -> parith E n LMul (paren (show_arith E a)) = Some a.
Proof.
  intros W IH L. destruct n; try lia. rewrite parith_mul_paren by (apply good_show; auto).
  apply parith_paren_pri; auto. lia.
Qed.

Theorem parith_roundtrip a : wf_arith E a = true ->
  (forall n, (need a <= n)%nat -> parith E n LAdd (show_arith E a) = Some a) /\
  (mulish a = true -> forall n, (need a - 1 <= n)%nat -> parith E n LMul (show_arith E a) = Some a).
Proof.
  induction a as [s|z|b|o l IHl r IHr]; intros W.
  - assert (P : forall n, (2 <= n)%nat -> parith E n LMul (show_arith E (AVar s)) = Some (AVar s)).
    { intros n L. destruct n; try lia. pose proof (leaf_text_of E _ W eq_refl) as LT.
      cbn [parith]. rewrite (good_trim _ (good_leaf _ LT)), (scan_md_none_leaf _ LT).
      destruct n; try lia. apply parith_leaf; auto. }
    split; [|intros _ n L; apply P; cbn in L; lia].
    intros n L. cbn in L. destruct n; try lia. cbn [parith].
    rewrite (good_trim _ (good_show E _ W)), (scan_as_none _ W eq_refl). apply P. lia.
  - assert (P : forall n, (2 <= n)%nat -> parith E n LMul (show_arith E (AInt z)) = Some (AInt z)).
    { intros n L. destruct n; try lia. pose proof (leaf_text_of E _ W eq_refl) as LT.
      cbn [parith]. rewrite (good_trim _ (good_leaf _ LT)), (scan_md_none_leaf _ LT).
      destruct n; try lia. apply parith_leaf; auto. }
    split; [|intros _ n L; apply P; cbn in L; lia].
    intros n L. cbn in L. destruct n; try lia. cbn [parith].
    rewrite (good_trim _ (good_show E _ W)), (scan_as_none _ W eq_refl). apply P. lia.
  - assert (P : forall n, (2 <= n)%nat -> parith E n LMul (show_arith E (AFloat b)) = Some (AFloat b)).
    { intros n L. destruct n; try lia. pose proof (leaf_text_of E _ W eq_refl) as LT.
      cbn [parith]. rewrite (good_trim _ (good_leaf _ LT)), (scan_md_none_leaf _ LT).
      destruct n; try lia. apply parith_leaf; auto. }
    split; [|intros _ n L; apply P; cbn in L; lia].
    intros n L. cbn in L. destruct n; try lia. cbn [parith].
    rewrite (good_trim _ (good_show E _ W)), (scan_as_none _ W eq_refl). apply P. lia.
  - destruct (wf_bin o l r W) as (Wl & Wr & _).
    destruct (IHl Wl) as [IHlA IHlM]. destruct (IHr Wr) as [IHrA IHrM].
    pose proof (good_show E _ W) as G.
    (* the two operands, at the levels at which they are parsed *)
    assert (RM : forall n, (2 + need r <= n)%nat -> parith E n LMul (ropnd E o r) = Some r).
    { intros n L. unfold ropnd. destruct r as [s|z|b|co r1 r2]; try (apply IHrM; [reflexivity|cbn in *; lia]).
      destruct (prec co <=? prec o)%nat eqn:P.
      - apply parith_paren_mul; auto.
      - apply IHrM; [|lia]. cbn [mulish]. destruct co, o; cbn in *; congruence. }
    assert (MUL : addop o = false -> forall n, (need (ABin o l r) - 1 <= n)%nat ->
                  parith E n LMul (show_arith E (ABin o l r)) = Some (ABin o l r)).
    { intros A n L. cbn [need] in L. destruct n; try lia. cbn [parith].
      rewrite (good_trim _ G), (scan_md_top o l r A W).
      assert (LM : parith E n LMul (lopnd E o l) = Some l).
      { unfold lopnd. destruct l as [s|z|b|co l1 l2]; try (apply IHlM; [reflexivity|cbn in *; lia]).
        destruct (prec co <? prec o)%nat eqn:P.
        - apply parith_paren_mul; auto. lia.
        - apply IHlM; [|lia]. cbn [mulish]. destruct co, o; cbn in *; congruence. }
      assert (RP : parith E n LPri (ropnd E o r) = Some r).
      { unfold ropnd. destruct r as [s|z|b|co r1 r2];
          try (destruct n; [lia|apply parith_leaf; auto]).
        assert (P : (prec co <=? prec o)%nat = true) by (destruct co, o; cbn in *; congruence).
        rewrite P. apply parith_paren_pri; auto. lia. }
      rewrite LM, RP. reflexivity. }
    split.
    + intros n L. cbn [need] in L. destruct n; try lia. cbn [parith]. rewrite (good_trim _ G).
      destruct (addop o) eqn:A.
      * rewrite (scan_as_top o l r A W).
        rewrite (IHlA n) by lia. rewrite (RM n) by lia. reflexivity.
      * rewrite (scan_as_none _ W) by (cbn [mulish]; rewrite A; reflexivity).
        apply MUL; auto. cbn [need]. lia.
    + intros M. cbn [mulish] in M. apply negb_true_iff in M. apply MUL; auto.
Qed.

Lemma need_le a : wf_arith E a = true -> (need a <= 4 * length (show_arith E a))%nat.
Proof.
  induction a as [s|z|b|o l IHl r IHr]; intros W;
    try (pose proof (good_ne _ (good_show E _ W)) as NE; cbn [need];
         destruct (show_arith E _); [congruence|cbn [length]; lia]).
  destruct (wf_bin o l r W) as (Wl & Wr & _). specialize (IHl Wl). specialize (IHr Wr).
  rewrite show_bin. rewrite app_length. cbn [length need].
  assert (length (show_arith E l) <= length (lopnd E o l))%nat.
  { unfold lopnd. destruct l; auto. destruct (prec o0 <? prec o)%nat; auto.
    unfold paren. cbn [length]. rewrite app_length. lia. }
  assert (length (show_arith E r) <= length (ropnd E o r))%nat.
  { unfold ropnd. destruct r; auto. destruct (prec o0 <=? prec o)%nat; auto.
    unfold paren. cbn [length]. rewrite app_length. lia. }
  lia.
Qed.

End WithEnv.
