(* Lemmas for C18 (Model/Mat.v): the invariant of the materialization book-keeping and its
   preservation by every operation outside the hazard classes. *)
From IL Require Import Model.Value Model.Mat.
From Coq Require Import Lia.
Open Scope N_scope.

(* ------------------------------------------------------------------ association lists *)
Lemma lookup_upd_eq {A} (m : list (N * A)) k v : lookup (upd m k v) k = Some v.
Proof.
  induction m as [|[k' v'] m IH]; cbn [upd lookup].
  - now rewrite N.eqb_refl.
  - destruct (N.eqb k k') eqn:E; cbn [lookup]; rewrite E; auto.
Qed.

Lemma lookup_upd_neq {A} (m : list (N * A)) k k' v : k <> k' -> lookup (upd m k v) k' = lookup m k'.
Proof.
  intros Hn. induction m as [|[k0 v0] m IH]; cbn [upd lookup].
  - destruct (N.eqb k' k) eqn:E; auto. apply N.eqb_eq in E. congruence.
  - destruct (N.eqb k k0) eqn:E; cbn [lookup].
    + apply N.eqb_eq in E. subst k0. destruct (N.eqb k' k) eqn:E2; auto.
      apply N.eqb_eq in E2. congruence.
    + destruct (N.eqb k' k0); auto.
Qed.

Lemma lookup_del_eq {A} (m : list (N * A)) k : lookup (del m k) k = None.
Proof.
  induction m as [|[k' v'] m IH]; cbn [del lookup]; auto.
  destruct (N.eqb k k') eqn:E; auto. cbn [lookup]. now rewrite E.
Qed.

Lemma lookup_del_neq {A} (m : list (N * A)) k k' : k <> k' -> lookup (del m k) k' = lookup m k'.
Proof.
  intros Hn. induction m as [|[k0 v0] m IH]; cbn [del lookup]; auto.
  destruct (N.eqb k k0) eqn:E.
  - apply N.eqb_eq in E. subst k0. destruct (N.eqb k' k) eqn:E2; auto.
    apply N.eqb_eq in E2. congruence.
  - cbn [lookup]. destruct (N.eqb k' k0); auto.
Qed.

Lemma lookup_In {A} (m : list (N * A)) k v : lookup m k = Some v -> In (k, v) m.
Proof.
  induction m as [|[k' v'] m IH]; cbn [lookup]; [discriminate|].
  destruct (N.eqb k k') eqn:E; intros H.
  - apply N.eqb_eq in E. inversion H. subst. now left.
  - right. auto.
Qed.

Lemma get_upd_eq d n v : get (upd d n v) n = v.
Proof. unfold get. now rewrite lookup_upd_eq. Qed.
Lemma get_upd_neq d n n' v : n <> n' -> get (upd d n v) n' = get d n'.
Proof. intros. unfold get. now rewrite lookup_upd_neq. Qed.

Lemma memN_true x l : memN x l = true <-> In x l.
Proof.
  unfold memN. rewrite existsb_exists. split.
  - intros [y [Hy E]]. apply N.eqb_eq in E. now subst.
  - intros H. exists x. split; auto. apply N.eqb_refl.
Qed.

(* ------------------------------------------------------------------ evaluator: only the environment
   on the head and on the mentioned relations matters *)
Lemma lfix_on_ext cls h g g' :
  (forall n, In n (h :: rels cls) -> g n = g' n) -> lfix_on cls h g = lfix_on cls h g'.
Proof.
  intros H. unfold lfix_on.
  assert (E : map (fun n => (n, shadow cls h g n)) (h :: rels cls)
            = map (fun n => (n, shadow cls h g' n)) (h :: rels cls)).
  { apply map_ext_in. intros n Hn. unfold shadow. rewrite (H n Hn). reflexivity. }
  rewrite E. reflexivity.
Qed.

(* from here on the evaluator is a black box (its unfolding would only slow conversion down) *)
Opaque lfix_on.

Lemma flat_spec c h d :
  flat c h = true -> In d (rels (clauses_of c h)) -> d <> h -> is_head c d = false.
Proof.
  unfold flat. rewrite forallb_forall. intros F Hd Hne. specialize (F d Hd).
  apply orb_true_iff in F. destruct F as [F|F].
  - apply N.eqb_eq in F. congruence.
  - now apply negb_true_iff in F.
Qed.

Lemma val_flat f c fs h :
  flat c h = true -> val f c fs h = lfix_on (clauses_of c h) h (get fs).
Proof.
  intros F. destruct f; cbn [val].
  - now rewrite F.
  - apply lfix_on_ext. intros d [Hd|Hd].
    + subst d. rewrite N.eqb_refl. now rewrite andb_false_r.
    + destruct (N.eqb d h) eqn:E.
      * now rewrite andb_false_r.
      * apply N.eqb_neq in E. now rewrite (flat_spec c h d F Hd E).
Qed.

(* ------------------------------------------------------------------ the invariant *)
Record InvR (s : st) (r : name) : Prop := {
  inv_head : is_head (cat s) r = true;
  inv_flat : flat (cat s) r = true;
  inv_b2d : b2d_ok s r = true;
  inv_nofacts : get (facts s) r = [];
  inv_mat : mat s r = lfix_on (clauses_of (cat s) r) r (get (facts s))
}.
Definition Inv (s : st) : Prop :=
  (inc s = false -> mats s = []) /\ (forall r, valid s r = true -> InvR s r).

Lemma valid_nil s r : mats s = [] -> valid s r = false.
Proof. intros H. unfold valid. now rewrite H. Qed.

Lemma Inv_nomats s : mats s = [] -> Inv s.
Proof.
  intros H. split; auto. intros r V. rewrite (valid_nil s r H) in V. discriminate.
Qed.

Lemma Inv_init : Inv init.
Proof. now apply Inv_nomats. Qed.

(* the engine's evaluation with materializations injected equals the reference semantics *)
Lemma val_m_val s : Inv s -> forall f h, val_m f s h = val f (cat s) (facts s) h.
Proof.
  intros [_ I] f. induction f as [|f IH]; intros h.
  - cbn [val_m val]. destruct (valid s h) eqn:V; auto.
    destruct (I h V) as [_ F _ NF M]. now rewrite F, NF, M.
  - cbn [val_m]. destruct (valid s h) eqn:V.
    + destruct (I h V) as [_ F _ NF M]. rewrite (val_flat _ _ _ _ F), NF, M. reflexivity.
    + cbn [val]. apply lfix_on_ext. intros d _.
      destruct (valid s d) eqn:Vd.
      * destruct (I d Vd) as [Hd F _ NF M].
        assert (E : N.eqb d h = false).
        { apply N.eqb_neq. intros ->. congruence. }
        rewrite Hd, E. cbn [negb andb]. now rewrite (val_flat _ _ _ _ F), NF, M.
      * destruct (is_head (cat s) d && negb (N.eqb d h)); auto.
Qed.

Lemma query_inc_fresh s : Inv s -> forall n, query_inc s n = query_fresh s n.
Proof. intros I n. unfold query_inc, query_fresh. now apply val_m_val. Qed.

(* ------------------------------------------------------------------ helpers for the steps *)
Lemma add_new_app old new : exists l, add_new old new = old ++ l.
Proof.
  revert old. induction new as [|t r IH]; intros old; cbn [add_new].
  - exists []. now rewrite app_nil_r.
  - destruct (mem_tuple t old).
    + apply IH.
    + destruct (IH (old ++ [t])) as [l Hl]. exists ([t] ++ l). now rewrite Hl, app_assoc.
Qed.

Lemma add_new_same_len old new :
  Nat.eqb (length (add_new old new)) (length old) = true -> add_new old new = old.
Proof.
  intros H. apply Nat.eqb_eq in H. destruct (add_new_app old new) as [l Hl].
  rewrite Hl in *. rewrite app_length in H. destruct l; [now rewrite app_nil_r|].
  cbn [length] in H. lia.
Qed.

Lemma lookup_invalidate T m n :
  lookup (invalidate T m) n =
  match lookup m n with Some (ts, v) => Some (ts, v && negb (memN n T)) | None => None end.
Proof.
  induction m as [|[k [ts v]] m IH]; cbn [invalidate map lookup]; auto.
  destruct (N.eqb n k) eqn:E.
  - apply N.eqb_eq in E. now subst k.
  - apply IH.
Qed.

Lemma invalidate_nil T : invalidate T [] = [].
Proof. reflexivity. Qed.

(* adding `n` to base_to_derived entries keeps every membership *)
Lemma b2d_add_mono n deps m r d :
  memN r (getl m d) = true ->
  memN r (getl (fold_left (fun m d => upd m d (if memN n (getl m d) then getl m d else getl m d ++ [n])) deps m) d) = true.
Proof.
  revert m. induction deps as [|x deps IH]; intros m H; cbn [fold_left]; auto.
  apply IH. destruct (N.eq_dec x d) as [->|Hne].
  - unfold getl at 1. rewrite lookup_upd_eq. destruct (memN n (getl m d)); auto.
    apply memN_true. apply in_or_app. left. now apply memN_true.
  - unfold getl at 1. rewrite lookup_upd_neq by auto. exact H.
Qed.

Lemma memN_removeN r n l : r <> n -> memN r l = true -> memN r (removeN n l) = true.
Proof.
  intros Hne H. apply memN_true. apply memN_true in H. unfold removeN. apply filter_In. split; auto.
  apply negb_true_iff. apply N.eqb_neq. congruence.
Qed.

Lemma b2d_remove_mono n bs m r d :
  r <> n -> memN r (getl m d) = true ->
  memN r (getl (fold_left (fun m b => upd m b (removeN n (getl m b))) bs m) d) = true.
Proof.
  intros Hne. revert m. induction bs as [|x bs IH]; intros m H; cbn [fold_left]; auto.
  apply IH. destruct (N.eq_dec x d) as [->|Hx].
  - unfold getl at 1. rewrite lookup_upd_eq. now apply memN_removeN.
  - unfold getl at 1. rewrite lookup_upd_neq by auto. exact H.
Qed.

Lemma b2d_ok_spec s n d :
  b2d_ok s n = true -> In d (rels (clauses_of (cat s) n)) -> d <> n -> memN n (getl (b2d s) d) = true.
Proof.
  unfold b2d_ok. rewrite forallb_forall. intros B Hd Hne. specialize (B d Hd).
  apply orb_true_iff in B. destruct B as [B|B]; auto. apply N.eqb_eq in B. congruence.
Qed.

Lemma valid_In s r : valid s r = true -> exists e, In (r, e) (mats s).
Proof.
  unfold valid. destruct (lookup (mats s) r) as [e|] eqn:L; [|discriminate].
  intros _. exists e. now apply lookup_In.
Qed.

(* ------------------------------------------------------------------ each step outside the hazard
   classes preserves the invariant *)

(* transfer of the per-relation invariant to a state that agrees with the old one on everything
   r0's materialization depends on *)
Lemma InvR_transfer s s' r0 :
  InvR s r0 ->
  lookup (cat s') r0 = lookup (cat s) r0 ->
  (forall d, In d (rels (clauses_of (cat s) r0)) -> d <> r0 -> is_head (cat s') d = true -> is_head (cat s) d = true) ->
  (forall d, memN r0 (getl (b2d s) d) = true -> memN r0 (getl (b2d s') d) = true) ->
  (forall d, In d (r0 :: rels (clauses_of (cat s) r0)) -> get (facts s') d = get (facts s) d) ->
  mat s' r0 = mat s r0 ->
  InvR s' r0.
Proof.
  intros [H F B NF M] Hl Hh Hb Hf Hm.
  assert (Hc : clauses_of (cat s') r0 = clauses_of (cat s) r0) by (unfold clauses_of; rewrite Hl; reflexivity).
  constructor.
  - unfold is_head in *. rewrite Hl. exact H.
  - unfold flat. rewrite Hc. apply forallb_forall. intros d Hd.
    destruct (N.eqb d r0) eqn:E; [reflexivity|]. apply N.eqb_neq in E. cbn [orb].
    destruct (is_head (cat s') d) eqn:Hd'; [|reflexivity].
    specialize (Hh d Hd E Hd'). rewrite (flat_spec _ _ _ F Hd E) in Hh. discriminate.
  - unfold b2d_ok. rewrite Hc. apply forallb_forall. intros d Hd.
    destruct (N.eqb d r0) eqn:E; [reflexivity|]. apply N.eqb_neq in E. cbn [orb].
    apply Hb. exact (b2d_ok_spec s r0 d B Hd E).
  - rewrite (Hf r0 (or_introl eq_refl)). exact NF.
  - rewrite Hm, Hc, M. apply lfix_on_ext. intros d Hd. symmetry. exact (Hf d Hd).
Qed.

Lemma InvR_cat_change s s' r0 :
  InvR s r0 ->
  facts s' = facts s -> mat s' r0 = mat s r0 ->
  lookup (cat s') r0 = lookup (cat s) r0 ->
  (forall d, In d (rels (clauses_of (cat s) r0)) -> d <> r0 -> is_head (cat s') d = true -> is_head (cat s) d = true) ->
  (forall d, memN r0 (getl (b2d s) d) = true -> memN r0 (getl (b2d s') d) = true) ->
  InvR s' r0.
Proof.
  intros I Hf Hm Hl Hh Hb. apply (InvR_transfer s s' r0 I Hl Hh Hb); [|exact Hm].
  intros d _. rewrite Hf. reflexivity.
Qed.

(* a write to relation r with new content nxt, invalidating base_to_derived[r] when it changed *)
Definition write_st (s : st) (r : name) (nxt : list tuple) (changed : bool) : st :=
  mkSt (upd (facts s) r nxt) (cat s) (inc s)
       (if changed && inc s then invalidate (getl (b2d s) r) (mats s) else mats s) (b2d s) (d2b s).

Lemma write_inv s r nxt changed :
  Inv s ->
  (changed = false -> nxt = get (facts s) r) ->
  (forall r0, valid s r0 = true -> r <> r0) ->
  Inv (write_st s r nxt changed).
Proof.
  intros [I0 I] Hsame Hne. unfold write_st. split.
  - cbn [inc mats]. intros Hi. rewrite Hi, andb_false_r. exact (I0 Hi).
  - intros r0 V.
    assert (V0 : valid s r0 = true /\ (changed && inc s = true -> memN r0 (getl (b2d s) r) = false)).
    { unfold valid in V. cbn [mats] in V. destruct (changed && inc s).
      - rewrite lookup_invalidate in V. unfold valid.
        destruct (lookup (mats s) r0) as [[ts0 v0]|]; [|discriminate].
        apply andb_true_iff in V. destruct V as [V1 V2]. apply negb_true_iff in V2. split; auto.
      - split; [exact V|discriminate]. }
    destruct V0 as [V0 Hinv]. pose proof (I r0 V0) as IR. pose proof (Hne r0 V0) as Hr.
    apply (InvR_transfer s _ r0 IR).
    + reflexivity.
    + intros d _ _ Hd. exact Hd.
    + intros d Hd. exact Hd.
    + cbn [facts]. intros d [<-|Hd]; [apply get_upd_neq; exact Hr|].
      destruct (N.eq_dec r d) as [<-|Hrd]; [|apply get_upd_neq; exact Hrd].
      rewrite get_upd_eq. destruct changed.
      * destruct (inc s) eqn:Hi.
        -- specialize (Hinv eq_refl). destruct IR as [_ _ B _ _].
           rewrite (b2d_ok_spec s r0 r B Hd Hr) in Hinv. discriminate.
        -- rewrite (valid_nil s r0 (I0 eq_refl)) in V0. discriminate.
      * exact (Hsame eq_refl).
    + unfold mat. cbn [mats]. destruct (changed && inc s); [|reflexivity].
      rewrite lookup_invalidate. destruct (lookup (mats s) r0) as [[ts0 v0]|]; reflexivity.
Qed.

Lemma step_insert s r ts : Inv s -> Inv (step s (Insert r ts)).
Proof.
  intros Is. cbn [step]. destruct (is_head (cat s) r) eqn:Hr; [exact Is|].
  remember (get (facts s) r) as old eqn:Eo. remember (add_new old ts) as nxt eqn:En.
  change (Inv (write_st s r nxt (negb (Nat.eqb (length nxt) (length old))))).
  apply write_inv; [exact Is| |].
  - intros Ch. apply negb_false_iff in Ch. rewrite En in Ch. apply add_new_same_len in Ch.
    rewrite En, Ch, Eo. reflexivity.
  - intros r0 V ->. destruct Is as [_ I]. destruct (I r0 V) as [H _ _ _ _]. congruence.
Qed.

Lemma step_delete s r ts : Inv s -> Inv (step s (Delete r ts)).
Proof.
  intros Is. cbn [step].
  remember (get (facts s) r) as old eqn:Eo.
  remember (filter (fun t => negb (mem_tuple t ts)) old) as nxt eqn:En.
  destruct (negb (Nat.eqb (length nxt) (length old))) eqn:Ch; [|exact Is].
  assert (E : (if inc s then invalidate (getl (b2d s) r) (mats s) else mats s)
              = (if true && inc s then invalidate (getl (b2d s) r) (mats s) else mats s)) by reflexivity.
  rewrite E. change (Inv (write_st s r nxt true)).
  apply write_inv; [exact Is|discriminate|].
  intros r0 V ->. destruct Is as [_ I]. destruct (I r0 V) as [_ _ _ NF _].
  rewrite NF in Eo. rewrite Eo in En. cbn [filter] in En. rewrite En, Eo in Ch. discriminate.
Qed.

Lemma step_register s n c acc :
  Inv s -> hazard s (Register n c acc) = 0 -> Inv (step s (Register n c acc)).
Proof.
  intros [I0 I] Hz. cbn [step]. destruct acc; [|split; auto].
  cbn [hazard] in Hz.
  destruct (valid s n) eqn:Vn; [discriminate|].
  destruct (existsb (fun e => valid s (fst e) && mentions s (fst e) n) (mats s)) eqn:Ex; [discriminate|].
  assert (Hment : forall r0, valid s r0 = true -> mentions s r0 n = false).
  { intros r0 V. destruct (mentions s r0 n) eqn:Mn; auto.
    destruct (valid_In s r0 V) as [e He].
    assert (existsb (fun e => valid s (fst e) && mentions s (fst e) n) (mats s) = true).
    { apply existsb_exists. exists (r0, e). split; auto. cbn [fst]. now rewrite V, Mn. }
    congruence. }
  set (cat' := upd (cat s) n (add_clause (clauses_of (cat s) n) c)).
  assert (Hgen : forall s', facts s' = facts s -> mats s' = mats s -> cat s' = cat' ->
                 (forall r0 d, memN r0 (getl (b2d s) d) = true -> memN r0 (getl (b2d s') d) = true) ->
                 forall r0, valid s' r0 = true -> InvR s' r0).
  { intros s' Hf Hm Hc Hb r0 V. unfold valid in V. rewrite Hm in V. change (valid s r0 = true) in V.
    assert (Hne : n <> r0) by (intros ->; congruence).
    apply (InvR_cat_change s s' r0 (I r0 V)); auto.
    - unfold mat. now rewrite Hm.
    - rewrite Hc. unfold cat'. now apply lookup_upd_neq.
    - intros d Hd _ Hd'. destruct (N.eq_dec n d) as [<-|Hnd].
      + specialize (Hment r0 V). unfold mentions in Hment.
        assert (memN n (rels (clauses_of (cat s) r0)) = true) by now apply memN_true.
        congruence.
      + rewrite Hc in Hd'. unfold cat', is_head in *. now rewrite lookup_upd_neq in Hd' by auto. }
  destruct (inc s) eqn:Hi.
  - split; cbn [inc]; [discriminate|]. apply Hgen; auto.
    intros r0 d. cbn [b2d]. apply b2d_add_mono.
  - split; cbn [inc mats]; [exact I0 | apply Hgen; auto].
Qed.

Lemma step_remove_clause s n i :
  Inv s -> hazard s (RemoveClause n i) = 0 -> Inv (step s (RemoveClause n i)).
Proof.
  intros [I0 I] Hz. cbn [step]. cbn [hazard] in Hz.
  destruct (is_head (cat s) n && Nat.ltb i (length (clauses_of (cat s) n))) eqn:G; [|split; auto].
  assert (Vn : valid s n = false).
  { destruct (valid s n); auto. cbn [andb] in Hz. rewrite G in Hz. discriminate. }
  apply andb_true_iff in G. destruct G as [Hn _].
  split; cbn [inc mats]; auto.
  intros r0 V. change (valid s r0 = true) in V.
  assert (Hne : n <> r0) by (intros ->; congruence).
  apply (InvR_cat_change s _ r0 (I r0 V)); auto.
  - cbn [cat]. destruct (remove_nth i (clauses_of (cat s) n)).
    + now apply lookup_del_neq.
    + now apply lookup_upd_neq.
  - intros d Hd Hdr Hd'. destruct (N.eq_dec n d) as [<-|Hnd]; auto.
    cbn [cat] in Hd'. unfold is_head in *.
    destruct (remove_nth i (clauses_of (cat s) n)).
    + now rewrite lookup_del_neq in Hd' by auto.
    + now rewrite lookup_upd_neq in Hd' by auto.
Qed.

Lemma step_drop s n : Inv s -> Inv (step s (Drop n)).
Proof.
  intros [I0 I]. cbn [step]. destruct (is_head (cat s) n) eqn:Hn; [|split; auto].
  destruct (inc s) eqn:Hi.
  - split; cbn [inc]; [discriminate|].
    intros r0 V. unfold valid in V. cbn [mats] in V.
    destruct (N.eq_dec n r0) as [<-|Hne]; [now rewrite lookup_del_eq in V|].
    rewrite lookup_del_neq in V by auto. change (valid s r0 = true) in V.
    apply (InvR_cat_change s _ r0 (I r0 V)); auto.
    + unfold mat. cbn [mats]. now rewrite lookup_del_neq.
    + cbn [cat]. now apply lookup_del_neq.
    + intros d Hd _ Hd'. cbn [cat] in Hd'. unfold is_head in *.
      destruct (N.eq_dec n d) as [<-|Hnd]; [now rewrite lookup_del_eq in Hd'|].
      now rewrite lookup_del_neq in Hd' by auto.
    + intros d. cbn [b2d]. apply b2d_remove_mono. congruence.
  - rewrite (I0 eq_refl). now apply Inv_nomats.
Qed.

Lemma step_enable s : Inv s -> Inv (step s Enable).
Proof.
  intros [I0 I]. cbn [step]. split; cbn [inc]; [discriminate|].
  intros r0 V. change (valid s r0 = true) in V.
  apply (InvR_cat_change s _ r0 (I r0 V)); auto.
Qed.

Lemma step_materialize s n :
  Inv s -> hazard s (Materialize n) = 0 -> Inv (step s (Materialize n)).
Proof.
  intros Is Hz. pose proof Is as [I0 I]. cbn [step]. cbn [hazard] in Hz.
  destruct (inc s && is_head (cat s) n) eqn:G; [|exact Is].
  destruct (flat (cat s) n) eqn:F; [|discriminate]. cbn [negb] in Hz.
  destruct (b2d_ok s n) eqn:B; [|discriminate]. cbn [negb] in Hz.
  destruct (get (facts s) n) eqn:NF; [|discriminate].
  apply andb_true_iff in G. destruct G as [_ Hn].
  split; cbn [inc]; [discriminate|].
  intros r0 V. unfold valid in V. cbn [mats] in V.
  destruct (N.eq_dec n r0) as [<-|Hne].
  - constructor; cbn [cat facts]; auto.
    unfold mat. cbn [mats]. rewrite lookup_upd_eq.
    rewrite (query_inc_fresh s Is). unfold query_fresh. now apply val_flat.
  - rewrite lookup_upd_neq in V by auto. change (valid s r0 = true) in V.
    apply (InvR_cat_change s _ r0 (I r0 V)); auto.
    unfold mat. cbn [mats]. now rewrite lookup_upd_neq.
Qed.

Lemma step_inv s o : Inv s -> hazard s o = 0 -> Inv (step s o).
Proof.
  intros I Hz. destruct o.
  - now apply step_insert.
  - now apply step_delete.
  - now apply step_register.
  - now apply step_remove_clause.
  - now apply step_drop.
  - now apply step_enable.
  - now apply step_materialize.
Qed.

Lemma run_inv h : forall s, Inv s -> known_from s h = 0 -> Inv (run s h).
Proof.
  induction h as [|o h IH]; intros s I K; cbn [run fold_left]; auto.
  cbn [known_from] in K. destruct (hazard s o) eqn:Hz; [|discriminate].
  apply IH; auto. now apply step_inv.
Qed.

Theorem invisible_outside_known h :
  known_class h = 0 -> forall n, query_inc (run init h) n = query_fresh (run init h) n.
Proof.
  intros K n. apply query_inc_fresh. apply run_inv; auto. apply Inv_init.
Qed.

(* ------------------------------------------------------------------ histories of the property's own
   operations (no explicit materialization): nothing is ever materialized *)
Lemma step_nomats s o : is_materialize o = false -> mats s = [] -> mats (step s o) = [].
Proof.
  intros Hm Hs. destruct o; cbn [step]; try discriminate.
  - destruct (is_head (cat s) r); auto. cbn [mats]. rewrite Hs.
    destruct (_ && _); reflexivity.
  - destruct (negb _); auto. cbn [mats]. rewrite Hs. destruct (inc s); reflexivity.
  - destruct acc; auto. destruct (inc s); auto.
  - destruct (_ && _); auto.
  - destruct (is_head (cat s) n); auto. destruct (inc s); cbn [mats]; rewrite Hs; reflexivity.
  - exact Hs.
Qed.

Lemma run_nomats h : forall s, no_explicit_mat h = true -> mats s = [] -> mats (run s h) = [].
Proof.
  induction h as [|o h IH]; intros s Hn Hs; cbn [run fold_left]; auto.
  cbn [no_explicit_mat forallb] in Hn. apply andb_true_iff in Hn. destruct Hn as [Ho Hn].
  apply negb_true_iff in Ho. apply IH; auto. now apply step_nomats.
Qed.

Theorem invisible_without_explicit_mat h :
  no_explicit_mat h = true -> forall n, query_inc (run init h) n = query_fresh (run init h) n.
Proof.
  intros Hn n. apply query_inc_fresh. apply Inv_nomats. now apply run_nomats.
Qed.

(* nothing is ever marked materialized either: the snapshot's materialized set stays empty *)
Theorem nothing_materialized_without_explicit_mat h :
  no_explicit_mat h = true -> forall n, valid (run init h) n = false.
Proof. intros Hn n. apply valid_nil. now apply run_nomats. Qed.

(* ------------------------------------------------------------------ witnesses of the known classes *)
Definition t2 (a b : Z) : tuple := [VI64 a; VI64 b].
Definition cl_copy (h b : name) : clause :=
  mkClause (mkAtom h [TVar 0; TVar 1]) [LPos (mkAtom b [TVar 0; TVar 1])].
Definition cl_step (h b : name) : clause :=
  mkClause (mkAtom h [TVar 0; TVar 2]) [LPos (mkAtom h [TVar 0; TVar 1]); LPos (mkAtom b [TVar 1; TVar 2])].

(* e = 0, f = 1, q = 10, p = 11 *)
Definition w_derived : list op :=
  [Enable; Insert 0 [t2 1 2]; Register 10 (cl_copy 10 0) true; Register 11 (cl_copy 11 10) true;
   Materialize 11; Insert 0 [t2 3 4]].
Definition w_clause_added : list op :=
  [Enable; Insert 0 [t2 1 2]; Insert 1 [t2 7 8]; Register 11 (cl_copy 11 0) true;
   Materialize 11; Register 11 (cl_copy 11 1) true].
Definition w_clause_removed : list op :=
  [Enable; Insert 0 [t2 1 2]; Insert 1 [t2 7 8]; Register 11 (cl_copy 11 0) true;
   Register 11 (cl_copy 11 1) true; Materialize 11; RemoveClause 11 0].
Definition w_late_enable : list op :=
  [Insert 0 [t2 1 2]; Register 11 (cl_copy 11 0) true; Enable; Materialize 11; Insert 0 [t2 5 6]].
Definition w_facts_under_head : list op :=
  [Enable; Insert 11 [t2 9 9]; Insert 0 [t2 1 2]; Register 11 (cl_copy 11 0) true; Materialize 11].

Definition differs (h : list op) (n : name) : bool :=
  negb (list_eqb tuple_eqb (query_inc (run init h) n) (query_fresh (run init h) n)).

Lemma differs_neq h n :
  differs h n = true -> query_inc (run init h) n <> query_fresh (run init h) n.
Proof.
  unfold differs. intros D E. rewrite E in D.
  assert (R : forall l, list_eqb tuple_eqb l l = true).
  { induction l as [|t l IH]; cbn [list_eqb]; auto.
    rewrite IH, andb_true_r. clear. induction t as [|v t IH]; cbn [tuple_eqb list_eqb]; auto.
    unfold tuple_eqb in IH. rewrite IH, andb_true_r.
    destruct v; cbn [value_eqb]; auto using Z.eqb_refl, N.eqb_refl, Bool.eqb_reflx.
    - induction s as [|x s IHs]; cbn [list_eqb]; auto. now rewrite N.eqb_refl.
    - induction bits as [|x s IHs]; cbn [list_eqb]; auto. now rewrite N.eqb_refl.
    - induction xs as [|x s IHs]; cbn [list_eqb]; auto. now rewrite Z.eqb_refl. }
  rewrite R in D. discriminate.
Qed.

Lemma refuted_class (k : N) (h : list op) (n : name) :
  N.eqb (known_class h) k && differs h n = true ->
  exists h n, known_class h = k /\ query_inc (run init h) n <> query_fresh (run init h) n.
Proof.
  intros H. apply andb_true_iff in H. destruct H as [K D]. apply N.eqb_eq in K.
  exists h, n. split; auto. now apply differs_neq.
Qed.

Lemma refuted_derived :
  exists h n, known_class h = 1 /\ query_inc (run init h) n <> query_fresh (run init h) n.
Proof. apply (refuted_class 1 w_derived 11). vm_compute. reflexivity. Qed.
Lemma refuted_clause_added :
  exists h n, known_class h = 2 /\ query_inc (run init h) n <> query_fresh (run init h) n.
Proof. apply (refuted_class 2 w_clause_added 11). vm_compute. reflexivity. Qed.
Lemma refuted_clause_removed :
  exists h n, known_class h = 2 /\ query_inc (run init h) n <> query_fresh (run init h) n.
Proof. apply (refuted_class 2 w_clause_removed 11). vm_compute. reflexivity. Qed.
Lemma refuted_late_enable :
  exists h n, known_class h = 3 /\ query_inc (run init h) n <> query_fresh (run init h) n.
Proof. apply (refuted_class 3 w_late_enable 11). vm_compute. reflexivity. Qed.
Lemma refuted_facts_under_head :
  exists h n, known_class h = 4 /\ query_inc (run init h) n <> query_fresh (run init h) n.
Proof. apply (refuted_class 4 w_facts_under_head 11). vm_compute. reflexivity. Qed.
