(* C22, converse direction: a strict valid proof of height h puts its conclusion into
   bottom-up level h-1, so `depth_of` is exactly the least height of a complete proof. *)
From IL Require Import Model.Value Proofs.ValueEq Model.ProvDatalog Proofs.ProvDatalog Model.ProvWhyNot Proofs.ProvWhyNot.
From Coq Require Import Lia.
Open Scope N_scope.

Lemma add_fresh_adds I r ts t : In t ts -> In t (rel_tuples (add_fresh I r ts) r).
Proof.
  intros Hin. destruct (in_rel I r t) eqn:E.
  - apply add_fresh_mono. apply in_rel_In. exact E.
  - unfold add_fresh.
    assert (Hf : In t (fresh_tuples I r ts)).
    { unfold fresh_tuples. apply dedup_tuples_In. apply filter_In. split; [exact Hin | rewrite E; reflexivity]. }
    destruct (fresh_tuples I r ts) as [|x new] eqn:Ef; [destruct Hf|].
    rewrite rel_tuples_app, in_app_iff. right. cbn. rewrite N.eqb_refl, app_nil_r. exact Hf.
Qed.

Lemma fold_fresh_mono L M cs : forall acc r t,
  In t (rel_tuples acc r) ->
  In t (rel_tuples (fold_left (fun acc c => add_fresh acc (arel (chead c)) (clause_heads L M c)) cs acc) r).
Proof.
  induction cs as [|c cs IH]; intros acc r t H; cbn; [exact H|]. apply IH. apply add_fresh_mono. exact H.
Qed.

Lemma fold_fresh_contains L M cs : forall acc c t,
  In c cs -> In t (clause_heads L M c) ->
  In t (rel_tuples (fold_left (fun acc c => add_fresh acc (arel (chead c)) (clause_heads L M c)) cs acc) (arel (chead c))).
Proof.
  induction cs as [|c' cs IH]; intros acc c t Hc Ht; [destruct Hc|].
  cbn. destruct Hc as [->|Hc].
  - apply fold_fresh_mono. apply add_fresh_adds. exact Ht.
  - apply IH; assumption.
Qed.

Lemma level_step_contains P M L c t :
  In c P -> In t (clause_heads L M c) -> In t (rel_tuples (level_step P M L) (arel (chead c))).
Proof. unfold level_step. apply fold_fresh_contains. Qed.

Lemma level_mono P edb M k k' r t : (k <= k')%nat ->
  In t (rel_tuples (level P edb M k) r) -> In t (rel_tuples (level P edb M k') r).
Proof.
  induction 1 as [|k' Hle IH]; intros H; [exact H|]. cbn. apply level_step_mono. apply IH. exact H.
Qed.

(* a pattern named by a negation leaf is at least as general as the instantiated atom *)
Lemma pat_gen_matches th a pat tu :
  pat_gen th (aargs a) pat = true -> pat_matches (atom_pat th a) tu = true -> pat_matches pat tu = true.
Proof.
  intros Hg Hm. apply pat_matches_iff in Hm as [s [He Hs]].
  assert (HF : Forall2 (pos_rel s) pat tu).
  { unfold atom_tuple in Hs. apply atom_tuple_Forall2 in Hs. revert pat Hg.
    induction Hs as [|u x args t Hu HF IH]; intros pat Hg; destruct pat as [|q pat]; cbn in Hg; try discriminate; [constructor|].
    apply andb_true_iff in Hg as [Hq Hg]. constructor; [|apply IH; exact Hg].
    destruct u as [v|c], q as [w|y]; cbn in *; try discriminate.
    - destruct (lookup th v) as [z|] eqn:E; cbn in Hq; [|discriminate].
      apply value_eqb_spec in Hq; subst. apply He in E. congruence.
    - apply N.eqb_eq in Hq; subst. exact Hu.
    - apply value_eqb_spec in Hq. congruence. }
  destruct (match_pat_complete pat [] tu s (extends_nil s) HF) as [nb [E _]].
  unfold pat_matches. rewrite E. reflexivity.
Qed.

Section LevelComplete.
  Variable P : program.
  Variable edb M : db.
  (* every clause is safe and has a positive atom *)
  Variable Hok : forall c, In c P -> clause_safe c = true /\ pos_atoms (cbody c) <> [].

  Notation valid := (valid_proof false P edb M).
  Notation vbody := (valid_body false P edb M).
  Notation lev := (level P edb M).

  Definition in_level (k : ptree) : Prop :=
    forall r t, concl k = Some (r, t) -> In t (rel_tuples (lev (height k - 1)) r).

  Lemma body_sat th body kids (h : nat) :
    vbody th body kids ->
    Forall (fun k => valid k -> in_level k) kids ->
    Forall (fun k => (height k <= h)%nat) kids ->
    Forall (lit_sat (lev (h - 1)) M th) body.
  Proof.
    induction 1 as [th|th a ls k ks tu Ha Hc Hk Hb IH|th a ls ks pat Hg Hn Hb IH|th l o r ls ks x y Hx Hy Hcm Hb IH];
      intros HI Hh.
    - constructor.
    - inversion HI as [|? ? HIk HI']; subst. inversion Hh as [|? ? Hhk Hh']; subst.
      constructor; [|apply IH; assumption].
      exists tu. split; [exact Ha|]. eapply level_mono; [|apply (HIk Hk _ _ Hc)]. lia.
    - inversion HI as [|? ? HIk HI']; subst. inversion Hh as [|? ? Hhk Hh']; subst.
      constructor; [|apply IH; assumption].
      cbn. intros tu Hin. destruct (pat_matches (atom_pat th a) tu) eqn:E; [|reflexivity].
      pose proof (pat_gen_matches th a pat tu Hg E) as E2. rewrite (Hn tu Hin) in E2. discriminate.
    - constructor; [|apply IH; assumption]. cbn. unfold cmp_ok. rewrite Hx, Hy. exact Hcm.
  Qed.

  Lemma body_has_kid th body kids :
    vbody th body kids -> pos_atoms body <> [] -> exists k, In k kids /\ (1 <= height k)%nat.
  Proof.
    induction 1 as [th|th a ls k ks tu Ha Hc Hk Hb IH|th a ls ks pat Hg Hn Hb IH|th l o r ls ks x y Hx Hy Hcm Hb IH]; intros Hp.
    - cbn in Hp. congruence.
    - exists k. split; [left; reflexivity | destruct k; cbn; lia].
    - cbn in Hp. destruct (IH Hp) as [k [Hin Hh]]. exists k. split; [right; exact Hin | exact Hh].
    - cbn in Hp. exact (IH Hp).
  Qed.

  Lemma fold_max_ge (l : list ptree) k :
    In k l -> (height k <= fold_right (fun k m => Nat.max (height k) m) O l)%nat.
  Proof. induction l as [|x l IH]; intros []; subst; cbn; [lia | specialize (IH H); lia]. Qed.

  Theorem valid_in_level tr : valid tr -> in_level tr.
  Proof.
    induction tr as [d r tu|r tu ci th kids IH|r p a|r tu|] using ptree_ind2; intros Hv; inversion Hv; subst.
    - intros r' t' Hc. inversion Hc; subst. cbn. assumption.
    - discriminate.
    - intros r' t' Hc. cbn in Hc. inversion Hc; subst r' t'. clear Hc.
      set (h := fold_right (fun k m => Nat.max (height k) m) O kids).
      assert (Hcin : In c P) by (eapply nth_error_In; eauto).
      destruct (Hok c Hcin) as [Hsafe Hpos].
      match goal with Hb : valid_body _ _ _ _ _ (cbody c) kids |- _ =>
        destruct (body_has_kid th (cbody c) kids Hb Hpos) as [k0 [Hk0 Hh0]];
        pose proof (body_sat th (cbody c) kids h Hb IH) as Hsat
      end.
      assert (Hh1 : (1 <= h)%nat) by (pose proof (fold_max_ge kids k0 Hk0); unfold h; lia).
      assert (Hall : Forall (fun k => (height k <= h)%nat) kids).
      { apply Forall_forall. intros k Hk. apply fold_max_ge. exact Hk. }
      specialize (Hsat Hall).
      cbn [height]. fold h. replace (S h - 1)%nat with (S (h - 1)) by lia. cbn [level].
      apply level_step_contains; [exact Hcin|].
      apply clause_heads_complete; [exact Hsafe|]. exists th. split; assumption.
    - discriminate.
  Qed.

  (* depth_of is the least height (minus one) of a strict valid proof *)
  Theorem proof_height_bounds_depth tr r t fuel :
    valid tr -> concl tr = Some (r, t) -> (height tr - 1 <= fuel)%nat ->
    exists d, depth_of P edb M fuel r t = Some d /\ (d <= height tr - 1)%nat.
  Proof.
    intros Hv Hc Hf. pose proof (valid_in_level tr Hv r t Hc) as Hin.
    unfold depth_of.
    assert (G : forall n L k, (n <= fuel)%nat ->
               In t (rel_tuples (Nat.iter n (level_step P M) L) r) ->
               exists d, depth_from P M L fuel k r t = Some d /\ (d <= k + n)%nat).
    { clear. induction fuel as [|f IH]; intros n L k Hn Hin.
      - assert (n = 0)%nat by lia. subst. cbn in Hin. cbn. apply in_rel_In in Hin. rewrite Hin. exists k. split; [reflexivity | lia].
      - cbn. destruct (in_rel L r t) eqn:E; [exists k; split; [reflexivity | lia]|].
        destruct n as [|n]; [cbn in Hin; apply in_rel_In in Hin; congruence|].
        change (Nat.iter (S n) (level_step P M) L) with (level_step P M (Nat.iter n (level_step P M) L)) in Hin.
        rewrite <- iter_shift in Hin.
        destruct (IH n (level_step P M L) (S k)) as [d [Hd Hle]]; [lia | exact Hin|].
        exists d. split; [exact Hd | lia]. }
    rewrite level_iter in Hin. destruct (G _ edb O Hf Hin) as [d [Hd Hle]].
    exists d. split; [exact Hd | lia].
  Qed.
End LevelComplete.
