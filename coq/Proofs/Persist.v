(* Proofs/Persist.v — the WAL append path of the persist layer (C13, partial). *)
From Coq Require Import List NArith ZArith Bool Arith Lia.
From IL Require Import Model.FS Model.Persist Proofs.Catalog.
Import ListNotations.

(* ------------------------------------------------------------------ WAL records *)
Lemma wal_entries_map : forall l, wal_entries (map PWal l) = l.
Proof. induction l; cbn; auto. f_equal. exact IHl. Qed.

Lemma wal_entries_app : forall a b, wal_entries (a ++ b) = wal_entries a ++ wal_entries b.
Proof. intros. unfold wal_entries. apply flat_map_app. Qed.

(* ------------------------------------------------------------------ the WAL directory *)
(* nothing pending; the WAL file (if any) is fully durable and holds exactly the records E *)
Definition GoodWal (x : dir ptok) (E : list upd) : Prop :=
  dpend x = [] /\
  (forall n i, dent x n = Some i -> (i < next x)%nat) /\
  match dent x f_wal with
  | Some i => ino x i = mkInode (map PWal E) []
  | None => E = []
  end.

Definition wal_of (x : dir ptok) : list upd :=
  match d_read x f_wal with Some l => wal_entries l | None => [] end.

(* PersistWal::ensure_writer (+ directory sync of a new file) ; append_batch ; sync_all *)
Definition wal_append_steps (x : dir ptok) (us : list upd) : list (mstep ptok) :=
  (match d_read x f_wal with None => [MCreate D_WAL f_wal; MFsyncDir D_WAL] | Some _ => [] end) ++
  [MWrite D_WAL f_wal (map PWal us); MFsync D_WAL f_wal].

Lemma good_wal_read : forall x E, GoodWal x E -> wal_of x = E.
Proof.
  intros x E (Hp & _ & Hc). unfold wal_of, d_read. rewrite (vdent_nil x Hp).
  destruct (dent x f_wal) as [i|].
  - rewrite Hc. unfold vol. cbn [pends dur fold_left]. apply wal_entries_map.
  - subst E. reflexivity.
Qed.

Ltac wstep E0 :=
  repeat (progress (cbn -[crash_content];
                    unfold f_wal, D_WAL, d_create, d_write, d_fsync, d_rename, d_fsync_dir, set_ino, vdent, crash_dir, vol, d_read, empty_inode;
                    rewrite ?fold_left_app, ?firstn_nil, ?E0; neqb)).

Ltac wgood E0 Hlt Hi0 :=
  unfold GoodWal; wstep E0; split; [reflexivity|split; [bound Hlt|]];
  wstep E0; rewrite ?Hi0, ?crash_content_nil; wstep E0; try reflexivity.

Lemma crash_content_one : forall n t (d bs : list ptok),
  exists t', crash_content n t (mkInode d [PWrite bs]) = d ++ firstn t' bs /\ (t' <= length bs)%nat.
Proof.
  intros n t d bs. unfold crash_content. cbn [pends dur].
  destruct n as [|[|n]]; cbn [firstn fold_left nth_error apply_pend].
  - exists (Nat.min t (length bs)). split; [|lia].
    rewrite <- (firstn_firstn bs). rewrite firstn_all. reflexivity.
  - exists (length bs). rewrite firstn_all. split; [reflexivity|lia].
  - exists (length bs). rewrite firstn_all. destruct n; split; try reflexivity; lia.
Qed.

(* a crash at any point of a WAL append, with any loss choice: the surviving records are the old ones
   plus a PREFIX of the appended batch; after the fsync, all of it.  The crashed directory is again a
   good WAL directory (so the lemma applies to whatever runs after the restart). *)
Lemma wal_append_crash : forall x E us ch k, GoodWal x E ->
  let ms := wal_append_steps x us in
  (k <= length ms)%nat ->
  let y := crash_dir ch (run_dir (firstn k ms) x) in
  exists t, (t <= length us)%nat /\ GoodWal y (E ++ firstn t us) /\ (k = length ms -> t = length us).
Proof.
  intros [ino next dent dpend] E us [dc ic] k (Hp & Hlt & Hc). cbn in Hp, Hlt, Hc. subst dpend.
  unfold wal_append_steps, d_read, vdent. cbn [FS.dpend FS.dent fold_left].
  unfold f_wal in *.
  destruct (dent 0%N) as [i0|] eqn:E0; cbv zeta; cbn [app length]; intro Hk.
  - (* the WAL file exists *)
    assert (Hk' : (k = 0 \/ k = 1 \/ k = 2)%nat) by lia.
    destruct Hk' as [->|[->| ->]]; unfold run_dir; cbn [firstn fold_left step_on].
    + exists 0%nat. split; [lia|]. split; [|discriminate]. cbn [firstn]. rewrite app_nil_r. wgood E0 Hlt Hc.
    + destruct (crash_content_one (fst (ic i0)) (snd (ic i0)) (map PWal E) (map PWal us)) as (t' & Ht & Hl).
      rewrite map_length in Hl. exists t'. split; [exact Hl|]. split; [|discriminate].
      unfold GoodWal; wstep E0. split; [reflexivity|split; [bound Hlt|]]. wstep E0.
      rewrite Hc. cbn [pends dur app]. rewrite Ht, map_app, firstn_map. reflexivity.
    + exists (length us). split; [lia|]. split; [|reflexivity]. rewrite firstn_all.
      unfold GoodWal; wstep E0. split; [reflexivity|split; [bound Hlt|]]. wstep E0.
      rewrite Hc. cbn [pends dur app fold_left apply_pend]. rewrite crash_content_nil, map_app. reflexivity.
  - (* the WAL file is created first *)
    subst E.
    assert (Hk' : (k = 0 \/ k = 1 \/ k = 2 \/ k = 3 \/ k = 4)%nat) by lia.
    destruct Hk' as [->|[->|[->|[->| ->]]]]; unfold run_dir; cbn [firstn fold_left step_on].
    + exists 0%nat. split; [lia|]. split; [|discriminate]. cbn. wgood E0 Hlt Hlt.
    + exists 0%nat. split; [lia|]. split; [|discriminate]. cbn [firstn app map].
      destruct dc as [|dc]; wgood E0 Hlt Hlt.
    + exists 0%nat. split; [lia|]. split; [|discriminate]. cbn [firstn app map]. wgood E0 Hlt Hlt.
    + destruct (crash_content_one (fst (ic next)) (snd (ic next)) [] (map PWal us)) as (t' & Ht & Hl).
      rewrite map_length in Hl. exists t'. split; [exact Hl|]. split; [|discriminate].
      unfold GoodWal; wstep E0. split; [reflexivity|split; [bound Hlt|]]. wstep E0.
      cbn [app]. cbn [app] in Ht. rewrite Ht, firstn_map. reflexivity.
    + exists (length us). split; [lia|]. split; [|reflexivity]. rewrite firstn_all.
      unfold GoodWal; wstep E0. split; [reflexivity|split; [bound Hlt|]]. wstep E0.
      rewrite crash_content_nil. reflexivity.
Qed.

Lemma wal_append_done : forall x E us, GoodWal x E ->
  GoodWal (run_dir (wal_append_steps x us) x) (E ++ us).
Proof.
  intros x E us G.
  destruct (wal_append_crash x E us (1000%nat, fun _ => (1000%nat, 0%nat)) (length (wal_append_steps x us)) G (le_n _))
    as (t & Ht & Gy & Hd).
  rewrite (Hd eq_refl), firstn_all in Gy. rewrite firstn_all in Gy.
  (* the crashed state with nothing lost equals the live state up to GoodWal's observations *)
  clear Hd Ht t.
  destruct x as [ino next dent dpend]. destruct G as (Hp & Hlt & Hc). cbn in Hp, Hlt, Hc. subst dpend.
  revert Gy. unfold wal_append_steps, d_read, vdent. cbn [FS.dpend FS.dent fold_left]. unfold f_wal in *.
  destruct (dent 0%N) as [i0|] eqn:E0; unfold run_dir; cbn [app fold_left step_on]; intros (Gp & Glt & Gc).
  - unfold GoodWal; wstep E0. split; [reflexivity|split; [bound Hlt|]]. wstep E0.
    rewrite Hc. cbn [pends dur app fold_left apply_pend]. rewrite map_app. reflexivity.
  - subst E. unfold GoodWal; wstep E0. split; [reflexivity|split; [bound Hlt|]]. wstep E0. reflexivity.
Qed.

Lemma good_wal_empty : GoodWal empty_dir [].
Proof. unfold GoodWal, empty_dir. cbn. split; [reflexivity|split; [discriminate|reflexivity]]. Qed.

(* ------------------------------------------------------------------ a sequence of appends *)
(* crash points of appending the batches [bs] one after the other: (directory, records acknowledged
   so far, batch in flight, completed?) *)
Record wpoint := mkWp { wdir : dir ptok; wacked : list upd; wflight : list upd; wdone : bool }.

Fixpoint wal_points (x : dir ptok) (E : list upd) (bs : list (list upd)) : list wpoint :=
  match bs with
  | [] => [mkWp x E [] true]
  | us :: r =>
      let ms := wal_append_steps x us in
      map (fun j => mkWp (run_dir (firstn j ms) x) E us (Nat.eqb j (length ms))) (seq 0 (S (length ms)))
      ++ wal_points (run_dir ms x) (E ++ us) r
  end.

Definition wpoint_ok (p : wpoint) (ch : dchoice) : Prop :=
  exists t, (t <= length (wflight p))%nat /\
            wal_of (crash_dir ch (wdir p)) = wacked p ++ firstn t (wflight p) /\
            GoodWal (crash_dir ch (wdir p)) (wacked p ++ firstn t (wflight p)) /\
            (wdone p = true -> t = length (wflight p)).

Lemma wal_points_safe : forall bs x E, GoodWal x E ->
  Forall (fun p => forall ch, wpoint_ok p ch) (wal_points x E bs).
Proof.
  induction bs as [|us bs IH]; intros x E G.
  - cbn [wal_points]. constructor; [|constructor]. intro ch. exists 0%nat. cbn [wflight wacked wdir wdone length firstn].
    rewrite app_nil_r.
    assert (Gc : GoodWal (crash_dir ch x) E).
    { destruct x as [ino next dent dpend]. destruct ch as [dc ic]. destruct G as (Hp & Hlt & Hc). cbn in Hp, Hlt, Hc. subst dpend.
      unfold f_wal in *. destruct (dent 0%N) as [i0|] eqn:E0; [wgood E0 Hlt Hc|subst E; wgood E0 Hlt Hlt]. }
    split; [lia|]. split; [apply good_wal_read; exact Gc|]. split; [exact Gc|reflexivity].
  - cbn [wal_points]. apply Forall_app. split.
    + apply Forall_map. apply Forall_forall. intros j Hj ch. apply in_seq in Hj.
      destruct (wal_append_crash x E us ch j G) as (t & Ht & Gy & Hd); [lia|].
      exists t. cbn [wflight wacked wdir wdone]. split; [exact Ht|]. split; [apply good_wal_read; exact Gy|].
      split; [exact Gy|]. intro Hdone. apply Nat.eqb_eq in Hdone. apply Hd. exact Hdone.
    + apply IH. apply wal_append_done. exact G.
Qed.

(* ------------------------------------------------------------------ replay of a log *)
(* The value v is present after replaying the log l iff the diffs at its highest time sum up > 0.
   [lat l v] = (highest time, sum of diffs at that time) *)
Fixpoint lat_get (acc : list (N * (N * Z))) (v : N) : option (N * Z) :=
  match acc with
  | [] => None
  | (w, e) :: r => if N.eqb w v then Some e else lat_get r v
  end.

Lemma lat_get_latest_upd_same : forall acc u,
  lat_get (latest_upd acc u) (uval u) =
  match lat_get acc (uval u) with
  | None => Some (utime u, udiff u)
  | Some (t, d) => if N.ltb t (utime u) then Some (utime u, udiff u)
                   else if N.eqb t (utime u) then Some (t, (d + udiff u)%Z) else Some (t, d)
  end.
Proof.
  induction acc as [|[w [t d]] acc IH]; intro u; cbn [latest_upd lat_get].
  - rewrite N.eqb_refl. reflexivity.
  - destruct (N.eqb w (uval u)) eqn:Ew.
    + destruct (N.ltb t (utime u)); [|destruct (N.eqb t (utime u))]; cbn [lat_get]; rewrite Ew; reflexivity.
    + cbn [lat_get]. rewrite Ew. apply IH.
Qed.

Lemma lat_get_latest_upd_other : forall acc u v, v <> uval u ->
  lat_get (latest_upd acc u) v = lat_get acc v.
Proof.
  induction acc as [|[w [t d]] acc IH]; intros u v Hv; cbn [latest_upd lat_get].
  - destruct (N.eqb (uval u) v) eqn:E; auto. apply N.eqb_eq in E. congruence.
  - destruct (N.eqb w (uval u)) eqn:Ew.
    + apply N.eqb_eq in Ew. subst w.
      destruct (N.ltb t (utime u)); [|destruct (N.eqb t (utime u))]; cbn [lat_get];
        destruct (N.eqb (uval u) v) eqn:E; auto; apply N.eqb_eq in E; congruence.
    + cbn [lat_get]. destruct (N.eqb w v); auto.
Qed.

(* ---- sorted sets of N (strictly increasing lists) *)
Inductive ssorted : list N -> Prop :=
| ss_nil : ssorted []
| ss_one : forall x, ssorted [x]
| ss_cons : forall x y l, (x < y)%N -> ssorted (y :: l) -> ssorted (x :: y :: l).

Lemma ssorted_tail : forall x l, ssorted (x :: l) -> ssorted l.
Proof. intros x l H. inversion H; subst; auto. constructor. Qed.

Lemma ssorted_lt : forall l x y, ssorted (x :: l) -> In y l -> (x < y)%N.
Proof.
  induction l as [|z l IH]; intros x y H Hin; [contradiction|].
  inversion H; subst. destruct Hin as [->|Hin]; auto.
  assert (z < y)%N by (apply IH; auto). lia.
Qed.

Lemma in_insert_sorted : forall l x y, In y (insert_sorted x l) <-> y = x \/ In y l.
Proof.
  induction l as [|z l IH]; intros x y; cbn [insert_sorted].
  - cbn. intuition.
  - destruct (N.ltb x z) eqn:E1; [cbn; intuition|].
    destruct (N.eqb x z) eqn:E2.
    + apply N.eqb_eq in E2. subst z. cbn. intuition.
    + cbn [In]. rewrite IH. intuition.
Qed.

Lemma ssorted_insert : forall l x, ssorted l -> ssorted (insert_sorted x l).
Proof.
  induction l as [|z l IH]; intros x H; cbn [insert_sorted]; [constructor|].
  destruct (N.ltb x z) eqn:E1.
  - apply N.ltb_lt in E1. constructor; auto.
  - destruct (N.eqb x z) eqn:E2; auto.
    apply N.ltb_ge in E1. apply N.eqb_neq in E2.
    pose proof (IH x (ssorted_tail _ _ H)) as S.
    destruct l as [|w l]; cbn [insert_sorted] in *.
    + constructor; [lia|constructor].
    + inversion H; subst.
      destruct (N.ltb x w); [constructor; [lia|exact S]|].
      destruct (N.eqb x w); [exact H|]. constructor; auto.
Qed.

Lemma in_remove_val : forall l x y, ssorted l -> (In y (remove_val x l) <-> In y l /\ y <> x).
Proof.
  induction l as [|z l IH]; intros x y H; cbn [remove_val]; [cbn; intuition|].
  destruct (N.eqb x z) eqn:E.
  - apply N.eqb_eq in E. subst z. split.
    + intro Hin. split; [right; exact Hin|]. pose proof (ssorted_lt _ _ _ H Hin). lia.
    + intros [[->|Hin] Hne]; [congruence|exact Hin].
  - apply N.eqb_neq in E. cbn [In]. rewrite (IH x y (ssorted_tail _ _ H)). split.
    + intros [->|[Hin Hne]]; split; auto.
    + intros [[->|Hin] Hne]; auto.
Qed.

Lemma ssorted_remove : forall l x, ssorted l -> ssorted (remove_val x l).
Proof.
  induction l as [|z l IH]; intros x H; cbn [remove_val]; [constructor|].
  destruct (N.eqb x z); [exact (ssorted_tail _ _ H)|].
  pose proof (IH x (ssorted_tail _ _ H)) as S.
  destruct (remove_val x l) as [|w r] eqn:R; [constructor|].
  constructor; [|exact S].
  assert (In w (remove_val x l)) by (rewrite R; left; reflexivity).
  apply (in_remove_val l x w (ssorted_tail _ _ H)) in H0. destruct H0 as [Hin _].
  apply (ssorted_lt _ _ _ H Hin).
Qed.

(* two strictly sorted lists with the same elements are equal *)
Lemma ssorted_ext : forall a b, ssorted a -> ssorted b -> (forall x, In x a <-> In x b) -> a = b.
Proof.
  induction a as [|x a IH]; intros b Ha Hb Hab.
  - destruct b as [|y b]; auto. exfalso. apply (proj2 (Hab y)). left; reflexivity.
  - destruct b as [|y b]; [exfalso; apply (proj1 (Hab x)); left; reflexivity|].
    assert (x = y).
    { destruct (proj1 (Hab x) (or_introl eq_refl)) as [E|Hin]; [congruence|].
      destruct (proj2 (Hab y) (or_introl eq_refl)) as [E|Hin']; [congruence|].
      pose proof (ssorted_lt _ _ _ Ha Hin'). pose proof (ssorted_lt _ _ _ Hb Hin). lia. }
    subst y. f_equal. apply IH; [exact (ssorted_tail _ _ Ha)|exact (ssorted_tail _ _ Hb)|].
    intro z. split; intro Hz.
    + destruct (proj1 (Hab z) (or_intror Hz)) as [E|Hin]; auto.
      subst z. pose proof (ssorted_lt _ _ _ Ha Hz). lia.
    + destruct (proj2 (Hab z) (or_intror Hz)) as [E|Hin]; auto.
      subst z. pose proof (ssorted_lt _ _ _ Hb Hz). lia.
Qed.

(* ---- the latest-entry table *)
Definition lat (l : list upd) : list (N * (N * Z)) := fold_left latest_upd l [].
Definition pos_in (L : list (N * (N * Z))) (v : N) : bool :=
  match lat_get L v with Some (_, s) => Z.ltb 0 s | None => false end.

Lemma latest_upd_keys : forall acc u, NoDup (map fst acc) -> NoDup (map fst (latest_upd acc u)) /\
  (forall w, In w (map fst (latest_upd acc u)) <-> w = uval u \/ In w (map fst acc)).
Proof.
  induction acc as [|[w [t d]] acc IH]; intros u ND; cbn [latest_upd map fst].
  - split; [constructor; [intros []|constructor]|]. intro x. cbn. intuition.
  - inversion ND as [|? ? Hn ND']; subst.
    destruct (N.eqb w (uval u)) eqn:Ew.
    + apply N.eqb_eq in Ew. subst w.
      destruct (N.ltb t (utime u)); [|destruct (N.eqb t (utime u))]; cbn [map fst]; (split; [exact ND|]);
        intro x; cbn; intuition.
    + destruct (IH u ND') as [ND2 K]. cbn [map fst]. split.
      * constructor; auto. intro Hin. apply K in Hin. destruct Hin as [E|Hin]; [|contradiction].
        apply N.eqb_neq in Ew. congruence.
      * intro x. cbn [In]. rewrite K. intuition.
Qed.

Lemma fold_latest_nodup : forall us acc, NoDup (map fst acc) -> NoDup (map fst (fold_left latest_upd us acc)).
Proof.
  induction us as [|u us IH]; intros acc ND; cbn [fold_left]; auto.
  apply IH. apply latest_upd_keys. exact ND.
Qed.

(* membership in the replayed set *)
Lemma replay_fold_in : forall L acc v, NoDup (map fst L) -> ssorted acc ->
  (forall w, In w acc -> ~ In w (map fst L)) ->
  let r := fold_left (fun a e => if Z.ltb 0 (snd (snd e)) then insert_sorted (fst e) a else a) L acc in
  ssorted r /\ (In v r <-> In v acc \/ pos_in L v = true).
Proof.
  induction L as [|[w [t s]] L IH]; intros acc v ND Sa Hdis; cbv zeta; cbn [fold_left].
  - split; [exact Sa|]. unfold pos_in. cbn. intuition discriminate.
  - inversion ND as [|? ? Hn ND']; subst. cbn [fst snd].
    set (acc' := if Z.ltb 0 s then insert_sorted w acc else acc).
    assert (Sa' : ssorted acc') by (unfold acc'; destruct (Z.ltb 0 s); auto using ssorted_insert).
    assert (Hdis' : forall x, In x acc' -> ~ In x (map fst L)).
    { intros x Hx Hin. unfold acc' in Hx. destruct (Z.ltb 0 s).
      - apply in_insert_sorted in Hx. destruct Hx as [->|Hx]; [contradiction|].
        apply (Hdis x Hx). right. exact Hin.
      - apply (Hdis x Hx). right. exact Hin. }
    destruct (IH acc' v ND' Sa' Hdis') as [S I]. split; [exact S|].
    cbv zeta in I. rewrite I. unfold pos_in. cbn [lat_get].
    destruct (N.eqb w v) eqn:E.
    + apply N.eqb_eq in E. subst w.
      assert (Hnone : lat_get L v = None).
      { clear -Hn. induction L as [|[x e] L IHL]; auto. cbn [lat_get map fst In] in *.
        destruct (N.eqb x v) eqn:Ex; [apply N.eqb_eq in Ex; subst; exfalso; apply Hn; left; reflexivity|].
        apply IHL. intro. apply Hn. right. assumption. }
      rewrite Hnone. unfold acc'. destruct (Z.ltb 0 s).
      * rewrite in_insert_sorted. intuition.
      * intuition discriminate.
    + unfold acc'. destruct (Z.ltb 0 s); [rewrite in_insert_sorted|]; apply N.eqb_neq in E; intuition congruence.
Qed.

Lemma replay_in : forall l v,
  ssorted (replay_to_current l) /\ (In v (replay_to_current l) <-> pos_in (lat l) v = true).
Proof.
  intros l v. unfold replay_to_current.
  destruct (replay_fold_in (lat l) [] v) as [S I].
  - unfold lat. apply fold_latest_nodup. constructor.
  - constructor.
  - intros w [].
  - split; [exact S|]. cbv zeta in I. unfold lat in *. rewrite I. intuition.
Qed.

(* ---- appending one operation's updates at a fresh, highest time *)
Definition op_upds (r : N) (t : N) (ins : bool) (vs : list N) : list upd :=
  map (fun v => mkUpd r v t (if ins then 1 else (-1))%Z) vs.

Definition times_below (L : list (N * (N * Z))) (t : N) (ins : bool) : Prop :=
  forall w tw sw, lat_get L w = Some (tw, sw) ->
    (tw < t)%N \/ (tw = t /\ if ins then (0 < sw)%Z else (sw < 0)%Z).

Lemma fold_op_pos : forall vs L r t ins v, times_below L t ins ->
  pos_in (fold_left latest_upd (op_upds r t ins vs) L) v =
  if existsb (N.eqb v) vs then ins else pos_in L v.
Proof.
  induction vs as [|x vs IH]; intros L r t ins v TB; cbn [op_upds map fold_left existsb]; [reflexivity|].
  fold (op_upds r t ins vs).
  set (u := mkUpd r x t (if ins then 1 else (-1))%Z).
  assert (TB' : times_below (latest_upd L u) t ins).
  { intros w tw sw Hg. destruct (N.eq_dec w x) as [->|Hne].
    - change x with (uval u) in Hg. rewrite lat_get_latest_upd_same in Hg. cbn [uval utime udiff u] in Hg.
      destruct (lat_get L x) as [[t0 d0]|] eqn:G0.
      + destruct (TB _ _ _ G0) as [Hlt|[-> Hs]].
        * apply N.ltb_lt in Hlt. rewrite Hlt in Hg. injection Hg as <- <-. right. split; auto. destruct ins; lia.
        * rewrite N.ltb_irrefl, N.eqb_refl in Hg. injection Hg as <- <-. right. split; auto. destruct ins; lia.
      + injection Hg as <- <-. right. split; auto. destruct ins; lia.
    - rewrite lat_get_latest_upd_other in Hg by (cbn; exact Hne). apply (TB _ _ _ Hg). }
  rewrite (IH _ r t ins v TB').
  destruct (N.eqb v x) eqn:E; cbn [orb].
  - apply N.eqb_eq in E. subst v.
    destruct (existsb (N.eqb x) vs); auto.
    unfold pos_in. change x with (uval u) at 1. rewrite lat_get_latest_upd_same. cbn [uval utime udiff u].
    destruct (lat_get L x) as [[t0 d0]|] eqn:G0.
    + destruct (TB _ _ _ G0) as [Hlt|[-> Hs]].
      * apply N.ltb_lt in Hlt. rewrite Hlt. destruct ins; reflexivity.
      * rewrite N.ltb_irrefl, N.eqb_refl. destruct ins; [apply Z.ltb_lt|apply Z.ltb_ge]; lia.
    + destruct ins; reflexivity.
  - destruct (existsb (N.eqb v) vs); auto.
    unfold pos_in. rewrite lat_get_latest_upd_other; auto. cbn. apply N.eqb_neq in E. exact E.
Qed.

Lemma in_apply_live : forall vs ins l v, ssorted l ->
  ssorted (apply_live ins vs l) /\
  (In v (apply_live ins vs l) <-> if existsb (N.eqb v) vs then ins = true else In v l).
Proof.
  induction vs as [|x vs IH]; intros ins l v S; unfold apply_live in *; cbn [fold_left existsb].
  - split; [exact S|reflexivity].
  - set (l' := if ins then insert_sorted x l else remove_val x l).
    assert (S' : ssorted l') by (unfold l'; destruct ins; auto using ssorted_insert, ssorted_remove).
    destruct (IH ins l' v S') as [S2 I]. split; [exact S2|]. rewrite I.
    destruct (N.eqb v x) eqn:E; cbn [orb].
    + apply N.eqb_eq in E. subst v. destruct (existsb (N.eqb x) vs); [reflexivity|].
      unfold l'. destruct ins.
      * rewrite in_insert_sorted. intuition.
      * rewrite (in_remove_val l x x S). intuition discriminate.
    + apply N.eqb_neq in E. destruct (existsb (N.eqb v) vs); [reflexivity|].
      unfold l'. destruct ins.
      * rewrite in_insert_sorted. intuition.
      * rewrite (in_remove_val l x v S). intuition.
Qed.

(* all times recorded in the table are below t *)
Definition log_below (l : list upd) (t : N) : Prop := forall u, In u l -> (utime u < t)%N.

Lemma lat_times : forall l acc t, (forall w tw sw, lat_get acc w = Some (tw, sw) -> (tw < t)%N) -> log_below l t ->
  forall w tw sw, lat_get (fold_left latest_upd l acc) w = Some (tw, sw) -> (tw < t)%N.
Proof.
  induction l as [|u l IH]; intros acc t Ha Hl w tw sw Hg; cbn [fold_left] in Hg; [eapply Ha; eauto|].
  eapply (IH (latest_upd acc u) t); [|intros x Hx; apply Hl; right; exact Hx|exact Hg].
  intros w' tw' sw' Hg'. destruct (N.eq_dec w' (uval u)) as [->|Hne].
  - rewrite lat_get_latest_upd_same in Hg'. pose proof (Hl u (or_introl eq_refl)) as Hu.
    destruct (lat_get acc (uval u)) as [[t0 d0]|] eqn:G0.
    + pose proof (Ha _ _ _ G0). destruct (N.ltb t0 (utime u)); [|destruct (N.eqb t0 (utime u))];
        injection Hg' as <- <-; auto.
    + injection Hg' as <- <-. auto.
  - rewrite lat_get_latest_upd_other in Hg' by exact Hne. eapply Ha; eauto.
Qed.

(* THE SPECIFICATION LINK: replaying a log extended by one operation's updates, stamped with a time
   above everything in the log, is the set-semantics application of that operation *)
Theorem replay_fresh : forall l r t ins vs, log_below l t ->
  replay_to_current (l ++ op_upds r t ins vs) = apply_live ins vs (replay_to_current l).
Proof.
  intros l r t ins vs Hl.
  destruct (replay_in l 0%N) as [S0 _].
  apply ssorted_ext.
  - apply (replay_in _ 0%N).
  - apply (in_apply_live vs ins _ 0%N S0).
  - intro v. destruct (replay_in (l ++ op_upds r t ins vs) v) as [_ I1]. rewrite I1.
    destruct (in_apply_live vs ins (replay_to_current l) v S0) as [_ I2]. rewrite I2.
    unfold lat. rewrite fold_left_app. fold (lat l).
    rewrite fold_op_pos.
    + destruct (existsb (N.eqb v) vs); [reflexivity|].
      destruct (replay_in l v) as [_ I3]. rewrite I3. reflexivity.
    + intros w tw sw Hg. left. unfold lat in Hg.
      eapply (lat_times l [] t); [intros ? ? ? H; discriminate|exact Hl|exact Hg].
Qed.
