(* Proofs/SyntaxPaths.v — the three submission paths give the rule the direct path gives *)
From IL Require Import Model.Syntax Model.SyntaxWf Proofs.SyntaxBase Proofs.SyntaxRule.
Open Scope N_scope.

Lemma ser_term_id t : ser_lossy_term t = false -> ser_term t = t.
Proof. destruct t; cbn; intros H; try discriminate; reflexivity. Qed.
Lemma ser_terms_id l : existsb ser_lossy_term l = false -> List.map ser_term l = l.
Proof.
  induction l as [|t l IH]; cbn [existsb List.map]; intros H. reflexivity.
  apply orb_false_iff in H as [H1 H2]. rewrite ser_term_id, IH by auto. reflexivity.
Qed.
Lemma existsb_app_false {A} (p : A -> bool) a b : existsb p (a ++ b) = false ->
  existsb p a = false /\ existsb p b = false.
Proof. rewrite existsb_app. apply orb_false_iff. Qed.

Lemma ser_rule_id r : ser_lossy r = false -> ser_rule r = r.
Proof.
  destruct r as [[rn args] body]. unfold ser_lossy, rule_terms. cbn [atom_terms]. intros H.
  apply orb_false_iff in H as [H1 H2]. apply existsb_app_false in H1 as [Ha Hb].
  cbn [ser_rule ser_atom]. rewrite (ser_terms_id args Ha). f_equal.
  induction body as [|b body IH]; cbn [List.map]. reflexivity.
  cbn [flat_map existsb] in *. apply existsb_app_false in Hb as [Hb1 Hb2].
  apply orb_false_iff in H2 as [H21 H22]. rewrite (IH Hb2 H22). f_equal.
  destruct b as [[r l]|[r l]|l o r|]; cbn [bpred_terms atom_terms ser_bpred ser_atom existsb] in *;
    try discriminate.
  - rewrite (ser_terms_id l Hb1). reflexivity.
  - rewrite (ser_terms_id l Hb1). reflexivity.
  - apply orb_false_iff in Hb1 as [A B]. apply orb_false_iff in B as [B _].
    rewrite !ser_term_id by auto. reflexivity.
Qed.

Lemma paths_agree E text r :
  parse_rule E text = Some r -> wf_rule E r = true ->
  path_direct E text = Some r /\ path_printed E text = Some r /\
  (ser_lossy r = false -> path_persistent E text = Some r).
Proof.
  intros P W. pose proof (parse_rule_rt E r W) as RT.
  unfold path_direct, path_printed, path_persistent, reparse. rewrite P, RT.
  repeat split; auto. intros S. rewrite (ser_rule_id r S). exact RT.
Qed.
