(* Aggregation specification (Model/Datalog.v eval_clause_agg): each group is reported once. *)
From IL Require Import Model.Value Model.Datalog Proofs.ValueEq Proofs.DatalogMisc.
From Coq Require Import Lia.
Open Scope N_scope.

Definition is_agg (h : hterm) : bool := match h with HAgg _ _ => true | _ => false end.

(* the group part of an output row: its values at the non-aggregate head positions *)
Fixpoint proj_groups (hs : list hterm) (t : tuple) : tuple :=
  match hs, t with
  | h :: r, v :: t' => if is_agg h then proj_groups r t' else v :: proj_groups r t'
  | _, _ => []
  end.

Lemma agg_go_proj xs grp hs : forall key t,
  agg_go xs grp hs key = Some t ->
  length key = length (filter (fun h => negb (is_agg h)) hs) -> proj_groups hs t = key.
Proof.
  induction hs as [|h hs IH]; intros key t H Hl; cbn in H.
  - inversion H; subst. cbn in Hl. destruct key; [reflexivity|discriminate].
  - destruct h as [x|v|f x]; cbn [filter is_agg negb] in Hl.
    + destruct key as [|k key]; [discriminate|]. cbn in Hl.
      destruct (agg_go xs grp hs key) as [t0|] eqn:E; [|discriminate].
      inversion H; subst. cbn. f_equal. apply (IH key t0 E). lia.
    + destruct key as [|k key]; [discriminate|]. cbn in Hl.
      destruct (agg_go xs grp hs key) as [t0|] eqn:E; [|discriminate].
      inversion H; subst. cbn. f_equal. apply (IH key t0 E). lia.
    + destruct (index_of x xs) as [i|]; [|discriminate].
      destruct (agg_value f _) as [v|]; [|discriminate].
      destruct (agg_go xs grp hs key) as [t0|] eqn:E; [|discriminate].
      inversion H; subst. cbn. apply (IH key t0 E). exact Hl.
Qed.

Lemma agg_head_proj xs rows hs key t :
  agg_head xs rows key hs = Some t ->
  length key = length (filter (fun h => negb (is_agg h)) hs) -> proj_groups hs t = key.
Proof. unfold agg_head. apply agg_go_proj. Qed.

Lemma group_key_len xs hs row k : group_key xs hs row = Some k ->
  length k = length (filter (fun h => negb (is_agg h)) hs).
Proof.
  unfold group_key. intros H. apply inst_head_shape in H. destruct H as [H _]. rewrite H.
  f_equal. clear. induction hs as [|h hs IH]; cbn; [reflexivity|]. destruct h; cbn; rewrite ?IH; reflexivity.
Qed.

Lemma groups_once d c : NoDup (map (proj_groups (cargs c)) (eval_clause_agg d c)).
Proof.
  unfold eval_clause_agg.
  set (xs := nodupN _). set (rows := sat_rows d c).
  set (keys0 := flat_map (fun row => opt_to_list (group_key xs (cargs c) row)) rows).
  assert (Hlen : forall k, In k (dedup_tuples keys0) -> length k = length (filter (fun h => negb (is_agg h)) (cargs c))).
  { intros k Hk. apply (proj1 (dedup_tuples_In _ _)) in Hk. unfold keys0 in Hk. apply in_flat_map in Hk.
    destruct Hk as [row [_ Hk]]. destruct (group_key xs (cargs c) row) as [k0|] eqn:E; cbn in Hk; [|destruct Hk].
    destruct Hk as [<-|[]]. eapply group_key_len; eauto. }
  pose proof (dedup_tuples_NoDup keys0) as Hnd.
  revert Hlen Hnd. generalize (dedup_tuples keys0). intros keys Hlen Hnd.
  induction keys as [|k keys IH]; cbn; [constructor|].
  inversion Hnd as [|? ? Hnk Hnd']; subst.
  assert (IH' := IH (fun k' Hk' => Hlen k' (or_intror Hk')) Hnd').
  destruct (agg_head xs rows k (cargs c)) as [t|] eqn:E; cbn; [|exact IH'].
  constructor; [|exact IH'].
  rewrite (agg_head_proj xs rows (cargs c) k t E (Hlen k (or_introl eq_refl))).
  intros Hin. apply Hnk. apply in_map_iff in Hin. destruct Hin as [t' [Ep Ht']].
  apply in_flat_map in Ht'. destruct Ht' as [k' [Hk' Ht']].
  destruct (agg_head xs rows k' (cargs c)) as [t''|] eqn:E'; cbn in Ht'; [|destruct Ht'].
  destruct Ht' as [<-|[]].
  rewrite (agg_head_proj xs rows (cargs c) k' t'' E' (Hlen k' (or_intror Hk'))) in Ep. subst. exact Hk'.
Qed.

(* count is the number of (distinct) satisfying valuations of the group *)
Lemma sat_rows_nodup d c : NoDup (sat_rows d c).
Proof. unfold sat_rows. apply dedup_tuples_NoDup. Qed.

Lemma count_value vals : agg_value ACount vals = Some (VI64 (Z.of_nat (length vals))).
Proof. reflexivity. Qed.
