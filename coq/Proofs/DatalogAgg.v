(* Aggregation specification (Model/Datalog.v eval_clause_agg): each group is reported once. *)
From IL Require Import Model.Value Model.Datalog Proofs.ValueEq Proofs.DatalogMisc.
From Coq Require Import Lia.
Open Scope N_scope.

Definition is_agg (h : hterm) : bool := match h with HAgg _ _ => true | _ => false end.

(* the group part of an output row: its values at the non-aggregate head positions *)
Fixpoint proj_groups (hs : list hterm) (t : tuple) : tuple :=
  match hs, t with
  | h :: r, v :: t' => if is_agg h then proj_groups r t' else v :: proj_groups r t'
  | _, _ => []
  end.

Lemma agg_go_proj xs grp hs : forall key t,
  agg_go xs grp hs key = Some t ->
  length key = length (filter (fun h => negb (is_agg h)) hs) -> proj_groups hs t = key.
Proof.
  induction hs as [|h hs IH]; intros key t H Hl; cbn in H.
  - inversion H; subst. cbn in Hl. destruct key; [reflexivity|discriminate].
  - destruct h as [x|v|f x]; cbn [filter is_agg negb] in Hl.
    + destruct key as [|k key]; [discriminate|]. cbn in Hl.
      destruct (agg_go xs grp hs key) as [t0|] eqn:E; [|discriminate].
      inversion H; subst. cbn. f_equal. apply (IH key t0 E). lia.
    + destruct key as [|k key]; [discriminate|]. cbn in Hl.
      destruct (agg_go xs grp hs key) as [t0|] eqn:E; [|discriminate].
      inversion H; subst. cbn. f_equal. apply (IH key t0 E). lia.
    + destruct (index_of x xs) as [i|]; [|discriminate].
      destruct (agg_value f _) as [v|]; [|discriminate].
      destruct (agg_go xs grp hs key) as [t0|] eqn:E; [|discriminate].
      inversion H; subst. cbn. apply (IH key t0 E). exact Hl.
Qed.

Lemma agg_head_proj xs rows hs key t :
  agg_head xs rows key hs = Some t ->
  length key = length (filter (fun h => negb (is_agg h)) hs) -> proj_groups hs t = key.
Proof. unfold agg_head. apply agg_go_proj. Qed.

Lemma group_key_len xs hs row k : group_key xs hs row = Some k ->
  length k = length (filter (fun h => negb (is_agg h)) hs).
Proof.
  unfold group_key. intros H. apply inst_head_shape in H. destruct H as [H _]. rewrite H.
  f_equal. clear. induction hs as [|h hs IH]; cbn; [reflexivity|]. destruct h; cbn; rewrite ?IH; reflexivity.
Qed.

Lemma groups_once d c : NoDup (map (proj_groups (cargs c)) (eval_clause_agg d c)).
Proof.
  unfold eval_clause_agg.
  set (xs := nodupN _). set (rows := sat_rows d c).
  set (keys0 := flat_map (fun row => opt_to_list (group_key xs (cargs c) row)) rows).
  assert (Hlen : forall k, In k (dedup_tuples keys0) -> length k = length (filter (fun h => negb (is_agg h)) (cargs c))).
  { intros k Hk. apply (proj1 (dedup_tuples_In _ _)) in Hk. unfold keys0 in Hk. apply in_flat_map in Hk.
    destruct Hk as [row [_ Hk]]. destruct (group_key xs (cargs c) row) as [k0|] eqn:E; cbn in Hk; [|destruct Hk].
    destruct Hk as [<-|[]]. eapply group_key_len; eauto. }
  pose proof (dedup_tuples_NoDup keys0) as Hnd.
  revert Hlen Hnd. generalize (dedup_tuples keys0). intros keys Hlen Hnd.
  induction keys as [|k keys IH]; cbn; [constructor|].
  inversion Hnd as [|? ? Hnk Hnd']; subst.
  assert (IH' := IH (fun k' Hk' => Hlen k' (or_intror Hk')) Hnd').
  destruct (agg_head xs rows k (cargs c)) as [t|] eqn:E; cbn; [|exact IH'].
  constructor; [|exact IH'].
  rewrite (agg_head_proj xs rows (cargs c) k t E (Hlen k (or_introl eq_refl))).
  intros Hin. apply Hnk. apply in_map_iff in Hin. destruct Hin as [t' [Ep Ht']].
  apply in_flat_map in Ht'. destruct Ht' as [k' [Hk' Ht']].
  destruct (agg_head xs rows k' (cargs c)) as [t''|] eqn:E'; cbn in Ht'; [|destruct Ht'].
  destruct Ht' as [<-|[]].
  rewrite (agg_head_proj xs rows (cargs c) k' t'' E' (Hlen k' (or_intror Hk'))) in Ep. subst. exact Hk'.
Qed.

(* count is the number of (distinct) satisfying valuations of the group *)
Lemma sat_rows_nodup d c : NoDup (sat_rows d c).
Proof. unfold sat_rows. apply dedup_tuples_NoDup. Qed.

Lemma count_value vals : agg_value ACount vals = Some (VI64 (Z.of_nat (length vals))).
Proof. reflexivity. Qed.

(* ---- count is exact: for a head `h(groups..., count<x>)` every output row is its group key followed
   by the number of distinct satisfying valuations in that group *)
Lemma agg_go_plain xs grp gs : forallb (fun h => negb (is_agg h)) gs = true -> forall rest key t,
  agg_go xs grp (gs ++ rest) key = Some t ->
  exists k1 k2 t2, key = k1 ++ k2 /\ length k1 = length gs /\ agg_go xs grp rest k2 = Some t2 /\ t = k1 ++ t2.
Proof.
  induction gs as [|g gs IH]; intros Hg rest key t H; cbn in *.
  - exists [], key, t. repeat split; auto.
  - apply andb_true_iff in Hg. destruct Hg as [Hg1 Hg2].
    destruct g as [x|v|f x]; cbn in Hg1; try discriminate.
    + destruct key as [|k key]; [discriminate|].
      destruct (agg_go xs grp (gs ++ rest) key) as [t0|] eqn:E; [|discriminate]. inversion H; subst.
      destruct (IH Hg2 rest key t0 E) as [k1 [k2 [t2 [-> [Hl [H2 ->]]]]]].
      exists (k :: k1), k2, t2. repeat split; cbn; auto.
    + destruct key as [|k key]; [discriminate|].
      destruct (agg_go xs grp (gs ++ rest) key) as [t0|] eqn:E; [|discriminate]. inversion H; subst.
      destruct (IH Hg2 rest key t0 E) as [k1 [k2 [t2 [-> [Hl [H2 ->]]]]]].
      exists (k :: k1), k2, t2. repeat split; cbn; auto.
Qed.

Lemma row_of_length th xs row : row_of th xs = Some row -> length row = length xs.
Proof.
  unfold row_of. intros H. apply inst_head_shape in H. destruct H as [H _]. rewrite H, map_length. reflexivity.
Qed.

Lemma sat_rows_length d c row : In row (sat_rows d c) ->
  length row = length (nodupN (body_vars (freshen_body 0 (cbody c)))).
Proof.
  unfold sat_rows. intros H. apply (proj1 (dedup_tuples_In _ _)) in H. apply in_flat_map in H.
  destruct H as [th [_ H]]. destruct (row_of th _) as [r|] eqn:E; cbn in H; [|destruct H].
  destruct H as [<-|[]]. eapply row_of_length; eauto.
Qed.

Lemma index_of_lt x xs i : index_of x xs = Some i -> (i < length xs)%nat.
Proof.
  revert i; induction xs as [|y xs IH]; intros i H; cbn in H; [discriminate|].
  destruct (N.eqb x y); [inversion H; cbn; lia|].
  destruct (index_of x xs) as [j|]; [|discriminate]. inversion H; subst. cbn. specialize (IH j eq_refl). lia.
Qed.

Lemma count_column (grp : list tuple) i n : (forall row, In row grp -> length row = n) -> (i < n)%nat ->
  length (flat_map (fun row => opt_to_list (nth_error row i)) grp) = length grp.
Proof.
  intros Hl Hi. induction grp as [|row grp IH]; cbn; [reflexivity|].
  rewrite app_length, IH; [|intros r Hr; apply Hl; right; exact Hr].
  assert (length row = n) by (apply Hl; left; reflexivity).
  destruct (nth_error row i) eqn:E; [reflexivity|]. apply nth_error_None in E. lia.
Qed.

Lemma count_exact d c gs x : cargs c = gs ++ [HAgg ACount x] ->
  forallb (fun h => negb (is_agg h)) gs = true ->
  forall t, In t (eval_clause_agg d c) ->
  exists k, length k = length gs /\
    t = k ++ [VI64 (Z.of_nat (length (filter (fun row =>
                 match group_key (nodupN (body_vars (freshen_body 0 (cbody c)))) (cargs c) row with
                 | Some k' => tuple_eqb k' k | None => false end) (sat_rows d c))))].
Proof.
  intros Hc Hg t Ht. unfold eval_clause_agg in Ht.
  set (xs := nodupN (body_vars (freshen_body 0 (cbody c)))) in *.
  apply in_flat_map in Ht. destruct Ht as [key [Hk Ht]].
  destruct (agg_head xs (sat_rows d c) key (cargs c)) as [t0|] eqn:E; cbn in Ht; [|destruct Ht].
  destruct Ht as [<-|[]]. unfold agg_head in E. rewrite Hc in E.
  set (grp := filter _ (sat_rows d c)) in E.
  destruct (agg_go_plain xs grp gs Hg [HAgg ACount x] key t0 E) as [k1 [k2 [t2 [Hkey [Hl [H2 Ht0]]]]]].
  cbn in H2. destruct (index_of x xs) as [i|] eqn:Ei; [|discriminate].
  destruct k2 as [|z k2]; cbn in H2.
  - inversion H2; subst t2. rewrite app_nil_r in Hkey. subst k1. exists key. split; [exact Hl|].
    subst t0. f_equal. f_equal. f_equal. f_equal.
    unfold grp. rewrite <- Hc.
    apply (count_column _ i (length xs)); [|eapply index_of_lt; eauto].
    intros row Hr. apply filter_In in Hr. destruct Hr as [Hr _]. apply sat_rows_length in Hr. exact Hr.
  - (* the key is longer than the plain part of the head: impossible, group keys have one value per plain head term *)
    exfalso.
    assert (Hkl : length key = length (filter (fun h => negb (is_agg h)) (cargs c))).
    { apply (proj1 (dedup_tuples_In _ _)) in Hk. apply in_flat_map in Hk. destruct Hk as [row [_ Hk]].
      destruct (group_key xs (cargs c) row) as [k0|] eqn:Eg; cbn in Hk; [|destruct Hk].
      destruct Hk as [<-|[]]. eapply group_key_len; eauto. }
    rewrite Hc, filter_app in Hkl. cbn in Hkl. rewrite app_nil_r in Hkl.
    assert (Hf : filter (fun h => negb (is_agg h)) gs = gs).
    { clear - Hg. induction gs as [|g gs IH]; cbn in *; [reflexivity|].
      apply andb_true_iff in Hg. destruct Hg as [H1 H2]. rewrite H1, (IH H2). reflexivity. }
    rewrite Hf, Hkey, app_length in Hkl. cbn in Hkl. lia.
Qed.
