(* Proofs/PersistSweep.v — exhaustive enumeration of loss choices for bounded histories (C13, supporting). *)
From Coq Require Import List NArith ZArith Bool Arith.
From IL Require Import Model.FS Model.Persist.
Import ListNotations.

(* every cut of one inode: n surviving pending operations, and every torn length of the next write *)
Definition enum_inode (i : inode ptok) : list (nat * nat) :=
  flat_map (fun n => (n, 0%nat) ::
                     match nth_error (pends i) n with
                     | Some (PWrite bs) => map (fun t => (n, t)) (seq 1 (length bs - 1))
                     | _ => []
                     end)
           (seq 0 (S (length (pends i)))).

(* all assignments of cuts to the inodes 0..k-1 of a directory (only inodes with pending data vary) *)
Fixpoint enum_inodes (x : dir ptok) (k : nat) : list (nat -> nat * nat) :=
  match k with
  | O => [fun _ => (1000%nat, 0%nat)]
  | S j =>
      let rest := enum_inodes x j in
      match pends (ino x j) with
      | [] => rest
      | _ => flat_map (fun c => map (fun f => fun i => if Nat.eqb i j then c else f i) rest) (enum_inode (ino x j))
      end
  end.

Definition enum_dir (x : dir ptok) : list dchoice :=
  flat_map (fun dc => map (fun f => (dc, f)) (enum_inodes x (next x))) (seq 0 (S (length (dpend x)))).

Definition enum_fs (f : fsys ptok) : list (N -> dchoice) :=
  flat_map (fun c0 => flat_map (fun c1 => flat_map (fun c2 => map (fun c3 =>
    fun d : N => if N.eqb d 0 then c0 else if N.eqb d 1 then c1 else if N.eqb d 2 then c2 else c3)
    (enum_dir (f 3%N))) (enum_dir (f 2%N))) (enum_dir (f 1%N))) (enum_dir (f 0%N)).

(* class 1 of Checks/C13.v at the model level: a multi-tuple write in flight whose WAL write is torn *)
Definition torn_wal_choice (f : fsys ptok) (ch : N -> dchoice) : bool :=
  existsb (fun i => Nat.ltb 0 (snd (snd (ch D_WAL) i))) (seq 0 (next (f D_WAL))).
Definition multi_write (o : option pop) : bool :=
  match o with
  | Some (PIns _ vs) | Some (PDel _ vs) => Nat.ltb 1 (length vs)
  | _ => false
  end.

Definition sweep_point (dsync : bool) (p : ppoint) : bool :=
  forallb (fun ch => pallowed p (precover dsync (crash_fs ch (ppfs p))) ||
                     (multi_write (ppop p) && negb (ppdone p) && torn_wal_choice (ppfs p) ch))
          (enum_fs (ppfs p)).

Definition sweep (dsync : bool) (bufsz : nat) (h : list pop) : bool :=
  forallb (sweep_point dsync) (ppoints dsync bufsz ps_init h).

Definition sweep_count (dsync : bool) (bufsz : nat) (h : list pop) : nat :=
  fold_left (fun a p => (a + length (enum_fs (ppfs p)))%nat) (ppoints dsync bufsz ps_init h) 0%nat.

Definition sweep_histories : list (nat * list pop) :=
  [ (1%nat, [PIns 0 [1%N]; PIns 0 [2%N]; PDel 0 [1%N]]);
    (2%nat, [PIns 0 [2%N; 3%N]; PIns 0 [1%N]; PDel 0 [2%N; 1%N]]);
    (10%nat, [PIns 0 [1%N]; PIns 1 [0%N]; PDel 0 [1%N]; PRestart []; PIns 0 [3%N]]);
    (3%nat, [PIns 0 [1%N]; PIns 1 [0%N]; PSave []; PDel 0 [1%N]; PIns 0 [2%N]; PCompact []; PIns 0 [1%N]]);
    (2%nat, [PIns 0 [1%N]; PIns 0 [1%N]; PDel 0 [1%N]; PDel 0 [3%N]; PIns 0 [3%N]; PRestart []]);
    (1%nat, [PIns 0 [1%N]; PIns 1 [2%N]; PCompact [1%N; 0%N]; PDel 1 [2%N]; PSave []; PRestart []]) ].

(* all histories up to a given length over a small operation menu *)
Definition sweep_menu : list pop :=
  [PIns 0 [1%N]; PIns 0 [1%N; 2%N]; PDel 0 [1%N]; PIns 1 [0%N]; PDel 0 [2%N; 1%N]; PSave []; PCompact []; PRestart []].
Fixpoint all_hist (n : nat) : list (list pop) :=
  match n with
  | O => [[]]
  | S k => [] :: flat_map (fun h => map (fun o => o :: h) sweep_menu) (all_hist k)
  end.
Definition sweep_all (dsync : bool) (n : nat) : bool :=
  forallb (fun b => forallb (sweep dsync b) (all_hist n)) [1%nat; 2%nat; 3%nat].
