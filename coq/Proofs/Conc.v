(* Generic lemmas about Model/Conc.v: an invariant preserved by every atomic step holds
   after every schedule, for every number of threads. *)
From IL Require Import Model.Conc.

Section Sched.
  Context {G L : Type}.
  Variable step : nat -> L -> G -> L * G.

  Lemma nth_error_upd_same : forall (ls : list L) t l l0,
      nth_error ls t = Some l0 -> nth_error (upd ls t l) t = Some l.
  Proof.
    induction ls as [|x r IH]; intros [|t] l l0 H; cbn in *; try discriminate; auto.
    eapply IH; eauto.
  Qed.

  Lemma nth_error_upd_other : forall (ls : list L) t t' l,
      t <> t' -> nth_error (upd ls t l) t' = nth_error ls t'.
  Proof.
    induction ls as [|x r IH]; intros [|t] [|t'] l H; cbn; auto; try congruence.
  Qed.

  Lemma nth_error_upd : forall (ls : list L) t t' l x,
      nth_error (upd ls t l) t' = Some x ->
      (t' = t /\ x = l) \/ (t' <> t /\ nth_error ls t' = Some x).
  Proof.
    induction ls as [|y r IH]; intros [|t] [|t'] l x H; cbn in *; try discriminate.
    - left. split; congruence.
    - right. split; auto.
    - right. split; auto.
    - destruct (IH _ _ _ _ H) as [[-> ->]|[Hn He]]; [left|right]; auto.
  Qed.

  Lemma length_upd : forall (ls : list L) t l, length (upd ls t l) = length ls.
  Proof. induction ls as [|x r IH]; intros [|t] l; cbn; auto. Qed.

  Lemma Forall_upd : forall (P : L -> Prop) (ls : list L) t l,
      Forall P ls -> P l -> Forall P (upd ls t l).
  Proof.
    induction ls as [|x r IH]; intros [|t] l HF Hl; cbn; auto.
    - inversion HF; subst. constructor; auto.
    - inversion HF; subst. constructor; auto.
  Qed.

  (* an invariant over (all local states, global state) *)
  Theorem run_sched_inv (I : list L -> G -> Prop) :
    (forall ls g t l, nth_error ls t = Some l -> I ls g ->
                      I (upd ls t (fst (step t l g))) (snd (step t l g))) ->
    forall sched ls g, I ls g ->
                       I (fst (run_sched step sched ls g)) (snd (run_sched step sched ls g)).
  Proof.
    intros Hstep. induction sched as [|t r IH]; intros ls g HI; cbn; auto.
    destruct (nth_error ls t) as [l|] eqn:E; auto.
    specialize (Hstep ls g t l E HI).
    destruct (step t l g) as [l' g'] eqn:S. cbn in Hstep. apply IH. exact Hstep.
  Qed.

  (* an invariant over the global state alone *)
  Corollary run_sched_inv_global (I : G -> Prop) :
    (forall t l g, I g -> I (snd (step t l g))) ->
    forall sched ls g, I g -> I (snd (run_sched step sched ls g)).
  Proof.
    intros H sched ls g HI.
    apply (run_sched_inv (fun _ g => I g)); auto.
  Qed.

  Lemma run_sched_app : forall s1 s2 ls g,
      run_sched step (s1 ++ s2) ls g =
      run_sched step s2 (fst (run_sched step s1 ls g)) (snd (run_sched step s1 ls g)).
  Proof.
    induction s1 as [|t r IH]; intros s2 ls g; cbn; auto.
    destruct (nth_error ls t); auto. destruct (step t l g). apply IH.
  Qed.
End Sched.
