(* C05: every rewrite of Optimizer::optimize preserves the BAG denoted by a well-formed plan.
   Structure: one generic theorem about the bottom-up traversal [bu] (a local rewrite that
   preserves the invariant, the schema width and the bag, does so at every node of the tree),
   then one small lemma per local rewrite. *)
From Coq Require Import Permutation.
From IL Require Import Model.Value Model.IR Model.Opt Proofs.ValueEq Proofs.IR.
Open Scope nat_scope.

(* ------------------------------------------------------------------ small list facts *)
Lemma forallb_lt_Forall n l : forallb (fun i => i <? n) l = true <-> Forall (fun i => i < n) l.
Proof.
  rewrite forallb_forall, Forall_forall. split; intros H x Hx.
  - apply Nat.ltb_lt. auto.
  - apply Nat.ltb_lt. auto.
Qed.

Lemma project_in_range p (t : tuple) :
  Forall (fun i => i < length t) p -> project p t = map (fun i => nth i t VNull) p.
Proof.
  induction 1 as [|i p Hi _ IH]; cbn; [reflexivity|].
  unfold project in IH. rewrite IH.
  destruct (nth_error t i) eqn:E.
  - cbn. f_equal. symmetry. apply nth_error_nth. exact E.
  - apply nth_error_None in E. lia.
Qed.

Lemma project_length p (t : tuple) :
  Forall (fun i => i < length t) p -> length (project p t) = length p.
Proof. intros H. rewrite project_in_range by exact H. apply map_length. Qed.

Lemma project_seq_id (t : tuple) : project (seq 0 (length t)) t = t.
Proof.
  rewrite project_in_range.
  - apply nth_ext with (d := VNull) (d' := VNull).
    + rewrite map_length, seq_length. reflexivity.
    + intros n Hn. rewrite map_length, seq_length in Hn.
      rewrite (nth_indep _ VNull (nth 0 t VNull)) by (rewrite map_length, seq_length; exact Hn).
      rewrite (map_nth (fun i => nth i t VNull) (seq 0 (length t)) 0 n).
      rewrite seq_nth by exact Hn. reflexivity.
  - apply Forall_forall. intros i Hi. apply in_seq in Hi. lia.
Qed.

Lemma nat_list_eqb_eq a b : nat_list_eqb a b = true -> a = b.
Proof.
  revert b. induction a as [|x a IH]; intros [|y b]; cbn; try discriminate; [reflexivity|].
  intros H. apply andb_true_iff in H. destruct H as [H1 H2]. apply Nat.eqb_eq in H1. subst.
  f_equal. apply IH. exact H2.
Qed.

Lemma filter_true {A} (l : list A) : filter (fun _ => true) l = l.
Proof. induction l; cbn; congruence. Qed.

Lemma filter_filter {A} (f g : A -> bool) l :
  filter g (filter f l) = filter (fun x => f x && g x) l.
Proof.
  induction l as [|a l IH]; cbn; [reflexivity|].
  destruct (f a); cbn; [destruct (g a); cbn; congruence | exact IH].
Qed.

Lemma filter_flat_map {A B} (f : B -> bool) (g : A -> list B) l :
  filter f (flat_map g l) = flat_map (fun a => filter f (g a)) l.
Proof.
  induction l as [|a l IH]; cbn; [reflexivity|]. rewrite filter_app, IH. reflexivity.
Qed.

Lemma flat_map_filter {A B} (f : A -> bool) (g : A -> list B) l :
  flat_map g (filter f l) = flat_map (fun a => if f a then g a else []) l.
Proof.
  induction l as [|a l IH]; cbn; [reflexivity|]. destruct (f a); cbn; rewrite IH; reflexivity.
Qed.

Lemma flat_map_ext_in {A B} (f g : A -> list B) l :
  (forall a, In a l -> f a = g a) -> flat_map f l = flat_map g l.
Proof.
  induction l as [|a l IH]; cbn; intros H; [reflexivity|].
  rewrite (H a (or_introl eq_refl)), IH; [reflexivity | intros; apply H; right; assumption].
Qed.

(* ------------------------------------------------------------------ excluding = projection on the non-key columns *)
Lemma memb_In c l : memb c l = true <-> In c l.
Proof.
  unfold memb. rewrite existsb_exists. split.
  - intros [x [Hx E]]. apply Nat.eqb_eq in E. subst. exact Hx.
  - intros H. exists c. split; [exact H | apply Nat.eqb_refl].
Qed.

Lemma excl_from_spec rk (t : tuple) : forall i,
  excl_from i rk t =
  map (fun c => nth (c - i) t VNull) (filter (fun c => negb (memb c rk)) (seq i (length t))).
Proof.
  induction t as [|v t IH]; intros i; cbn [excl_from length seq filter map]; [reflexivity|].
  fold (memb i rk). destruct (memb i rk); cbn [negb].
  - rewrite IH. apply map_ext_in. intros c Hc. apply filter_In in Hc. destruct Hc as [Hc _].
    apply in_seq in Hc. replace (c - i) with (S (c - S i)) by lia. reflexivity.
  - cbn [map]. rewrite Nat.sub_diag. cbn [nth]. f_equal.
    rewrite IH. apply map_ext_in. intros c Hc. apply filter_In in Hc. destruct Hc as [Hc _].
    apply in_seq in Hc. replace (c - i) with (S (c - S i)) by lia. reflexivity.
Qed.

Lemma excluding_spec rk (t : tuple) :
  excluding rk t = map (fun c => nth c t VNull) (nonkey_cols (length t) rk).
Proof.
  unfold excluding, nonkey_cols. rewrite excl_from_spec.
  apply map_ext. intros c. rewrite Nat.sub_0_r. reflexivity.
Qed.

Lemma nonkey_cols_lt w rk c : In c (nonkey_cols w rk) -> c < w.
Proof. unfold nonkey_cols. intros H. apply filter_In in H. destruct H as [H _]. apply in_seq in H. lia. Qed.

Lemma excluding_nil (t : tuple) : excluding [] t = t.
Proof.
  unfold excluding. generalize 0. induction t as [|v t IH]; intros i; cbn; [reflexivity|].
  rewrite IH. reflexivity.
Qed.

Lemma tuple_eqb_nil : tuple_eqb [] [] = true.
Proof. reflexivity. Qed.

(* the join in one formula (the cartesian special case is the general one with no keys) *)
Lemma den_join_general lk rk L R :
  den_join lk rk L R =
  flat_map (fun a =>
    flat_map (fun b => if tuple_eqb (project lk a) (project rk b) then [a ++ excluding rk b] else [])
             R) L.
Proof.
  unfold den_join. destruct lk as [|k lk], rk as [|k' rk]; cbn [is_nil andb]; try reflexivity.
  apply flat_map_ext_in. intros a _. cbn [project flat_map].
  induction R as [|b R IH]; cbn; [reflexivity|]. rewrite excluding_nil, IH. reflexivity.
Qed.

(* ------------------------------------------------------------------ predicates under column renaming *)
Lemma vm_get_remap g vm x :
  vm_get (map (fun nc : N * nat => (fst nc, g (snd nc))) vm) x = option_map g (vm_get vm x).
Proof.
  induction vm as [|[y c] vm IH]; cbn; [reflexivity|]. destruct (N.eqb x y); [reflexivity | exact IH].
Qed.

Lemma vm_get_In vm x c : vm_get vm x = Some c -> In c (map snd vm).
Proof.
  induction vm as [|[y c'] vm IH]; cbn; [discriminate|].
  destruct (N.eqb x y); [intros E; inversion E; left; reflexivity | intros E; right; apply IH; exact E].
Qed.

Lemma eval_arith_remap g e vm (t t' : tuple) :
  (forall c, In c (map snd vm) -> nth_error t c = nth_error t' (g c)) ->
  eval_arith e t' (map (fun nc => (fst nc, g (snd nc))) vm) = eval_arith e t vm.
Proof.
  intros H. induction e as [z|x|op l IHl r IHr]; cbn.
  - reflexivity.
  - rewrite vm_get_remap. destruct (vm_get vm x) eqn:E; cbn; [|reflexivity].
    rewrite (H n (vm_get_In _ _ _ E)). reflexivity.
  - rewrite IHl, IHr. reflexivity.
Qed.

Lemma eval_pred_remap g p (t t' : tuple) :
  (forall c, In c (pred_cols p) -> nth_error t c = nth_error t' (g c)) ->
  eval_pred (remap_pred g p) t' = eval_pred p t.
Proof.
  induction p; cbn [pred_cols remap_pred eval_pred]; intros H.
  - rewrite <- (H col (or_introl eq_refl)). reflexivity.
  - rewrite <- (H col (or_introl eq_refl)). reflexivity.
  - rewrite <- (H col (or_introl eq_refl)). reflexivity.
  - rewrite <- (H col (or_introl eq_refl)). reflexivity.
  - rewrite <- (H l (or_introl eq_refl)). rewrite <- (H r (or_intror (or_introl eq_refl))). reflexivity.
  - rewrite (eval_arith_remap g e vm t t') by (intros c Hc; apply H; right; exact Hc).
    rewrite <- (H col (or_introl eq_refl)). reflexivity.
  - rewrite (eval_arith_remap g e vm t t') by (intros c Hc; apply H; exact Hc). reflexivity.
  - rewrite IHp1, IHp2; [reflexivity | |]; intros c Hc; apply H; apply in_or_app; [right | left]; exact Hc.
  - rewrite IHp1, IHp2; [reflexivity | |]; intros c Hc; apply H; apply in_or_app; [right | left]; exact Hc.
  - reflexivity.
  - reflexivity.
Qed.

Lemma remap_pred_id p : remap_pred (fun c => c) p = p.
Proof.
  assert (Hvm : forall vm : varmap, map (fun nc => (fst nc, snd nc)) vm = vm).
  { induction vm as [|[a b] vm IH]; cbn; congruence. }
  induction p; cbn; try rewrite Hvm; congruence.
Qed.

Lemma eval_pred_agree p (t t' : tuple) :
  (forall c, In c (pred_cols p) -> nth_error t c = nth_error t' c) -> eval_pred p t' = eval_pred p t.
Proof. intros H. rewrite <- (remap_pred_id p) at 1. apply eval_pred_remap. exact H. Qed.

(* ------------------------------------------------------------------ the invariant *)
Definition Inv (d : db) (t : ir) : Prop := wfd d t = true /\ novoid t = true.

Ltac split_andb :=
  repeat match goal with
         | H : _ && _ = true |- _ => apply andb_true_iff in H; destruct H
         | H : negb _ = true |- _ => apply negb_true_iff in H
         end.
Ltac solve_andb := repeat (apply andb_true_iff; split); try assumption; try reflexivity.

(* every tuple a well-formed plan produces has the width of the plan's schema *)
Lemma den_agg_width gb aggs L (w : nat) :
  Forall (fun t : tuple => length t = w) L -> Forall (fun i => i < w) gb ->
  Forall (fun t : tuple => length t = length gb + length aggs) (den_agg gb aggs L).
Proof.
  intros HL Hgb. unfold den_agg. apply Forall_forall. intros x Hx.
  apply in_map_iff in Hx. destruct Hx as [k [E Hk]]. subst x.
  rewrite app_length, map_length. f_equal.
  rewrite dedup_tuples_In in Hk. apply in_map_iff in Hk. destruct Hk as [t [E Ht]]. subst k.
  apply project_length. rewrite Forall_forall in HL. rewrite (HL t Ht). exact Hgb.
Qed.

Lemma compute_tuple_length es (t : tuple) : length (compute_tuple es t) = length t + length es.
Proof.
  unfold compute_tuple. revert t. induction es as [|e es IH]; intros t; cbn; [lia|].
  rewrite IH, app_length. cbn. lia.
Qed.

Ltac norm_hyps :=
  split_andb;
  repeat match goal with
         | H : (_ =? _) = true |- _ => apply Nat.eqb_eq in H
         | H : forallb (fun i => i <? _) _ = true |- _ => apply forallb_lt_Forall in H
         end.

Lemma first_nonzero_const ws w0 :
  ws <> [] -> (forall w, In w ws -> w = w0) -> first_nonzero ws = w0.
Proof.
  intros NE H. unfold first_nonzero. destruct (find (fun w => negb (w =? 0)) ws) eqn:E.
  - apply find_some in E. apply H. tauto.
  - destruct ws as [|w ws]; [congruence|].
    pose proof (find_none _ _ E w (or_introl eq_refl)) as Hz. apply negb_false_iff, Nat.eqb_eq in Hz.
    rewrite <- (H w (or_introl eq_refl)). symmetry. exact Hz.
Qed.

Lemma wf_union_width x ts :
  forallb (fun y => width y =? width x) ts = true -> width (Union (x :: ts)) = width x.
Proof.
  intros H. cbn [width]. apply first_nonzero_const; [discriminate|].
  intros w Hw. apply in_map_iff in Hw. destruct Hw as [y [E Hy]]. subst w.
  destruct Hy as [<-|Hy]; [reflexivity|]. apply Nat.eqb_eq. exact (proj1 (forallb_forall _ _) H y Hy).
Qed.

Lemma den_width d t :
  wfd d t = true -> novoid t = true -> Forall (fun x : tuple => length x = width t) (den t d).
Proof.
  induction t using ir_ind'; cbn [wfd novoid den width]; intros W V.
  - (* Scan *) apply Forall_forall. intros x Hx.
    apply Nat.eqb_eq. exact (proj1 (forallb_forall _ _) W x Hx).
  - (* Map *) norm_hyps.
    pose proof (IHt ltac:(assumption) ltac:(assumption)) as IH. rewrite Forall_forall in IH.
    apply Forall_forall. intros x Hx. apply in_map_iff in Hx. destruct Hx as [y [E Hy]]. subst x.
    rewrite project_length by (rewrite (IH y Hy); assumption). congruence.
  - (* Filter *) norm_hyps.
    pose proof (IHt ltac:(assumption) ltac:(assumption)) as IH. rewrite Forall_forall in *. intros x Hx.
    apply filter_In in Hx. apply IH. tauto.
  - (* Join *) norm_hyps.
    pose proof (IHt1 ltac:(assumption) ltac:(assumption)) as IH1.
    pose proof (IHt2 ltac:(assumption) ltac:(assumption)) as IH2. rewrite Forall_forall in IH1, IH2.
    apply Forall_forall. intros x Hx. rewrite den_join_general in Hx.
    apply in_flat_map in Hx. destruct Hx as [a [Ha Hx]]. apply in_flat_map in Hx. destruct Hx as [b [Hb Hx]].
    destruct (tuple_eqb (project lk a) (project rk b)); [|destruct Hx].
    destruct Hx as [E|[]]. subst x. rewrite app_length, excluding_spec, map_length.
    rewrite (IH1 a Ha), (IH2 b Hb). lia.
  - (* Distinct *)
    pose proof (IHt W V) as IH. rewrite Forall_forall in *. intros x Hx.
    rewrite dedup_tuples_In in Hx. auto.
  - (* Union *)
    apply andb_true_iff in W, V. destruct W as [W1 W2], V as [_ V2].
    apply Forall_forall. intros x Hx. apply in_flat_map in Hx. destruct Hx as [y [Hy Hx]].
    rewrite Forall_forall in H.
    assert (Wy : wfd d y = true) by (exact (proj1 (forallb_forall _ _) W1 y Hy)).
    assert (Vy : novoid y = true) by (exact (proj1 (forallb_forall _ _) V2 y Hy)).
    pose proof (H y Hy Wy Vy) as IH. rewrite Forall_forall in IH. rewrite (IH x Hx).
    destruct ts as [|z ts]; [destruct Hy|]. pose proof (wf_union_width z ts W2) as HU. cbn [width] in HU. rewrite HU.
    destruct Hy as [->|Hy]; [reflexivity|].
    apply Nat.eqb_eq. exact (proj1 (forallb_forall _ _) W2 y Hy).
  - (* Aggregate *) norm_hyps.
    match goal with H : length s = _ |- _ => rewrite H end.
    apply den_agg_width with (w := width t); [apply IHt; assumption | assumption].
  - (* Antijoin *) norm_hyps.
    pose proof (IHt1 ltac:(assumption) ltac:(assumption)) as IH1. rewrite Forall_forall in *. intros x Hx.
    unfold den_antijoin in Hx. apply filter_In in Hx.
    match goal with H : length s = _ |- _ => rewrite H end. apply IH1. tauto.
  - (* Compute *)
    pose proof (IHt W V) as IH. rewrite Forall_forall in *. intros x Hx.
    apply in_map_iff in Hx. destruct Hx as [y [E Hy]]. subst x. rewrite compute_tuple_length, (IH y Hy). reflexivity.
  - (* HnswScan *) constructor.
  - (* FlatMap *) norm_hyps.
    pose proof (IHt ltac:(assumption) ltac:(assumption)) as IH. rewrite Forall_forall in IH.
    apply Forall_forall. intros x Hx. unfold den_flatmap in Hx. apply in_flat_map in Hx.
    destruct Hx as [y [Hy Hx]]. destruct (eval_opred fp (project p y)); [|destruct Hx].
    destruct Hx as [E|[]]. subst x.
    rewrite project_length by (rewrite (IH y Hy); assumption). congruence.
  - (* JoinFlatMap *) norm_hyps.
    pose proof (IHt1 ltac:(assumption) ltac:(assumption)) as IH1.
    pose proof (IHt2 ltac:(assumption) ltac:(assumption)) as IH2. rewrite Forall_forall in IH1, IH2.
    apply Forall_forall. intros x Hx. unfold den_jfm in Hx.
    apply in_flat_map in Hx. destruct Hx as [a [Ha Hx]]. apply in_flat_map in Hx. destruct Hx as [b [Hb Hx]].
    destruct (tuple_eqb (project lk a) (project rk b)); [|destruct Hx].
    destruct (eval_opred fp (project p (a ++ b))); [|destruct Hx].
    destruct Hx as [E|[]]. subst x.
    rewrite project_length by (rewrite app_length, (IH1 a Ha), (IH2 b Hb); assumption). congruence.
Qed.

(* ------------------------------------------------------------------ the generic traversal theorem *)
(* [b] may replace [a]: it keeps the invariant, the schema width and the bag *)
Definition Step (d : db) (a b : ir) : Prop :=
  Inv d b /\ width b = width a /\ Permutation (den b d) (den a d).

Lemma Step_refl d a : Inv d a -> Step d a a.
Proof. intros H. repeat split; try apply H. apply Permutation_refl. Qed.

Lemma Step_trans d a b c : Step d a b -> Step d b c -> Step d a c.
Proof.
  intros [I1 [W1 P1]] [I2 [W2 P2]]. repeat split; try apply I2; [congruence|].
  eapply Permutation_trans; eassumption.
Qed.

Definition local_ok (d : db) (f : ir -> ir) : Prop := forall a, Inv d a -> Step d a (f a).

Ltac inv_step :=
  unfold Step, Inv in *; cbn [wfd novoid width den] in *;
  repeat match goal with
         | H : _ /\ _ |- _ => destruct H
         end.

Ltac widths := repeat match goal with H : width _ = width _ |- _ => rewrite H; clear H end.
Ltac cong_tac lem :=
  inv_step; split_andb; widths; repeat split; solve_andb;
  try (apply negb_true_iff; assumption); try congruence;
  try (apply lem; assumption).

Lemma cong_Map d x x' p s : Inv d (Map x p s) -> Step d x x' -> Step d (Map x p s) (Map x' p s).
Proof. intros I S. cong_tac (@Permutation_map tuple tuple). Qed.

Lemma cong_Filter d x x' p : Inv d (Filter x p) -> Step d x x' -> Step d (Filter x p) (Filter x' p).
Proof. intros I S. cong_tac (@Permutation_filter tuple). Qed.

Lemma cong_Distinct d x x' : Inv d (Distinct x) -> Step d x x' -> Step d (Distinct x) (Distinct x').
Proof. intros I S. cong_tac dedup_tuples_perm. Qed.

Lemma cong_Aggregate d x x' gb aggs s :
  Inv d (Aggregate x gb aggs s) -> Step d x x' -> Step d (Aggregate x gb aggs s) (Aggregate x' gb aggs s).
Proof. intros I S. cong_tac den_agg_perm. Qed.

Lemma cong_Compute d x x' es : Inv d (Compute x es) -> Step d x x' -> Step d (Compute x es) (Compute x' es).
Proof. intros I S. cong_tac (@Permutation_map tuple tuple). Qed.

Lemma cong_FlatMap d x x' p fp s :
  Inv d (FlatMap x p fp s) -> Step d x x' -> Step d (FlatMap x p fp s) (FlatMap x' p fp s).
Proof. intros I S. cong_tac den_flatmap_perm. Qed.

Lemma cong_Join d l l' r r' lk rk s :
  Inv d (Join l r lk rk s) -> Step d l l' -> Step d r r' -> Step d (Join l r lk rk s) (Join l' r' lk rk s).
Proof. intros I S1 S2. cong_tac den_join_perm. Qed.

Lemma cong_Antijoin d l l' r r' lk rk s :
  Inv d (Antijoin l r lk rk s) -> Step d l l' -> Step d r r' ->
  Step d (Antijoin l r lk rk s) (Antijoin l' r' lk rk s).
Proof. intros I S1 S2. cong_tac den_antijoin_perm. Qed.

Lemma cong_JoinFlatMap d l l' r r' lk rk p fp s :
  Inv d (JoinFlatMap l r lk rk p fp s) -> Step d l l' -> Step d r r' ->
  Step d (JoinFlatMap l r lk rk p fp s) (JoinFlatMap l' r' lk rk p fp s).
Proof. intros I S1 S2. cong_tac den_jfm_perm. Qed.

Lemma cong_Union d (g : ir -> ir) ts :
  Inv d (Union ts) -> Forall (fun x => Inv d x -> Step d x (g x)) ts ->
  Step d (Union ts) (Union (map g ts)).
Proof.
  intros [W V] HF. cbn [wfd novoid] in W, V. apply andb_true_iff in W, V.
  destruct W as [W1 W2], V as [V1 V2].
  assert (HS : Forall (fun x => Step d x (g x)) ts).
  { rewrite Forall_forall in *. intros x Hx. apply HF; [exact Hx|]. split.
    - exact (proj1 (forallb_forall _ _) W1 x Hx).
    - exact (proj1 (forallb_forall _ _) V2 x Hx). }
  assert (HW : map width (map g ts) = map width ts).
  { clear -HS. induction HS as [|x ts [_ [Hw _]] _ IH]; cbn; congruence. }
  unfold Step, Inv. cbn [wfd novoid width den]. repeat split.
  - apply andb_true_iff. split.
    + apply forallb_forall. intros y Hy. apply in_map_iff in Hy. destruct Hy as [x [E Hx]]. subst y.
      rewrite Forall_forall in HS. apply (HS x Hx).
    + destruct ts as [|x ts]; [reflexivity|]. cbn [map] in *. inversion HW as [[Hx Hr]].
      rewrite Hx. apply forallb_forall. intros y Hy.
      apply (in_map width) in Hy. rewrite Hr in Hy. apply in_map_iff in Hy. destruct Hy as [z [E Hz]].
      rewrite <- E. exact (proj1 (forallb_forall _ _) W2 z Hz).
  - apply andb_true_iff. split.
    + destruct ts; [discriminate | reflexivity].
    + apply forallb_forall. intros y Hy. apply in_map_iff in Hy. destruct Hy as [x [E Hx]]. subst y.
      rewrite Forall_forall in HS. apply (HS x Hx).
  - rewrite HW. reflexivity.
  - clear -HS. induction HS as [|x ts [_ [_ HP]] _ IH]; cbn; [constructor|].
    apply Permutation_app; assumption.
Qed.

Theorem bu_ok d m f : local_ok d f -> forall t, Inv d t -> Step d t (bu m f t).
Proof.
  intros L t. induction t using ir_ind'; intros I; cbn [bu].
  - apply Step_refl; assumption.
  - destruct (m KMap); [|apply Step_refl; assumption].
    pose proof I as [W V]. cbn [wfd novoid] in W, V. split_andb.
    assert (Ix : Inv d t) by (split; assumption).
    eapply Step_trans; [apply cong_Map; [exact I | exact (IHt Ix)]|]. apply L.
    apply (cong_Map d t _ p s I (IHt Ix)).
  - destruct (m KFilter); [|apply Step_refl; assumption].
    pose proof I as [W V]. cbn [wfd novoid] in W, V. split_andb.
    assert (Ix : Inv d t) by (split; assumption).
    eapply Step_trans; [apply cong_Filter; [exact I | exact (IHt Ix)]|]. apply L.
    apply (cong_Filter d t _ p I (IHt Ix)).
  - destruct (m KJoin); [|apply Step_refl; assumption].
    pose proof I as [W V]. cbn [wfd novoid] in W, V. split_andb.
    assert (I1 : Inv d t1) by (split; assumption). assert (I2 : Inv d t2) by (split; assumption).
    eapply Step_trans; [apply cong_Join; [exact I | exact (IHt1 I1) | exact (IHt2 I2)]|]. apply L.
    apply (cong_Join d t1 _ t2 _ lk rk s I (IHt1 I1) (IHt2 I2)).
  - destruct (m KDistinct); [|apply Step_refl; assumption].
    pose proof I as [W V]. cbn [wfd novoid] in W, V.
    assert (Ix : Inv d t) by (split; assumption).
    eapply Step_trans; [apply cong_Distinct; [exact I | exact (IHt Ix)]|]. apply L.
    apply (cong_Distinct d t _ I (IHt Ix)).
  - destruct (m KUnion); [|apply Step_refl; assumption].
    eapply Step_trans; [apply cong_Union; [exact I | exact H]|]. apply L.
    apply (cong_Union d _ ts I H).
  - destruct (m KAggregate); [|apply Step_refl; assumption].
    pose proof I as [W V]. cbn [wfd novoid] in W, V. split_andb.
    assert (Ix : Inv d t) by (split; assumption).
    eapply Step_trans; [apply cong_Aggregate; [exact I | exact (IHt Ix)]|]. apply L.
    apply (cong_Aggregate d t _ gb aggs s I (IHt Ix)).
  - destruct (m KAntijoin); [|apply Step_refl; assumption].
    pose proof I as [W V]. cbn [wfd novoid] in W, V. split_andb.
    assert (I1 : Inv d t1) by (split; assumption). assert (I2 : Inv d t2) by (split; assumption).
    eapply Step_trans; [apply cong_Antijoin; [exact I | exact (IHt1 I1) | exact (IHt2 I2)]|]. apply L.
    apply (cong_Antijoin d t1 _ t2 _ lk rk s I (IHt1 I1) (IHt2 I2)).
  - destruct (m KCompute); [|apply Step_refl; assumption].
    pose proof I as [W V]. cbn [wfd novoid] in W, V.
    assert (Ix : Inv d t) by (split; assumption).
    eapply Step_trans; [apply cong_Compute; [exact I | exact (IHt Ix)]|]. apply L.
    apply (cong_Compute d t _ es I (IHt Ix)).
  - apply Step_refl; assumption.
  - destruct (m KFlatMap); [|apply Step_refl; assumption].
    pose proof I as [W V]. cbn [wfd novoid] in W, V. split_andb.
    assert (Ix : Inv d t) by (split; assumption).
    eapply Step_trans; [apply cong_FlatMap; [exact I | exact (IHt Ix)]|]. apply L.
    apply (cong_FlatMap d t _ p fp s I (IHt Ix)).
  - destruct (m KJoinFlatMap); [|apply Step_refl; assumption].
    pose proof I as [W V]. cbn [wfd novoid] in W, V. split_andb.
    assert (I1 : Inv d t1) by (split; assumption). assert (I2 : Inv d t2) by (split; assumption).
    eapply Step_trans; [apply cong_JoinFlatMap; [exact I | exact (IHt1 I1) | exact (IHt2 I2)]|]. apply L.
    apply (cong_JoinFlatMap d t1 _ t2 _ lk rk p fp s I (IHt1 I1) (IHt2 I2)).
Qed.

(* ------------------------------------------------------------------ the local rewrites *)
Lemma Inv_Map d x p s : Inv d (Map x p s) ->
  Inv d x /\ Forall (fun i => i < width x) p /\ length s = length p.
Proof. intros [W V]. cbn [wfd novoid] in *. norm_hyps. repeat split; assumption. Qed.

Lemma Inv_Filter d x p : Inv d (Filter x p) -> Inv d x /\ is_false p = false.
Proof. intros [W V]. cbn [wfd novoid] in *. norm_hyps. repeat split; assumption. Qed.

Lemma Inv_Join d l r lk rk s : Inv d (Join l r lk rk s) ->
  Inv d l /\ Inv d r /\ length s = width l + length (nonkey_cols (width r) rk).
Proof. intros [W V]. cbn [wfd novoid] in *. norm_hyps. repeat split; assumption. Qed.

Lemma ok_idmap d : local_ok d f_idmap.
Proof.
  intros a I. destruct a; try (apply Step_refl; exact I). cbn [f_idmap].
  destruct (nat_list_eqb proj (seq 0 (length proj)) && (length proj =? width a)) eqn:E;
    [|apply Step_refl; exact I].
  apply andb_true_iff in E. destruct E as [E1 E2]. apply nat_list_eqb_eq in E1. apply Nat.eqb_eq in E2.
  destruct (Inv_Map _ _ _ _ I) as [Ix [Hp Hs]].
  split; [exact Ix|]. split; [cbn [width]; lia|].
  cbn [den]. destruct Ix as [Wx Vx]. pose proof (den_width d a Wx Vx) as HW. rewrite Forall_forall in HW.
  rewrite <- (map_id (den a d)) at 1. apply Permutation_refl'.
  apply map_ext_in. intros t Ht. rewrite E1, E2, <- (HW t Ht). symmetry. apply project_seq_id.
Qed.

Lemma ok_true d : local_ok d f_true.
Proof.
  intros a I. destruct a; try (apply Step_refl; exact I). cbn [f_true].
  destruct p; try (apply Step_refl; exact I).
  destruct (Inv_Filter _ _ _ I) as [Ix _].
  split; [exact Ix|]. split; [reflexivity|]. cbn [den].
  change (eval_pred PTrue) with (fun _ : tuple => true). rewrite filter_true. apply Permutation_refl.
Qed.

Lemma ok_false d : local_ok d f_false.
Proof.
  intros a I. destruct a; try (apply Step_refl; exact I). cbn [f_false].
  destruct p; try (apply Step_refl; exact I).
  destruct (Inv_Filter _ _ _ I) as [_ F]. discriminate.
Qed.

Lemma project_project p1 p2 (t : tuple) :
  Forall (fun i => i < length t) p1 -> Forall (fun i => i < length p1) p2 ->
  project p2 (project p1 t) = project (map (fun i => nth i p1 0) p2) t.
Proof.
  intros H1 H2. rewrite (project_in_range p1 t H1).
  rewrite (project_in_range p2) by (rewrite map_length; exact H2).
  rewrite project_in_range.
  - rewrite map_map. apply map_ext_in. intros i Hi. rewrite Forall_forall in H2.
    rewrite (nth_indep _ VNull (nth 0 t VNull)) by (rewrite map_length; auto).
    rewrite (map_nth (fun i => nth i t VNull) p1 0 i). reflexivity.
  - apply Forall_forall. intros j Hj. apply in_map_iff in Hj. destruct Hj as [i [E Hi]]. subst j.
    rewrite Forall_forall in H1, H2. apply H1. apply nth_In. auto.
Qed.

Lemma ok_fusemap d : local_ok d f_fusemap.
Proof.
  intros a I. destruct a; try (apply Step_refl; exact I). cbn [f_fusemap].
  destruct a; try (apply Step_refl; exact I).
  destruct (Inv_Map _ _ _ _ I) as [Im [Hp2 Hs2]].
  destruct (Inv_Map _ _ _ _ Im) as [Ix [Hp1 Hs1]]. cbn [width] in Hp2. rewrite Hs1 in Hp2.
  split; [|split; [reflexivity|]].
  - destruct Ix as [Wx Vx]. split; cbn [wfd novoid]; [|exact Vx]. solve_andb.
    + apply forallb_lt_Forall. apply Forall_forall. intros j Hj. apply in_map_iff in Hj.
      destruct Hj as [i [E Hi]]. subst j. rewrite Forall_forall in Hp1, Hp2. apply Hp1. apply nth_In. auto.
    + apply Nat.eqb_eq. rewrite map_length. exact Hs2.
  - cbn [den]. rewrite map_map. apply Permutation_refl'. apply map_ext_in. intros t Ht.
    destruct Ix as [Wx Vx]. pose proof (den_width d a Wx Vx) as HW. rewrite Forall_forall in HW.
    symmetry. apply project_project; rewrite ?(HW t Ht); assumption.
Qed.

Lemma ok_fusefilter d : local_ok d f_fusefilter.
Proof.
  intros a I. destruct a; try (apply Step_refl; exact I). cbn [f_fusefilter].
  destruct a; try (apply Step_refl; exact I).
  destruct (Inv_Filter _ _ _ I) as [If F2]. destruct (Inv_Filter _ _ _ If) as [Ix F1].
  split; [|split; [reflexivity|]].
  - destruct Ix as [Wx Vx]. split; cbn [wfd novoid is_false negb andb]; assumption.
  - cbn [den eval_pred]. rewrite filter_filter. apply Permutation_refl.
Qed.

Lemma filter_map_flatmap q proj L :
  filter (eval_pred q) (map (project proj) L) = den_flatmap proj (Some q) L.
Proof.
  unfold den_flatmap. induction L as [|t L IH]; [reflexivity|].
  cbn [map filter flat_map eval_opred]. rewrite IH.
  destruct (eval_pred q (project proj t)); reflexivity.
Qed.

Lemma ok_flatmap d : local_ok d f_flatmap.
Proof.
  intros a I. destruct a; try (apply Step_refl; exact I). cbn [f_flatmap].
  destruct a; try (apply Step_refl; exact I).
  destruct (Inv_Filter _ _ _ I) as [Im _]. destruct (Inv_Map _ _ _ _ Im) as [[Wx Vx] [Hp Hs]].
  split; [|split; [reflexivity|]].
  - split; cbn [wfd novoid]; [|exact Vx]. solve_andb; [apply forallb_lt_Forall; exact Hp | apply Nat.eqb_eq; exact Hs].
  - cbn [den]. apply Permutation_refl'. symmetry. apply filter_map_flatmap.
Qed.

Lemma ok_empty d : local_ok d f_empty.
Proof.
  intros a I.
  assert (NE : forall x, novoid x = true -> is_empty_union x = false).
  { intros x Hx. destruct x; try reflexivity. destruct inputs; [discriminate | reflexivity]. }
  destruct a; try (apply Step_refl; exact I); cbn [f_empty].
  - (* Map *) destruct I as [W V]. cbn [novoid] in V. rewrite (NE a V). apply Step_refl. split; assumption.
  - (* Filter *) pose proof I as [W V]. cbn [novoid] in V. split_andb. rewrite (NE a) by assumption. apply Step_refl; exact I.
  - (* Join *) pose proof I as [W V]. cbn [novoid] in V. split_andb.
    rewrite (NE a1), (NE a2) by assumption. apply Step_refl; exact I.
  - (* Distinct *) pose proof I as [W V]. cbn [novoid] in V. rewrite (NE a V). apply Step_refl; exact I.
  - (* Union *)
    pose proof I as [W V]. cbn [wfd novoid] in W, V. apply andb_true_iff in W, V.
    destruct W as [W1 W2], V as [V1 V2].
    assert (HF : filter (fun x => negb (is_empty_union x)) inputs = inputs).
    { rewrite (filter_ext_in' _ (fun _ => true)); [apply filter_true|].
      intros x Hx. rewrite (NE x); [reflexivity|]. exact (proj1 (forallb_forall _ _) V2 x Hx). }
    rewrite HF. destruct inputs as [|x [|y r]]; [discriminate | | apply Step_refl; exact I].
    cbn [forallb] in *. split_andb. split; [split; assumption|]. split; [symmetry; apply (wf_union_width x []); reflexivity|].
    cbn [den flat_map]. rewrite app_nil_r. apply Permutation_refl.
  - (* Antijoin *) pose proof I as [W V]. cbn [novoid] in V. split_andb. rewrite (NE a1) by assumption. apply Step_refl; exact I.
  - (* Compute *) pose proof I as [W V]. cbn [novoid] in V. rewrite (NE a V). apply Step_refl; exact I.
Qed.

(* ---- filter push-down through a join *)
Lemma flat_map_nil {A B} (l : list A) : flat_map (fun _ : A => @nil B) l = [].
Proof. induction l; cbn; auto. Qed.

Lemma is_false_remap g p : is_false (remap_pred g p) = is_false p.
Proof. destruct p; reflexivity. Qed.

Lemma existsb_false_forall {A} (f : A -> bool) l : existsb f l = false -> forall x, In x l -> f x = false.
Proof.
  intros H x Hx. destruct (f x) eqn:E; [|reflexivity].
  assert (existsb f l = true) by (apply existsb_exists; exists x; tauto). congruence.
Qed.

Lemma push_left p lk rk (L R : list tuple) lc :
  Forall (fun a : tuple => length a = lc) L ->
  (forall c, In c (pred_cols p) -> c < lc) ->
  filter (eval_pred p) (den_join lk rk L R) = den_join lk rk (filter (eval_pred p) L) R.
Proof.
  intros HL Hc. rewrite !den_join_general. rewrite filter_flat_map, flat_map_filter.
  apply flat_map_ext_in. intros a Ha. rewrite Forall_forall in HL.
  assert (Hp : forall x, eval_pred p (a ++ x) = eval_pred p a).
  { intros x. apply eval_pred_agree. intros c Hcc. symmetry. apply nth_error_app1.
    rewrite (HL a Ha). apply Hc. exact Hcc. }
  rewrite filter_flat_map. destruct (eval_pred p a) eqn:E.
  - apply flat_map_ext_in. intros b _.
    destruct (tuple_eqb (project lk a) (project rk b)); cbn [filter]; [|reflexivity].
    rewrite Hp; try rewrite E; reflexivity.
  - rewrite (flat_map_ext_in _ (fun _ : tuple => @nil tuple) R); [apply flat_map_nil|].
    intros b _.
    destruct (tuple_eqb (project lk a) (project rk b)); cbn [filter]; [|reflexivity].
    rewrite Hp; try rewrite E; reflexivity.
Qed.

Lemma push_right p lk rk (L R : list tuple) lc rw :
  Forall (fun a : tuple => length a = lc) L ->
  Forall (fun b : tuple => length b = rw) R ->
  (forall c, In c (pred_cols p) -> lc <= c /\ c - lc < length (nonkey_cols rw rk)) ->
  filter (eval_pred p) (den_join lk rk L R) =
  den_join lk rk L
    (filter (eval_pred (remap_pred (fun c => nth (c - lc) (nonkey_cols rw rk) 0) p)) R).
Proof.
  intros HL HR Hc. rewrite !den_join_general. rewrite filter_flat_map.
  apply flat_map_ext_in. intros a Ha. rewrite filter_flat_map, flat_map_filter.
  apply flat_map_ext_in. intros b Hb.
  rewrite Forall_forall in HL, HR.
  assert (Hq : eval_pred (remap_pred (fun c => nth (c - lc) (nonkey_cols rw rk) 0) p) b
               = eval_pred p (a ++ excluding rk b)).
  { apply eval_pred_remap. intros c Hcc. destruct (Hc c Hcc) as [H1 H2].
    rewrite nth_error_app2 by (rewrite (HL a Ha); exact H1). rewrite (HL a Ha).
    rewrite excluding_spec, (HR b Hb).
    set (nk := nonkey_cols rw rk) in *.
    rewrite (nth_error_nth' (map (fun c0 => nth c0 b VNull) nk) VNull) by (rewrite map_length; exact H2).
    rewrite (nth_indep _ VNull (nth 0 b VNull)) by (rewrite map_length; exact H2).
    rewrite (map_nth (fun c0 => nth c0 b VNull) nk 0 (c - lc)).
    symmetry. apply nth_error_nth'. rewrite (HR b Hb). apply (nonkey_cols_lt rw rk). apply nth_In. exact H2. }
  rewrite Hq.
  destruct (tuple_eqb (project lk a) (project rk b)); cbn [filter]; [|destruct (eval_pred p (a ++ excluding rk b)); reflexivity].
  destruct (eval_pred p (a ++ excluding rk b)); reflexivity.
Qed.

Lemma filter_length_le' {A} (f : A -> bool) l : length (filter f l) <= length l.
Proof. induction l as [|a l IH]; cbn; [lia|]. destruct (f a); cbn; lia. Qed.

Lemma filter_length_eq {A} (f : A -> bool) l : length (filter f l) = length l -> filter f l = l.
Proof.
  induction l as [|a l IH]; cbn; [reflexivity|]. destruct (f a); cbn; intros H.
  - f_equal. apply IH. lia.
  - pose proof (filter_length_le' f l). lia.
Qed.

Lemma ok_pushdown d : local_ok d f_pushdown.
Proof.
  intros a I. destruct a; try (apply Step_refl; exact I). cbn [f_pushdown].
  destruct a; try (apply Step_refl; exact I).
  destruct (Inv_Filter _ _ _ I) as [Ij Fp]. destruct (Inv_Join _ _ _ _ _ _ Ij) as [Il [Ir Hs]].
  pose proof Ij as [Wj Vj]. cbn [wfd novoid] in Wj, Vj.
  pose proof (den_width d a1 (proj1 Il) (proj2 Il)) as HL.
  pose proof (den_width d a2 (proj1 Ir) (proj2 Ir)) as HR.
  destruct (existsb (fun c => c <? width a1) (pred_cols p)) eqn:RL;
    destruct (existsb (fun c => width a1 <=? c) (pred_cols p)) eqn:RR; cbn [andb negb];
    try (apply Step_refl; exact I).
  - (* only left-side columns *)
    split; [|split; [reflexivity|]].
    + split; cbn [wfd novoid width]; [exact Wj|]. rewrite Fp. exact Vj.
    + cbn [den]. apply Permutation_refl'. symmetry. apply push_left with (lc := width a1); try assumption.
      intros c Hc. pose proof (existsb_false_forall _ _ RR c Hc) as H. apply Nat.leb_gt in H. exact H.
  - (* only right-side columns *)
    assert (HN : (if width a1 + width a2 =? length sch then seq 0 (width a2)
                  else if width a1 + length (nonkey_cols (width a2) rk) =? length sch
                       then nonkey_cols (width a2) rk else []) = nonkey_cols (width a2) rk).
    { destruct (width a1 + width a2 =? length sch) eqn:E1.
      - apply Nat.eqb_eq in E1. symmetry. unfold nonkey_cols in *. apply filter_length_eq. rewrite seq_length. lia.
      - rewrite (proj2 (Nat.eqb_eq _ _) (eq_sym Hs)). reflexivity. }
    rewrite HN.
    destruct (forallb (fun c => c - width a1 <? length (nonkey_cols (width a2) rk)) (pred_cols p)) eqn:C;
      [|apply Step_refl; exact I].
    split; [|split; [reflexivity|]].
    + split; cbn [wfd novoid width]; [exact Wj|]. rewrite is_false_remap, Fp. exact Vj.
    + cbn [den]. apply Permutation_refl'. symmetry. apply push_right; try assumption.
      intros c Hc. split.
      * pose proof (existsb_false_forall _ _ RL c Hc) as H. apply Nat.ltb_ge in H. exact H.
      * apply Nat.ltb_lt. exact (proj1 (forallb_forall _ _) C c Hc).
Qed.

(* ------------------------------------------------------------------ remap_projection_for_join_flatmap *)
Definition skipstep (a k : nat) : nat := if k <=? a then S a else a.
Definition skip (sk : list nat) (a : nat) : nat := fold_left skipstep sk a.

Fixpoint ssorted (l : list nat) : Prop :=
  match l with [] => True | x :: r => (forall y, In y r -> x < y) /\ ssorted r end.

Lemma insert_nat_In x y l : In y (insert_nat x l) <-> y = x \/ In y l.
Proof.
  induction l as [|z l IH]; cbn; [intuition|].
  destruct (x <=? z); cbn; [intuition|]. rewrite IH. intuition.
Qed.

Lemma sort_nat_In y l : In y (sort_nat l) <-> In y l.
Proof.
  induction l as [|x l IH]; cbn; [tauto|]. rewrite insert_nat_In, IH. intuition.
Qed.

Lemma insert_nat_ssorted x l : ssorted l -> ~ In x l -> ssorted (insert_nat x l).
Proof.
  induction l as [|z l IH]; cbn; intros HS HN; [tauto|].
  destruct HS as [Hz HS]. destruct (x <=? z) eqn:E.
  - apply Nat.leb_le in E. cbn. split; [|tauto].
    intros y [<-|Hy]; [lia | specialize (Hz y Hy); lia].
  - apply Nat.leb_gt in E. cbn. split.
    + intros y Hy. apply insert_nat_In in Hy. destruct Hy as [->|Hy]; [lia | auto].
    + apply IH; tauto.
Qed.

Lemma sort_nat_ssorted l : NoDup l -> ssorted (sort_nat l).
Proof.
  induction 1 as [|x l Hx _ IH]; cbn; [exact I|].
  apply insert_nat_ssorted; [exact IH | rewrite sort_nat_In; exact Hx].
Qed.

Fixpoint lsorted (l : list nat) : Prop :=
  match l with [] => True | x :: r => (forall y, In y r -> x <= y) /\ lsorted r end.

Lemma insert_nat_lsorted x l : lsorted l -> lsorted (insert_nat x l).
Proof.
  induction l as [|z l IH]; cbn; intros HS; [tauto|].
  destruct HS as [Hz HS]. destruct (x <=? z) eqn:E.
  - apply Nat.leb_le in E. cbn. split; [|tauto].
    intros y [<-|Hy]; [lia | specialize (Hz y Hy); lia].
  - apply Nat.leb_gt in E. cbn. split.
    + intros y Hy. apply insert_nat_In in Hy. destruct Hy as [->|Hy]; [lia | auto].
    + apply IH; tauto.
Qed.

Lemma sort_nat_lsorted l : lsorted (sort_nat l).
Proof. induction l as [|x l IH]; cbn; [exact I | apply insert_nat_lsorted; exact IH]. Qed.

Lemma dedup_adj_In y l : In y (dedup_adj l) <-> In y l.
Proof.
  induction l as [|x r IH]; [tauto|]. cbn [dedup_adj]. destruct r as [|z r']; [tauto|].
  destruct (x =? z) eqn:E.
  - apply Nat.eqb_eq in E. subst z. rewrite IH. cbn. tauto.
  - cbn [In]. rewrite IH. cbn [In]. tauto.
Qed.

Lemma dedup_adj_ssorted l : lsorted l -> ssorted (dedup_adj l).
Proof.
  induction l as [|x r IH]; [tauto|]. intros [Hx HS]. cbn [dedup_adj]. destruct r as [|z r'].
  - cbn. tauto.
  - destruct (x =? z) eqn:E; [apply IH; exact HS|].
    apply Nat.eqb_neq in E. cbn [ssorted]. split; [|apply IH; exact HS].
    intros y Hy. apply (proj1 (dedup_adj_In _ _)) in Hy. destruct HS as [Hz _].
    assert (x <= z) by (apply Hx; left; reflexivity).
    destruct Hy as [<-|Hy]; [lia | specialize (Hz y Hy); lia].
Qed.

Lemma nodupb_NoDup l : nodupb l = true -> NoDup l.
Proof.
  induction l as [|x l IH]; cbn; intros H; [constructor|].
  apply andb_true_iff in H. destruct H as [H1 H2]. constructor; [|apply IH; exact H2].
  intros HI. apply memb_In in HI. rewrite HI in H1. discriminate.
Qed.

Lemma skip_small sk a : (forall s, In s sk -> a < s) -> skip sk a = a.
Proof.
  unfold skip. revert a. induction sk as [|s sk IH]; intros a H; cbn; [reflexivity|].
  unfold skipstep at 2. assert (a < s) by (apply H; left; reflexivity).
  destruct (s <=? a) eqn:E; [apply Nat.leb_le in E; lia|]. apply IH. intros; apply H; right; assumption.
Qed.

Definition nkfrom (i n : nat) (sk : list nat) : list nat :=
  filter (fun c => negb (memb c sk)) (seq i n).

Lemma nkfrom_all i n sk : (forall s, In s sk -> i + n <= s) -> nkfrom i n sk = seq i n.
Proof.
  intros H. unfold nkfrom. rewrite (filter_ext_in' _ (fun _ => true)); [apply filter_true|].
  intros c Hc. apply in_seq in Hc. destruct (memb c sk) eqn:E; [|reflexivity].
  apply memb_In in E. specialize (H c E). lia.
Qed.

Lemma nkfrom_skip sk : ssorted sk ->
  forall i n k, (forall s, In s sk -> i <= s) -> k < length (nkfrom i n sk) ->
  nth k (nkfrom i n sk) 0 = skip sk (i + k).
Proof.
  induction sk as [|s sk IH]; intros HS i n k Hlo Hk.
  - unfold nkfrom in *. cbn [memb existsb negb] in *. rewrite filter_true in *.
    rewrite seq_length in Hk. rewrite seq_nth by exact Hk. reflexivity.
  - destruct HS as [Hs HS]. assert (His : i <= s) by (apply Hlo; left; reflexivity).
    destruct (Nat.le_gt_cases n (s - i)) as [Hn|Hn].
    + (* s and everything after it lie beyond the range *)
      rewrite nkfrom_all in *.
      2,3: intros z [<-|Hz]; [lia | specialize (Hs z Hz); lia].
      rewrite seq_length in Hk. rewrite seq_nth by exact Hk.
      symmetry. apply skip_small. intros z [<-|Hz]; [lia | specialize (Hs z Hz); lia].
    + (* split the range at s *)
      set (dd := s - i) in *.
      assert (Hsplit : nkfrom i n (s :: sk) = seq i dd ++ nkfrom (S s) (n - dd - 1) sk).
      { unfold nkfrom. replace n with (dd + (1 + (n - dd - 1))) at 1 by lia.
        rewrite seq_app, filter_app. f_equal.
        - rewrite (filter_ext_in' _ (fun _ => true)); [apply filter_true|].
          intros c Hc. apply in_seq in Hc. destruct (memb c (s :: sk)) eqn:E; [|reflexivity].
          apply memb_In in E. destruct E as [<-|E]; [lia | specialize (Hs c E); lia].
        - rewrite seq_app. replace (i + dd) with s by lia. cbn [seq app filter].
          assert (E : memb s (s :: sk) = true) by (apply memb_In; left; reflexivity).
          rewrite E. cbn [negb]. replace (s + 1) with (S s) by lia.
          apply filter_ext_in'. intros c Hc. apply in_seq in Hc. f_equal.
          unfold memb. cbn [existsb]. destruct (Nat.eqb c s) eqn:Ec; [apply Nat.eqb_eq in Ec; lia | reflexivity]. }
      rewrite Hsplit in *. rewrite app_length, seq_length in Hk.
      unfold skip. cbn [fold_left]. fold (skip sk (skipstep (i + k) s)). unfold skipstep.
      destruct (Nat.lt_ge_cases k dd) as [Hkd|Hkd].
      * rewrite app_nth1 by (rewrite seq_length; exact Hkd). rewrite seq_nth by exact Hkd.
        destruct (s <=? i + k) eqn:E; [apply Nat.leb_le in E; lia|].
        symmetry. apply skip_small. intros z Hz. specialize (Hs z Hz). lia.
      * rewrite app_nth2 by (rewrite seq_length; exact Hkd). rewrite seq_length.
        destruct (s <=? i + k) eqn:E; [|apply Nat.leb_gt in E; lia].
        rewrite (IH HS (S s) (n - dd - 1) (k - dd)).
        -- f_equal. lia.
        -- intros z Hz. specialize (Hs z Hz). lia.
        -- lia.
Qed.

Lemma nonkey_nth_skip rw rk k :
  k < length (nonkey_cols rw rk) ->
  nth k (nonkey_cols rw rk) 0 = skip (dedup_adj (sort_nat rk)) k.
Proof.
  intros Hk.
  assert (HM : forall c, memb c rk = memb c (dedup_adj (sort_nat rk))).
  { intros c. destruct (memb c rk) eqn:E1, (memb c (dedup_adj (sort_nat rk))) eqn:E2; try reflexivity.
    - apply (proj1 (memb_In _ _)) in E1. apply (proj2 (sort_nat_In _ _)) in E1.
      apply (proj2 (dedup_adj_In _ _)) in E1. apply (proj2 (memb_In _ _)) in E1. congruence.
    - apply (proj1 (memb_In _ _)) in E2. apply (proj1 (dedup_adj_In _ _)) in E2.
      apply (proj1 (sort_nat_In _ _)) in E2. apply (proj2 (memb_In _ _)) in E2. congruence. }
  assert (E : nonkey_cols rw rk = nkfrom 0 rw (dedup_adj (sort_nat rk))).
  { unfold nonkey_cols, nkfrom. apply filter_ext_in'. intros c _. rewrite HM. reflexivity. }
  rewrite E in *.
  rewrite (nkfrom_skip _ (dedup_adj_ssorted _ (sort_nat_lsorted rk)) 0 rw k); [reflexivity | lia | exact Hk].
Qed.

Lemma project_remap (g : nat -> nat) p (t1 t2 : tuple) :
  (forall i, In i p -> nth_error t1 i = nth_error t2 (g i)) -> project p t1 = project (map g p) t2.
Proof.
  unfold project. induction p as [|i p IH]; intros H; cbn; [reflexivity|].
  rewrite (H i (or_introl eq_refl)), IH; [reflexivity | intros; apply H; right; assumption].
Qed.

(* the fused projection reads the same values from (left ++ ALL right columns) as the original one
   reads from the join output (left ++ right non-key columns) *)
Lemma jfm_project lw rw rk p (a b : tuple) :
  length a = lw -> length b = rw ->
  Forall (fun i => i < lw + length (nonkey_cols rw rk)) p ->
  project p (a ++ excluding rk b) = project (remap_jfm lw rk p) (a ++ b).
Proof.
  intros Ha Hb Hp. unfold remap_jfm. apply project_remap. intros i Hi.
  rewrite Forall_forall in Hp. specialize (Hp i Hi).
  destruct (i <? lw) eqn:E.
  - apply Nat.ltb_lt in E. rewrite !nth_error_app1 by lia. reflexivity.
  - apply Nat.ltb_ge in E. fold skipstep. fold (skip (dedup_adj (sort_nat rk)) (i - lw)).
    rewrite <- (nonkey_nth_skip rw rk (i - lw)) by lia.
    rewrite !nth_error_app2 by lia. rewrite Ha. replace (lw + nth (i - lw) (nonkey_cols rw rk) 0 - lw)
      with (nth (i - lw) (nonkey_cols rw rk) 0) by lia.
    rewrite excluding_spec, Hb. set (nk := nonkey_cols rw rk) in *.
    assert (Hk : i - lw < length nk) by lia.
    rewrite (nth_error_nth' (map (fun c0 => nth c0 b VNull) nk) VNull) by (rewrite map_length; exact Hk).
    rewrite (nth_indep _ VNull (nth 0 b VNull)) by (rewrite map_length; exact Hk).
    rewrite (map_nth (fun c0 => nth c0 b VNull) nk 0 (i - lw)).
    symmetry. apply nth_error_nth'. rewrite Hb. apply (nonkey_cols_lt rw rk). apply nth_In. exact Hk.
Qed.

Lemma flat_map_flat_map {A B C} (F : B -> list C) (G : A -> list B) l :
  flat_map F (flat_map G l) = flat_map (fun a => flat_map F (G a)) l.
Proof. induction l as [|a l IH]; cbn; [reflexivity|]. rewrite flat_map_app, IH. reflexivity. Qed.

Lemma jfm_den lk rk p q fp (L R : list tuple) :
  (forall a b, In a L -> In b R -> project p (a ++ excluding rk b) = project q (a ++ b)) ->
  den_flatmap p fp (den_join lk rk L R) = den_jfm lk rk q fp L R.
Proof.
  intros H. rewrite den_join_general. unfold den_flatmap, den_jfm.
  rewrite flat_map_flat_map. apply flat_map_ext_in. intros a Ha.
  rewrite flat_map_flat_map. apply flat_map_ext_in. intros b Hb.
  destruct (tuple_eqb (project lk a) (project rk b)); [|reflexivity].
  cbn [flat_map]. rewrite app_nil_r, (H a b Ha Hb). reflexivity.
Qed.

Lemma map_as_flatmap p (L : list tuple) : map (project p) L = den_flatmap p None L.
Proof. unfold den_flatmap. induction L as [|t L IH]; cbn; [reflexivity | rewrite IH; reflexivity]. Qed.

Lemma Inv_FlatMap d x p fp s : Inv d (FlatMap x p fp s) ->
  Inv d x /\ Forall (fun i => i < width x) p /\ length s = length p.
Proof. intros [W V]. cbn [wfd novoid] in *. norm_hyps. repeat split; assumption. Qed.

Lemma Inv_jfm d l r lk rk s0 p fp s :
  Inv d (Join l r lk rk s0) -> Forall (fun i => i < length s0) p -> length s = length p ->
  Inv d (JoinFlatMap l r lk rk (remap_jfm (width l) rk p) fp s) /\
  (forall a b, In a (den l d) -> In b (den r d) ->
     project p (a ++ excluding rk b) = project (remap_jfm (width l) rk p) (a ++ b)).
Proof.
  intros Ij Hp Hs. destruct (Inv_Join _ _ _ _ _ _ Ij) as [Il [Ir Hs0]].
  pose proof Ij as [Wj Vj]. cbn [wfd novoid] in Wj, Vj. norm_hyps.
  pose proof (den_width d l (proj1 Il) (proj2 Il)) as HL.
  pose proof (den_width d r (proj1 Ir) (proj2 Ir)) as HR. rewrite Forall_forall in HL, HR.
  rewrite Hs0 in Hp.
  split.
  - split; cbn [wfd novoid]; [|solve_andb]. solve_andb; try (apply forallb_lt_Forall; assumption).
    + apply forallb_lt_Forall. unfold remap_jfm. apply Forall_forall. intros j Hj.
      apply in_map_iff in Hj. destruct Hj as [i [E Hi]]. subst j.
      rewrite Forall_forall in Hp. specialize (Hp i Hi).
      destruct (i <? width l) eqn:E; [apply Nat.ltb_lt in E; lia|]. apply Nat.ltb_ge in E.
      fold skipstep. fold (skip (dedup_adj (sort_nat rk)) (i - width l)).
      rewrite <- (nonkey_nth_skip (width r) rk (i - width l)) by lia.
      assert (nth (i - width l) (nonkey_cols (width r) rk) 0 < width r).
      { apply (nonkey_cols_lt (width r) rk). apply nth_In. lia. }
      lia.
    + apply Nat.eqb_eq. unfold remap_jfm. rewrite map_length. exact Hs.
  - intros a b Ha Hb. apply jfm_project with (rw := width r); auto.
Qed.

Lemma ok_jfm d : local_ok d f_jfm.
Proof.
  intros a I. destruct a; try (apply Step_refl; exact I); cbn [f_jfm].
  - (* Map (Join ..) *)
    destruct a; try (apply Step_refl; exact I).
    destruct (Inv_Map _ _ _ _ I) as [Ij [Hp Hs]]. cbn [width] in Hp.
    destruct (Inv_jfm d a1 a2 lk rk sch0 proj None sch Ij Hp Hs) as [IJ HP].
    split; [exact IJ|]. split; [reflexivity|].
    cbn [den]. rewrite map_as_flatmap. rewrite (jfm_den lk rk proj _ None _ _ HP). apply Permutation_refl.
  - (* FlatMap (Join ..) *)
    destruct a; try (apply Step_refl; exact I).
    destruct (Inv_FlatMap _ _ _ _ _ I) as [Ij [Hp Hs]]. cbn [width] in Hp.
    destruct (Inv_jfm d a1 a2 lk rk sch0 proj fp sch Ij Hp Hs) as [IJ HP].
    split; [exact IJ|]. split; [reflexivity|].
    cbn [den]. rewrite (jfm_den lk rk proj _ fp _ _ HP). apply Permutation_refl.
Qed.

(* ------------------------------------------------------------------ the passes and the optimizer *)
Lemma apply_all_rules_ok d t : Inv d t -> Step d t (apply_all_rules t).
Proof.
  intros I. unfold apply_all_rules.
  pose proof (bu_ok d m_elim f_idmap (ok_idmap d) t I) as S1.
  pose proof (bu_ok d m_elim f_true (ok_true d) _ (proj1 S1)) as S2.
  pose proof (bu_ok d m_elim f_false (ok_false d) _ (proj1 S2)) as S3.
  pose proof (bu_ok d m_rules f_fusemap (ok_fusemap d) _ (proj1 S3)) as S4.
  pose proof (bu_ok d m_rules f_fusefilter (ok_fusefilter d) _ (proj1 S4)) as S5.
  pose proof (bu_ok d m_rules f_pushdown (ok_pushdown d) _ (proj1 S5)) as S6.
  pose proof (bu_ok d m_rules f_empty (ok_empty d) _ (proj1 S6)) as S7.
  eapply Step_trans; [exact S1|]. eapply Step_trans; [exact S2|]. eapply Step_trans; [exact S3|].
  eapply Step_trans; [exact S4|]. eapply Step_trans; [exact S5|]. eapply Step_trans; [exact S6|].
  exact S7.
Qed.

Lemma iter_rules_ok d n t : Inv d t -> Step d t (Nat.iter n apply_all_rules t).
Proof.
  intros I. induction n as [|n IH]; cbn [Nat.iter nat_rect]; [apply Step_refl; exact I|].
  eapply Step_trans; [exact IH|]. apply apply_all_rules_ok. exact (proj1 IH).
Qed.

Theorem optimize_ok d t : Inv d t -> Step d t (optimize t).
Proof.
  intros I. unfold optimize.
  pose proof (iter_rules_ok d 10 t I) as S1.
  pose proof (bu_ok d m_fusion f_flatmap (ok_flatmap d) _ (proj1 S1)) as S2.
  pose proof (bu_ok d m_fusion f_jfm (ok_jfm d) _ (proj1 S2)) as S3.
  eapply Step_trans; [exact S1|]. eapply Step_trans; [exact S2|]. exact S3.
Qed.

Theorem optimize_preserves d t :
  wfd d t = true -> novoid t = true -> Permutation (den (optimize t) d) (den t d).
Proof. intros W V. exact (proj2 (proj2 (optimize_ok d t (conj W V)))). Qed.

(* ------------------------------------------------------------------ rules that need no well-formedness at all *)
Definition local_perm (d : db) (f : ir -> ir) : Prop :=
  forall a, Permutation (den (f a) d) (den a d).

Theorem bu_perm d m f : local_perm d f -> forall t, Permutation (den (bu m f t) d) (den t d).
Proof.
  intros L t. induction t using ir_ind'; cbn [bu]; try apply Permutation_refl.
  - destruct (m KMap); [|apply Permutation_refl].
    eapply Permutation_trans; [apply L|]. cbn [den]. apply Permutation_map. exact IHt.
  - destruct (m KFilter); [|apply Permutation_refl].
    eapply Permutation_trans; [apply L|]. cbn [den]. apply Permutation_filter. exact IHt.
  - destruct (m KJoin); [|apply Permutation_refl].
    eapply Permutation_trans; [apply L|]. cbn [den]. apply den_join_perm; assumption.
  - destruct (m KDistinct); [|apply Permutation_refl].
    eapply Permutation_trans; [apply L|]. cbn [den]. apply dedup_tuples_perm. exact IHt.
  - destruct (m KUnion); [|apply Permutation_refl].
    eapply Permutation_trans; [apply L|]. cbn [den].
    induction H as [|x ts Hx _ IH]; cbn; [constructor|]. apply Permutation_app; assumption.
  - destruct (m KAggregate); [|apply Permutation_refl].
    eapply Permutation_trans; [apply L|]. cbn [den]. apply den_agg_perm. exact IHt.
  - destruct (m KAntijoin); [|apply Permutation_refl].
    eapply Permutation_trans; [apply L|]. cbn [den]. apply den_antijoin_perm; assumption.
  - destruct (m KCompute); [|apply Permutation_refl].
    eapply Permutation_trans; [apply L|]. cbn [den]. apply Permutation_map. exact IHt.
  - destruct (m KFlatMap); [|apply Permutation_refl].
    eapply Permutation_trans; [apply L|]. cbn [den]. apply den_flatmap_perm. exact IHt.
  - destruct (m KJoinFlatMap); [|apply Permutation_refl].
    eapply Permutation_trans; [apply L|]. cbn [den]. apply den_jfm_perm; assumption.
Qed.

Lemma filter_false {A} (l : list A) : filter (fun _ => false) l = [].
Proof. induction l; cbn; auto. Qed.

Lemma perm_true d : local_perm d f_true.
Proof.
  intros a. destruct a; try apply Permutation_refl. destruct p; try apply Permutation_refl.
  cbn [f_true den]. change (eval_pred PTrue) with (fun _ : tuple => true). rewrite filter_true.
  apply Permutation_refl.
Qed.

Lemma perm_false d : local_perm d f_false.
Proof.
  intros a. destruct a; try apply Permutation_refl. destruct p; try apply Permutation_refl.
  cbn [f_false den flat_map]. change (eval_pred PFalse) with (fun _ : tuple => false).
  rewrite filter_false. apply Permutation_refl.
Qed.

Lemma perm_fusefilter d : local_perm d f_fusefilter.
Proof.
  intros a. destruct a; try apply Permutation_refl. destruct a; try apply Permutation_refl.
  cbn [f_fusefilter den]. rewrite filter_filter. apply Permutation_refl.
Qed.

Lemma perm_flatmap d : local_perm d f_flatmap.
Proof.
  intros a. destruct a; try apply Permutation_refl. destruct a; try apply Permutation_refl.
  cbn [f_flatmap den]. rewrite filter_map_flatmap. apply Permutation_refl.
Qed.

Lemma is_empty_union_den x d : is_empty_union x = true -> den x d = [].
Proof. destruct x; try discriminate. destruct inputs; [reflexivity | discriminate]. Qed.

Lemma den_join_nil_r lk rk L : den_join lk rk L [] = [].
Proof. rewrite den_join_general. apply flat_map_nil. Qed.

Lemma perm_empty d : local_perm d f_empty.
Proof.
  intros a. destruct a; try apply Permutation_refl; cbn [f_empty].
  - destruct (is_empty_union a) eqn:E; [|apply Permutation_refl].
    cbn [den flat_map]. rewrite (is_empty_union_den a d E). apply Permutation_refl.
  - destruct (is_empty_union a) eqn:E; [|apply Permutation_refl].
    cbn [den flat_map]. rewrite (is_empty_union_den a d E). apply Permutation_refl.
  - destruct (is_empty_union a1) eqn:E1; cbn [orb].
    + cbn [den flat_map]. rewrite (is_empty_union_den a1 d E1). rewrite den_join_general. apply Permutation_refl.
    + destruct (is_empty_union a2) eqn:E2; [|apply Permutation_refl].
      cbn [den flat_map]. rewrite (is_empty_union_den a2 d E2), den_join_nil_r. apply Permutation_refl.
  - destruct (is_empty_union a) eqn:E; [|apply Permutation_refl].
    cbn [den flat_map]. rewrite (is_empty_union_den a d E). apply Permutation_refl.
  - (* Union: dropping inputs that denote nothing *)
    assert (HF : den (Union (filter (fun x => negb (is_empty_union x)) inputs)) d = den (Union inputs) d).
    { cbn [den]. induction inputs as [|x ts IH]; cbn; [reflexivity|].
      destruct (is_empty_union x) eqn:E; cbn [negb].
      - rewrite (is_empty_union_den x d E). exact IH.
      - cbn. rewrite IH. reflexivity. }
    rewrite <- HF. destruct (filter (fun x => negb (is_empty_union x)) inputs) as [|x [|y r]];
      try apply Permutation_refl.
    cbn [den flat_map]. rewrite app_nil_r. apply Permutation_refl.
  - destruct (is_empty_union a1) eqn:E; [|apply Permutation_refl].
    cbn [den flat_map]. rewrite (is_empty_union_den a1 d E). apply Permutation_refl.
  - destruct (is_empty_union a) eqn:E; [|apply Permutation_refl].
    cbn [den flat_map]. rewrite (is_empty_union_den a d E). apply Permutation_refl.
Qed.

Theorem dead_code_rules_preserve d t :
  Permutation (den (eliminate_always_true_filters t) d) (den t d) /\
  Permutation (den (eliminate_always_false_filters t) d) (den t d) /\
  Permutation (den (fuse_consecutive_filters t) d) (den t d) /\
  Permutation (den (eliminate_empty_unions t) d) (den t d) /\
  Permutation (den (fuse_to_flatmap t) d) (den t d).
Proof.
  repeat split.
  - apply bu_perm, perm_true.
  - apply bu_perm, perm_false.
  - apply bu_perm, perm_fusefilter.
  - apply bu_perm, perm_empty.
  - apply bu_perm, perm_flatmap.
Qed.
