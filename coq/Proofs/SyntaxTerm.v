(* Proofs/SyntaxTerm.v — printed terms are closed for every splitter of the parser *)
From Coq Require Import String.
From IL Require Import Model.Syntax Model.SyntaxWf Proofs.SyntaxBase Proofs.SyntaxArith Proofs.SyntaxArith2
  Proofs.SyntaxArith3 Proofs.SyntaxScan.
Open Scope N_scope.

(* induction principle for the nested inductive `term` *)
Section TermInd.
Variable P : term -> Prop.
Variable Hvar : forall s, P (TVar s).
Variable Hint : forall z, P (TInt z).
Variable Hph : P TPh.
Variable Hagg : forall g v, P (TAgg g v).
Variable Harith : forall a, P (TArith a).
Variable Hfun : forall f args, Forall P args -> P (TFun f args).
Variable Hvec : forall xs, P (TVec xs).
Variable Hfloat : forall b, P (TFloat b).
Variable Hstr : forall s, P (TStr s).
Variable Hbool : forall b, P (TBool b).
Fixpoint term_ind' (t : term) : P t :=
  match t with
  | TVar s => Hvar s | TInt z => Hint z | TPh => Hph | TAgg g v => Hagg g v | TArith a => Harith a
  | TFun f args =>
      Hfun f args ((fix go (l : list term) : Forall P l :=
                      match l with
                      | [] => Forall_nil P
                      | x :: r => Forall_cons x (term_ind' x) (go r)
                      end) args)
  | TVec xs => Hvec xs | TFloat b => Hfloat b | TStr s => Hstr s | TBool b => Hbool b
  end.
End TermInd.

(* ------------------------------------------------------------------ bundles *)
Definition noeqc (c : N) : bool := negb ((c =? 61) || (c =? 33)).
Record tgood (E : env) (T : str) : Prop := mkTgood {
  tg_first : first_nws T = true;
  tg_last : last_nws T = true;
  tg_noeq : forallb noeqc T = true;
  tg_sa : sa_closed T;
  tg_sb : sb_bal E 1 T;
  tg_fb : forall lo d, lo <= d -> fb lo T d = Some d;
  tg_arrow : has_arrow T = false;
  tg_nlt : not_lt_last T = true }.
(* what a comparison side needs in addition *)
Record sgood (E : env) (T : str) : Prop := mkSgood {
  sg_t : tgood E T;
  sg_sb : sb_bal E 0 T;
  sg_fo : fo_bal 0 T }.

Lemma tgood_ne E T : tgood E T -> T <> [].
Proof. intros G ->. pose proof (tg_first _ _ G). discriminate. Qed.
Lemma tgood_trim E T : tgood E T -> trim T = T.
Proof. intros G. apply trim_id; apply G. Qed.

(* character-class implications, all decided by charfact-style arithmetic *)
Ltac cfact := unfold str_char_ok, noeqc, sa_plain, sb_plain, opstart, ac, lc, opc, idc, num_char,
                is_digit, is_aupper, is_alower, is_ws in *;
  repeat match goal with
  | |- _ /\ _ => split
  | |- negb _ = true => apply negb_true_iff
  | |- _ = false => apply not_true_is_false; intro
  end; bools; nums; try lia;
  repeat (rewrite ?orb_true_iff, ?andb_true_iff, ?N.eqb_eq, ?N.leb_le); lia.

Lemma plain_noeq c : str_char_ok c = true -> noeqc c = true.
Proof. intros H. cfact. Qed.
Lemma plain_sa c : str_char_ok c = true -> sa_plain c = true.
Proof. intros H. cfact. Qed.
Lemma plain_sb c : str_char_ok c = true -> sb_plain c = true.
Proof. intros H. cfact. Qed.
Lemma plain_nopar c : str_char_ok c = true -> negb ((c =? 40) || (c =? 41)) = true.
Proof. intros H. cfact. Qed.
Lemma plain_noop c : str_char_ok c = true -> negb (opstart c) = true.
Proof. intros H. cfact. Qed.
Lemma plain_nolt c : str_char_ok c = true -> negb (c =? 60) = true.
Proof. intros H. cfact. Qed.
Lemma ac_noeq c : ac c = true -> noeqc c = true.
Proof. intros H. cfact. Qed.
Lemma ac_noop c : ac c = true -> negb (opstart c) = true.
Proof. intros H. cfact. Qed.
Lemma ac_nolt c : ac c = true -> negb (c =? 60) = true.
Proof. intros H. cfact. Qed.
Lemma ac_nobr c : ac c = true -> negb ((c =? 60) || (c =? 62) || (c =? 44)) = true.
Proof. intros H. cfact. Qed.
Lemma ac_nobr2 c : ac c = true -> negb ((c =? 60) || (c =? 62) || (c =? 91) || (c =? 93) || (c =? 44)) = true.
Proof. intros H. cfact. Qed.
Lemma idc_plain c : idc c = true -> str_char_ok c = true.
Proof. intros H. cfact. Qed.
Lemma lc_plain_c c : lc c = true -> str_char_ok c = true.
Proof. intros H. cfact. Qed.
Lemma idc_nws c : idc c = true -> is_ws c = false.
Proof. intros H. cfact. Qed.
Lemma plain_nws_first T : T <> [] -> forallb lc T = true -> first_nws T = true /\ last_nws T = true.
Proof.
  intros NE H.
  assert (W : forallb (fun c => negb (is_ws c)) T = true).
  { eapply forallb_impl; [|exact H]. intros c L. rewrite (ac_nws c (lc_ac c L)). reflexivity. }
  split. apply first_nws_all; auto.
  unfold last_nws. apply first_nws_all. apply rev_ne; auto. rewrite forallb_rev. auto.
Qed.

Lemma not_lt_last_forall T : forallb (fun c => negb (c =? 60)) T = true -> not_lt_last T = true.
Proof.
  intros H. unfold not_lt_last. rewrite <- forallb_rev in H. destruct (rev T); auto.
  cbn in H. apply andb_true_iff in H. tauto.
Qed.

Section WithEnv.
Variable E : env.

(* a text without any of the characters  , ( ) < > [ ] = !  *)
Lemma sgood_plain T : first_nws T = true -> last_nws T = true -> forallb str_char_ok T = true ->
  sgood E T.
Proof.
  intros F L H.
  assert (FB : forall lo d, lo <= d -> fb lo T d = Some d).
  { intros lo d _. apply fb_noparen. eapply forallb_impl; [apply plain_nopar|exact H]. }
  assert (SB : sb_bal E 0 T).
  { apply sb_bal_plain. eapply forallb_impl; [apply plain_sb|exact H]. }
  constructor; [constructor| |]; auto.
  - eapply forallb_impl; [apply plain_noeq|exact H].
  - apply sa_closed_plain. eapply forallb_impl; [apply plain_sa|exact H].
  - eapply sb_bal_mono; [|exact SB]. lia.
  - apply has_arrow_nolt. eapply forallb_impl; [apply plain_nolt|exact H].
  - apply not_lt_last_forall. eapply forallb_impl; [apply plain_nolt|exact H].
  - apply fo_bal0_of_fb; auto. eapply forallb_impl; [apply plain_noop|exact H].
Qed.
Lemma sgood_lc T : T <> [] -> forallb lc T = true -> sgood E T.
Proof.
  intros NE H. destruct (plain_nws_first T NE H) as [F L].
  apply sgood_plain; auto. eapply forallb_impl; [apply lc_plain_c|exact H].
Qed.

(* parenthesis-only texts: split_args sees the parenthesis balance *)
Lemma sa_run_fb T : forall ad pd bd d',
  forallb (fun c => negb ((c =? 60) || (c =? 62) || (c =? 91) || (c =? 93) || (c =? 44))) T = true ->
  fb 0 T pd = Some d' -> sa_run T ad pd bd = Some (ad, d', bd).
Proof.
  induction T as [|c T IH]; intros ad pd bd d' H F.
  - cbn in *. inversion F; subst. reflexivity.
  - cbn [forallb] in H. apply andb_true_iff in H as [H1 H2].
    apply negb_true_iff in H1.
    apply orb_false_iff in H1 as [H1 C44]. apply orb_false_iff in H1 as [H1 C93].
    apply orb_false_iff in H1 as [H1 C91]. apply orb_false_iff in H1 as [C60 C62].
    cbn [fb] in F. cbn [sa_run]. rewrite C60, C62.
    destruct (c =? 40). { apply IH; auto. }
    destruct (c =? 41).
    { destruct (pd <=? 0) eqn:L; try discriminate. apply N.leb_gt in L.
      assert (Q : (pd =? 0) = false) by (apply N.eqb_neq; lia). rewrite Q. apply IH; auto. }
    rewrite C91, C93, C44. cbn [andb]. apply IH; auto.
Qed.

(* printed arithmetic *)
Lemma sgood_arith T : good T -> sgood E T.
Proof.
  intros G. pose proof (g_ac _ G) as A.
  assert (W : forallb (fun c => negb (is_ws c)) T = true).
  { eapply forallb_impl; [|exact A]. intros c L. rewrite (ac_nws c L). reflexivity. }
  assert (SB : sb_bal E 0 T).
  { intros prev pd ad _. apply sb_run_fb. eapply forallb_impl; [apply ac_nobr|exact A].
    apply (g_fb _ G). lia. }
  constructor; [constructor| |]; auto.
  - apply first_nws_all; auto. apply (good_ne _ G).
  - unfold last_nws. apply first_nws_all. apply rev_ne, (good_ne _ G). rewrite forallb_rev. auto.
  - eapply forallb_impl; [apply ac_noeq|exact A].
  - intros ad pd bd. apply sa_run_fb. eapply forallb_impl; [apply ac_nobr2|exact A].
    apply (g_fb _ G). lia.
  - eapply sb_bal_mono; [|exact SB]. lia.
  - apply G.
  - apply has_arrow_nolt. eapply forallb_impl; [apply ac_nolt|exact A].
  - apply not_lt_last_forall. eapply forallb_impl; [apply ac_nolt|exact A].
  - apply fo_bal0_of_fb. eapply forallb_impl; [apply ac_noop|exact A]. apply G.
Qed.

(* ------------------------------------------------------------------ joins *)
Lemma forallb_join (p : N -> bool) l : p 44 = true -> p 32 = true ->
  Forall (fun x => forallb p x = true) l -> forallb p (join_cs l) = true.
Proof.
  intros P1 P2. induction 1 as [|x l Hx Hl IH]. reflexivity.
  unfold join_cs in *. cbn [join]. destruct l as [|y l]; auto.
  rewrite forallb_app, Hx. cbn [app forallb]. rewrite P1, P2. exact IH.
Qed.
Lemma fb_join l : Forall (fun x => forall lo d, lo <= d -> fb lo x d = Some d) l ->
  forall lo d, lo <= d -> fb lo (join_cs l) d = Some d.
Proof.
  induction 1 as [|x l Hx Hl IH]; intros lo d L. reflexivity.
  unfold join_cs in *. cbn [join]. destruct l as [|y l]; auto.
  rewrite fb_app, Hx by auto. cbn [app fb]. ceq. apply IH; auto.
Qed.
Lemma first_nws_join x l : first_nws x = true -> first_nws (join_cs (x :: l)) = true.
Proof. intros H. unfold join_cs. cbn [join]. destruct l; auto. apply first_nws_app; auto. Qed.
Lemma last_nws_join l : l <> [] -> Forall (fun x => last_nws x = true) l -> last_nws (join_cs l) = true.
Proof.
  intros NE. induction 1 as [|x l Hx Hl IH]. congruence.
  unfold join_cs in *. cbn [join]. destruct l as [|y l]; auto.
  apply last_nws_app. apply last_nws_app. apply IH; discriminate.
Qed.
Lemma has_arrow_join l :
  Forall (fun x => has_arrow x = false /\ not_lt_last x = true) l -> has_arrow (join_cs l) = false.
Proof.
  induction 1 as [|x l [Hx Nx] Hl IH]. reflexivity.
  unfold join_cs in *. cbn [join]. destruct l as [|y l]; auto.
  apply has_arrow_app; auto. change ([44; 32] ++ join [44; 32] (y :: l)) with (44 :: 32 :: join [44; 32] (y :: l)).
  cbn [has_arrow]. ceq. rewrite IH. destruct (join [44; 32] (y :: l)); reflexivity.
Qed.

(* ------------------------------------------------------------------ the printed form of every term kind *)
Lemma tgood_wrap_paren f X :
  f <> [] -> forallb idc f = true ->
  first_nws (f ++ 40 :: X ++ [41]) = true ->
  forallb noeqc X = true -> sa_bal X -> sb_bal E 1 X ->
  (forall lo d, lo <= d -> fb lo X d = Some d) -> has_arrow X = false -> not_lt_last X = true ->
  sgood E (f ++ 40 :: X ++ [41]).
Proof.
  intros NE I F NQ SA SB FB AR NL.
  assert (PL : forallb str_char_ok f = true) by (eapply forallb_impl; [apply idc_plain|exact I]).
  assert (FBW : forall lo d, lo <= d -> fb lo (f ++ 40 :: X ++ [41]) d = Some d).
  { intros lo d L. rewrite fb_app, fb_noparen by (eapply forallb_impl; [apply plain_nopar|exact PL]).
    cbn [fb]. ceq. rewrite fb_app, FB by lia. cbn [fb]. ceq.
    assert (Q : d + 1 <=? lo = false) by (apply N.leb_gt; lia). rewrite Q. f_equal. lia. }
  assert (SBW : sb_bal E 0 (f ++ 40 :: X ++ [41])).
  { apply sb_bal_app. apply sb_bal_plain. eapply forallb_impl; [apply plain_sb|exact PL].
    apply sb_bal_wrap_paren. exact SB. }
  constructor; [constructor| |]; auto.
  - change (f ++ 40 :: X ++ [41]) with (f ++ (40 :: X) ++ [41]). rewrite app_assoc. apply last_nws_snoc. reflexivity.
  - rewrite forallb_app. cbn [forallb]. rewrite forallb_app, NQ.
    rewrite (forallb_impl _ _ _ plain_noeq PL). reflexivity.
  - apply sa_closed_app. apply sa_closed_plain. eapply forallb_impl; [apply plain_sa|exact PL].
    apply sa_closed_wrap_paren. exact SA.
  - eapply sb_bal_mono; [|exact SBW]. lia.
  - apply has_arrow_app.
    + apply has_arrow_nolt. eapply forallb_impl; [apply plain_nolt|exact PL].
    + cbn [has_arrow]. destruct X as [|x X']; [reflexivity|]. cbn [app]. ceq.
      change (x :: X' ++ [41]) with ((x :: X') ++ [41]). apply has_arrow_app; auto.
    + apply not_lt_last_forall. eapply forallb_impl; [apply plain_nolt|exact PL].
  - change (f ++ 40 :: X ++ [41]) with (f ++ (40 :: X) ++ [41]). rewrite app_assoc.
    rewrite not_lt_last_app by discriminate. reflexivity.
  - apply fo_bal_app.
    + apply fo_bal0_of_fb. eapply forallb_impl; [apply plain_noop|exact PL].
      intros lo d _. apply fb_noparen. eapply forallb_impl; [apply plain_nopar|exact PL].
    + apply fo_bal_wrap_paren. apply fo_bal1_of_fb. exact FB.
Qed.


(* angle-bracketed: name<P> with P free of brackets and of '=' '!' (commas allowed) *)
Definition innerc (c : N) : bool :=
  negb ((c =? 40) || (c =? 41) || (c =? 60) || (c =? 62) || (c =? 91) || (c =? 93) || (c =? 61) || (c =? 33)).
Lemma innerc_facts c : innerc c = true ->
  noeqc c = true /\ (c =? 40) = false /\ (c =? 41) = false /\ (c =? 60) = false /\ (c =? 62) = false
  /\ (c =? 91) = false /\ (c =? 93) = false.
Proof.
  unfold innerc, noeqc. intros H. apply negb_true_iff in H.
  apply orb_false_iff in H as [H C33]. apply orb_false_iff in H as [H C61].
  apply orb_false_iff in H as [H C93]. apply orb_false_iff in H as [H C91].
  apply orb_false_iff in H as [H C62]. apply orb_false_iff in H as [H C60].
  apply orb_false_iff in H as [C40 C41]. rewrite C61, C33. repeat split; auto.
Qed.
Lemma sa_bal_inner P : forallb innerc P = true -> sa_bal P.
Proof.
  induction P as [|c P IH]; intros H ad pd bd S. reflexivity.
  cbn [forallb] in H. apply andb_true_iff in H as [H1 H2].
  destruct (innerc_facts c H1) as (_ & A & B & C & D & F & G).
  cbn [sa_run]. rewrite C, D, A, B, F, G.
  assert (Q : (c =? 44) && (ad =? 0) && (pd =? 0) && (bd =? 0) = false).
  { destruct (ad =? 0) eqn:X; destruct (pd =? 0) eqn:Y; destruct (bd =? 0) eqn:Z;
      rewrite ?andb_false_r; auto. apply N.eqb_eq in X, Y, Z. lia. }
  rewrite Q. apply IH; auto.
Qed.
Lemma sb_run_inner P : forall prev pd ad, forallb innerc P = true -> 0 < pd + ad ->
  sb_run E P prev pd ad = Some (pd, ad).
Proof.
  induction P as [|c P IH]; intros prev pd ad H S. reflexivity.
  cbn [forallb] in H. apply andb_true_iff in H as [H1 H2].
  destruct (innerc_facts c H1) as (_ & A & B & C & D & _ & _).
  cbn [sb_run]. rewrite A, B, C, D.
  assert (Q : (c =? 44) && (pd =? 0) && (ad =? 0) = false).
  { destruct (pd =? 0) eqn:X; destruct (ad =? 0) eqn:Y; rewrite ?andb_false_r; auto.
    apply N.eqb_eq in X, Y. lia. }
  rewrite Q. apply IH; auto.
Qed.
Lemma innerc_nopar c : innerc c = true -> negb ((c =? 40) || (c =? 41)) = true.
Proof. intros H. destruct (innerc_facts c H) as (_ & A & B & _). rewrite A, B. reflexivity. Qed.
Lemma innerc_nolt c : innerc c = true -> negb (c =? 60) = true.
Proof. intros H. destruct (innerc_facts c H) as (_ & _ & _ & C & _). rewrite C. reflexivity. Qed.
Lemma innerc_noeq c : innerc c = true -> noeqc c = true.
Proof. intros H. apply innerc_facts. exact H. Qed.

Lemma lastd_idc p f : f <> [] -> forallb idc f = true -> idc (lastd p f) = true.
Proof.
  intros NE H. unfold lastd. rewrite <- forallb_rev in H.
  destruct (rev f) eqn:R. { apply rev_ne in NE. contradiction. }
  cbn in H. apply andb_true_iff in H. tauto.
Qed.

Lemma tgood_angle name P :
  name <> [] -> forallb idc name = true -> forallb innerc P = true -> first_is 45 P = false ->
  tgood E (name ++ 60 :: P ++ [62]).
Proof.
  intros NE I HP F45.
  assert (PL : forallb str_char_ok name = true) by (eapply forallb_impl; [apply idc_plain|exact I]).
  constructor.
  - destruct name as [|c name]; try congruence. cbn [app first_nws forallb] in *.
    apply andb_true_iff in I as [I _]. rewrite (idc_nws c I). reflexivity.
  - change (name ++ 60 :: P ++ [62]) with (name ++ (60 :: P) ++ [62]). rewrite app_assoc.
    apply last_nws_snoc. reflexivity.
  - rewrite forallb_app. cbn [forallb]. rewrite forallb_app.
    rewrite (forallb_impl _ _ _ plain_noeq PL), (forallb_impl _ _ _ innerc_noeq HP). reflexivity.
  - apply sa_closed_app. apply sa_closed_plain. eapply forallb_impl; [apply plain_sa|exact PL].
    apply sa_closed_wrap_angle. apply sa_bal_inner. exact HP.
  - intros prev pd ad L. rewrite sb_run_app.
    assert (SBn : sb_bal E 0 name) by (apply sb_bal_plain; eapply forallb_impl; [apply plain_sb|exact PL]).
    rewrite SBn by lia.
    cbn [sb_run]. ceq. rewrite (idc_word E _ (lastd_idc prev name NE I)).
    rewrite sb_run_app. rewrite sb_run_inner by (auto; lia). cbn [sb_run]. ceq.
    f_equal. f_equal. lia.
  - intros lo d L. apply fb_noparen. rewrite forallb_app. cbn [forallb]. rewrite forallb_app.
    rewrite (forallb_impl _ _ _ plain_nopar PL), (forallb_impl _ _ _ innerc_nopar HP). reflexivity.
  - apply has_arrow_app.
    + apply has_arrow_nolt. eapply forallb_impl; [apply plain_nolt|exact PL].
    + cbn [has_arrow]. destruct P as [|p P'].
      * reflexivity.
      * cbn [app first_is] in *. rewrite F45. rewrite andb_false_r. cbn [orb].
        apply has_arrow_nolt. change (p :: P' ++ [62]) with ((p :: P') ++ [62]).
        rewrite forallb_app. rewrite (forallb_impl _ _ _ innerc_nolt HP). reflexivity.
    + apply not_lt_last_forall. eapply forallb_impl; [apply plain_nolt|exact PL].
  - change (name ++ 60 :: P ++ [62]) with (name ++ (60 :: P) ++ [62]). rewrite app_assoc.
    rewrite not_lt_last_app by discriminate. reflexivity.
Qed.

(* vector literals *)
Lemma lc_innerc c : lc c = true -> innerc c = true.
Proof. intros H. unfold innerc. cfact. Qed.
Lemma disp_text b : disp_ok E b = true -> e_disp E b <> [] /\ forallb lc (e_disp E b) = true.
Proof.
  intros Hdisp. unfold disp_ok in Hdisp.
  apply andb_true_iff in Hdisp as [S _]. unfold disp_shape in S. apply andb_true_iff in S as [A L].
  split.
  - unfold last_alnum in L. intros Z. rewrite Z in L. discriminate.
  - eapply forallb_impl; [apply num_char_lc|exact A].
Qed.
Lemma vec_inner xs : forallb (fun b => canon b && disp_ok E b) xs = true ->
  forallb innerc (join_cs (List.map (e_disp E) xs)) = true.
Proof.
  intros H. apply forallb_join; try reflexivity.
  induction xs as [|x xs IH]; cbn [List.map]; constructor.
  - cbn [forallb] in H. apply andb_true_iff in H as [H _]. apply andb_true_iff in H as [_ H].
    eapply forallb_impl; [apply lc_innerc|apply disp_text; exact H].
  - apply IH. cbn [forallb] in H. apply andb_true_iff in H. tauto.
Qed.
Lemma innerc_sbplain_nocomma T : forallb innerc T = true -> forallb (fun c => negb (c =? 44)) T = true ->
  forallb sb_plain T = true /\ forallb (fun c => negb (opstart c)) T = true.
Proof.
  intros A B. split.
  - induction T as [|c T IH]; auto. cbn [forallb] in *.
    apply andb_true_iff in A as [A1 A2]. apply andb_true_iff in B as [B1 B2].
    rewrite IH by auto. destruct (innerc_facts c A1) as (_ & P & Q & R & S & _).
    unfold sb_plain. apply negb_true_iff in B1. rewrite P, Q, R, S, B1. reflexivity.
  - eapply forallb_impl; [|exact A]. intros c H.
    destruct (innerc_facts c H) as (NQ & _ & _ & C60 & C62 & _). unfold noeqc in NQ.
    apply negb_true_iff in NQ. apply orb_false_iff in NQ as [C61 C33].
    unfold opstart. rewrite C60, C61, C62, C33. reflexivity.
Qed.

Lemma tgood_bracket P : forallb innerc P = true -> tgood E (91 :: P ++ [93]).
Proof.
  intros HP.
  constructor.
  - reflexivity.
  - change (91 :: P ++ [93]) with ((91 :: P) ++ [93]). apply last_nws_snoc. reflexivity.
  - cbn [forallb]. rewrite forallb_app. rewrite (forallb_impl _ _ _ innerc_noeq HP). reflexivity.
  - apply sa_closed_wrap_bracket. apply sa_bal_inner. exact HP.
  - intros prev pd ad L. cbn [sb_run]. ceq. rewrite sb_run_app, sb_run_inner by (auto; lia).
    cbn [sb_run]. ceq. assert (Q : (pd =? 0) = false) by (apply N.eqb_neq; lia).
    reflexivity.
  - intros lo d L. apply fb_noparen. cbn [forallb]. rewrite forallb_app.
    rewrite (forallb_impl _ _ _ innerc_nopar HP). reflexivity.
  - apply has_arrow_nolt. cbn [forallb]. rewrite forallb_app.
    rewrite (forallb_impl _ _ _ innerc_nolt HP). reflexivity.
  - change (91 :: P ++ [93]) with ((91 :: P) ++ [93]). rewrite not_lt_last_app by discriminate. reflexivity.
Qed.
Lemma sgood_bracket_nocomma P : forallb innerc P = true -> forallb (fun c => negb (c =? 44)) P = true ->
  sgood E (91 :: P ++ [93]).
Proof.
  intros HP NC. pose proof (tgood_bracket P HP) as TG.
  destruct (innerc_sbplain_nocomma P HP NC) as [SP NO].
  constructor; auto.
  - apply sb_bal_plain. cbn [forallb]. rewrite forallb_app, SP. reflexivity.
  - apply fo_bal0_of_fb; [|apply TG]. cbn [forallb]. rewrite forallb_app, NO. reflexivity.
Qed.

(* builtin function names *)
Lemma builtin_props f : is_builtin f = true ->
  f <> [] /\ forallb idc f = true /\ to_lower f = f.
Proof.
  unfold is_builtin. intros H. apply existsb_exists in H as (x & I & Q). apply str_eqb_eq in Q. subst x.
  assert (A : forallb (fun b => negb (str_eqb b []) && forallb idc b && str_eqb (to_lower b) b) builtins = true)
    by (vm_compute; reflexivity).
  rewrite forallb_forall in A. specialize (A f I). bools.
  repeat split; auto.
  - intros ->. discriminate.
  - apply str_eqb_eq. auto.
Qed.

Lemma not_lt_last_join l : Forall (fun x => not_lt_last x = true /\ x <> []) l -> not_lt_last (join_cs l) = true.
Proof.
  induction 1 as [|x l [Hx Nx] Hl IH]. reflexivity.
  unfold join_cs in *. cbn [join]. destruct l as [|y l]; auto.
  rewrite app_assoc. rewrite not_lt_last_app. exact IH.
  inversion Hl as [|? ? [_ Ny] _]; subst. cbn [join]. destruct l; auto.
  intros Z. apply app_eq_nil in Z. tauto.
Qed.

(* ------------------------------------------------------------------ ranking aggregates *)
Definition rk_name (g : aggf) : str :=
  match g with
  | GTopK _ _ _ _ => lit "top_k" | GTopKThr _ _ _ _ _ => lit "top_k_threshold"
  | GWithin _ _ _ => lit "within_radius" | _ => [] end.
Definition rk_params (g : aggf) : str :=
  match g with
  | GTopK k ord outs desc => show_N k ++ show_outs ord (is_single outs) desc outs
  | GTopKThr k ord outs thr desc =>
      show_N k ++ [44; 32] ++ e_disp E thr ++ show_outs ord (is_single outs) desc outs
  | GWithin dvar outs maxd => e_disp E maxd ++ show_outs_within dvar (is_single outs) outs
  | _ => [] end.
Lemma show_aggf_rk g : is_ranking g = true -> show_aggf E g = rk_name g ++ 60 :: rk_params g ++ [62].
Proof.
  destruct g; intros R; try discriminate; cbn [show_aggf rk_name rk_params];
    rewrite <- ?app_assoc; reflexivity.
Qed.

Lemma ident_inner v : ident v = true -> forallb innerc v = true.
Proof.
  unfold ident. destruct v; [discriminate|]. intros H. eapply forallb_impl; [|exact H].
  intros c I. apply lc_innerc, idc_lc, I.
Qed.
Lemma show_outs_inner ord single desc outs : forallb ident outs = true ->
  forallb innerc (show_outs ord single desc outs) = true.
Proof.
  induction outs as [|v outs IH]; intros H. reflexivity.
  cbn [forallb] in H. apply andb_true_iff in H as [H1 H2].
  cbn [show_outs]. rewrite !forallb_app, (ident_inner v H1), IH by auto.
  destruct (str_eqb v ord); [destruct (single && desc); [|destruct desc]|]; reflexivity.
Qed.
Lemma show_outs_within_inner dv single outs : forallb ident outs = true ->
  forallb innerc (show_outs_within dv single outs) = true.
Proof.
  induction outs as [|v outs IH]; intros H. reflexivity.
  cbn [forallb] in H. apply andb_true_iff in H as [H1 H2].
  cbn [show_outs_within]. rewrite !forallb_app, (ident_inner v H1), IH by auto.
  destruct (str_eqb v dv); [destruct single|]; reflexivity.
Qed.
Lemma digits_inner ds : forallb is_digit ds = true -> forallb innerc ds = true.
Proof. intros H. eapply forallb_impl; [|exact H]. intros c D. apply lc_innerc, idc_lc, digit_idc, D. Qed.
Lemma wf_outs_idents ord outs : wf_outs ord outs = true -> forallb ident outs = true.
Proof. unfold wf_outs. intros H. apply andb_true_iff in H as [H _]. apply andb_true_iff in H. tauto. Qed.

Lemma rk_shape g v : wf_aggf E g v = true -> is_ranking g = true ->
  forallb innerc (rk_params g) = true /\ first_is 45 (rk_params g) = false /\ v = [] /\
  rk_name g <> [] /\ forallb idc (rk_name g) = true.
Proof.
  destruct g as [| | | | | |k ord outs desc|k ord outs thr desc|dv outs maxd]; intros W R; try discriminate;
    cbn [wf_aggf] in W; cbn [rk_params rk_name].
  - apply andb_true_iff in W as [W V]. apply andb_true_iff in W as [_ WO].
    destruct (show_N_first_digit k) as (c & t & EQ & D).
    repeat split; try discriminate; try reflexivity.
    + rewrite forallb_app, (digits_inner _ (show_N_digits k)), (show_outs_inner _ _ _ _ (wf_outs_idents _ _ WO)). reflexivity.
    + rewrite EQ. cbn [app first_is]. apply digit_not. exact D.
    + apply str_eqb_eq. exact V.
  - apply andb_true_iff in W as [W V]. apply andb_true_iff in W as [W DO].
    apply andb_true_iff in W as [W _]. apply andb_true_iff in W as [_ WO].
    destruct (show_N_first_digit k) as (c & t & EQ & D). destruct (disp_text thr DO) as [_ L].
    repeat split; try discriminate; try reflexivity.
    + rewrite !forallb_app, (digits_inner _ (show_N_digits k)),
        (show_outs_inner _ _ _ _ (wf_outs_idents _ _ WO)), (forallb_impl _ _ _ lc_innerc L). reflexivity.
    + rewrite EQ. cbn [app first_is]. apply digit_not. exact D.
    + apply str_eqb_eq. exact V.
  - apply andb_true_iff in W as [W V]. apply andb_true_iff in W as [W F]. apply andb_true_iff in W as [W DO].
    apply andb_true_iff in W as [WO _]. destruct (disp_text maxd DO) as [NE L].
    repeat split; try discriminate; try reflexivity.
    + rewrite forallb_app, (forallb_impl _ _ _ lc_innerc L),
        (show_outs_within_inner _ _ _ (wf_outs_idents _ _ WO)). reflexivity.
    + apply negb_true_iff in F. destruct (e_disp E maxd); [congruence|]. exact F.
    + apply str_eqb_eq. exact V.
Qed.

(* ------------------------------------------------------------------ every well-formed term *)
Definition side_ok (t : term) : bool :=
  match t with TAgg _ _ => false | TVec (_ :: _ :: _) => false | _ => true end.

Lemma std_agg_name g v : wf_aggf E g v = true -> is_ranking g = false ->
  show_aggf E g <> [] /\ forallb idc (show_aggf E g) = true /\ ident v = true.
Proof.
  destruct g; cbn [wf_aggf is_ranking]; intros H R; try discriminate; (repeat split; auto; discriminate).
Qed.

Lemma good_term t : wf_term E t = true ->
  tgood E (show_term E t) /\ (side_ok t = true -> sgood E (show_term E t)).
Proof.
  induction t as [s|z| |g v|a|f args IH|xs|b|s|b] using term_ind'; cbn [wf_term show_term]; intros W.
  - (* variable *)
    assert (G : sgood E s).
    { unfold wf_var in W. bools. unfold ident in H. destruct s as [|c s]; try discriminate.
      apply sgood_lc. discriminate. eapply forallb_impl; [apply idc_lc|exact H]. }
    split; [apply G|intros _; exact G].
  - assert (G : sgood E (show_Z z)).
    { destruct (leaf_int z) as (A & _ & C). apply sgood_lc; auto. apply (lastc_ne idc). exact C. }
    split; [apply G|intros _; exact G].
  - assert (G : sgood E [95]) by (apply sgood_lc; [discriminate|reflexivity]).
    split; [apply G|intros _; exact G].
  - (* aggregates *)
    split; [|discriminate]. destruct (is_ranking g) eqn:R.
    + destruct (rk_shape g v W R) as (PI & F45 & -> & NE & I).
      rewrite (show_aggf_rk g R). apply tgood_angle; auto.
    + destruct (std_agg_name g v W R) as (NE & I & IV).
      unfold ident in IV. destruct v as [|c v]; try discriminate.
      apply tgood_angle; auto.
      * eapply forallb_impl; [|exact IV]. intros x H. apply lc_innerc. apply idc_lc. exact H.
      * cbn [first_is forallb] in *. apply andb_true_iff in IV as [IV _].
        apply negb_true_iff. apply idc_not45. exact IV.
  - (* arithmetic *)
    bools. assert (G : sgood E (show_arith E a)) by (apply sgood_arith, good_show; auto).
    split; [apply G|intros _; exact G].
  - (* function call *)
    apply andb_true_iff in W as [WB WA]. destruct (builtin_props f WB) as (NE & I & _).
    assert (TA : Forall (fun x => tgood E x) (List.map (show_term E) args)).
    { rewrite Forall_forall in IH. apply Forall_forall. intros x Hx.
      apply in_map_iff in Hx as (a & <- & Ia).
      destruct (IH a Ia (forallb_In _ _ _ WA Ia)) as [G _]. exact G. }
    assert (G : sgood E (f ++ 40 :: join_cs (List.map (show_term E) args) ++ [41])).
    { apply tgood_wrap_paren; auto.
      - destruct f as [|c f]; try congruence. cbn [app first_nws forallb] in *.
        apply andb_true_iff in I as [I _]. rewrite (idc_nws c I). reflexivity.
      - apply forallb_join; try reflexivity. eapply Forall_impl; [|exact TA]. intros x G. apply G.
      - apply sa_bal_join. eapply Forall_impl; [|exact TA]. intros x G. apply sa_closed_bal, G.
      - apply sb_bal1_join. eapply Forall_impl; [|exact TA]. intros x G. apply G.
      - apply fb_join. eapply Forall_impl; [|exact TA]. intros x G. apply G.
      - apply has_arrow_join. eapply Forall_impl; [|exact TA]. intros x G. split; apply G.
      - apply not_lt_last_join. eapply Forall_impl; [|exact TA]. intros x G.
        split. apply G. apply (tgood_ne E x G). }
    split; [apply G|intros _; exact G].
  - (* vector literal *)
    pose proof (vec_inner xs W) as VI. split. apply tgood_bracket; auto.
    intros S. apply sgood_bracket_nocomma; auto.
    destruct xs as [|x [|y xs]]; try discriminate.
    + reflexivity.
    + cbn [List.map join_cs join]. cbn [forallb] in W. apply andb_true_iff in W as [W _].
      apply andb_true_iff in W as [_ W].
      eapply forallb_impl; [|apply disp_text; exact W]. intros c H. clear - H. cfact.
  - (* float *)
    apply andb_true_iff in W as [W D]. destruct (leaf_float E b D) as (A & _ & C).
    assert (G : sgood E (e_dbg E b)). { apply sgood_lc; auto. apply (lastc_ne idc). exact C. }
    split; [apply G|intros _; exact G].
  - (* string *)
    assert (G : sgood E (34 :: s ++ [34])).
    { apply sgood_plain. reflexivity.
      change (34 :: s ++ [34]) with ((34 :: s) ++ [34]). apply last_nws_snoc. reflexivity.
      cbn [forallb]. rewrite forallb_app. unfold wf_str in W. rewrite W. reflexivity. }
    split; [apply G|intros _; exact G].
  - assert (G : sgood E (if b then lit "true" else lit "false")).
    { destruct b; (apply sgood_lc; [discriminate|reflexivity]). }
    split; [apply G|intros _; exact G].
Qed.

End WithEnv.
