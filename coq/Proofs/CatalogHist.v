(* Proofs/CatalogHist.v — from one catalog directory to whole histories (C16). *)
From Coq Require Import List NArith Bool Arith Lia.
From IL Require Import Model.FS Model.Catalog Proofs.Catalog.
Import ListNotations.

(* ------------------------------------------------------------------ boolean equalities *)
Lemma list_N_eqb_refl : forall l, list_N_eqb l l = true.
Proof. induction l; cbn; auto. rewrite N.eqb_refl. auto. Qed.
Lemma cat_eqb_refl : forall c, cat_eqb c c = true.
Proof. induction c as [|[k v] c IH]; cbn; auto. rewrite N.eqb_refl, list_N_eqb_refl. auto. Qed.
Lemma mems_eqb_refl : forall l, mems_eqb l l = true.
Proof. induction l; cbn; auto. unfold kgmem_eqb. rewrite !cat_eqb_refl. auto. Qed.

(* ------------------------------------------------------------------ several saves in a row *)
Definition steps_of (sv : list (N * cat)) : list (mstep tok) := flat_map (fun e => save_steps true (fst e) (snd e)) sv.

Definition find_dir (d : N) (sv : list (N * cat)) : option cat :=
  match find (fun e => N.eqb (fst e) d) sv with Some e => Some (snd e) | None => None end.

Lemma filter_steps : forall sv d, NoDup (map fst sv) ->
  filter (fun m => N.eqb (step_dir m) d) (steps_of sv) =
  match find_dir d sv with Some c => save_steps true d c | None => [] end.
Proof.
  induction sv as [|[d0 c0] sv IH]; intros d ND; [reflexivity|].
  inversion ND as [|? ? Hnin ND']; subst.
  unfold steps_of, find_dir in *. cbn [flat_map find fst snd]. rewrite filter_app.
  specialize (IH d ND').
  destruct (N.eqb d0 d) eqn:E.
  - apply N.eqb_eq in E. subst d0.
    assert (Hf : find (fun e => N.eqb (fst e) d) sv = None).
    { destruct (find (fun e => N.eqb (fst e) d) sv) as [e|] eqn:F; auto.
      apply find_some in F. destruct F as [Hin He]. apply N.eqb_eq in He. exfalso. apply Hnin.
      rewrite <- He. apply in_map. exact Hin. }
    rewrite Hf in IH. rewrite IH, app_nil_r.
    unfold save_steps. cbn [filter step_dir]. rewrite N.eqb_refl. reflexivity.
  - rewrite IH. unfold save_steps at 1. cbn [filter step_dir]. rewrite E. reflexivity.
Qed.

Lemma save_steps_len : forall d c, length (save_steps true d c) = 5%nat.
Proof. reflexivity. Qed.

Lemma multi_save_mid : forall sv f c k ch d, NoDup (map fst sv) -> GoodDir (f d) c ->
  let y := crash_fs ch (exec (firstn k (steps_of sv)) f) d in
  GoodDir y c \/ GoodDir y (match find_dir d sv with Some c' => c' | None => c end).
Proof.
  intros sv f c k ch d ND G. cbv zeta. unfold crash_fs. rewrite exec_proj.
  destruct (filter_firstn_prefix (fun m => N.eqb (step_dir m) d) (steps_of sv) k) as [k' [E [L _]]].
  rewrite E, (filter_steps sv d ND) in *.
  destruct (find_dir d sv) as [c'|].
  - apply save_crash_good; auto.
  - rewrite firstn_nil. left. apply crash_good. exact G.
Qed.

Lemma multi_save_done : forall sv f c d, NoDup (map fst sv) -> GoodDir (f d) c ->
  GoodDir (exec (steps_of sv) f d) (match find_dir d sv with Some c' => c' | None => c end).
Proof.
  intros sv f c d ND G. rewrite exec_proj, (filter_steps sv d ND).
  destruct (find_dir d sv) as [c'|].
  - apply save_done_good with (c := c). exact G.
  - exact G.
Qed.

(* ------------------------------------------------------------------ the store invariant *)
Definition catn (ms : list kgmem) (i : nat) (w : which) : cat :=
  match nth_error ms i with Some m => cat_of m w | None => [] end.

Definition Good (f : fsys tok) (ms : list kgmem) : Prop :=
  forall i w, GoodDir (f (cat_dir (N.of_nat i) w)) (catn ms i w).

Lemma cat_dir_eqb : forall k w k' w', N.eqb (cat_dir k w) (cat_dir k' w') = N.eqb k k' && which_eqb w w'.
Proof.
  intros k w k' w'. unfold cat_dir.
  destruct (N.eqb k k') eqn:E; [apply N.eqb_eq in E; subst k'|apply N.eqb_neq in E];
    destruct w, w'; cbn [which_eqb andb];
    try (apply N.eqb_refl); apply N.eqb_neq; lia.
Qed.

Lemma good_init : forall n, Good empty_fs (repeat kg_empty n).
Proof.
  intros n i w. unfold catn, empty_fs.
  destruct (nth_error (repeat kg_empty n) i) as [m|] eqn:E.
  - apply nth_error_In, repeat_spec in E. subst m. destruct w; apply good_empty.
  - apply good_empty.
Qed.

(* recovery of a Good store returns exactly its catalogs *)
Lemma recover_from_good : forall ms f k0,
  (forall i w, GoodDir (f (cat_dir (k0 + N.of_nat i) w)) (catn ms i w)) ->
  recover_from f k0 (length ms) = Some ms /\ all_clean f k0 (length ms) = true.
Proof.
  induction ms as [|m ms IH]; intros f k0 H; [split; reflexivity|].
  cbn [length recover_from all_clean].
  pose proof (H 0%nat WRules) as Hr. pose proof (H 0%nat WSchemas) as Hs.
  cbn [catn nth_error cat_of N.of_nat] in Hr, Hs. rewrite N.add_0_r in Hr, Hs.
  destruct (good_loads _ _ Hr) as (Lr & _ & Cr). destruct (good_loads _ _ Hs) as (_ & Ls & Cs).
  rewrite Lr, Ls, Cr, Cs.
  destruct (IH f (k0 + 1)%N) as [R C].
  { intros i w. specialize (H (S i) w). cbn [catn nth_error] in H. unfold catn.
    replace (k0 + 1 + N.of_nat i)%N with (k0 + N.of_nat (S i))%N by lia. exact H. }
  rewrite R, C. destruct m. split; reflexivity.
Qed.

Lemma recover_good : forall f ms, Good f ms ->
  recover (length ms) f = Some ms /\ all_clean f 0 (length ms) = true.
Proof. intros f ms G. unfold recover. apply recover_from_good. intros i w. rewrite N.add_0_l. apply G. Qed.

(* recovery when every catalog directory is Good for the old OR the new catalog *)
Lemma recover_from_alt : forall olds news f k0, length olds = length news ->
  (forall i w, GoodDir (f (cat_dir (k0 + N.of_nat i) w)) (catn olds i w) \/
               GoodDir (f (cat_dir (k0 + N.of_nat i) w)) (catn news i w)) ->
  exists r, recover_from f k0 (length olds) = Some r /\ allowed_mems r olds news = true /\
            all_clean f k0 (length olds) = true /\ length r = length olds /\
            (forall i w, (i < length olds)%nat -> GoodDir (f (cat_dir (k0 + N.of_nat i) w)) (catn r i w)).
Proof.
  induction olds as [|o olds IH]; intros news f k0 L H; destruct news as [|n news]; try discriminate.
  - exists []. cbn. repeat split; auto; intros; lia.
  - cbn [length] in L. injection L as L.
    destruct (IH news f (k0 + 1)%N L) as (r & R & A & C & Lr & Gr).
    { intros i w. specialize (H (S i) w). cbn [catn nth_error] in H. unfold catn.
      replace (k0 + 1 + N.of_nat i)%N with (k0 + N.of_nat (S i))%N by lia. exact H. }
    pose proof (H 0%nat WRules) as Hr. pose proof (H 0%nat WSchemas) as Hs.
    cbn [catn nth_error cat_of N.of_nat] in Hr, Hs. rewrite N.add_0_r in Hr, Hs.
    assert (Er : exists cr, GoodDir (f (cat_dir k0 WRules)) cr /\ cat_old_or_new cr (rules o) (rules n) = true).
    { destruct Hr as [G|G]; [exists (rules o)|exists (rules n)]; split; auto; unfold cat_old_or_new;
        rewrite cat_eqb_refl; auto using orb_true_r. }
    assert (Es : exists cs, GoodDir (f (cat_dir k0 WSchemas)) cs /\ cat_old_or_new cs (schemas o) (schemas n) = true).
    { destruct Hs as [G|G]; [exists (schemas o)|exists (schemas n)]; split; auto; unfold cat_old_or_new;
        rewrite cat_eqb_refl; auto using orb_true_r. }
    destruct Er as (cr & Gcr & Acr). destruct Es as (cs & Gcs & Acs).
    destruct (good_loads _ _ Gcr) as (Lr' & _ & Cr). destruct (good_loads _ _ Gcs) as (_ & Ls' & Cs).
    exists (mkKg cr cs :: r). cbn [length recover_from all_clean allowed_mems rules schemas].
    rewrite Lr', Ls', Cr, Cs, R, C, Acr, Acs, A, Lr.
    split; [reflexivity|split; [reflexivity|split; [reflexivity|split; [reflexivity|]]]].
    intros i w Hi. destruct i as [|i].
    + cbn [catn nth_error N.of_nat]. rewrite N.add_0_r. destruct w; assumption.
    + specialize (Gr i w). cbn [catn nth_error]. unfold catn in Gr.
      replace (k0 + N.of_nat (S i))%N with (k0 + 1 + N.of_nat i)%N by lia. apply Gr. cbn [length] in Hi. lia.
Qed.

Lemma catn_beyond : forall ms i w, (length ms <= i)%nat -> catn ms i w = [].
Proof. intros ms i w H. unfold catn. apply nth_error_None in H. rewrite H. reflexivity. Qed.

Lemma recover_alt : forall olds news f, length olds = length news ->
  (forall i w, GoodDir (f (cat_dir (N.of_nat i) w)) (catn olds i w) \/
               GoodDir (f (cat_dir (N.of_nat i) w)) (catn news i w)) ->
  exists r, recover (length olds) f = Some r /\ allowed_mems r olds news = true /\
            all_clean f 0 (length olds) = true /\ Good f r.
Proof.
  intros olds news f L H.
  destruct (recover_from_alt olds news f 0 L) as (r & R & A & C & Lr & Gr).
  { intros i w. rewrite N.add_0_l. apply H. }
  exists r. split; [exact R|split; [exact A|split; [exact C|]]].
  intros i w. destruct (Nat.lt_ge_cases i (length olds)) as [Hi|Hi].
  - specialize (Gr i w Hi). rewrite N.add_0_l in Gr. exact Gr.
  - rewrite catn_beyond by lia.
    destruct (H i w) as [G|G]; rewrite catn_beyond in G by lia; exact G.
Qed.

(* ------------------------------------------------------------------ operations *)
Lemma kg_op_facts : forall m o m' ws, kg_op m o = Some (m', ws) ->
  NoDup ws /\ (forall w, existsb (which_eqb w) ws = false -> cat_of m' w = cat_of m w).
Proof.
  intros m o m' ws H.
  destruct o; cbn [kg_op] in H;
    repeat match type of H with
           | context[match ?x with _ => _ end] => destruct x eqn:?
           | context[if ?x then _ else _] => destruct x eqn:?
           end;
    try discriminate; injection H as <- <-;
    (split; [repeat constructor; cbn; intuition congruence
            |intros [] Hw; cbn in Hw |- *; try discriminate; reflexivity]).
Qed.

Definition sv_of (k : N) (m' : kgmem) (ws : list which) : list (N * cat) :=
  map (fun w => (cat_dir k w, cat_of m' w)) ws.

Lemma saves_steps_sv : forall k m' ws, saves_steps true k m' ws = steps_of (sv_of k m' ws).
Proof.
  intros. unfold saves_steps, steps_of, sv_of. induction ws as [|w ws IH]; [reflexivity|].
  cbn [map flat_map fst snd]. f_equal. exact IH.
Qed.

Lemma sv_nodup : forall k m' ws, NoDup ws -> NoDup (map fst (sv_of k m' ws)).
Proof.
  intros k m' ws ND. unfold sv_of. rewrite map_map. cbn [fst].
  induction ND as [|w ws Hn ND IH]; cbn; constructor; auto.
  intro Hin. apply in_map_iff in Hin. destruct Hin as (w' & E & Hin).
  assert (w' = w).
  { pose proof (cat_dir_eqb k w' k w) as Q. rewrite E, !N.eqb_refl in Q. destruct w', w; cbn in Q; congruence. }
  subst. contradiction.
Qed.

Lemma find_sv : forall k m' ws k' w,
  find_dir (cat_dir k' w) (sv_of k m' ws) =
  if N.eqb k k' && existsb (which_eqb w) ws then Some (cat_of m' w) else None.
Proof.
  intros k m' ws k' w. unfold find_dir, sv_of.
  induction ws as [|w0 ws IH]; cbn [map find existsb fst snd].
  - rewrite andb_false_r. reflexivity.
  - rewrite cat_dir_eqb. destruct (N.eqb k k') eqn:E; cbn [andb] in *.
    + destruct w0, w; cbn [which_eqb orb snd] in *; auto.
    + exact IH.
Qed.

Lemma nth_error_upd_same : forall {X} (l : list X) i y x, nth_error l i = Some x -> nth_error (upd_nth i y l) i = Some y.
Proof. induction l; intros [|i] y x H; cbn in *; try discriminate; eauto. Qed.
Lemma nth_error_upd_other : forall {X} (l : list X) i j y, i <> j -> nth_error (upd_nth i y l) j = nth_error l j.
Proof. induction l; intros [|i] [|j] y H; cbn; auto; try congruence. Qed.
Lemma upd_nth_length : forall {X} (l : list X) i y, length (upd_nth i y l) = length l.
Proof. induction l; intros [|i] y; cbn; auto. Qed.

(* what an operation does, in the vocabulary of multi_save *)
Lemma op_sem_shape : forall st o ok m' ms, Good (fsy st) (mem st) -> op_sem true st o = (ok, m', ms) ->
  exists sv, ms = steps_of sv /\ NoDup (map fst sv) /\ length m' = length (mem st) /\
             forall i w, match find_dir (cat_dir (N.of_nat i) w) sv with
                         | Some c' => c' | None => catn (mem st) i w end = catn m' i w.
Proof.
  intros st o ok m' ms G H. unfold op_sem in H.
  destruct (op_kg o) as [k|] eqn:Ek.
  - destruct (nth_error (mem st) (N.to_nat k)) as [m|] eqn:En.
    + destruct (kg_op m o) as [[mk ws]|] eqn:Eo.
      * injection H as <- <- <-.
        destruct (kg_op_facts _ _ _ _ Eo) as [ND Un].
        exists (sv_of k mk ws). rewrite saves_steps_sv. repeat split.
        -- apply sv_nodup; auto.
        -- apply upd_nth_length.
        -- intros i w. rewrite find_sv. unfold catn.
           destruct (N.eqb k (N.of_nat i)) eqn:E; cbn [andb].
           ++ apply N.eqb_eq in E. subst k. rewrite Nat2N.id in *.
              rewrite (nth_error_upd_same _ _ _ _ En).
              destruct (existsb (which_eqb w) ws) eqn:Ex; auto.
              rewrite En. symmetry. apply Un. exact Ex.
           ++ apply N.eqb_neq in E. rewrite nth_error_upd_other; auto.
              intro Q. apply E. rewrite <- Q. rewrite N2Nat.id. reflexivity.
      * injection H as <- <- <-. exists []. repeat split; auto. constructor.
    + injection H as <- <- <-. exists []. repeat split; auto. constructor.
  - destruct (recover_good _ _ G) as [R _]. rewrite R in H. injection H as <- <- <-.
    exists []. repeat split; auto. constructor.
Qed.

(* ------------------------------------------------------------------ crash points of a history *)
Definition point_ok (p : cpoint) (ch : N -> dchoice) : Prop :=
  let f := crash_fs ch (pfs p) in
  allowed p (recover (length (pold p)) f) = true /\
  all_clean f 0 (length (pold p)) = true /\
  exists r, recover (length (pold p)) f = Some r /\ Good f r.

Lemma allowed_mems_new : forall news olds, length olds = length news -> allowed_mems news olds news = true.
Proof.
  induction news as [|n news IH]; intros [|o olds] L; try discriminate; auto.
  cbn [allowed_mems]. unfold cat_old_or_new. rewrite !cat_eqb_refl, !orb_true_r. cbn. apply IH. cbn in L. lia.
Qed.

Lemma good_crash : forall f ms ch, Good f ms -> Good (crash_fs ch f) ms.
Proof. intros f ms ch G i w. unfold crash_fs. apply crash_good. apply G. Qed.

Lemma op_points_ok : forall st o ok m' ms, Good (fsy st) (mem st) -> op_sem true st o = (ok, m', ms) ->
  Forall (fun p => forall ch, point_ok p ch) (op_points st m' ms) /\ Good (exec ms (fsy st)) m'.
Proof.
  intros st o ok m' ms G H.
  destruct (op_sem_shape _ _ _ _ _ G H) as (sv & -> & ND & Lm & Hn).
  assert (Gdone : Good (exec (steps_of sv) (fsy st)) m').
  { intros i w. rewrite <- Hn. apply multi_save_done; auto. }
  split; [|exact Gdone].
  unfold op_points. apply Forall_map. apply Forall_forall. intros j Hj ch.
  apply in_seq in Hj. unfold point_ok. cbn [pfs pold pnew pdone].
  destruct (Nat.eqb j (length (steps_of sv))) eqn:Ej.
  - apply Nat.eqb_eq in Ej. subst j. rewrite firstn_all.
    pose proof (good_crash _ _ ch Gdone) as Gc.
    destruct (recover_good _ _ Gc) as [R C]. rewrite <- Lm, R, C.
    unfold allowed. cbn [pold pnew pdone]. rewrite mems_eqb_refl, allowed_mems_new by auto.
    repeat split; auto. exists m'. split; auto.
  - destruct (recover_alt (mem st) m' (crash_fs ch (exec (firstn j (steps_of sv)) (fsy st))) (eq_sym Lm))
      as (r & R & A & C & Gr).
    { intros i w. rewrite <- Hn. apply multi_save_mid; auto. }
    rewrite R, C. unfold allowed. cbn [pold pnew pdone]. rewrite A.
    repeat split; auto. exists r. split; auto.
Qed.

Theorem points_safe : forall h st, Good (fsy st) (mem st) ->
  Forall (fun p => forall ch, point_ok p ch) (points true st h).
Proof.
  induction h as [|o h IH]; intros st G.
  - cbn [points]. constructor; [|constructor]. intro ch. unfold point_ok. cbn [pfs pold pnew pdone].
    pose proof (good_crash _ _ ch G) as Gc. destruct (recover_good _ _ Gc) as [R C]. rewrite R, C.
    unfold allowed. cbn [pold pnew pdone]. rewrite mems_eqb_refl, allowed_mems_new by auto.
    repeat split; auto. exists (mem st). split; auto.
  - cbn [points]. destruct (op_sem true st o) as [[ok m'] ms] eqn:E.
    destruct (op_points_ok _ _ _ _ _ G E) as [F Gd].
    apply Forall_app. split; [exact F|].
    apply (IH (mkSt m' (exec ms (fsy st)))). exact Gd.
Qed.

(* a clean restart of a Good store changes nothing *)
Lemma restart_identity : forall st, Good (fsy st) (mem st) -> op_sem true st CRestart = (true, mem st, []).
Proof. intros st G. unfold op_sem. cbn [op_kg]. destruct (recover_good _ _ G) as [R _]. rewrite R. reflexivity. Qed.
