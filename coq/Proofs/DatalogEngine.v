(* The engine's strategy (per-head evaluation along a dependency-respecting order, local fixpoint for
   self-recursive heads) computes the perfect model: main lemma for C01. *)
From IL Require Import Model.Value Model.Datalog Proofs.ValueEq Proofs.DatalogMono Proofs.DatalogSpec.
From Coq Require Import Lia.
Open Scope N_scope.

Lemma no_aggb_spec p : no_aggb p = true -> no_agg p.
Proof.
  intros H c Hc. unfold no_aggb in H. rewrite forallb_forall in H. specialize (H c Hc).
  destruct (has_agg c); [discriminate|reflexivity].
Qed.

Lemma nodupN_In x l : In x (nodupN l) <-> In x l.
Proof.
  induction l as [|y l IH]; cbn; [tauto|].
  destruct (existsb (N.eqb y) l) eqn:E.
  - rewrite IH. split; [auto|]. intros [<-|H]; [|exact H].
    apply existsb_exists in E. destruct E as [z [Hz Ez]]. apply N.eqb_eq in Ez; subst; exact Hz.
  - cbn. rewrite IH. tauto.
Qed.

Section Engine.
  Variable p : program.
  Variable fuel : nat.
  Variable edb : db.
  Hypothesis Hagg : no_agg p.
  Hypothesis Hstrat : stratified p = true.
  Hypothesis Hfresh : heads_fresh p edb = true.
  Variable M : db.
  Hypothesis HM : perfect_model fuel p edb = Some M.

  Let hs := heads p.

  Lemma fresh_nil h : In h hs -> get edb h = [].
  Proof.
    intros Hh. unfold heads_fresh in Hfresh. rewrite forallb_forall in Hfresh.
    specialize (Hfresh h Hh). destruct (get edb h); [reflexivity|discriminate].
  Qed.

  Lemma HM' : strata_eval fuel p (levels p) 0 (S (length hs)) edb = Some M.
  Proof. unfold perfect_model in HM. rewrite Hstrat in HM. exact HM. Qed.

  Lemma edb_nodup : nodup_db p edb.
  Proof. intros r Hr. rewrite (fresh_nil r Hr). constructor. Qed.

  (* M1: non-head relations are the stored ones *)
  Lemma M_nonhead r : ~ In r hs -> get M r = get edb r.
  Proof. intros H. eapply (srun_frame p fuel _ _ _ _ HM'). left; exact H. Qed.

  Lemma M_closed h : In h hs -> incl (apply_head p M h) (get M h).
  Proof.
    intros Hh. eapply (srun_closed p fuel Hagg Hstrat _ _ _ _ edb_nodup HM' h Hh).
    pose proof (level_bound p Hstrat h Hh). fold hs in H. lia.
  Qed.

  Lemma M_supported h : In h hs -> incl (get M h) (apply_head p M h).
  Proof.
    intros Hh t Ht.
    pose proof (srun_supported p fuel Hagg Hstrat _ _ edb edb M HM' h Hh (fun g _ _ => eq_refl)) as S.
    specialize (S ltac:(lia) t Ht). rewrite (fresh_nil h Hh) in S. exact S.
  Qed.

  Lemma M_grows r : incl (get edb r) (get M r).
  Proof. apply (srun_grows p fuel _ _ _ _ HM'). Qed.

  (* M3: leastness.  If X is closed under h's clauses evaluated over M with h replaced by X,
     then M's relation h is contained in X. *)
  Lemma M_least h X : In h hs ->
    incl (apply_head p (set_rel M h X) h) X -> incl (get M h) X.
  Proof.
    intros Hh Hpre.
    assert (G : forall n k d, strata_eval fuel p (levels p) k n d = Some M ->
                 incl (get d h) X -> incl (get M h) X).
    { induction n as [|n IH]; intros k d H Hd.
      - cbn in H. inversion H; subst; exact Hd.
      - pose proof H as Hfull. rewrite (srun_S p fuel) in H.
        destruct (joint_lfp fuel p (stratum p k) d) as [d1|] eqn:E; [|discriminate].
        apply (IH (S k) d1 H).
        destruct (Nat.eq_dec (L p h) k) as [Hk|Hk].
        + (* the stratum of h *)
          refine (proj1 (joint_lfp_ind p
                    (fun x => incl (get x h) X /\ (forall r, incl (get x r) (get M r)) /\
                              (forall r, (L p r < k)%nat \/ ~ In r hs -> get x r = get M r))
                    (stratum p k) _ fuel d d1 _ E)).
          * intros x [Hx [Hsub Hlow]].
            assert (Hneg : forall g r, In g hs -> L p g = k -> In (r, true) (head_refs p g) -> get x r = get M r).
            { intros g r Hg Hgk Hr. destruct (in_dec N.eq_dec r hs) as [Hin|Hnin]; [|apply Hlow; right; exact Hnin].
              apply Hlow. left. pose proof (level_neg p Hagg Hstrat g r Hg Hr). lia. }
            split; [|split].
            -- intros t Ht. rewrite joint_round_get in Ht.
               assert (memN h (stratum p k) = true) as Hm by (apply memN_In, stratum_In; tauto).
               rewrite Hm in Ht. apply (proj1 (dedup_tuples_In _ _)) in Ht. apply in_app_or in Ht.
               destruct Ht as [Ht|Ht]; [apply Hx, Ht|]. apply Hpre.
               refine (apply_head_mono p h x (set_rel M h X) Hagg _ _ t Ht).
               ++ intros r _. rewrite get_set_rel. destruct (N.eqb r h) eqn:Er.
                  ** apply N.eqb_eq in Er; subst. exact Hx.
                  ** apply Hsub.
               ++ intros r Hr. rewrite get_set_rel. destruct (N.eqb r h) eqn:Er.
                  ** apply N.eqb_eq in Er; subst. pose proof (level_neg p Hagg Hstrat h h Hh Hr). lia.
                  ** rewrite (Hneg h r Hh Hk Hr). apply seq_refl.
            -- intros r. rewrite joint_round_get. destruct (memN r (stratum p k)) eqn:Mr; [|apply Hsub].
               apply memN_In, stratum_In in Mr. destruct Mr as [Mr1 Mr2].
               intros t Ht. apply (proj1 (dedup_tuples_In _ _)) in Ht. apply in_app_or in Ht.
               destruct Ht as [Ht|Ht]; [apply Hsub, Ht|]. apply (M_closed r Mr1).
               refine (apply_head_mono p r x M Hagg _ _ t Ht).
               ++ intros r' _. apply Hsub.
               ++ intros r' Hr'. rewrite (Hneg r r' Mr1 Mr2 Hr'). apply seq_refl.
            -- intros r Hr. rewrite joint_round_get. destruct (memN r (stratum p k)) eqn:Mr; [|apply Hlow, Hr].
               apply memN_In, stratum_In in Mr. destruct Hr; [lia|tauto].
          * split; [exact Hd|]. split.
            -- intros r. apply (srun_grows p fuel _ _ _ _ Hfull).
            -- intros r Hr. symmetry. apply (srun_frame p fuel _ _ _ _ Hfull).
               destruct Hr; [right; left; assumption|left; assumption].
        + assert (F : get d1 h = get d h).
          { eapply joint_lfp_frame; [exact E|]. destruct (memN h (stratum p k)) eqn:Mh; [|reflexivity].
            apply memN_In, stratum_In in Mh. tauto. }
          rewrite F. exact Hd. }
    apply (G _ _ _ HM'). rewrite (fresh_nil h Hh). intros t [].
  Qed.

  (* ------------------------------------------------------------------ the engine *)
  (* env invariant: stored relations untouched, processed heads hold their perfect-model relation *)
  Record EnvInv (env : db) (done : list rel) : Prop := {
    ei_nonhead : forall r, ~ In r hs -> get env r = get edb r;
    ei_done : forall h, In h done -> seq (get env h) (get M h)
  }.

  Lemma refs_agree env done h : EnvInv env done -> In h hs ->
    forallb (fun g => memN g done) (deps p hs h) = true ->
    forall r b, In (r, b) (head_refs p h) -> r <> h -> seq (get env r) (get M r).
  Proof.
    intros [E1 E2] Hh Hd r b Hr Hne.
    destruct (in_dec N.eq_dec r hs) as [Hin|Hnin].
    - apply E2. rewrite forallb_forall in Hd. apply memN_In. apply Hd.
      unfold deps. apply filter_In. split.
      + apply nodupN_In. apply in_map_iff. exists (r, b). split; [reflexivity|exact Hr].
      + apply andb_true_iff. split; [apply memN_In; exact Hin|].
        apply negb_true_iff. apply N.eqb_neq. exact Hne.
    - rewrite (E1 r Hnin), (M_nonhead r Hnin). apply seq_refl.
  Qed.

  Lemma self_rec_false h : self_rec p h = false -> forall b, ~ In (h, b) (head_refs p h).
  Proof.
    intros H b Hin. unfold self_rec in H. rewrite <- not_true_iff_false in H. apply H.
    apply memN_In. apply in_map_iff. exists (h, b). split; [reflexivity|exact Hin].
  Qed.

  (* the local fixpoint of a self-recursive head *)
  Lemma local_lfp_correct env done h : EnvInv env done -> In h hs ->
    forallb (fun g => memN g done) (deps p hs h) = true ->
    forall f cur X, NoDup cur -> incl cur (get M h) ->
      local_lfp f p env h cur = Some X -> seq X (get M h).
  Proof.
    intros EI Hh Hd. induction f as [|f IH]; intros cur X Hnd Hsub H; cbn in H; [discriminate|].
    set (nxt := dedup_tuples (cur ++ apply_head p (set_rel env h cur) h)) in *.
    assert (Hstep : incl (apply_head p (set_rel env h cur) h) (get M h)).
    { eapply incl_tran; [|apply (M_closed h Hh)].
      apply apply_head_mono; [exact Hagg| |].
      - intros r Hr. rewrite get_set_rel. destruct (N.eqb r h) eqn:Er.
        + apply N.eqb_eq in Er; subst; exact Hsub.
        + apply N.eqb_neq in Er. apply (refs_agree env done h EI Hh Hd r false Hr Er).
      - intros r Hr. rewrite get_set_rel. destruct (N.eqb r h) eqn:Er.
        + apply N.eqb_eq in Er; subst. pose proof (level_neg p Hagg Hstrat h h Hh Hr). lia.
        + apply N.eqb_neq in Er. apply (refs_agree env done h EI Hh Hd r true Hr Er). }
    destruct (Nat.eqb (length nxt) (length cur)) eqn:El.
    - inversion H; subst X. split; [exact Hsub|].
      apply Nat.eqb_eq in El.
      assert (Hcn : incl cur nxt).
      { intros t Ht. apply dedup_tuples_In. apply in_or_app; left; exact Ht. }
      assert (Hnc : incl nxt cur).
      { apply NoDup_length_incl; [exact Hnd|lia|exact Hcn]. }
      apply (M_least h cur Hh).
      intros t Ht. apply Hnc. apply dedup_tuples_In. apply in_or_app; right.
      refine (proj1 (apply_head_frame p h (set_rel M h cur) (set_rel env h cur) Hagg _) t Ht).
      intros r b Hr. rewrite !get_set_rel. destruct (N.eqb r h) eqn:Er; [apply seq_refl|].
      apply N.eqb_neq in Er. apply seq_sym. apply (refs_agree env done h EI Hh Hd r b Hr Er).
    - apply (IH nxt X); [apply dedup_tuples_NoDup| |exact H].
      intros t Ht. apply (proj1 (dedup_tuples_In _ _)) in Ht. apply in_app_or in Ht.
      destruct Ht as [Ht|Ht]; [apply Hsub, Ht|apply Hstep, Ht].
  Qed.

  Lemma run_node_correct env done h res : EnvInv env done -> In h hs ->
    forallb (fun g => memN g done) (deps p hs h) = true ->
    run_node fuel p env h = Some res -> seq res (get M h).
  Proof.
    intros EI Hh Hd H. unfold run_node in H. destruct (self_rec p h) eqn:Sr.
    - eapply (local_lfp_correct env done h EI Hh Hd fuel [] res); [constructor|intros t []|exact H].
    - inversion H; subst res.
      eapply seq_trans; [|split; [apply (M_closed h Hh)|apply (M_supported h Hh)]].
      apply apply_head_frame; [exact Hagg|]. intros r b Hr.
      apply (refs_agree env done h EI Hh Hd r b Hr).
      intros ->. exact (self_rec_false h Sr b Hr).
  Qed.

  Lemma run_nodes_correct : forall o env done l0 env' ans,
    EnvInv env done -> order_okb p hs done o = true ->
    run_nodes fuel p o env l0 = Some (env', ans) ->
    match o with [] => ans = l0 | _ => seq ans (get M (last o 0)) end.
  Proof.
    induction o as [|h o IH]; intros env done l0 env' ans EI Ho H; cbn in H.
    - inversion H; reflexivity.
    - cbn [order_okb] in Ho. apply andb_true_iff in Ho. destruct Ho as [Ho Ho3].
      apply andb_true_iff in Ho. destruct Ho as [Ho1 Ho2]. apply memN_In in Ho1.
      destruct (run_node fuel p env h) as [res|] eqn:R; [|discriminate].
      pose proof (run_node_correct env done h res EI Ho1 Ho2 R) as Hres.
      assert (EI' : EnvInv (set_rel env h res) (h :: done)).
      { destruct EI as [E1 E2]. constructor.
        - intros r Hr. rewrite get_set_rel. destruct (N.eqb r h) eqn:Er; [|apply E1, Hr].
          apply N.eqb_eq in Er; subst. contradiction.
        - intros g Hg. rewrite get_set_rel. destruct (N.eqb g h) eqn:Eg.
          + apply N.eqb_eq in Eg; subst. exact Hres.
          + destruct Hg as [<-|Hg]; [rewrite N.eqb_refl in Eg; discriminate|apply E2, Hg]. }
      specialize (IH (set_rel env h res) (h :: done) res env' ans EI' Ho3 H).
      destruct o as [|h2 o2]; [subst ans; exact Hres|exact IH].
  Qed.

  Lemma engine_correct ans : order_ok p = true ->
    eval_engine fuel p edb = Some ans -> topo_order p <> [] ->
    seq ans (get M (engine_query p)).
  Proof.
    intros Ho H Hne. unfold eval_engine in H.
    destruct (run_nodes fuel p (topo_order p) edb []) as [[env' a]|] eqn:R; [|discriminate].
    inversion H; subst a.
    assert (EI : EnvInv edb []) by (constructor; [reflexivity|intros h []]).
    pose proof (run_nodes_correct (topo_order p) edb [] [] env' ans EI Ho R) as C.
    unfold engine_query. destruct (topo_order p); [contradiction|exact C].
  Qed.
End Engine.

(* any dependency-respecting order gives the perfect-model relation of its last node *)
Lemma any_order_correct p fuel edb M o env' ans :
  no_agg p -> stratified p = true -> heads_fresh p edb = true ->
  perfect_model fuel p edb = Some M ->
  order_okb p (heads p) [] o = true -> o <> [] ->
  run_nodes fuel p o edb [] = Some (env', ans) ->
  seq ans (get M (last o 0)).
Proof.
  intros Ha Hs Hf HM Ho Hne R.
  assert (EI : EnvInv p edb M edb []) by (constructor; [reflexivity|intros h []]).
  pose proof (run_nodes_correct p fuel edb Ha Hs Hf M HM o edb [] [] env' ans EI Ho R) as C.
  destruct o; [contradiction|exact C].
Qed.
