(* Join order is irrelevant: evaluating the positive atoms of a rule body in any order yields the same
   set of answers (Model/Datalog.v eval_clause).  This is the Datalog-level content of join planning
   (and of every pass that only reorders joins). *)
From IL Require Import Model.Value Model.Datalog Proofs.ValueEq Proofs.DatalogMono.
From Coq Require Import Lia Permutation.
Open Scope N_scope.

(* ------------------------------------------------------------------ valuations as finite maps *)
Definition veq (a b : valuation) : Prop := forall x, lookup a x = lookup b x.
Definition ext (a b : valuation) : Prop := forall x v, lookup a x = Some v -> lookup b x = Some v.

Lemma veq_refl a : veq a a. Proof. intros x; reflexivity. Qed.
Lemma veq_sym a b : veq a b -> veq b a. Proof. intros H x; symmetry; apply H. Qed.
Lemma veq_trans a b c : veq a b -> veq b c -> veq a c.
Proof. intros H1 H2 x; rewrite H1; apply H2. Qed.
Lemma ext_refl a : ext a a. Proof. intros x v H; exact H. Qed.
Lemma ext_trans a b c : ext a b -> ext b c -> ext a c.
Proof. intros H1 H2 x v H; apply H2, H1, H. Qed.
Lemma veq_ext a b : veq a b -> ext a b. Proof. intros H x v E; rewrite <- H; exact E. Qed.

Lemma lookup_cons x v th y : lookup ((x, v) :: th) y = if N.eqb y x then Some v else lookup th y.
Proof. reflexivity. Qed.

Lemma ext_cons x v th : lookup th x = None -> ext th ((x, v) :: th).
Proof.
  intros Hn y w H. rewrite lookup_cons. destruct (N.eqb y x) eqn:E; [|exact H].
  apply N.eqb_eq in E; subst. congruence.
Qed.

Lemma value_eqb_eq a b : value_eqb a b = true -> a = b.
Proof. apply value_eqb_spec. Qed.
Lemma value_eqb_refl a : value_eqb a a = true.
Proof. apply value_eqb_spec; reflexivity. Qed.

(* what it means for a valuation to make an argument list match a tuple *)
Fixpoint matches (args : list term) (t : tuple) (th : valuation) : Prop :=
  match args, t with
  | [], [] => True
  | a :: args', v :: t' =>
      match a with
      | TWild => True
      | TConst c => c = v
      | TVar x => lookup th x = Some v
      end /\ matches args' t' th
  | _, _ => False
  end.

Lemma matches_ext args : forall t a b, ext a b -> matches args t a -> matches args t b.
Proof.
  induction args as [|x args IH]; intros [|v t] a b He H; cbn in *; try exact H.
  destruct H as [H1 H2]. split; [|eapply IH; eauto]. destruct x; auto.
Qed.

Lemma matches_bound args : forall t th x, matches args t th -> In x (vars_of_terms args) -> lookup th x <> None.
Proof.
  induction args as [|a args IH]; intros [|v t] th x H Hin; cbn in *; try contradiction.
  destruct H as [H1 H2]. destruct a as [y|c|]; cbn in Hin.
  - destruct Hin as [<-|Hin]; [congruence|eapply IH; eauto].
  - eapply IH; eauto.
  - eapply IH; eauto.
Qed.

(* soundness of match_args *)
Lemma match_args_sound args : forall t th th', match_args args t th = Some th' ->
  ext th th' /\ matches args t th' /\
  (forall x, lookup th' x <> None -> lookup th x <> None \/ In x (vars_of_terms args)).
Proof.
  induction args as [|a args IH]; intros [|v t] th th' H; cbn in H; try discriminate.
  - inversion H; subst. split; [apply ext_refl|]. split; [exact I|]. intros x Hx; left; exact Hx.
  - destruct a as [x|c|].
    + destruct (lookup th x) as [w|] eqn:L.
      * destruct (value_eqb w v) eqn:E; [|discriminate]. apply value_eqb_eq in E; subst w.
        destruct (IH t th th' H) as [He [Hm Hd]]. split; [exact He|]. split.
        -- cbn. split; [apply He, L|exact Hm].
        -- intros y Hy. destruct (Hd y Hy) as [H1|H1]; [left; exact H1|right; cbn; right; exact H1].
      * destruct (IH t ((x, v) :: th) th' H) as [He [Hm Hd]]. split.
        -- eapply ext_trans; [apply ext_cons; exact L|exact He].
        -- split.
           ++ cbn. split; [|exact Hm]. apply He. rewrite lookup_cons, N.eqb_refl. reflexivity.
           ++ intros y Hy. destruct (Hd y Hy) as [H1|H1].
              ** rewrite lookup_cons in H1. destruct (N.eqb y x) eqn:E.
                 --- apply N.eqb_eq in E; subst. right; cbn; left; reflexivity.
                 --- left; exact H1.
              ** right; cbn; right; exact H1.
    + destruct (value_eqb c v) eqn:E; [|discriminate]. apply value_eqb_eq in E; subst c.
      destruct (IH t th th' H) as [He [Hm Hd]]. split; [exact He|]. split; [cbn; split; [reflexivity|exact Hm]|].
      intros y Hy. destruct (Hd y Hy); [left|right]; assumption.
    + destruct (IH t th th' H) as [He [Hm Hd]]. split; [exact He|]. split; [cbn; split; [exact I|exact Hm]|].
      intros y Hy. destruct (Hd y Hy); [left|right]; assumption.
Qed.

(* completeness: if some extension matches, match_args succeeds below it *)
Lemma match_args_complete args : forall t th eta, ext th eta -> matches args t eta ->
  exists th', match_args args t th = Some th' /\ ext th' eta.
Proof.
  induction args as [|a args IH]; intros [|v t] th eta He Hm; cbn in Hm; try contradiction.
  - exists th. split; [reflexivity|exact He].
  - destruct Hm as [H1 H2]. destruct a as [x|c|]; cbn [match_args].
    + destruct (lookup th x) as [w|] eqn:L.
      * pose proof (He x w L) as E. rewrite H1 in E. inversion E; subst w.
        rewrite value_eqb_refl. apply (IH t th eta He H2).
      * apply (IH t ((x, v) :: th) eta); [|exact H2].
        intros y w Hy. rewrite lookup_cons in Hy. destruct (N.eqb y x) eqn:E.
        -- apply N.eqb_eq in E; subst. inversion Hy; subst. exact H1.
        -- apply He, Hy.
    + subst c. rewrite value_eqb_refl. apply (IH t th eta He H2).
    + apply (IH t th eta He H2).
Qed.

Lemma match_args_veq args : forall t a b, veq a b ->
  match match_args args t a, match_args args t b with
  | Some a', Some b' => veq a' b'
  | None, None => True
  | _, _ => False
  end.
Proof.
  induction args as [|x args IH]; intros [|v t] a b H; cbn; try exact I; [exact H|].
  destruct x as [y|c|].
  - rewrite <- (H y). destruct (lookup a y) as [w|].
    + destruct (value_eqb w v); [apply IH, H|exact I].
    + apply IH. intros z. rewrite !lookup_cons. destruct (N.eqb z y); [reflexivity|apply H].
  - destruct (value_eqb c v); [apply IH, H|exact I].
  - apply IH, H.
Qed.

(* two successive matches commute up to veq *)
Lemma match_args_commute a1 t1 a2 t2 th th1 th12 :
  match_args a1 t1 th = Some th1 -> match_args a2 t2 th1 = Some th12 ->
  exists th2 th21, match_args a2 t2 th = Some th2 /\ match_args a1 t1 th2 = Some th21 /\ veq th12 th21.
Proof.
  intros H1 H2.
  destruct (match_args_sound a1 t1 th th1 H1) as [E1 [M1 D1]].
  destruct (match_args_sound a2 t2 th1 th12 H2) as [E2 [M2 D2]].
  assert (E : ext th th12) by (eapply ext_trans; eauto).
  destruct (match_args_complete a2 t2 th th12 E M2) as [th2 [H3 E3]].
  assert (M1' : matches a1 t1 th12) by exact (matches_ext a1 t1 th1 th12 E2 M1).
  destruct (match_args_complete a1 t1 th2 th12 E3 M1') as [th21 [H4 E4]].
  exists th2, th21. split; [exact H3|]. split; [exact H4|].
  destruct (match_args_sound a2 t2 th th2 H3) as [E5 [M5 D5]].
  destruct (match_args_sound a1 t1 th2 th21 H4) as [E6 [M6 D6]].
  intros x. destruct (lookup th12 x) as [v|] eqn:L.
  - (* x is bound in th12: it is bound in th, or a variable of a1 or a2, hence bound in th21 *)
    assert (B : lookup th21 x <> None).
    { assert (Hx : lookup th12 x <> None) by congruence.
      destruct (D2 x Hx) as [Hx1|Hx2].
      - destruct (D1 x Hx1) as [Hx0|Hx1'].
        + destruct (lookup th x) as [w|] eqn:L0; [|congruence].
          rewrite (E6 x w (E5 x w L0)). discriminate.
        + eapply matches_bound; eauto.
      - assert (lookup th2 x <> None) by (eapply matches_bound; eauto).
        destruct (lookup th2 x) as [w|] eqn:L2; [|congruence]. rewrite (E6 x w L2). discriminate. }
    destruct (lookup th21 x) as [w|] eqn:L'; [|congruence].
    pose proof (E4 x w L') as Ew. rewrite L in Ew. exact Ew.
  - destruct (lookup th21 x) as [w|] eqn:L'; [|reflexivity].
    pose proof (E4 x w L') as Ew. congruence.
Qed.

(* ------------------------------------------------------------------ sets of valuations up to veq *)
Definition vsub (A B : list valuation) : Prop := forall a, In a A -> exists b, In b B /\ veq a b.
Definition vseq (A B : list valuation) : Prop := vsub A B /\ vsub B A.

Lemma vsub_refl A : vsub A A.
Proof. intros a Ha; exists a; split; [exact Ha|apply veq_refl]. Qed.
Lemma vsub_trans A B C : vsub A B -> vsub B C -> vsub A C.
Proof.
  intros H1 H2 a Ha. destruct (H1 a Ha) as [b [Hb E1]]. destruct (H2 b Hb) as [c [Hc E2]].
  exists c; split; [exact Hc|eapply veq_trans; eauto].
Qed.
Lemma vseq_refl A : vseq A A. Proof. split; apply vsub_refl. Qed.
Lemma vseq_trans A B C : vseq A B -> vseq B C -> vseq A C.
Proof. intros [H1 H2] [H3 H4]; split; eapply vsub_trans; eauto. Qed.
Lemma vseq_sym A B : vseq A B -> vseq B A. Proof. intros [H1 H2]; split; assumption. Qed.

Lemma extend_pos_In d r args ths th' :
  In th' (extend_pos d r args ths) <->
  exists th t, In th ths /\ In t (get d r) /\ match_args args t th = Some th'.
Proof.
  unfold extend_pos. rewrite in_flat_map. split.
  - intros [th [Hth H]]. apply in_flat_map in H. destruct H as [t [Ht H]].
    destruct (match_args args t th) as [x|] eqn:E; cbn in H; [|destruct H].
    destruct H as [<-|[]]. exists th, t. auto.
  - intros [th [t [Hth [Ht E]]]]. exists th. split; [exact Hth|]. apply in_flat_map. exists t. split; [exact Ht|].
    rewrite E. left; reflexivity.
Qed.

Lemma extend_pos_vsub d r args A B : vsub A B -> vsub (extend_pos d r args A) (extend_pos d r args B).
Proof.
  intros H a' Ha'. apply extend_pos_In in Ha'. destruct Ha' as [a [t [Ha [Ht E]]]].
  destruct (H a Ha) as [b [Hb Eab]]. pose proof (match_args_veq args t a b Eab) as V. rewrite E in V.
  destruct (match_args args t b) as [b'|] eqn:Eb; [|destruct V].
  exists b'. split; [|exact V]. apply extend_pos_In. exists b, t. auto.
Qed.

Lemma extend_pos_swap d r1 a1 r2 a2 A :
  vsub (extend_pos d r2 a2 (extend_pos d r1 a1 A)) (extend_pos d r1 a1 (extend_pos d r2 a2 A)).
Proof.
  intros x Hx. apply extend_pos_In in Hx. destruct Hx as [th1 [t2 [H1 [Ht2 E2]]]].
  apply extend_pos_In in H1. destruct H1 as [th [t1 [Hth [Ht1 E1]]]].
  destruct (match_args_commute a1 t1 a2 t2 th th1 x E1 E2) as [th2 [th21 [E3 [E4 V]]]].
  exists th21. split; [|exact V]. apply extend_pos_In. exists th2, t1. split; [|split; [exact Ht1|exact E4]].
  apply extend_pos_In. exists th, t2. auto.
Qed.

(* the positive atoms of a body, in order *)
Definition pos_atoms (body : list lit) : list (rel * list term) :=
  flat_map (fun l => match l with LPos r a => [(r, a)] | _ => [] end) body.

Definition run_atoms (d : db) (atoms : list (rel * list term)) (ths : list valuation) : list valuation :=
  fold_left (fun acc ra => extend_pos d (fst ra) (snd ra) acc) atoms ths.

Lemma pos_pass_atoms d body : forall ths, pos_pass d body ths = run_atoms d (pos_atoms body) ths.
Proof.
  induction body as [|l body IH]; intros ths; cbn; [reflexivity|].
  destruct l; cbn; apply IH.
Qed.

Lemma run_atoms_vsub d atoms : forall A B, vsub A B -> vsub (run_atoms d atoms A) (run_atoms d atoms B).
Proof.
  induction atoms as [|[r a] atoms IH]; intros A B H; cbn; [exact H|].
  apply IH, extend_pos_vsub, H.
Qed.

Lemma run_atoms_perm d atoms atoms' : Permutation atoms atoms' ->
  forall A, vseq (run_atoms d atoms A) (run_atoms d atoms' A).
Proof.
  induction 1 as [|x l l' _ IH|x y l|l l' l'' _ IH1 _ IH2]; intros A.
  - apply vseq_refl.
  - cbn. apply IH.
  - cbn. split; apply run_atoms_vsub; apply extend_pos_swap.
  - eapply vseq_trans; [apply IH1|apply IH2].
Qed.

(* ------------------------------------------------------------------ the rest of body evaluation respects veq *)
Lemma aeval_veq a b e : veq a b -> aeval a e = aeval b e.
Proof.
  intros H. induction e as [x|z|e1 IH1 e2 IH2|e1 IH1 e2 IH2|e1 IH1 e2 IH2]; cbn; rewrite ?H, ?IH1, ?IH2; reflexivity.
Qed.

Definition assign_step (x : N) (e : aexp) (th : valuation) : list valuation :=
  match aeval th e with
  | Some z =>
      match lookup th x with
      | Some w => if cmp_vals OEq w (VI64 z) then [th] else []
      | None => [(x, VI64 z) :: th]
      end
  | None => []
  end.

Lemma assign_step_vsub x e a b : veq a b -> vsub (assign_step x e a) (assign_step x e b).
Proof.
  intros H. unfold assign_step. rewrite (aeval_veq a b e H), <- (H x).
  destruct (aeval b e) as [z|]; [|intros ? []].
  destruct (lookup a x) as [w|].
  - destruct (cmp_vals OEq w (VI64 z)); [|intros ? []]. intros c [<-|[]]. exists b. split; [left; reflexivity|exact H].
  - intros c [<-|[]]. exists ((x, VI64 z) :: b). split; [left; reflexivity|].
    intros y. rewrite !lookup_cons. destruct (N.eqb y x); [reflexivity|apply H].
Qed.

Lemma assign_pass_vsub body : forall A B, vsub A B -> vsub (assign_pass body A) (assign_pass body B).
Proof.
  induction body as [|l body IH]; intros A B H; cbn [assign_pass]; [exact H|].
  destruct l as [r a|r a|op u v|x e]; try (apply IH, H).
  apply IH. intros c Hc. apply in_flat_map in Hc. destruct Hc as [a [Ha Hc]].
  destruct (H a Ha) as [b [Hb E]].
  change (In c (assign_step x e a)) in Hc.
  destruct (assign_step_vsub x e a b E c Hc) as [c' [Hc' E']].
  exists c'. split; [|exact E']. apply in_flat_map. exists b. split; [exact Hb|exact Hc'].
Qed.

Lemma term_val_veq a b t : veq a b -> term_val a t = term_val b t.
Proof. intros H; destruct t; cbn; [apply H|reflexivity|reflexivity]. Qed.

Lemma filter_lit_veq d a b l : veq a b -> filter_lit d a l = filter_lit d b l.
Proof.
  intros H. destruct l as [r args|r args|op u v|x e]; cbn; try reflexivity.
  - unfold holds_neg. f_equal. induction (get d r) as [|t ts IH]; cbn; [reflexivity|].
    rewrite IH. f_equal. pose proof (match_args_veq args t a b H) as V.
    destruct (match_args args t a), (match_args args t b); try reflexivity; destruct V.
  - unfold holds_cmp. rewrite (term_val_veq a b u H), (term_val_veq a b v H). reflexivity.
Qed.

Lemma inst_head_veq a b hs : veq a b -> inst_head a hs = inst_head b hs.
Proof.
  intros H. induction hs as [|h hs IH]; cbn; [reflexivity|]. rewrite IH.
  destruct h; cbn; rewrite ?H; reflexivity.
Qed.

(* ------------------------------------------------------------------ main theorem *)
Definition nonpos (body : list lit) : list lit :=
  filter (fun l => match l with LPos _ _ => false | _ => true end) body.

Lemma assign_pass_nonpos body : forall A, assign_pass body A = assign_pass (nonpos body) A.
Proof.
  induction body as [|l body IH]; intros A; cbn; [reflexivity|].
  destruct l; cbn; apply IH.
Qed.

Lemma forallb_filter_lit_pos d th body :
  forallb (filter_lit d th) body = forallb (filter_lit d th) (nonpos body).
Proof.
  induction body as [|l body IH]; cbn; [reflexivity|]. destruct l; cbn; rewrite IH; reflexivity.
Qed.

(* two bodies with the same non-positive literals (same order) and the same positive atoms in any order *)
Definition same_up_to_join_order (b b' : list lit) : Prop :=
  nonpos b = nonpos b' /\ Permutation (pos_atoms b) (pos_atoms b').

Lemma eval_body_reorder d b b' : same_up_to_join_order b b' -> vsub (eval_body d b) (eval_body d b').
Proof.
  intros [Hn Hp] th Hth. unfold eval_body in *. apply filter_In in Hth. destruct Hth as [Hin Hf].
  rewrite assign_pass_nonpos, pos_pass_atoms in Hin.
  pose proof (proj1 (run_atoms_perm d _ _ Hp [[]])) as V.
  destruct (assign_pass_vsub (nonpos b) _ _ V th Hin) as [th' [Hin' E]].
  exists th'. split; [|exact E]. apply filter_In. split.
  - rewrite assign_pass_nonpos, pos_pass_atoms, <- Hn. exact Hin'.
  - rewrite forallb_filter_lit_pos in *. rewrite <- Hn. rewrite forallb_forall in *.
    intros l Hl. rewrite <- (filter_lit_veq d th th' l E). apply Hf, Hl.
Qed.

Lemma same_up_to_join_order_sym b b' : same_up_to_join_order b b' -> same_up_to_join_order b' b.
Proof. intros [H1 H2]; split; [symmetry; exact H1|apply Permutation_sym; exact H2]. Qed.

Theorem join_order_irrelevant d c c' :
  chead c = chead c' -> cargs c = cargs c' -> has_agg c = false ->
  same_up_to_join_order (cbody c) (cbody c') ->
  incl (eval_clause d c) (eval_clause d c') /\ incl (eval_clause d c') (eval_clause d c).
Proof.
  intros _ Ha Hg Hs.
  assert (Hg' : has_agg c' = false) by (unfold has_agg in *; rewrite <- Ha; exact Hg).
  assert (K : forall b b', same_up_to_join_order b b' ->
              incl (dedup_tuples (flat_map (fun th => opt_to_list (inst_head th (cargs c))) (eval_body d b)))
                   (dedup_tuples (flat_map (fun th => opt_to_list (inst_head th (cargs c))) (eval_body d b')))).
  { intros b b' Hbb t Ht. apply (proj1 (dedup_tuples_In _ _)) in Ht. apply dedup_tuples_In.
    apply in_flat_map in Ht. destruct Ht as [th [Hth Ht]].
    destruct (eval_body_reorder d b b' Hbb th Hth) as [th' [Hth' E]].
    apply in_flat_map. exists th'. split; [exact Hth'|]. rewrite <- (inst_head_veq th th' (cargs c) E). exact Ht. }
  unfold eval_clause, eval_clause_plain. rewrite Hg, Hg', <- Ha. split.
  - apply K, Hs.
  - apply K, same_up_to_join_order_sym, Hs.
Qed.
