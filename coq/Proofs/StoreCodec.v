(* Round trip of the batch and WAL encodings on homogeneous data, and its consequence for restart. *)
From IL Require Import Model.Value Proofs.ValueEq Model.Store Proofs.Store Model.StorePersist
  Proofs.StorePersist Model.StoreCodec.
Open Scope N_scope.

(* a value written into a column whose type comes from a value of the same constructor (neither
   Null nor Timestamp) is read back unchanged — whatever the vector lengths *)
Lemma rt_same_shape i a v b :
  storable_kind (kind_of a) = true -> same_shape a v = true -> rt (col_type i a b) v = v.
Proof.
  destruct a, v; cbn; try discriminate; intros _ _; try reflexivity;
    unfold col_type; cbn [kind_of]; match goal with |- context [if ?c then _ else _] => destruct c end; reflexivity.
Qed.

Lemma rt_tuple_same_shape b : forall first i t,
  forallb (fun v => storable_kind (kind_of v)) first = true -> same_shape_t first t = true ->
  rt_tuple (col_types_from i first b) t = t.
Proof.
  induction first as [|a fr IH]; intros i [|v tr]; cbn; try discriminate; [reflexivity|].
  intros S H. apply andb_true_iff in S. destruct S as [S1 S2]. apply andb_true_iff in H. destruct H as [H1 H2].
  rewrite (rt_same_shape i a v b S1 H1), (IH (S i) tr S2 H2). reflexivity.
Qed.

Lemma roundtrip_homogeneous b : homogeneous b = true -> roundtrip_batch b = b.
Proof.
  unfold homogeneous, roundtrip_batch, col_types. destruct b as [|u r]; [reflexivity|].
  intros H. apply andb_true_iff in H. destruct H as [S H]. rewrite forallb_forall in H.
  set (b := u :: r) in *. rewrite <- (map_id b) at 2. apply map_ext_in. intros w Hw.
  rewrite (rt_tuple_same_shape b (u_data u) 0%nat (u_data w) S (H w Hw)). destruct w; reflexivity.
Qed.

Lemma homogeneous_writable b : homogeneous b = true -> batch_unwritable b = false.
Proof.
  unfold homogeneous, batch_unwritable, col_types. destruct b as [|u r]; [reflexivity|].
  intros H. apply andb_true_iff in H. destruct H as [S _]. set (b := u :: r).
  generalize 0%nat. induction (u_data u) as [|a fr IH]; intros i; [reflexivity|]. cbn [col_types_from existsb].
  cbn [forallb] in S. apply andb_true_iff in S. destruct S as [S1 S2]. rewrite (IH S2 (S i)), orb_false_r.
  destruct a; cbn in S1; try discriminate; try reflexivity;
    unfold col_type; cbn [kind_of]; match goal with |- context [if ?c then _ else _] => destruct c end; reflexivity.
Qed.

Lemma filter_all {A} (f : A -> bool) l : forallb f l = true -> filter f l = l.
Proof.
  induction l as [|x l IH]; cbn; [reflexivity|]. intros H. apply andb_true_iff in H. destruct H as [H1 H2].
  rewrite H1, (IH H2). reflexivity.
Qed.

Definition wal_finite (w : list update) : bool := forallb (fun u => forallb json_ok (u_data u)) w.

Lemma wal_roundtrip_finite w : wal_finite w = true -> wal_roundtrip w = w.
Proof. apply filter_all. Qed.

(* the physical state keeps "WAL = buffer" in immediate mode along every run *)
Lemma prun_PInv c h : Forall (ok_op c) h -> PInv c (f_p (prun c h)).
Proof.
  unfold prun. assert (G : forall s, PInv c (f_p s) -> Forall (ok_op c) h ->
                       PInv c (f_p (fold_left (fun s o => fst (pstep c s o)) h s))).
  { induction h as [|o h IH]; intros s P K; cbn [fold_left]; [exact P|].
    inversion K as [|? ? K1 K2]; subst. apply IH; [|exact K2]. apply (pstep_refines c s o P K1). }
  intros K. apply G; [apply PInv_p0 | exact K].
Qed.

Definition good_store (p : pst) : bool :=
  forallb homogeneous (batches p) && homogeneous (wal p) && wal_finite (wal p).

(* on a good store the restart pipeline (WAL replay, startup flush, reading every batch back) sees
   exactly the log a reader sees in the running engine *)
Lemma restart_log_good p :
  wal p = buf p -> good_store p = true ->
  reopens p = true /\ concat (map roundtrip_batch (restart_batches p)) = log_of p.
Proof.
  intros W G. unfold good_store in G. apply andb_true_iff in G. destruct G as [G F].
  apply andb_true_iff in G. destruct G as [GB GW].
  unfold reopens, restart_batches, log_of. rewrite (wal_roundtrip_finite _ F), <- W.
  assert (RB : map roundtrip_batch (batches p) = batches p).
  { rewrite <- (map_id (batches p)) at 2. apply map_ext_in. intros b Hb. rewrite forallb_forall in GB.
    apply roundtrip_homogeneous, GB, Hb. }
  assert (UB : existsb batch_unwritable (batches p) = false).
  { destruct (existsb batch_unwritable (batches p)) eqn:E; [|reflexivity]. apply existsb_exists in E.
    destruct E as [b [Hb Ub]]. rewrite forallb_forall in GB. rewrite (homogeneous_writable b (GB b Hb)) in Ub. discriminate. }
  destruct (wal p) as [|u r] eqn:EW.
  - rewrite UB, RB, app_nil_r. auto.
  - rewrite existsb_app, UB, map_app, RB, concat_app. cbn [existsb map concat].
    rewrite (homogeneous_writable _ GW), (roundtrip_homogeneous _ GW), app_nil_r. auto.
Qed.
