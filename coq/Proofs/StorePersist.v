(* The physical persist layout (Model/StorePersist.v) refines the logical store (Model/Store.v):
   for every configuration, whatever is flushed, compacted or replayed, the multiset — in fact the
   list — of logged updates a reader sees is the abstract log. *)
From IL Require Import Model.Value Proofs.ValueEq Model.Store Proofs.Store Model.StorePersist.
Open Scope N_scope.

Lemma log_of_flush p : log_of (flush p) = log_of p.
Proof.
  unfold flush, log_of. destruct (buf p) as [|u r] eqn:B; [rewrite B; reflexivity|].
  cbn [batches buf]. rewrite concat_app. cbn [concat]. rewrite !app_nil_r. reflexivity.
Qed.

Lemma log_of_append c p us : log_of (append c p us) = log_of p ++ us.
Proof.
  unfold append. destruct us as [|u r]; [rewrite app_nil_r; reflexivity|].
  set (us := u :: r). set (p1 := mkP _ _ _).
  assert (E : log_of p1 = log_of p ++ us) by (unfold log_of, p1; cbn [batches buf]; rewrite app_assoc; reflexivity).
  destruct (N.leb _ _); [rewrite log_of_flush; exact E|].
  destruct (wal_over c _); [rewrite log_of_flush; exact E | exact E].
Qed.

Lemma flush_buf_nil p : buf (flush p) = [].
Proof. unfold flush. destruct (buf p) eqn:B; [exact B | reflexivity]. Qed.

Lemma log_of_compact p : log_of (compact p) = consolidate (log_of p).
Proof.
  unfold compact. rewrite <- (log_of_flush p). set (p1 := flush p).
  assert (B : buf p1 = []) by apply flush_buf_nil.
  unfold log_of at 2. rewrite B, app_nil_r. unfold log_of. cbn [batches buf].
  destruct (consolidate (concat (batches p1))) as [|u r]; cbn [concat]; rewrite ?app_nil_r; reflexivity.
Qed.

(* the WAL mirrors the buffer (immediate / batched) or is empty (async) *)
Definition PInv (c : pcfg) (p : pst) : Prop :=
  match dur c with DAsync => wal p = [] | _ => wal p = buf p end.

Lemma PInv_p0 c : PInv c p0.
Proof. unfold PInv. destruct (dur c); reflexivity. Qed.

Lemma PInv_flush c p : PInv c p -> PInv c (flush p).
Proof.
  intros H. unfold flush. destruct (buf p) as [|u r] eqn:B; [exact H|].
  unfold PInv. cbn [wal buf]. destruct (dur c); reflexivity.
Qed.

Lemma PInv_append c p us : PInv c p -> PInv c (append c p us).
Proof.
  intros H. unfold append. destruct us as [|u r]; [exact H|]. set (us := u :: r). set (p1 := mkP _ _ _).
  assert (H1 : PInv c p1).
  { unfold PInv, p1 in *. cbn [wal buf]. destruct (dur c); [rewrite H; reflexivity | rewrite H; reflexivity | exact H]. }
  destruct (N.leb _ _); [apply PInv_flush, H1|]. destruct (wal_over c _); [apply PInv_flush, H1 | exact H1].
Qed.

Lemma PInv_compact c p : PInv c p -> PInv c (compact p).
Proof.
  intros H. apply (PInv_flush c) in H. unfold compact, PInv in *. cbn [wal buf].
  rewrite flush_buf_nil in H. destruct (dur c); exact H.
Qed.

Lemma PInv_reopen c p : PInv c (reopen p).
Proof.
  unfold reopen, flush, PInv. cbn [buf batches wal]. destruct (wal p); cbn [wal buf]; destruct (dur c); reflexivity.
Qed.

Lemma log_of_reopen_mirror p : wal p = buf p -> log_of (reopen p) = log_of p.
Proof.
  intros H. unfold reopen. rewrite log_of_flush. unfold log_of. cbn [batches buf]. rewrite H. reflexivity.
Qed.

Lemma log_of_reopen_flushed c p : PInv c p -> log_of (reopen (flush p)) = log_of p.
Proof.
  intros H. rewrite <- (log_of_flush p). apply (PInv_flush c) in H. set (p1 := flush p) in *.
  assert (B : buf p1 = []) by apply flush_buf_nil.
  assert (W : wal p1 = []) by (unfold PInv in H; destruct (dur c); congruence).
  apply log_of_reopen_mirror. congruence.
Qed.

(* what the logical step does to the log: nothing, or it appends the operation's batch *)
Lemma step_log_cases a o :
  match o with OIns _ | ODel _ => True | _ => False end ->
  let a' := fst (step a o) in
  (clock a' = clock a /\ log a' = log a) \/
  (clock a' = clock a + 1 /\
   log a' = log a ++ match o with
                     | OIns ts => map (fun t => mkU t (clock a) 1%Z) ts
                     | ODel ts => map (fun t => mkU t (clock a) (-1)%Z) ts
                     | _ => []
                     end).
Proof.
  intros H. destruct o as [ts|ts| | |]; try contradiction; cbn [step].
  - unfold step_ins. destruct ts as [|x r]; [left; auto|]. set (tsx := x :: r).
    destruct (negb (uniform_arity (arity_of_first tsx) tsx)); [left; auto|].
    destruct (match rel_arity a with Some a' => negb (Nat.eqb a' (arity_of_first tsx)) | None => false end); [left; auto|].
    destruct (ins_mem (live a) tsx) as [l' [n d]]. right. auto.
  - unfold step_del. destruct ts as [|x r]; [left; auto|]. set (tsx := x :: r).
    destruct (negb (uniform_arity (arity_of_first tsx) tsx)); [left; auto|].
    destruct (match rel_arity a with Some a' => negb (Nat.eqb a' (arity_of_first tsx)) | None => false end); [left; auto|].
    destruct (del_mem (live a) tsx) as [l' n]. right. auto.
Qed.

Definition ok_op (c : pcfg) (o : pop) : Prop :=
  match dur c, o with DAsync, PDropReopen => False | _, _ => True end.

(* one physical step = one logical step on the abstraction *)
Lemma pstep_refines c s o :
  PInv c (f_p s) -> ok_op c o ->
  abs (fst (pstep c s o)) = fst (step (abs s) (abs_op o)) /\
  snd (pstep c s o) = snd (step (abs s) (abs_op o)) /\
  PInv c (f_p (fst (pstep c s o))).
Proof.
  intros P K. unfold pstep. destruct o as [ts|ts| | | |]; cbn [abs_op].
  - pose proof (step_log_cases (abs s) (OIns ts) I) as H. cbn zeta in H.
    destruct (step (abs s) (OIns ts)) as [a rep]. cbn [fst snd] in *. cbn [abs clock log] in H.
    destruct H as [[EC EL]|[EC EL]].
    + rewrite EC, N.eqb_refl. split; [|split; [reflexivity | exact P]].
      unfold abs. cbn [f_live f_arity f_p f_clock]. rewrite <- EL, <- EC. destruct a; reflexivity.
    + assert (N.eqb (clock a) (f_clock s) = false) as -> by (apply N.eqb_neq; lia).
      split; [|split; [reflexivity | apply PInv_append, P]].
      unfold abs. cbn [f_live f_arity f_p f_clock logged]. rewrite log_of_append, <- EL. destruct a; reflexivity.
  - pose proof (step_log_cases (abs s) (ODel ts) I) as H. cbn zeta in H.
    destruct (step (abs s) (ODel ts)) as [a rep]. cbn [fst snd] in *. cbn [abs clock log] in H.
    destruct H as [[EC EL]|[EC EL]].
    + rewrite EC, N.eqb_refl. split; [|split; [reflexivity | exact P]].
      unfold abs. cbn [f_live f_arity f_p f_clock]. rewrite <- EL, <- EC. destruct a; reflexivity.
    + assert (N.eqb (clock a) (f_clock s) = false) as -> by (apply N.eqb_neq; lia).
      split; [|split; [reflexivity | apply PInv_append, P]].
      unfold abs. cbn [f_live f_arity f_p f_clock logged]. rewrite log_of_append, <- EL. destruct a; reflexivity.
  - cbn [step fst snd]. split; [|split; [reflexivity | apply PInv_flush, P]].
    unfold abs. cbn [f_live f_arity f_p f_clock]. rewrite log_of_flush. reflexivity.
  - cbn [step fst snd]. split; [|split; [reflexivity | apply PInv_compact, P]].
    unfold abs. cbn [f_live f_arity f_p f_clock live rel_arity log clock]. rewrite log_of_compact. reflexivity.
  - cbn [step fst snd]. split; [|split; [reflexivity | apply PInv_reopen]].
    unfold abs, step_restart. cbn [f_live f_arity f_p f_clock live rel_arity log clock].
    rewrite (log_of_reopen_flushed c _ P). reflexivity.
  - cbn [step fst snd]. split; [|split; [reflexivity | apply PInv_reopen]].
    unfold abs, step_restart. cbn [f_live f_arity f_p f_clock live rel_arity log clock].
    assert (W : wal (f_p s) = buf (f_p s)).
    { unfold PInv in P. unfold ok_op in K. destruct (dur c); [exact P | exact P | destruct K]. }
    rewrite (log_of_reopen_mirror _ W). reflexivity.
Qed.

Lemma clean_ok c h : clean c h = true -> Forall (ok_op c) h.
Proof.
  unfold clean, ok_op. destruct (dur c) eqn:D; intros H; apply Forall_forall; intros o Ho; try exact I.
  rewrite forallb_forall in H. specialize (H o Ho). destruct o; try exact I. discriminate.
Qed.

Lemma prun_refines_from c h : forall s,
  PInv c (f_p s) -> Forall (ok_op c) h ->
  abs (fold_left (fun s o => fst (pstep c s o)) h s) = run_from (abs s) (map abs_op h).
Proof.
  induction h as [|o h IH]; intros s P K; cbn [fold_left map]; [reflexivity|].
  inversion K as [|? ? K1 K2]; subst. destruct (pstep_refines c s o P K1) as [E [_ P']].
  rewrite (IH _ P' K2), E. reflexivity.
Qed.

(* for every configuration and every clean history, the physical store is the logical store *)
Lemma prun_refines c h : clean c h = true -> abs (prun c h) = run (map abs_op h).
Proof.
  intros C. unfold prun, run. apply (prun_refines_from c h f0 (PInv_p0 c) (clean_ok c h C)).
Qed.
