(* Lemmas for C15 about Model/ConcPersist.v (flag fx = true: append holds the shard map lock from
   the WAL append to the buffer push).  For every schedule: every WAL line is in its shard's
   buffer, every update ever logged is in the WAL or in a batch, the updates of acknowledged
   operations were logged, and the served state is the fold of the applied operations. *)
From IL Require Import Model.Conc Model.ConcPersist Proofs.Conc.
Open Scope N_scope.

Definition data_of (o : pop) : option (N * N * list N * bool) :=
  match o with
  | PIns id s ts => Some (id, s, ts, true)
  | PDel id s ts => Some (id, s, ts, false)
  | _ => None
  end.

Definition GI (g : gP) : Prop :=
  (forall u, In u (wal g) -> In u (bufs g)) /\
  (forall u, In u (persisted g) -> In u (wal g) \/ In u (batches g)) /\
  incl (acked_upds g) (persisted g) /\
  liveP g = pstate_after (applied g).

(* a thread past its logging section has its updates in `persisted` *)
Definition LI (g : gP) (l : lP) : Prop :=
  forall o rest id s ts ins,
    ptodo l = o :: rest -> data_of o = Some (id, s, ts, ins) -> (2 <= ppc l)%nat ->
    incl (mk_updates s ts (mytime l) ins id 0) (persisted g).

Definition PInv (ls : list lP) (g : gP) : Prop := GI g /\ Forall (LI g) ls.

Lemma LI_mono g g' l : incl (persisted g) (persisted g') -> LI g l -> LI g' l.
Proof. intros H L o rest id s ts ins T D P. eapply incl_tran; [eapply L; eauto | exact H]. Qed.

Lemma flush_GI s g : GI g -> GI (flush_section s g).
Proof.
  intros (J1 & J2 & J3 & J4). unfold flush_section.
  destruct (filter (of_shard s) (bufs g)) as [|b0 b] eqn:B; [repeat split; auto|].
  rewrite <- B. repeat split; cbn [wal bufs batches persisted acked_upds liveP applied]; auto.
  - intros u H. apply filter_In in H. destruct H as [H F]. apply filter_In. split; auto.
  - intros u H. destruct (J2 u H) as [W|Bt].
    + destruct (of_shard s u) eqn:E.
      * right. apply in_or_app. right. apply filter_In. split; auto.
      * left. apply filter_In. split; auto. unfold not_shard. unfold of_shard in E. rewrite E. reflexivity.
    + right. apply in_or_app. left. exact Bt.
Qed.

Lemma flush_persisted s g : persisted (flush_section s g) = persisted g.
Proof. unfold flush_section. destruct (filter (of_shard s) (bufs g)); reflexivity. Qed.

Lemma pstate_after_snoc a o : pstate_after (a ++ [o]) = papply (pstate_after a) o.
Proof. unfold pstate_after. rewrite fold_left_app. reflexivity. Qed.

Lemma Forall_LI_mono g g' ls : incl (persisted g) (persisted g') -> Forall (LI g) ls -> Forall (LI g') ls.
Proof. intros H F. eapply Forall_impl; [|exact F]. intros l. apply LI_mono. exact H. Qed.

Lemma LI_pc_small g l : (ppc l < 2)%nat -> LI g l.
Proof. intros H o rest id s ts ins _ _ P. lia. Qed.

Lemma GI_same g g' :
  wal g' = wal g -> bufs g' = bufs g -> batches g' = batches g -> persisted g' = persisted g ->
  acked_upds g' = acked_upds g -> liveP g' = liveP g -> applied g' = applied g -> GI g -> GI g'.
Proof.
  intros E1 E2 E3 E4 E5 E6 E7 (J1 & J2 & J3 & J4). unfold GI. rewrite E1, E2, E3, E4, E5, E6, E7. auto.
Qed.

Lemma pstep_inv : forall bsz ls g t l,
    nth_error ls t = Some l -> PInv ls g ->
    PInv (upd ls t (fst (pstep true bsz t l g))) (snd (pstep true bsz t l g)).
Proof.
  intros bsz ls g t l Hn [G F]. pose proof G as (J1 & J2 & J3 & J4).
  assert (Hl : LI g l).
  { rewrite Forall_forall in F. apply F. eapply nth_error_In; eauto. }
  unfold pstep. destruct (ptodo l) as [|o rest] eqn:T.
  { cbn. split; auto. apply Forall_upd; auto. }
  destruct o as [id s ts|id s ts|id s|id s].
  - (* insert *)
    destruct (ppc l) as [|[|[|[|[|n]]]]] eqn:P; cbn [fst snd].
    + (* pc 0: draw the logical time *)
      split; [apply (GI_same g); auto|].
      apply Forall_upd; [eapply Forall_LI_mono; [|exact F]; apply incl_refl | apply LI_pc_small; cbn; lia].
    + (* pc 1: log and buffer in one lock scope *)
      split.
      * repeat split; cbn [wal bufs batches persisted acked_upds liveP applied]; auto.
        -- intros u H. apply in_app_or in H. apply in_or_app. destruct H; auto.
        -- intros u H. apply in_app_or in H. destruct H as [H|H].
           ++ destruct (J2 u H); [left; apply in_or_app; auto | right; auto].
           ++ left. apply in_or_app. auto.
        -- apply incl_appl. exact J3.
      * apply Forall_upd.
        -- eapply Forall_LI_mono; [|exact F]. cbn. apply incl_appl, incl_refl.
        -- intros o' rest' id' s' ts' ins' T' D' _. cbn in T'. rewrite T in T'. inversion T'; subst o' rest'.
           cbn in D'. inversion D'; subst. cbn. apply incl_appr, incl_refl.
    + (* pc 2: not reached with the fix; buffer push only *)
      split.
      * repeat split; cbn [wal bufs batches persisted acked_upds liveP applied]; auto.
        intros u H. apply in_or_app. left. apply J1, H.
      * apply Forall_upd; [eapply Forall_LI_mono; [|exact F]; apply incl_refl|].
        intros o' rest' id' s' ts' ins' T' D' _. cbn in T'. eapply Hl; eauto. rewrite P. lia.
    + (* pc 3: flush from append *)
      split; [apply flush_GI; exact G|].
      apply Forall_upd; [eapply Forall_LI_mono; [|exact F]; rewrite flush_persisted; apply incl_refl|].
      intros o' rest' id' s' ts' ins' T' D' _. cbn in T'. rewrite flush_persisted.
      eapply Hl; eauto. rewrite P. lia.
    + (* pc 4: release the guard *)
      split; [exact G|]. apply Forall_upd; auto.
      intros o' rest' id' s' ts' ins' T' D' _. cbn in T'. eapply Hl; eauto. rewrite P. lia.
    + (* pc >= 5: apply, acknowledge *)
      unfold apply_section. cbn [fst snd]. split.
      * repeat split; cbn [wal bufs batches persisted acked_upds liveP applied]; auto.
        -- apply incl_app; [exact J3|]. apply (Hl _ _ _ _ _ _ T eq_refl). rewrite P. lia.
        -- rewrite pstate_after_snoc, <- J4. reflexivity.
      * apply Forall_upd; [eapply Forall_LI_mono; [|exact F]; apply incl_refl | apply LI_pc_small; cbn; lia].
  - (* delete *)
    destruct (ppc l) as [|[|[|[|[|n]]]]] eqn:P; cbn [fst snd].
    + (* pc 0: draw the logical time *)
      split; [apply (GI_same g); auto|].
      apply Forall_upd; [eapply Forall_LI_mono; [|exact F]; apply incl_refl | apply LI_pc_small; cbn; lia].
    + (* pc 1: log and buffer in one lock scope *)
      split.
      * repeat split; cbn [wal bufs batches persisted acked_upds liveP applied]; auto.
        -- intros u H. apply in_app_or in H. apply in_or_app. destruct H; auto.
        -- intros u H. apply in_app_or in H. destruct H as [H|H].
           ++ destruct (J2 u H); [left; apply in_or_app; auto | right; auto].
           ++ left. apply in_or_app. auto.
        -- apply incl_appl. exact J3.
      * apply Forall_upd.
        -- eapply Forall_LI_mono; [|exact F]. cbn. apply incl_appl, incl_refl.
        -- intros o' rest' id' s' ts' ins' T' D' _. cbn in T'. rewrite T in T'. inversion T'; subst o' rest'.
           cbn in D'. inversion D'; subst. cbn. apply incl_appr, incl_refl.
    + (* pc 2: not reached with the fix; buffer push only *)
      split.
      * repeat split; cbn [wal bufs batches persisted acked_upds liveP applied]; auto.
        intros u H. apply in_or_app. left. apply J1, H.
      * apply Forall_upd; [eapply Forall_LI_mono; [|exact F]; apply incl_refl|].
        intros o' rest' id' s' ts' ins' T' D' _. cbn in T'. eapply Hl; eauto. rewrite P. lia.
    + (* pc 3: flush from append *)
      split; [apply flush_GI; exact G|].
      apply Forall_upd; [eapply Forall_LI_mono; [|exact F]; rewrite flush_persisted; apply incl_refl|].
      intros o' rest' id' s' ts' ins' T' D' _. cbn in T'. rewrite flush_persisted.
      eapply Hl; eauto. rewrite P. lia.
    + (* pc 4: release the guard *)
      split; [exact G|]. apply Forall_upd; auto.
      intros o' rest' id' s' ts' ins' T' D' _. cbn in T'. eapply Hl; eauto. rewrite P. lia.
    + (* pc >= 5: apply, acknowledge *)
      unfold apply_section. cbn [fst snd]. split.
      * repeat split; cbn [wal bufs batches persisted acked_upds liveP applied]; auto.
        -- apply incl_app; [exact J3|]. apply (Hl _ _ _ _ _ _ T eq_refl). rewrite P. lia.
        -- rewrite pstate_after_snoc, <- J4. reflexivity.
      * apply Forall_upd; [eapply Forall_LI_mono; [|exact F]; apply incl_refl | apply LI_pc_small; cbn; lia].
  - (* explicit flush *)
    destruct (ppc l) as [|n] eqn:P; cbn [fst snd].
    + destruct (existsb (N.eqb s) (known g)); cbn [fst snd]; (split; [exact G|]); apply Forall_upd; auto.
      * intros o' rest' id' s' ts' ins' T' D' P'. cbn in T'. rewrite T in T'. inversion T'; subst. discriminate.
      * apply LI_pc_small. cbn. lia.
    + split; [apply flush_GI; exact G|].
      apply Forall_upd; [eapply Forall_LI_mono; [|exact F]; rewrite flush_persisted; apply incl_refl|].
      apply LI_pc_small. cbn. lia.
  - (* compact *)
    destruct (ppc l) as [|[|n]] eqn:P; cbn [fst snd].
    + destruct (existsb (N.eqb s) (known g)); cbn [fst snd]; (split; [exact G|]); apply Forall_upd; auto.
      * intros o' rest' id' s' ts' ins' T' D' P'. cbn in T'. rewrite T in T'. inversion T'; subst. discriminate.
      * apply LI_pc_small. cbn. lia.
    + split; [apply flush_GI; exact G|].
      apply Forall_upd; [eapply Forall_LI_mono; [|exact F]; rewrite flush_persisted; apply incl_refl|].
      intros o' rest' id' s' ts' ins' T' D' P'. cbn in T'. rewrite T in T'. inversion T'; subst. discriminate.
    + split; [exact G|]. apply Forall_upd; auto. apply LI_pc_small. cbn. lia.
Qed.

Lemma PInv_init progs : PInv (map pinit_l progs) pinit_g.
Proof.
  split.
  - repeat split; cbn; auto; intros ? [].
  - apply Forall_forall. intros l H. apply in_map_iff in H. destruct H as (p & <- & _).
    apply LI_pc_small. cbn. lia.
Qed.

Theorem persist_invariant : forall bsz progs sched,
    let r := run_sched (pstep true bsz) sched (map pinit_l progs) pinit_g in
    PInv (fst r) (snd r).
Proof.
  intros bsz progs sched. cbn zeta. apply run_sched_inv.
  - intros. apply pstep_inv; auto.
  - apply PInv_init.
Qed.

Theorem acked_updates_durable : forall bsz progs sched u,
    let g := snd (run_sched (pstep true bsz) sched (map pinit_l progs) pinit_g) in
    In u (acked_upds g) -> In u (disk g).
Proof.
  intros bsz progs sched u. cbn zeta. intros H.
  destruct (persist_invariant bsz progs sched) as [(J1 & J2 & J3 & J4) _].
  unfold disk. apply in_or_app. destruct (J2 u (J3 u H)); auto.
Qed.

Theorem served_is_serial : forall bsz progs sched,
    let g := snd (run_sched (pstep true bsz) sched (map pinit_l progs) pinit_g) in
    liveP g = pstate_after (applied g).
Proof.
  intros bsz progs sched. cbn zeta.
  destruct (persist_invariant bsz progs sched) as [(J1 & J2 & J3 & J4) _]. exact J4.
Qed.
