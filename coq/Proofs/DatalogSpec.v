(* Properties of the specification `perfect_model` (Model/Datalog.v): it only grows, each stratum is
   final once computed, it is a supported model (fixpoint equation per head) and it is least
   (induction principle over its Kleene iteration). *)
From IL Require Import Model.Value Model.Datalog Proofs.ValueEq Proofs.DatalogMono.
From Coq Require Import Lia.
Open Scope N_scope.

Lemma fold_left_max_init l : forall a, (a <= fold_left Nat.max l a)%nat.
Proof. induction l as [|x l IH]; intros a; cbn; [lia|]. specialize (IH (Nat.max a x)). lia. Qed.

Lemma fold_left_max_ge l : forall a x, In x l -> (x <= fold_left Nat.max l a)%nat.
Proof.
  induction l as [|y l IH]; intros a x Hx; cbn; [destruct Hx|].
  destruct Hx as [<-|Hx]; [|apply IH; exact Hx].
  pose proof (fold_left_max_init l (Nat.max a y)). lia.
Qed.

Lemma memN_In x l : memN x l = true <-> In x l.
Proof.
  unfold memN. rewrite existsb_exists. split.
  - intros [y [Hy E]]. apply N.eqb_eq in E; subst; exact Hy.
  - intros H. exists x. split; [exact H|apply N.eqb_refl].
Qed.

Section Spec.
  Variable p : program.
  Variable fuel : nat.
  Hypothesis Hagg : no_agg p.
  Hypothesis Hstrat : stratified p = true.

  Let ls := levels p.
  Definition L (r : rel) : nat := lvl ls r.
  Definition stratum (k : nat) : list rel := filter (fun h => Nat.eqb (L h) k) (heads p).

  Lemma head_refs_s_eq h : head_refs_s p h = head_refs p h.
  Proof.
    unfold head_refs_s, head_refs. assert (H : forall c, In c (clauses_of p h) -> clause_refs_s c = clause_refs c).
    { intros c Hc. unfold clause_refs_s. rewrite (Hagg c); [reflexivity|]. apply clauses_of_In in Hc. tauto. }
    induction (clauses_of p h) as [|c l IH]; cbn; [reflexivity|].
    rewrite (H c (or_introl eq_refl)), IH; [reflexivity|]. intros c' Hc'. apply H. right; exact Hc'.
  Qed.

  Lemma stratum_In k h : In h (stratum k) <-> In h (heads p) /\ L h = k.
  Proof. unfold stratum. rewrite filter_In, Nat.eqb_eq. tauto. Qed.

  Lemma level_pos h r : In h (heads p) -> In (r, false) (head_refs p h) -> (L r <= L h)%nat.
  Proof.
    intros Hh Hr. unfold stratified in Hstrat. apply andb_true_iff in Hstrat. destruct Hstrat as [H1 _].
    rewrite forallb_forall in H1. specialize (H1 h Hh). apply Nat.eqb_eq in H1.
    unfold L. fold ls in H1. rewrite <- H1. unfold relax_head.
    apply (fold_left_max_ge _ _ (lvl ls r)). apply in_map_iff. exists (r, false). split; [reflexivity|rewrite head_refs_s_eq; exact Hr].
  Qed.

  Lemma level_neg h r : In h (heads p) -> In (r, true) (head_refs p h) -> (L r < L h)%nat.
  Proof.
    intros Hh Hr. unfold stratified in Hstrat. apply andb_true_iff in Hstrat. destruct Hstrat as [H1 _].
    rewrite forallb_forall in H1. specialize (H1 h Hh). apply Nat.eqb_eq in H1.
    unfold L. fold ls in H1. rewrite <- H1. unfold relax_head.
    apply (fold_left_max_ge _ _ (S (lvl ls r))). apply in_map_iff. exists (r, true). split; [reflexivity|rewrite head_refs_s_eq; exact Hr].
  Qed.

  Lemma level_bound h : In h (heads p) -> (L h <= length (heads p))%nat.
  Proof.
    intros Hh. unfold stratified in Hstrat. apply andb_true_iff in Hstrat. destruct Hstrat as [_ H2].
    rewrite forallb_forall in H2. specialize (H2 h Hh). apply Nat.leb_le in H2. exact H2.
  Qed.

  (* ---- one joint round *)
  Lemma fold_set_get (f : rel -> list tuple) hs : forall acc r,
    get (fold_left (fun acc h => set_rel acc h (f h)) hs acc) r =
    if memN r hs then f r else get acc r.
  Proof.
    induction hs as [|h hs IH]; intros acc r; cbn [fold_left]; [reflexivity|].
    rewrite IH. unfold memN; cbn [existsb]. fold (memN r hs).
    destruct (memN r hs) eqn:E; [rewrite orb_true_r; reflexivity|].
    rewrite orb_false_r. rewrite get_set_rel. destruct (N.eqb r h) eqn:E'; [|reflexivity].
    apply N.eqb_eq in E'; subst; reflexivity.
  Qed.

  Lemma joint_round_get hs d r :
    get (joint_round p hs d) r =
    if memN r hs then dedup_tuples (get d r ++ apply_head p d r) else get d r.
  Proof. unfold joint_round. apply (fold_set_get (fun h => dedup_tuples (get d h ++ apply_head p d h))). Qed.

  Lemma joint_round_grows hs d r : incl (get d r) (get (joint_round p hs d) r).
  Proof.
    rewrite joint_round_get. destruct (memN r hs); [|apply incl_refl].
    intros t Ht. apply dedup_tuples_In. apply in_or_app. left; exact Ht.
  Qed.

  (* ---- the run of one stratum *)
  Lemma joint_lfp_grows hs : forall f d d', joint_lfp f p hs d = Some d' -> forall r, incl (get d r) (get d' r).
  Proof.
    induction f as [|f IH]; intros d d' H r; cbn in H; [discriminate|].
    destruct (grown hs d (joint_round p hs d)).
    - eapply incl_tran; [apply (joint_round_grows hs d r)|]. eapply IH; eauto.
    - inversion H; subst. apply incl_refl.
  Qed.

  Lemma joint_lfp_frame hs : forall f d d', joint_lfp f p hs d = Some d' ->
    forall r, memN r hs = false -> get d' r = get d r.
  Proof.
    induction f as [|f IH]; intros d d' H r Hr; cbn in H; [discriminate|].
    destruct (grown hs d (joint_round p hs d)).
    - rewrite (IH _ _ H r Hr). rewrite joint_round_get, Hr. reflexivity.
    - inversion H; subst. reflexivity.
  Qed.

  (* no growth means every head of the stratum is closed under its clauses *)
  Lemma NoDup_incl_length_eq (a b : list tuple) :
    NoDup a -> NoDup b -> incl a b -> length a = length b -> incl b a.
  Proof. intros Ha Hb Hi Hl. apply NoDup_length_incl; [exact Ha| lia | exact Hi]. Qed.

  Definition nodup_db (d : db) : Prop := forall r, In r (heads p) -> NoDup (get d r).

  Lemma joint_round_nodup hs d : nodup_db d -> nodup_db (joint_round p hs d).
  Proof.
    intros H r Hr. rewrite joint_round_get. destruct (memN r hs); [apply dedup_tuples_NoDup|apply H, Hr].
  Qed.

  Lemma not_grown_closed hs d : incl hs (heads p) -> nodup_db d -> grown hs d (joint_round p hs d) = false ->
    forall h, In h hs -> incl (apply_head p d h) (get d h).
  Proof.
    intros Hhs Hnd Hg h Hh. unfold grown in Hg.
    assert (Hlen : length (get d h) = length (get (joint_round p hs d) h)).
    { destruct (Nat.eqb (length (get d h)) (length (get (joint_round p hs d) h))) eqn:E.
      - apply Nat.eqb_eq in E; exact E.
      - exfalso. rewrite <- not_true_iff_false in Hg. apply Hg. apply existsb_exists.
        exists h. split; [exact Hh|]. rewrite E. reflexivity. }
    pose proof (NoDup_incl_length_eq _ _ (Hnd h (Hhs h Hh)) (joint_round_nodup hs d Hnd h (Hhs h Hh)) (joint_round_grows hs d h) Hlen) as Hi.
    intros t Ht. apply Hi. rewrite joint_round_get.
    assert (memN h hs = true) as -> by (apply memN_In; exact Hh).
    apply dedup_tuples_In. apply in_or_app. right; exact Ht.
  Qed.

  Lemma joint_lfp_nodup hs : forall f d d', nodup_db d -> joint_lfp f p hs d = Some d' -> nodup_db d'.
  Proof.
    induction f as [|f IH]; intros d d' Hnd H; cbn in H; [discriminate|].
    destruct (grown hs d (joint_round p hs d)).
    - eapply IH; [|exact H]. apply joint_round_nodup; exact Hnd.
    - inversion H; subst; exact Hnd.
  Qed.

  Lemma joint_lfp_closed hs : incl hs (heads p) -> forall f d d', nodup_db d -> joint_lfp f p hs d = Some d' ->
    forall h, In h hs -> incl (apply_head p d' h) (get d' h).
  Proof.
    intros Hhs. induction f as [|f IH]; intros d d' Hnd H h Hh; cbn in H; [discriminate|].
    destruct (grown hs d (joint_round p hs d)) eqn:G.
    - eapply IH; [|exact H|exact Hh]. apply joint_round_nodup; exact Hnd.
    - inversion H; subst. eapply not_grown_closed; eauto.
  Qed.

  (* induction principle over one stratum's Kleene iteration *)
  Lemma joint_lfp_ind (P : db -> Prop) hs :
    (forall d, P d -> P (joint_round p hs d)) ->
    forall f d d', P d -> joint_lfp f p hs d = Some d' -> P d'.
  Proof.
    intros Hstep. induction f as [|f IH]; intros d d' Hd H; cbn in H; [discriminate|].
    destruct (grown hs d (joint_round p hs d)).
    - eapply IH; [|exact H]. apply Hstep, Hd.
    - inversion H; subst; exact Hd.
  Qed.

  (* ---- the run over all strata, from stratum k for n strata *)
  Local Notation srun := (strata_eval fuel p ls).

  Lemma srun_S k n d :
    srun k (S n) d = match joint_lfp fuel p (stratum k) d with Some d' => srun (S k) n d' | None => None end.
  Proof. reflexivity. Qed.

  Lemma srun_grows : forall n k d m, srun k n d = Some m -> forall r, incl (get d r) (get m r).
  Proof.
    induction n as [|n IH]; intros k d m H r; [cbn in H|rewrite srun_S in H].
    - inversion H; subst; apply incl_refl.
    - destruct (joint_lfp fuel p (stratum k) d) as [d1|] eqn:E; [|discriminate].
      eapply incl_tran; [eapply joint_lfp_grows; eauto|]. eapply IH; eauto.
  Qed.

  Lemma srun_nodup : forall n k d m, nodup_db d -> srun k n d = Some m -> nodup_db m.
  Proof.
    induction n as [|n IH]; intros k d m Hnd H; [cbn in H|rewrite srun_S in H].
    - inversion H; subst; exact Hnd.
    - destruct (joint_lfp fuel p (stratum k) d) as [d1|] eqn:E; [|discriminate].
      eapply IH; [|exact H]. eapply joint_lfp_nodup; eauto.
  Qed.

  (* relations that are not heads of a stratum in [k, k+n) are untouched *)
  Lemma srun_frame : forall n k d m, srun k n d = Some m ->
    forall r, (~ In r (heads p) \/ (L r < k)%nat \/ (k + n <= L r)%nat) -> get m r = get d r.
  Proof.
    induction n as [|n IH]; intros k d m H r Hr; [cbn in H|rewrite srun_S in H].
    - inversion H; subst; reflexivity.
    - destruct (joint_lfp fuel p (stratum k) d) as [d1|] eqn:E; [|discriminate].
      rewrite (IH _ _ _ H r); [|destruct Hr as [Hr|[Hr|Hr]]; [left; exact Hr|right; left; lia|right; right; lia]].
      eapply joint_lfp_frame; [exact E|].
      destruct (memN r (stratum k)) eqn:M; [|reflexivity].
      apply memN_In, stratum_In in M. destruct M as [M1 M2]. exfalso. destruct Hr as [Hr|Hr]; [tauto|lia].
  Qed.

  (* everything a head of level j references is final once strata <= j are done *)
  Lemma refs_final n k d m h : srun k n d = Some m -> In h (heads p) -> (L h < k)%nat ->
    agree_refs p h d m.
  Proof.
    intros H Hh Hl r b Hr.
    assert (E : get m r = get d r).
    { eapply srun_frame; [exact H|].
      destruct (in_dec N.eq_dec r (heads p)) as [Hin|Hnin]; [|left; exact Hnin].
      right; left. destruct b.
      - pose proof (level_neg h r Hh Hr). lia.
      - pose proof (level_pos h r Hh Hr). lia. }
    rewrite E. apply seq_refl.
  Qed.

  (* closed (pre-fixpoint) for every head of an already computed stratum *)
  Lemma srun_closed : forall n k d m, nodup_db d -> srun k n d = Some m ->
    forall h, In h (heads p) -> (k <= L h < k + n)%nat -> incl (apply_head p m h) (get m h).
  Proof.
    induction n as [|n IH]; intros k d m Hnd H h Hh Hl; [lia|]. rewrite srun_S in H.
      destruct (joint_lfp fuel p (stratum k) d) as [d1|] eqn:E; [|discriminate].
    destruct (Nat.eq_dec (L h) k) as [Hk|Hk].
    - (* h's stratum is the one just computed: closed at d1, and nothing h references changes later *)
      assert (C : incl (apply_head p d1 h) (get d1 h)).
      { eapply (joint_lfp_closed (stratum k)); [intros x Hx; apply stratum_In in Hx; tauto|exact Hnd|exact E|]. apply stratum_In. tauto. }
      assert (F : get m h = get d1 h).
      { eapply (srun_frame n (S k) d1 m H). right; left; lia. }
      rewrite F. eapply incl_tran; [|exact C].
      apply (apply_head_frame p h m d1 Hagg). intros r b Hr. apply seq_sym.
      eapply (refs_final n (S k) d1 m h H Hh); [lia|exact Hr].
    - eapply (IH (S k) d1 m); [eapply joint_lfp_nodup; eauto|exact H|exact Hh|lia].
  Qed.

  (* supportedness: a head relation only ever contains stored facts and consequences *)
  Definition supported (d0 d : db) (h : rel) : Prop :=
    incl (get d h) (get d0 h ++ apply_head p d h).

  Lemma srun_supported : forall n k d0 d m, srun k n d = Some m ->
    forall h, In h (heads p) ->
    (forall g, In g (heads p) -> (k <= L g)%nat -> get d g = get d0 g) ->
    (k <= L h)%nat -> supported d0 m h.
  Proof.
    induction n as [|n IH]; intros k d0 d m H h Hh Hd Hl; [cbn in H|rewrite srun_S in H].
    - inversion H; subst. intros t Ht. rewrite (Hd h Hh Hl) in Ht. apply in_or_app; left; exact Ht.
    - destruct (joint_lfp fuel p (stratum k) d) as [d1|] eqn:E; [|discriminate].
      destruct (Nat.eq_dec (L h) k) as [Hk|Hk].
      + (* invariant over the Kleene iteration of h's own stratum *)
        assert (S1 : supported d0 d1 h /\ (forall r, (L r < k)%nat \/ ~ In r (heads p) -> get d1 r = get d r)).
        { refine (joint_lfp_ind (fun x => supported d0 x h /\ (forall r, (L r < k)%nat \/ ~ In r (heads p) -> get x r = get d r))
                    (stratum k) _ fuel d d1 _ E).
          - intros x [Sx Fx]. split.
            + intros t Ht. rewrite joint_round_get in Ht.
              assert (memN h (stratum k) = true) as Hm by (apply memN_In, stratum_In; tauto).
              rewrite Hm in Ht. apply (proj1 (dedup_tuples_In _ _)) in Ht. apply in_app_or in Ht.
              assert (Mono : incl (apply_head p x h) (apply_head p (joint_round p (stratum k) x) h)).
              { apply apply_head_mono; [exact Hagg| |].
                - intros r _. apply joint_round_grows.
                - intros r Hr. rewrite joint_round_get.
                  destruct (memN r (stratum k)) eqn:Mr; [|apply seq_refl].
                  apply memN_In, stratum_In in Mr. pose proof (level_neg h r Hh Hr). lia. }
              destruct Ht as [Ht|Ht].
              * apply Sx in Ht. apply in_app_or in Ht. apply in_or_app.
                destruct Ht as [Ht|Ht]; [left; exact Ht|right; apply Mono, Ht].
              * apply in_or_app; right. apply Mono, Ht.
            + intros r Hr. rewrite joint_round_get.
              destruct (memN r (stratum k)) eqn:Mr; [|apply Fx, Hr].
              apply memN_In, stratum_In in Mr. destruct Hr; [lia|tauto].
          - split; [|reflexivity]. intros t Ht. rewrite (Hd h Hh Hl) in Ht. apply in_or_app; left; exact Ht. }
        destruct S1 as [S1 _].
        assert (F : get m h = get d1 h) by (eapply (srun_frame n (S k) d1 m H); right; left; lia).
        intros t Ht. rewrite F in Ht. apply S1 in Ht. apply in_app_or in Ht. apply in_or_app.
        destruct Ht as [Ht|Ht]; [left; exact Ht|right].
        apply (apply_head_frame p h d1 m Hagg); [|exact Ht].
        eapply (refs_final n (S k) d1 m h H Hh). lia.
      + eapply (IH (S k) d0 d1 m H h Hh); [|lia].
        intros g Hg Hlg. rewrite <- (Hd g Hg); [|lia].
        eapply joint_lfp_frame; [exact E|].
        destruct (memN g (stratum k)) eqn:Mg; [|reflexivity].
        apply memN_In, stratum_In in Mg. lia.
  Qed.
End Spec.
