(* Lemmas about Model/HandlerAuth.v (authorization of programs, C27 / C29 / C30). *)
From IL Require Import Model.HandlerAuth.
From Coq Require Import Lia.
Open Scope N_scope.

(* ---------------------------------------------------------------- association lists *)
Lemma lookup_update {A} (g g' : N) (f : A -> A) l :
  lookup g (update g' f l) = if N.eqb g g' then option_map f (lookup g l) else lookup g l.
Proof.
  induction l as [|[k x] t IH]; cbn [update lookup].
  - destruct (N.eqb g g'); reflexivity.
  - destruct (N.eqb g' k) eqn:E1; cbn [lookup].
    + apply N.eqb_eq in E1; subst k. destruct (N.eqb g g') eqn:E2; reflexivity.
    + destruct (N.eqb g k) eqn:E2.
      * apply N.eqb_eq in E2; subst k. rewrite N.eqb_sym in E1. rewrite E1. reflexivity.
      * exact IH.
Qed.

Lemma lookup_update_other {A} (g g' : N) (f : A -> A) l :
  g <> g' -> lookup g (update g' f l) = lookup g l.
Proof. intros H. rewrite lookup_update. apply N.eqb_neq in H. rewrite H. reflexivity. Qed.

Lemma lookup_remove_key {A} (g g' : N) (l : list (N * A)) :
  lookup g (remove_key g' l) = if N.eqb g g' then None else lookup g l.
Proof.
  induction l as [|[k x] t IH]; cbn [remove_key lookup].
  - destruct (N.eqb g g'); reflexivity.
  - destruct (N.eqb g' k) eqn:E1.
    + apply N.eqb_eq in E1; subst k. rewrite IH. destruct (N.eqb g g'); reflexivity.
    + cbn [lookup]. destruct (N.eqb g k) eqn:E2.
      * apply N.eqb_eq in E2; subst k. rewrite N.eqb_sym in E1. rewrite E1. reflexivity.
      * exact IH.
Qed.

Lemma lookup_app_new {A} (g g' : N) (x : A) l :
  lookup g (l ++ [(g', x)]) =
  match lookup g l with Some y => Some y | None => if N.eqb g g' then Some x else None end.
Proof.
  induction l as [|[k y] t IH]; cbn [app lookup].
  - reflexivity.
  - destruct (N.eqb g k); [reflexivity | exact IH].
Qed.

(* ---------------------------------------------------------------- kind classifications *)
Lemma switches_class s :
  switches s = match step_class (kind s) with KUse | KCreate => true | _ => false end.
Proof. unfold switches. destruct (kind s); reflexivity. Qed.

Lemma names_internal_class s :
  names_internal s = match step_class (kind s) with
                     | KUse | KCreate | KDrop => opt_kg_eqb (arg s) (Some internal_kg)
                     | _ => false
                     end.
Proof. unfold names_internal. destruct (kind s); reflexivity. Qed.

Lemma target_class_of_step_class k :
  match step_class k with
  | KUse | KDrop => target_class k = TNamed
  | KCreate => target_class k = TGlobal
  | KQuery => target_class k = TCurrent
  | KOther => True
  end.
Proof. destruct k; cbn; auto. Qed.

Lemma is_create_class s : is_create s = true -> step_class (kind s) = KCreate.
Proof. unfold is_create. destruct (kind s); cbn; congruence. Qed.
Lemma is_drop_class s : is_drop s = true -> step_class (kind s) = KDrop.
Proof. unfold is_drop. destruct (kind s); cbn; congruence. Qed.

Lemma all_kinds_complete : forall k, In k all_kinds.
Proof. intros k; destruct k; vm_compute; tauto. Qed.

Lemma forall_kinds (P : stmt_kind -> bool) :
  forallb P all_kinds = true -> forall k, P k = true.
Proof. intros H k. exact (proj1 (forallb_forall P all_kinds) H k (all_kinds_complete k)). Qed.

(* a per-KG role that permits a mutating statement is not Viewer (cf. C28_viewer_readonly) *)
Lemma mutating_not_viewer k kr :
  mutates k = true -> kg_ok kr k = true -> kr <> KViewer.
Proof.
  intros M K E. subst kr.
  pose proof (forall_kinds (fun k => implb (kg_ok KViewer k) (negb (mutates k)))
                           ltac:(vm_compute; reflexivity) k) as H.
  cbv beta in H. rewrite K, M in H. discriminate.
Qed.

Lemma drop_needs_owner kr : kg_ok kr MKgDrop = true -> kr = KOwner.
Proof. destruct kr; vm_compute; congruence. Qed.

Lemma step_class_drop k : step_class k = KDrop -> k = MKgDrop.
Proof. destruct k; cbn; congruence. Qed.
Lemma step_class_create k : step_class k = KCreate -> k = MKgCreate.
Proof. destruct k; cbn; congruence. Qed.
Lemma step_class_use k : step_class k = KUse -> k = MKgUse.
Proof. destruct k; cbn; congruence. Qed.

(* ---------------------------------------------------------------- what `authorize1` grants *)
Section Auth.
Variable r : role.
Variable roles : kgname -> option kgrole.

(* the caller may execute statement s while g is the current knowledge graph *)
Definition permitted (s : stmt) (cur : kgname) : Prop :=
  global_ok r (kind s) = true /\
  (r = RAdmin \/
   forall g, In g (target_kgs s [cur]) -> exists kr, roles g = Some kr /\ kg_ok kr (kind s) = true).

Lemma role_eqb_admin : role_eqb r RAdmin = true -> r = RAdmin.
Proof. destruct r; cbn; congruence. Qed.
Lemma role_neq_admin : r <> RAdmin -> role_eqb r RAdmin = false.
Proof. destruct r; cbn; congruence. Qed.

Lemma target_kgs_mono s cur curs g :
  In cur curs -> In g (target_kgs s [cur]) -> In g (target_kgs s curs).
Proof.
  unfold target_kgs. intros Hc.
  destruct (target_class (kind s)); try (destruct (arg s)); cbn [In]; intuition (subst; auto).
Qed.

Lemma authorize1_permitted s curs cur :
  authorize1 r roles s curs = true -> In cur curs -> permitted s cur.
Proof.
  unfold authorize1, permitted. intros H Hc.
  apply andb_true_iff in H. destruct H as [H H3].
  apply andb_true_iff in H. destruct H as [H1 _].
  split; [exact H1|].
  apply orb_true_iff in H3. destruct H3 as [H3|H3].
  - left. apply role_eqb_admin; exact H3.
  - right. intros g Hg.
    rewrite forallb_forall in H3.
    specialize (H3 g (target_kgs_mono s cur curs g Hc Hg)).
    unfold kg_allowed in H3. destruct (roles g) as [kr|]; [|discriminate].
    exists kr; auto.
Qed.

Lemma authorize1_not_internal s curs :
  authorize1 r roles s curs = true -> names_internal s = false.
Proof.
  unfold authorize1. intros H.
  apply andb_true_iff in H. destruct H as [H _].
  apply andb_true_iff in H. destruct H as [_ H].
  apply negb_true_iff in H. exact H.
Qed.

(* ---------------------------------------------------------------- the execution loop *)
Lemma step_trace st s : r_trace (step st s) = r_trace st ++ [(r_cur st, s)].
Proof.
  unfold step. destruct (step_class (kind s)); destruct (arg s) as [g|];
    try reflexivity.
  - destruct (lookup g (r_kgs st)); reflexivity.
  - destruct (lookup g (r_kgs st)); reflexivity.
  - destruct (N.eqb g (r_cur st)); [reflexivity|].
    destruct (N.eqb g default_kg); [reflexivity|].
    destruct (lookup g (r_kgs st)); reflexivity.
Qed.

(* the current KG changes only to the KG named by a `.kg use` / `.kg create` *)
Lemma step_cur st s :
  r_cur (step st s) = r_cur st \/ (switches s = true /\ arg s = Some (r_cur (step st s))).
Proof.
  rewrite switches_class. unfold step.
  destruct (step_class (kind s)); destruct (arg s) as [g|]; cbn; auto.
  - destruct (lookup g (r_kgs st)); cbn; auto.
  - destruct (lookup g (r_kgs st)); cbn; auto.
  - destruct (N.eqb g (r_cur st)); cbn; auto.
    destruct (N.eqb g default_kg); cbn; auto.
    destruct (lookup g (r_kgs st)); cbn; auto.
Qed.

Lemma step_cur_in st s curs :
  In (r_cur st) curs -> In (r_cur (step st s)) (push_switch s curs).
Proof.
  intros H. unfold push_switch.
  destruct (step_cur st s) as [E|[E1 E2]].
  - rewrite E. destruct (switches s); [destruct (arg s)|]; auto. apply in_or_app; auto.
  - rewrite E1, E2. apply in_or_app; right; left; reflexivity.
Qed.

(* frame: a step changes the content of at most one knowledge graph, and which one *)
Inductive touched : Type := TouchNone | Touch (g : kgname).

Definition step_touches (st : rstate) (s : stmt) : touched :=
  match step_class (kind s), arg s with
  | KCreate, Some g => Touch g
  | KDrop, Some g => Touch g
  | KOther, _ => if eff_is_none (seff s) then TouchNone else Touch (r_cur st)
  | _, _ => TouchNone
  end.

Lemma update_id {A} (g : N) (l : list (N * A)) : update g (fun x => x) l = l.
Proof. induction l as [|[k x] t IH]; cbn; [reflexivity|]. destruct (N.eqb g k); congruence. Qed.

Lemma step_frame st s g :
  match step_touches st s with Touch g' => g <> g' | TouchNone => True end ->
  lookup g (r_kgs (step st s)) = lookup g (r_kgs st).
Proof.
  unfold step_touches, step.
  destruct (step_class (kind s)) eqn:EC; destruct (arg s) as [a|]; cbn; try reflexivity.
  - intros _. destruct (lookup a (r_kgs st)); reflexivity.
  - intros Hne. destruct (lookup a (r_kgs st)) eqn:EL; cbn; [reflexivity|].
    rewrite lookup_app_new. apply N.eqb_neq in Hne. rewrite Hne.
    destruct (lookup g (r_kgs st)); reflexivity.
  - intros Hne. destruct (N.eqb a (r_cur st)); cbn; [reflexivity|].
    destruct (N.eqb a default_kg); cbn; [reflexivity|].
    destruct (lookup a (r_kgs st)); cbn; [|reflexivity].
    rewrite lookup_remove_key. apply N.eqb_neq in Hne. rewrite Hne. reflexivity.
  - destruct (seff s); cbn; intros Hne;
      try (apply lookup_update_other; exact Hne);
      unfold apply_eff; rewrite update_id; reflexivity.
  - destruct (seff s); cbn; intros Hne;
      try (apply lookup_update_other; exact Hne);
      unfold apply_eff; rewrite update_id; reflexivity.
Qed.

Lemma all_parsed_map ls ss : all_parsed ls = Some ss -> ls = map Some ss.
Proof.
  revert ss. induction ls as [|[s|] t IH]; cbn; intros ss H.
  - inversion H; reflexivity.
  - destruct (all_parsed t) as [ss'|]; [|discriminate]. inversion H; subst. cbn. f_equal. apply IH; reflexivity.
  - discriminate.
Qed.

Lemma all_parsed_none ls : In None ls -> all_parsed ls = None.
Proof.
  induction ls as [|[s|] t IH]; cbn; intros H.
  - contradiction.
  - destruct H as [H|H]; [discriminate|]. rewrite (IH H). reflexivity.
  - reflexivity.
Qed.

Lemma all_parsed_some ss : all_parsed (map Some ss) = Some ss.
Proof. induction ss as [|s t IH]; cbn; [reflexivity|]. rewrite IH. reflexivity. Qed.

(* ---- C27: every executed line was authorized for the KG that was current when it ran *)
Definition trace_ok (tr : list (kgname * stmt)) : Prop :=
  Forall (fun p => permitted (snd p) (fst p)) tr.

Lemma run_authorized ss : forall st curs,
  authorize_lines r roles curs (map Some ss) = true ->
  In (r_cur st) curs -> trace_ok (r_trace st) ->
  trace_ok (r_trace (fold_left step ss st)).
Proof.
  induction ss as [|s t IH]; cbn [map fold_left authorize_lines]; intros st curs HA Hc HT.
  - exact HT.
  - apply andb_true_iff in HA. destruct HA as [HA1 HA2].
    apply (IH (step st s) (push_switch s curs) HA2).
    + apply step_cur_in; exact Hc.
    + rewrite step_trace. unfold trace_ok. apply Forall_app. split; [exact HT|].
      constructor; [|constructor]. cbn. eapply authorize1_permitted; eauto.
Qed.

(* ---- C27: the content of a knowledge graph changes only with write permission on it *)
Variable kgs0 : list (kgname * list mark).

(* what a changed / dropped / created knowledge graph g implies about the caller *)
Definition may_change (g : kgname) : Prop :=
  r = RAdmin \/
  (exists kr, roles g = Some kr /\ kr <> KViewer) \/
  (lookup g kgs0 = None /\ global_ok r MKgCreate = true).

Lemma wf_stmt_effect s :
  wf_stmt s = true -> eff_is_none (seff s) = false ->
  mutates (kind s) = true /\ target_class (kind s) = TCurrent.
Proof.
  unfold wf_stmt, acts_on_current. intros H E. rewrite E in H. cbn in H.
  apply andb_true_iff in H. destruct H as [H1 H2]. split; [exact H1|].
  destruct (target_class (kind s)); try discriminate. reflexivity.
Qed.

Lemma step_may_change st s curs :
  authorize1 r roles s curs = true -> wf_stmt s = true -> In (r_cur st) curs ->
  (forall g, lookup g (r_kgs st) <> lookup g kgs0 -> may_change g) ->
  forall g, lookup g (r_kgs (step st s)) <> lookup g kgs0 -> may_change g.
Proof.
  intros HA HW Hc IH g Hg.
  pose proof (authorize1_permitted s curs (r_cur st) HA Hc) as [HG HP].
  destruct (step_touches st s) as [|g'] eqn:ET.
  - apply IH. rewrite <- (step_frame st s g); [exact Hg|]. rewrite ET. exact I.
  - destruct (N.eq_dec g g') as [->|Hne].
    2:{ apply IH. rewrite <- (step_frame st s g); [exact Hg|]. rewrite ET. exact Hne. }
    destruct HP as [HP|HP]; [left; exact HP|].
    unfold step_touches in ET.
    destruct (step_class (kind s)) eqn:EC; destruct (arg s) as [a|] eqn:EA; try discriminate.
    + (* create *)
      inversion ET; subst a. apply step_class_create in EC.
      destruct (lookup g' kgs0) eqn:E0.
      * apply IH. unfold step in Hg. rewrite EC in Hg. cbn in Hg. rewrite EA in Hg.
        destruct (lookup g' (r_kgs st)) eqn:EL; cbn in Hg.
        -- rewrite EL in Hg. rewrite E0. exact Hg.
        -- rewrite E0. discriminate.
      * right; right. split; [exact E0|]. rewrite EC in HG. exact HG.
    + (* drop *)
      inversion ET; subst a. apply step_class_drop in EC.
      right; left.
      destruct (HP g') as [kr [Hr Hk]].
      { unfold target_kgs. rewrite EC. cbn. rewrite EA. left; reflexivity. }
      exists kr. split; [exact Hr|]. rewrite EC in Hk. rewrite (drop_needs_owner kr Hk). discriminate.
    + (* statement acting on the current KG, with an effect *)
      destruct (eff_is_none (seff s)) eqn:EN; [discriminate|]. inversion ET; subst g'.
      destruct (wf_stmt_effect s HW EN) as [HM HTC].
      right; left.
      destruct (HP (r_cur st)) as [kr [Hr Hk]].
      { unfold target_kgs. rewrite HTC. left; reflexivity. }
      exists kr. split; [exact Hr|]. eapply mutating_not_viewer; eauto.
    + destruct (eff_is_none (seff s)) eqn:EN; [discriminate|]. inversion ET; subst g'.
      destruct (wf_stmt_effect s HW EN) as [HM HTC].
      right; left.
      destruct (HP (r_cur st)) as [kr [Hr Hk]].
      { unfold target_kgs. rewrite HTC. left; reflexivity. }
      exists kr. split; [exact Hr|]. eapply mutating_not_viewer; eauto.
Qed.

Lemma run_may_change ss : forall st curs,
  authorize_lines r roles curs (map Some ss) = true ->
  forallb wf_stmt ss = true ->
  In (r_cur st) curs ->
  (forall g, lookup g (r_kgs st) <> lookup g kgs0 -> may_change g) ->
  forall g, lookup g (r_kgs (fold_left step ss st)) <> lookup g kgs0 -> may_change g.
Proof.
  induction ss as [|s t IH]; cbn [map fold_left authorize_lines forallb]; intros st curs HA HW Hc HI.
  - exact HI.
  - apply andb_true_iff in HA. destruct HA as [HA1 HA2].
    apply andb_true_iff in HW. destruct HW as [HW1 HW2].
    apply (IH (step st s) (push_switch s curs) HA2 HW2).
    + apply step_cur_in; exact Hc.
    + eapply step_may_change; eauto.
Qed.

(* ---- C29: a non-admin never has _internal as current KG and never names it *)
Definition no_internal (tr : list (kgname * stmt)) : Prop :=
  Forall (fun p => fst p <> internal_kg /\ names_internal (snd p) = false) tr.

Lemma push_switch_no_internal s curs :
  names_internal s = false -> ~ In internal_kg curs -> ~ In internal_kg (push_switch s curs).
Proof.
  unfold push_switch. rewrite names_internal_class, switches_class.
  intros HN Hc.
  destruct (step_class (kind s)); try exact Hc; destruct (arg s) as [a|]; try exact Hc;
    intros HI; apply in_app_or in HI; destruct HI as [HI|[HI|[]]]; try (apply Hc; exact HI);
    subst a; cbn in HN; discriminate.
Qed.

Lemma step_internal_frame st s :
  names_internal s = false -> r_cur st <> internal_kg ->
  lookup internal_kg (r_kgs (step st s)) = lookup internal_kg (r_kgs st).
Proof.
  intros HN Hc. apply step_frame. unfold step_touches.
  rewrite names_internal_class in HN.
  destruct (step_class (kind s)); destruct (arg s) as [a|]; try exact I.
  - intros E; subst a. cbn in HN. discriminate.
  - intros E; subst a. cbn in HN. discriminate.
  - destruct (eff_is_none (seff s)); [exact I|]. intros E; apply Hc; symmetry; exact E.
  - destruct (eff_is_none (seff s)); [exact I|]. intros E; apply Hc; symmetry; exact E.
Qed.

Lemma step_switched_cur st s :
  r_switched (step st s) = r_switched st \/ r_switched (step st s) = Some (r_cur (step st s)).
Proof.
  unfold step. destruct (step_class (kind s)); destruct (arg s) as [g|]; cbn; auto.
  - destruct (lookup g (r_kgs st)); cbn; auto.
  - destruct (lookup g (r_kgs st)); cbn; auto.
  - destruct (N.eqb g (r_cur st)); cbn; auto.
    destruct (N.eqb g default_kg); cbn; auto.
    destruct (lookup g (r_kgs st)); cbn; auto.
Qed.

Lemma run_no_internal ss : forall st curs,
  authorize_lines r roles curs (map Some ss) = true ->
  In (r_cur st) curs -> ~ In internal_kg curs ->
  no_internal (r_trace st) ->
  r_switched st <> Some internal_kg ->
  let st' := fold_left step ss st in
  no_internal (r_trace st') /\
  lookup internal_kg (r_kgs st') = lookup internal_kg (r_kgs st) /\
  r_cur st' <> internal_kg /\ r_switched st' <> Some internal_kg.
Proof.
  induction ss as [|s t IH]; cbn [map fold_left authorize_lines]; intros st curs HA Hc HN HT HS.
  - cbn. repeat split; auto. intros E; apply HN; rewrite <- E; exact Hc.
  - apply andb_true_iff in HA. destruct HA as [HA1 HA2].
    pose proof (authorize1_not_internal s curs HA1) as HNI.
    assert (Hcur : r_cur st <> internal_kg) by (intros E; apply HN; rewrite <- E; exact Hc).
    assert (HN' : ~ In internal_kg (push_switch s curs)) by (apply push_switch_no_internal; auto).
    assert (Hc' : In (r_cur (step st s)) (push_switch s curs)) by (apply step_cur_in; exact Hc).
    destruct (IH (step st s) (push_switch s curs) HA2 Hc' HN') as [T1 [T2 [T3 T4]]].
    + rewrite step_trace. unfold no_internal. apply Forall_app. split; [exact HT|].
      constructor; [|constructor]. cbn. split; assumption.
    + destruct (step_switched_cur st s) as [E|E]; rewrite E; [exact HS|].
      intros E'. inversion E' as [E'']. apply HN'. rewrite <- E''. exact Hc'.
    + cbn. repeat split; auto.
      rewrite T2. apply step_internal_frame; assumption.
Qed.

End Auth.

(* ---- C30: effects in program order *)
Lemma run_trace_stmts ss : forall st,
  map snd (r_trace (fold_left step ss st)) = map snd (r_trace st) ++ ss.
Proof.
  induction ss as [|s t IH]; cbn [fold_left]; intros st.
  - rewrite app_nil_r. reflexivity.
  - rewrite IH, step_trace, map_app. cbn. rewrite <- app_assoc. reflexivity.
Qed.

(* ---------------------------------------------------------------- the request handler *)
Lemma direct_effect_kgs s w : w_kgs (direct_effect s w) = w_kgs w.
Proof.
  unfold direct_effect. destruct (kind s); try reflexivity; destruct (arg s); try reflexivity.
  destruct (arole s); [|reflexivity]. destruct (kg_exists w k); reflexivity.
Qed.

Lemma finish_kgs req w st : w_kgs (d_world (finish req w st)) = r_kgs st.
Proof. reflexivity. Qed.
Lemma finish_trace req w st : d_trace (finish req w st) = r_trace st.
Proof. reflexivity. Qed.

Lemma authorize_request_parts r roles cur whole lines :
  authorize_request r roles cur whole lines = true ->
  bound_to_internal r cur = false /\
  match whole with Some s => authorize1 r roles s [cur] = true | None => True end /\
  authorize_lines r roles [cur] lines = true.
Proof.
  unfold authorize_request. intros H.
  apply andb_true_iff in H. destruct H as [H H3].
  apply andb_true_iff in H. destruct H as [H1 H2].
  apply negb_true_iff in H1. repeat split; auto.
  destruct whole; auto.
Qed.

Lemma handle_trace_ok req w :
  trace_ok (q_role req) (role_of (w_acls w) (q_user req)) (d_trace (handle req w)).
Proof.
  unfold handle, handle_with.
  destruct (authorize_request _ _ _ _ _) eqn:HA; [|constructor].
  apply authorize_request_parts in HA. destruct HA as [_ [HW HL]].
  assert (VQ : trace_ok (q_role req) (role_of (w_acls w) (q_user req)) (d_trace (via_query_program req w))).
  { unfold via_query_program, query_program.
    destruct (lookup (q_cur req) (w_kgs w)); [|constructor].
    destruct (all_parsed (q_lines req)) as [ss|] eqn:EP; [|constructor].
    rewrite finish_trace. unfold run.
    apply all_parsed_map in EP. rewrite EP in HL.
    eapply run_authorized; eauto; cbn; auto. constructor. }
  unfold dispatch. destruct (q_whole req) as [s0|]; [|exact VQ].
  assert (P0 : permitted (q_role req) (role_of (w_acls w) (q_user req)) s0 (q_cur req)).
  { eapply authorize1_permitted; eauto. left; reflexivity. }
  destruct (is_direct (kind s0)); [constructor; [exact P0|constructor]|].
  destruct (q_session req && is_session_intercept (kind s0)); [constructor; [exact P0|constructor]|].
  exact VQ.
Qed.

Definition req_wf (req : request) : bool := wf_lines (q_lines req).

Lemma wf_lines_map ss : wf_lines (map Some ss) = forallb wf_stmt ss.
Proof. unfold wf_lines. induction ss as [|s t IH]; cbn; [reflexivity|]. rewrite IH. reflexivity. Qed.

Lemma handle_may_change req w g :
  req_wf req = true ->
  kg_content (d_world (handle req w)) g <> kg_content w g ->
  may_change (q_role req) (role_of (w_acls w) (q_user req)) (w_kgs w) g.
Proof.
  intros HWF. unfold handle, handle_with, kg_content.
  destruct (authorize_request _ _ _ _ _) eqn:HA; [|cbn; congruence].
  apply authorize_request_parts in HA. destruct HA as [_ [HW HL]].
  assert (VQ : lookup g (w_kgs (d_world (via_query_program req w))) <> lookup g (w_kgs w) ->
               may_change (q_role req) (role_of (w_acls w) (q_user req)) (w_kgs w) g).
  { unfold via_query_program, query_program.
    destruct (lookup (q_cur req) (w_kgs w)); [|cbn; congruence].
    destruct (all_parsed (q_lines req)) as [ss|] eqn:EP; [|cbn; congruence].
    rewrite finish_kgs. unfold run.
    apply all_parsed_map in EP. unfold req_wf in HWF. rewrite EP in HL, HWF. rewrite wf_lines_map in HWF.
    eapply run_may_change; eauto; cbn; auto. congruence. }
  unfold dispatch. destruct (q_whole req) as [s0|]; [|exact VQ].
  destruct (is_direct (kind s0)); [cbn; rewrite direct_effect_kgs; congruence|].
  destruct (q_session req && is_session_intercept (kind s0)); [cbn; congruence|].
  exact VQ.
Qed.

Lemma handle_denied req w :
  d_dec (handle req w) = Denied -> d_world (handle req w) = w /\ d_trace (handle req w) = [].
Proof.
  unfold handle, handle_with.
  destruct (authorize_request _ _ _ _ _); [|cbn; auto].
  unfold dispatch, via_query_program.
  destruct (q_whole req) as [s0|].
  - destruct (is_direct (kind s0)); [cbn; discriminate|].
    destruct (q_session req && is_session_intercept (kind s0)); [cbn; discriminate|].
    destruct (lookup _ _); [|cbn; discriminate]. destruct (query_program _ _ _); cbn; discriminate.
  - destruct (lookup _ _); [|cbn; discriminate]. destruct (query_program _ _ _); cbn; discriminate.
Qed.

Lemma bound_to_internal_false r cur : r <> RAdmin -> bound_to_internal r cur = false -> cur <> internal_kg.
Proof.
  unfold bound_to_internal. intros HR H E. subst cur.
  rewrite (role_neq_admin r HR) in H. cbn in H. discriminate.
Qed.

Lemma handle_no_internal req w :
  q_role req <> RAdmin ->
  let res := handle req w in
  no_internal (d_trace res) /\
  kg_content (d_world res) internal_kg = kg_content w internal_kg /\
  (q_bound req <> Some internal_kg -> d_bound res <> Some internal_kg) /\
  (q_cur req = internal_kg -> d_dec res = Denied).
Proof.
  intros HR. cbv zeta. unfold handle, handle_with, kg_content.
  assert (HB : q_bound req <> Some internal_kg -> bound_before req <> Some internal_kg).
  { unfold bound_before. auto. }
  destruct (authorize_request _ _ _ _ _) eqn:HA.
  2:{ cbn. repeat split; auto. constructor. }
  apply authorize_request_parts in HA. destruct HA as [HI [HW HL]].
  pose proof (bound_to_internal_false _ _ HR HI) as Hcur.
  assert (VQ : let res := via_query_program req w in
               no_internal (d_trace res) /\
               lookup internal_kg (w_kgs (d_world res)) = lookup internal_kg (w_kgs w) /\
               (q_bound req <> Some internal_kg -> d_bound res <> Some internal_kg) /\
               (q_cur req = internal_kg -> d_dec res = Denied)).
  { cbv zeta. unfold via_query_program, query_program.
    destruct (lookup (q_cur req) (w_kgs w)).
    2:{ cbn. repeat split; auto; [constructor|congruence]. }
    destruct (all_parsed (q_lines req)) as [ss|] eqn:EP.
    2:{ cbn. repeat split; auto; [constructor|congruence]. }
    apply all_parsed_map in EP. rewrite EP in HL.
    assert (RN := run_no_internal (q_role req) (role_of (w_acls w) (q_user req)) ss
                (RState (w_kgs w) (q_cur req) None false false []) [q_cur req] HL).
    cbn [r_cur r_trace r_switched r_kgs] in RN.
    destruct RN as [T1 [T2 [T3 T4]]].
    { left; reflexivity. }
    { intros [E|[]]. apply Hcur. exact E. }
    { constructor. }
    { discriminate. }
    fold (run (w_kgs w) (q_cur req) ss) in T1, T2, T3, T4.
    set (st := run (w_kgs w) (q_cur req) ss) in *.
    split; [exact T1|]. split; [exact T2|]. split; [|congruence].
    intros Hb.
    (* the binding afterwards: unchanged, the last switch target, or closed *)
    assert (B1 : match (if r_query st then None else r_switched st) with
                 | Some g => if q_session req then Some g else None
                 | None => bound_before req
                 end <> Some internal_kg).
    { destruct (r_query st); [apply HB; exact Hb|].
      destruct (r_switched st) as [g|] eqn:ES; [|apply HB; exact Hb].
      destruct (q_session req); congruence. }
    unfold bound_before in B1.
    match goal with |- ?b <> _ => change b with (d_bound (finish req w st)) end.
    unfold finish. cbn [d_bound].
    match goal with |- match ?c with _ => _ end <> _ => destruct c end; [|exact B1].
    match goal with |- (if ?c then _ else _) <> _ => destruct c end; [discriminate|exact B1]. }
  unfold dispatch. destruct (q_whole req) as [s0|]; [|exact VQ].
  assert (N0 : names_internal s0 = false) by (eapply authorize1_not_internal; eauto).
  destruct (is_direct (kind s0)).
  { cbn. rewrite direct_effect_kgs. repeat split; auto; [|congruence].
    constructor; [cbn; auto|constructor]. }
  destruct (q_session req && is_session_intercept (kind s0)).
  { cbn. repeat split; auto; [|congruence]. constructor; [cbn; auto|constructor]. }
  exact VQ.
Qed.

(* ---- C30 at the level of the request handler *)
Lemma via_query_program_rejects req w :
  In None (q_lines req) ->
  d_world (via_query_program req w) = w /\ d_trace (via_query_program req w) = [] /\
  (kg_exists w (q_cur req) = true -> d_dec (via_query_program req w) = Rejected).
Proof.
  intros H. unfold via_query_program, query_program, kg_exists, kg_content.
  rewrite (all_parsed_none _ H).
  destruct (lookup (q_cur req) (w_kgs w)); cbn; repeat split; auto. discriminate.
Qed.

Lemma dispatch_not_direct req w :
  goes_direct req = false -> dispatch req w = via_query_program req w.
Proof.
  unfold goes_direct, dispatch. destruct (q_whole req) as [s0|]; [|reflexivity].
  intros H. apply orb_false_iff in H. destruct H as [H1 H2]. rewrite H1, H2. reflexivity.
Qed.

Lemma handle_syntax_error req w :
  In None (q_lines req) -> goes_direct req = false ->
  d_world (handle req w) = w /\ d_trace (handle req w) = [] /\
  (kg_exists w (q_cur req) = true -> d_dec (handle req w) <> Ran).
Proof.
  intros HN HD. unfold handle, handle_with.
  destruct (authorize_request _ _ _ _ _); [|cbn; repeat split; congruence].
  rewrite (dispatch_not_direct req w HD).
  destruct (via_query_program_rejects req w HN) as [A [B C]].
  repeat split; auto. intros E. rewrite (C E). discriminate.
Qed.

(* ---------------------------------------------------------------- statements as used in Props/ *)
Lemma handle_authorized req w :
  Forall (fun p : kgname * stmt =>
            global_ok (q_role req) (kind (snd p)) = true /\
            (q_role req = RAdmin \/
             forall g, In g (target_kgs (snd p) [fst p]) ->
                       exists kr, role_of (w_acls w) (q_user req) g = Some kr /\ kg_ok kr (kind (snd p)) = true))
         (d_trace (handle req w)).
Proof. exact (handle_trace_ok req w). Qed.

Lemma handle_no_acl_on_internal req w :
  q_role req <> RAdmin -> role_of (w_acls w) (q_user req) internal_kg = None ->
  Forall (fun p : kgname * stmt => ~ In internal_kg (target_kgs (snd p) [fst p])) (d_trace (handle req w)).
Proof.
  intros HR HN. eapply Forall_impl; [|exact (handle_trace_ok req w)].
  intros [cur s] [_ [HA|HP]] HI; [exact (HR HA)|].
  destruct (HP _ HI) as [kr [E _]]. cbn in E. congruence.
Qed.

Lemma query_program_all_or_nothing kgs cur ls : In None ls -> query_program kgs cur ls = None.
Proof. intros H. unfold query_program. rewrite (all_parsed_none _ H). reflexivity. Qed.

Lemma query_program_in_order kgs cur ss :
  query_program kgs cur (map Some ss) = Some (fold_left step ss (RState kgs cur None false false [])) /\
  map snd (r_trace (fold_left step ss (RState kgs cur None false false []))) = ss.
Proof.
  split.
  - unfold query_program. rewrite all_parsed_some. reflexivity.
  - rewrite run_trace_stmts. reflexivity.
Qed.

Lemma may_change_b_spec r roles kgs0 g :
  may_change_b r roles kgs0 g = true <-> may_change r roles kgs0 g.
Proof.
  unfold may_change_b, may_change. split.
  - intros H. apply orb_true_iff in H. destruct H as [H|H].
    + apply orb_true_iff in H. destruct H as [H|H].
      * left. apply role_eqb_admin; exact H.
      * right; left. destruct (roles g) as [[| |]|]; try discriminate; eexists; split; try reflexivity; discriminate.
    + right; right. apply andb_true_iff in H. destruct H as [H1 H2].
      destruct (lookup g kgs0); [discriminate|]. auto.
  - intros [H|[[kr [H1 H2]]|[H1 H2]]].
    + subst r. reflexivity.
    + rewrite H1. destruct kr; try congruence; rewrite orb_true_r; reflexivity.
    + rewrite H1, H2. rewrite orb_true_r. reflexivity.
Qed.
