(* Maintenance steps placed anywhere in a history are invisible (Model/Store.v): a congruence
   between engine states that serve the same set and would recover the same set. *)
From IL Require Import Model.Value Proofs.ValueEq Model.Store Proofs.Store Model.StoreStmt Proofs.StoreStmt.
Open Scope N_scope.

(* all stored tuples have the arity recorded for the relation *)
Definition AInv (s : st) : Prop :=
  match rel_arity s with
  | Some n => forall t, In t (live s) -> length t = n
  | None => live s = []
  end.

Lemma AInv_st0 : AInv st0.
Proof. reflexivity. Qed.

Lemma uniform_arity_In a ts t : uniform_arity a ts = true -> In t ts -> length t = a.
Proof. unfold uniform_arity. rewrite forallb_forall. intros H Ht. apply Nat.eqb_eq, H, Ht. Qed.

Lemma step_ins_AInv s ts : AInv s -> AInv (fst (step_ins s ts)).
Proof.
  intros A. unfold step_ins. destruct ts as [|x r]; [exact A|]. set (tsx := x :: r).
  destruct (uniform_arity (arity_of_first tsx) tsx) eqn:U; cbn [negb]; [|exact A].
  destruct (rel_arity s) as [a'|] eqn:R.
  - destruct (Nat.eqb a' (arity_of_first tsx)) eqn:E; cbn [negb]; [|exact A].
    apply Nat.eqb_eq in E. pose proof (ins_mem_In (live s) tsx) as HI.
    destruct (ins_mem (live s) tsx) as [l' [n d]]. cbn [fst] in *. unfold AInv. cbn [rel_arity live].
    intros t Ht. apply HI in Ht. destruct Ht as [Ht|Ht].
    + unfold AInv in A. rewrite R in A. rewrite <- E. apply A, Ht.
    + apply (uniform_arity_In _ _ _ U Ht).
  - pose proof (ins_mem_In (live s) tsx) as HI.
    destruct (ins_mem (live s) tsx) as [l' [n d]]. cbn [fst] in *. unfold AInv. cbn [rel_arity live].
    intros t Ht. apply HI in Ht. unfold AInv in A. rewrite R in A. rewrite A in Ht. destruct Ht as [[]|Ht].
    apply (uniform_arity_In _ _ _ U Ht).
Qed.

Lemma step_del_AInv s ts : AInv s -> AInv (fst (step_del s ts)).
Proof.
  intros A. unfold step_del. destruct ts as [|x r]; [exact A|]. set (tsx := x :: r).
  destruct (negb (uniform_arity (arity_of_first tsx) tsx)); [exact A|].
  destruct (match rel_arity s with Some a' => negb (Nat.eqb a' (arity_of_first tsx)) | None => false end); [exact A|].
  pose proof (del_mem_In (live s) tsx) as HI. destruct (del_mem (live s) tsx) as [l' n]. cbn [fst] in *.
  unfold AInv in *. cbn [rel_arity live]. destruct (rel_arity s) as [a|].
  - intros t Ht. apply HI in Ht. apply A, Ht.
  - destruct l' as [|t l']; [reflexivity|]. exfalso. assert (H : In t (live s)) by (apply (HI t); left; reflexivity).
    rewrite A in H. exact H.
Qed.

Lemma step_restart_AInv s : Inv s -> AInv s -> AInv (step_restart s).
Proof.
  intros I A. unfold step_restart, AInv. cbn [rel_arity live].
  destruct (recover (log s)) as [|t l] eqn:R; [reflexivity|].
  assert (Sub : forall u, In u (t :: l) -> In u (live s)).
  { intros u Hu. rewrite <- R in Hu. apply recover_In in Hu. apply (inv_live _ I). exact Hu. }
  unfold AInv in A. destruct (rel_arity s) as [n|].
  - intros u Hu. rewrite (A u (Sub u Hu)). symmetry. apply A, Sub. left. reflexivity.
  - exfalso. specialize (Sub t (or_introl eq_refl)). rewrite A in Sub. exact Sub.
Qed.

Lemma step_AInv s o : Inv s -> AInv s -> AInv (fst (step s o)).
Proof.
  intros I A. destruct o; cbn [step fst].
  - apply step_ins_AInv, A.
  - apply step_del_AInv, A.
  - exact A.
  - exact A.
  - apply step_restart_AInv; assumption.
Qed.

(* ---------------------------------------------------------------- the congruence *)

Record sim (a b : st) : Prop := {
  sim_Ia : Inv a; sim_Ib : Inv b; sim_Aa : AInv a; sim_Ab : AInv b;
  sim_arity : rel_arity a = rel_arity b;
  sim_clock : clock a = clock b;
  sim_present : forall t, present (log a) t = present (log b) t
}.

Lemma sim_live a b : sim a b -> forall t, In t (live a) <-> In t (live b).
Proof.
  intros S t. rewrite (inv_live _ (sim_Ia _ _ S)), (inv_live _ (sim_Ib _ _ S)), (sim_present _ _ S). tauto.
Qed.

Lemma sim_mem a b : sim a b -> forall t, mem_tuple t (live a) = mem_tuple t (live b).
Proof. intros S t. apply eq_true_iff_eq. rewrite !mem_tuple_In. apply sim_live, S. Qed.

Lemma sim_refl s : Inv s -> AInv s -> sim s s.
Proof. intros I A. split; auto. Qed.

Lemma filter_length_same_set (f : tuple -> bool) l1 l2 :
  NoDup l1 -> NoDup l2 -> (forall t, In t l1 <-> In t l2) ->
  length (filter f l1) = length (filter f l2).
Proof.
  intros N1 N2 E. apply Nat.le_antisymm; apply NoDup_incl_length; try (apply NoDup_filter; assumption);
    intros t Ht; apply filter_In in Ht; apply filter_In; destruct Ht as [H F]; split; auto; apply E; exact H.
Qed.

Lemma present_append_sim la lb c d ts t :
  (forall u, In u la -> u_time u < c) -> (forall u, In u lb -> u_time u < c) -> d <> 0%Z ->
  (forall t, present la t = present lb t) ->
  present (la ++ map (fun x => mkU x c d) ts) t = present (lb ++ map (fun x => mkU x c d) ts) t.
Proof.
  intros Ba Bb Hd E. change (map (fun x => mkU x c d) ts) with (batch c d ts).
  rewrite (present_append_batch _ _ _ _ _ Ba Hd), (present_append_batch _ _ _ _ _ Bb Hd), E. reflexivity.
Qed.

(* one operation applied to two similar states: same report, similar states *)
Lemma step_sim a b o : sim a b -> sim (fst (step a o)) (fst (step b o)) /\ snd (step a o) = snd (step b o).
Proof.
  intros S. pose proof (step_Inv a o (sim_Ia _ _ S)) as Ia'. pose proof (step_Inv b o (sim_Ib _ _ S)) as Ib'.
  pose proof (step_AInv a o (sim_Ia _ _ S) (sim_Aa _ _ S)) as Aa'.
  pose proof (step_AInv b o (sim_Ib _ _ S) (sim_Ab _ _ S)) as Ab'.
  destruct S as [Ia Ib Aa Ab EA EC EP].
  assert (S : sim a b) by (split; assumption).
  destruct o as [ts|ts| | |]; cbn [step] in *.
  - (* insert *)
    unfold step_ins in *. destruct ts as [|x r]; [split; [split; assumption | reflexivity]|].
    set (tsx := x :: r) in *. rewrite <- EA in *.
    destruct (negb (uniform_arity (arity_of_first tsx) tsx)); [split; [split; assumption | reflexivity]|].
    destruct (match rel_arity a with Some a' => negb (Nat.eqb a' (arity_of_first tsx)) | None => false end);
      [split; [split; assumption | reflexivity]|].
    pose proof (ins_mem_count (live a) tsx) as Ca. pose proof (ins_mem_count (live b) tsx) as Cb.
    pose proof (ins_mem_total (live a) tsx) as Ta. pose proof (ins_mem_total (live b) tsx) as Tb.
    destruct (ins_mem (live a) tsx) as [la [na da]]. destruct (ins_mem (live b) tsx) as [lb [nb db]].
    cbn [fst snd] in *.
    assert (EN : na = nb).
    { rewrite Ca, Cb. f_equal. f_equal. apply filter_ext. intros t. rewrite (sim_mem a b S t). reflexivity. }
    split.
    + split; try assumption; cbn [rel_arity clock log]; try congruence.
      intros t. pose proof (inv_clock _ Ia) as Ba. rewrite EC in *.
      apply present_append_sim; [exact Ba | exact (inv_clock _ Ib) | lia | exact EP].
    + f_equal; [exact EN | lia].
  - (* delete *)
    unfold step_del in *. destruct ts as [|x r]; [split; [split; assumption | reflexivity]|].
    set (tsx := x :: r) in *. rewrite <- EA in *.
    destruct (negb (uniform_arity (arity_of_first tsx) tsx)); [split; [split; assumption | reflexivity]|].
    destruct (match rel_arity a with Some a' => negb (Nat.eqb a' (arity_of_first tsx)) | None => false end);
      [split; [split; assumption | reflexivity]|].
    unfold del_mem in *. cbn [fst snd] in *. split.
    + split; try assumption; cbn [rel_arity clock log]; try congruence.
      intros t. pose proof (inv_clock _ Ia) as Ba. rewrite EC in *.
      apply present_append_sim; [exact Ba | exact (inv_clock _ Ib) | lia | exact EP].
    + f_equal. f_equal.
      pose proof (filter_length_split (fun t => negb (mem_tuple t tsx)) (live a)) as Ha.
      pose proof (filter_length_split (fun t => negb (mem_tuple t tsx)) (live b)) as Hb.
      pose proof (filter_length_same_set (fun t => negb (mem_tuple t tsx)) _ _ (inv_nodup _ Ia) (inv_nodup _ Ib) (sim_live a b S)) as H1.
      pose proof (filter_length_same_set (fun t => negb (negb (mem_tuple t tsx))) _ _ (inv_nodup _ Ia) (inv_nodup _ Ib) (sim_live a b S)) as H2.
      lia.
  - split; [exact S | reflexivity].
  - (* compact *)
    split; [|reflexivity]. split; try assumption; cbn [fst rel_arity clock log]; try assumption.
    intros t. rewrite (present_consolidate _ _ (inv_coh _ Ia t)), (present_consolidate _ _ (inv_coh _ Ib t)). apply EP.
  - (* restart *)
    split; [|reflexivity]. split; try assumption; cbn [fst step_restart rel_arity clock log]; try assumption.
    unfold step_restart in Aa', Ab'. unfold AInv in Aa', Ab'. cbn [rel_arity live] in Aa', Ab'.
    assert (E : forall t, In t (recover (log a)) <-> In t (recover (log b))).
    { intros t. rewrite !recover_In, EP. tauto. }
    assert (Sub : forall t, In t (recover (log a)) -> In t (live a)).
    { intros t Ht. apply recover_In in Ht. apply (inv_live _ Ia). exact Ht. }
    assert (Sub' : forall t, In t (recover (log b)) -> In t (live b)).
    { intros t Ht. apply recover_In in Ht. apply (inv_live _ Ib). exact Ht. }
    destruct (recover (log a)) as [|ta la] eqn:Ra; destruct (recover (log b)) as [|tb lb] eqn:Rb.
    + reflexivity.
    + exfalso. apply (proj2 (E tb)). left. reflexivity.
    + exfalso. apply (proj1 (E ta)). left. reflexivity.
    + f_equal. unfold AInv in Aa, Ab. rewrite <- EA in Ab. destruct (rel_arity a) as [n|].
      * rewrite (Aa ta (Sub ta (or_introl eq_refl))), (Ab tb (Sub' tb (or_introl eq_refl))). reflexivity.
      * exfalso. specialize (Sub ta (or_introl eq_refl)). rewrite Aa in Sub. exact Sub.
Qed.

Lemma run_from_sim h : forall a b, sim a b -> sim (run_from a h) (run_from b h).
Proof.
  unfold run_from. induction h as [|o h IH]; intros a b S; cbn [fold_left]; [exact S|].
  apply IH. apply (proj1 (step_sim a b o S)).
Qed.

Lemma run_from_AInv h : forall s, Inv s -> AInv s -> AInv (run_from s h).
Proof.
  unfold run_from. induction h as [|o h IH]; intros s I A; cbn [fold_left]; [exact A|].
  apply IH; [apply step_Inv, I | apply step_AInv; assumption].
Qed.

(* Maintenance = save (flush) and compaction.  (A restart is NOT in this list: the running engine
   remembers the arity of a relation that became empty, a restarted one does not, so after a restart
   an insert of another arity into the empty relation is accepted — contents at the restart itself
   are reproduced exactly, which is C11.) *)
Definition maint (o : op) : bool := match o with OSave | OCompact => true | _ => false end.

(* a maintenance step taken in a reachable state yields a similar state *)
Lemma maint_sim s o : Inv s -> AInv s -> maint o = true -> sim (fst (step s o)) s.
Proof.
  intros I A M. pose proof (step_Inv s o I) as I'. pose proof (step_AInv s o I A) as A'.
  destruct o; try discriminate; cbn [step fst] in *.
  - apply sim_refl; assumption.
  - split; try assumption; cbn [rel_arity clock log]; try reflexivity.
    intros t. apply present_consolidate, (inv_coh _ I).
Qed.

Lemma run_AInv h : AInv (run h).
Proof. apply run_from_AInv; [apply Inv_st0 | apply AInv_st0]. Qed.

Lemma run_app h1 h2 : run (h1 ++ h2) = run_from (run h1) h2.
Proof. unfold run, run_from. apply fold_left_app. Qed.

(* A maintenance step inserted ANYWHERE in ANY history changes neither what is served afterwards
   nor what a restart would recover afterwards (as sets), nor the relation's recorded arity. *)
Theorem maintenance_invisible h1 m h2 :
  maint m = true ->
  let a := run (h1 ++ m :: h2) in
  let b := run (h1 ++ h2) in
  (forall t, In t (live a) <-> In t (live b)) /\
  (forall t, In t (recover (log a)) <-> In t (recover (log b))) /\
  rel_arity a = rel_arity b.
Proof.
  intros M a b. unfold a, b. rewrite !run_app. cbn [run_from fold_left].
  pose proof (maint_sim (run h1) m (run_Inv h1) (run_AInv h1) M) as S0.
  pose proof (run_from_sim h2 _ _ S0) as S. unfold run_from in S. split; [|split].
  - apply sim_live, S.
  - intros t. rewrite !recover_In, (sim_present _ _ S). tauto.
  - apply (sim_arity _ _ S).
Qed.

(* every operation of the rest of the history reports the same counts with and without the
   maintenance step *)
Fixpoint reports (s : st) (h : list op) : list report :=
  match h with [] => [] | o :: r => snd (step s o) :: reports (fst (step s o)) r end.

Lemma reports_sim h : forall a b, sim a b -> reports a h = reports b h.
Proof.
  induction h as [|o h IH]; intros a b S; cbn [reports]; [reflexivity|].
  destruct (step_sim a b o S) as [S' E]. rewrite E. f_equal. apply IH, S'.
Qed.

Theorem maintenance_invisible_reports h1 m h2 :
  maint m = true -> reports (run (h1 ++ [m])) h2 = reports (run h1) h2.
Proof.
  intros M. rewrite run_app. cbn [run_from fold_left]. apply reports_sim.
  apply (maint_sim (run h1) m (run_Inv h1) (run_AInv h1) M).
Qed.
