(* Monotonicity / frame lemmas for clause evaluation (Model/Datalog.v), at the level of sets (In). *)
From IL Require Import Model.Value Model.Datalog Proofs.ValueEq.
Open Scope N_scope.

Definition seq {A} (a b : list A) : Prop := incl a b /\ incl b a.

Lemma seq_refl {A} (a : list A) : seq a a.
Proof. split; apply incl_refl. Qed.
Lemma seq_sym {A} (a b : list A) : seq a b -> seq b a.
Proof. intros [H1 H2]; split; assumption. Qed.
Lemma seq_trans {A} (a b c : list A) : seq a b -> seq b c -> seq a c.
Proof. intros [H1 H2] [H3 H4]; split; eapply incl_tran; eauto. Qed.

Lemma get_set_rel d h ts r : get (set_rel d h ts) r = if N.eqb r h then ts else get d r.
Proof. reflexivity. Qed.

Lemma incl_flat_map {A B} (f g : A -> list B) (l l' : list A) :
  incl l l' -> (forall a, In a l -> incl (f a) (g a)) -> incl (flat_map f l) (flat_map g l').
Proof.
  intros Hl Hf b Hb. apply in_flat_map in Hb. destruct Hb as [a [Ha Hb]].
  apply in_flat_map. exists a. split; [apply Hl, Ha | apply (Hf a Ha), Hb].
Qed.

Lemma incl_filter {A} (f g : A -> bool) (l l' : list A) :
  incl l l' -> (forall a, In a l -> f a = true -> g a = true) -> incl (filter f l) (filter g l').
Proof.
  intros Hl Hf a Ha. apply filter_In in Ha. destruct Ha as [Ha Hfa].
  apply filter_In. split; [apply Hl, Ha | apply Hf; assumption].
Qed.

Lemma existsb_incl {A} (f : A -> bool) (l l' : list A) :
  incl l l' -> existsb f l = true -> existsb f l' = true.
Proof.
  intros Hl H. apply existsb_exists in H. destruct H as [x [Hx Hf]].
  apply existsb_exists. exists x. split; [apply Hl, Hx | exact Hf].
Qed.

Lemma existsb_seq {A} (f : A -> bool) (l l' : list A) : seq l l' -> existsb f l = existsb f l'.
Proof.
  intros [H1 H2]. destruct (existsb f l) eqn:E.
  - symmetry. eapply existsb_incl; eauto.
  - destruct (existsb f l') eqn:E'; [|reflexivity].
    rewrite (existsb_incl f l' l H2 E') in E. discriminate.
Qed.

Section Mono.
  Variables d d' : db.

  (* relations referenced positively / negatively by a list of literals *)
  Definition pos_ok (body : list lit) : Prop :=
    forall r, In (r, false) (flat_map lit_rel body) -> incl (get d r) (get d' r).
  Definition neg_ok (body : list lit) : Prop :=
    forall r, In (r, true) (flat_map lit_rel body) -> seq (get d r) (get d' r).

  Lemma pos_ok_tail l body : pos_ok (l :: body) -> pos_ok body.
  Proof. intros H r Hr. apply H. cbn. apply in_or_app. right; exact Hr. Qed.
  Lemma neg_ok_tail l body : neg_ok (l :: body) -> neg_ok body.
  Proof. intros H r Hr. apply H. cbn. apply in_or_app. right; exact Hr. Qed.

  Lemma extend_pos_mono r args ths ths' :
    incl (get d r) (get d' r) -> incl ths ths' ->
    incl (extend_pos d r args ths) (extend_pos d' r args ths').
  Proof.
    intros Hr Hths. unfold extend_pos. apply incl_flat_map; [exact Hths|].
    intros th _. apply incl_flat_map; [exact Hr|]. intros t _. apply incl_refl.
  Qed.

  Lemma pos_pass_mono body : pos_ok body -> forall ths ths',
    incl ths ths' -> incl (pos_pass d body ths) (pos_pass d' body ths').
  Proof.
    induction body as [|l body IH]; intros Hp ths ths' Hths; cbn [pos_pass]; [exact Hths|].
    pose proof (pos_ok_tail _ _ Hp) as Hp'.
    destruct l as [r args|r args|op a b|x e]; try (apply IH; assumption).
    apply IH; [exact Hp'|]. apply extend_pos_mono; [|exact Hths].
    apply Hp. cbn. left; reflexivity.
  Qed.

  Lemma assign_pass_mono body : forall ths ths',
    incl ths ths' -> incl (assign_pass body ths) (assign_pass body ths').
  Proof.
    induction body as [|l body IH]; intros ths ths' Hths; cbn [assign_pass]; [exact Hths|].
    destruct l as [r args|r args|op a b|x e]; try (apply IH; assumption).
    apply IH. apply incl_flat_map; [exact Hths|]. intros th _. apply incl_refl.
  Qed.

  Lemma filter_lit_mono body : neg_ok body -> forall th l, In l body ->
    filter_lit d th l = true -> filter_lit d' th l = true.
  Proof.
    intros Hn th l Hl. destruct l as [r args|r args|op a b|x e]; cbn [filter_lit]; auto.
    unfold holds_neg. intros H.
    rewrite <- (existsb_seq _ (get d r) (get d' r)); [exact H|].
    apply Hn. apply in_flat_map. exists (LNeg r args). split; [exact Hl|cbn; auto].
  Qed.

  Lemma eval_body_mono body : pos_ok body -> neg_ok body ->
    incl (eval_body d body) (eval_body d' body).
  Proof.
    intros Hp Hn. unfold eval_body. apply incl_filter.
    - apply assign_pass_mono, pos_pass_mono; [exact Hp|apply incl_refl].
    - intros th _ H. rewrite forallb_forall in *. intros l Hl.
      eapply filter_lit_mono; eauto.
  Qed.

  Lemma eval_clause_mono c : has_agg c = false -> pos_ok (cbody c) -> neg_ok (cbody c) ->
    incl (eval_clause d c) (eval_clause d' c).
  Proof.
    intros Ha Hp Hn. unfold eval_clause. rewrite Ha. unfold eval_clause_plain.
    unfold incl at 1. intros t Ht. apply (proj1 (dedup_tuples_In _ _)) in Ht. apply (proj2 (dedup_tuples_In _ _)).
    refine (incl_flat_map _ _ _ _ _ _ t Ht); [apply eval_body_mono; assumption|].
    intros th _. apply incl_refl.
  Qed.
End Mono.

(* lifted to all clauses of a head *)
Definition head_pos_ok (p : program) (h : rel) (d d' : db) : Prop :=
  forall r, In (r, false) (head_refs p h) -> incl (get d r) (get d' r).
Definition head_neg_ok (p : program) (h : rel) (d d' : db) : Prop :=
  forall r, In (r, true) (head_refs p h) -> seq (get d r) (get d' r).
Definition no_agg (p : program) : Prop := forall c, In c p -> has_agg c = false.

Lemma clauses_of_In p h c : In c (clauses_of p h) <-> In c p /\ chead c = h.
Proof.
  unfold clauses_of. rewrite filter_In. rewrite N.eqb_eq. tauto.
Qed.

Lemma apply_head_mono p h d d' : no_agg p -> head_pos_ok p h d d' -> head_neg_ok p h d d' ->
  incl (apply_head p d h) (apply_head p d' h).
Proof.
  intros Ha Hp Hn t Ht. unfold apply_head in *. apply (proj1 (dedup_tuples_In _ _)) in Ht. apply (proj2 (dedup_tuples_In _ _)).
  refine (incl_flat_map _ _ _ _ _ _ t Ht); [apply incl_refl|].
  intros c Hc. apply eval_clause_mono.
  - apply Ha. apply clauses_of_In in Hc. tauto.
  - intros r Hr. apply Hp. unfold head_refs. apply in_flat_map. exists c. split; [exact Hc|exact Hr].
  - intros r Hr. apply Hn. unfold head_refs. apply in_flat_map. exists c. split; [exact Hc|exact Hr].
Qed.

(* frame: agreeing on everything h references gives the same consequences *)
Definition agree_refs (p : program) (h : rel) (d d' : db) : Prop :=
  forall r b, In (r, b) (head_refs p h) -> seq (get d r) (get d' r).

Lemma apply_head_frame p h d d' : no_agg p -> agree_refs p h d d' ->
  seq (apply_head p d h) (apply_head p d' h).
Proof.
  intros Ha H. split; apply apply_head_mono; try assumption; intros r Hr.
  - apply (H r false Hr).
  - apply (H r true Hr).
  - apply (H r false Hr).
  - apply seq_sym, (H r true Hr).
Qed.
