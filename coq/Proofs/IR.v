(* Generic facts about the IR model: an induction principle that reaches the inputs of Union,
   membership characterisations of the bag operators, and congruence of every operator with
   respect to Permutation of its input bags. *)
From Coq Require Import Permutation.
From IL Require Import Model.Value Model.IR Proofs.ValueEq.
Open Scope nat_scope.

(* ------------------------------------------------------------------ induction over plans *)
Section IrInd.
Variable P : ir -> Prop.
Hypothesis HScan : forall r s, P (Scan r s).
Hypothesis HMap : forall x p s, P x -> P (Map x p s).
Hypothesis HFilter : forall x p, P x -> P (Filter x p).
Hypothesis HJoin : forall l r lk rk s, P l -> P r -> P (Join l r lk rk s).
Hypothesis HDistinct : forall x, P x -> P (Distinct x).
Hypothesis HUnion : forall ts, Forall P ts -> P (Union ts).
Hypothesis HAggregate : forall x gb aggs s, P x -> P (Aggregate x gb aggs s).
Hypothesis HAntijoin : forall l r lk rk s, P l -> P r -> P (Antijoin l r lk rk s).
Hypothesis HCompute : forall x es, P x -> P (Compute x es).
Hypothesis HHnsw : forall s, P (HnswScan s).
Hypothesis HFlatMap : forall x p fp s, P x -> P (FlatMap x p fp s).
Hypothesis HJoinFlatMap : forall l r lk rk p fp s, P l -> P r -> P (JoinFlatMap l r lk rk p fp s).

Fixpoint ir_ind' (t : ir) : P t :=
  match t with
  | Scan r s => HScan r s
  | Map x p s => HMap x p s (ir_ind' x)
  | Filter x p => HFilter x p (ir_ind' x)
  | Join l r lk rk s => HJoin l r lk rk s (ir_ind' l) (ir_ind' r)
  | Distinct x => HDistinct x (ir_ind' x)
  | Union ts =>
      HUnion ts ((fix go (l : list ir) : Forall P l :=
                    match l with
                    | [] => Forall_nil P
                    | x :: r => Forall_cons x (ir_ind' x) (go r)
                    end) ts)
  | Aggregate x gb aggs s => HAggregate x gb aggs s (ir_ind' x)
  | Antijoin l r lk rk s => HAntijoin l r lk rk s (ir_ind' l) (ir_ind' r)
  | Compute x es => HCompute x es (ir_ind' x)
  | HnswScan s => HHnsw s
  | FlatMap x p fp s => HFlatMap x p fp s (ir_ind' x)
  | JoinFlatMap l r lk rk p fp s => HJoinFlatMap l r lk rk p fp s (ir_ind' l) (ir_ind' r)
  end.
End IrInd.

(* ------------------------------------------------------------------ permutations of lists *)
Lemma Permutation_filter {A} (f : A -> bool) l l' :
  Permutation l l' -> Permutation (filter f l) (filter f l').
Proof.
  induction 1; cbn.
  - constructor.
  - destruct (f x); auto.
  - destruct (f x), (f y); auto. apply perm_swap.
  - eapply Permutation_trans; eauto.
Qed.

Lemma Permutation_flat_map_l {A B} (f : A -> list B) l l' :
  Permutation l l' -> Permutation (flat_map f l) (flat_map f l').
Proof.
  induction 1; cbn.
  - constructor.
  - apply Permutation_app_head; assumption.
  - rewrite !app_assoc. apply Permutation_app_tail. apply Permutation_app_comm.
  - eapply Permutation_trans; eauto.
Qed.

Lemma Permutation_flat_map_ext {A B} (f g : A -> list B) l :
  (forall x, In x l -> Permutation (f x) (g x)) -> Permutation (flat_map f l) (flat_map g l).
Proof.
  induction l as [|a l IH]; cbn; intros H; [constructor|].
  apply Permutation_app; [apply H; left; reflexivity | apply IH; intros; apply H; right; assumption].
Qed.

Lemma Permutation_flat_map_both {A B} (f g : A -> list B) l l' :
  Permutation l l' -> (forall x, Permutation (f x) (g x)) ->
  Permutation (flat_map f l) (flat_map g l').
Proof.
  intros HP HE. eapply Permutation_trans; [apply Permutation_flat_map_l; exact HP|].
  apply Permutation_flat_map_ext; intros; apply HE.
Qed.

Lemma filter_ext_in' {A} (f g : A -> bool) l :
  (forall x, In x l -> f x = g x) -> filter f l = filter g l.
Proof.
  induction l as [|a l IH]; cbn; intros H; [reflexivity|].
  rewrite (H a (or_introl eq_refl)). rewrite IH; [reflexivity | intros; apply H; right; assumption].
Qed.

Lemma mem_tuple_perm t l l' : Permutation l l' -> mem_tuple t l = mem_tuple t l'.
Proof.
  intros HP. destruct (mem_tuple t l) eqn:E, (mem_tuple t l') eqn:E'; try reflexivity.
  - apply mem_tuple_In in E. apply (Permutation_in _ HP) in E. apply mem_tuple_In in E. congruence.
  - apply mem_tuple_In in E'. apply (Permutation_in _ (Permutation_sym HP)) in E'.
    apply mem_tuple_In in E'. congruence.
Qed.

Lemma dedup_tuples_perm l l' : Permutation l l' -> Permutation (dedup_tuples l) (dedup_tuples l').
Proof.
  intros HP. apply NoDup_Permutation; try apply dedup_tuples_NoDup.
  intros x. rewrite !dedup_tuples_In. split; apply Permutation_in; [|apply Permutation_sym]; exact HP.
Qed.

(* ------------------------------------------------------------------ congruence of the operators *)
Lemma den_join_perm lk rk L L' R R' :
  Permutation L L' -> Permutation R R' ->
  Permutation (den_join lk rk L R) (den_join lk rk L' R').
Proof.
  intros HL HR. unfold den_join. destruct (is_nil lk && is_nil rk).
  - apply Permutation_flat_map_both; [exact HL|]. intros a. apply Permutation_map. exact HR.
  - apply Permutation_flat_map_both; [exact HL|]. intros a. apply Permutation_flat_map_l. exact HR.
Qed.

Lemma den_jfm_perm lk rk proj fp L L' R R' :
  Permutation L L' -> Permutation R R' ->
  Permutation (den_jfm lk rk proj fp L R) (den_jfm lk rk proj fp L' R').
Proof.
  intros HL HR. unfold den_jfm.
  apply Permutation_flat_map_both; [exact HL|]. intros a. apply Permutation_flat_map_l. exact HR.
Qed.

Lemma den_antijoin_perm lk rk L L' R R' :
  Permutation L L' -> Permutation R R' ->
  Permutation (den_antijoin lk rk L R) (den_antijoin lk rk L' R').
Proof.
  intros HL HR. unfold den_antijoin.
  rewrite (filter_ext_in' _ (fun a => negb (mem_tuple (project lk a) (map (project rk) R'))) L).
  - apply Permutation_filter. exact HL.
  - intros x _. f_equal. apply mem_tuple_perm. apply Permutation_map. exact HR.
Qed.

Lemma den_flatmap_perm proj fp L L' :
  Permutation L L' -> Permutation (den_flatmap proj fp L) (den_flatmap proj fp L').
Proof. intros H. unfold den_flatmap. apply Permutation_flat_map_l. exact H. Qed.

(* ---- aggregation *)
Lemma zsum_perm l l' : Permutation l l' -> zsum l = zsum l'.
Proof.
  unfold zsum. induction 1; cbn [fold_right] in *; [reflexivity | rewrite IHPermutation; reflexivity | lia | congruence].
Qed.

Lemma colvals_perm c g g' : Permutation g g' -> Permutation (colvals c g) (colvals c g').
Proof. intros H. unfold colvals. apply Permutation_flat_map_l. exact H. Qed.

(* ---- the value order used by Min / Max is a total order (antisymmetric w.r.t. Leibniz equality) *)
Lemma lex_cmp_Z_eq a : forall b, lex_cmp Z.compare a b = Eq -> a = b.
Proof.
  induction a as [|x a IH]; intros [|y b]; cbn; try discriminate; [reflexivity|].
  destruct (Z.compare x y) eqn:E; try discriminate.
  apply Z.compare_eq_iff in E. subst. intros H. f_equal. apply IH. exact H.
Qed.

Lemma lex_cmp_Z_antisym a : forall b, lex_cmp Z.compare b a = CompOpp (lex_cmp Z.compare a b).
Proof.
  induction a as [|x a IH]; intros [|y b]; cbn; try reflexivity.
  rewrite (Z.compare_antisym x y). destruct (Z.compare x y); cbn; [apply IH | reflexivity | reflexivity].
Qed.

Lemma lex_cmp_Z_trans a : forall b c,
  lex_cmp Z.compare a b = Lt -> lex_cmp Z.compare b c = Lt -> lex_cmp Z.compare a c = Lt.
Proof.
  induction a as [|x a IH]; intros [|y b] [|z c]; cbn; try discriminate; try reflexivity.
  destruct (Z.compare_spec x y), (Z.compare_spec y z), (Z.compare_spec x z);
    try discriminate; try lia; try reflexivity; subst; try lia.
  apply IH.
Qed.

Lemma map_ZofN_inj a b : map Z.of_N a = map Z.of_N b -> a = b.
Proof.
  revert b. induction a as [|x a IH]; intros [|y b]; cbn; try discriminate; [reflexivity|].
  intros H. inversion H. f_equal; [apply N2Z.inj; assumption | apply IH; assumption].
Qed.

Lemma venc_inj a b : venc a = venc b -> a = b.
Proof.
  destruct a, b; cbn; intros H; try discriminate; inversion H; try reflexivity.
  - destruct b0, b; try discriminate; reflexivity.
  - f_equal. apply N2Z.inj. assumption.
  - f_equal. apply map_ZofN_inj. assumption.
  - f_equal. apply map_ZofN_inj. assumption.
Qed.

Lemma vcmp_eq a b : vcmp a b = Eq -> a = b.
Proof. unfold vcmp. intros H. apply venc_inj. apply lex_cmp_Z_eq. exact H. Qed.
Lemma vcmp_antisym a b : vcmp b a = CompOpp (vcmp a b).
Proof. unfold vcmp. apply lex_cmp_Z_antisym. Qed.
Lemma vcmp_trans a b c : vcmp a b = Lt -> vcmp b c = Lt -> vcmp a c = Lt.
Proof. unfold vcmp. apply lex_cmp_Z_trans. Qed.
Lemma vcmp_refl a : vcmp a a = Eq.
Proof.
  pose proof (vcmp_antisym a a) as H. destruct (vcmp a a); cbn in H; congruence.
Qed.

Ltac vcmp_cases a b :=
  let E := fresh "E" in
  pose proof (vcmp_antisym a b);
  destruct (vcmp a b) eqn:E; [apply vcmp_eq in E; subst | | ].

Lemma vmin2_comm a b : vmin2 a b = vmin2 b a.
Proof.
  unfold vmin2. pose proof (vcmp_antisym a b) as H.
  destruct (vcmp a b) eqn:E; rewrite H; cbn; try reflexivity. apply vcmp_eq in E. exact E.
Qed.
Lemma vmax2_comm a b : vmax2 a b = vmax2 b a.
Proof.
  unfold vmax2. pose proof (vcmp_antisym a b) as H.
  destruct (vcmp a b) eqn:E; rewrite H; cbn; try reflexivity. apply vcmp_eq in E. exact E.
Qed.

Lemma vcmp_gt_lt a b : vcmp a b = Gt <-> vcmp b a = Lt.
Proof. rewrite (vcmp_antisym a b). destruct (vcmp a b); cbn; split; congruence. Qed.

Ltac vcmp_contra :=
  exfalso;
  repeat match goal with H : vcmp ?x ?y = Gt |- _ => apply vcmp_gt_lt in H end;
  repeat match goal with
         | H1 : vcmp ?x ?y = Lt, H2 : vcmp ?y ?z = Lt |- _ =>
             lazymatch goal with
             | _ : vcmp x z = Lt |- _ => fail
             | _ => pose proof (vcmp_trans _ _ _ H1 H2)
             end
         end;
  match goal with H : vcmp ?x ?x = Lt |- _ => rewrite vcmp_refl in H; discriminate end.

Lemma vmin2_assoc a b c : vmin2 (vmin2 a b) c = vmin2 a (vmin2 b c).
Proof.
  unfold vmin2.
  destruct (vcmp a b) eqn:Eab; destruct (vcmp b c) eqn:Ebc; destruct (vcmp a c) eqn:Eac;
    repeat match goal with H : vcmp _ _ = Eq |- _ => apply vcmp_eq in H; subst end;
    rewrite ?vcmp_refl in *; try discriminate;
    rewrite ?Eab, ?Ebc, ?Eac; try reflexivity; try congruence; vcmp_contra.
Qed.

Lemma vmax2_assoc a b c : vmax2 (vmax2 a b) c = vmax2 a (vmax2 b c).
Proof.
  unfold vmax2.
  destruct (vcmp a b) eqn:Eab; destruct (vcmp b c) eqn:Ebc; destruct (vcmp a c) eqn:Eac;
    repeat match goal with H : vcmp _ _ = Eq |- _ => apply vcmp_eq in H; subst end;
    rewrite ?vcmp_refl in *; try discriminate;
    rewrite ?Eab, ?Ebc, ?Eac; try reflexivity; try congruence; vcmp_contra.
Qed.

(* folding an associative-commutative operation does not depend on the order of the list *)
Section ACFold.
Variable f : value -> value -> value.
Hypothesis f_comm : forall a b, f a b = f b a.
Hypothesis f_assoc : forall a b c, f (f a b) c = f a (f b c).

Definition ofold (o : option value) (v : value) : option value :=
  Some (match o with None => v | Some a => f a v end).

Lemma ofold_swap o x y : ofold (ofold o x) y = ofold (ofold o y) x.
Proof.
  destruct o as [a|]; unfold ofold; f_equal.
  - rewrite (f_assoc a x y), (f_assoc a y x), (f_comm x y). reflexivity.
  - apply f_comm.
Qed.

Lemma fold_ofold_perm l l' : Permutation l l' -> forall o, fold_left ofold l o = fold_left ofold l' o.
Proof.
  induction 1; intros o; cbn.
  - reflexivity.
  - apply IHPermutation.
  - rewrite ofold_swap. reflexivity.
  - rewrite IHPermutation1. apply IHPermutation2.
Qed.

Lemma vfold_ofold l :
  vfold f l = match fold_left ofold l None with Some v => v | None => VNull end.
Proof.
  assert (H : forall r a, fold_left ofold r (Some a) = Some (fold_left f r a)).
  { clear. induction r as [|y r IH]; intros a; [reflexivity|].
    cbn [fold_left]. change (ofold (Some a) y) with (Some (f a y)). apply IH. }
  destruct l as [|x r]; [reflexivity|].
  unfold vfold. cbn [fold_left]. change (ofold None x) with (Some x). rewrite H. reflexivity.
Qed.

Lemma vfold_perm l l' : Permutation l l' -> vfold f l = vfold f l'.
Proof. intros H. rewrite !vfold_ofold, (fold_ofold_perm l l' H None). reflexivity. Qed.
End ACFold.

Lemma agg_one_perm fn c g g' : Permutation g g' -> agg_one fn c g = agg_one fn c g'.
Proof.
  intros H. destruct fn; cbn.
  - rewrite (Permutation_length H). reflexivity.
  - do 2 f_equal. apply Permutation_length. apply dedup_tuples_perm. apply Permutation_map.
    apply colvals_perm. exact H.
  - do 2 f_equal. apply zsum_perm. apply Permutation_map. apply colvals_perm. exact H.
  - apply (vfold_perm vmin2 vmin2_comm vmin2_assoc). apply colvals_perm. exact H.
  - apply (vfold_perm vmax2 vmax2_comm vmax2_assoc). apply colvals_perm. exact H.
Qed.

Lemma den_agg_perm gb aggs L L' :
  Permutation L L' -> Permutation (den_agg gb aggs L) (den_agg gb aggs L').
Proof.
  intros H. unfold den_agg.
  eapply Permutation_trans.
  - apply Permutation_map. apply dedup_tuples_perm. apply Permutation_map. exact H.
  - match goal with |- Permutation (map ?F ?l) (map ?G ?l) => replace (map F l) with (map G l) end;
      [apply Permutation_refl|].
    apply map_ext. intros k. f_equal. apply map_ext. intros [fn c]. cbn.
    apply agg_one_perm. apply Permutation_filter. apply Permutation_sym. exact H.
Qed.
