(* Lemmas for C20 about Model/ConcSnap.v: after every schedule of any number of threads the
   published snapshot is the state after the whole apply log, and every completed read saw the
   state after a prefix of the final apply log that contains the reader's own acknowledged writes. *)
From IL Require Import Model.Conc Model.ConcSnap Proofs.Conc.
Open Scope N_scope.

Lemma state_after_snoc v0 a o : state_after v0 (a ++ [o]) = apply_op (state_after v0 a) o.
Proof. unfold state_after. rewrite fold_left_app. reflexivity. Qed.

Lemma ins_all_ext : forall ts rel fs, exists suf, ins_all rel ts fs = fs ++ suf.
Proof.
  induction ts as [|a ts IH]; intros rel fs.
  - exists []. cbn. now rewrite app_nil_r.
  - unfold ins_all. cbn [fold_left]. fold (ins_all rel ts).
    destruct (memf (rel, a) fs).
    + apply IH.
    + destruct (IH rel (fs ++ [(rel, a)])) as [suf E]. exists ((rel, a) :: suf).
      unfold ins_all in E. rewrite E, <- app_assoc. reflexivity.
Qed.

Lemma ins_all_length_ge rel ts fs : (length fs <= length (ins_all rel ts fs))%nat.
Proof. destruct (ins_all_ext ts rel fs) as [suf E]. rewrite E, app_length. lia. Qed.

Lemma ins_all_nochange rel ts fs :
  length (ins_all rel ts fs) = length fs -> ins_all rel ts fs = fs.
Proof.
  destruct (ins_all_ext ts rel fs) as [suf E]. rewrite E, app_length. intros H.
  destruct suf; cbn in H; [now rewrite app_nil_r | lia].
Qed.

Lemma filter_len_le {A} (p : A -> bool) : forall l, (length (filter p l) <= length l)%nat.
Proof. induction l as [|a l IH]; cbn; auto. destruct (p a); cbn; lia. Qed.

Lemma filter_length_eq {A} (p : A -> bool) : forall l, length (filter p l) = length l -> filter p l = l.
Proof.
  induction l as [|a l IH]; cbn; auto. destruct (p a); cbn; intros H.
  - f_equal. apply IH. lia.
  - pose proof (filter_len_le p l). lia.
Qed.

Lemma del_all_length_le rel ts fs : (length (del_all rel ts fs) <= length fs)%nat.
Proof. apply filter_len_le. Qed.

Lemma del_all_nochange rel ts fs :
  length (del_all rel ts fs) = length fs -> del_all rel ts fs = fs.
Proof. unfold del_all. apply filter_length_eq. Qed.

Lemma firstn_snoc_le {A} (k : nat) (l : list A) x :
  (k <= length l)%nat -> firstn k (l ++ [x]) = firstn k l.
Proof.
  intros H. rewrite firstn_app. replace (k - length l)%nat with O by lia.
  cbn. now rewrite app_nil_r.
Qed.

Section C20.
  Variable v0 : view.

  Definition ids (l : list sop) : list N := map sop_id l.

  Definition obs_ok (log : list sop) (o : obsv) : Prop :=
    (o_k o <= length log)%nat /\
    o_view o = state_after v0 (firstn (o_k o) log) /\
    incl (o_own o) (ids (firstn (o_k o) log)).

  Definition reading (l : l20) : Prop :=
    exists id rest, todo l = SRead id :: rest /\ pc l <> O.

  Definition loc_ok (log : list sop) (l : l20) : Prop :=
    incl (acked l) (ids log) /\
    (reading l ->
     (held_k l <= length log)%nat /\
     held l = state_after v0 (firstn (held_k l) log) /\
     incl (acked l) (ids (firstn (held_k l) log))).

  Definition Inv (ls : list l20) (g : g20) : Prop :=
    live g = state_after v0 (alog g) /\ snap g = live g /\
    Forall (obs_ok (alog g)) (gobs g) /\ Forall (loc_ok (alog g)) ls.

  Lemma obs_ok_mono log x o : obs_ok log o -> obs_ok (log ++ [x]) o.
  Proof.
    intros (Hk & Hv & Ho). unfold obs_ok. rewrite firstn_snoc_le by exact Hk.
    rewrite app_length. cbn. repeat split; auto. lia.
  Qed.

  Lemma loc_ok_mono log x l : loc_ok log l -> loc_ok (log ++ [x]) l.
  Proof.
    intros (Ha & Hr). split.
    - unfold ids. rewrite map_app. apply incl_appl. exact Ha.
    - intros R. destruct (Hr R) as (Hk & Hv & Ho).
      rewrite firstn_snoc_le by exact Hk. rewrite app_length. cbn. repeat split; auto. lia.
  Qed.

  Lemma Inv_init progs : Inv (map init_l progs) (init_g v0).
  Proof.
    unfold Inv, init_g. cbn. repeat split; auto.
    apply Forall_forall. intros l Hin. apply in_map_iff in Hin. destruct Hin as (p & <- & _).
    split; cbn.
    - intros x [].
    - intros (id & rest & _ & Hpc). cbn in Hpc. congruence.
  Qed.

  (* (A) a step that only moves the thread, keeps its acks and leaves it outside a read *)
  Lemma inv_local ls g t l' l :
    nth_error ls t = Some l -> Inv ls g ->
    incl (acked l') (acked l) -> ~ reading l' -> Inv (upd ls t l') g.
  Proof.
    intros Hn (Hl & Hs & Ho & Hf) Ha Hr. repeat split; auto.
    apply Forall_upd; auto.
    assert (Hlo : loc_ok (alog g) l).
    { rewrite Forall_forall in Hf. apply Hf. eapply nth_error_In; eauto. }
    destruct Hlo as (Hack & _). split.
    - intros x Hx. apply Hack, Ha, Hx.
    - intros R. contradiction.
  Qed.

  (* (B) the KG write section *)
  Lemma inv_write ls g t l l' o changed :
    nth_error ls t = Some l -> Inv ls g ->
    (changed = false -> apply_op (live g) o = live g) ->
    incl (acked l') (acked l ++ [sop_id o]) -> ~ reading l' ->
    Inv (upd ls t l') (write_section g o changed).
  Proof.
    intros Hn (Hl & Hs & Ho & Hf) Hc Ha Hr. unfold write_section, Inv. cbn [live snap alog gobs].
    assert (Hlo : loc_ok (alog g) l).
    { rewrite Forall_forall in Hf. apply Hf. eapply nth_error_In; eauto. }
    repeat split.
    - rewrite state_after_snoc, <- Hl. reflexivity.
    - destruct changed; auto. rewrite Hs. symmetry. apply Hc. reflexivity.
    - eapply Forall_impl; [|exact Ho]. intros a. apply obs_ok_mono.
    - apply Forall_upd.
      + eapply Forall_impl; [|exact Hf]. intros a. apply loc_ok_mono.
      + split; [|intros R; contradiction].
        intros x Hx. apply Ha in Hx. unfold ids. rewrite map_app. apply in_app_or in Hx.
        apply in_or_app. destruct Hx as [Hx|Hx]; [left; apply (proj1 Hlo), Hx | right; exact Hx].
  Qed.

  Lemma not_reading_pc0 l : pc l = O -> ~ reading l.
  Proof. intros H (id & rest & _ & Hp). congruence. Qed.

  Lemma step20_inv : forall ls g t l,
      nth_error ls t = Some l -> Inv ls g ->
      Inv (upd ls t (fst (step20 t l g))) (snd (step20 t l g)).
  Proof.
    intros ls g t l Hn HI. unfold step20.
    destruct (todo l) as [|o rest] eqn:T.
    { cbn. eapply inv_local; eauto. apply incl_refl.
      intros (id & r & Ht & _). congruence. }
    destruct o as [id r ts|id r ts|id r c|id r i|id r|id r|id r i c|id].
    3-7: (* rule catalog operations *)
      (destruct (pc l); cbn [fst snd];
       match goal with
       | |- context [rule_step ?cat ?op] => destruct (rule_step cat op) as [[cat' rr]|] eqn:RS
       end; cbn [fst snd];
       [ eapply inv_write; eauto;
         [intros; discriminate | cbn; apply incl_refl | apply not_reading_pc0; reflexivity]
       | eapply inv_local; eauto; [cbn; apply incl_refl | apply not_reading_pc0; reflexivity]
       | eapply inv_write; eauto;
         [intros; discriminate | cbn; apply incl_refl | apply not_reading_pc0; reflexivity]
       | eapply inv_local; eauto; [cbn; apply incl_refl | apply not_reading_pc0; reflexivity] ]).
    - (* insert *)
      destruct (pc l) as [|[|n]] eqn:P.
      + destruct (existsb (N.eqb r) (map fst (vrules (live g)))); cbn [fst snd].
        * eapply inv_local; eauto. cbn. apply incl_refl. apply not_reading_pc0. reflexivity.
        * eapply inv_local; eauto. cbn. apply incl_refl.
          intros (i & rr & Ht & _). cbn in Ht. rewrite T in Ht. discriminate.
      + cbn [fst snd]. eapply inv_local; eauto. cbn. apply incl_refl.
        intros (i & rr & Ht & _). cbn in Ht. rewrite T in Ht. discriminate.
      + cbn [fst snd]. eapply inv_write; eauto.
        * intros Hc. apply negb_false_iff, N.eqb_eq in Hc.
          assert (E : length (ins_all r ts (vfacts (live g))) = length (vfacts (live g))).
          { pose proof (ins_all_length_ge r ts (vfacts (live g))). lia. }
          cbn [apply_op]. rewrite (ins_all_nochange _ _ _ E). destruct (live g); reflexivity.
        * cbn. apply incl_refl.
        * apply not_reading_pc0. reflexivity.
    - (* delete *)
      destruct (pc l) as [|n] eqn:P.
      + cbn [fst snd]. eapply inv_local; eauto. cbn. apply incl_refl.
        intros (i & rr & Ht & _). cbn in Ht. rewrite T in Ht. discriminate.
      + cbn [fst snd]. eapply inv_write; eauto.
        * intros Hc. apply negb_false_iff, N.eqb_eq in Hc.
          assert (E : length (del_all r ts (vfacts (live g))) = length (vfacts (live g))).
          { pose proof (del_all_length_le r ts (vfacts (live g))). lia. }
          cbn [apply_op]. rewrite (del_all_nochange _ _ _ E). destruct (live g); reflexivity.
        * cbn. apply incl_refl.
        * apply not_reading_pc0. reflexivity.
    - (* read *)
      destruct HI as (Hl & Hs & Ho & Hf).
      assert (Hlo : loc_ok (alog g) l).
      { rewrite Forall_forall in Hf. apply Hf. eapply nth_error_In; eauto. }
      destruct (pc l) as [|n] eqn:P; cbn [fst snd].
      + (* load the snapshot pointer *)
        repeat split; auto. apply Forall_upd; auto. split; cbn.
        * apply (proj1 Hlo).
        * intros _. rewrite firstn_all. repeat split; auto.
          -- rewrite Hs. exact Hl.
          -- apply (proj1 Hlo).
      + (* read out of the held snapshot *)
        unfold Inv. cbn. repeat split; auto.
        * apply Forall_app. split; auto. constructor; auto.
          destruct Hlo as (_ & Hr). unfold obs_ok. cbn. apply Hr.
          exists id, rest. split; auto. congruence.
        * apply Forall_upd; auto. split; cbn.
          -- apply (proj1 Hlo).
          -- intros (i & rr & _ & Hp). cbn in Hp. congruence.
  Qed.

  Theorem inv_after_any_schedule : forall progs sched,
      let r := run_sched step20 sched (map init_l progs) (init_g v0) in
      Inv (fst r) (snd r).
  Proof.
    intros progs sched. cbn zeta. apply run_sched_inv.
    - intros. apply step20_inv; auto.
    - apply Inv_init.
  Qed.

  Theorem snapshot_is_committed : forall progs sched,
      let g := snd (run_sched step20 sched (map init_l progs) (init_g v0)) in
      snap g = state_after v0 (alog g) /\ live g = state_after v0 (alog g).
  Proof.
    intros progs sched. cbn zeta.
    destruct (inv_after_any_schedule progs sched) as (Hl & Hs & _). split; congruence.
  Qed.

  Theorem reads_see_prefix : forall progs sched o,
      let g := snd (run_sched step20 sched (map init_l progs) (init_g v0)) in
      In o (gobs g) ->
      exists k, (k <= length (alog g))%nat /\
                o_view o = state_after v0 (firstn k (alog g)) /\
                incl (o_own o) (map sop_id (firstn k (alog g))).
  Proof.
    intros progs sched o. cbn zeta. intros Hin.
    destruct (inv_after_any_schedule progs sched) as (_ & _ & Ho & _).
    rewrite Forall_forall in Ho. destruct (Ho o Hin) as (Hk & Hv & Hown).
    exists (o_k o). auto.
  Qed.
End C20.

(* ---- the apply log consists of whole operations of the programs, and the `own` list of a read
   is exactly what the reading client had been acknowledged (ghost fields are what they claim) *)
Definition from_progs (progs : list (list sop)) (o : sop) : Prop := exists p, In p progs /\ In o p.

Definition WfL (progs : list (list sop)) (ls : list l20) : Prop :=
  Forall (fun l => forall o, In o (todo l) -> from_progs progs o) ls.

Lemma log_ops_from_programs : forall v0 progs sched o,
    In o (alog (snd (run_sched step20 sched (map init_l progs) (init_g v0)))) ->
    from_progs progs o.
Proof.
  intros v0 progs sched.
  pose (I := fun (ls : list l20) (g : g20) =>
               WfL progs ls /\ forall o, In o (alog g) -> from_progs progs o).
  assert (H : I (fst (run_sched step20 sched (map init_l progs) (init_g v0)))
                (snd (run_sched step20 sched (map init_l progs) (init_g v0)))).
  { apply run_sched_inv.
    - intros ls g t l Hn (Hw & Hlog).
      assert (Hl : forall o, In o (todo l) -> from_progs progs o).
      { unfold WfL in Hw. rewrite Forall_forall in Hw. apply Hw. eapply nth_error_In; eauto. }
      unfold step20. destruct (todo l) as [|o rest] eqn:T.
      { cbn. split; auto. apply Forall_upd; auto. rewrite T. intros ? []. }
      assert (Hrest : forall o', In o' rest -> from_progs progs o').
      { intros o' Hi. apply Hl. right. exact Hi. }
      assert (Ho : from_progs progs o) by (apply Hl; left; reflexivity).
      assert (Hlog' : forall o', In o' (alog g ++ [o]) -> from_progs progs o').
      { intros o' Hi. apply in_app_or in Hi. destruct Hi as [Hi|[<-|[]]]; auto. }
      assert (Hsame : forall o', In o' (o :: rest) -> from_progs progs o').
      { intros o' [<-|Hi]; auto. }
      destruct o as [id r ts|id r ts|id r c|id r i|id r|id r|id r i c|id]; destruct (pc l) as [|[|n]];
        try destruct (existsb (N.eqb r) (map fst (vrules (live g))));
        try match goal with
            | |- context [rule_step ?cat ?op] => destruct (rule_step cat op) as [[? ?]|]
            end;
        cbn [fst snd write_section alog todo finish advance];
        (split; [apply Forall_upd; auto; cbn; try rewrite T; auto | auto]).
    - split.
      + unfold WfL. apply Forall_forall. intros l Hin. apply in_map_iff in Hin.
        destruct Hin as (p & <- & Hp). cbn. intros o Ho. exists p. auto.
      + cbn. intros ? []. }
  intros o. apply (proj2 H).
Qed.
