(* Generic facts about comparison functions: order laws relative to a predicate, transfer along an
   injective key, lexicographic lifting to lists.  Used by Proofs/ValueOrd.v (C31) and Proofs/WireSort.v (C35). *)
From IL Require Import Model.Value.
From Coq Require Import Lia.

Section Laws.
  Context {A : Type}.

  (* total order on the elements satisfying P: compare-equal is equality, antisymmetric, transitive *)
  Definition laws_on (P : A -> Prop) (cmp : A -> A -> comparison) : Prop :=
    (forall a b, P a -> P b -> (cmp a b = Eq <-> a = b)) /\
    (forall a b, P a -> P b -> cmp a b = CompOpp (cmp b a)) /\
    (forall a b c, P a -> P b -> P c -> cmp a b = Lt -> cmp b c = Lt -> cmp a c = Lt).

  (* total preorder: like laws_on but compare-equal is only an equivalence *)
  Definition preorder_on (P : A -> Prop) (cmp : A -> A -> comparison) : Prop :=
    (forall a b, P a -> P b -> cmp a b = CompOpp (cmp b a)) /\
    (forall a b c, P a -> P b -> P c -> cmp a b <> Gt -> cmp b c <> Gt -> cmp a c <> Gt).

  Lemma laws_refl P cmp : laws_on P cmp -> forall a, P a -> cmp a a = Eq.
  Proof. intros [H _] a Pa. apply H; auto. Qed.

  Lemma laws_le_trans P cmp : laws_on P cmp ->
    forall a b c, P a -> P b -> P c -> cmp a b <> Gt -> cmp b c <> Gt -> cmp a c <> Gt.
  Proof.
    intros [He [Ha Ht]] a b c Pa Pb Pc H1 H2.
    destruct (cmp a b) eqn:E1; [| |congruence].
    - apply He in E1; auto. subst. exact H2.
    - destruct (cmp b c) eqn:E2; [| |congruence].
      + apply He in E2; auto. subst. rewrite E1. discriminate.
      + rewrite (Ht a b c) by auto. discriminate.
  Qed.

  Lemma laws_preorder P cmp : laws_on P cmp -> preorder_on P cmp.
  Proof. intros H. split; [apply H | apply laws_le_trans; exact H]. Qed.

  Lemma preorder_refl P cmp : preorder_on P cmp -> forall a, P a -> cmp a a = Eq.
  Proof. intros [Ha _] a Pa. specialize (Ha a a Pa Pa). destruct (cmp a a); cbn in Ha; congruence. Qed.

End Laws.

Lemma lex_laws {A} (P : A -> Prop) cmp : laws_on P cmp -> laws_on (Forall P) (lex_cmp cmp).
Proof.
  intros [He [Ha Ht]]. split; [|split].
  - intros a; induction a as [|x a IH]; intros [|y b] Fa Fb; cbn; try (split; congruence).
    inversion Fa; inversion Fb; subst.
    destruct (cmp x y) eqn:E.
    + apply He in E; auto. subst. rewrite IH; auto. split; [congruence | intros H; inversion H; auto].
    + split; [discriminate|]. intros H; inversion H; subst.
      assert (cmp y y = Eq) by (apply He; auto). congruence.
    + split; [discriminate|]. intros H; inversion H; subst.
      assert (cmp y y = Eq) by (apply He; auto). congruence.
  - intros a; induction a as [|x a IH]; intros [|y b] Fa Fb; cbn; auto.
    inversion Fa; inversion Fb; subst.
    rewrite (Ha x y) by auto. destruct (cmp y x); cbn; auto.
  - intros a; induction a as [|x a IH]; intros [|y b] [|z c] Fa Fb Fc; cbn; try congruence.
    inversion Fa; inversion Fb; inversion Fc; subst.
    destruct (cmp x y) eqn:E1; destruct (cmp y z) eqn:E2; try congruence.
    + apply He in E1; auto. apply He in E2; auto. subst.
      assert (cmp z z = Eq) as -> by (apply He; auto). apply IH; auto.
    + apply He in E1; auto. subst. rewrite E2. auto.
    + apply He in E2; auto. subst. rewrite E1. auto.
    + rewrite (Ht x y z); auto.
Qed.

(* transfer along a key *)
Lemma key_laws {A K} (P : A -> Prop) (Q : K -> Prop) (key : A -> K) cmpK cmp :
  laws_on Q cmpK ->
  (forall a, P a -> Q (key a)) ->
  (forall a b, P a -> P b -> key a = key b -> a = b) ->
  (forall a b, P a -> P b -> cmp a b = cmpK (key a) (key b)) ->
  laws_on P cmp.
Proof.
  intros [He [Ha Ht]] HQ Hinj Hc. split; [|split].
  - intros a b Pa Pb. rewrite Hc, He; auto. split; [apply Hinj; auto | congruence].
  - intros a b Pa Pb. rewrite !Hc; auto.
  - intros a b c Pa Pb Pc. rewrite !Hc; auto. apply Ht; auto.
Qed.

Lemma key_preorder {A K} (P : A -> Prop) (Q : K -> Prop) (key : A -> K) cmpK cmp :
  preorder_on Q cmpK ->
  (forall a, P a -> Q (key a)) ->
  (forall a b, P a -> P b -> cmp a b = cmpK (key a) (key b)) ->
  preorder_on P cmp.
Proof.
  intros [Ha Ht] HQ Hc. split.
  - intros a b Pa Pb. rewrite !Hc; auto.
  - intros a b c Pa Pb Pc. rewrite !Hc; auto. apply Ht; auto.
Qed.

Definition any {A} (_ : A) : Prop := True.

Lemma Z_laws : laws_on any Z.compare.
Proof.
  split; [|split].
  - intros a b _ _. apply Z.compare_eq_iff.
  - intros a b _ _. apply Z.compare_antisym.
  - intros a b c _ _ _. rewrite !Z.compare_lt_iff. lia.
Qed.

Lemma Forall_any {A} (l : list A) : Forall any l.
Proof. induction l; constructor; unfold any; auto. Qed.

Lemma listZ_laws : laws_on any (lex_cmp Z.compare).
Proof.
  destruct (lex_laws any Z.compare Z_laws) as [He [Ha Ht]].
  split; [|split]; intros; [apply He | apply Ha | eapply Ht]; eauto using Forall_any.
Qed.

Lemma lex_cmp_map {A B} (f : A -> B) cmpA cmpB :
  (forall x y, cmpA x y = cmpB (f x) (f y)) ->
  forall a b, lex_cmp cmpA a b = lex_cmp cmpB (map f a) (map f b).
Proof.
  intros H a; induction a as [|x a IH]; intros [|y b]; cbn; auto.
  rewrite <- H. destruct (cmpA x y); auto.
Qed.
