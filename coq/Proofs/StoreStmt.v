(* Every write statement of Model/StoreStmt.v meets its set specification (`spec_after`):
   contents afterwards and reported counts, for every reachable state. *)
From IL Require Import Model.Value Proofs.ValueEq Model.Store Proofs.Store Model.StoreStmt.
Open Scope N_scope.

(* ---------------------------------------------------------------- engine steps, unfolded *)

Lemma step_ins_ok s ts s' n d :
  step_ins s ts = (s', RIns n d) ->
  live s' = fst (ins_mem (live s) ts) /\ (n, d) = snd (ins_mem (live s) ts).
Proof.
  unfold step_ins. destruct ts as [|x r]; [intros [= <- <- <-]; cbn; auto|].
  set (ts := x :: r). destruct (negb (uniform_arity (arity_of_first ts) ts)); [discriminate|].
  destruct (match rel_arity s with Some a' => negb (Nat.eqb a' (arity_of_first ts)) | None => false end); [discriminate|].
  destruct (ins_mem (live s) ts) as [l' [n' d']]. intros [= <- <- <-]. cbn. auto.
Qed.

Lemma step_ins_err s ts s' : step_ins s ts = (s', RErr) -> s' = s.
Proof.
  unfold step_ins. destruct ts as [|x r]; [discriminate|].
  set (ts := x :: r). destruct (negb (uniform_arity (arity_of_first ts) ts)); [congruence|].
  destruct (match rel_arity s with Some a' => negb (Nat.eqb a' (arity_of_first ts)) | None => false end); [congruence|].
  destruct (ins_mem (live s) ts) as [l' [n' d']]. discriminate.
Qed.

Lemma step_ins_shape s ts : (exists n d, snd (step_ins s ts) = RIns n d) \/ snd (step_ins s ts) = RErr.
Proof.
  unfold step_ins. destruct ts as [|x r]; [left; exists 0, 0; reflexivity|].
  set (ts := x :: r). destruct (negb (uniform_arity (arity_of_first ts) ts)); [right; reflexivity|].
  destruct (match rel_arity s with Some a' => negb (Nat.eqb a' (arity_of_first ts)) | None => false end); [right; reflexivity|].
  destruct (ins_mem (live s) ts) as [l' [n' d']]. left. exists n', d'. reflexivity.
Qed.

Lemma filter_true {A} (l : list A) : filter (fun _ => true) l = l.
Proof. induction l as [|x l IH]; cbn; [reflexivity | rewrite IH; reflexivity]. Qed.

Lemma step_del_ok s ts s' n :
  step_del s ts = (s', RDel n) ->
  live s' = fst (del_mem (live s) ts) /\ n = snd (del_mem (live s) ts).
Proof.
  unfold step_del. destruct ts as [|x r].
  - intros [= <- <-]. unfold del_mem. cbn [fst snd mem_tuple existsb negb]. rewrite filter_true. split; [reflexivity | lia].
  - set (ts := x :: r). destruct (negb (uniform_arity (arity_of_first ts) ts)); [discriminate|].
    destruct (match rel_arity s with Some a' => negb (Nat.eqb a' (arity_of_first ts)) | None => false end); [discriminate|].
    destruct (del_mem (live s) ts) as [l' n']. intros [= <- <-]. cbn. auto.
Qed.

Lemma step_del_err s ts s' : step_del s ts = (s', RErr) -> s' = s.
Proof.
  unfold step_del. destruct ts as [|x r]; [discriminate|].
  set (ts := x :: r). destruct (negb (uniform_arity (arity_of_first ts) ts)); [congruence|].
  destruct (match rel_arity s with Some a' => negb (Nat.eqb a' (arity_of_first ts)) | None => false end); [congruence|].
  destruct (del_mem (live s) ts) as [l' n']. discriminate.
Qed.

Lemma step_del_shape s ts : (exists n, snd (step_del s ts) = RDel n) \/ snd (step_del s ts) = RErr.
Proof.
  unfold step_del. destruct ts as [|x r]; [left; exists 0; reflexivity|].
  set (ts := x :: r). destruct (negb (uniform_arity (arity_of_first ts) ts)); [right; reflexivity|].
  destruct (match rel_arity s with Some a' => negb (Nat.eqb a' (arity_of_first ts)) | None => false end); [right; reflexivity|].
  destruct (del_mem (live s) ts) as [l' n']. left. exists n'. reflexivity.
Qed.

(* ---------------------------------------------------------------- counting *)

Lemma filter_length_split {A} (f : A -> bool) (l : list A) :
  length l = (length (filter f l) + length (filter (fun x => negb (f x)) l))%nat.
Proof. induction l as [|x l IH]; cbn; [reflexivity|]. destruct (f x); cbn; lia. Qed.

Lemma del_mem_count s ts : snd (del_mem s ts) = count_b (fun u => mem_tuple u ts) s.
Proof.
  unfold del_mem, count_b. cbn [snd]. f_equal.
  pose proof (filter_length_split (fun u => mem_tuple u ts) s). lia.
Qed.

Lemma filter_notin_snoc_absent s x l :
  ~ In x l ->
  filter (fun t => negb (mem_tuple t (s ++ [x]))) l = filter (fun t => negb (mem_tuple t s)) l.
Proof.
  intros H. apply filter_ext_in. intros t Ht. f_equal.
  apply eq_true_iff_eq. rewrite !mem_tuple_In, in_app_iff. cbn. split; [|tauto].
  intros [?|[->|[]]]; [assumption | contradiction].
Qed.

Lemma filter_notin_snoc_present s x l :
  NoDup l -> In x l -> ~ In x s ->
  length (filter (fun t => negb (mem_tuple t s)) l)
  = S (length (filter (fun t => negb (mem_tuple t (s ++ [x]))) l)).
Proof.
  induction l as [|y l IH]; intros ND Hx Hs; [destruct Hx|].
  inversion ND as [|? ? Hy ND']; subst. cbn [filter]. destruct Hx as [->|Hx].
  - assert (mem_tuple x s = false) as -> by (destruct (mem_tuple x s) eqn:M; [apply mem_tuple_In in M; contradiction | reflexivity]).
    assert (mem_tuple x (s ++ [x]) = true) as -> by (apply mem_tuple_In, in_app_iff; cbn; auto).
    cbn [negb length]. rewrite (filter_notin_snoc_absent s x l Hy). reflexivity.
  - assert (y <> x) by (intros ->; contradiction).
    assert (mem_tuple y (s ++ [x]) = mem_tuple y s) as ->.
    { apply eq_true_iff_eq. rewrite !mem_tuple_In, in_app_iff. cbn. split; [|tauto]. intros [?|[E|[]]]; [assumption | congruence]. }
    destruct (mem_tuple y s); cbn [negb length]; rewrite (IH ND' Hx Hs); reflexivity.
Qed.

(* insert report: `new` = number of distinct batch tuples that were absent; new + dup = batch size *)
Lemma ins_mem_count s ts :
  fst (snd (ins_mem s ts)) = N.of_nat (length (filter (fun t => negb (mem_tuple t s)) (dedup_tuples ts))).
Proof.
  revert s; induction ts as [|x r IH]; intros s; [reflexivity|]. cbn [ins_mem dedup_tuples].
  destruct (mem_tuple x s) eqn:M.
  - specialize (IH s). destruct (ins_mem s r) as [s' [n d]]. cbn [fst snd] in *. rewrite IH.
    destruct (mem_tuple x r); [reflexivity|]. cbn [filter]. rewrite M. reflexivity.
  - specialize (IH (s ++ [x])). destruct (ins_mem (s ++ [x]) r) as [s' [n d]]. cbn [fst snd] in *. rewrite IH.
    assert (Hs : ~ In x s) by (intros H; apply mem_tuple_In in H; congruence).
    destruct (mem_tuple x r) eqn:R.
    + apply mem_tuple_In in R. apply (proj2 (dedup_tuples_In x r)) in R.
      rewrite (filter_notin_snoc_present s x _ (dedup_tuples_NoDup r) R Hs). lia.
    + cbn [filter]. rewrite M. cbn [negb length]. rewrite filter_notin_snoc_absent; [lia|].
      intros H. apply (proj1 (dedup_tuples_In _ _)) in H. apply (proj2 (mem_tuple_In _ _)) in H. congruence.
Qed.

Lemma ins_mem_total s ts :
  (fst (snd (ins_mem s ts)) + snd (snd (ins_mem s ts)) = N.of_nat (length ts)).
Proof.
  revert s; induction ts as [|x r IH]; intros s; [reflexivity|]. cbn [ins_mem].
  destruct (mem_tuple x s).
  - specialize (IH s). destruct (ins_mem s r) as [s' [n d]]. cbn [fst snd length] in *. lia.
  - specialize (IH (s ++ [x])). destruct (ins_mem (s ++ [x]) r) as [s' [n d]]. cbn [fst snd length] in *. lia.
Qed.

(* ---------------------------------------------------------------- sequences of single operations *)

Lemma filter_false' {A} (l : list A) : filter (fun _ => false) l = [].
Proof. induction l as [|x l IH]; cbn; [reflexivity | exact IH]. Qed.

Lemma filter_filter' {A} (f g : A -> bool) (l : list A) :
  filter f (filter g l) = filter (fun x => g x && f x) l.
Proof.
  induction l as [|x l IH]; cbn; [reflexivity|]. destruct (g x); cbn; [|exact IH].
  destruct (f x); [rewrite IH|]; auto.
Qed.

Lemma mem_tuple_cons u d r : mem_tuple u (d :: r) = tuple_eqb u d || mem_tuple u r.
Proof. reflexivity. Qed.

Lemma count_split d r (l : list tuple) :
  (length (filter (fun u => mem_tuple u [d]) l)
   + length (filter (fun x => negb (mem_tuple x [d]) && mem_tuple x r) l))%nat
  = length (filter (fun u => mem_tuple u (d :: r)) l).
Proof.
  assert (H : forall u, mem_tuple u (d :: r) = mem_tuple u [d] || mem_tuple u r).
  { intros u. unfold mem_tuple. cbn [existsb]. rewrite orb_false_r. reflexivity. }
  induction l as [|u l IHl]; [reflexivity|]. cbn [filter]. rewrite H.
  destruct (mem_tuple u [d]), (mem_tuple u r); cbn [negb andb orb length]; lia.
Qed.

Lemma del_each_ok ds : forall s s' n,
  del_each s ds = (s', Some n) ->
  live s' = filter (fun u => negb (mem_tuple u ds)) (live s) /\ n = count_b (fun u => mem_tuple u ds) (live s).
Proof.
  induction ds as [|d r IH]; intros s s' n; cbn [del_each].
  - intros [= <- <-]. cbn [mem_tuple existsb negb]. rewrite filter_true. unfold count_b. cbn. rewrite filter_false'. split; reflexivity.
  - destruct (step_del s [d]) as [s1 rep] eqn:E1. destruct rep; try discriminate.
    destruct (del_each s1 r) as [s2 m] eqn:E2. destruct m as [m|]; cbn [option_map]; [|discriminate].
    intros [= <- <-]. apply step_del_ok in E1. destruct E1 as [L1 N1]. destruct (IH _ _ _ E2) as [L2 N2].
    rewrite del_mem_count in N1. unfold del_mem in L1. cbn [fst] in L1. split.
    + rewrite L2, L1. rewrite filter_filter'. apply filter_ext. intros u. unfold mem_tuple. cbn [existsb].
      rewrite orb_false_r. destruct (tuple_eqb u d), (existsb (tuple_eqb u) r); reflexivity.
    + rewrite N1, N2, L1. unfold count_b. rewrite filter_filter'.
      rewrite <- Nat2N.inj_add. f_equal.
      apply count_split.
Qed.

(* inserting the tuples one operation at a time = inserting them as one batch *)
Lemma ins_each_ok is : forall s s' n,
  ins_each s is = (s', Some n) ->
  live s' = fst (ins_mem (live s) is) /\ n = fst (snd (ins_mem (live s) is)).
Proof.
  induction is as [|i r IH]; intros s s' n; cbn [ins_each].
  - intros [= <- <-]. cbn. auto.
  - destruct (step_ins s [i]) as [s1 rep] eqn:E1. destruct rep; try discriminate.
    destruct (ins_each s1 r) as [s2 m] eqn:E2. destruct m as [m|]; cbn [option_map]; [|discriminate].
    intros [= <- <-]. apply step_ins_ok in E1. destruct E1 as [L1 N1]. destruct (IH _ _ _ E2) as [L2 N2].
    cbn [ins_mem] in *. destruct (mem_tuple i (live s)).
    + cbn [fst snd] in L1, N1. injection N1 as -> ->. rewrite L1 in L2, N2.
      destruct (ins_mem (live s) r) as [l' [a b]]. cbn [fst snd] in *. split; [exact L2 | lia].
    + cbn [fst snd] in L1, N1. injection N1 as -> ->. rewrite L1 in L2, N2.
      destruct (ins_mem (live s ++ [i]) r) as [l' [a b]]. cbn [fst snd] in *. split; [exact L2 | lia].
Qed.

(* ---------------------------------------------------------------- patterns *)

Definition extends (b0 b : binding) : Prop :=
  (forall x, fst b0 = Some x -> fst b = Some x) /\ (forall y, snd b0 = Some y -> snd b = Some y).

Lemma unify_inst pat : forall t b0 b,
  unify pat t b0 = Some b -> inst pat b = Some t /\ extends b0 b.
Proof.
  induction pat as [|a pr IH]; intros t b0 b; destruct t as [|v tr]; cbn [unify]; try discriminate.
  - intros [= <-]. split; [reflexivity | split; auto].
  - destruct a; discriminate.
  - destruct a as [| |c].
    + destruct (fst b0) as [x|] eqn:F.
      * destruct (value_eqb x v) eqn:E; [|discriminate]. apply value_eqb_spec in E. subst x.
        intros U. destruct (IH _ _ _ U) as [I [Ex Ey]]. split; [|split; assumption].
        cbn [inst]. rewrite (Ex v F), I. reflexivity.
      * intros U. destruct (IH _ _ _ U) as [I [Ex Ey]]. cbn [fst snd] in *. split.
        -- cbn [inst]. rewrite (Ex v eq_refl), I. reflexivity.
        -- split; [intros x H; congruence | exact Ey].
    + destruct (snd b0) as [y|] eqn:F.
      * destruct (value_eqb y v) eqn:E; [|discriminate]. apply value_eqb_spec in E. subst y.
        intros U. destruct (IH _ _ _ U) as [I [Ex Ey]]. split; [|split; assumption].
        cbn [inst]. rewrite (Ey v F), I. reflexivity.
      * intros U. destruct (IH _ _ _ U) as [I [Ex Ey]]. cbn [fst snd] in *. split.
        -- cbn [inst]. rewrite (Ey v eq_refl), I. reflexivity.
        -- split; [exact Ex | intros y H; congruence].
    + destruct (value_eqb c v) eqn:E; [|discriminate]. apply value_eqb_spec in E. subst c.
      intros U. destruct (IH _ _ _ U) as [I Ex]. split; [|exact Ex]. cbn [inst]. rewrite I. reflexivity.
Qed.

(* the tuples a conditional delete instantiates are exactly the stored tuples that satisfy it *)
Lemma insts_matches pat c l : insts pat (matches pat c l) = filter (sat pat c) l.
Proof.
  unfold insts, matches, sat. induction l as [|t l IH]; [reflexivity|]. cbn [flat_map filter].
  rewrite flat_map_app, IH. destruct (unify pat t (None, None)) as [b|] eqn:U; [|reflexivity].
  destruct (eval_cond c b); [|reflexivity]. cbn [flat_map].
  rewrite (proj1 (unify_inst _ _ _ _ U)). reflexivity.
Qed.

Lemma filter_mem_filter (f : tuple -> bool) l :
  filter (fun u => negb (mem_tuple u (filter f l))) l = filter (fun u => negb (f u)) l
  /\ filter (fun u => mem_tuple u (filter f l)) l = filter f l.
Proof.
  assert (H : forall u, In u l -> mem_tuple u (filter f l) = f u).
  { intros u Hu. apply eq_true_iff_eq. rewrite mem_tuple_In, filter_In. tauto. }
  split; apply filter_ext_in; intros u Hu; rewrite (H u Hu); reflexivity.
Qed.

(* ---------------------------------------------------------------- statements meet the specification *)

Definition same_set (a b : list tuple) : Prop := forall t, In t a <-> In t b.

Lemma ins_spec_set s ts :
  same_set (fst (ins_mem s ts)) (s ++ filter (fun t => negb (mem_tuple t s)) (dedup_tuples ts)).
Proof.
  intros t. rewrite ins_mem_In, in_app_iff, filter_In, dedup_tuples_In, negb_true_iff. split.
  - intros [H|H]; [auto|]. destruct (mem_tuple t s) eqn:M; [left; apply mem_tuple_In; exact M | auto].
  - tauto.
Qed.

Theorem exec_meets_spec s q s' rep :
  NoDup (live s) -> exec s q = (s', rep) -> rep <> SRErr ->
  same_set (live s') (fst (spec_after (live s) q)) /\ rep = snd (spec_after (live s) q) /\ NoDup (live s').
Proof.
  intros ND E NE. destruct q as [ts|t|ts|head c|dt it c]; cbn [exec spec_after fst snd] in *.
  - (* insert *)
    destruct (step_ins s ts) as [s1 r1] eqn:E1. destruct r1; inversion E; subst; try congruence.
    apply step_ins_ok in E1. destruct E1 as [L N]. rewrite L. split; [apply ins_spec_set|]. split.
    + f_equal. rewrite <- ins_mem_count. rewrite <- N. reflexivity.
    + apply ins_mem_NoDup, ND.
  - (* single delete *)
    destruct (step_del s [t]) as [s1 r1] eqn:E1. destruct r1; inversion E; subst; try congruence.
    apply step_del_ok in E1. destruct E1 as [L N]. rewrite del_mem_count in N. unfold del_mem in L. cbn [fst] in L.
    assert (H : forall u, mem_tuple u [t] = tuple_eqb u t) by (intros u; unfold mem_tuple; cbn; apply orb_false_r).
    split; [|split].
    + intros u. rewrite L. rewrite (filter_ext _ _ (fun u => f_equal negb (H u))). tauto.
    + rewrite N. unfold count_b. rewrite (filter_ext _ _ H). reflexivity.
    + rewrite L. apply NoDup_filter, ND.
  - (* bulk delete *)
    destruct (del_each s ts) as [s1 [n|]] eqn:E1; inversion E; subst; try congruence.
    apply del_each_ok in E1. destruct E1 as [L N]. split; [|split].
    + intros u. rewrite L. tauto.
    + rewrite N. reflexivity.
    + rewrite L. apply NoDup_filter, ND.
  - (* conditional delete *)
    destruct (negb (cond_vars_bound c head)); [inversion E; subst; congruence|].
    destruct (del_each s _) as [s1 [n|]] eqn:E1; inversion E; subst; try congruence.
    apply del_each_ok in E1. destruct E1 as [L N]. rewrite insts_matches in L, N.
    destruct (filter_mem_filter (sat head c) (live s)) as [F1 F2]. split; [|split].
    + intros u. rewrite L, F1. tauto.
    + rewrite N. unfold count_b. rewrite F2. reflexivity.
    + rewrite L. apply NoDup_filter, ND.
  - (* update *)
    set (bs := matches [AX; AY] c (live s)) in *.
    destruct (del_each s (insts dt bs)) as [s1 [d|]] eqn:E1; [|inversion E; subst; congruence].
    destruct (ins_each s1 (insts it bs)) as [s2 [i|]] eqn:E2; inversion E; subst; try congruence.
    apply del_each_ok in E1. destruct E1 as [L1 N1]. apply ins_each_ok in E2. destruct E2 as [L2 N2].
    rewrite L1 in L2, N2. split; [|split].
    + rewrite L2. apply ins_spec_set.
    + rewrite N1, N2, ins_mem_count. reflexivity.
    + rewrite L2. apply ins_mem_NoDup, NoDup_filter, ND.
Qed.

(* a statement that is rejected before touching the engine leaves the relation alone *)
Lemma exec_err_single s q s' :
  exec s q = (s', SRErr) ->
  match q with SIns _ | SDel _ => s' = s | _ => True end.
Proof.
  destruct q; cbn [exec]; auto.
  - destruct (step_ins s ts) as [s1 r1] eqn:E1. destruct r1; intros [= <-]; try discriminate.
    + destruct (step_ins_shape s ts) as [[n' [d H]]|H]; rewrite E1 in H; discriminate.
    + apply step_ins_err in E1. exact E1.
    + destruct (step_ins_shape s ts) as [[n [d H]]|H]; rewrite E1 in H; discriminate.
  - destruct (step_del s [t]) as [s1 r1] eqn:E1. destruct r1; intros [= <-]; try discriminate.
    + destruct (step_del_shape s [t]) as [[n' H]|H]; rewrite E1 in H; discriminate.
    + apply step_del_err in E1. exact E1.
    + destruct (step_del_shape s [t]) as [[n H]|H]; rewrite E1 in H; discriminate.
Qed.

(* ---------------------------------------------------------------- histories *)

Definition run_stmts (s : st) (h : list stmt) : st := fold_left (fun s q => fst (exec s q)) h s.

Lemma del_each_Inv ds : forall s, Inv s -> Inv (fst (del_each s ds)).
Proof.
  induction ds as [|d r IH]; intros s I; cbn [del_each]; [exact I|].
  pose proof (step_del_Inv s [d] I) as I1. destruct (step_del s [d]) as [s1 rep]. cbn [fst] in I1.
  destruct rep; try exact I1. specialize (IH s1 I1). destruct (del_each s1 r) as [s2 m]. exact IH.
Qed.

Lemma ins_each_Inv is : forall s, Inv s -> Inv (fst (ins_each s is)).
Proof.
  induction is as [|i r IH]; intros s I; cbn [ins_each]; [exact I|].
  pose proof (step_ins_Inv s [i] I) as I1. destruct (step_ins s [i]) as [s1 rep]. cbn [fst] in I1.
  destruct rep; try exact I1. specialize (IH s1 I1). destruct (ins_each s1 r) as [s2 m]. exact IH.
Qed.

Lemma exec_Inv s q : Inv s -> Inv (fst (exec s q)).
Proof.
  intros I. destruct q as [ts|t|ts|head c|dt it c]; cbn [exec].
  - pose proof (step_ins_Inv s ts I) as H. destruct (step_ins s ts) as [s1 r1]. destruct r1; exact H.
  - pose proof (step_del_Inv s [t] I) as H. destruct (step_del s [t]) as [s1 r1]. destruct r1; exact H.
  - pose proof (del_each_Inv ts s I) as H. destruct (del_each s ts) as [s1 [n|]]; exact H.
  - destruct (negb (cond_vars_bound c head)); [exact I|].
    pose proof (del_each_Inv (insts head (matches head c (live s))) s I) as H.
    destruct (del_each s _) as [s1 [n|]]; exact H.
  - set (bs := matches [AX; AY] c (live s)).
    pose proof (del_each_Inv (insts dt bs) s I) as H1. destruct (del_each s (insts dt bs)) as [s1 [d|]]; [|exact H1].
    cbn [fst] in H1. pose proof (ins_each_Inv (insts it bs) s1 H1) as H2.
    destruct (ins_each s1 (insts it bs)) as [s2 [i|]]; exact H2.
Qed.

Lemma run_stmts_Inv h : forall s, Inv s -> Inv (run_stmts s h).
Proof.
  unfold run_stmts. induction h as [|q h IH]; intros s I; cbn [fold_left]; [exact I|]. apply IH, exec_Inv, I.
Qed.
