(* Lemmas about Model/Hnsw.v: the index state machine refines the abstract index `spec` (C25). *)
From IL Require Import Model.Hnsw.
Open Scope N_scope.

(* ------------------------------------------------------------ lists of identifiers *)
Lemma memN_In x l : memN x l = true <-> In x l.
Proof.
  unfold memN. rewrite existsb_exists. split.
  - intros [y [Hy E]]. apply N.eqb_eq in E. subst. exact Hy.
  - intros H. exists x. split; [exact H | apply N.eqb_refl].
Qed.

Lemma memN_false x l : memN x l = false <-> ~ In x l.
Proof. rewrite <- memN_In. destruct (memN x l); split; congruence. Qed.

Lemma memN_cons x y l : memN x (y :: l) = N.eqb x y || memN x l.
Proof. reflexivity. Qed.

Lemma In_removeN y x l : In y (removeN x l) <-> In y l /\ y <> x.
Proof.
  induction l as [|z l IH]; cbn [removeN In]; [tauto|].
  destruct (N.eqb_spec x z) as [-> | Hn]; cbn [In]; rewrite IH; split.
  - tauto.
  - intros [[-> | H] Hne]; [congruence | tauto].
  - intros [->|[H Hne]]; [split; [left; reflexivity | congruence] | tauto].
  - intros [[-> | H] Hne]; [left; reflexivity | right; tauto].
Qed.

Lemma memN_removeN y x l : memN y (removeN x l) = memN y l && negb (N.eqb y x).
Proof.
  destruct (memN y (removeN x l)) eqn:E.
  - apply memN_In, In_removeN in E. destruct E as [H Hne].
    apply memN_In in H. rewrite H. apply N.eqb_neq in Hne. rewrite Hne. reflexivity.
  - apply memN_false in E. rewrite In_removeN in E.
    destruct (memN y l) eqn:E2; [|reflexivity]. apply memN_In in E2.
    destruct (N.eqb_spec y x) as [-> | Hne]; [reflexivity|]. exfalso. apply E. split; assumption.
Qed.

Lemma removeN_notin x l : ~ In x l -> removeN x l = l.
Proof.
  induction l as [|z l IH]; cbn [removeN In]; intros H; [reflexivity|].
  destruct (N.eqb_spec x z) as [-> | Hn]; [exfalso; apply H; left; reflexivity|].
  rewrite IH; [reflexivity | tauto].
Qed.

Lemma NoDup_removeN x l : NoDup l -> NoDup (removeN x l).
Proof.
  induction 1 as [|z l Hz Hl IH]; cbn [removeN]; [constructor|].
  destruct (N.eqb x z); [exact IH|]. constructor; [|exact IH].
  rewrite In_removeN. tauto.
Qed.

Lemma length_removeN x l : NoDup l -> In x l -> S (List.length (removeN x l)) = List.length l.
Proof.
  induction 1 as [|z l Hz Hl IH]; cbn [removeN In List.length]; [tauto|].
  intros [-> | Hin].
  - rewrite N.eqb_refl. rewrite removeN_notin by exact Hz. reflexivity.
  - destruct (N.eqb_spec x z) as [-> | Hn]; [contradiction|]. cbn [List.length]. rewrite IH by exact Hin. reflexivity.
Qed.

Lemma NoDup_app_cons_end {A} (l : list A) x : NoDup l -> ~ In x l -> NoDup (l ++ [x]).
Proof.
  induction 1 as [|y l Hy Hl IH]; cbn [app In]; intros Hx.
  - constructor; [intros [] | constructor].
  - constructor; [|apply IH; tauto]. rewrite in_app_iff. cbn [In]. intros [H|[H|[]]]; [tauto|]. subst. tauto.
Qed.

(* number of identifiers of `ids` that are not in `ts` *)
Definition cnt (ts ids : list N) : nat := List.length (filter (fun i => negb (memN i ts)) ids).

Lemma cnt_app ts a b : cnt ts (a ++ b) = (cnt ts a + cnt ts b)%nat.
Proof. unfold cnt. rewrite filter_app, app_length. reflexivity. Qed.

Lemma cnt_nil_ts ids : cnt [] ids = List.length ids.
Proof.
  unfold cnt. induction ids as [|i r IH]; [reflexivity|].
  cbn [filter memN existsb negb List.length]. f_equal. exact IH.
Qed.

Lemma cnt_ext ts ts' ids :
  (forall i, In i ids -> memN i ts = memN i ts') -> cnt ts ids = cnt ts' ids.
Proof.
  unfold cnt. induction ids as [|i r IH]; intros H; [reflexivity|]. cbn [filter].
  rewrite (H i (or_introl eq_refl)). destruct (negb (memN i ts')); cbn [List.length];
    rewrite IH; auto; intros j Hj; apply H; right; exact Hj.
Qed.

Lemma cnt_remove ts ids x :
  NoDup ids -> In x ids -> memN x ts = true -> cnt (removeN x ts) ids = S (cnt ts ids).
Proof.
  unfold cnt. induction 1 as [|i r Hi Hr IH]; cbn [In filter]; [tauto|]. intros [-> | Hin] Hx.
  - rewrite memN_removeN, Hx, N.eqb_refl. cbn [negb andb List.length]. f_equal.
    apply (cnt_ext (removeN x ts) ts r). intros j Hj. rewrite memN_removeN.
    destruct (N.eqb_spec j x) as [-> | ]; [contradiction|]. rewrite andb_true_r. reflexivity.
  - rewrite memN_removeN. destruct (N.eqb_spec i x) as [-> | Hne]; [contradiction|].
    rewrite andb_true_r. destruct (negb (memN i ts)); cbn [List.length]; rewrite IH; auto.
Qed.

Lemma cnt_add ts ids x :
  NoDup ids -> In x ids -> memN x ts = false -> S (cnt (x :: ts) ids) = cnt ts ids.
Proof.
  unfold cnt. induction 1 as [|i r Hi Hr IH]; cbn [In filter]; [tauto|]. intros [-> | Hin] Hx.
  - rewrite memN_cons, N.eqb_refl, Hx. cbn [negb orb List.length]. f_equal.
    apply (cnt_ext (x :: ts) ts r). intros j Hj. rewrite memN_cons.
    destruct (N.eqb_spec j x) as [-> | ]; [contradiction|]. reflexivity.
  - rewrite memN_cons. destruct (N.eqb_spec i x) as [-> | Hne]; [contradiction|]. cbn [orb].
    destruct (negb (memN i ts)); cbn [List.length]; rewrite <- IH; auto.
Qed.

Lemma cnt_add_absent ts ids x : ~ In x ids -> cnt (x :: ts) ids = cnt ts ids.
Proof.
  intros H. apply cnt_ext. intros j Hj. rewrite memN_cons.
  destruct (N.eqb_spec j x) as [-> | ]; [contradiction | reflexivity].
Qed.

(* |ids| = |ids \ ts| + |ts| when ts is a duplicate-free subset of the duplicate-free ids *)
Lemma cnt_split ts : forall ids,
  NoDup ids -> NoDup ts -> (forall j, In j ts -> In j ids) ->
  List.length ids = (cnt ts ids + List.length ts)%nat.
Proof.
  induction ts as [|x ts IH]; intros ids Hi Ht Hs.
  - rewrite cnt_nil_ts. cbn. lia.
  - inversion Ht as [|? ? Hx Ht']; subst.
    assert (Hin : In x ids) by (apply Hs; left; reflexivity).
    rewrite (IH ids Hi Ht') by (intros j Hj; apply Hs; right; exact Hj).
    rewrite <- (cnt_add ts ids x Hi Hin) by (apply memN_false; exact Hx). cbn [List.length]. lia.
Qed.

Section Refinement.
  Variable V : Type.
  Variable vlen : V -> N.
  Variable normalize : V -> V.
  Variable tiny_norm : V -> bool.
  Variable Hlen : forall v, vlen (normalize v) = vlen v.

  Notation state := (state V).
  Notation astate := (astate V).
  Notation entry := (entry V).
  Notation prepare := (prepare V normalize).
  Notation rebuild_hnsw := (rebuild_hnsw V vlen).
  Notation store_one := (store_one V vlen normalize tiny_norm).
  Notation store_many := (store_many V vlen normalize tiny_norm).
  Notation insert := (insert V vlen normalize tiny_norm).
  Notation insert_batch := (insert_batch V vlen normalize tiny_norm).
  Notation rebuild := (rebuild V vlen normalize).
  Notation delete := (delete V vlen normalize).
  Notation step := (step V vlen normalize tiny_norm).
  Notation run := (run V vlen normalize tiny_norm).
  Notation astep := (astep V vlen normalize tiny_norm).
  Notation spec := (spec V vlen normalize tiny_norm).
  Notation a_put := (a_put V vlen normalize).
  Notation valid_vec := (valid_vec V vlen tiny_norm).
  Notation a_insert := (a_insert V vlen normalize tiny_norm).
  Notation a_insert_batch := (a_insert_batch V vlen normalize tiny_norm).
  Notation a_delete := (a_delete V normalize).
  Notation a_compact := (a_compact V normalize).
  Notation a_rebuild := (a_rebuild V vlen normalize).
  Notation active_of := (active_of V).
  Notation lookup := (lookup V).
  Notation upsert := (upsert V).
  Notation stored := (stored V).
  Notation live_lookup := (live_lookup V).
  Notation live_entries := (live_entries V).
  Notation reachable := (reachable V).
  Notation load := (load V vlen).
  Notation save := (save V).
  Notation wf_op := (wf_op V vlen).

  Lemma vlen_prepare c v : vlen (prepare c v) = vlen v.
  Proof. unfold Hnsw.prepare. destruct (needs_norm _); [apply Hlen | reflexivity]. Qed.

  (* ---------------------------------------------------------- association lists *)
  Lemma stored_In id (l : list entry) : stored id l = true <-> In id (map fst l).
  Proof.
    unfold Hnsw.stored. rewrite existsb_exists. split.
    - intros [e [He E]]. apply N.eqb_eq in E. subst. apply in_map. exact He.
    - intros H. apply in_map_iff in H. destruct H as [e [E He]]. exists e. split; [exact He|].
      rewrite E. apply N.eqb_refl.
  Qed.

  Lemma stored_false id (l : list entry) : stored id l = false <-> ~ In id (map fst l).
  Proof. rewrite <- stored_In. destruct (stored id l); split; congruence. Qed.

  Lemma lookup_none id (l : list entry) : ~ In id (map fst l) -> lookup id l = None.
  Proof.
    induction l as [|[i w] r IH]; cbn [Hnsw.lookup map In fst]; intros H; [reflexivity|].
    destruct (N.eqb_spec i id) as [-> | Hn]; [exfalso; apply H; left; reflexivity|].
    apply IH. tauto.
  Qed.

  Lemma lookup_some id (l : list entry) : In id (map fst l) -> exists v, lookup id l = Some v.
  Proof.
    induction l as [|[i w] r IH]; cbn [Hnsw.lookup map In fst]; [tauto|]. intros [-> | H].
    - rewrite N.eqb_refl. eauto.
    - destruct (N.eqb i id); eauto.
  Qed.

  Lemma lookup_upsert j id v (l : list entry) :
    lookup j (upsert id v l) = if N.eqb j id then Some v else lookup j l.
  Proof.
    induction l as [|[i w] r IH]; cbn [Hnsw.upsert Hnsw.lookup].
    - rewrite (N.eqb_sym id j). destruct (N.eqb j id); reflexivity.
    - destruct (N.eqb_spec i id) as [-> | Hn]; cbn [Hnsw.lookup].
      + rewrite (N.eqb_sym id j). destruct (N.eqb j id); reflexivity.
      + rewrite IH. destruct (N.eqb_spec i j) as [-> | Hn2]; [|reflexivity].
        destruct (N.eqb_spec j id) as [-> | ]; [congruence | reflexivity].
  Qed.

  Lemma ids_upsert id v (l : list entry) :
    map fst (upsert id v l) = if stored id l then map fst l else map fst l ++ [id].
  Proof.
    induction l as [|[i w] r IH]; cbn [Hnsw.upsert map fst]; [reflexivity|].
    unfold Hnsw.stored in *. cbn [existsb fst].
    destruct (N.eqb_spec i id) as [-> | Hn]; cbn [map fst orb]; [reflexivity|].
    rewrite IH. destruct (existsb (fun e : N * V => N.eqb (fst e) id) r); reflexivity.
  Qed.

  Lemma length_upsert id v (l : list entry) :
    List.length (upsert id v l) = if stored id l then List.length l else S (List.length l).
  Proof.
    induction l as [|[i w] r IH]; cbn [Hnsw.upsert List.length]; [reflexivity|].
    unfold Hnsw.stored in *. cbn [existsb fst].
    destruct (N.eqb_spec i id) as [-> | Hn]; cbn [List.length orb]; [reflexivity|].
    rewrite IH. destruct (existsb (fun e : N * V => N.eqb (fst e) id) r); reflexivity.
  Qed.

  Lemma In_upsert e id v (l : list entry) : In e (upsert id v l) -> e = (id, v) \/ In e l.
  Proof.
    induction l as [|[i w] r IH]; cbn [Hnsw.upsert In]; [intros [H|[]]; auto|].
    destruct (N.eqb i id); cbn [In]; [intros [H|H]; auto|]. intros [H|H]; [auto|]. destruct (IH H); auto.
  Qed.

  Lemma lookup_filter (P : N -> bool) j (l : list entry) :
    lookup j (filter (fun e => P (fst e)) l) = if P j then lookup j l else None.
  Proof.
    induction l as [|[i w] r IH]; cbn [filter Hnsw.lookup fst]; [destruct (P j); reflexivity|].
    destruct (P i) eqn:Ei; cbn [Hnsw.lookup]; rewrite IH.
    - destruct (N.eqb_spec i j) as [-> | ]; [rewrite Ei|]; reflexivity.
    - destruct (N.eqb_spec i j) as [-> | ]; [rewrite Ei|]; reflexivity.
  Qed.

  Lemma lookup_map (f : V -> V) j (l : list entry) :
    lookup j (map (fun e => (fst e, f (snd e))) l) = option_map f (lookup j l).
  Proof.
    induction l as [|[i w] r IH]; cbn [map Hnsw.lookup fst snd]; [reflexivity|].
    destruct (N.eqb i j); [reflexivity | exact IH].
  Qed.

  Lemma ids_map (f : V -> V) (l : list entry) : map fst (map (fun e => (fst e, f (snd e))) l) = map fst l.
  Proof. rewrite map_map. reflexivity. Qed.

  Lemma active_ids (vs : list entry) ts :
    map fst (active_of vs ts) = filter (fun i => negb (memN i ts)) (map fst vs).
  Proof.
    unfold Hnsw.active_of, is_tomb. induction vs as [|[i w] r IH]; cbn [filter map fst]; [reflexivity|].
    destruct (negb (memN i ts)); cbn [map fst]; rewrite IH; reflexivity.
  Qed.

  Lemma active_length (vs : list entry) ts : List.length (active_of vs ts) = cnt ts (map fst vs).
  Proof. unfold cnt. rewrite <- active_ids. symmetry. apply map_length. Qed.

  Lemma active_nil_ts (vs : list entry) : active_of vs [] = vs.
  Proof.
    unfold Hnsw.active_of, is_tomb. induction vs as [|e r IH]; [reflexivity|].
    cbn [filter memN existsb negb]. f_equal. exact IH.
  Qed.

  Lemma active_idem (vs : list entry) ts : active_of (active_of vs ts) ts = active_of vs ts.
  Proof.
    unfold Hnsw.active_of. induction vs as [|e r IH]; cbn [filter]; [reflexivity|].
    destruct (negb (is_tomb V ts e)) eqn:E; cbn [filter]; rewrite ?E, IH; reflexivity.
  Qed.

  Lemma active_cons_ts (vs : list entry) x ts :
    active_of vs (x :: ts) = filter (fun e => negb (N.eqb (fst e) x)) (active_of vs ts).
  Proof.
    unfold Hnsw.active_of, is_tomb. induction vs as [|e r IH]; cbn [filter]; [reflexivity|].
    rewrite memN_cons. destruct (N.eqb (fst e) x) eqn:E1, (memN (fst e) ts) eqn:E2; cbn [negb orb filter];
      rewrite ?E1; cbn [negb]; rewrite IH; reflexivity.
  Qed.

  Lemma active_ext (vs : list entry) ts ts' :
    (forall e, In e vs -> memN (fst e) ts = memN (fst e) ts') -> active_of vs ts = active_of vs ts'.
  Proof.
    intros H. unfold Hnsw.active_of, is_tomb. apply filter_ext_in. intros e He. rewrite (H e He). reflexivity.
  Qed.

  Lemma lookup_active j (vs : list entry) ts :
    lookup j (active_of vs ts) = if memN j ts then None else lookup j vs.
  Proof.
    unfold Hnsw.active_of, is_tomb. rewrite (lookup_filter (fun i => negb (memN i ts))).
    destruct (memN j ts); reflexivity.
  Qed.

  Lemma NoDup_filter {A} (P : A -> bool) l : NoDup l -> NoDup (filter P l).
  Proof.
    induction 1 as [|x l Hx Hl IH]; cbn [filter]; [constructor|].
    destruct (P x); [constructor; [rewrite filter_In; tauto | exact IH] | exact IH].
  Qed.

  (* ---------------------------------------------------------- the invariant *)
  Definition with_graph (s : state) (g : option (list entry)) : state :=
    {| cfg := cfg s; vectors := vectors s; tombs := tombs s; dim := dim s; graph := g |}.

  Record Inv0 (s : state) (a : astate) : Prop := {
    i_cfg : cfg s = a_cfg a;
    i_dim : dim s = a_dim a;
    i_live : forall j, live_lookup s j = a_live a j;
    i_dead : forall j, memN j (tombs s) = a_dead a j;
    i_nd_ids : NoDup (map fst (vectors s));
    i_nd_t : NoDup (tombs s);
    i_ts : forall j, In j (tombs s) -> In j (map fst (vectors s));
    i_nlive : a_nlive a = N.of_nat (cnt (tombs s) (map fst (vectors s)));
    i_ndead : a_ndead a = N.of_nat (List.length (tombs s));
    i_vdim : forall e, In e (vectors s) -> vlen (snd e) = dim s;
    i_dim0 : dim s = 0 -> vectors s = [];
    i_thr : over_threshold (N.of_nat (List.length (tombs s))) (N.of_nat (List.length (vectors s))) = false
  }.

  Definition graph_ok (s : state) : Prop :=
    reachable s = live_entries s /\
    match graph s with Some g => NoDup (map fst g) | None => True end.
  Definition Inv (s : state) (a : astate) : Prop := Inv0 s a /\ graph_ok s.

  Lemma inv_len s a : Inv0 s a ->
    List.length (vectors s) = (cnt (tombs s) (map fst (vectors s)) + List.length (tombs s))%nat.
  Proof.
    intros I. transitivity (List.length (map fst (vectors s))); [symmetry; apply map_length|].
    apply cnt_split; [apply (i_nd_ids _ _ I) | apply (i_nd_t _ _ I) | apply (i_ts _ _ I)].
  Qed.

  Lemma Inv0_with_graph s a g : Inv0 s a -> Inv0 (with_graph s g) a.
  Proof. intros [H1 H2 H3 H4 H5 H6 H7 H8 H9 H10 H11 H12]. constructor; assumption. Qed.

  Lemma rebuild_hnsw_eq s :
    (forall e, In e (vectors s) -> vlen (snd e) = dim s) ->
    rebuild_hnsw s = with_graph s (match active_of (vectors s) (tombs s) with [] => None | l => Some l end).
  Proof.
    intros Hd. unfold Hnsw.rebuild_hnsw, with_graph.
    destruct (active_of (vectors s) (tombs s)) as [|e0 r] eqn:E; [reflexivity|].
    f_equal. apply Hd. assert (Hin : In e0 (active_of (vectors s) (tombs s))) by (rewrite E; left; reflexivity).
    unfold Hnsw.active_of in Hin. apply filter_In in Hin. tauto.
  Qed.

  Lemma graph_ok_rebuilt s :
    NoDup (map fst (vectors s)) ->
    graph_ok (with_graph s (match active_of (vectors s) (tombs s) with [] => None | l => Some l end)).
  Proof.
    intros Hnd. unfold graph_ok, Hnsw.reachable, Hnsw.live_entries, with_graph. cbn [graph tombs vectors].
    destruct (active_of (vectors s) (tombs s)) as [|e0 r] eqn:E; [split; [reflexivity | exact I]|].
    rewrite <- E. split; [apply active_idem|]. rewrite active_ids. apply NoDup_filter. exact Hnd.
  Qed.

  Lemma rebuild_hnsw_inv s a : Inv0 s a -> Inv (rebuild_hnsw s) a.
  Proof.
    intros I. rewrite rebuild_hnsw_eq by apply (i_vdim _ _ I).
    split; [apply Inv0_with_graph; exact I | apply graph_ok_rebuilt, (i_nd_ids _ _ I)].
  Qed.

  Lemma over_threshold_mono nt nv nt' nv' :
    over_threshold nt nv = false -> nt' <= nt -> nv <= nv' -> nv <> 0 \/ nt' = 0 -> over_threshold nt' nv' = false.
  Proof.
    unfold over_threshold. intros H Ht Hv Hz.
    destruct (N.eqb_spec nv' 0) as [->|Hn']; [reflexivity|]. cbn [negb andb].
    apply N.ltb_ge. destruct (N.eqb_spec nv 0) as [-> | Hn]; cbn [negb andb] in H.
    - destruct Hz as [Hz | ->]; [congruence | lia].
    - apply N.ltb_ge in H. lia.
  Qed.

  (* ---------------------------------------------------------- store_one / insert *)
  Lemma store_one_none s a id v : Inv0 s a -> store_one s id v = None -> valid_vec a v = false.
  Proof.
    intros I. unfold Hnsw.store_one, Hnsw.valid_vec. rewrite <- (i_cfg _ _ I), <- (i_dim _ _ I).
    destruct (N.eqb (vlen v) 0); [reflexivity|]. cbn [negb andb].
    destruct (needs_norm (c_metric (cfg s)) && tiny_norm v); [reflexivity|]. cbn [negb andb].
    destruct (N.eqb (dim s) 0); cbn [negb andb orb]; [discriminate|].
    destruct (N.eqb (dim s) (vlen v)); cbn [negb]; [discriminate | reflexivity].
  Qed.

  Lemma store_one_some s a id v s' :
    Inv0 s a -> store_one s id v = Some s' -> valid_vec a v = true /\ Inv0 s' (a_put a id v) /\ graph s' = graph s.
  Proof.
    intros I. unfold Hnsw.store_one, Hnsw.valid_vec. rewrite <- (i_cfg _ _ I), <- (i_dim _ _ I).
    destruct (N.eqb_spec (vlen v) 0) as [|Hv0]; [discriminate|]. cbn [negb andb].
    destruct (needs_norm (c_metric (cfg s)) && tiny_norm v); [discriminate|]. cbn [negb andb].
    destruct (negb (N.eqb (dim s) 0) && negb (N.eqb (dim s) (vlen v))) eqn:Ed; [discriminate|].
    intros E. inversion E; subst s'; clear E. split; [|split; [|reflexivity]].
    { destruct (N.eqb (dim s) 0); cbn [negb andb orb] in *; [reflexivity|].
      destruct (N.eqb (dim s) (vlen v)); cbn [negb] in *; congruence. }
    assert (Hdim : (if N.eqb (dim s) 0 then vlen v else dim s) = vlen v).
    { destruct (N.eqb_spec (dim s) 0) as [E0|E0]; [reflexivity|].
      destruct (N.eqb_spec (dim s) (vlen v)) as [E1|E1]; [exact E1 | cbn [negb andb] in Ed; discriminate]. }
    pose proof (i_nd_ids _ _ I) as Hnd. pose proof (i_nd_t _ _ I) as Hndt. pose proof (i_ts _ _ I) as Hts.
    (* the three situations of the identifier *)
    assert (Hcase : (stored id (vectors s) = false /\ memN id (tombs s) = false)
                 \/ (stored id (vectors s) = true /\ memN id (tombs s) = false)
                 \/ (stored id (vectors s) = true /\ memN id (tombs s) = true)).
    { destruct (stored id (vectors s)) eqn:Es, (memN id (tombs s)) eqn:Et; try tauto.
      apply memN_In, Hts, stored_In in Et. congruence. }
    assert (Hlive_id : a_live a id = if memN id (tombs s) then None else lookup id (vectors s)).
    { rewrite <- (i_live _ _ I). reflexivity. }
    constructor; cbn [cfg vectors tombs dim Hnsw.a_put a_cfg a_live a_dead a_nlive a_ndead a_dim].
    - apply (i_cfg _ _ I).
    - rewrite <- (i_dim _ _ I). reflexivity.
    - intros j. unfold Hnsw.live_lookup, upd. cbn [tombs vectors].
      rewrite memN_removeN, lookup_upsert, <- (i_cfg _ _ I).
      destruct (N.eqb_spec j id) as [-> | Hne]; cbn [negb]; [rewrite andb_false_r; reflexivity|].
      rewrite andb_true_r. rewrite <- (i_live _ _ I). reflexivity.
    - intros j. unfold upd. rewrite memN_removeN.
      destruct (N.eqb_spec j id) as [-> | Hne]; cbn [negb]; [apply andb_false_r|].
      rewrite andb_true_r. apply (i_dead _ _ I).
    - rewrite ids_upsert. destruct (stored id (vectors s)) eqn:Es; [exact Hnd|].
      apply NoDup_app_cons_end; [exact Hnd | apply stored_false; exact Es].
    - apply NoDup_removeN; exact Hndt.
    - intros j Hj. apply In_removeN in Hj. destruct Hj as [Hj _]. apply Hts in Hj.
      rewrite ids_upsert. destruct (stored id (vectors s)); [exact Hj | apply in_or_app; left; exact Hj].
    - rewrite ids_upsert, Hlive_id. destruct Hcase as [[Es Et]|[[Es Et]|[Es Et]]]; rewrite Es, Et.
      + rewrite lookup_none by (apply stored_false; exact Es).
        rewrite removeN_notin by (apply memN_false; exact Et).
        rewrite cnt_app. unfold cnt at 2. cbn [filter]. rewrite Et. cbn [negb List.length].
        rewrite (i_nlive _ _ I). lia.
      + destruct (lookup_some id (vectors s)) as [w Hw]; [apply stored_In; exact Es|]. rewrite Hw.
        rewrite removeN_notin by (apply memN_false; exact Et). apply (i_nlive _ _ I).
      + rewrite cnt_remove by (try assumption; apply stored_In; exact Es).
        rewrite (i_nlive _ _ I). lia.
    - rewrite <- (i_dead _ _ I). destruct (memN id (tombs s)) eqn:Et.
      + apply memN_In in Et. pose proof (length_removeN id (tombs s) Hndt Et). rewrite (i_ndead _ _ I). lia.
      + rewrite removeN_notin by (apply memN_false; exact Et). apply (i_ndead _ _ I).
    - intros e He. apply In_upsert in He. rewrite Hdim. destruct He as [-> | He]; cbn [snd].
      + apply vlen_prepare.
      + rewrite (i_vdim _ _ I e He). destruct (N.eqb_spec (dim s) 0) as [E0|E0].
        * rewrite (i_dim0 _ _ I E0) in He. destruct He.
        * exact Hdim.
    - intros E0. rewrite Hdim in E0. congruence.
    - rewrite length_upsert.
      apply (over_threshold_mono (N.of_nat (List.length (tombs s))) (N.of_nat (List.length (vectors s))));
        [apply (i_thr _ _ I) | | destruct (stored id (vectors s)); lia |].
      + destruct (memN id (tombs s)) eqn:Et.
        * apply memN_In in Et. pose proof (length_removeN id (tombs s) Hndt Et). lia.
        * rewrite removeN_notin by (apply memN_false; exact Et). lia.
      + destruct (tombs s) as [|t0 tr] eqn:Ets; [right; reflexivity|]. left.
        assert (Hin : In t0 (map fst (vectors s))) by (apply Hts; left; reflexivity).
        destruct (vectors s); [destruct Hin | cbn; lia].
  Qed.

  Lemma insert_sim s a id v :
    Inv s a ->
    Inv (fst (insert s id v)) (fst (a_insert a id v)) /\ snd (insert s id v) = snd (a_insert a id v).
  Proof.
    intros [I G]. unfold Hnsw.insert, Hnsw.a_insert. destruct (store_one s id v) as [s'|] eqn:E.
    - destruct (store_one_some _ _ _ _ _ I E) as [Hv [I' _]]. rewrite Hv. cbn [fst snd].
      split; [apply rebuild_hnsw_inv; exact I' | reflexivity].
    - rewrite (store_one_none _ _ _ _ I E). cbn [fst snd]. split; [split; assumption | reflexivity].
  Qed.

  Lemma store_many_sim es : forall s a,
    Inv0 s a ->
    Inv0 (fst (store_many s es)) (fst (a_insert_batch a es)) /\
    snd (store_many s es) = snd (a_insert_batch a es).
  Proof.
    induction es as [|[id v] r IH]; intros s a I; cbn [Hnsw.store_many Hnsw.a_insert_batch fst snd].
    - split; [exact I | reflexivity].
    - destruct (store_one s id v) as [s'|] eqn:E.
      + destruct (store_one_some _ _ _ _ _ I E) as [Hv [I' _]]. rewrite Hv. apply IH. exact I'.
      + rewrite (store_one_none _ _ _ _ I E). cbn [fst snd]. split; [exact I | reflexivity].
  Qed.

  Lemma insert_batch_sim s a es :
    Inv s a ->
    Inv (fst (insert_batch s es)) (fst (a_insert_batch a es)) /\
    snd (insert_batch s es) = snd (a_insert_batch a es).
  Proof.
    intros [I G]. unfold Hnsw.insert_batch. destruct (store_many_sim es s a I) as [I' Hs].
    destruct (store_many s es) as [s' ok]. cbn [fst snd] in *. split; [apply rebuild_hnsw_inv; exact I' | exact Hs].
  Qed.

  (* ---------------------------------------------------------- rebuild (also the compaction of delete) *)
  Lemma over_threshold_zero n : over_threshold 0 n = false.
  Proof. unfold over_threshold. destruct (N.eqb n 0); cbn [negb andb]; [reflexivity|]. apply N.ltb_ge. lia. Qed.

  Lemma rebuild_inv (s : state) (vs : list entry) (a' : astate) :
    cfg s = a_cfg a' ->
    NoDup (map fst vs) ->
    (forall e, In e vs -> vlen (snd e) = a_dim a') ->
    (vs <> [] -> a_dim a' <> 0) -> (vs = [] -> a_dim a' = 0) ->
    (forall j, a_live a' j = option_map (prepare (cfg s)) (lookup j vs)) ->
    (forall j, a_dead a' j = false) ->
    a_nlive a' = N.of_nat (List.length vs) -> a_ndead a' = 0 ->
    Inv (rebuild s vs) a'.
  Proof.
    intros Hc Hnd Hd Hnz Hz Hl Hdd Hnl Hn0. unfold Hnsw.rebuild. destruct vs as [|e0 r] eqn:Evs.
    - split.
      + constructor; cbn [cfg vectors tombs dim map List.length].
        * exact Hc.
        * symmetry. apply Hz. reflexivity.
        * intros j. rewrite Hl. reflexivity.
        * intros j. rewrite Hdd. reflexivity.
        * constructor.
        * constructor.
        * intros j [].
        * exact Hnl.
        * exact Hn0.
        * intros e [].
        * reflexivity.
        * reflexivity.
      + split; [reflexivity | exact Logic.I].
    - rewrite <- Evs in *.
      set (s0 := {| cfg := cfg s; vectors := map (fun e => (fst e, prepare (cfg s) (snd e))) vs;
                    tombs := []; dim := vlen (snd e0); graph := None |}).
      assert (Hd0 : vlen (snd e0) = a_dim a') by (apply Hd; rewrite Evs; left; reflexivity).
      assert (I0 : Inv0 s0 a').
      { constructor; cbn [s0 cfg vectors tombs dim].
        - exact Hc.
        - exact Hd0.
        - intros j. unfold Hnsw.live_lookup, s0. cbn [tombs vectors memN existsb]. rewrite lookup_map. symmetry. apply Hl.
        - intros j. rewrite Hdd. reflexivity.
        - rewrite ids_map. exact Hnd.
        - constructor.
        - intros j [].
        - rewrite ids_map, cnt_nil_ts, map_length. exact Hnl.
        - exact Hn0.
        - intros e He. apply in_map_iff in He. destruct He as [x [<- Hx]]. cbn [snd].
          rewrite vlen_prepare, Hd0. apply Hd. exact Hx.
        - intros E. exfalso. apply Hnz; [rewrite Evs; discriminate | congruence].
        - apply over_threshold_zero. }
      apply rebuild_hnsw_inv. exact I0.
  Qed.

  Lemma eta_state (s : state) :
    {| cfg := cfg s; vectors := vectors s; tombs := tombs s; dim := dim s; graph := graph s |} = s.
  Proof. destruct s; reflexivity. Qed.

  Lemma delete_sim s a id : Inv s a -> Inv (delete s id) (a_delete a id).
  Proof.
    intros [I G0]. pose proof G0 as [G Gn]. unfold Hnsw.delete, Hnsw.a_delete.
    pose proof (i_live _ _ I id) as Hl. unfold Hnsw.live_lookup in Hl.
    destruct (stored id (vectors s)) eqn:Es; cbn [negb].
    2:{ rewrite lookup_none in Hl by (apply stored_false; exact Es).
        assert (E : a_live a id = None) by (destruct (memN id (tombs s)); congruence).
        rewrite E. split; assumption. }
    destruct (memN id (tombs s)) eqn:Et.
    - rewrite <- Hl. rewrite (i_thr _ _ I), eta_state. split; assumption.
    - destruct (lookup_some id (vectors s)) as [w Hw]; [apply stored_In; exact Es|].
      rewrite Hw in Hl. rewrite <- Hl.
      set (ts := id :: tombs s).
      set (s1 := {| cfg := cfg s; vectors := vectors s; tombs := ts; dim := dim s; graph := graph s |}).
      set (a1 := {| a_cfg := a_cfg a; a_live := upd (a_live a) id None; a_dead := upd (a_dead a) id true;
                    a_nlive := a_nlive a - 1; a_ndead := a_ndead a + 1; a_dim := a_dim a |}).
      pose proof (i_nd_ids _ _ I) as Hnd. pose proof (i_nd_t _ _ I) as Hndt. pose proof (i_ts _ _ I) as Hts.
      assert (Hin : In id (map fst (vectors s))) by (apply stored_In; exact Es).
      assert (Hcnt : S (cnt ts (map fst (vectors s))) = cnt (tombs s) (map fst (vectors s)))
        by (apply cnt_add; assumption).
      assert (Hnl1 : a_nlive a1 = N.of_nat (cnt ts (map fst (vectors s)))).
      { unfold a1. cbn [a_nlive]. rewrite (i_nlive _ _ I), <- Hcnt. lia. }
      assert (Hnd1 : a_ndead a1 = N.of_nat (List.length ts)).
      { unfold a1, ts. cbn [a_ndead List.length]. rewrite (i_ndead _ _ I). lia. }
      assert (Hlen1 : N.of_nat (List.length (vectors s)) = a_nlive a1 + a_ndead a1).
      { rewrite Hnl1, Hnd1, (inv_len _ _ I), <- Hcnt. unfold ts. cbn [List.length]. lia. }
      assert (Hlive1 : forall j, live_lookup s1 j = a_live a1 j).
      { intros j. unfold Hnsw.live_lookup, s1, a1, ts. cbn [tombs vectors a_live]. unfold upd. rewrite memN_cons.
        destruct (N.eqb_spec j id) as [->|Hne]; cbn [orb]; [reflexivity|]. apply (i_live _ _ I). }
      rewrite <- Hlen1, Hnd1.
      destruct (over_threshold (N.of_nat (List.length ts)) (N.of_nat (List.length (vectors s)))) eqn:Eth.
      + (* compaction *)
        apply rebuild_inv.
        * cbn [s1 cfg Hnsw.a_compact a_cfg a1]. apply (i_cfg _ _ I).
        * rewrite active_ids. apply NoDup_filter. exact Hnd.
        * intros e He. cbn [Hnsw.a_compact a_dim]. rewrite Hnl1, <- active_length.
          destruct (active_of (vectors s) ts) as [|e0 r] eqn:Ea; [destruct He|]. cbn [List.length].
          destruct (N.eqb_spec (N.of_nat (S (List.length r))) 0) as [E0|E0]; [lia|].
          cbn [a1 a_dim]. rewrite <- (i_dim _ _ I). apply (i_vdim _ _ I).
          assert (He' : In e (active_of (vectors s) ts)) by (rewrite Ea; exact He).
          unfold Hnsw.active_of in He'. apply filter_In in He'. tauto.
        * intros Hne. cbn [Hnsw.a_compact a_dim]. rewrite Hnl1, <- active_length.
          destruct (active_of (vectors s) ts) as [|e0 r] eqn:Ea; [congruence|]. cbn [List.length].
          destruct (N.eqb_spec (N.of_nat (S (List.length r))) 0) as [E0|E0]; [lia|].
          cbn [a1 a_dim]. rewrite <- (i_dim _ _ I). intros Ed. pose proof (i_dim0 _ _ I Ed) as Ev.
          rewrite Ev in Ea. discriminate.
        * intros Hnil. cbn [Hnsw.a_compact a_dim]. rewrite Hnl1, <- active_length, Hnil. reflexivity.
        * intros j. unfold Hnsw.a_compact. cbn [a_live]. rewrite <- Hlive1.
          unfold s1, a1, Hnsw.live_lookup. cbn [cfg a_cfg tombs vectors].
          rewrite <- (i_cfg _ _ I), lookup_active. destruct (memN j ts); reflexivity.
        * reflexivity.
        * cbn [Hnsw.a_compact a_nlive]. rewrite Hnl1, active_length. reflexivity.
        * reflexivity.
      + (* the tombstone stays *)
        split.
        * constructor; cbn [s1 a1 cfg vectors tombs dim a_cfg a_live a_dead a_nlive a_ndead a_dim].
          -- apply (i_cfg _ _ I).
          -- apply (i_dim _ _ I).
          -- exact Hlive1.
          -- intros j. unfold upd, ts. rewrite memN_cons. destruct (N.eqb j id); cbn [orb]; [reflexivity|].
             apply (i_dead _ _ I).
          -- exact Hnd.
          -- constructor; [apply memN_false; exact Et | exact Hndt].
          -- intros j [<-|Hj]; [exact Hin | apply Hts; exact Hj].
          -- exact Hnl1.
          -- exact Hnd1.
          -- apply (i_vdim _ _ I).
          -- apply (i_dim0 _ _ I).
          -- exact Eth.
        * unfold graph_ok, Hnsw.reachable, Hnsw.live_entries in *. unfold s1. cbn [graph tombs vectors]. unfold ts.
          split; [|exact Gn].
          rewrite (active_cons_ts (vectors s)). destruct (graph s) as [g|].
          -- rewrite active_cons_ts, G. reflexivity.
          -- rewrite <- G. reflexivity.
  Qed.

  Lemma nodupN_NoDup l : nodupN l = true -> NoDup l.
  Proof.
    induction l as [|x r IH]; cbn [nodupN]; [constructor|]. intros H. apply andb_true_iff in H.
    destruct H as [Hx Hr]. constructor; [apply memN_false; destruct (memN x r); [discriminate | reflexivity] | apply IH; exact Hr].
  Qed.

  Lemma rebuild_sim s a vs : Inv s a -> wf_op (ORebuild vs) = true -> Inv (rebuild s vs) (a_rebuild a vs).
  Proof.
    intros [I G] Hwf. cbn [Hnsw.wf_op] in Hwf. apply andb_true_iff in Hwf. destruct Hwf as [Hnd Hu].
    apply rebuild_inv; cbn [Hnsw.a_rebuild a_cfg a_live a_dead a_nlive a_ndead a_dim].
    - apply (i_cfg _ _ I).
    - apply nodupN_NoDup. exact Hnd.
    - intros e He. destruct vs as [|e0 r]; [destruct He|]. cbn [Hnsw.uniform_dim] in Hu.
      apply andb_true_iff in Hu. destruct Hu as [_ Hu]. rewrite forallb_forall in Hu.
      apply N.eqb_eq. apply Hu. exact He.
    - intros Hne. destruct vs as [|e0 r]; [congruence|]. cbn [Hnsw.uniform_dim] in Hu.
      apply andb_true_iff in Hu. destruct Hu as [Hu _]. destruct (N.eqb_spec (vlen (snd e0)) 0); [discriminate | assumption].
    - intros ->. reflexivity.
    - intros j. rewrite (i_cfg _ _ I). reflexivity.
    - reflexivity.
    - reflexivity.
    - reflexivity.
  Qed.

  Lemma parse_metric_name m : parse_metric (metric_name m) = Some m.
  Proof. destruct m; reflexivity. Qed.

  Lemma load_save s :
    load (save s) = Some (rebuild_hnsw (with_graph s None)).
  Proof.
    unfold Hnsw.load, Hnsw.save. cbn [p_metric p_m p_efc p_efs p_dim p_vectors p_tombs].
    rewrite parse_metric_name. unfold with_graph. destruct (cfg s); reflexivity.
  Qed.

  Lemma saveload_sim s a : Inv s a -> Inv (step s OSaveLoad) a.
  Proof.
    intros [I G]. cbn [Hnsw.step]. rewrite load_save. apply rebuild_hnsw_inv, Inv0_with_graph. exact I.
  Qed.

  Lemma step_sim s a o : Inv s a -> wf_op o = true -> Inv (step s o) (astep a o).
  Proof.
    intros I Hwf. destruct o as [id v|es|id|vs|]; cbn [Hnsw.step Hnsw.astep].
    - apply insert_sim; exact I.
    - apply insert_batch_sim; exact I.
    - apply delete_sim; exact I.
    - apply rebuild_sim; assumption.
    - apply saveload_sim; exact I.
  Qed.

  Lemma init_inv c : Inv (init V c) (ainit V c).
  Proof.
    split; [|split; [reflexivity | exact Logic.I]]. constructor; cbn [Hnsw.init Hnsw.ainit cfg vectors tombs dim a_cfg a_live a_dead a_nlive a_ndead a_dim map List.length];
      try reflexivity; try constructor; try (intros ? []).
  Qed.

  Lemma run_sim h : forall s a,
    Inv s a -> forallb wf_op h = true -> Inv (run s h) (fold_left astep h a).
  Proof.
    induction h as [|o r IH]; intros s a I Hwf; cbn [Hnsw.run fold_left forallb] in *; [exact I|].
    apply andb_true_iff in Hwf. destruct Hwf as [Ho Hr]. apply IH; [apply step_sim; assumption | exact Hr].
  Qed.

  (* ---------------------------------------------------------- the statements used by Props/C25.v *)
  Theorem refines c h :
    forallb wf_op h = true -> Inv (run (init V c) h) (spec c h).
  Proof. intros Hwf. unfold Hnsw.spec. apply run_sim; [apply init_inv | exact Hwf]. Qed.

  Theorem refines_observations c h :
    forallb wf_op h = true ->
    let s := run (init V c) h in
    let a := spec c h in
    cfg s = a_cfg a /\ dim s = a_dim a /\
    tombstone_count V s = a_ndead a /\ len V s = a_nlive a + a_ndead a /\
    (forall id, live_lookup s id = a_live a id) /\
    (forall id, memN id (tombs s) = a_dead a id) /\
    reachable s = live_entries s /\
    NoDup (map fst (live_entries s)) /\
    (forall id v, In (id, v) (live_entries s) <-> a_live a id = Some v).
  Proof.
    intros Hwf s a. destruct (refines c h Hwf) as [I G]. fold s in I, G. fold a in I.
    assert (Hnd : NoDup (map fst (live_entries s))).
    { unfold Hnsw.live_entries. rewrite active_ids. apply NoDup_filter, (i_nd_ids _ _ I). }
    repeat split.
    - apply (i_cfg _ _ I).
    - apply (i_dim _ _ I).
    - unfold Hnsw.tombstone_count. symmetry. apply (i_ndead _ _ I).
    - unfold Hnsw.len. rewrite (i_nlive _ _ I), (i_ndead _ _ I), (inv_len _ _ I). lia.
    - apply (i_live _ _ I).
    - apply (i_dead _ _ I).
    - exact (proj1 G).
    - exact Hnd.
    - intros Hin. rewrite <- (i_live _ _ I). unfold Hnsw.live_lookup. rewrite <- lookup_active.
      fold (live_entries s). revert Hnd Hin. generalize (live_entries s) as l.
      induction l as [|[i w] r IH]; cbn [In map fst Hnsw.lookup]; [tauto|]. intros Hnd [E|Hin].
      + inversion E; subst. rewrite N.eqb_refl. reflexivity.
      + inversion Hnd as [|? ? Hi Hr]; subst. destruct (N.eqb_spec i id) as [->|Hne]; [|apply IH; assumption].
        exfalso. apply Hi. apply (in_map fst) in Hin. exact Hin.
    - rewrite <- (i_live _ _ I). unfold Hnsw.live_lookup. rewrite <- lookup_active.
      fold (live_entries s). generalize (live_entries s) as l.
      induction l as [|[i w] r IH]; cbn [In Hnsw.lookup]; [discriminate|].
      destruct (N.eqb_spec i id) as [->|Hne]; [intros E; inversion E; left; reflexivity | intros E; right; apply IH; exact E].
  Qed.

  Theorem insert_report c h id v :
    forallb wf_op h = true ->
    snd (insert (run (init V c) h) id v) = snd (a_insert (spec c h) id v).
  Proof. intros Hwf. apply insert_sim, refines, Hwf. Qed.

  Theorem insert_batch_report c h es :
    forallb wf_op h = true ->
    snd (insert_batch (run (init V c) h) es) = snd (a_insert_batch (spec c h) es).
  Proof. intros Hwf. apply insert_batch_sim, refines, Hwf. Qed.

  Theorem persist_roundtrip c h :
    forallb wf_op h = true ->
    let s := run (init V c) h in
    exists s', load (save s) = Some s' /\
      cfg s' = cfg s /\ vectors s' = vectors s /\ tombs s' = tombs s /\ dim s' = dim s /\
      reachable s' = reachable s.
  Proof.
    intros Hwf s. destruct (refines c h Hwf) as [I G]. fold s in I, G.
    exists (rebuild_hnsw (with_graph s None)). split; [apply load_save|].
    rewrite rebuild_hnsw_eq by (cbn [with_graph vectors dim]; apply (i_vdim _ _ I)).
    cbn [with_graph cfg vectors tombs dim]. repeat split.
    pose proof (proj1 (graph_ok_rebuilt (with_graph s None) (i_nd_ids _ _ I))) as G'.
    cbn [with_graph vectors tombs] in G'. unfold with_graph in *. rewrite G'.
    unfold Hnsw.live_entries. cbn [vectors tombs]. symmetry. exact (proj1 G).
  Qed.
End Refinement.
