//! Helpers shared by the vector-group binaries (c24, c25, c26); included with `#[path]`.
#![allow(dead_code)]
use inputlayer::index_manager::{DistanceMetric, HnswConfig};
use vharness::*;

pub const METRICS: [DistanceMetric; 4] =
    [DistanceMetric::Cosine, DistanceMetric::Euclidean, DistanceMetric::DotProduct, DistanceMetric::Manhattan];

pub fn metric_coq(m: DistanceMetric) -> &'static str {
    match m {
        DistanceMetric::Cosine => "Cosine",
        DistanceMetric::Euclidean => "Euclidean",
        DistanceMetric::DotProduct => "DotProduct",
        DistanceMetric::Manhattan => "Manhattan",
    }
}
pub fn needs_norm(m: DistanceMetric) -> bool {
    matches!(m, DistanceMetric::Cosine | DistanceMetric::DotProduct)
}
pub fn config_coq(c: &HnswConfig) -> String {
    format!(
        "{{| c_m := {}; c_efc := {}; c_efs := {}; c_metric := {} |}}",
        coq_n(c.m as u128),
        coq_n(c.ef_construction as u128),
        coq_n(c.ef_search as u128),
        metric_coq(c.metric)
    )
}
/// f32 vector as the list of its bit patterns (`list N`)
pub fn vec_bits(v: &[f32]) -> String {
    let xs: Vec<String> = v.iter().map(|f| coq_n(f.to_bits() as u128)).collect();
    coq_list(&xs)
}
/// integer-valued f32 vector as `list Z` (caller guarantees integrality)
pub fn vec_ints(v: &[f32]) -> String {
    let xs: Vec<String> = v.iter().map(|f| coq_z(*f as i128)).collect();
    coq_list(&xs)
}
pub fn entry_bits(id: usize, v: &[f32]) -> String {
    format!("({}, {})", coq_n(id as u128), vec_bits(v))
}
pub fn entries_bits(es: &[(usize, Vec<f32>)]) -> String {
    let xs: Vec<String> = es.iter().map(|(i, v)| entry_bits(*i, v)).collect();
    coq_list(&xs)
}
pub fn ids_coq(ids: &[usize]) -> String {
    let xs: Vec<String> = ids.iter().map(|i| coq_n(*i as u128)).collect();
    coq_list(&xs)
}
pub fn coq_string(s: &str) -> String {
    format!("\"{}\"%string", s.replace('"', "\"\""))
}

/// `HnswIndex::normalize_vector`, recomputed with the same f32 operations in the same order.
pub fn normalize(vec: &[f32]) -> Vec<f32> {
    let norm: f32 = vec.iter().map(|x| x * x).sum::<f32>().sqrt();
    if norm > 1e-10 {
        vec.iter().map(|x| x / norm).collect()
    } else {
        vec.to_vec()
    }
}
/// the zero-norm test of `insert`
pub fn tiny_norm(vec: &[f32]) -> bool {
    let norm: f32 = vec.iter().map(|x| x * x).sum::<f32>().sqrt();
    norm <= 1e-10
}
pub fn same_bits(a: &[f32], b: &[f32]) -> bool {
    a.len() == b.len() && a.iter().zip(b).all(|(x, y)| x.to_bits() == y.to_bits())
}

/// Table v -> (normalize v, tiny_norm v) closed under `depth` re-normalisations, for the Coq model
/// (whose `normalize`/`tiny_norm` are inputs, like the hash of the bloom model).
pub struct NormTable {
    pub rows: Vec<(Vec<f32>, Vec<f32>, bool)>,
}
impl NormTable {
    pub fn new() -> Self {
        NormTable { rows: vec![] }
    }
    pub fn add(&mut self, v: &[f32], depth: usize) {
        let mut t = v.to_vec();
        for _ in 0..depth {
            if self.rows.iter().any(|(k, _, _)| same_bits(k, &t)) {
                // already closed from here on
                let n = normalize(&t);
                if same_bits(&n, &t) {
                    return;
                }
                t = n;
                continue;
            }
            let n = normalize(&t);
            self.rows.push((t.clone(), n.clone(), tiny_norm(&t)));
            if same_bits(&n, &t) {
                return;
            }
            t = n;
        }
    }
    pub fn coq(&self) -> String {
        let xs: Vec<String> = self
            .rows
            .iter()
            .map(|(k, n, t)| format!("({}, ({}, {}))", vec_bits(k), vec_bits(n), coq_bool(*t)))
            .collect();
        coq_list(&xs)
    }
}
