//! C25 — vector index state follows its history and persists.
//! Drives the real `HnswIndex` (Index trait + save/load) through hand-written and random histories and
//! records, after every operation: len / tombstone_count / dimension, the content of the saved
//! index.json, the identifiers an exhaustive search returns, and the distance every stored live
//! identifier gets when the index is searched with its own stored vector.
//! Cases go to Checks/C25.v (model = Model/Hnsw.v, oracle = the abstract index `spec`).
use inputlayer::hnsw_index::HnswIndex;
use inputlayer::index_manager::{DistanceMetric, HnswConfig, Index};
use std::panic::AssertUnwindSafe;
use vharness::*;
#[path = "../vector_util.rs"]
mod vector_util;
use vector_util::*;

#[derive(Clone, Debug)]
enum Op {
    Ins(usize, Vec<f32>),
    Batch(Vec<(usize, Vec<f32>)>),
    Del(usize),
    Rebuild(Vec<(usize, Vec<f32>)>),
    SaveLoad,
}

fn op_coq(o: &Op) -> String {
    match o {
        Op::Ins(id, v) => format!("(OIns {} {})", coq_n(*id as u128), vec_bits(v)),
        Op::Batch(es) => format!("(OBatch {})", entries_bits(es)),
        Op::Del(id) => format!("(ODel {})", coq_n(*id as u128)),
        Op::Rebuild(es) => format!("(ORebuild {})", entries_bits(es)),
        Op::SaveLoad => "OSaveLoad".to_string(),
    }
}
fn op_desc(o: &Op) -> String {
    match o {
        Op::Ins(id, v) => format!("insert({}, {:?})", id, v),
        Op::Batch(es) => format!("insert_batch({:?})", es),
        Op::Del(id) => format!("delete({})", id),
        Op::Rebuild(es) => format!("rebuild({:?})", es),
        Op::SaveLoad => "save; load".to_string(),
    }
}

struct Obs {
    coq: String,
    desc: String,
    tombs: usize,
}

fn observe(index: &HnswIndex, dir: &std::path::Path) -> Obs {
    let len = index.len();
    let tombs = index.tombstone_count();
    let dim = index.dimension();
    index.save(dir).expect("save");
    let text = std::fs::read_to_string(dir.join("index.json")).expect("read index.json");
    let j: serde_json::Value = serde_json::from_str(&text).expect("parse index.json");
    let mut pvecs: Vec<(usize, Vec<f32>)> = vec![];
    for e in j["vectors"].as_array().expect("vectors") {
        let id = e[0].as_u64().expect("id") as usize;
        // same route as the real load: JSON number -> f64 -> `as f32`
        let v: Vec<f32> = e[1].as_array().expect("vec").iter().map(|x| x.as_f64().expect("f") as f32).collect();
        pvecs.push((id, v));
    }
    let mut ptombs: Vec<usize> = j["tombstones"].as_array().expect("tombs").iter().map(|x| x.as_u64().unwrap() as usize).collect();
    ptombs.sort();
    let q = vec![1.0f32; dim.max(1)];
    // identifiers any search returns: one exhaustive search plus the self-probes below (the hnsw_rs
    // graph of a small index is occasionally not fully reachable from one query)
    let mut members: Vec<usize> = index.search(&q, len + 1, Some(4096)).iter().map(|r| r.0).collect();
    let mut selfd: Vec<String> = vec![];
    let mut selfdesc: Vec<String> = vec![];
    for (id, v) in &pvecs {
        if ptombs.contains(id) {
            continue;
        }
        let r = index.search(v, len + 1, Some(4096));
        members.extend(r.iter().map(|x| x.0));
        if let Some((_, d)) = r.iter().find(|(i, _)| i == id) {
            selfd.push(format!("({}, {})", coq_n(*id as u128), coq_n(d.to_bits() as u128)));
            selfdesc.push(format!("{}:{:e}", id, d));
        }
    }
    members.sort();
    members.dedup();
    let metric = j["metric"].as_str().expect("metric").to_string();
    let coq = format!(
        "{{| o_len := {}; o_tombs := {}; o_dim := {}; o_members := {}; o_self := {}; o_pers := {{| p_m := {}; p_efc := {}; p_efs := {}; p_metric := {}; p_dim := {}; p_vectors := {}; p_tombs := {} |}} |}}",
        coq_n(len as u128),
        coq_n(tombs as u128),
        coq_n(dim as u128),
        ids_coq(&members),
        coq_list(&selfd),
        coq_n(j["m"].as_u64().unwrap() as u128),
        coq_n(j["ef_construction"].as_u64().unwrap() as u128),
        coq_n(j["ef_search"].as_u64().unwrap() as u128),
        coq_string(&metric),
        coq_n(j["dimension"].as_u64().unwrap() as u128),
        entries_bits(&pvecs),
        ids_coq(&ptombs)
    );
    let desc = format!(
        "len={} tombstones={} dim={} search_ids={:?} self_dist=[{}] saved_ids={:?} saved_tombstones={:?}",
        len,
        tombs,
        dim,
        members,
        selfdesc.join(","),
        pvecs.iter().map(|e| e.0).collect::<Vec<_>>(),
        ptombs
    );
    Obs { coq, desc, tombs }
}

/// run one history on the real index; returns (coq steps, description, panicked, stats)
fn run_history(cfg: &HnswConfig, ops: &[Op], tmp: &std::path::Path) -> (Vec<String>, Vec<String>, bool, Vec<&'static str>) {
    let mut index = HnswIndex::new(cfg.clone());
    let mut steps = vec![];
    let mut desc = vec![];
    let mut stats = vec![];
    let mut panicked = false;
    let dir = tmp.join("idx");
    for o in ops {
        let before_tombs = index.tombstone_count();
        let res = catch(AssertUnwindSafe(|| {
            let ok = match o {
                Op::Ins(id, v) => index.insert(*id, v).is_ok(),
                Op::Batch(es) => index.insert_batch(es).is_ok(),
                Op::Del(id) => {
                    index.delete(*id);
                    true
                }
                Op::Rebuild(es) => index.rebuild(es).is_ok(),
                Op::SaveLoad => {
                    let d2 = tmp.join("sl");
                    index.save(&d2).expect("save");
                    index = HnswIndex::load(&d2).expect("load");
                    true
                }
            };
            let obs = observe(&index, &dir);
            (ok, obs)
        }));
        match res {
            Ok((ok, obs)) => {
                if let Op::Del(_) = o {
                    stats.push(if obs.tombs > before_tombs { "delete-left-a-tombstone" } else { "delete-compacted-or-ignored" });
                }
                if !ok {
                    stats.push("op-rejected");
                }
                steps.push(format!("C25Step {} {} {}", op_coq(o), coq_bool(ok), obs.coq));
                desc.push(format!("{} -> ok={} {}", op_desc(o), ok, obs.desc));
            }
            Err(msg) => {
                panicked = true;
                desc.push(format!("{} -> PANIC {}", op_desc(o), msg));
                break;
            }
        }
    }
    (steps, desc, panicked, stats)
}

const COMPONENTS: [f32; 12] = [0.0, 1.0, -1.0, 2.0, -2.0, 3.0, 0.5, -0.25, 7.0, 1e-3, 1e-6, 100.0];

fn gen_vec(r: &mut Rng, dim: usize) -> Vec<f32> {
    match r.below(20) {
        0 => vec![0.0; dim],                                  // zero vector (rejected for cosine / dot)
        1 => (0..dim).map(|_| *r.pick(&[1e-12f32, -1e-12, 0.0])).collect(), // norm below 1e-10
        2 => (0..dim).map(|_| *r.pick(&[1e-5f32, -1e-5, 2e-5])).collect(),  // near-zero but accepted
        _ => {
            let mut v: Vec<f32> = (0..dim).map(|_| *r.pick(&COMPONENTS)).collect();
            if v.iter().all(|x| *x == 0.0) && r.chance(3, 4) {
                v[0] = 1.0;
            }
            v
        }
    }
}

fn gen_history(r: &mut Rng) -> (HnswConfig, Vec<Op>) {
    let cfg = HnswConfig {
        m: *r.pick(&[4usize, 8, 16]),
        ef_construction: *r.pick(&[20usize, 100, 200]),
        ef_search: *r.pick(&[1usize, 8, 32, 50]),
        metric: *r.pick(&METRICS),
    };
    let dim = r.range(1, 4) as usize;
    let nid = r.range(2, 10) as u64;
    let big = r.chance(1, 10);
    let idof = |k: u64| -> usize {
        if big {
            (k as usize) * 1_000_003 + (1usize << 40)
        } else {
            k as usize
        }
    };
    let nops = r.range(1, 40);
    let mut ops: Vec<Op> = vec![];
    // ids believed stored-and-live / tombstoned by the generator (only to steer the choice of ids)
    let mut live: Vec<u64> = vec![];
    for _ in 0..nops {
        let roll = r.below(100);
        if roll < 45 {
            let k = r.below(nid);
            ops.push(Op::Ins(idof(k), gen_vec(r, dim)));
            if !live.contains(&k) {
                live.push(k);
            }
        } else if roll < 65 {
            // delete, mostly of an identifier that is live
            let k = if !live.is_empty() && r.chance(5, 6) { live.remove(r.below(live.len() as u64) as usize) } else { r.below(nid + 2) };
            ops.push(Op::Del(idof(k)));
        } else if roll < 72 {
            // re-insert right after a delete (an "update" as incremental.rs issues it: delete, then insert)
            if !live.is_empty() {
                let k = *r.pick(&live);
                ops.push(Op::Del(idof(k)));
                ops.push(Op::Ins(idof(k), gen_vec(r, dim)));
            }
        } else if roll < 79 {
            let n = r.below(6);
            let mut ids: Vec<u64> = (0..nid).collect();
            r.shuffle(&mut ids);
            let d2 = if r.chance(1, 5) { r.range(1, 4) as usize } else { dim };
            let es: Vec<(usize, Vec<f32>)> = ids.iter().take(n as usize).map(|k| (idof(*k), gen_vec(r, d2))).collect();
            live = ids.iter().take(n as usize).cloned().collect();
            ops.push(Op::Rebuild(es));
        } else if roll < 89 {
            ops.push(Op::SaveLoad);
        } else if roll < 95 {
            let n = r.range(1, 4);
            let mut es: Vec<(usize, Vec<f32>)> = vec![];
            for _ in 0..n {
                let k = r.below(nid);
                es.push((idof(k), gen_vec(r, dim)));
                if !live.contains(&k) {
                    live.push(k);
                }
            }
            if r.chance(1, 3) {
                // an invalid entry somewhere in the batch
                let pos = r.below(es.len() as u64 + 1) as usize;
                es.insert(pos, (idof(r.below(nid)), if r.chance(1, 2) { vec![] } else { vec![1.0; dim + 1] }));
            }
            ops.push(Op::Batch(es));
        } else {
            // malformed inserts: empty vector, wrong dimension
            let k = r.below(nid);
            let v = match r.below(3) {
                0 => vec![],
                1 => vec![1.0; dim + 1],
                _ => vec![0.0; dim],
            };
            ops.push(Op::Ins(idof(k), v));
        }
    }
    (cfg, ops)
}

fn corpus() -> Vec<(&'static str, HnswConfig, Vec<Op>)> {
    let c = |metric| HnswConfig { m: 8, ef_construction: 100, ef_search: 32, metric };
    let four = |_: ()| -> Vec<Op> { (0..4).map(|i| Op::Ins(i, vec![i as f32, 1.0])).collect() };
    let mut out = vec![];
    // deleted identifier must not be returned while its tombstone is pending
    let mut h = four(());
    h.push(Op::Del(0));
    out.push(("deleted-id-still-returned", c(DistanceMetric::Euclidean), h));
    // delete then insert of the same identifier (an update): the new vector must be reachable
    let mut h = four(());
    h.push(Op::Del(1));
    h.push(Op::Ins(1, vec![5.0, 5.0]));
    h.push(Op::SaveLoad);
    out.push(("reinsert-after-delete", c(DistanceMetric::Manhattan), h));
    // delete of an identifier that was never stored
    let mut h = four(());
    h.push(Op::Del(99));
    h.push(Op::Ins(99, vec![9.0, 9.0]));
    out.push(("delete-unknown-id", c(DistanceMetric::Euclidean), h));
    // a batch that fails half-way
    let mut h = four(());
    h.push(Op::Batch(vec![(7, vec![7.0, 7.0]), (8, vec![]), (9, vec![9.0, 9.0])]));
    h.push(Op::SaveLoad);
    out.push(("batch-fails-half-way", c(DistanceMetric::Euclidean), h));
    // compaction at the 30 % threshold, exactly 3 of 10 is not above it
    let mut h: Vec<Op> = (0..10).map(|i| Op::Ins(i, vec![i as f32 + 1.0, 0.0])).collect();
    h.extend([Op::Del(2), Op::Del(5), Op::Del(8), Op::SaveLoad, Op::Del(9)]);
    out.push(("threshold-3-of-10", c(DistanceMetric::Cosine), h));
    // deleting the only vector resets the dimension
    out.push(("delete-last-resets-dimension", c(DistanceMetric::DotProduct), vec![Op::Ins(3, vec![1.0, 2.0, 2.0]), Op::Del(3), Op::Ins(4, vec![1.0])]));
    out.push(("rebuild-empty", c(DistanceMetric::Euclidean), vec![Op::Ins(0, vec![1.0]), Op::Rebuild(vec![]), Op::SaveLoad, Op::Ins(1, vec![1.0, 2.0])]));
    out
}

fn emit(sink: &mut Sink, name: &str, cfg: &HnswConfig, ops: &[Op], tmp: &std::path::Path) {
    let depth = ops.len() + 2;
    let mut tab = NormTable::new();
    if needs_norm(cfg.metric) {
        for o in ops {
            match o {
                Op::Ins(_, v) => tab.add(v, depth),
                Op::Batch(es) | Op::Rebuild(es) => {
                    for (_, v) in es {
                        tab.add(v, depth)
                    }
                }
                _ => {}
            }
        }
    }
    let (steps, desc, panicked, stats) = run_history(cfg, ops, tmp);
    for s in stats {
        sink.tally(&format!("event:{}", s));
    }
    for o in ops {
        sink.tally(match o {
            Op::Ins(..) => "op:insert",
            Op::Batch(..) => "op:insert_batch",
            Op::Del(..) => "op:delete",
            Op::Rebuild(..) => "op:rebuild",
            Op::SaveLoad => "op:save_load",
        });
    }
    sink.tally(&format!("metric:{}", metric_coq(cfg.metric)));
    sink.tally(&format!("history_len:{}", (ops.len() / 10) * 10));
    let coq = format!("C25Case {} {} {} {}", config_coq(cfg), tab.coq(), coq_list(&steps.iter().map(|s| format!("({})", s)).collect::<Vec<_>>()), coq_bool(panicked));
    // non-trivial: at least one accepted insert/rebuild and one delete / update / save-load after it
    let mut stored = false;
    let mut nontriv = false;
    let mut seen: Vec<usize> = vec![];
    for o in ops {
        match o {
            Op::Ins(id, v) if !v.is_empty() => {
                if seen.contains(id) {
                    nontriv = true;
                }
                seen.push(*id);
                stored = true;
            }
            Op::Rebuild(es) if !es.is_empty() => stored = true,
            Op::Del(_) | Op::SaveLoad if stored => nontriv = true,
            _ => {}
        }
    }
    let key = if nontriv && !panicked { Some(format!("{:?} {:?}", cfg, ops)) } else { None };
    sink.push(
        coq,
        serde_json::json!({"name": name, "config": format!("{:?}", cfg), "history_with_observations": desc, "panicked": panicked}),
        &[if name == "random" { "random" } else { "corpus" }],
        key,
    );
}

fn main() {
    let args = parse_args();
    let mut rng = Rng::new(args.seed);
    let mut sink = Sink::new(&args, "From IL Require Import Checks.C25.", "c25case", "c25_check", 20);
    let tmp = tempfile::tempdir().expect("tmpdir");
    for (name, cfg, ops) in corpus() {
        if sink.wants(sink.next_idx()) {
            emit(&mut sink, name, &cfg, &ops, tmp.path());
        } else {
            sink.push(String::new(), serde_json::json!(null), &[], None);
        }
    }
    while sink.count < args.n {
        let (cfg, ops) = gen_history(&mut rng);
        if sink.wants(sink.next_idx()) {
            emit(&mut sink, "random", &cfg, &ops, tmp.path());
        } else {
            sink.push(String::new(), serde_json::json!(null), &[], None);
        }
    }
    sink.finish();
}
