//! C31 — Value / Tuple comparison is a total order consistent with equality and hashing.
//! Evaluates the REAL `==`, `Ord::cmp` and `Hash::hash` (into a recording hasher and into
//! `DefaultHasher`) on pairs and triples over a fixed domain of representative values of every kind
//! (all pairs always; all triples when `--n` is large enough, a seeded sample otherwise), on random
//! bit-pattern floats, and on random tuples; and the REAL `consolidate_to_current` (sort by Tuple::cmp, merge
//! adjacent == data) on random update lists, the consumer of these laws. Emits cases for Checks/C31.v.
use inputlayer::storage::persist::{consolidate_to_current, Update};
use inputlayer::value::{Tuple, Value};
use std::cmp::Ordering;
use std::collections::hash_map::DefaultHasher;
use std::hash::{Hash, Hasher};
use vharness::*;

/// A hasher that records every `write` call (all other methods keep their default
/// implementations, which funnel into `write`).
struct Rec(Vec<Vec<u8>>);
impl Hasher for Rec {
    fn finish(&self) -> u64 {
        0
    }
    fn write(&mut self, bytes: &[u8]) {
        self.0.push(bytes.to_vec());
    }
}
fn feed<T: Hash>(x: &T) -> Vec<Vec<u8>> {
    let mut r = Rec(vec![]);
    x.hash(&mut r);
    r.0
}
fn dh<T: Hash>(x: &T) -> u64 {
    let mut h = DefaultHasher::new();
    x.hash(&mut h);
    h.finish()
}
fn coq_feed(f: &[Vec<u8>]) -> String {
    let chunks: Vec<String> =
        f.iter().map(|c| coq_list(&c.iter().map(|b| coq_n(*b as u128)).collect::<Vec<_>>())).collect();
    coq_list(&chunks)
}
fn coq_ord(o: Ordering) -> &'static str {
    match o {
        Ordering::Less => "Lt",
        Ordering::Equal => "Eq",
        Ordering::Greater => "Gt",
    }
}

/// Exhaustive on purpose: a new `Value` variant is a build error until it is represented here.
fn kind(v: &Value) -> &'static str {
    match v {
        Value::Int32(_) => "Int32",
        Value::Int64(_) => "Int64",
        Value::Float64(_) => "Float64",
        Value::String(_) => "String",
        Value::Bool(_) => "Bool",
        Value::Null => "Null",
        Value::Vector(_) => "Vector",
        Value::VectorInt8(_) => "VectorInt8",
        Value::Timestamp(_) => "Timestamp",
    }
}

fn f(bits: u64) -> Value {
    Value::Float64(f64::from_bits(bits))
}
fn vecf(bits: &[u32]) -> Value {
    Value::vector(bits.iter().map(|b| f32::from_bits(*b)).collect())
}

pub fn domain() -> Vec<Value> {
    vec![
        Value::Null,
        Value::Bool(false),
        Value::Bool(true),
        Value::Int32(i32::MIN),
        Value::Int32(-1),
        Value::Int32(0),
        Value::Int32(1),
        Value::Int32(i32::MAX),
        Value::Int64(i64::MIN),
        Value::Int64(-1),
        Value::Int64(0),
        Value::Int64(1),
        Value::Int64((1i64 << 53) + 1),
        Value::Int64(i64::MAX),
        f(0x7FF8_0000_0000_0000), // NaN
        f(0xFFF8_0000_0000_0000), // -NaN
        f(0x7FF0_0000_0000_0001), // signalling NaN
        f(0x7FF0_0000_0000_0000), // +inf
        f(0xFFF0_0000_0000_0000), // -inf
        f(0),                     // 0.0
        f(0x8000_0000_0000_0000), // -0.0
        f(0x3FF0_0000_0000_0000), // 1.0
        f(0xBFF0_0000_0000_0000), // -1.0
        f(1),                     // smallest subnormal
        f(0x4000_0000_0000_0000), // 2.0
        Value::Timestamp(-1),
        Value::Timestamp(0),
        Value::Timestamp(1),
        Value::string(""),
        Value::string("a"),
        Value::string("ab"),
        Value::string("b"),
        Value::string("\u{e9}"),
        Value::string("\u{ffff}"),
        Value::string("\u{10000}"),
        vecf(&[]),
        vecf(&[0]),
        vecf(&[0x8000_0000]),          // [-0.0]
        vecf(&[0x7FC0_0000]),          // [NaN]
        vecf(&[0x3F80_0000]),          // [1.0]
        vecf(&[0xBF80_0000]),          // [-1.0]
        vecf(&[0x3F80_0000, 0x4000_0000]),
        vecf(&[0, 0]),
        Value::VectorInt8(std::sync::Arc::new(vec![])),
        Value::VectorInt8(std::sync::Arc::new(vec![0])),
        Value::VectorInt8(std::sync::Arc::new(vec![-1])),
        Value::VectorInt8(std::sync::Arc::new(vec![1])),
        Value::VectorInt8(std::sync::Arc::new(vec![-128])),
        Value::VectorInt8(std::sync::Arc::new(vec![1, 2])),
        Value::VectorInt8(std::sync::Arc::new(vec![0, 0])),
    ]
}

fn random_value(r: &mut Rng, dom: &[Value]) -> Value {
    match r.below(10) {
        0 => f(r.next()),                                                                  // any bit pattern
        1 => f([0x7FF0_0000_0000_0000u64, 0xFFF0_0000_0000_0000, 0, 1 << 63][r.below(4) as usize] | (r.next() >> 12)), // NaN payloads / subnormals
        2 => Value::Int64(r.next() as i64),
        3 => Value::Int32(r.next() as i32),
        4 => {
            let n = r.below(4) as usize;
            vecf(&(0..n).map(|_| [0u32, 0x8000_0000, 0x7FC0_0000, 0xFFC0_0001, 0x3F80_0000][r.below(5) as usize]).collect::<Vec<_>>())
        }
        5 => {
            let n = r.below(4) as usize;
            let cs = ['a', 'b', '\u{7f}', '\u{80}', '\u{7ff}', '\u{800}', '\u{ffff}', '\u{10000}', '\u{10ffff}'];
            Value::string(&(0..n).map(|_| *r.pick(&cs)).collect::<String>())
        }
        _ => r.pick(dom).clone(),
    }
}

fn pair_case(a: &Value, b: &Value) -> (String, serde_json::Value) {
    let coq = format!(
        "(C31Pair {} {} {} {} {} {} {} {} {})",
        coq_value(a), coq_value(b), coq_ord(a.cmp(b)), coq_ord(b.cmp(a)), coq_bool(a == b), coq_bool(b == a),
        coq_feed(&feed(a)), coq_feed(&feed(b)), coq_bool(dh(a) == dh(b))
    );
    (coq, serde_json::json!({"pair": [format!("{:?}", a), format!("{:?}", b)], "cmp": format!("{:?}", a.cmp(b)), "eq": a == b}))
}
fn triple_case(a: &Value, b: &Value, c: &Value) -> (String, serde_json::Value, bool) {
    let (ab, bc, ac) = (a.cmp(b), b.cmp(c), a.cmp(c));
    let coq = format!(
        "(C31Triple {} {} {} {} {} {} {} {} {})",
        coq_value(a), coq_value(b), coq_value(c), coq_ord(ab), coq_ord(bc), coq_ord(ac),
        coq_bool(a == b), coq_bool(b == c), coq_bool(a == c)
    );
    let chain = (ab != Ordering::Greater && bc != Ordering::Greater) || (ab != Ordering::Less && bc != Ordering::Less);
    (coq, serde_json::json!({"triple": [format!("{:?}", a), format!("{:?}", b), format!("{:?}", c)],
        "cmp": [format!("{:?}", ab), format!("{:?}", bc), format!("{:?}", ac)]}), chain)
}

fn random_tuple(r: &mut Rng, dom: &[Value]) -> Tuple {
    let n = r.below(5) as usize;
    Tuple::new((0..n).map(|_| if r.chance(3, 4) { r.pick(dom).clone() } else { random_value(r, dom) }).collect())
}
/// a tuple related to `t`: equal, one position changed, truncated, or extended (exercises ties and prefixes)
fn related(r: &mut Rng, t: &Tuple, dom: &[Value]) -> Tuple {
    let mut v: Vec<Value> = t.values().to_vec();
    match r.below(5) {
        0 => {}
        1 if !v.is_empty() => {
            let i = r.below(v.len() as u64) as usize;
            v[i] = random_value(r, dom);
        }
        2 if !v.is_empty() => {
            v.pop();
        }
        3 => v.push(random_value(r, dom)),
        _ => return random_tuple(r, dom),
    }
    Tuple::new(v)
}

fn main() {
    let args = parse_args();
    std::panic::set_hook(Box::new(|_| {}));
    let mut rng = Rng::new(args.seed);
    let mut sink = Sink::new(&args, "From IL Require Import Checks.C31.", "c31case", "c31_check", 1000);
    let dom = domain();
    let d = dom.len();

    // ---- corpus: witnesses of the pre-repair defects (NaN = everything; 0.0 vs -0.0; vector IEEE equality)
    let nan = f(0x7FF8_0000_0000_0000);
    for (a, b, c) in [
        (f(0x4000_0000_0000_0000), nan.clone(), f(0x3FF0_0000_0000_0000)),
        (f(0), f(1 << 63), f(0)),
        (vecf(&[0x7FC0_0000]), vecf(&[0x7FC0_0000]), vecf(&[0])),
        (vecf(&[0]), vecf(&[0x8000_0000]), vecf(&[0])),
    ] {
        for (x, y) in [(&a, &b), (&b, &c), (&a, &c), (&a, &a), (&b, &b)] {
            let (coq, desc) = pair_case(x, y);
            sink.tally("corpus_pair");
            sink.push(coq, desc.clone(), &["corpus"], Some(desc.to_string()));
        }
        let (coq, desc, _) = triple_case(&a, &b, &c);
        sink.tally("corpus_triple");
        sink.push(coq, desc.clone(), &["corpus"], Some(desc.to_string()));
    }

    // ---- all ordered pairs over the domain (rule: every pair is non-trivial — it exercises
    //      cmp=Equal <=> ==, antisymmetry and, when equal, hash congruence)
    for a in &dom {
        for b in &dom {
            let (coq, desc) = pair_case(a, b);
            sink.tally(&format!("pair:{}x{}", kind(a), kind(b)));
            if a == b {
                sink.tally("pair_equal");
            }
            sink.push(coq, desc.clone(), &["domain_pair"], Some(desc.to_string()));
        }
    }

    // ---- triples over the domain: all of them when the budget allows, else a seeded sample.
    //      rule: a triple is non-trivial when a transitivity premise holds (a<=b<=c or a>=b>=c)
    let all = d * d * d;
    let budget = args.n * 4;
    let exhaustive = budget >= all;
    let mut emit_triple = |sink: &mut Sink, a: &Value, b: &Value, c: &Value, tag: &str| {
        let (coq, desc, chain) = triple_case(a, b, c);
        sink.tally(if chain { "triple_premise_holds" } else { "triple_premise_vacuous" });
        sink.push(coq, desc.clone(), &[tag], if chain { Some(desc.to_string()) } else { None });
    };
    if exhaustive {
        for a in &dom {
            for b in &dom {
                for c in &dom {
                    emit_triple(&mut sink, a, b, c, "domain_triple_exhaustive");
                }
            }
        }
        sink.tally("triples_exhaustive");
    } else {
        for _ in 0..budget {
            let (a, b, c) = (rng.pick(&dom).clone(), rng.pick(&dom).clone(), rng.pick(&dom).clone());
            // bias toward same-kind triples half of the time (cross-kind ones are decided by rank alone)
            let (b, c) = if rng.chance(1, 2) {
                let same: Vec<&Value> = dom.iter().filter(|x| kind(x) == kind(&a)).collect();
                ((*rng.pick(&same)).clone(), (*rng.pick(&same)).clone())
            } else {
                (b, c)
            };
            emit_triple(&mut sink, &a, &b, &c, "domain_triple_sampled");
        }
    }

    // ---- random values (arbitrary float bit patterns, NaN payloads, strings over UTF-8 boundaries)
    for _ in 0..args.n {
        let a = random_value(&mut rng, &dom);
        let b = if rng.chance(1, 4) { a.clone() } else { random_value(&mut rng, &dom) };
        let c = random_value(&mut rng, &dom);
        let (coq, desc) = pair_case(&a, &b);
        sink.tally("random_pair");
        sink.push(coq, desc.clone(), &["random_pair"], Some(desc.to_string()));
        emit_triple(&mut sink, &a, &b, &c, "random_triple");
    }

    // ---- random tuples: pairs and triples of related tuples
    for _ in 0..args.n {
        let a = random_tuple(&mut rng, &dom);
        let b = related(&mut rng, &a, &dom);
        let c = related(&mut rng, &b, &dom);
        let (ab, ba) = (a.cmp(&b), b.cmp(&a));
        let coq = format!(
            "(C31TPair {} {} {} {} {} {} {} {} {})",
            coq_tuple(&a), coq_tuple(&b), coq_ord(ab), coq_ord(ba), coq_bool(a == b), coq_bool(b == a),
            coq_feed(&feed(&a)), coq_feed(&feed(&b)), coq_bool(dh(&a) == dh(&b))
        );
        let desc = serde_json::json!({"tuple_pair": [format!("{:?}", a.values()), format!("{:?}", b.values())], "cmp": format!("{:?}", ab), "eq": a == b});
        sink.tally(&format!("tuple_pair_arity:{}x{}", a.arity(), b.arity()));
        if a == b {
            sink.tally("tuple_pair_equal");
        }
        sink.push(coq, desc.clone(), &["tuple_pair"], Some(desc.to_string()));
        let (bc, ac) = (b.cmp(&c), a.cmp(&c));
        let coq = format!(
            "(C31TTriple {} {} {} {} {} {} {} {} {})",
            coq_tuple(&a), coq_tuple(&b), coq_tuple(&c), coq_ord(ab), coq_ord(bc), coq_ord(ac),
            coq_bool(a == b), coq_bool(b == c), coq_bool(a == c)
        );
        let chain = (ab != Ordering::Greater && bc != Ordering::Greater) || (ab != Ordering::Less && bc != Ordering::Less);
        let desc = serde_json::json!({"tuple_triple": [format!("{:?}", a.values()), format!("{:?}", b.values()), format!("{:?}", c.values())],
            "cmp": [format!("{:?}", ab), format!("{:?}", bc), format!("{:?}", ac)]});
        sink.tally(if chain { "tuple_triple_premise_holds" } else { "tuple_triple_premise_vacuous" });
        sink.push(coq, desc.clone(), &["tuple_triple"], if chain { Some(desc.to_string()) } else { None });
    }
    // ---- the consumer of the laws: consolidate_to_current on random update lists over few distinct
    //      tuples (so that equal data occur often), floats incl. NaN / -0.0, mixed kinds and arities
    let coq_upds = |us: &[Update]| -> String {
        coq_list(&us.iter().map(|u| format!("(mkUpd {} {} {})", coq_tuple(&u.data), coq_n(u.time as u128), coq_z(u.diff as i128))).collect::<Vec<_>>())
    };
    for _ in 0..(args.n / 2) {
        let npool = rng.range(1, 6) as usize;
        let pool: Vec<Tuple> = (0..npool).map(|_| random_tuple(&mut rng, &dom)).collect();
        let nupd = rng.range(0, 24) as usize;
        let input: Vec<Update> = (0..nupd)
            .map(|i| Update { data: rng.pick(&pool).clone(), time: i as u64, diff: *rng.pick(&[1i64, 1, 1, -1, -1, 2, -2, 0]) })
            .collect();
        let mut out = input.clone();
        let r = catch(std::panic::AssertUnwindSafe(|| consolidate_to_current(&mut out)));
        let panicked = r.is_err();
        let coq = format!("(C31Cons {} {} {})", coq_upds(&input), coq_bool(panicked), coq_upds(if panicked { &[] } else { &out }));
        let show = |us: &[Update]| us.iter().map(|u| format!("({:?}, t{}, {:+})", u.data.values(), u.time, u.diff)).collect::<Vec<_>>();
        let desc = serde_json::json!({"consolidate_to_current": show(&input), "output": show(&out), "panicked": r.err()});
        sink.tally("consolidate");
        let merged = out.len() < input.len();
        sink.push(coq, desc.clone(), &["consolidate"], if merged { Some(desc.to_string()) } else { None });
    }
    sink.tally_n("domain_size", d as u64);
    sink.finish();
}
