//! C05 — IR rewrite passes preserve plan semantics.
//! Drives the REAL Optimizer::optimize / JoinPlanner::plan_joins / BooleanSpecializer::specialize on
//! (a) random well-formed IR trees over every node kind and predicate constructor and
//! (b) trees produced by the real IRBuilder from generated rule text,
//! executes input and output trees with the real CodeGenerator::execute on random databases and
//! emits everything as `c05case` terms for Checks/C05.v.
#[path = "../ir_common.rs"]
mod ir_common;
use inputlayer::ir::{IRNode, Predicate};
use inputlayer::value::{Tuple, Value};
use inputlayer::{BooleanSpecializer, IQLEngine, JoinPlanner, OptimizationConfig, Optimizer, SemiringType};
use ir_common::*;
use vharness::*;

fn i(x: i64) -> Value {
    Value::Int64(x)
}
fn tup(xs: &[i64]) -> Tuple {
    Tuple::new(xs.iter().map(|x| i(*x)).collect())
}
fn scan(rel: &str, cols: &[&str]) -> IRNode {
    IRNode::Scan { relation: rel.into(), schema: cols.iter().map(|s| s.to_string()).collect() }
}
fn sv(xs: &[&str]) -> Vec<String> {
    xs.iter().map(|s| s.to_string()).collect()
}

struct Ctx {
    sink: Sink,
}

impl Ctx {
    /// Run one pass on one tree over one database and emit the case.
    /// pass: 0 optimizer, 1 join planner, 2 boolean specializer, 3 planner+specializer+optimizer,
    /// 4 planner+optimizer
    fn emit(&mut self, pass: u8, intended_wf: bool, rels: &[(String, Vec<Tuple>)], t: &IRNode, tags: &[&str], origin: &str) {
        let t0 = t.clone();
        let out: Result<(IRNode, Option<SemiringType>), String> = catch(std::panic::AssertUnwindSafe(move || match pass {
            0 => (Optimizer::new().optimize(t0), None),
            1 => (JoinPlanner::new().plan_joins(t0), None),
            2 => {
                let (t1, ann) = BooleanSpecializer::new().specialize(t0);
                (t1, Some(ann.semiring))
            }
            3 => {
                let t1 = JoinPlanner::new().plan_joins(t0);
                let (t2, ann) = BooleanSpecializer::new().specialize(t1);
                (Optimizer::new().optimize(t2), Some(ann.semiring))
            }
            _ => (Optimizer::new().optimize(JoinPlanner::new().plan_joins(t0)), None),
        }));
        let r_in = exec_ir(t, rels, None);
        let (topt, r_out) = match &out {
            Ok((t1, sem)) => (Some(t1.clone()), exec_ir(t1, rels, *sem)),
            Err(e) => (None, Err(e.clone())),
        };
        let mut nm = Names::default();
        let ct = coq_ir(&mut nm, t);
        let ctopt = match &topt {
            Some(t1) => coq_ir(&mut nm, t1).map(|s| format!("(Some {})", s)),
            None => Some("None".to_string()),
        };
        let cdb = coq_db(&mut nm, rels);
        let coq = match (ct, ctopt) {
            (Some(ct), Some(ctopt)) => format!(
                "C05Case {} {} {} {} {} {} {}",
                coq_n(pass as u128),
                coq_bool(intended_wf),
                cdb,
                ct,
                ctopt,
                coq_result(&r_in),
                coq_result(&r_out)
            ),
            _ => format!("C05Oracle {} {} {}", coq_n(pass as u128), coq_result(&r_in), coq_result(&r_out)),
        };
        let n_in = r_in.as_ref().map(|v| v.len()).unwrap_or(0);
        let changed = topt.as_ref().map(|t1| t1 != t).unwrap_or(false);
        let pass_name = ["Optimizer::optimize", "JoinPlanner::plan_joins", "BooleanSpecializer::specialize", "plan_joins;specialize;optimize", "plan_joins;optimize"][pass as usize];
        let desc = serde_json::json!({
            "origin": origin, "pass": pass_name,
            "db": rels.iter().map(|(r, ts)| format!("{} = {:?}", r, ts)).collect::<Vec<_>>(),
            "tree": format!("{:?}", t),
            "tree_after_pass": topt.as_ref().map(|x| format!("{:?}", x)),
            "execute_before": r_in.as_ref().map(|v| format!("{:?}", sorted(v.clone()))).unwrap_or_else(|e| format!("ERR {}", e)),
            "execute_after": r_out.as_ref().map(|v| format!("{:?}", sorted(v.clone()))).unwrap_or_else(|e| format!("ERR {}", e)),
        });
        self.sink.tally(&format!("pass:{}", pass));
        self.sink.tally(if changed { "pass_changed_tree:yes" } else { "pass_changed_tree:no" });
        self.sink.tally(&format!("result_rows:{}", if n_in == 0 { "0".to_string() } else if n_in < 4 { "1-3".to_string() } else { "4+".to_string() }));
        self.sink.tally(&format!("nodes:{}", match node_count(t) { 0..=2 => "1-2", 3..=6 => "3-6", 7..=14 => "7-14", _ => "15+" }));
        // non-trivial: the pass changed the tree and the answer is non-empty
        let key = if changed && n_in > 0 { Some(format!("{} {:?} {:?}", pass, t, rels)) } else { None };
        self.sink.push(coq, desc, tags, key);
    }
}

/// rule text over the relations of `gen_db` (r0(Int,Int) r1(Int,Int) r2(Int,Str,Int) r3(Int) r6(Int,Int,Int) r7(Int x4))
fn gen_clause(r: &mut Rng, head_vars: &[&str], agg: Option<&str>) -> String {
    let pool = ["X", "Y", "Z", "W"];
    let mut atoms: Vec<String> = vec![];
    let mut bound: Vec<String> = vec![];
    let n = r.range(1, 3);
    for k in 0..n {
        let rel = *r.pick(&["r0", "r1", "r0", "r1", "r3", "r2", "r6", "r6", "r7"]);
        let arity = match rel {
            "r3" => 1,
            "r2" | "r6" => 3,
            "r7" => 4,
            _ => 2,
        };
        let mut args = vec![];
        for a in 0..arity {
            if rel == "r2" && a == 1 {
                args.push(if r.chance(1, 2) { "_".to_string() } else { "\"a\"".to_string() });
                continue;
            }
            // later atoms reuse bound variables at ANY position, so join keys come in every order
            let v = if k > 0 && !bound.is_empty() && (if a == 0 { r.chance(3, 4) } else { r.chance(2, 5) }) {
                bound[r.below(bound.len() as u64) as usize].clone()
            } else if r.chance(1, 10) {
                format!("{}", r.range(0, 3))
            } else if r.chance(1, 12) {
                "_".to_string()
            } else {
                pool[r.below(4) as usize].to_string()
            };
            if v.chars().next().unwrap().is_ascii_uppercase() && !bound.contains(&v) {
                bound.push(v.clone());
            }
            args.push(v);
        }
        atoms.push(format!("{}({})", rel, args.join(", ")));
    }
    // make sure every head variable is bound
    for hv in head_vars.iter().chain(agg.iter()) {
        if !bound.contains(&hv.to_string()) {
            let other = if bound.is_empty() { "_".to_string() } else { bound[r.below(bound.len() as u64) as usize].clone() };
            if r.chance(1, 2) {
                atoms.push(format!("r0({}, {})", other, hv));
            } else {
                atoms.push(format!("r1({}, {})", hv, other));
            }
            bound.push(hv.to_string());
            if other != "_" && !bound.contains(&other) {
                bound.push(other);
            }
        }
    }
    // comparisons / negation
    if r.chance(1, 2) && !bound.is_empty() {
        let v = bound[r.below(bound.len() as u64) as usize].clone();
        let op = *r.pick(&[">", "<", ">=", "<=", "!=", "="]);
        if r.chance(1, 3) && bound.len() > 1 {
            let w = bound[r.below(bound.len() as u64) as usize].clone();
            if w != v {
                atoms.push(format!("{} {} {}", v, op, w));
            }
        } else {
            atoms.push(format!("{} {} {}", v, op, r.range(0, 3)));
        }
    }
    if r.chance(1, 5) && !bound.is_empty() {
        let v = bound[r.below(bound.len() as u64) as usize].clone();
        atoms.push(format!("!r3({})", v));
    }
    let mut head: Vec<String> = head_vars.iter().map(|s| s.to_string()).collect();
    if let Some(a) = agg {
        head.push(a.to_string());
    }
    let _ = head;
    atoms.join(", ")
}

fn main() {
    let args = parse_args();
    let mut rng = Rng::new(args.seed);
    let sink = Sink::new(&args, "From IL Require Import Checks.C05.", "c05case", "c05_check", 12);
    let mut cx = Ctx { sink };

    // ------------------------------------------------------------ corpus
    {
        // filter on a right-side non-key column above a join (DESIGN §9 row 6)
        let rels = vec![
            ("r0".to_string(), vec![tup(&[1, 2]), tup(&[3, 9])]),
            ("r1".to_string(), vec![tup(&[2, 7]), tup(&[9, 1]), tup(&[6, 6])]),
        ];
        let t = IRNode::Filter {
            input: Box::new(IRNode::Join {
                left: Box::new(scan("r0", &["X", "Y"])),
                right: Box::new(scan("r1", &["Y", "Z"])),
                left_keys: vec![1],
                right_keys: vec![0],
                output_schema: sv(&["X", "Y", "Z"]),
            }),
            predicate: Predicate::ColumnGtConst(2, 5),
        };
        cx.emit(0, true, &rels, &t, &["corpus", "pushdown-right"], "corpus");
        // same with the key in the middle of the right relation and a two-column predicate
        let rels2 = vec![
            ("r0".to_string(), vec![tup(&[1, 2]), tup(&[3, 9])]),
            ("r2".to_string(), vec![tup(&[5, 2, 7]), tup(&[8, 9, 1])]),
        ];
        let t2 = IRNode::Map {
            input: Box::new(IRNode::Filter {
                input: Box::new(IRNode::Join {
                    left: Box::new(scan("r0", &["X", "Y"])),
                    right: Box::new(scan("r2", &["A", "Y", "Z"])),
                    left_keys: vec![1],
                    right_keys: vec![1],
                    output_schema: sv(&["X", "Y", "A", "Z"]),
                }),
                predicate: Predicate::ColumnsLt(2, 3),
            }),
            projection: vec![0, 3],
            output_schema: sv(&["X", "Z"]),
        };
        cx.emit(0, true, &rels2, &t2, &["corpus", "pushdown-right"], "corpus");
        // an always-false branch in front of a union under a join: the schema width of the union changes
        let t3 = IRNode::Filter {
            input: Box::new(IRNode::Join {
                left: Box::new(IRNode::Union {
                    inputs: vec![
                        IRNode::Filter { input: Box::new(scan("r0", &["X", "Y"])), predicate: Predicate::False },
                        scan("r0", &["X", "Y"]),
                    ],
                }),
                right: Box::new(scan("r1", &["Y", "Z"])),
                left_keys: vec![1],
                right_keys: vec![0],
                output_schema: sv(&["X", "Y", "Z"]),
            }),
            predicate: Predicate::ColumnGtConst(0, 2),
        };
        cx.emit(0, true, &rels, &t3, &["corpus", "void-first-union"], "corpus");
        let rels3 = vec![("r0".to_string(), vec![tup(&[3, 1])]), ("r1".to_string(), vec![tup(&[1, 0])])];
        cx.emit(0, true, &rels3, &t3, &["corpus", "void-first-union"], "corpus");
    }
    // union of two joins under the join planner (DESIGN §9 row 4), through the real IR builder
    {
        let rels = vec![
            ("r0".to_string(), vec![tup(&[1, 2])]),
            ("r1".to_string(), vec![tup(&[2, 3])]),
            ("r3".to_string(), vec![tup(&[5])]),
        ];
        let src = "q(X, Z) <- r0(X, Y), r1(Y, Z)\nq(X, Z) <- r1(X, Y), r0(Y, Z)";
        if let Some(t) = build_ir(src, &rels) {
            for pass in [1u8, 3u8] {
                cx.emit(pass, true, &rels, &t, &["corpus", "builder", "union-of-joins"], src);
            }
        }
    }

    // two join keys whose right_keys are NOT ascending, projection of the right non-key column:
    // p(A,B) joined with q(B,A,C)
    {
        let rels = vec![
            ("r0".to_string(), vec![tup(&[1, 2]), tup(&[3, 4]), tup(&[5, 5])]),
            ("r6".to_string(), vec![tup(&[2, 1, 7]), tup(&[4, 3, 8]), tup(&[1, 2, 9]), tup(&[5, 5, 6])]),
        ];
        for (lk, rk) in [(vec![0usize, 1], vec![1usize, 0]), (vec![1, 0], vec![0, 1]), (vec![0, 1, 0], vec![1, 0, 1]), (vec![0], vec![1])] {
            let nk = 3 - { let mut d = rk.clone(); d.sort(); d.dedup(); d.len() };
            let join = IRNode::Join {
                left: Box::new(scan("r0", &["A", "B"])),
                right: Box::new(scan("r6", &["B2", "A2", "C"])),
                left_keys: lk.clone(),
                right_keys: rk.clone(),
                output_schema: (0..2 + nk).map(|k| format!("j{}", k)).collect(),
            };
            let t = IRNode::Map { input: Box::new(join.clone()), projection: vec![2 + nk - 1, 0], output_schema: sv(&["C", "A"]) };
            cx.emit(0, true, &rels, &t, &["corpus", "unsorted-join-keys"], "corpus");
            let t = IRNode::Filter {
                input: Box::new(IRNode::Map { input: Box::new(join), projection: vec![2 + nk - 1, 1], output_schema: sv(&["C", "B"]) }),
                predicate: Predicate::ColumnGtConst(0, 6),
            };
            cx.emit(0, true, &rels, &t, &["corpus", "unsorted-join-keys"], "corpus");
        }
        for src in ["q(A, C) <- r0(A, B), r6(B, A, C)", "q(C) <- r0(A, B), r6(B, A, C), C > 6", "q(A, D) <- r6(A, B, C), r7(C, D, B, A)"] {
            let mut rels = rels.clone();
            rels.push(("r7".to_string(), vec![tup(&[7, 0, 1, 2]), tup(&[8, 1, 3, 4]), tup(&[9, 2, 2, 1])]));
            if let Some(t) = build_ir(src, &rels) {
                for pass in [0u8, 1, 3, 4] {
                    cx.emit(pass, true, &rels, &t, &["corpus", "builder", "unsorted-join-keys"], src);
                }
            }
        }
    }

    // a right atom that repeats the join variable, under the join planner (found by the C02 check)
    {
        let rels = vec![
            ("e2".to_string(), vec![tup(&[2]), tup(&[1]), tup(&[0])]),
            ("e3".to_string(), vec![tup(&[2, 2, 2]), tup(&[1, 2, 1]), tup(&[0, 0, 5])]),
        ];
        let src = "q(X1) <- e2(X0), e3(X0, X0, X1)";
        if let Some(t) = build_ir(src, &rels) {
            for pass in [0u8, 1, 3] {
                cx.emit(pass, true, &rels, &t, &["corpus", "builder", "repeated-join-variable"], src);
            }
        }
        let rels = vec![
            ("e0".to_string(), vec![tup(&[2, 0]), tup(&[0, 2]), tup(&[3, 3]), tup(&[0, 3]), tup(&[2, 1]), tup(&[2, 3]), tup(&[3, 0])]),
            ("e1".to_string(), vec![tup(&[0, 3]), tup(&[2, 3]), tup(&[0, 1]), tup(&[0, 0]), tup(&[3, 1])]),
        ];
        let src = "q(X1, X0) <- e0(X0, X1), e1(X0, X0)";
        if let Some(t) = build_ir(src, &rels) {
            for pass in [1u8, 3, 4] {
                cx.emit(pass, true, &rels, &t, &["corpus", "builder", "repeated-join-variable"], src);
            }
        }
        let rels = vec![
            ("e2".to_string(), vec![tup(&[2]), tup(&[1]), tup(&[0])]),
            ("e0".to_string(), vec![tup(&[2, 2]), tup(&[1, 2]), tup(&[0, 0])]),
            ("e1".to_string(), vec![tup(&[2, 2]), tup(&[1, 1]), tup(&[0, 5])]),
        ];
        let src = "q(X1) <- e2(X0), e0(X0, X0), e1(X0, X1)";
        if let Some(t) = build_ir(src, &rels) {
            for pass in [1u8, 3, 4] {
                cx.emit(pass, true, &rels, &t, &["corpus", "builder", "repeated-join-variable"], src);
            }
        }
        let src = "q(X, Z, count<Y>) <- r3(W), r2(W, \"a\", W), r1(X, W), r0(X, Z), r1(Y, Z), Y > 2";
        let i = |x: i64| Value::Int64(x);
        let rels = vec![
            ("r0".to_string(), vec![tup(&[0, 2]), tup(&[3, 2]), tup(&[0, 1])]),
            ("r1".to_string(), vec![tup(&[1, 6]), tup(&[2, 3]), tup(&[3, 2])]),
            ("r2".to_string(), vec![Tuple::new(vec![i(2), Value::String("a".into()), i(2)]), Tuple::new(vec![i(1), Value::String("a".into()), i(0)])]),
            ("r3".to_string(), vec![tup(&[2]), tup(&[3])]),
        ];
        if let Some(t) = build_ir(src, &rels) {
            for pass in [1u8, 3] {
                cx.emit(pass, true, &rels, &t, &["corpus", "builder", "repeated-variable-in-atom"], src);
            }
        }
    }

    // ------------------------------------------------------------ random
    for case_no in 0..args.n {
        let db = gen_db(&mut rng);
        let rels = db_rels(&db);
        if case_no % 4 != 3 {
            // random tree, Optimizer::optimize (and the two other passes on a share of them)
            let depth = rng.range(1, 5) as u32;
            let mut g = Gen::new(&mut rng, &db);
            g.allow_void = case_no % 8 == 5;
            g.allow_dup_keys = case_no % 8 == 1;
            let (mut t, _tys) = g.gen_tree(depth);
            let kinds = g.kinds.clone();
            let void = g.allow_void;
            let dup = g.allow_dup_keys;
            for (k, v) in kinds {
                cx.sink.tally_n(&format!("node_kind:{}", k), v);
            }
            let mut wf = true;
            if case_no % 16 == 14 {
                // malformed stream: break one index
                wf = !corrupt(&mut t, &mut rng);
            }
            let mut tags = vec!["random-tree"];
            if void {
                tags.push("void-allowed");
            }
            if dup {
                tags.push("dup-keys-allowed");
            }
            if !wf {
                tags.push("malformed");
            }
            cx.emit(0, wf, &rels, &t, &tags, "random tree");
            if case_no % 5 == 0 && wf {
                cx.emit(2, wf, &rels, &t, &tags, "random tree");
            }
        } else {
            // rule text -> real IRBuilder -> every pass
            let nh = rng.range(1, 2) as usize;
            let hv: Vec<&str> = ["X", "Z"][..nh].to_vec();
            let agg = if rng.chance(1, 4) { Some(*rng.pick(&["count<Y>", "sum<Y>", "min<Y>", "max<Y>"])) } else { None };
            let aggvar = agg.map(|_| "Y");
            let nclauses = if rng.chance(1, 3) { 2 } else { 1 };
            let mut lines = vec![];
            for _ in 0..nclauses {
                let body = gen_clause(&mut rng, &hv, aggvar);
                let mut head: Vec<String> = hv.iter().map(|s| s.to_string()).collect();
                if let Some(a) = agg {
                    head.push(a.to_string());
                }
                lines.push(format!("q({}) <- {}", head.join(", "), body));
            }
            let src = lines.join("\n");
            match build_ir(&src, &rels) {
                Some(t) => {
                    cx.sink.tally("builder:ok");
                    for pass in [0u8, 1, 2, 3, 4] {
                        cx.emit(pass, true, &rels, &t, &["builder"], &src);
                    }
                }
                None => cx.sink.tally("builder:rejected"),
            }
        }
    }
    cx.sink.finish();
}

/// parse + IRBuilder through the engine's public API; the IR of the last head.
fn build_ir(src: &str, rels: &[(String, Vec<Tuple>)]) -> Option<IRNode> {
    let src = src.to_string();
    let rels = rels.to_vec();
    catch(std::panic::AssertUnwindSafe(move || {
        let mut e = IQLEngine::with_config(OptimizationConfig {
            enable_join_planning: false,
            enable_sip_rewriting: false,
            enable_subplan_sharing: false,
            enable_boolean_specialization: false,
            enable_magic_sets: false,
        });
        for (r, ts) in &rels {
            e.add_tuples(r, ts.clone());
        }
        e.parse(&src).ok()?;
        e.build_ir(false).ok()?;
        e.ir_nodes().last().cloned()
    }))
    .ok()
    .flatten()
}

/// Break one index of the tree (projection / key out of range). Returns true if something changed.
fn corrupt(t: &mut IRNode, r: &mut Rng) -> bool {
    match t {
        IRNode::Map { projection, input, .. } => {
            if !projection.is_empty() && r.chance(1, 2) {
                projection[0] += 7;
                true
            } else {
                corrupt(input, r)
            }
        }
        IRNode::Join { left_keys, left, right, .. } => {
            if !left_keys.is_empty() && r.chance(1, 2) {
                left_keys.pop();
                true
            } else if r.chance(1, 2) {
                corrupt(left, r)
            } else {
                corrupt(right, r)
            }
        }
        IRNode::Filter { input, .. } | IRNode::Distinct { input } | IRNode::Compute { input, .. } | IRNode::Aggregate { input, .. } | IRNode::FlatMap { input, .. } => {
            corrupt(input, r)
        }
        IRNode::Antijoin { left, .. } | IRNode::JoinFlatMap { left, .. } => corrupt(left, r),
        IRNode::Union { inputs } => {
            if inputs.len() > 1 {
                // inputs of different widths
                let w = inputs[0].output_schema().len();
                inputs[1] = IRNode::Map {
                    input: Box::new(inputs[1].clone()),
                    projection: (0..w).chain(0..1).collect(),
                    output_schema: (0..=w).map(|k| format!("u{}", k)).collect(),
                };
                w > 0
            } else {
                false
            }
        }
        _ => false,
    }
}
