//! C13 — acknowledged writes survive any crash and recovery always succeeds.
//!
//! driver (default): for every generated history (insert / delete of small tuple batches into two
//!   relations, save, compact, relation drop, restart; buffer sizes 1-3 so flushes and WAL rewrites
//!   happen), run it in a CHILD process (`--child`) under strace, let tools/fsreplay.py rebuild the
//!   data directory at every file-system mutation boundary and for the enumerated loss choices, open
//!   every distinct reconstructed directory with the real `StorageEngine::new` and read both relations;
//!   emit one Coq case per history for Checks/C13.v.
#[path = "../crash_common.rs"]
mod crash_common;
use crash_common::*;
use inputlayer::value::{Tuple, Value};
use inputlayer::{Config, StorageEngine};
use std::path::Path;
use vharness::*;

const KG: &str = "default";
const RELS: [&str; 2] = ["r0", "r1"];
const NVAL: u64 = 4;

#[derive(Clone, Debug, PartialEq)]
enum Op {
    Ins(usize, Vec<u64>),
    Del(usize, Vec<u64>),
    Save,
    Compact,
    DropRel(usize),
    Restart,
}
impl Op {
    fn text(&self) -> String {
        let l = |v: &Vec<u64>| v.iter().map(|x| x.to_string()).collect::<Vec<_>>().join(",");
        match self {
            Op::Ins(r, v) => format!("ins {r} {}", l(v)),
            Op::Del(r, v) => format!("del {r} {}", l(v)),
            Op::Save => "save".into(),
            Op::Compact => "compact".into(),
            Op::DropRel(r) => format!("droprel {r}"),
            Op::Restart => "restart".into(),
        }
    }
    fn parse(s: &str) -> Op {
        let w: Vec<&str> = s.split_whitespace().collect();
        let vals = |i: usize| w[i].split(',').filter(|x| !x.is_empty()).map(|x| x.parse::<u64>().unwrap()).collect::<Vec<_>>();
        match w[0] {
            "ins" => Op::Ins(w[1].parse().unwrap(), vals(2)),
            "del" => Op::Del(w[1].parse().unwrap(), vals(2)),
            "save" => Op::Save,
            "compact" => Op::Compact,
            "droprel" => Op::DropRel(w[1].parse().unwrap()),
            "restart" => Op::Restart,
            o => panic!("bad op {o}"),
        }
    }
    fn coq(&self) -> String {
        let l = |v: &Vec<u64>| coq_list(&v.iter().map(|x| coq_n(*x as u128)).collect::<Vec<_>>());
        match self {
            Op::Ins(r, v) => format!("(PIns {} {})", coq_n(*r as u128), l(v)),
            Op::Del(r, v) => format!("(PDel {} {})", coq_n(*r as u128), l(v)),
            Op::Save => "PSave".into(),
            Op::Compact => "PCompact".into(),
            Op::DropRel(r) => format!("(PDropRel {})", coq_n(*r as u128)),
            Op::Restart => "PRestart".into(),
        }
    }
}

fn mk_config(dir: &Path, buffer: usize) -> Config {
    let mut c = Config::default();
    c.storage.data_dir = dir.to_path_buf();
    c.storage.persist.buffer_size = buffer;
    c.storage.performance.num_threads = 1;
    c
}
fn tup(v: u64) -> Tuple {
    Tuple::new(vec![Value::Int64(v as i64)])
}

/// contents of both relations as sorted value lists (unknown values -> 99)
fn observe(e: &StorageEngine) -> Vec<Vec<u64>> {
    let data = e.get_rules_and_data(KG).map(|(_, d)| d).unwrap_or_default();
    RELS.iter()
        .map(|r| {
            let mut v: Vec<u64> = data
                .get(*r)
                .map(|ts| {
                    ts.iter()
                        .map(|t| match t.values() {
                            [Value::Int64(i)] if *i >= 0 && (*i as u64) < NVAL => *i as u64,
                            _ => 99,
                        })
                        .collect()
                })
                .unwrap_or_default();
            v.sort();
            v
        })
        .collect()
}

fn child(spec: &Path, data: &Path, marker: &Path, result: &Path) {
    let text = std::fs::read_to_string(spec).expect("spec");
    let mut lines = text.lines();
    let buffer: usize = lines.next().unwrap().trim().parse().unwrap();
    let ops: Vec<Op> = lines.filter(|l| !l.trim().is_empty()).map(Op::parse).collect();
    let mut mk = Marker::open(marker);
    let cfg = mk_config(data, buffer);
    let mut eng = Some(StorageEngine::new(cfg.clone()).expect("open fresh store"));
    mk.mark("SETUP");
    let mut res = vec![];
    for (i, op) in ops.iter().enumerate() {
        let e = eng.as_ref().unwrap();
        let ok = match op {
            Op::Ins(r, v) => e.insert_tuples_into(KG, RELS[*r], v.iter().map(|x| tup(*x)).collect()).is_ok(),
            Op::Del(r, v) => e.delete_tuples_from(KG, RELS[*r], v.iter().map(|x| tup(*x)).collect()).is_ok(),
            Op::Save => e.save_all().is_ok(),
            Op::Compact => e.compact_all().is_ok(),
            Op::DropRel(r) => e.drop_relation_in(KG, RELS[*r]).is_ok(),
            Op::Restart => {
                drop(eng.take());
                match StorageEngine::new(cfg.clone()) {
                    Ok(e2) => {
                        eng = Some(e2);
                        true
                    }
                    Err(_) => false,
                }
            }
        };
        mk.mark(&format!("ACK {}", i));
        let live = eng.as_ref().map(|e| serde_json::json!(observe(e)));
        res.push(serde_json::json!({"ok": ok, "live": live}));
        if eng.is_none() {
            break;
        }
    }
    mk.mark("END");
    std::fs::write(result, serde_json::to_string(&res).unwrap()).expect("result");
}

fn recover(dir: &Path, buffer: usize) -> Option<Vec<Vec<u64>>> {
    let d = dir.to_path_buf();
    match catch(move || StorageEngine::new(mk_config(&d, buffer)).map(|e| observe(&e))) {
        Ok(Ok(c)) => Some(c),
        _ => None,
    }
}

// ---------------------------------------------------------------- abstraction of the replayer's output
fn num_prefix(s: &str) -> Option<(usize, &str)> {
    let end = s.find(|c: char| !c.is_ascii_digit()).unwrap_or(s.len());
    if end == 0 {
        return None;
    }
    Some((s[..end].parse().ok()?, &s[end..]))
}
/// data-dir relative path -> (model dir id, name id)
fn abs_file(path: &str) -> Option<(usize, usize)> {
    if path == "persist/wal/current.wal" {
        return Some((0, 0));
    }
    if path == "persist/wal/current.wal.new" {
        return Some((0, 1));
    }
    if let Some(rest) = path.strip_prefix("persist/shards/default_r") {
        let (s, tail) = num_prefix(rest)?;
        return match tail {
            ".json" => Some((1, 2 * s)),
            ".json.tmp" => Some((1, 2 * s + 1)),
            _ => None,
        };
    }
    if let Some(rest) = path.strip_prefix("persist/batches/") {
        let (id, tail) = num_prefix(rest)?;
        return match tail {
            ".parquet" => Some((2, 2 * id)),
            ".parquet.tmp" => Some((2, 2 * id + 1)),
            _ => None,
        };
    }
    if path == "metadata/knowledge_graphs.json" {
        return Some((3, 0));
    }
    if path.starts_with("metadata/knowledge_graphs.json.") && path.ends_with(".tmp") {
        return Some((3, 1));
    }
    None
}
fn abs_dir(path: &str) -> Option<usize> {
    match path {
        "persist/wal" => Some(0),
        "persist/shards" => Some(1),
        "persist/batches" => Some(2),
        "metadata" => Some(3),
        _ => None,
    }
}
fn abs_event(ev: &serde_json::Value) -> Option<String> {
    let kind = ev["ev"].as_str().unwrap_or("");
    let path = ev["path"].as_str().unwrap_or("");
    let n = |x: usize| coq_n(x as u128);
    let file = |ctor: &str| match abs_file(path) {
        Some((d, f)) => format!("({} {} {})", ctor, n(d), n(f)),
        None => "(EOther 1%N)".to_string(),
    };
    Some(match kind {
        "mkdir" => return None,
        "mark" => {
            if ev["text"].as_str().unwrap_or("").starts_with("ACK") {
                "EAck".to_string()
            } else {
                return None;
            }
        }
        "create" => file("ECreate"),
        "write" => {
            if ev.get("nonappend").is_some() {
                "(EOther 2%N)".to_string()
            } else {
                file("EWrite")
            }
        }
        "fsync" => file("EFsync"),
        "unlink" => file("EUnlink"),
        "rename" => match (abs_file(path), abs_file(ev["to"].as_str().unwrap_or(""))) {
            (Some((d, a)), Some((d2, b))) if d == d2 => format!("(ERename {} {} {})", n(d), n(a), n(b)),
            _ => "(EOther 3%N)".to_string(),
        },
        "fsyncdir" => match abs_dir(path) {
            Some(d) => format!("(EFsyncDir {})", n(d)),
            None => "(EOther 4%N)".to_string(),
        },
        _ => "(EOther 5%N)".to_string(),
    })
}
fn abs_loss(loss: &serde_json::Value) -> Option<String> {
    let mut dirs = vec![];
    for d in loss["dirs"].as_array().unwrap() {
        let id = abs_dir(d["dir"].as_str().unwrap())?;
        dirs.push(format!("({}, {})", coq_n(id as u128), coq_nat(d["n"].as_u64().unwrap() as usize)));
    }
    let mut inos = vec![];
    for i in loss["inodes"].as_array().unwrap() {
        let id = abs_dir(i["dir"].as_str().unwrap())?;
        // WAL: complete records of the torn write; any other file only parses when complete
        let t = if id == 0 { i["trec"].as_u64().unwrap_or(0) as usize } else if i["t"].as_u64().unwrap_or(0) > 0 { 1 } else { 0 };
        inos.push(format!("({}, {}, {}, {})", coq_n(id as u128), coq_nat(i["idx"].as_u64().unwrap() as usize), coq_nat(i["n"].as_u64().unwrap() as usize), coq_nat(t)));
    }
    Some(format!("(mkPLoss {} {})", coq_list(&dirs), coq_list(&inos)))
}
fn coq_rels(c: &[Vec<u64>]) -> String {
    coq_list(&c.iter().map(|r| coq_list(&r.iter().map(|x| coq_n(*x as u128)).collect::<Vec<_>>())).collect::<Vec<_>>())
}

// ---------------------------------------------------------------- histories
fn gen_vals(r: &mut Rng) -> Vec<u64> {
    let n = match r.below(10) {
        0..=5 => 1,
        6..=8 => 2,
        _ => 3,
    };
    (0..n).map(|_| r.below(NVAL)).collect()
}
fn gen_history(r: &mut Rng) -> (usize, Vec<Op>) {
    let buffer = *r.pick(&[1usize, 2, 2, 3, 3, 10]);
    let len = r.range(1, 7) as usize;
    let mut ops = vec![];
    for _ in 0..len {
        let rel = if r.chance(3, 4) { 0 } else { 1 };
        ops.push(match r.below(20) {
            0..=9 => Op::Ins(rel, gen_vals(r)),
            10..=14 => Op::Del(rel, gen_vals(r)),
            15 | 16 => Op::Save,
            17 => Op::Compact,
            _ => Op::Restart,
        });
    }
    (buffer, ops)
}
fn corpus() -> Vec<(usize, Vec<Op>)> {
    vec![
        // flush on every write: crash between metadata rename and WAL rewrite; un-synced renames
        (1, vec![Op::Ins(0, vec![1]), Op::Ins(0, vec![2]), Op::Del(0, vec![1])]),
        // WAL only, then a delete that must not be lost, then restart (replay + drain)
        (10, vec![Op::Ins(0, vec![1]), Op::Ins(1, vec![0]), Op::Del(0, vec![1]), Op::Restart, Op::Ins(0, vec![3])]),
        // multi-tuple batch (torn WAL write), buffer 2
        (2, vec![Op::Ins(0, vec![2, 3]), Op::Ins(0, vec![1]), Op::Del(0, vec![2, 1])]),
        // save and compaction with two shards
        (3, vec![Op::Ins(0, vec![1]), Op::Ins(1, vec![0]), Op::Save, Op::Del(0, vec![1]), Op::Ins(0, vec![2]), Op::Compact, Op::Ins(0, vec![1])]),
        // duplicate insert and absent delete (log vs set semantics) across a flush
        (2, vec![Op::Ins(0, vec![1]), Op::Ins(0, vec![1]), Op::Del(0, vec![1]), Op::Del(0, vec![3]), Op::Ins(0, vec![3]), Op::Restart]),
    ]
}

struct CaseOut {
    coq: String,
    desc: serde_json::Value,
    nontrivial: Option<String>,
    ncrash: u64,
    ntrees: u64,
    nfail_open: u64,
    tags: Vec<String>,
}

fn shard_of_meta_rename(ev: &serde_json::Value) -> Option<usize> {
    if ev["ev"].as_str() != Some("rename") {
        return None;
    }
    let to = ev["to"].as_str()?;
    let rest = to.strip_prefix("persist/shards/default_r")?;
    let (s, tail) = num_prefix(rest)?;
    if tail == ".json" {
        Some(s)
    } else {
        None
    }
}

fn run_case(idx: usize, buffer: usize, ops: &[Op], seed: u64, cap: usize, keep: bool) -> CaseOut {
    let work = tempfile::Builder::new().prefix(&format!("c13-{idx}-")).tempdir().expect("tempdir");
    let w = work.path();
    let spec = w.join("spec.txt");
    let data = w.join("data");
    let marker = w.join("marker");
    let result = w.join("result.json");
    let mut text = format!("{}\n", buffer);
    for o in ops {
        text.push_str(&o.text());
        text.push('\n');
    }
    std::fs::write(&spec, &text).unwrap();
    let args: Vec<String> = vec!["--child".into(), spec.display().to_string(), data.display().to_string(), marker.display().to_string(), result.display().to_string()];
    let (ok, log, out) = run_child_traced(w, &args);
    let hist_text: Vec<String> = ops.iter().map(|o| o.text()).collect();
    let fail = |why: String| CaseOut {
        coq: format!("(C13Broken {})", coq_nat(buffer)),
        desc: serde_json::json!({"buffer": buffer, "history": hist_text, "harness_failure": why}),
        nontrivial: None,
        ncrash: 0,
        ntrees: 0,
        nfail_open: 0,
        tags: vec!["harness-failure".into()],
    };
    if !ok {
        return fail(format!("child failed: {}", &out[out.len().saturating_sub(600)..]));
    }
    let res: serde_json::Value = serde_json::from_str(&std::fs::read_to_string(&result).unwrap_or_default()).unwrap_or(serde_json::Value::Null);
    let states = w.join("states");
    let index = match run_replayer(&log, &data, &marker, &states, "full", seed, cap) {
        Ok(i) => i,
        Err(e) => return fail(e),
    };
    let warnings: Vec<String> = index["warnings"].as_array().map(|a| a.iter().map(|x| x.as_str().unwrap_or("").to_string()).collect()).unwrap_or_default();
    let ntrees = index["ntrees"].as_u64().unwrap_or(0) as usize;
    // shard metadata stores ABSOLUTE batch paths, so every reconstructed tree is recovered at the path of
    // the original data directory (moved into place, one after the other)
    let _ = std::fs::remove_dir_all(&data);
    let outcomes: Vec<Option<Vec<Vec<u64>>>> = (0..ntrees)
        .map(|t| {
            std::fs::rename(states.join("trees").join(t.to_string()), &data).expect("move tree into place");
            let r = recover(&data, buffer);
            let _ = std::fs::remove_dir_all(&data);
            r
        })
        .collect();
    let events = index["events"].as_array().unwrap();
    let mut trace = vec![];
    let mut kmap = vec![0usize];
    let mut dropped_last = vec![false];
    // flush order of save / compact / restart: order of the first metadata rename per shard in the op's segment
    let mut orders: Vec<Vec<usize>> = vec![vec![]];
    for ev in events {
        if ev["ev"].as_str() == Some("mark") && ev["text"].as_str().unwrap_or("").starts_with("ACK") {
            orders.push(vec![]);
        }
        if let Some(s) = shard_of_meta_rename(ev) {
            let cur = orders.last_mut().unwrap();
            if !cur.contains(&s) {
                cur.push(s);
            }
        }
        match abs_event(ev) {
            Some(e) => {
                trace.push(e);
                dropped_last.push(false);
            }
            None => dropped_last.push(true),
        }
        kmap.push(trace.len());
    }
    let ops_coq: Vec<String> = ops
        .iter()
        .enumerate()
        .map(|(i, o)| {
            let ord = coq_list(&orders.get(i).cloned().unwrap_or_default().iter().map(|s| coq_n(*s as u128)).collect::<Vec<_>>());
            match o {
                Op::Save => format!("(PSave {})", ord),
                Op::Compact => format!("(PCompact {})", ord),
                Op::Restart => format!("(PRestart {})", ord),
                _ => o.coq(),
            }
        })
        .collect();
    let mut crashes = vec![];
    let mut crash_desc = vec![];
    let mut nfail = 0u64;
    let mut unknown_loss = false;
    for p in index["points"].as_array().unwrap() {
        let k = p["k"].as_u64().unwrap() as usize;
        if dropped_last[k] {
            continue;
        }
        for s in p["states"].as_array().unwrap() {
            let t = s["tree"].as_u64().unwrap() as usize;
            let loss = match abs_loss(&s["loss"]) {
                Some(l) => l,
                None => {
                    unknown_loss = true;
                    continue;
                }
            };
            let oc = &outcomes[t];
            if oc.is_none() {
                nfail += 1;
            }
            let oc_coq = match oc {
                None => "None".to_string(),
                Some(c) => format!("(Some {})", coq_rels(c)),
            };
            crashes.push(format!("(C13Crash {} {} {})", coq_nat(kmap[k]), loss, oc_coq));
            if crash_desc.len() < 600 {
                crash_desc.push(serde_json::json!({"after_event": kmap[k], "loss": s["loss"], "tree": t,
                    "recovered": match oc { None => serde_json::json!("OPEN-FAILED"), Some(c) => serde_json::json!(c) }}));
            }
        }
    }
    let mut results = vec![];
    if let Some(arr) = res.as_array() {
        for r in arr {
            let live = if r["live"].is_null() {
                "None".to_string()
            } else {
                let c: Vec<Vec<u64>> = r["live"].as_array().unwrap().iter().map(|x| x.as_array().unwrap().iter().map(|y| y.as_u64().unwrap()).collect()).collect();
                format!("(Some {})", coq_rels(&c))
            };
            results.push(format!("({}, {})", coq_bool(r["ok"].as_bool().unwrap_or(false)), live));
        }
    }
    let mut tags = vec![];
    if !warnings.is_empty() || unknown_loss {
        tags.push("replayer-warning".to_string());
    }
    let clean = warnings.is_empty() && !unknown_loss;
    let coq = format!(
        "(C13Case {} {} {} {} {} {})",
        coq_nat(buffer),
        coq_list(&ops_coq),
        coq_list(&results),
        coq_list(&trace),
        coq_list(&crashes),
        coq_bool(clean)
    );
    let ncrash = crashes.len() as u64;
    let nontrivial = if trace.len() > ops.len() { Some(format!("{} | {}", buffer, hist_text.join("; "))) } else { None };
    if keep {
        let keepdir = std::env::temp_dir().join(format!("c13-keep-{idx}"));
        let _ = std::fs::remove_dir_all(&keepdir);
        let _ = std::process::Command::new("cp").arg("-r").arg(w).arg(&keepdir).status();
        eprintln!("kept work dir of case {idx} at {}", keepdir.display());
    }
    CaseOut {
        coq,
        desc: serde_json::json!({"buffer_size": buffer, "history": hist_text, "results": res,
            "events": events, "replayer_warnings": warnings, "crash_states": crash_desc,
            "replay": "harness c13 --only <idx> (child under strace, tools/fsreplay.py, StorageEngine::new on every reconstructed tree)"}),
        nontrivial,
        ncrash,
        ntrees: ntrees as u64,
        nfail_open: nfail,
        tags,
    }
}

fn main() {
    let raw: Vec<String> = std::env::args().collect();
    if raw.len() >= 6 && raw[1] == "--child" {
        child(Path::new(&raw[2]), Path::new(&raw[3]), Path::new(&raw[4]), Path::new(&raw[5]));
        return;
    }
    if raw.len() >= 3 && raw[1] == "--recover" {
        println!("{:?}", recover(Path::new(&raw[2]), 2));
        return;
    }
    let args = parse_args();
    let mut rng = Rng::new(args.seed);
    let mut sink = Sink::new(&args, "From IL Require Import Checks.C13.", "c13case", "c13_check", 4);
    let mut cases: Vec<(usize, Vec<Op>)> = corpus();
    while cases.len() < args.n.max(cases.len()) {
        cases.push(gen_history(&mut rng));
    }
    cases.truncate(args.n.max(1));
    let cap = args.extra.iter().position(|a| a == "--cap").and_then(|i| args.extra.get(i + 1)).and_then(|s| s.parse().ok()).unwrap_or(16usize);
    let keep = args.extra.iter().any(|a| a == "--keep");
    let seed = args.seed;
    let only = args.only;
    let outs = par_map(cases.len(), 16, |i| {
        if only.map_or(true, |o| o == i) {
            Some(run_case(i, cases[i].0, &cases[i].1, seed.wrapping_add(i as u64), cap, keep && only.is_some()))
        } else {
            None
        }
    });
    for (i, o) in outs.into_iter().enumerate() {
        let (buffer, ops) = &cases[i];
        for op in ops {
            sink.tally(&format!("op:{}", op.text().split(' ').next().unwrap()));
        }
        sink.tally(&format!("buffer:{}", buffer));
        sink.tally(&format!("len:{}", ops.len()));
        match o {
            Some(c) => {
                sink.tally_n("crash_states", c.ncrash);
                sink.tally_n("distinct_trees_recovered", c.ntrees);
                sink.tally_n("crash_states_open_failed", c.nfail_open);
                let tags: Vec<&str> = c.tags.iter().map(|s| s.as_str()).collect();
                sink.push(c.coq, c.desc, &tags, c.nontrivial);
            }
            None => sink.push(format!("(C13Broken {})", coq_nat(*buffer)), serde_json::json!({}), &[], None),
        }
    }
    sink.finish();
}
