//! C19 — incremental arrangements mirror the base relations.
//! A knowledge graph with incremental maintenance enabled; writer threads (inserts / deletes with
//! duplicates, in-batch duplicates and absent deletes) and readers calling
//! IncrementalEngine::read_relation_consistent through StorageEngine::with_kg_read, driven through
//! sequential histories (one thread) and enumerated / random interleavings of the sched_point
//! hooks. Emits cases for Checks/C19.v (`--unfixed`: ask for the model of the pinned tree).
#[path = "../conc_ctl.rs"]
mod conc_ctl;
use conc_ctl::*;
use inputlayer::verif_hooks;
use inputlayer::{Config, StorageEngine, Tuple, Value};
use std::sync::atomic::{AtomicUsize, Ordering};
use std::sync::{Arc, Mutex};
use std::time::Duration;
use vharness::*;

#[derive(Clone, Debug)]
enum Op {
    Ins { id: u64, rel: u64, ts: Vec<u64> },
    Del { id: u64, rel: u64, ts: Vec<u64> },
    Read { id: u64, rel: u64 },
}
fn cn(x: u64) -> String {
    coq_n(x as u128)
}
fn cl(ts: &[u64]) -> String {
    coq_list(&ts.iter().map(|t| cn(*t)).collect::<Vec<_>>())
}
impl Op {
    fn id(&self) -> u64 {
        match self {
            Op::Ins { id, .. } | Op::Del { id, .. } | Op::Read { id, .. } => *id,
        }
    }
    fn coq(&self) -> String {
        match self {
            Op::Ins { id, rel, ts } => format!("(IIns {} {} {})", cn(*id), cn(*rel), cl(ts)),
            Op::Del { id, rel, ts } => format!("(IDel {} {} {})", cn(*id), cn(*rel), cl(ts)),
            Op::Read { id, rel } => format!("(IRead {} {})", cn(*id), cn(*rel)),
        }
    }
    fn text(&self) -> String {
        match self {
            Op::Ins { id, rel, ts } => format!("#{id} insert r{rel} {ts:?}"),
            Op::Del { id, rel, ts } => format!("#{id} delete r{rel} {ts:?}"),
            Op::Read { id, rel } => format!("#{id} consistent-read r{rel}"),
        }
    }
    fn steps(&self) -> usize {
        match self {
            Op::Ins { .. } | Op::Del { .. } => 3,
            Op::Read { .. } => 2,
        }
    }
}
type Facts = Vec<(u64, u64)>;
fn facts_coq(f: &Facts) -> String {
    coq_list(&f.iter().map(|(s, t)| format!("({}, {})", cn(*s), cn(*t))).collect::<Vec<_>>())
}
#[derive(Clone, Debug)]
enum Res {
    Ins(u64, u64),
    Del(u64),
    Err(String),
    Read(Vec<u64>),
}
impl Res {
    fn coq(&self) -> String {
        match self {
            Res::Ins(a, b) => format!("(IRIns {} {})", cn(*a), cn(*b)),
            Res::Del(a) => format!("(IRDel {})", cn(*a)),
            Res::Err(_) => "IRErr".into(),
            Res::Read(xs) => format!("(IRRead {})", cl(xs)),
        }
    }
}
#[derive(Clone, Debug)]
struct ReadRec {
    id: u64,
    rel: u64,
    ok: bool,
    xs: Vec<u64>,
    snap: Facts,
}

const KG: &str = "k";
fn rel_name(r: u64) -> String {
    format!("r{r}")
}
fn rel_id(name: &str) -> Option<u64> {
    name.strip_prefix('r').and_then(|s| s.parse().ok())
}
fn tuple_of(t: u64) -> Tuple {
    Tuple::new(vec![Value::Int64(t as i64), Value::String(format!("v{t}").into())])
}
fn tuple_id(t: &Tuple) -> u64 {
    match t.get(0) {
        Some(Value::Int64(i)) => *i as u64,
        _ => u64::MAX,
    }
}
fn facts_of_snapshot(snap: &inputlayer::storage_engine::KnowledgeGraphSnapshot) -> Facts {
    let mut facts = vec![];
    for (name, ts) in snap.input_tuples.iter() {
        if let Some(r) = rel_id(name) {
            for t in ts {
                facts.push((r, tuple_id(t)));
            }
        }
    }
    facts.sort();
    facts
}

fn parks(label: &str) -> bool {
    matches!(
        label,
        "start" | "op" | "se:insert:after_time" | "se:delete:after_time" | "se:insert:before_kg_lock" | "se:delete:before_kg_lock" | "inc:rrc:between_advance_and_wait"
    )
}
fn label_code(l: &str) -> u64 {
    match l {
        "op" => 0,
        "se:insert:after_time" | "se:delete:after_time" => 1,
        "se:insert:before_kg_lock" | "se:delete:before_kg_lock" => 4,
        "inc:rrc:between_advance_and_wait" => 5,
        "done" => 9,
        _ => 99,
    }
}
/// a reader parked between advance and wait holds the KG read lock: the apply section of a writer
/// (which takes the KG write lock) cannot run
fn enabled(v: &[ThreadView]) -> Vec<bool> {
    let reader_inside = v.iter().any(|t| t.parked == Some("inc:rrc:between_advance_and_wait"));
    v.iter()
        .map(|t| match t.parked {
            Some("se:insert:before_kg_lock") | Some("se:delete:before_kg_lock") => !reader_inside,
            _ => true,
        })
        .collect()
}

struct Cfg19 {
    name: String,
    progs: Vec<Vec<Op>>,
    exhaustive: bool,
    budget: usize,
    seed: u64,
}
struct Exec {
    outcome: Outcome,
    results: Vec<Vec<(u64, Res)>>,
    reads: Vec<ReadRec>,
    fin: Facts,
}

fn run_one(cfg: &Cfg19, choose: &mut dyn FnMut(usize, &[usize]) -> usize) -> Exec {
    let dir = scratch_dir();
    let mut config = Config::default();
    config.storage.data_dir = dir.path().to_path_buf();
    config.storage.performance.num_threads = 1;
    let eng = Arc::new(StorageEngine::new(config).expect("engine"));
    eng.create_knowledge_graph(KG).expect("create kg");
    eng.with_kg_mut(KG, |k| k.enable_incremental().map_err(|e| e.to_string())).expect("enable incremental");
    let n = cfg.progs.len();
    let results: Vec<Arc<Mutex<Vec<(u64, Res)>>>> = (0..n).map(|_| Arc::new(Mutex::new(vec![]))).collect();
    let reads: Arc<Mutex<Vec<ReadRec>>> = Arc::new(Mutex::new(vec![]));
    let mut bodies: Vec<Body> = vec![];
    for (t, prog) in cfg.progs.iter().enumerate() {
        let prog = prog.clone();
        let eng = Arc::clone(&eng);
        let out = Arc::clone(&results[t]);
        let reads = Arc::clone(&reads);
        bodies.push(Box::new(move || {
            for (i, op) in prog.iter().enumerate() {
                if i > 0 {
                    verif_hooks::sched_point("op");
                }
                let r = match op {
                    Op::Ins { rel, ts, .. } => match eng.insert_tuples_into(KG, &rel_name(*rel), ts.iter().map(|x| tuple_of(*x)).collect()) {
                        Ok((a, b)) => Res::Ins(a as u64, b as u64),
                        Err(e) => Res::Err(e.to_string()),
                    },
                    Op::Del { rel, ts, .. } => match eng.delete_tuples_from(KG, &rel_name(*rel), ts.iter().map(|x| tuple_of(*x)).collect()) {
                        Ok(a) => Res::Del(a as u64),
                        Err(e) => Res::Err(e.to_string()),
                    },
                    Op::Read { id, rel } => {
                        let got = eng.with_kg_read(KG, |k| {
                            let dd = k.incremental().ok_or_else(|| "incremental engine not enabled".to_string())?;
                            let xs = dd.read_relation_consistent(&rel_name(*rel))?;
                            Ok((xs, facts_of_snapshot(&k.snapshot())))
                        });
                        match got {
                            Ok((xs, snap)) => {
                                let mut ids: Vec<u64> = xs.iter().map(tuple_id).collect();
                                ids.sort();
                                reads.lock().unwrap().push(ReadRec { id: *id, rel: *rel, ok: true, xs: ids.clone(), snap });
                                Res::Read(ids)
                            }
                            Err(e) => {
                                reads.lock().unwrap().push(ReadRec { id: *id, rel: *rel, ok: false, xs: vec![], snap: vec![] });
                                Res::Err(e.to_string())
                            }
                        }
                    }
                };
                out.lock().unwrap().push((op.id(), r));
            }
        }));
    }
    let mut after = |_: usize, _: &[Ev]| {};
    let outcome = run_execution(bodies, parks, None, &enabled, choose, &mut after, Duration::from_secs(12));
    // a hung thread may hold the KG write lock for ever: do not touch the engine then
    let fin = if outcome.hung.is_empty() { eng.get_snapshot_for(KG).map(|s| facts_of_snapshot(&s)).unwrap_or_default() } else { vec![] };
    let results: Vec<Vec<(u64, Res)>> = results.iter().map(|r| r.lock().unwrap().clone()).collect();
    let reads = reads.lock().unwrap().clone();
    Exec { outcome, results, reads, fin }
}

struct CaseOut {
    coq: String,
    desc: serde_json::Value,
    tags: Vec<String>,
    key: Option<String>,
    infeasible: bool,
}
fn emit(cfg: &Cfg19, ex: &Exec, fx: bool) -> CaseOut {
    let progs_coq: Vec<String> = cfg.progs.iter().map(|p| coq_list(&p.iter().map(Op::coq).collect::<Vec<_>>())).collect();
    let sched_coq: Vec<String> =
        ex.outcome.schedule.iter().zip(ex.outcome.arrived.iter()).map(|(t, l)| format!("({}, {})", coq_nat(*t), cn(label_code(l)))).collect();
    let res_coq: Vec<String> =
        ex.results.iter().map(|rs| coq_list(&rs.iter().map(|(id, r)| format!("({}, {})", cn(*id), r.coq())).collect::<Vec<_>>())).collect();
    let reads_coq: Vec<String> = ex
        .reads
        .iter()
        .map(|r| format!("(C19Read {} {} {} {} {})", cn(r.id), cn(r.rel), coq_bool(r.ok), cl(&r.xs), facts_coq(&r.snap)))
        .collect();
    let coq = format!(
        "C19Case {} {} {} {} {} {}",
        coq_bool(fx),
        coq_list(&progs_coq),
        coq_list(&sched_coq),
        coq_list(&res_coq),
        coq_list(&reads_coq),
        facts_coq(&ex.fin)
    );
    let mut tags = vec![
        format!("threads:{}", cfg.progs.len()),
        if cfg.progs.len() == 1 { "sequential".into() } else if cfg.exhaustive { "enumerated".to_string() } else { "sampled".to_string() },
    ];
    let hung_note: Vec<String> = ex.outcome.hung.iter().map(|t| format!("thread {t} never returned from its operation")).collect();
    if !hung_note.is_empty() {
        tags.push("thread-hung".into());
    }
    let errs: Vec<String> = ex
        .results
        .iter()
        .flatten()
        .filter_map(|(id, r)| if let Res::Err(m) = r { Some(format!("#{id}: {m}")) } else { None })
        .collect();
    if !errs.is_empty() {
        tags.push("operation-failed".into());
    }
    let dup = cfg.progs.iter().flatten().any(|o| match o {
        Op::Ins { ts, .. } | Op::Del { ts, .. } => {
            let mut s = ts.clone();
            s.sort();
            s.windows(2).any(|w| w[0] == w[1])
        }
        _ => false,
    });
    if dup {
        tags.push("in-batch-duplicate".into());
    }
    if ex.results.iter().flatten().any(|(_, r)| matches!(r, Res::Ins(_, d) if *d > 0)) {
        tags.push("duplicate-insert".into());
    }
    let sched_txt: Vec<String> = ex.outcome.schedule.iter().zip(ex.outcome.arrived.iter()).map(|(t, l)| format!("T{t}->{l}")).collect();
    let desc = serde_json::json!({
        "config": cfg.name,
        "threads": cfg.progs.iter().map(|p| p.iter().map(Op::text).collect::<Vec<_>>()).collect::<Vec<_>>(),
        "schedule": sched_txt,
        "results": ex.results.iter().map(|rs| rs.iter().map(|(id, r)| format!("#{id}: {r:?}")).collect::<Vec<_>>()).collect::<Vec<_>>(),
        "reads": ex.reads.iter().map(|r| format!("#{} r{} ok={} read={:?} snapshot={:?}", r.id, r.rel, r.ok, r.xs, r.snap)).collect::<Vec<_>>(),
        "final_snapshot": format!("{:?}", ex.fin),
        "errors": errs,
        "hung": hung_note,
        "panics": format!("{:?}", ex.outcome.panics),
    });
    let nreads = ex.reads.iter().filter(|r| r.ok && !r.xs.is_empty()).count();
    let switches = ex.outcome.schedule.windows(2).filter(|w| w[0] != w[1]).count();
    let key = if nreads > 0 && (cfg.progs.len() == 1 || switches >= 2) { Some(format!("{:?}|{}", cfg.progs, sched_txt.join(","))) } else { None };
    // an execution that was abandoned because a thread is blocked forever inside the code under test is
    // a failure of the operation (it never returns): keep it as a case; the schedule then ends with the
    // label "blocked" which no model step produces
    CaseOut { coq, desc, tags, key, infeasible: ex.outcome.infeasible && ex.outcome.hung.is_empty() }
}

fn interleavings(progs: &[Vec<Op>]) -> f64 {
    let mut total = 0usize;
    let mut r = 1f64;
    for p in progs {
        let l: usize = p.iter().map(Op::steps).sum();
        for k in 1..=l {
            total += 1;
            r = r * total as f64 / k as f64;
        }
    }
    r
}
fn run_cfg(cfg: &Cfg19, fx: bool) -> Vec<CaseOut> {
    let mut outs = vec![];
    if cfg.exhaustive {
        let mut prefix: Vec<usize> = vec![];
        while outs.len() < cfg.budget {
            let ex = {
                let mut ch = prefix_chooser(&prefix);
                run_one(cfg, &mut ch)
            };
            let o = &ex.outcome;
            let mut next: Option<Vec<usize>> = None;
            for i in (0..o.schedule.len()).rev() {
                let cur = o.schedule[i];
                if let Some(nx) = o.enabled_sets[i].iter().copied().filter(|x| *x > cur).min() {
                    let mut p = o.schedule[..i].to_vec();
                    p.push(nx);
                    next = Some(p);
                    break;
                }
            }
            outs.push(emit(cfg, &ex, fx));
            match next {
                Some(p) => prefix = p,
                None => break,
            }
        }
    } else {
        let mut rng = Rng::new(cfg.seed);
        for _ in 0..cfg.budget {
            let mut ch = |_: usize, en: &[usize]| en[rng.below(en.len() as u64) as usize];
            let ex = run_one(cfg, &mut ch);
            outs.push(emit(cfg, &ex, fx));
        }
    }
    outs
}

fn gen_seq(rng: &mut Rng, idx: usize) -> Cfg19 {
    // one thread: a history of 4-12 ops over 2 relations and 4 tuple ids, reads interleaved
    let n = rng.range(4, 12);
    let mut p = vec![];
    for i in 0..n {
        let id = i as u64 + 1;
        let rel = rng.below(2);
        let k = rng.range(1, 3) as usize;
        let ts: Vec<u64> = (0..k).map(|_| rng.below(4)).collect();
        p.push(match rng.below(10) {
            0..=3 => Op::Ins { id, rel, ts },
            4..=6 => Op::Del { id, rel, ts },
            _ => Op::Read { id, rel },
        });
    }
    p.push(Op::Read { id: n as u64 + 1, rel: 0 });
    p.push(Op::Read { id: n as u64 + 2, rel: 1 });
    Cfg19 { name: format!("seq-{idx}"), progs: vec![p], exhaustive: true, budget: 1, seed: 0 }
}
fn gen_conc(rng: &mut Rng, idx: usize, per: usize) -> Cfg19 {
    let nthreads = if rng.chance(1, 2) { 2 } else { 3 };
    let mut next_id = 1u64;
    let mut progs = vec![];
    for t in 0..nthreads {
        let nops = rng.range(1, 2) as usize;
        let mut p = vec![];
        for j in 0..nops {
            let id = next_id;
            next_id += 1;
            let rel = rng.below(2);
            let k = rng.range(1, 2) as usize;
            let ts: Vec<u64> = (0..k).map(|_| rng.below(3)).collect();
            let reader = t == nthreads - 1;
            p.push(if reader || (j == nops - 1 && rng.chance(1, 3)) {
                Op::Read { id, rel }
            } else if rng.chance(2, 3) {
                Op::Ins { id, rel, ts }
            } else {
                Op::Del { id, rel, ts }
            });
        }
        progs.push(p);
    }
    let exhaustive = interleavings(&progs) <= per as f64;
    Cfg19 { name: format!("random-{idx}"), progs, exhaustive, budget: per, seed: rng.next() }
}
fn corpus() -> Vec<Cfg19> {
    let ins = |id, rel, ts: &[u64]| Op::Ins { id, rel, ts: ts.to_vec() };
    let del = |id, rel, ts: &[u64]| Op::Del { id, rel, ts: ts.to_vec() };
    let rd = |id, rel| Op::Read { id, rel };
    vec![
        // sequential: duplicate insert, in-batch duplicate, absent delete, delete + re-insert
        Cfg19 { name: "seq-duplicates".into(), progs: vec![vec![ins(1, 0, &[1, 1, 2]), ins(2, 0, &[1]), rd(3, 0), del(4, 0, &[3]), del(5, 0, &[1, 1]), rd(6, 0), ins(7, 0, &[1]), rd(8, 0), rd(9, 1)]], exhaustive: true, budget: 1, seed: 0 },
        // the late writer: two writers and a reader (DESIGN §9 row 18)
        Cfg19 { name: "two-writers-vs-reader".into(), progs: vec![vec![ins(1, 0, &[1])], vec![ins(2, 0, &[2])], vec![rd(3, 0)]], exhaustive: true, budget: 600, seed: 0 },
        Cfg19 { name: "writer-then-read-vs-writer".into(), progs: vec![vec![ins(1, 0, &[1]), rd(2, 0)], vec![del(3, 0, &[1]), ins(4, 1, &[5])]], exhaustive: false, budget: 200, seed: 7 },
    ]
}

fn main() {
    let args = parse_args();
    let fx = !args.extra.iter().any(|a| a == "--unfixed");
    let mut rng = Rng::new(args.seed);
    let mut sink = Sink::new(&args, "From IL Require Import Checks.C19.", "c19case", "c19_check", 40);
    let mut configs = corpus();
    let corpus_n = configs.len();
    let nseq = (args.n / 4).max(20);
    for i in 0..nseq {
        configs.push(gen_seq(&mut rng, i));
    }
    let per = 30usize;
    let nrandom = (args.n.saturating_sub(nseq + 500) / per).max(4);
    for i in 0..nrandom {
        configs.push(gen_conc(&mut rng, i, per));
    }
    let configs = Arc::new(configs);
    let next = Arc::new(AtomicUsize::new(0));
    let results: Arc<Mutex<Vec<Option<Vec<CaseOut>>>>> = Arc::new(Mutex::new((0..configs.len()).map(|_| None).collect()));
    let workers = std::thread::available_parallelism().map(|x| x.get()).unwrap_or(4).min(8);
    let mut hs = vec![];
    for _ in 0..workers {
        let configs = Arc::clone(&configs);
        let next = Arc::clone(&next);
        let results = Arc::clone(&results);
        hs.push(std::thread::spawn(move || loop {
            let i = next.fetch_add(1, Ordering::SeqCst);
            if i >= configs.len() {
                break;
            }
            let outs = run_cfg(&configs[i], fx);
            results.lock().unwrap()[i] = Some(outs);
        }));
    }
    for h in hs {
        h.join().expect("runner");
    }
    let mut results = results.lock().unwrap();
    for (i, slot) in results.iter_mut().enumerate() {
        let outs = slot.take().unwrap_or_default();
        sink.tally(if i < corpus_n { "config:corpus" } else if configs[i].progs.len() == 1 { "config:sequential" } else { "config:random" });
        for c in outs {
            if c.infeasible {
                sink.tally("infeasible-execution-skipped");
                continue;
            }
            sink.tally("executions");
            let tags: Vec<&str> = c.tags.iter().map(String::as_str).collect();
            sink.push(c.coq, c.desc, &tags, c.key);
        }
    }
    sink.finish();
}
