//! C28 — cross-check of the translator-generated authorization tables against the real
//! `authorize_statement` / `authorize_kg_operation`, one row per statement kind.
use inputlayer::auth::{authorize_kg_operation, authorize_statement, KgRole, Role};
use inputlayer::statement::{parse_statement, IndexCreateOptions, LoadMode, MetaCommand, Statement};
use vharness::*;

/// Exhaustive on purpose: a new variant is a build error until it is named here
/// (and classified in coq/Props/C28.v).
pub fn kind_name(s: &Statement) -> &'static str {
    match s {
        Statement::Insert(_) => "SInsert",
        Statement::Delete(_) => "SDelete",
        Statement::Update(_) => "SUpdate",
        Statement::TypeDecl(_) => "STypeDecl",
        Statement::SessionRule(_) => "SSessionRule",
        Statement::Fact(_) => "SFact",
        Statement::Query(_) => "SQuery",
        Statement::SchemaDecl(_) => "SSchemaDecl",
        Statement::PersistentRule(_) => "SPersistentRule",
        Statement::DeleteRelationOrRule(_) => "SDeleteRelationOrRule",
        Statement::Meta(m) => match m {
            MetaCommand::KgShow => "MKgShow",
            MetaCommand::KgList => "MKgList",
            MetaCommand::KgCreate(_) => "MKgCreate",
            MetaCommand::KgUse(_) => "MKgUse",
            MetaCommand::KgDrop(_) => "MKgDrop",
            MetaCommand::RelList => "MRelList",
            MetaCommand::RelDescribe(_) => "MRelDescribe",
            MetaCommand::RelDrop(_) => "MRelDrop",
            MetaCommand::RuleList => "MRuleList",
            MetaCommand::RuleQuery(_) => "MRuleQuery",
            MetaCommand::RuleShowDef(_) => "MRuleShowDef",
            MetaCommand::RuleDrop(_) => "MRuleDrop",
            MetaCommand::RuleDropPrefix(_) => "MRuleDropPrefix",
            MetaCommand::RuleEdit { .. } => "MRuleEdit",
            MetaCommand::RuleClear(_) => "MRuleClear",
            MetaCommand::RuleRemove { .. } => "MRuleRemove",
            MetaCommand::SessionList => "MSessionList",
            MetaCommand::SessionClear => "MSessionClear",
            MetaCommand::SessionDrop(_) => "MSessionDrop",
            MetaCommand::SessionDropName(_) => "MSessionDropName",
            MetaCommand::IndexList => "MIndexList",
            MetaCommand::IndexCreate(_) => "MIndexCreate",
            MetaCommand::IndexDrop(_) => "MIndexDrop",
            MetaCommand::IndexStats(_) => "MIndexStats",
            MetaCommand::IndexRebuild(_) => "MIndexRebuild",
            MetaCommand::ClearPrefix(_) => "MClearPrefix",
            MetaCommand::Compact => "MCompact",
            MetaCommand::Status => "MStatus",
            MetaCommand::Debug(_) => "MDebug",
            MetaCommand::Why(_) => "MWhy",
            MetaCommand::WhyFull(_) => "MWhyFull",
            MetaCommand::WhyNot(_) => "MWhyNot",
            MetaCommand::AgentMessage(_) => "MAgentMessage",
            MetaCommand::AgentStart(_) => "MAgentStart",
            MetaCommand::AgentSetup(_) => "MAgentSetup",
            MetaCommand::AgentExamples => "MAgentExamples",
            MetaCommand::Help => "MHelp",
            MetaCommand::Quit => "MQuit",
            MetaCommand::Load { .. } => "MLoad",
            MetaCommand::UserList => "MUserList",
            MetaCommand::UserCreate { .. } => "MUserCreate",
            MetaCommand::UserDrop(_) => "MUserDrop",
            MetaCommand::UserPassword { .. } => "MUserPassword",
            MetaCommand::UserRole { .. } => "MUserRole",
            MetaCommand::ApiKeyCreate(_) => "MApiKeyCreate",
            MetaCommand::ApiKeyList => "MApiKeyList",
            MetaCommand::ApiKeyRevoke(_) => "MApiKeyRevoke",
            MetaCommand::KgAclList(_) => "MKgAclList",
            MetaCommand::KgAclGrant { .. } => "MKgAclGrant",
            MetaCommand::KgAclRevoke { .. } => "MKgAclRevoke",
        },
    }
}

fn samples(rng: &mut Rng) -> Vec<Statement> {
    let names = ["default", "_internal", "a", "x:y", ""];
    let mut s = |r: &mut Rng| names[r.below(names.len() as u64) as usize].to_string();
    let mut v = vec![];
    // data statements: through the real statement parser, several payload shapes each
    for text in [
        "+edge(1, 2)", "+edge[(1,2),(3,4)]", "+t(\"a\", 1.5, true)", "-edge(1, 2)", "-edge(X, Y) <- edge(X, Y), X > 1",
        "-edge(X, Y), +edge(Y, X) <- edge(X, Y)", "type Age: int", "p(X) <- edge(X, Y)", "edge(1, 2)", "?edge(X, Y)",
        "?edge(1, Y)", "+person(id: int, name: string)", "+tc(X, Y) <- edge(X, Y)", "-edge", "-tc",
        "type P: { a: int, b: string }", "q(X, count<Y>) <- edge(X, Y)",
    ] {
        match parse_statement(text) {
            Ok(st) => v.push(st),
            Err(e) => eprintln!("note: sample {:?} does not parse: {}", text, e),
        }
    }
    let m = |c: MetaCommand| Statement::Meta(c);
    for _ in 0..2 {
        v.push(m(MetaCommand::KgShow));
        v.push(m(MetaCommand::KgList));
        v.push(m(MetaCommand::KgCreate(s(rng))));
        v.push(m(MetaCommand::KgUse(s(rng))));
        v.push(m(MetaCommand::KgDrop(s(rng))));
        v.push(m(MetaCommand::RelList));
        v.push(m(MetaCommand::RelDescribe(s(rng))));
        v.push(m(MetaCommand::RelDrop(s(rng))));
        v.push(m(MetaCommand::RuleList));
        v.push(m(MetaCommand::RuleQuery(s(rng))));
        v.push(m(MetaCommand::RuleShowDef(s(rng))));
        v.push(m(MetaCommand::RuleDrop(s(rng))));
        v.push(m(MetaCommand::RuleDropPrefix(s(rng))));
        v.push(m(MetaCommand::RuleEdit { name: s(rng), index: rng.below(3) as usize, rule_text: "p(X) <- q(X)".into() }));
        v.push(m(MetaCommand::RuleClear(s(rng))));
        v.push(m(MetaCommand::RuleRemove { name: s(rng), index: rng.below(3) as usize }));
        v.push(m(MetaCommand::SessionList));
        v.push(m(MetaCommand::SessionClear));
        v.push(m(MetaCommand::SessionDrop(rng.below(3) as usize)));
        v.push(m(MetaCommand::SessionDropName(s(rng))));
        v.push(m(MetaCommand::IndexList));
        v.push(m(MetaCommand::IndexCreate(IndexCreateOptions {
            name: s(rng),
            relation: s(rng),
            column: "c".into(),
            index_type: "hnsw".into(),
            metric: None,
            m: None,
            ef_construction: None,
            ef_search: None,
        })));
        v.push(m(MetaCommand::IndexDrop(s(rng))));
        v.push(m(MetaCommand::IndexStats(s(rng))));
        v.push(m(MetaCommand::IndexRebuild(s(rng))));
        v.push(m(MetaCommand::ClearPrefix(s(rng))));
        v.push(m(MetaCommand::Compact));
        v.push(m(MetaCommand::Status));
        v.push(m(MetaCommand::Debug(s(rng))));
        v.push(m(MetaCommand::Why(s(rng))));
        v.push(m(MetaCommand::WhyFull(s(rng))));
        v.push(m(MetaCommand::WhyNot(s(rng))));
        v.push(m(MetaCommand::AgentMessage(s(rng))));
        v.push(m(MetaCommand::AgentStart(s(rng))));
        v.push(m(MetaCommand::AgentSetup(s(rng))));
        v.push(m(MetaCommand::AgentExamples));
        v.push(m(MetaCommand::Help));
        v.push(m(MetaCommand::Quit));
        v.push(m(MetaCommand::Load { path: s(rng), mode: [LoadMode::Default, LoadMode::Replace, LoadMode::Merge][rng.below(3) as usize] }));
        v.push(m(MetaCommand::UserList));
        v.push(m(MetaCommand::UserCreate { username: s(rng), password: "p".into(), role: "admin".into() }));
        v.push(m(MetaCommand::UserDrop(s(rng))));
        v.push(m(MetaCommand::UserPassword { username: s(rng), password: "p".into() }));
        v.push(m(MetaCommand::UserRole { username: s(rng), role: "viewer".into() }));
        v.push(m(MetaCommand::ApiKeyCreate(s(rng))));
        v.push(m(MetaCommand::ApiKeyList));
        v.push(m(MetaCommand::ApiKeyRevoke(s(rng))));
        v.push(m(MetaCommand::KgAclList(if rng.chance(1, 2) { Some(s(rng)) } else { None })));
        v.push(m(MetaCommand::KgAclGrant { kg_name: s(rng), username: s(rng), role: "owner".into() }));
        v.push(m(MetaCommand::KgAclRevoke { kg_name: s(rng), username: s(rng) }));
    }
    v
}

fn main() {
    let args = parse_args();
    let mut rng = Rng::new(args.seed);
    let mut sink = Sink::new(&args, "From IL Require Import Checks.C28.", "c28case", "c28_check", 400);
    let mut seen = std::collections::BTreeSet::new();
    for st in samples(&mut rng) {
        let k = kind_name(&st);
        seen.insert(k);
        let g: Vec<bool> =
            [Role::Admin, Role::Editor, Role::Viewer].iter().map(|r| authorize_statement(r, &st).is_ok()).collect();
        let kk: Vec<bool> =
            [KgRole::Owner, KgRole::Editor, KgRole::Viewer].iter().map(|r| authorize_kg_operation(r, &st).is_ok()).collect();
        let coq = format!(
            "C28Row {} {} {} {} {} {} {}",
            k,
            coq_bool(g[0]),
            coq_bool(g[1]),
            coq_bool(g[2]),
            coq_bool(kk[0]),
            coq_bool(kk[1]),
            coq_bool(kk[2])
        );
        let allowed = g.iter().chain(kk.iter()).filter(|b| **b).count();
        let key = if allowed > 0 && allowed < 6 { Some(format!("{} {:?} {:?}", k, g, kk)) } else { None };
        sink.tally(&format!("kind:{}", k));
        sink.push(coq, serde_json::json!({"statement": format!("{:?}", st), "kind": k, "global[admin,editor,viewer]": g, "kg[owner,editor,viewer]": kk}), &[k], key);
    }
    // which kinds were exercised: the Coq side checks this list against all_kinds
    let seen_list: Vec<String> = seen.iter().map(|s| s.to_string()).collect();
    sink.push(format!("C28Seen {}", coq_list(&seen_list)), serde_json::json!({"kinds_exercised": seen_list.len()}), &["coverage"], None);
    sink.finish();
}
