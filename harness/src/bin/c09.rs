//! C09 — rules mean the same inline, as session rules and as persistent rules.
//!
//! Part 1 (round trip): grammar-generated rule text -> real `parse_rule` -> `Display` -> `parse_rule`
//! again; the three results are printed as Coq terms (Model/Syntax.v AST) next to the input so that
//! Checks/C09.v can (a) run the character-level model of the parser and printer on the same text and
//! compare (correspondence) and (b) evaluate the property oracle "re-parsed AST = first AST" on the
//! implementation's own output.  The tables every case carries (f64 lexeme values, `{}` / `{:?}`
//! texts of the floats that occur, classes of the non-ASCII characters) are the only facts the
//! model takes from Rust; they are validated by the checker against the model's own assumptions.
//!
//! Part 2 (end to end, every `E2E_EVERY`-th case): one evaluable rule over a fixed database is
//! submitted through the storage engine directly (text parsed once), inline in a handler program,
//! as a session rule, as a persistent rule and as a persistent rule after a restart; the answers
//! are compared as sets.
use inputlayer::ast::{
    AggregateFunc, ArithExpr, ArithOp, Atom, BodyPredicate, ComparisonOp, Rule, Term,
};
use inputlayer::parser::parse_rule;
use inputlayer::protocol::Handler;
use inputlayer::{Config, StorageEngine};
use std::collections::{BTreeMap, BTreeSet};
use vharness::*;

const E2E_EVERY: usize = 20;

// ------------------------------------------------------------------ Coq printing
fn cs(s: &str) -> String {
    // list N without %N suffixes (N_scope is open in the generated files)
    let v: Vec<String> = s.chars().map(|c| (c as u32).to_string()).collect();
    format!("[{}]", v.join(";"))
}
fn canon(b: u64) -> u64 {
    if f64::from_bits(b).is_nan() {
        0x7FF8_0000_0000_0000
    } else {
        b
    }
}
#[derive(Default)]
struct Ser {
    floats: BTreeSet<u64>,
    unsupported: bool,
}
impl Ser {
    fn fl(&mut self, f: f64) -> String {
        let b = canon(f.to_bits());
        self.floats.insert(b);
        b.to_string()
    }
    fn strs(&self, v: &[String]) -> String {
        let x: Vec<String> = v.iter().map(|s| cs(s)).collect();
        format!("[{}]", x.join(";"))
    }
    fn arith(&mut self, e: &ArithExpr) -> String {
        match e {
            ArithExpr::Variable(s) => format!("(AVar {})", cs(s)),
            ArithExpr::Constant(i) => format!("(AInt {})", coq_z(*i as i128)),
            ArithExpr::FloatConstant(b) => format!("(AFloat {})", self.fl(f64::from_bits(*b))),
            ArithExpr::Binary { op, left, right } => {
                let o = match op {
                    ArithOp::Add => "OAdd",
                    ArithOp::Sub => "OSub",
                    ArithOp::Mul => "OMul",
                    ArithOp::Div => "ODiv",
                    ArithOp::Mod => "OMod",
                };
                format!("(ABin {} {} {})", o, self.arith(left), self.arith(right))
            }
        }
    }
    fn aggf(&mut self, g: &AggregateFunc) -> String {
        match g {
            AggregateFunc::Count => "GCount".into(),
            AggregateFunc::CountDistinct => "GCountDistinct".into(),
            AggregateFunc::Sum => "GSum".into(),
            AggregateFunc::Min => "GMin".into(),
            AggregateFunc::Max => "GMax".into(),
            AggregateFunc::Avg => "GAvg".into(),
            AggregateFunc::TopK { k, order_var, output_vars, descending } => format!(
                "(GTopK {} {} {} {})",
                k,
                cs(order_var),
                self.strs(output_vars),
                coq_bool(*descending)
            ),
            AggregateFunc::TopKThreshold { k, order_var, output_vars, threshold, descending } => {
                format!(
                    "(GTopKThr {} {} {} {} {})",
                    k,
                    cs(order_var),
                    self.strs(output_vars),
                    self.fl(*threshold),
                    coq_bool(*descending)
                )
            }
            AggregateFunc::WithinRadius { distance_var, output_vars, max_distance } => format!(
                "(GWithin {} {} {})",
                cs(distance_var),
                self.strs(output_vars),
                self.fl(*max_distance)
            ),
        }
    }
    fn term(&mut self, t: &Term) -> String {
        match t {
            Term::Variable(s) => format!("(TVar {})", cs(s)),
            Term::Constant(i) => format!("(TInt {})", coq_z(*i as i128)),
            Term::Placeholder => "TPh".into(),
            Term::Aggregate(g, v) => format!("(TAgg {} {})", self.aggf(g), cs(v)),
            Term::Arithmetic(a) => format!("(TArith {})", self.arith(a)),
            Term::FunctionCall(f, args) => {
                let a: Vec<String> = args.iter().map(|x| self.term(x)).collect();
                format!("(TFun {} [{}])", cs(f.as_str()), a.join(";"))
            }
            Term::VectorLiteral(xs) => {
                let a: Vec<String> = xs.iter().map(|x| self.fl(*x)).collect();
                format!("(TVec [{}])", a.join(";"))
            }
            Term::FloatConstant(f) => format!("(TFloat {})", self.fl(*f)),
            Term::StringConstant(s) => format!("(TStr {})", cs(s)),
            Term::BoolConstant(b) => format!("(TBool {})", coq_bool(*b)),
            Term::FieldAccess(..) | Term::RecordPattern(..) => {
                self.unsupported = true;
                "TPh".into()
            }
        }
    }
    fn atom(&mut self, a: &Atom) -> String {
        let x: Vec<String> = a.args.iter().map(|t| self.term(t)).collect();
        format!("(Atom {} [{}])", cs(&a.relation), x.join(";"))
    }
    fn bpred(&mut self, b: &BodyPredicate) -> String {
        match b {
            BodyPredicate::Positive(a) => format!("(BPos {})", self.atom(a)),
            BodyPredicate::Negated(a) => format!("(BNeg {})", self.atom(a)),
            BodyPredicate::Comparison(l, o, r) => {
                let oc = match o {
                    ComparisonOp::Equal => "CEq",
                    ComparisonOp::NotEqual => "CNe",
                    ComparisonOp::LessThan => "CLt",
                    ComparisonOp::LessOrEqual => "CLe",
                    ComparisonOp::GreaterThan => "CGt",
                    ComparisonOp::GreaterOrEqual => "CGe",
                };
                format!("(BCmp {} {} {})", self.term(l), oc, self.term(r))
            }
            BodyPredicate::HnswNearest { index_name, query, k, id_var, distance_var, ef_search } => {
                format!(
                    "(BHnsw {} {} {} {} {} {})",
                    cs(index_name),
                    self.term(query),
                    k,
                    cs(id_var),
                    cs(distance_var),
                    match ef_search {
                        Some(e) => format!("(Some {})", e),
                        None => "None".into(),
                    }
                )
            }
        }
    }
    fn rule(&mut self, r: &Rule) -> String {
        let b: Vec<String> = r.body.iter().map(|p| self.bpred(p)).collect();
        format!("(Rule {} [{}])", self.atom(&r.head), b.join(";"))
    }
    fn orule(&mut self, r: &Result<Rule, String>) -> String {
        match r {
            Ok(r) => format!("(Some {})", self.rule(r)),
            Err(_) => "None".into(),
        }
    }
}

/// every substring of a maximal run over [0-9A-Za-z_.+-] that starts and ends at a run boundary
/// or next to a sign, and that `str::parse::<f64>` accepts  ->  its (NaN-canonical) bits
fn f64_lexemes(text: &str, out: &mut BTreeMap<String, u64>) {
    let chars: Vec<char> = text.chars().collect();
    let in_alpha = |c: char| c.is_ascii_alphanumeric() || c == '_' || c == '.' || c == '+' || c == '-';
    let mut i = 0;
    while i < chars.len() {
        if !in_alpha(chars[i]) {
            i += 1;
            continue;
        }
        let mut j = i;
        while j < chars.len() && in_alpha(chars[j]) {
            j += 1;
        }
        let run = &chars[i..j];
        let mut cuts: BTreeSet<usize> = BTreeSet::new();
        cuts.insert(0);
        cuts.insert(run.len());
        for (k, c) in run.iter().enumerate() {
            if *c == '+' || *c == '-' {
                cuts.insert(k);
                cuts.insert(k + 1);
            }
        }
        let cv: Vec<usize> = cuts.into_iter().collect();
        for a in 0..cv.len() {
            for b in a + 1..cv.len() {
                let s: String = run[cv[a]..cv[b]].iter().collect();
                if s.len() > 400 {
                    continue;
                }
                if let Ok(f) = s.parse::<f64>() {
                    out.insert(s, canon(f.to_bits()));
                }
            }
        }
        i = j;
    }
}

fn tables(texts: &[&str], floats: &BTreeSet<u64>) -> String {
    let mut lex = BTreeMap::new();
    for t in texts {
        f64_lexemes(t, &mut lex);
    }
    for b in floats {
        for t in [format!("{}", f64::from_bits(*b)), format!("{:?}", f64::from_bits(*b))] {
            if let Ok(f) = t.parse::<f64>() {
                lex.insert(t, canon(f.to_bits()));
            }
        }
    }
    let f: Vec<String> = lex.iter().map(|(s, b)| format!("({},{})", cs(s), b)).collect();
    let d: Vec<String> =
        floats.iter().map(|b| format!("({},{})", b, cs(&format!("{}", f64::from_bits(*b))))).collect();
    let g: Vec<String> =
        floats.iter().map(|b| format!("({},{})", b, cs(&format!("{:?}", f64::from_bits(*b))))).collect();
    let mut cls: BTreeMap<u32, u32> = BTreeMap::new();
    for t in texts {
        for c in t.chars() {
            let bits = (c.is_alphanumeric() as u32)
                | ((c.is_uppercase() as u32) << 1)
                | ((c.is_lowercase() as u32) << 2)
                | ((c.is_whitespace() as u32) << 3);
            cls.insert(c as u32, bits);
        }
    }
    let c: Vec<String> = cls.iter().map(|(k, v)| format!("({},{})", k, v)).collect();
    format!("(Tabs [{}] [{}] [{}] [{}])", f.join(";"), d.join(";"), g.join(";"), c.join(";"))
}

// ------------------------------------------------------------------ generator
const VARS: &[&str] = &[
    "X", "Y", "Z", "A", "B", "V", "D", "Name", "Score", "X1", "Y_2", "_t", "_T1", "X1e", "V2E", "K9e", "NaN", "Inf",
    "Infinity", "E", "É", "Xé", "Ω1", "Desc", "T",
];
const RELS: &[&str] = &["p", "q", "r", "edge", "r_1", "s2", "path", "hnsw_nearest", "é", "limit", "abs"];
const AVARS: &[&str] = &["X", "Y", "Z", "A", "B", "abs", "e", "x1", "X1e", "V2E", "2e", "E5", "inf", "nan", "NaN", "Infinity", "_", "_a", "1_000", "É"];
const INTS: &[&str] = &[
    "0", "1", "2", "5", "10", "42", "1000", "-1", "-5", "+5", "007", "-0", "9223372036854775807", "-9223372036854775808",
    "9223372036854775808", "18446744073709551616", "- 5", "--5",
];
const FLOATS: &[&str] = &[
    "2.0", "1e3", "-0.0", "0.0", "1.", ".5", "1E3", "1e+3", "1e300", "1e-7", "1.5e-7", "3.14", "-2.5", "1e16", "1e15",
    "1e21", "5e-324", "1.7976931348623157e308", "0.1", "0.30000000000000004", "123456789012345680000.0", "1000000.0",
    "2.50", "1e-5", "0.00001", "9007199254740993.0", "1e400", "-1e400", "4.0", "100.0", "1e0", "-1e3", "- 2.5", "1.e2",
    "+1.5", "-.5", "1e-400",
];
const SPECIAL_FLOATS: &[&str] = &["inf", "-inf", "nan", "NaN", "-nan", "-NaN", "infinity", "-Infinity", "+inf", "INF"];
const STRS: &[&str] = &[
    "", "a", "alice", "a b", " a ", "é☃", "a\\\"b", "a\\\\b", "a'b", "x//y", "/*c*/", "a.b", "a:b", "100%", "a+b", "a-b",
    "a*b", "1e5", "true", "_", "X", "a;b", "a|b", "a&b", "#", "a\tb", "a?b", "a~b", "a{b}", "a$", "a@b.c", "a\"b",
];
const SPECIAL_STRS: &[&str] =
    &["a,b", "a(b", "a)b", "a<b", "a>b", "a[b", "a]b", "a=b", "a==b", "a<-b", "!a", "a!=b", "(", ")", "a()", "<>", "a, b", ")("];
const BUILTINS: &[&str] = &[
    "euclidean", "cosine", "dot", "manhattan", "lsh_bucket", "normalize", "vec_dim", "vec_add", "vec_scale", "time_now",
    "time_diff", "time_add", "time_sub", "time_decay", "time_decay_linear", "time_before", "time_after", "time_between",
    "within_last", "intervals_overlap", "interval_contains", "interval_duration", "point_in_interval", "quantize_linear",
    "quantize_symmetric", "dequantize", "dequantize_scaled", "euclidean_int8", "cosine_int8", "dot_int8",
    "manhattan_int8", "lsh_probes", "lsh_multi_probe", "abs_int64", "abs_float64", "abs", "sqrt", "pow", "log", "exp",
    "sin", "cos", "tan", "floor", "ceil", "sign", "to_float", "to_int", "len", "upper", "lower", "trim", "substr",
    "replace", "concat", "min_val", "max_val",
];

struct Gen<'a> {
    r: &'a mut Rng,
    /// probability (per mille) of spacing noise
    noise: u64,
}
impl<'a> Gen<'a> {
    fn sp(&mut self) -> &'static str {
        if self.r.below(1000) < self.noise {
            *self.r.pick(&[" ", "  ", "\t", " "])
        } else {
            ""
        }
    }
    fn var(&mut self) -> String {
        if self.r.chance(4, 5) {
            self.r.pick(&VARS[..8]).to_string()
        } else {
            self.r.pick(VARS).to_string()
        }
    }
    fn rel(&mut self) -> String {
        if self.r.chance(9, 10) {
            self.r.pick(&RELS[..7]).to_string()
        } else {
            self.r.pick(RELS).to_string()
        }
    }
    fn int(&mut self) -> String {
        if self.r.chance(1, 2) {
            self.r.range(-20, 200).to_string()
        } else {
            self.r.pick(INTS).to_string()
        }
    }
    fn float(&mut self) -> String {
        match self.r.below(10) {
            0..=4 => self.r.pick(FLOATS).to_string(),
            5 => {
                // random decimal
                let m = self.r.range(-9999, 9999);
                let d = self.r.below(4);
                format!("{}.{}", m, "0123456789".chars().nth(d as usize + 1).unwrap())
            }
            6 => format!("{}.0", self.r.range(-50, 1000)),
            7 => format!("{}e{}", self.r.range(1, 99), self.r.range(-30, 30)),
            8 => format!("{}.{}e{}", self.r.range(0, 9), self.r.below(1000), self.r.range(-320, 308)),
            _ => format!("{:?}", f64::from_bits(self.r.next())),
        }
    }
    fn string(&mut self) -> String {
        let body = if self.r.chance(1, 12) { *self.r.pick(SPECIAL_STRS) } else { *self.r.pick(STRS) };
        format!("\"{}\"", body)
    }
    fn vector(&mut self) -> String {
        let n = self.r.below(4);
        let mut v = vec![];
        for _ in 0..n {
            let e = match self.r.below(8) {
                0 => self.int(),
                1 => self.r.pick(SPECIAL_FLOATS).to_string(),
                _ => self.float(),
            };
            v.push(format!("{}{}{}", self.sp(), e, self.sp()));
        }
        format!("[{}]", v.join(","))
    }
    fn aleaf(&mut self) -> String {
        match self.r.below(10) {
            0..=3 => self.var(),
            4 => self.r.pick(AVARS).to_string(),
            5..=6 => self.int(),
            7..=8 => self.float(),
            _ => self.r.pick(SPECIAL_FLOATS).to_string(),
        }
    }
    /// arithmetic text with random redundant parentheses and spacing
    fn arith(&mut self, depth: u32) -> String {
        if depth == 0 || self.r.chance(1, 4) {
            return self.aleaf();
        }
        let op = *self.r.pick(&["+", "-", "*", "/", "%"]);
        let l = self.arith(depth - 1);
        let r = self.arith(depth - 1);
        let wrap = |g: &mut Self, s: String| if g.r.chance(1, 3) { format!("({}{}{})", g.sp(), s, g.sp()) } else { s };
        let l = wrap(self, l);
        let r = wrap(self, r);
        let s1 = if self.r.chance(1, 3) { " " } else { "" };
        let s2 = if self.r.chance(1, 3) { " " } else { "" };
        format!("{}{}{}{}{}", l, s1, op, s2, r)
    }
    fn agg(&mut self) -> String {
        match self.r.below(10) {
            0..=4 => {
                let f = *self.r.pick(&["count", "sum", "min", "max", "avg", "count_distinct", "countdistinct", "COUNT", "Sum"]);
                let v = if self.r.chance(9, 10) { self.var() } else { self.r.pick(&["x", "X Y", "", "-X", "X>", "1"]).to_string() };
                format!("{}{}<{}{}{}>", f, self.sp(), self.sp(), v, self.sp())
            }
            5..=6 => {
                let k = self.r.pick(&["1", "3", "10", "0", "+2", "-1", "18446744073709551615", "x"]).to_string();
                format!("top_k<{}{}>", k, self.outs(true))
            }
            7..=8 => {
                let k = self.r.range(1, 9).to_string();
                let th = match self.r.below(6) {
                    0 => self.int(),
                    1 => self.r.pick(SPECIAL_FLOATS).to_string(),
                    _ => self.float(),
                };
                let name = if self.r.chance(1, 8) { "TOP_K_THRESHOLD" } else { "top_k_threshold" };
                format!("{}<{},{}{}{}>", name, k, self.sp(), th, self.outs(true))
            }
            _ => {
                let m = match self.r.below(6) {
                    0 => self.int(),
                    1 => self.r.pick(SPECIAL_FLOATS).to_string(),
                    _ => self.float(),
                };
                format!("within_radius<{}{}{}>", self.sp(), m, self.outs(false))
            }
        }
    }
    fn outs(&mut self, _topk: bool) -> String {
        let n = self.r.range(1, 3) as usize;
        let mut vs: Vec<String> = (0..n).map(|_| self.var()).collect();
        if self.r.chance(9, 10) {
            vs.dedup();
            let mut seen = BTreeSet::new();
            vs.retain(|v| seen.insert(v.clone()));
        }
        let ann = self.r.below(vs.len() as u64 + 1) as usize; // == len: no annotation
        let mut s = String::new();
        for (i, v) in vs.iter().enumerate() {
            s.push(',');
            s.push_str(self.sp());
            s.push_str(v);
            if i == ann || (vs.len() > 1 && ann == vs.len() && i == 0 && self.r.chance(9, 10)) {
                s.push_str(if self.r.chance(1, 2) { ":desc" } else { ":asc" });
            } else if self.r.chance(1, 40) {
                s.push_str(":desc");
            }
            s.push_str(self.sp());
        }
        s
    }
    fn fun(&mut self, depth: u32) -> String {
        let mut f = self.r.pick(BUILTINS).to_string();
        if self.r.chance(1, 10) {
            f = f.to_uppercase();
        }
        let n = self.r.below(4);
        let mut a = vec![];
        for _ in 0..n {
            let t = match self.r.below(9) {
                0..=2 => self.var(),
                3 => self.float(),
                4 => self.vector(),
                5 => self.string(),
                6 if depth > 0 => self.fun(depth - 1),
                7 => self.arith(2),
                _ => self.int(),
            };
            a.push(format!("{}{}{}", self.sp(), t, self.sp()));
        }
        format!("{}{}({})", f, self.sp(), a.join(","))
    }
    fn term(&mut self, head: bool) -> String {
        match self.r.below(if head { 22 } else { 20 }) {
            0..=5 => self.var(),
            6..=7 => self.int(),
            8..=10 => self.float(),
            11..=12 => self.string(),
            13 => (*self.r.pick(&["true", "false", "True"])).to_string(),
            14 => "_".to_string(),
            15 => self.vector(),
            16..=17 => self.arith(3),
            18 => self.fun(1),
            19 => self.r.pick(&["-inf", "-nan", "inf", "alice", "x", "X.f", "-X", "(X)", "+X"]).to_string(),
            _ => self.agg(),
        }
    }
    fn atom(&mut self, head: bool) -> String {
        let n = self.r.range(0, 4);
        let mut a = vec![];
        for _ in 0..n {
            a.push(format!("{}{}{}", self.sp(), self.term(head), self.sp()));
        }
        format!("{}{}({})", self.rel(), self.sp(), a.join(","))
    }
    fn cmp_side(&mut self) -> String {
        match self.r.below(12) {
            0..=3 => self.var(),
            4 => self.int(),
            5..=6 => self.float(),
            7 => self.string(),
            8..=9 => self.arith(3),
            10 => self.fun(1),
            _ => self.term(true),
        }
    }
    fn bpred(&mut self) -> String {
        match self.r.below(12) {
            0..=4 => self.atom(false),
            5 => format!("{}{}", self.r.pick(&["!", "! ", "!!", "!"]), self.atom(false)),
            6..=9 => {
                let op = *self.r.pick(&["=", "!=", "<", "<=", ">", ">=", "=", "=", "=="]);
                let s1 = if self.r.chance(1, 4) { "" } else { " " };
                let s2 = if self.r.chance(1, 4) { "" } else { " " };
                format!("{}{}{}{}{}", self.cmp_side(), s1, op, s2, self.cmp_side())
            }
            10 => {
                let q = if self.r.chance(1, 2) { self.var() } else { self.vector() };
                let k = self.r.pick(&["1", "3", "10", "0", "+2", "x"]).to_string();
                let ef = if self.r.chance(1, 3) { format!(", {}", self.r.range(1, 200)) } else { String::new() };
                format!(
                    "hnsw_nearest({}\"{}\",{}{}, {}, {}, {}{})",
                    self.sp(),
                    self.r.pick(&["idx", "doc_idx", "a b", "", "i\"x"]),
                    self.sp(),
                    q,
                    k,
                    self.var(),
                    self.var(),
                    ef
                )
            }
            _ => self.atom(false),
        }
    }
    fn rule(&mut self) -> String {
        let head = self.atom(true);
        let n = self.r.below(5);
        if n == 0 {
            return if self.r.chance(1, 6) { format!("{} <- ", head) } else { head };
        }
        let mut b = vec![];
        for _ in 0..n {
            b.push(format!("{}{}{}", self.sp(), self.bpred(), self.sp()));
        }
        let arrow = *self.r.pick(&[" <- ", "<-", " <-", "<- ", " <- "]);
        format!("{}{}{}{}", self.sp(), head, arrow, b.join(","))
    }
}

fn mutate(r: &mut Rng, s: &str) -> String {
    let mut c: Vec<char> = s.chars().collect();
    let n = r.range(1, 3);
    for _ in 0..n {
        if c.is_empty() {
            break;
        }
        let i = r.below(c.len() as u64) as usize;
        let ins = *r.pick(&['(', ')', ',', '<', '>', '-', '"', '!', '=', ' ', '[', ']', '.', 'e', '1', '+', '*', ':', '_', 'X']);
        match r.below(3) {
            0 => {
                c.remove(i);
            }
            1 => c.insert(i, ins),
            _ => c[i] = ins,
        }
    }
    c.into_iter().collect()
}

const CORPUS: &[&str] = &[
    // DESIGN §9 row 10: floats that print like integers
    "p(X, 2.0) <- q(X)",
    "p(X, 1e3) <- q(X)",
    "p(X, -0.0) <- q(X)",
    "p(X, Y) <- q(X), Y = X + 2.0",
    "p(X, Y) <- q(X), Y = X + 1e+3",
    "p(X, 1.) <- q(X)",
    "p(X, 1e300) <- q(X)",
    "p(X, 1e-7) <- q(X), Y = X * 1e-7, Z = X - 1.5e-7",
    "p(X, 9223372036854775808) <- q(X)",
    // last argument ending in ')'
    "p(X, abs(Y) ) <- q(X, Y)",
    "p(X, abs(Y)) <- q(X, Y)",
    "p(X, C*(A+B) ) <- q(A,B,C,X)",
    "p(X, C*(A+B)) <- q(A, B, C, X)",
    "p(X) <- q(X, euclidean(V, [1.0, 2.0])), v(V)",
    // identifiers that look like scientific notation
    "p(X, Y) <- q(X), Y = X1e - 3",
    "p(X, Y) <- q(X), Y = 2e - 3",
    "p(X, Y) <- q(X), Y = V2E + 1",
    // non-finite
    "p(X, -inf) <- q(X)",
    "p(X, -nan) <- q(X)",
    "p(X, Y) <- q(X), Y = X + inf",
    "p(X, Y) <- q(X), Y = X + nan",
    "p(X, Y) <- q(X), Y = NaN * 2",
    // aggregates
    "p(within_radius< -2, X>) <- q(X)",
    "p(within_radius<-0.0, X, Y:asc>) <- q(X, Y)",
    "p(top_k<3, Y, Y:desc>) <- q(X, Y)",
    "p(top_k<3, X, Y:desc>) <- q(X, Y)",
    "p(top_k<3, Y>) <- q(X, Y)",
    "p(top_k<3, Y:asc>) <- q(X, Y)",
    "p(top_k_threshold<3, 2.0, X, Y:desc>) <- q(X, Y)",
    "p(top_k_threshold<3, -nan, Y>) <- q(X, Y)",
    "p(within_radius<1e300, Y>) <- q(X, Y)",
    "p(X, COUNT< Y >) <- q(X, Y)",
    "p(X, countdistinct<Y>) <- q(X, Y)",
    // strings
    "p(X, \"a\\\"b\") <- q(X)",
    "p(X, \"a\"b\") <- q(X)",
    "p(X, \"a(b\") <- q(X)",
    "p(\"a)\", X) <- q(X)",
    "p(X, \"a)\") <- q(X)",
    "p(X, \"a,b\") <- q(X)",
    "p(X) <- q(X), X = \"a=b\"",
    "p(X) <- q(X), X = \"a<b\"",
    "p(X, \"é☃\") <- q(X, \" a \")",
    // arithmetic
    "p(X, Y) <- q(X), Y = 2 - (X - 1)",
    "p(X, Y) <- q(X), Y = X - -1",
    "p(X, Y) <- q(X), Y = -1 - X",
    "p(X, Y) <- q(X), Y = X / (2 * 3) % 4",
    "p(X, Y) <- q(X), Y = ((X + 1))",
    "p(X) <- q(X), Y = (X)",
    "p(X+1) <- q(X)",
    // misc
    "p(X) <- q(X), !!r(X), ! s2(X)",
    "p(X) <- hnsw_nearest(\"idx\", [1.0, 2.0], 3, X, D)",
    "p(X) <- hnsw_nearest(\"idx\", V, 3, X, D, 50), v(V)",
    "p(X) <- q(X), V = [1.0, 2.0]",
    "p(X) <- q(X), V = [1.0]",
    "p(1) <- ",
    "p(X) <- ",
    "p()",
    " p ( X , Y ) <- q ( X ) , Y = X+1 ",
    "p(X, - 5, - 2.5, --5) <- q(X)",
    "p(X) <- q(X), X < 5, X >= 2, X != 3, X <= 9, X > 0, X = X",
    "p(X) <- q(X), Y = count<X>",
    "hnsw_nearest(X) <- q(X)",
    "p(X) <- hnsw_nearest(X)",
    "p(X) <- q(X), true = X, _ != 3",
    "p(X, - -9223372036854775808) <- q(X)",
    // a signed non-finite float is read as a bare arithmetic leaf
    "edge(+inf, D, Y, X) <- p()",
    "q() <- +inf != X, +nan = Y, +1e400 < Z",
];

// ------------------------------------------------------------------ end to end
fn mk_handler(dir: &std::path::Path) -> Result<Handler, String> {
    let mut config = Config::default();
    config.storage.data_dir = dir.to_path_buf();
    let storage = StorageEngine::new(config).map_err(|e| format!("open: {e}"))?;
    Ok(Handler::new(storage))
}
fn wire(v: &inputlayer::protocol::WireValue) -> String {
    use inputlayer::protocol::WireValue as W;
    match v {
        W::Float64(f) => format!("F{:016x}", canon(f.to_bits())),
        other => format!("{:?}", other),
    }
}
fn answer(r: Result<inputlayer::protocol::QueryResult, String>) -> String {
    match r {
        Err(e) => format!("ERR {}", e.chars().take(120).collect::<String>()),
        Ok(q) => {
            let mut v: Vec<String> =
                q.rows.iter().map(|t| t.values.iter().map(wire).collect::<Vec<_>>().join(",")).collect();
            v.sort();
            v.dedup();
            format!("{:?}", v)
        }
    }
}
const FACTS: &str = "+q[(1, 2), (2, 3), (3, 3), (4, 1000)]\n+f[(1, 2.0), (2, 2.5), (3, 1000.0), (4, -0.0), (5, 0.1)]\n+s[(1, \"a\"), (2, \"b c\"), (3, \"\")]\n+b[(1, true), (2, false)]\n+v[(1, [1.0, 2.0]), (2, [0.0, 0.0]), (3, [3.0, 4.0])]";

fn e2e_rule(r: &mut Rng) -> (String, String) {
    let fl = |r: &mut Rng| r.pick(&["2.0", "2.5", "1e3", "0.1", "-0.0", "1000.0", "3.0", "1e-7", "0.5", "4.0", "1e16"]).to_string();
    let it = |r: &mut Rng| r.pick(&["1", "2", "3", "1000", "-1", "0"]).to_string();
    let cmp = |r: &mut Rng| r.pick(&["=", "!=", "<", "<=", ">", ">="]).to_string();
    match r.below(16) {
        0 => (format!("ans(X) <- f(X, {})", fl(r)), "?ans(X)".into()),
        1 => (format!("ans(X) <- q(X, {})", fl(r)), "?ans(X)".into()),
        2 => (format!("ans(X, Y) <- f(X, Z), Y = Z + {}", fl(r)), "?ans(X, Y)".into()),
        3 => (format!("ans(X, Y) <- q(X, Z), Y = Z / {}", fl(r)), "?ans(X, Y)".into()),
        4 => (format!("ans(X, Y) <- q(X, Z), Y = Z * {} - {}", fl(r), it(r)), "?ans(X, Y)".into()),
        5 => (format!("ans(X) <- f(X, Z), Z {} {}", cmp(r), fl(r)), "?ans(X)".into()),
        6 => (format!("ans(X) <- q(X, Z), Z {} {}", cmp(r), fl(r)), "?ans(X)".into()),
        7 => (format!("ans(X) <- s(X, \"{}\")", r.pick(&["a", "b c", "", "zz"])), "?ans(X)".into()),
        8 => (format!("ans(X) <- q(X, Y), !f(X, {})", fl(r)), "?ans(X)".into()),
        9 => (format!("ans({}<Z>) <- f(X, Z), Z > {}", r.pick(&["count", "sum", "min", "max", "avg"]), fl(r)), "?ans(N)".into()),
        10 => (format!("ans(X, Y) <- q(X, Z), Y = (Z + {}) * ({} - Z) % 7", it(r), it(r)), "?ans(X, Y)".into()),
        11 => (format!("ans(X) <- b(X, {})", r.pick(&["true", "false"])), "?ans(X)".into()),
        12 => (format!("ans(X, D) <- v(X, V), D = euclidean(V, [{}, {}])", fl(r), fl(r)), "?ans(X, D)".into()),
        13 => (format!("ans(X, Y) <- q(X, Z), Y = Z + {}", r.pick(&["inf", "nan", "-inf"])), "?ans(X, Y)".into()),
        14 => (format!("ans(X) <- f(X, Z), Z > {}", r.pick(&["-inf", "- 2.5", "-1e400"])), "?ans(X)".into()),
        _ => (format!("ans(X, {}) <- q(X, Y)", fl(r)), "?ans(X, Y)".into()),
    }
}

async fn e2e(rule: &str, query: &str) -> Vec<(String, String)> {
    let mut out = vec![];
    // engine syntax of the query for the direct path
    let qargs = &query[query.find('(').unwrap()..];
    {
        let t = tempfile::TempDir::new().unwrap();
        let h = match mk_handler(t.path()) {
            Ok(h) => h,
            Err(e) => return vec![("setup".into(), e)],
        };
        let _ = h.query_program(None, FACTS.to_string()).await;
        let direct = h
            .get_storage()
            .execute_query_tuples_on("default", &format!("{rule}\n__query__{qargs} <- ans{qargs}"));
        out.push((
            "direct".to_string(),
            match direct {
                Err(e) => format!("ERR {}", e.to_string().chars().take(120).collect::<String>()),
                Ok(ts) => {
                    let mut v: Vec<String> = ts
                        .iter()
                        .map(|t| {
                            t.values()
                                .iter()
                                .map(|x| wire(&value_to_wire(x)))
                                .collect::<Vec<_>>()
                                .join(",")
                        })
                        .collect();
                    v.sort();
                    v.dedup();
                    format!("{:?}", v)
                }
            },
        ));
        out.push(("inline".into(), answer(h.query_program(None, format!("{rule}\n{query}")).await)));
        match h.create_session("default") {
            Ok(sid) => {
                let add = h.execute_program(Some(&sid), None, rule.to_string(), None).await;
                if let Err(e) = add {
                    out.push(("session".into(), format!("ERR {}", e.chars().take(120).collect::<String>())));
                } else {
                    out.push(("session".into(), answer(h.execute_program(Some(&sid), None, query.to_string(), None).await)));
                }
            }
            Err(e) => out.push(("session".into(), format!("ERR {e}"))),
        }
    }
    {
        let t = tempfile::TempDir::new().unwrap();
        {
            let h = match mk_handler(t.path()) {
                Ok(h) => h,
                Err(e) => return vec![("setup".into(), e)],
            };
            let _ = h.query_program(None, FACTS.to_string()).await;
            let add = h.query_program(None, format!("+{rule}")).await;
            if let Err(e) = add {
                out.push(("persistent".into(), format!("ERR {}", e.chars().take(120).collect::<String>())));
                out.push(("restart".into(), "SKIP".into()));
                return out;
            }
            out.push(("persistent".into(), answer(h.query_program(None, query.to_string()).await)));
        }
        match mk_handler(t.path()) {
            Ok(h) => out.push(("restart".into(), answer(h.query_program(None, query.to_string()).await))),
            Err(e) => out.push(("restart".into(), format!("ERR {e}"))),
        }
    }
    out
}
fn value_to_wire(v: &inputlayer::value::Value) -> inputlayer::protocol::WireValue {
    use inputlayer::protocol::WireValue as W;
    use inputlayer::value::Value;
    match v {
        Value::Int32(n) => W::Int32(*n),
        Value::Int64(n) => W::Int64(*n),
        Value::Float64(f) => W::Float64(*f),
        Value::String(s) => W::String(s.to_string()),
        Value::Vector(x) => W::Vector(x.as_ref().clone()),
        Value::VectorInt8(x) => W::VectorInt8(x.as_ref().clone()),
        Value::Bool(b) => W::Bool(*b),
        Value::Null => W::Null,
        Value::Timestamp(t) => W::Timestamp(*t),
    }
}

// ------------------------------------------------------------------ main
fn tally_rule(sink: &mut Sink, r: &Rule) {
    fn term(sink: &mut Sink, t: &Term) {
        let k = match t {
            Term::Variable(_) => "var",
            Term::Constant(_) => "int",
            Term::Placeholder => "placeholder",
            Term::Aggregate(g, _) => {
                if g.is_ranking() {
                    "agg-ranking"
                } else {
                    "agg"
                }
            }
            Term::Arithmetic(_) => "arith",
            Term::FunctionCall(_, a) => {
                for x in a {
                    term(sink, x);
                }
                "fun"
            }
            Term::VectorLiteral(_) => "vector",
            Term::FloatConstant(_) => "float",
            Term::StringConstant(_) => "string",
            Term::BoolConstant(_) => "bool",
            _ => "other",
        };
        sink.tally(&format!("term:{k}"));
    }
    for t in &r.head.args {
        term(sink, t);
    }
    for b in &r.body {
        match b {
            BodyPredicate::Positive(a) => {
                sink.tally("body:pos");
                for t in &a.args {
                    term(sink, t);
                }
            }
            BodyPredicate::Negated(a) => {
                sink.tally("body:neg");
                for t in &a.args {
                    term(sink, t);
                }
            }
            BodyPredicate::Comparison(l, _, r) => {
                sink.tally("body:cmp");
                term(sink, l);
                term(sink, r);
            }
            BodyPredicate::HnswNearest { query, .. } => {
                sink.tally("body:hnsw");
                term(sink, query);
            }
        }
    }
}

fn nontrivial(r: &Rule) -> bool {
    let t = |t: &Term| !matches!(t, Term::Variable(_));
    r.head.args.iter().any(t)
        || r.body.iter().any(|b| match b {
            BodyPredicate::Positive(a) => a.args.iter().any(t),
            _ => true,
        })
}

fn main() {
    let args = parse_args();
    let mut rng = Rng::new(args.seed);
    let mut sink = Sink::new(&args, "From IL Require Import Checks.C09.", "c09case", "c09_check", 40);
    std::panic::set_hook(Box::new(|_| {}));
    let rt = tokio::runtime::Builder::new_multi_thread().worker_threads(2).enable_all().build().unwrap();
    let total = CORPUS.len() + args.n;
    for case_no in 0..total {
        // every random draw happens whether or not the case is wanted, so --only replays exactly
        let (text, origin): (String, &str) = if case_no < CORPUS.len() {
            (CORPUS[case_no].to_string(), "corpus")
        } else {
            let noise = *rng.pick(&[0u64, 0, 100, 300]);
            let mut g = Gen { r: &mut rng, noise };
            let base = g.rule();
            if case_no % 7 == 3 {
                (mutate(&mut rng, &base), "mutated")
            } else {
                (base, "grammar")
            }
        };
        let is_e2e = case_no >= CORPUS.len() && case_no % E2E_EVERY == 5;
        if is_e2e {
            let (rule, query) = e2e_rule(&mut rng);
            if !sink.wants(sink.next_idx()) {
                sink.push(String::new(), serde_json::json!({}), &["e2e"], None);
                continue;
            }
            let res = rt.block_on(e2e(&rule, &query));
            let mut ser = Ser::default();
            let r1 = catch(|| parse_rule(&rule)).unwrap_or_else(Err);
            let r1c = ser.orule(&r1);
            let tabs = tables(&[&rule], &ser.floats);
            let answers: Vec<String> = res.iter().map(|(_, a)| cs(a)).collect();
            let coq = format!("C09E2E {} {} {} [{}]", tabs, cs(&rule), r1c, answers.join(";"));
            let agree = res.windows(2).all(|w| w[0].1 == w[1].1);
            sink.tally(if agree { "e2e:agree" } else { "e2e:differ" });
            let nonempty = res.first().map_or(false, |(_, a)| a != "[]" && !a.starts_with("ERR"));
            sink.push(
                coq,
                serde_json::json!({"kind":"e2e","rule":rule,"query":query,"facts":FACTS,"answers":res}),
                &["e2e"],
                if nonempty { Some(format!("e2e {rule}")) } else { None },
            );
            continue;
        }
        let r1 = catch(|| parse_rule(&text)).unwrap_or_else(|p| Err(format!("panic: {p}")));
        let mut ser = Ser::default();
        let r1c = ser.orule(&r1);
        let (out, r2) = match &r1 {
            Ok(r) => {
                let out = r.to_string();
                let r2 = catch(|| parse_rule(&out)).unwrap_or_else(|p| Err(format!("panic: {p}")));
                (out, r2)
            }
            Err(_) => (String::new(), Err("n/a".into())),
        };
        let r2c = ser.orule(&r2);
        if ser.unsupported {
            eprintln!("unsupported term kind in parser output for {text:?}");
            std::process::exit(3);
        }
        let tabs = tables(&[&text, &out], &ser.floats);
        let coq = format!("C09RT {} {} {} {} {}", tabs, cs(&text), r1c, cs(&out), r2c);
        sink.tally(&format!("origin:{origin}"));
        let mut key = None;
        let status = match (&r1, &r2) {
            (Err(_), _) => "rejected",
            (Ok(a), Ok(b)) => {
                tally_rule(&mut sink, a);
                if nontrivial(a) {
                    key = Some(out.clone());
                }
                // compared as serialised (NaN payload/sign canonicalised), like the Coq oracle
                let _ = b;
                if r1c == r2c {
                    "roundtrip-same"
                } else {
                    "roundtrip-DIFFERENT"
                }
            }
            (Ok(a), Err(_)) => {
                tally_rule(&mut sink, a);
                "printed-text-REJECTED"
            }
        };
        sink.tally(&format!("status:{status}"));
        sink.push(
            coq,
            serde_json::json!({"kind":"roundtrip","origin":origin,"text":text,"first_parse":format!("{:?}", r1),
                               "printed":out,"second_parse":format!("{:?}", r2),"status":status}),
            &[origin, status],
            key,
        );
    }
    sink.finish();
}
