//! C26 — vector builtins obey their laws.
//! Drives the public functions of `inputlayer::vector_ops`: lsh_probes; lsh_bucket from 5 threads while
//! 3 other threads clear / resize / thrash the global hyperplane cache; the distance functions on
//! random and boundary vectors (zero, negative zero, subnormal, 1e-30, 1e30, f32::MAX); the int8
//! distances; hamming_distance; int8 quantisation.  Cases go to Checks/C26.v.
use inputlayer::vector_ops::*;
use std::hash::{Hash, Hasher};
use vharness::*;

fn zl(xs: &[i64]) -> String {
    let v: Vec<String> = xs.iter().map(|x| coq_z(*x as i128)).collect();
    coq_list(&v)
}
fn bits32(v: &[f32]) -> String {
    let xs: Vec<String> = v.iter().map(|f| coq_n(f.to_bits() as u128)).collect();
    coq_list(&xs)
}
fn b64(x: f64) -> String {
    coq_n(x.to_bits() as u128)
}

/// `generate_hyperplanes` recomputed outside the cache (same seeds, same hasher): the reference the
/// cached values are compared against.
fn reference_planes(table_idx: i64, num_hyperplanes: usize, dimension: usize) -> Vec<Vec<f32>> {
    let num_bits = num_hyperplanes.min(62);
    let mut out = vec![];
    for h in 0..num_bits {
        let mut hp = vec![];
        for d in 0..dimension {
            let seed = ((table_idx as u64).wrapping_mul(1_000_000_007)).wrapping_add((h as u64).wrapping_mul(31337)).wrapping_add(d as u64);
            let mut hasher = std::collections::hash_map::DefaultHasher::new();
            seed.hash(&mut hasher);
            let hash = hasher.finish();
            let bits = (hash & 0xFFFF_FFFF) as u32;
            let unit = f64::from(bits) / f64::from(u32::MAX);
            hp.push((unit * 2.0 - 1.0) as f32);
        }
        out.push(hp);
    }
    out
}

const BOUNDARY: [f32; 14] = [0.0, -0.0, 1.0, -1.0, 1e-40, -1e-40, 1e-30, 1e-20, 1e30, -1e30, f32::MAX, f32::MIN, 0.1, 1e19];

fn gen_f32(r: &mut Rng, wild: bool) -> f32 {
    if wild && r.chance(1, 3) {
        *r.pick(&BOUNDARY)
    } else {
        match r.below(4) {
            0 => r.range(-8, 8) as f32,
            1 => (r.range(-1000, 1000) as f32) / 64.0,
            2 => (r.range(-100000, 100000) as f32) * 1e-3,
            _ => (r.range(-1000, 1000) as f32) * 0.37,
        }
    }
}
fn gen_vec(r: &mut Rng, dim: usize, wild: bool) -> Vec<f32> {
    (0..dim).map(|_| gen_f32(r, wild)).collect()
}

fn dist_obs(a: &[f32], b: &[f32]) -> String {
    format!(
        "{{| eu_ab := {}; eu_ba := {}; eu_aa := {}; es_ab := {}; es_ba := {}; es_aa := {}; ma_ab := {}; ma_ba := {}; ma_aa := {}; co_ab := {}; co_ba := {}; co_aa := {}; do_ab := {}; do_ba := {} |}}",
        b64(euclidean_distance(a, b)), b64(euclidean_distance(b, a)), b64(euclidean_distance(a, a)),
        b64(euclidean_distance_squared(a, b)), b64(euclidean_distance_squared(b, a)), b64(euclidean_distance_squared(a, a)),
        b64(manhattan_distance(a, b)), b64(manhattan_distance(b, a)), b64(manhattan_distance(a, a)),
        b64(cosine_distance(a, b)), b64(cosine_distance(b, a)), b64(cosine_distance(a, a)),
        b64(dot_product(a, b)), b64(dot_product(b, a))
    )
}
fn dist_obs_i8(a: &[i8], b: &[i8]) -> String {
    format!(
        "{{| eu_ab := {}; eu_ba := {}; eu_aa := {}; es_ab := 0%N; es_ba := 0%N; es_aa := 0%N; ma_ab := {}; ma_ba := {}; ma_aa := {}; co_ab := {}; co_ba := {}; co_aa := {}; do_ab := {}; do_ba := {} |}}",
        b64(euclidean_distance_int8(a, b)), b64(euclidean_distance_int8(b, a)), b64(euclidean_distance_int8(a, a)),
        b64(manhattan_distance_int8(a, b)), b64(manhattan_distance_int8(b, a)), b64(manhattan_distance_int8(a, a)),
        b64(cosine_distance_int8(a, b)), b64(cosine_distance_int8(b, a)), b64(cosine_distance_int8(a, a)),
        b64(dot_product_int8(a, b)), b64(dot_product_int8(b, a))
    )
}

fn probes_case(sink: &mut Sink, bucket: i64, nh: usize, np: usize, tag: &str) {
    let out = lsh_probes(bucket, nh, np);
    let coq = format!("C26Probes {} {} {} {}", coq_z(bucket as i128), coq_n(nh as u128), coq_n(np as u128), zl(&out));
    sink.tally("kind:probes");
    sink.tally(&format!("probes_len:{}", match out.len() { 0 => "0", 1 => "1", 2..=20 => "2-20", 21..=200 => "21-200", _ => "200+" }));
    let key = if out.len() >= 2 { Some(format!("probes {} {} {}", bucket, nh, np)) } else { None };
    sink.push(coq, serde_json::json!({"fn":"lsh_probes","bucket":bucket,"num_hyperplanes":nh,"num_probes":np,"out_len":out.len(),"out_head":out.iter().take(12).collect::<Vec<_>>()}), &[tag, "probes"], key);
}

fn bucket_case(sink: &mut Sink, r: &mut Rng, v: Vec<f32>, table: i64, nh: usize, tag: &str) {
    let planes = reference_planes(table, nh, v.len());
    let seeds: Vec<u64> = (0..8).map(|_| r.next()).collect();
    let stop = std::sync::Arc::new(std::sync::atomic::AtomicBool::new(false));
    let mut handles = vec![];
    let mut observed: Vec<i64> = vec![];
    // 5 readers of the key under test
    let mut readers = vec![];
    for t in 0..5 {
        let v2 = v.clone();
        let seed = seeds[t];
        readers.push(std::thread::spawn(move || {
            let mut rr = Rng::new(seed);
            let mut got = vec![];
            for _ in 0..40 {
                got.push(lsh_bucket(&v2, table, nh));
                if rr.chance(1, 4) {
                    std::thread::yield_now();
                }
            }
            got
        }));
    }
    // clear / resize / thrash with other keys
    for t in 5..8 {
        let stop2 = stop.clone();
        let seed = seeds[t];
        let dim = v.len();
        handles.push(std::thread::spawn(move || {
            let mut rr = Rng::new(seed);
            while !stop2.load(std::sync::atomic::Ordering::Relaxed) {
                match (t, rr.below(4)) {
                    (5, _) => clear_lsh_cache(),
                    (6, 0) => configure_lsh_cache_size(rr.range(0, 3) as usize),
                    (6, _) => prewarm_lsh_cache(rr.range(-2, 5), rr.range(1, 9) as usize, rr.range(1, 6) as usize),
                    _ => {
                        let w: Vec<f32> = (0..dim.max(1)).map(|_| rr.range(-5, 5) as f32).collect();
                        let _ = lsh_bucket(&w, rr.range(-2, 5), rr.range(1, 70) as usize);
                    }
                }
            }
        }));
    }
    for h in readers {
        observed.extend(h.join().expect("reader"));
    }
    stop.store(true, std::sync::atomic::Ordering::Relaxed);
    for h in handles {
        h.join().expect("thrasher");
    }
    configure_lsh_cache_size(64);
    let total = observed.len();
    observed.sort();
    observed.dedup();
    let pl: Vec<String> = planes.iter().map(|p| bits32(p)).collect();
    let coq = format!("C26Bucket {} {} {} {} {}", bits32(&v), coq_z(table as i128), coq_n(nh as u128), coq_list(&pl), zl(&observed));
    sink.tally("kind:bucket");
    sink.tally_n("bucket_calls_under_thrash", total as u64);
    let st = get_lsh_cache_stats();
    sink.tally_n("cache_evictions_seen", st.evictions as u64);
    sink.push(
        coq,
        serde_json::json!({"fn":"lsh_bucket","v":format!("{:?}", v),"table_idx":table,"num_hyperplanes":nh,"distinct_results_from_5_threads_x_40_calls":observed}),
        &[tag, "bucket"],
        Some(format!("bucket {:?} {} {}", v, table, nh)),
    );
}

fn dist_case(sink: &mut Sink, a: Vec<f32>, b: Vec<f32>, tag: &str) {
    let coq = format!("C26Dist {} {} {}", bits32(&a), bits32(&b), dist_obs(&a, &b));
    sink.tally("kind:dist");
    let wild = a.iter().chain(b.iter()).any(|x| x.abs() > 1e15 || (*x != 0.0 && x.abs() < 1e-15));
    sink.tally(if wild { "dist:boundary-magnitudes" } else { "dist:moderate" });
    let key = if !a.is_empty() && a.len() == b.len() && !same(&a, &b) { Some(format!("dist {:?} {:?}", a, b)) } else { None };
    let f3 = |x: [f64; 3]| -> Vec<String> { x.iter().map(|v| format!("{:e}", v)).collect() };
    let eu = f3([euclidean_distance(&a, &b), euclidean_distance(&b, &a), euclidean_distance(&a, &a)]);
    let co = f3([cosine_distance(&a, &b), cosine_distance(&b, &a), cosine_distance(&a, &a)]);
    let ma = f3([manhattan_distance(&a, &b), manhattan_distance(&b, &a), manhattan_distance(&a, &a)]);
    let desc = serde_json::json!({"fn": "euclidean/manhattan/cosine/dot", "a": format!("{:?}", a), "b": format!("{:?}", b), "euclid": eu, "cosine": co, "manhattan": ma});
    sink.push(
        coq,
        desc,
        &[tag, "dist"],
        key,
    );
}
fn same(a: &[f32], b: &[f32]) -> bool {
    a.len() == b.len() && a.iter().zip(b).all(|(x, y)| x.to_bits() == y.to_bits())
}

fn dist_i8_case(sink: &mut Sink, a: Vec<i8>, b: Vec<i8>, tag: &str) {
    let az: Vec<i64> = a.iter().map(|x| *x as i64).collect();
    let bz: Vec<i64> = b.iter().map(|x| *x as i64).collect();
    let coq = format!("C26DistI8 {} {} {}", zl(&az), zl(&bz), dist_obs_i8(&a, &b));
    sink.tally("kind:dist_i8");
    let key = if !a.is_empty() && a.len() == b.len() && a != b { Some(format!("i8 {:?} {:?}", a, b)) } else { None };
    sink.push(coq, serde_json::json!({"fn":"*_int8","a":az,"b":bz,"cosine_aa":format!("{:e}", cosine_distance_int8(&a,&a))}), &[tag, "dist_i8"], key);
}

fn hamming_case(sink: &mut Sink, a: i64, b: i64, tag: &str) {
    let coq = format!(
        "C26Hamming {} {} {} {} {}",
        coq_z(a as i128), coq_z(b as i128), coq_z(hamming_distance(a, b) as i128), coq_z(hamming_distance(b, a) as i128), coq_z(hamming_distance(a, a) as i128)
    );
    sink.tally("kind:hamming");
    let key = if a != b { Some(format!("hamming {} {}", a, b)) } else { None };
    sink.push(coq, serde_json::json!({"fn":"hamming_distance","a":a,"b":b,"ab":hamming_distance(a,b)}), &[tag, "hamming"], key);
}

fn quant_case(sink: &mut Sink, v: Vec<f32>, tag: &str) {
    let s: Vec<i64> = quantize_vector_symmetric(&v).iter().map(|x| *x as i64).collect();
    let l: Vec<i64> = quantize_vector_linear(&v).iter().map(|x| *x as i64).collect();
    let coq = format!("C26Quant {} {} {}", bits32(&v), zl(&s), zl(&l));
    sink.tally("kind:quant");
    let varied = v.iter().any(|x| x.to_bits() != v[0].to_bits());
    let key = if !v.is_empty() && varied { Some(format!("quant {:?}", v)) } else { None };
    sink.push(coq, serde_json::json!({"fn":"quantize_vector_symmetric/linear","v":format!("{:?}", v),"symmetric":s,"linear":l}), &[tag, "quant"], key);
}

fn main() {
    let args = parse_args();
    let mut rng = Rng::new(args.seed);
    let mut sink = Sink::new(&args, "From IL Require Import Checks.C26.", "c26case", "c26_check", 25);
    // ---- corpus
    probes_case(&mut sink, 53, 8, 5, "corpus");
    probes_case(&mut sink, -1, 70, 3, "corpus");
    probes_case(&mut sink, 0, 0, 5, "corpus");
    probes_case(&mut sink, i64::MIN, 62, 100, "corpus");
    probes_case(&mut sink, 5, 3, 1000, "corpus");
    probes_case(&mut sink, 7, 8, 0, "corpus");
    probes_case(&mut sink, 123456789, 62, 2100, "corpus");
    dist_case(&mut sink, vec![1e30, 0.0], vec![1e30, 0.0], "corpus");
    dist_case(&mut sink, vec![1e30, 0.0], vec![0.0, 1e30], "corpus");
    dist_case(&mut sink, vec![0.1, 0.2, 0.3], vec![0.1, 0.2, 0.3], "corpus");
    dist_case(&mut sink, vec![1e-30, 1e-30], vec![1e-30, -1e-30], "corpus");
    dist_case(&mut sink, vec![f32::MAX, f32::MIN], vec![f32::MIN, f32::MAX], "corpus");
    dist_case(&mut sink, vec![], vec![], "corpus");
    dist_case(&mut sink, vec![1.0, 2.0], vec![1.0], "corpus");
    dist_case(&mut sink, vec![0.0, -0.0], vec![-0.0, 0.0], "corpus");
    dist_i8_case(&mut sink, vec![-128, 127, 0], vec![127, -128, 0], "corpus");
    dist_i8_case(&mut sink, vec![0, 0], vec![0, 0], "corpus");
    dist_i8_case(&mut sink, vec![3, 4, 5], vec![3, 4, 5], "corpus");
    hamming_case(&mut sink, 0, -1, "corpus");
    hamming_case(&mut sink, i64::MIN, i64::MAX, "corpus");
    quant_case(&mut sink, vec![-1.0, 0.0, 1.0], "corpus");
    quant_case(&mut sink, vec![0.0, 0.5, 1.0], "corpus");
    quant_case(&mut sink, vec![1e-40, 5e-41, 0.0], "corpus");
    quant_case(&mut sink, vec![1e30, -1e30, 5e29], "corpus");
    quant_case(&mut sink, vec![f32::MAX, f32::MIN, 0.0], "corpus");
    quant_case(&mut sink, vec![2.5, 2.5], "corpus");
    bucket_case(&mut sink, &mut rng, vec![1.0, 0.0, 0.0], 0, 8, "corpus");
    // ---- random
    while sink.count < args.n {
        match sink.count % 12 {
            0 | 1 => {
                let bucket = match rng.below(4) {
                    0 => rng.range(-5, 300),
                    1 => rng.next() as i64,
                    2 => (rng.next() >> 2) as i64,
                    _ => -((rng.next() >> 3) as i64),
                };
                let nh = *rng.pick(&[0usize, 1, 2, 3, 4, 5, 6, 8, 12, 16, 32, 61, 62, 63, 70]);
                let np = match rng.below(4) {
                    0 => rng.range(0, 3) as usize,
                    1 => rng.range(0, 80) as usize,
                    2 => rng.range(0, 400) as usize,
                    _ => rng.range(0, 1200) as usize,
                };
                probes_case(&mut sink, bucket, nh, np, "random");
            }
            2 => {
                let dim = rng.range(1, 12) as usize;
                let v = gen_vec(&mut rng, dim, false);
                let table = *rng.pick(&[0i64, 1, 2, 3, -1, 1_000_000_007, i64::MAX]);
                let nh = *rng.pick(&[1usize, 2, 4, 8, 16, 33, 62, 70]);
                bucket_case(&mut sink, &mut rng, v, table, nh, "random");
            }
            3..=6 => {
                let dim = rng.range(0, 8) as usize;
                let wild = rng.chance(1, 2);
                let a = gen_vec(&mut rng, dim, wild);
                let b = match rng.below(8) {
                    0 => a.clone(),
                    1 => a.iter().map(|x| -x).collect(),
                    2 => a.iter().map(|x| x * 2.0).collect(),
                    3 => gen_vec(&mut rng, (dim + 1) % 9, wild),
                    _ => gen_vec(&mut rng, dim, wild),
                };
                dist_case(&mut sink, a, b, "random");
            }
            7 | 8 => {
                let dim = rng.range(0, 8) as usize;
                let g = |r: &mut Rng| -> i8 {
                    match r.below(6) {
                        0 => -128,
                        1 => 127,
                        2 => 0,
                        _ => r.range(-128, 127) as i8,
                    }
                };
                let a: Vec<i8> = (0..dim).map(|_| g(&mut rng)).collect();
                let b: Vec<i8> = if rng.chance(1, 5) { a.clone() } else { (0..dim).map(|_| g(&mut rng)).collect() };
                dist_i8_case(&mut sink, a, b, "random");
            }
            9 => {
                let a = if rng.chance(1, 2) { rng.next() as i64 } else { rng.range(-1000, 1000) };
                let b = if rng.chance(1, 5) { a } else if rng.chance(1, 2) { rng.next() as i64 } else { rng.range(-1000, 1000) };
                hamming_case(&mut sink, a, b, "random");
            }
            _ => {
                let dim = rng.range(1, 8) as usize;
                let wild = rng.chance(1, 3);
                let v = gen_vec(&mut rng, dim, wild);
                quant_case(&mut sink, v, "random");
            }
        }
    }
    sink.finish();
}
