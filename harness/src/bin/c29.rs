//! C29 — the internal knowledge graph is unreachable for non-admins: programs naming `_internal`
//! in every position (target KG, .kg commands, multi-line programs, session binding).
#[path = "../auth_common.rs"]
mod auth_common;
fn main() {
    auth_common::drive(&auth_common::Params {
        ctor: "C29Case",
        header: "From IL Require Import Checks.C29.",
        case_ty: "c29case",
        checker: "c29_check",
        internal_bias: 6,
        inject_errors: false,
        admin_share: 1,
    });
}
