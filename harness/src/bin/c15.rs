//! C15 — concurrent writes are serializable and durable.
//! Writer threads (multi-tuple inserts / deletes on one or two relations) and maintenance threads
//! (save = flush, compact) are driven through enumerated / random interleavings of the sched_point
//! hooks in StorageEngine and FilePersist. After EVERY step the data directory is copied and the
//! copy is reopened with StorageEngine::new (a crash at that point). Emits cases for Checks/C15.v.
#[path = "../conc_ctl.rs"]
mod conc_ctl;
use conc_ctl::*;
use inputlayer::verif_hooks;
use inputlayer::{Config, StorageEngine, Tuple, Value};
use std::sync::atomic::{AtomicUsize, Ordering};
use std::sync::{Arc, Mutex};
use std::time::Duration;
use vharness::*;

#[derive(Clone, Debug)]
enum Op {
    Ins { id: u64, s: u64, ts: Vec<u64> },
    Del { id: u64, s: u64, ts: Vec<u64> },
    Flush { id: u64, s: u64 },
    Compact { id: u64, s: u64 },
}
fn cn(x: u64) -> String {
    coq_n(x as u128)
}
impl Op {
    fn id(&self) -> u64 {
        match self {
            Op::Ins { id, .. } | Op::Del { id, .. } | Op::Flush { id, .. } | Op::Compact { id, .. } => *id,
        }
    }
    fn is_data(&self) -> bool {
        matches!(self, Op::Ins { .. } | Op::Del { .. })
    }
    fn coq(&self) -> String {
        let l = |ts: &Vec<u64>| coq_list(&ts.iter().map(|t| cn(*t)).collect::<Vec<_>>());
        match self {
            Op::Ins { id, s, ts } => format!("(PIns {} {} {})", cn(*id), cn(*s), l(ts)),
            Op::Del { id, s, ts } => format!("(PDel {} {} {})", cn(*id), cn(*s), l(ts)),
            Op::Flush { id, s } => format!("(PFlush {} {})", cn(*id), cn(*s)),
            Op::Compact { id, s } => format!("(PCompact {} {})", cn(*id), cn(*s)),
        }
    }
    fn text(&self) -> String {
        match self {
            Op::Ins { id, s, ts } => format!("#{id} insert r{s} {ts:?}"),
            Op::Del { id, s, ts } => format!("#{id} delete r{s} {ts:?}"),
            Op::Flush { id, .. } => format!("#{id} save (flush)"),
            Op::Compact { id, .. } => format!("#{id} compact"),
        }
    }
    fn steps(&self) -> usize {
        match self {
            Op::Ins { .. } | Op::Del { .. } => 4,
            Op::Flush { .. } => 2,
            Op::Compact { .. } => 3,
        }
    }
}
#[derive(Clone, Debug)]
enum Res {
    Ins(u64, u64),
    Del(u64),
    Done,
    Unexpected(String),
}
impl Res {
    fn coq(&self) -> String {
        match self {
            Res::Ins(a, b) => format!("(PRIns {} {})", cn(*a), cn(*b)),
            Res::Del(a) => format!("(PRDel {})", cn(*a)),
            Res::Done => "PRDone".into(),
            Res::Unexpected(_) => "(PRDel 4294967295%N)".into(),
        }
    }
}
type Facts = Vec<(u64, u64)>;
fn facts_coq(f: &Facts) -> String {
    coq_list(&f.iter().map(|(s, t)| format!("({}, {})", cn(*s), cn(*t))).collect::<Vec<_>>())
}

const KG: &str = "k";
fn rel_name(r: u64) -> String {
    format!("r{r}")
}
fn rel_id(name: &str) -> Option<u64> {
    name.strip_prefix('r').and_then(|s| s.parse().ok())
}
fn tuple_of(t: u64) -> Tuple {
    Tuple::new(vec![Value::Int64(t as i64), Value::Int64(7)])
}
fn tuple_id(t: &Tuple) -> u64 {
    match t.get(0) {
        Some(Value::Int64(i)) => *i as u64,
        _ => u64::MAX,
    }
}
fn facts_of(eng: &StorageEngine) -> Option<Facts> {
    let snap = eng.get_snapshot_for(KG).ok()?;
    let mut facts = vec![];
    for (name, ts) in snap.input_tuples.iter() {
        if let Some(r) = rel_id(name) {
            for t in ts {
                facts.push((r, tuple_id(t)));
            }
        }
    }
    facts.sort();
    Some(facts)
}
fn config_for(dir: &std::path::Path, bsz: usize) -> Config {
    let mut config = Config::default();
    config.storage.data_dir = dir.to_path_buf();
    config.storage.performance.num_threads = 1;
    config.storage.persist.buffer_size = if bsz == 0 { 1_000_000 } else { bsz };
    config.storage.persist.max_wal_size_bytes = 0;
    config
}

/// Parking labels. `persist:append:after_wal` lies inside the shard map lock since the fix of
/// FilePersist::append and is only observed; `--unfixed` (pinned tree) parks there too.
fn parks_unfixed(label: &str) -> bool {
    label == "persist:append:after_wal" || parks(label)
}
fn parks(label: &str) -> bool {
    matches!(
        label,
        "start"
            | "op"
            | "se:insert:after_time"
            | "se:delete:after_time"
            | "persist:flush:entry"
            | "se:insert:after_persist"
            | "se:delete:after_persist"
            | "se:insert:before_kg_lock"
            | "se:delete:before_kg_lock"
            | "persist:compact:after_flush"
    )
}
fn label_code(l: &str) -> u64 {
    match l {
        "op" => 0,
        "se:insert:after_time" | "se:delete:after_time" => 1,
        "persist:append:after_wal" => 2,
        "se:insert:after_persist" | "se:delete:after_persist" => 3,
        "se:insert:before_kg_lock" | "se:delete:before_kg_lock" => 4,
        "persist:flush:entry" => 7,
        "persist:compact:after_flush" => 8,
        "done" => 9,
        _ => 99,
    }
}

struct Cfg15 {
    /// probe of the append window: park also at persist:append:after_wal and force the schedule that
    /// sends another append into the window. With the fix that append blocks on the shard map lock
    /// (the execution is abandoned after a short timeout and yields no case); without it the window
    /// is entered and the case shows the lost write.
    probe: bool,
    /// run exactly one execution: this schedule prefix, then always the lowest enabled thread
    forced: Option<Vec<usize>>,
    fx: bool,
    name: String,
    bsz: usize,
    progs: Vec<Vec<Op>>,
    exhaustive: bool,
    budget: usize,
    seed: u64,
}
struct Exec {
    outcome: Outcome,
    results: Vec<Vec<(u64, Res)>>,
    fin: Facts,
    crash: Vec<Result<Facts, String>>,
}

fn run_one(cfg: &Cfg15, choose: &mut dyn FnMut(usize, &[usize]) -> usize) -> Exec {
    let dir = scratch_dir();
    let eng = Arc::new(StorageEngine::new(config_for(dir.path(), cfg.bsz)).expect("engine"));
    eng.create_knowledge_graph(KG).expect("create kg");
    let n = cfg.progs.len();
    let results: Vec<Arc<Mutex<Vec<(u64, Res)>>>> = (0..n).map(|_| Arc::new(Mutex::new(vec![]))).collect();
    let mut bodies: Vec<Body> = vec![];
    for (t, prog) in cfg.progs.iter().enumerate() {
        let prog = prog.clone();
        let eng = Arc::clone(&eng);
        let out = Arc::clone(&results[t]);
        bodies.push(Box::new(move || {
            for (i, op) in prog.iter().enumerate() {
                if i > 0 {
                    verif_hooks::sched_point("op");
                }
                let r = match op {
                    Op::Ins { s, ts, .. } => match eng.insert_tuples_into(KG, &rel_name(*s), ts.iter().map(|x| tuple_of(*x)).collect()) {
                        Ok((a, b)) => Res::Ins(a as u64, b as u64),
                        Err(e) => Res::Unexpected(e.to_string()),
                    },
                    Op::Del { s, ts, .. } => match eng.delete_tuples_from(KG, &rel_name(*s), ts.iter().map(|x| tuple_of(*x)).collect()) {
                        Ok(a) => Res::Del(a as u64),
                        Err(e) => Res::Unexpected(e.to_string()),
                    },
                    Op::Flush { .. } => match eng.save_knowledge_graph(KG) {
                        Ok(()) => Res::Done,
                        Err(e) => Res::Unexpected(e.to_string()),
                    },
                    Op::Compact { .. } => match eng.compact_all() {
                        Ok(()) => Res::Done,
                        Err(e) => Res::Unexpected(e.to_string()),
                    },
                };
                out.lock().unwrap().push((op.id(), r));
            }
        }));
    }
    let enabled = |v: &[ThreadView]| vec![true; v.len()];
    let crash: Arc<Mutex<Vec<Result<Facts, String>>>> = Arc::new(Mutex::new(vec![]));
    let src = dir.path().to_path_buf();
    let bsz = cfg.bsz;
    let crash2 = Arc::clone(&crash);
    let mut after = move |_: usize, _: &[Ev]| {
        // crash here: every worker is parked; copy the directory and reopen the copy
        let img = scratch_dir();
        copy_dir(&src, img.path());
        let r = catch(std::panic::AssertUnwindSafe(|| match StorageEngine::new(config_for(img.path(), bsz)) {
            Ok(e) => facts_of(&e).ok_or_else(|| "kg missing after recovery".to_string()),
            Err(e) => Err(e.to_string()),
        }))
        .and_then(|r| r);
        crash2.lock().unwrap().push(r);
    };
    let outcome = run_execution(
        bodies,
        if cfg.fx && !cfg.probe { parks } else { parks_unfixed },
        None,
        &enabled,
        choose,
        &mut after,
        if cfg.probe { Duration::from_millis(2500) } else { Duration::from_secs(30) },
    );
    let fin = facts_of(&eng).unwrap_or_default();
    let results: Vec<Vec<(u64, Res)>> = results.iter().map(|r| r.lock().unwrap().clone()).collect();
    let crash = crash.lock().unwrap().clone();
    Exec { outcome, results, fin, crash }
}

fn apply_order(cfg: &Cfg15, ex: &Exec) -> Vec<u64> {
    let n = cfg.progs.len();
    let mut opi = vec![0usize; n];
    let mut order = vec![];
    for ev in &ex.outcome.log {
        match ev {
            Ev::Park(t, "op") => opi[*t] += 1,
            Ev::Obs(t, l) => {
                if let Some(op) = cfg.progs[*t].get(opi[*t]) {
                    match (op, *l) {
                        (Op::Ins { id, .. }, "kg:apply_insert") | (Op::Del { id, .. }, "kg:apply_delete") => order.push(*id),
                        _ => {}
                    }
                }
            }
            _ => {}
        }
    }
    order
}

struct CaseOut {
    coq: String,
    desc: serde_json::Value,
    tags: Vec<String>,
    key: Option<String>,
    infeasible: bool,
}

fn emit(cfg: &Cfg15, ex: &Exec) -> CaseOut {
    let order = apply_order(cfg, ex);
    let n = cfg.progs.len();
    // per step: data ops acknowledged / started per thread
    let mut oi = vec![0usize; n];
    let mut at_boundary = vec![true; n];
    let mut acked = vec![0usize; n];
    let mut started = vec![0usize; n];
    let mut counts: Vec<Vec<(usize, usize)>> = vec![];
    for (t, l) in ex.outcome.schedule.iter().zip(ex.outcome.arrived.iter()) {
        let t = *t;
        if at_boundary[t] {
            if let Some(op) = cfg.progs[t].get(oi[t]) {
                if op.is_data() {
                    started[t] += 1;
                }
            }
            at_boundary[t] = false;
        }
        if *l == "op" || *l == "done" {
            if let Some(op) = cfg.progs[t].get(oi[t]) {
                if op.is_data() {
                    acked[t] += 1;
                }
            }
            oi[t] += 1;
            at_boundary[t] = true;
        }
        counts.push((0..n).map(|i| (acked[i], started[i])).collect());
    }
    let mut tags = vec![format!("threads:{n}"), format!("bsz:{}", cfg.bsz), if cfg.exhaustive { "enumerated".to_string() } else { "sampled".to_string() }];
    let crash_coq: Vec<String> = ex
        .crash
        .iter()
        .zip(counts.iter())
        .map(|(c, cnt)| {
            let f = match c {
                Ok(f) => facts_coq(f),
                Err(_) => "[(4294967295%N, 4294967295%N)]".to_string(),
            };
            let cs: Vec<String> = cnt.iter().map(|(a, s)| format!("({}, {})", coq_nat(*a), coq_nat(*s))).collect();
            format!("({}, {})", f, coq_list(&cs))
        })
        .collect();
    if ex.crash.iter().any(|c| c.is_err()) {
        tags.push("recovery-failed".into());
    }
    let progs_coq: Vec<String> = cfg.progs.iter().map(|p| coq_list(&p.iter().map(Op::coq).collect::<Vec<_>>())).collect();
    let sched_coq: Vec<String> =
        ex.outcome.schedule.iter().zip(ex.outcome.arrived.iter()).map(|(t, l)| format!("({}, {})", coq_nat(*t), cn(label_code(l)))).collect();
    let res_coq: Vec<String> =
        ex.results.iter().map(|rs| coq_list(&rs.iter().map(|(id, r)| format!("({}, {})", cn(*id), r.coq())).collect::<Vec<_>>())).collect();
    let coq = format!(
        "C15Case {} {} {} {} {} {} {} {}",
        coq_bool(cfg.fx),
        coq_nat(cfg.bsz),
        coq_list(&progs_coq),
        coq_list(&sched_coq),
        coq_list(&res_coq),
        coq_list(&order.iter().map(|i| cn(*i)).collect::<Vec<_>>()),
        facts_coq(&ex.fin),
        coq_list(&crash_coq)
    );
    let sched_txt: Vec<String> = ex.outcome.schedule.iter().zip(ex.outcome.arrived.iter()).map(|(t, l)| format!("T{t}->{l}")).collect();
    let unexpected: Vec<String> = ex
        .results
        .iter()
        .flatten()
        .filter_map(|(id, r)| if let Res::Unexpected(m) = r { Some(format!("#{id}: {m}")) } else { None })
        .collect();
    if !unexpected.is_empty() || !ex.outcome.panics.is_empty() {
        tags.push("unexpected-error".into());
    }
    let last_crash = ex.crash.last().cloned();
    if let Some(Ok(f)) = &last_crash {
        if *f != ex.fin {
            tags.push("final-crash-image-differs-from-served".into());
        }
    }
    let desc = serde_json::json!({
        "config": cfg.name, "buffer_size": cfg.bsz,
        "threads": cfg.progs.iter().map(|p| p.iter().map(Op::text).collect::<Vec<_>>()).collect::<Vec<_>>(),
        "schedule": sched_txt,
        "results": ex.results.iter().map(|rs| rs.iter().map(|(id, r)| format!("#{id}: {r:?}")).collect::<Vec<_>>()).collect::<Vec<_>>(),
        "apply_order": order,
        "served_final": format!("{:?}", ex.fin),
        "recovered_after_each_step": ex.crash.iter().map(|c| format!("{c:?}")).collect::<Vec<_>>(),
        "unexpected_errors": unexpected,
        "panics": format!("{:?}", ex.outcome.panics),
    });
    let switches = ex.outcome.schedule.windows(2).filter(|w| w[0] != w[1]).count();
    let key = if switches >= 2 { Some(format!("{}|{:?}|{}", cfg.bsz, cfg.progs, sched_txt.join(","))) } else { None };
    CaseOut { coq, desc, tags, key, infeasible: ex.outcome.infeasible || ex.crash.len() != ex.outcome.schedule.len() }
}

fn interleavings(progs: &[Vec<Op>]) -> f64 {
    let mut total = 0usize;
    let mut r = 1f64;
    for p in progs {
        let l: usize = p.iter().map(Op::steps).sum();
        for k in 1..=l {
            total += 1;
            r = r * total as f64 / k as f64;
        }
    }
    r
}

fn run_cfg(cfg: &Cfg15) -> Vec<CaseOut> {
    let mut outs = vec![];
    if let Some(prefix) = &cfg.forced {
        let ex = {
            let mut ch = prefix_chooser(prefix);
            run_one(cfg, &mut ch)
        };
        let mut c = emit(cfg, &ex);
        c.tags.push("forced-schedule".into());
        outs.push(c);
        return outs;
    }
    if cfg.probe {
        // T1 draws its time; T0 draws its time and logs (parks at persist:append:after_wal);
        // T1 logs, pushes, flushes; T0 pushes; both finish
        let prefix = [1usize, 0, 0, 1, 1, 1, 1, 1, 0, 0, 0, 1];
        let ex = {
            let mut ch = prefix_chooser(&prefix);
            run_one(cfg, &mut ch)
        };
        let mut c = emit(cfg, &ex);
        c.tags.push("append-window-probe".into());
        outs.push(c);
        return outs;
    }
    if cfg.exhaustive {
        let mut prefix: Vec<usize> = vec![];
        while outs.len() < cfg.budget {
            let ex = {
                let mut ch = prefix_chooser(&prefix);
                run_one(cfg, &mut ch)
            };
            let o = &ex.outcome;
            let mut next: Option<Vec<usize>> = None;
            for i in (0..o.schedule.len()).rev() {
                let cur = o.schedule[i];
                if let Some(nx) = o.enabled_sets[i].iter().copied().filter(|x| *x > cur).min() {
                    let mut p = o.schedule[..i].to_vec();
                    p.push(nx);
                    next = Some(p);
                    break;
                }
            }
            outs.push(emit(cfg, &ex));
            match next {
                Some(p) => prefix = p,
                None => break,
            }
        }
    } else {
        let mut rng = Rng::new(cfg.seed);
        for _ in 0..cfg.budget {
            let mut ch = |_: usize, en: &[usize]| en[rng.below(en.len() as u64) as usize];
            let ex = run_one(cfg, &mut ch);
            outs.push(emit(cfg, &ex));
        }
    }
    outs
}

fn corpus(chunks: usize, fx: bool) -> Vec<Cfg15> {
    let ins = |id, s, ts: &[u64]| Op::Ins { id, s, ts: ts.to_vec() };
    let del = |id, s, ts: &[u64]| Op::Del { id, s, ts: ts.to_vec() };
    let mut v = vec![];
    // (a) one tuple, insert vs delete: logical time order vs apply order (enumerated: 252 schedules)
    v.push(Cfg15 { forced: None, probe: false, fx, name: "insert-vs-delete-same-tuple".into(), bsz: 0, progs: vec![vec![ins(1, 0, &[5])], vec![del(2, 0, &[5])]], exhaustive: true, budget: 300, seed: 0 });
    // an ACKNOWLEDGED DELETE IS LOST (found by the C17 thorough tier): the delete of 101 draws its
    // logical time and is logged first, the insert of [100,101] draws a later time, is logged and
    // applied, then the delete is applied: it finds 101 (returns 1) and the served relation is
    // {100,102}; recovery lets the insert's later time win and 101 is back after a restart
    if fx {
        v.push(Cfg15 {
            forced: Some(vec![0, 0, 0, 0, 0, 0, 1, 1, 1, 1, 0, 0]),
            probe: false,
            fx,
            name: "acked-delete-lost".into(),
            bsz: 0,
            progs: vec![vec![ins(1, 0, &[102]), del(2, 0, &[101])], vec![ins(3, 0, &[100, 101])]],
            exhaustive: true,
            budget: 1,
            seed: 0,
        });
    }
    for c in 0..chunks.min(2) {
        v.push(Cfg15 { forced: None, probe: false, fx, name: format!("delete-vs-insert-batch-{c}"), bsz: 0, progs: vec![vec![ins(1, 0, &[102]), del(2, 0, &[101])], vec![ins(3, 0, &[100, 101])]], exhaustive: false, budget: 25, seed: 500 + c as u64 });
    }
    if fx {
        v.push(Cfg15 { forced: None, probe: true, fx, name: "append-window-probe".into(), bsz: 2, progs: vec![vec![ins(1, 0, &[1])], vec![ins(2, 0, &[2, 3])]], exhaustive: true, budget: 1, seed: 0 });
    }
    for c in 0..chunks {
        // (b) append window vs explicit save
        v.push(Cfg15 { forced: None, probe: false, fx, name: format!("append-vs-save-{c}"), bsz: 0, progs: vec![vec![ins(1, 0, &[1, 2])], vec![ins(2, 0, &[3]), Op::Flush { id: 3, s: 0 }]], exhaustive: false, budget: 40, seed: 100 + c as u64 });
        // (c) append window vs the flush another append triggers (buffer_size 2)
        v.push(Cfg15 { forced: None, probe: false, fx, name: format!("append-vs-autoflush-{c}"), bsz: 2, progs: vec![vec![ins(1, 0, &[1])], vec![ins(2, 0, &[2, 3])]], exhaustive: false, budget: 40, seed: 200 + c as u64 });
        // (d) two relations, three writers
        v.push(Cfg15 { forced: None, probe: false, fx, name: format!("two-relations-{c}"), bsz: 3, progs: vec![vec![ins(1, 0, &[1, 2])], vec![ins(2, 1, &[1]), del(3, 0, &[2])], vec![del(4, 1, &[1])]], exhaustive: false, budget: 25, seed: 300 + c as u64 });
        // (e) compaction against writers
        v.push(Cfg15 { forced: None, probe: false, fx, name: format!("writers-vs-compact-{c}"), bsz: 0, progs: vec![vec![ins(1, 0, &[1]), del(2, 0, &[1])], vec![ins(3, 0, &[1, 4]), Op::Compact { id: 4, s: 0 }]], exhaustive: false, budget: 25, seed: 400 + c as u64 });
    }
    v
}

fn gen_config(rng: &mut Rng, idx: usize, per: usize, fx: bool) -> Cfg15 {
    let nthreads = if rng.chance(2, 3) { 2 } else { 3 };
    let single_shard = rng.chance(2, 3);
    let bsz = *rng.pick(&[0usize, 0, 2, 3]);
    let mut next_id = 1u64;
    let mut progs = vec![];
    for _ in 0..nthreads {
        let nops = rng.range(1, 2) as usize;
        let mut p = vec![];
        for _ in 0..nops {
            let id = next_id;
            next_id += 1;
            let s = if single_shard { 0 } else { rng.below(2) };
            let k = rng.range(1, 2) as usize;
            let ts: Vec<u64> = (0..k).map(|_| rng.below(3)).collect();
            let c = rng.below(10);
            let op = match c {
                0..=4 => Op::Ins { id, s, ts },
                5..=7 => Op::Del { id, s, ts },
                8 if single_shard => Op::Flush { id, s: 0 },
                9 if single_shard => Op::Compact { id, s: 0 },
                _ => Op::Ins { id, s, ts },
            };
            p.push(op);
        }
        progs.push(p);
    }
    let exhaustive = interleavings(&progs) <= per as f64;
    Cfg15 { forced: None, probe: false, fx, name: format!("random-{idx}"), bsz, progs, exhaustive, budget: per, seed: rng.next() }
}

fn main() {
    let args = parse_args();
    let mut rng = Rng::new(args.seed);
    let mut sink = Sink::new(&args, "From IL Require Import Checks.C15.", "c15case", "c15_check", 25);
    let chunks = (args.n / 400).max(1);
    let fx = !args.extra.iter().any(|a| a == "--unfixed");
    let mut configs = corpus(chunks, fx);
    let corpus_n = configs.len();
    let fixed: usize = configs.iter().map(|c| c.budget.min(260)).sum();
    let per = 20usize;
    let nrandom = (args.n.saturating_sub(fixed) / per).max(4);
    for i in 0..nrandom {
        configs.push(gen_config(&mut rng, i, per, fx));
    }
    let configs = Arc::new(configs);
    let next = Arc::new(AtomicUsize::new(0));
    let results: Arc<Mutex<Vec<Option<Vec<CaseOut>>>>> = Arc::new(Mutex::new((0..configs.len()).map(|_| None).collect()));
    let workers = std::thread::available_parallelism().map(|x| x.get()).unwrap_or(4).min(8);
    let mut hs = vec![];
    for _ in 0..workers {
        let configs = Arc::clone(&configs);
        let next = Arc::clone(&next);
        let results = Arc::clone(&results);
        hs.push(std::thread::spawn(move || loop {
            let i = next.fetch_add(1, Ordering::SeqCst);
            if i >= configs.len() {
                break;
            }
            let outs = run_cfg(&configs[i]);
            results.lock().unwrap()[i] = Some(outs);
        }));
    }
    for h in hs {
        h.join().expect("runner");
    }
    let mut results = results.lock().unwrap();
    for (i, slot) in results.iter_mut().enumerate() {
        let outs = slot.take().unwrap_or_default();
        sink.tally(if i < corpus_n { "config:corpus" } else { "config:random" });
        for c in outs {
            if c.infeasible {
                sink.tally(if c.tags.iter().any(|t| t == "append-window-probe") { "append-window-probe-blocked-as-expected" } else { "infeasible-execution-skipped" });
                continue;
            }
            sink.tally("executions");
            let tags: Vec<&str> = c.tags.iter().map(String::as_str).collect();
            sink.push(c.coq, c.desc, &tags, c.key);
        }
    }
    sink.finish();
}
