//! C21 (group E, provenance): see src/prov_gen.rs for the generator, the drivers and the printers.
#[path = "../prov_gen.rs"]
mod prov_gen;
fn main() {
    let args = vharness::parse_args();
    if args.extra.first().map(|s| s.as_str()) == Some("--explore") {
        prov_gen::explore(&args.extra[1..]);
        return;
    }
    if args.extra.first().map(|s| s.as_str()) == Some("--explore-lib") {
        prov_gen::explore_lib(&args.extra[1..]);
        return;
    }
    prov_gen::run_why(&args, "From IL Require Import Checks.C21.", "c21_check");
    // leaked worker threads (timed-out explanations) must not keep the process alive
    std::process::exit(0);
}
