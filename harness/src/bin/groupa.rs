//! Group A harness (C01, C02, C04, C06, C07, C08, C34): drives `IQLEngine` on generated programs.
//! usage: groupa <mode> --seed S --n N --out DIR      mode in c01|c02|c04|c06|c07|c08
use inputlayer::value::Tuple;
use inputlayer::{IQLEngine, OptimizationConfig};
use vharness::gen_datalog::*;
use vharness::*;

fn cfg_of(bits: u32) -> OptimizationConfig {
    OptimizationConfig {
        enable_join_planning: bits & 1 != 0,
        enable_sip_rewriting: bits & 2 != 0,
        enable_subplan_sharing: bits & 4 != 0,
        enable_boolean_specialization: bits & 8 != 0,
        enable_magic_sets: bits & 16 != 0,
    }
}

fn run_engine(p_text: &str, edb: &Edb, cfg_bits: u32, workers: usize, limit: usize) -> Result<Vec<Tuple>, String> {
    let text = p_text.to_string();
    let edb = edb.clone();
    match catch(move || {
        let mut e = IQLEngine::with_config(cfg_of(cfg_bits));
        for (r, ts) in &edb {
            if !ts.is_empty() {
                e.add_tuples(&rel_name(*r), ts.clone());
            }
        }
        if workers > 1 {
            e.set_num_workers(workers);
        }
        if limit > 0 {
            e.set_max_result_rows(limit);
        }
        e.execute_tuples(&text)
    }) {
        Ok(r) => r,
        Err(p) => Err(format!("PANIC: {}", p)),
    }
}

fn coq_res(r: &Result<Vec<Tuple>, String>) -> String {
    match r {
        Ok(ts) => format!("(Some {})", coq_tuples(ts)),
        Err(_) => "None".to_string(),
    }
}
fn json_res(r: &Result<Vec<Tuple>, String>) -> serde_json::Value {
    match r {
        Ok(ts) => serde_json::json!(ts.iter().map(|t| format!("{:?}", t.values())).collect::<Vec<_>>()),
        Err(e) => serde_json::json!({ "error": e }),
    }
}

/// hand-written corpus: (program text is generated from the AST), witnesses of known findings first
fn corpus() -> Vec<(Program, Edb, &'static str)> {
    use AExp as A;
    use HTerm::Var as HV;
    use Lit::*;
    use Term::{Int, Var, Wild};
    let t1 = |a: i64| Tuple::new(vec![inputlayer::value::Value::Int64(a)]);
    let t2 = |a: i64, b: i64| Tuple::new(vec![inputlayer::value::Value::Int64(a), inputlayer::value::Value::Int64(b)]);
    let mut v = vec![];
    // even/odd over succ: mutual recursion (known finding class 1)
    v.push((
        Program {
            clauses: vec![
                Clause { head: 10, args: vec![HTerm::Int(0)], body: vec![Pos(2, vec![Int(0)])] },
                Clause { head: 10, args: vec![HV(1)], body: vec![Pos(0, vec![Var(0), Var(1)]), Pos(11, vec![Var(0)])] },
                Clause { head: 11, args: vec![HV(1)], body: vec![Pos(0, vec![Var(0), Var(1)]), Pos(10, vec![Var(0)])] },
                Clause { head: 99, args: vec![HV(0)], body: vec![Pos(10, vec![Var(0)])] },
            ],
        },
        vec![(0, vec![t2(0, 1), t2(1, 2), t2(2, 3), t2(3, 4)]), (2, vec![t1(0)])],
        "mutual-even-odd",
    ));
    // transitive closure
    v.push((
        Program {
            clauses: vec![
                Clause { head: 10, args: vec![HV(0), HV(1)], body: vec![Pos(0, vec![Var(0), Var(1)])] },
                Clause { head: 10, args: vec![HV(0), HV(2)], body: vec![Pos(0, vec![Var(0), Var(1)]), Pos(10, vec![Var(1), Var(2)])] },
                Clause { head: 99, args: vec![HV(0), HV(1)], body: vec![Pos(10, vec![Var(0), Var(1)])] },
            ],
        },
        vec![(0, vec![t2(0, 1), t2(1, 2), t2(2, 3)])],
        "tc",
    ));
    // reversed-base TC (DESIGN §9 row 3)
    v.push((
        Program {
            clauses: vec![
                Clause { head: 10, args: vec![HV(1), HV(0)], body: vec![Pos(0, vec![Var(0), Var(1)])] },
                Clause { head: 10, args: vec![HV(0), HV(2)], body: vec![Pos(0, vec![Var(0), Var(1)]), Pos(10, vec![Var(1), Var(2)])] },
                Clause { head: 99, args: vec![HV(0), HV(1)], body: vec![Pos(10, vec![Var(0), Var(1)])] },
            ],
        },
        vec![(0, vec![t2(0, 1), t2(1, 2), t2(2, 3)])],
        "tc-reversed-base",
    ));
    // two wildcards in a self-join (DESIGN §9 row 2)
    v.push((
        Program {
            clauses: vec![Clause { head: 99, args: vec![HV(0), HV(1)], body: vec![Pos(0, vec![Var(0), Wild]), Pos(0, vec![Var(1), Wild])] }],
        },
        vec![(0, vec![t2(1, 5), t2(2, 6)])],
        "two-wildcards-self-join",
    ));
    // filter on the right join input (DESIGN §9 row 6)
    v.push((
        Program {
            clauses: vec![Clause {
                head: 99,
                args: vec![HV(0), HV(2)],
                body: vec![Pos(0, vec![Var(0), Var(1)]), Pos(1, vec![Var(1), Var(2)]), Cmp(CmpOp::Gt, Var(2), Int(5))],
            }],
        },
        vec![(0, vec![t2(1, 1)]), (1, vec![t2(1, 7), t2(1, 1)])],
        "filter-right-join-input",
    ));
    // negation over an intermediate
    v.push((
        Program {
            clauses: vec![
                Clause { head: 10, args: vec![HV(0)], body: vec![Pos(2, vec![Var(0)]), Cmp(CmpOp::Gt, Var(0), Int(0))] },
                Clause { head: 99, args: vec![HV(0)], body: vec![Pos(2, vec![Var(0)]), Neg(10, vec![Var(0)])] },
            ],
        },
        vec![(2, vec![t1(0), t1(1), t1(2)])],
        "negation-over-intermediate",
    ));
    // repeated variable in a joined atom (C02 known finding class 5 under join planning)
    v.push((
        Program {
            clauses: vec![Clause { head: 99, args: vec![HV(1)], body: vec![Pos(2, vec![Var(0)]), Pos(0, vec![Var(0), Var(0)]), Pos(1, vec![Var(0), Var(1)])] }],
        },
        vec![(2, vec![t1(2), t1(1), t1(0)]), (0, vec![t2(2, 2), t2(1, 2), t2(0, 0)]), (1, vec![t2(2, 2), t2(1, 1), t2(0, 5)])],
        "repeated-var-join",
    ));
    // assignment and equality on the same variable (known finding class 4)
    v.push((
        Program {
            clauses: vec![Clause {
                head: 99,
                args: vec![HV(1)],
                body: vec![Pos(2, vec![Var(0)]), Assign(1, A::Sub(Box::new(A::Var(0)), Box::new(A::Const(2)))), Cmp(CmpOp::Eq, Var(1), Int(0))],
            }],
        },
        vec![(2, vec![t1(1), t1(2)])],
        "assignment-and-equality",
    ));
    // arithmetic
    v.push((
        Program {
            clauses: vec![Clause {
                head: 99,
                args: vec![HV(0), HV(2)],
                body: vec![Pos(0, vec![Var(0), Var(1)]), Assign(2, A::Add(Box::new(A::Var(0)), Box::new(A::Var(1))))],
            }],
        },
        vec![(0, vec![t2(1, 2), t2(3, 4)])],
        "arith",
    ));
    v
}


/// replace the query clause by an aggregation over the same body
fn add_agg_query(r: &mut Rng, p: &mut Program) {
    // one aggregate rule for the query relation
    while p.clauses.iter().filter(|c| c.head == 99).count() > 1 {
        let k = p.clauses.iter().position(|c| c.head == 99).unwrap();
        p.clauses.remove(k);
    }
    let q = p.clauses.last_mut().unwrap();
    let mut vars: Vec<u32> = vec![];
    for l in &q.body {
        match l {
            Lit::Pos(_, a) => {
                for t in a {
                    if let Term::Var(v) = t {
                        if !vars.contains(v) {
                            vars.push(*v);
                        }
                    }
                }
            }
            Lit::Assign(v, _) => {
                if !vars.contains(v) {
                    vars.push(*v);
                }
            }
            _ => {}
        }
    }
    let f = *r.pick(&[AggFun::Count, AggFun::Sum, AggFun::Min, AggFun::Max, AggFun::CountDistinct, AggFun::CountDistinct]);
    let av = *r.pick(&vars);
    let mut args = vec![];
    let ngroup = r.range(0, 2);
    for _ in 0..ngroup {
        args.push(HTerm::Var(*r.pick(&vars)));
    }
    let pos = r.below(args.len() as u64 + 1) as usize;
    args.insert(pos, HTerm::Agg(f, av));
    q.args = args;
}

fn agg_corpus() -> Vec<(Program, Edb, &'static str)> {
    use HTerm::Var as HV;
    use Lit::*;
    use Term::{Var, Wild};
    let t2 = |a: i64, b: i64| Tuple::new(vec![inputlayer::value::Value::Int64(a), inputlayer::value::Value::Int64(b)]);
    let t3 = |a: i64, b: i64, c: i64| Tuple::new(vec![inputlayer::value::Value::Int64(a), inputlayer::value::Value::Int64(b), inputlayer::value::Value::Int64(c)]);
    let mut v = vec![];
    for f in [AggFun::Count, AggFun::Sum, AggFun::Min, AggFun::Max, AggFun::CountDistinct] {
        v.push((
            Program { clauses: vec![Clause { head: 99, args: vec![HV(0), HTerm::Agg(f, 1)], body: vec![Pos(0, vec![Var(0), Var(1)])] }] },
            vec![(0, vec![t2(1, 5), t2(1, 7), t2(2, 5), t2(3, 0)])],
            "agg-simple",
        ));
        // join that multiplies bindings + wildcard
        v.push((
            Program {
                clauses: vec![Clause { head: 99, args: vec![HTerm::Agg(f, 1), HV(0)], body: vec![Pos(0, vec![Var(0), Var(1)]), Pos(1, vec![Var(0), Wild])] }],
            },
            vec![(0, vec![t2(1, 5), t2(1, 7), t2(2, 5)]), (1, vec![t2(1, 1), t2(1, 2), t2(2, 9)])],
            "agg-join-wild",
        ));
    }
    // aggregated column in the middle of a ternary atom, group column last / first
    for f in [AggFun::Count, AggFun::Sum, AggFun::Min, AggFun::Max, AggFun::CountDistinct] {
        for (g, a) in [(2u32, 1u32), (0, 1), (0, 2), (2, 0)] {
            v.push((
                Program { clauses: vec![Clause { head: 99, args: vec![HV(g), HTerm::Agg(f, a)], body: vec![Pos(3, vec![Var(0), Var(1), Var(2)])] }] },
                vec![(3, vec![t3(1, 5, 0), t3(2, 5, 0), t3(1, 6, 0), t3(3, 5, 1), t3(0, 7, 1), t3(0, 5, 1), t3(2, 6, 2)])],
                "agg-ternary-column-order",
            ));
        }
    }
    // recursive min: shortest path (DESIGN §9 row 8)
    v.push((
        Program {
            clauses: vec![
                Clause { head: 10, args: vec![HV(0), HV(1), HTerm::Agg(AggFun::Min, 2)], body: vec![Pos(3, vec![Var(0), Var(1), Var(2)])] },
                Clause {
                    head: 10,
                    args: vec![HV(0), HV(2), HTerm::Agg(AggFun::Min, 5)],
                    body: vec![
                        Pos(10, vec![Var(0), Var(1), Var(3)]),
                        Pos(3, vec![Var(1), Var(2), Var(4)]),
                        Assign(5, AExp::Add(Box::new(AExp::Var(3)), Box::new(AExp::Var(4)))),
                    ],
                },
                Clause { head: 99, args: vec![HV(0), HV(1), HV(2)], body: vec![Pos(10, vec![Var(0), Var(1), Var(2)])] },
            ],
        },
        vec![(3, vec![t3(1, 2, 10), t3(2, 3, 10), t3(1, 3, 50)])],
        "recursive-min",
    ));
    v
}

/// The production path: facts inserted and rules registered as PERSISTENT rules through the protocol
/// handler (rule catalog, snapshot, rule text round trip), the query clause registered last and queried.
/// Returns None when the handler refuses to register a rule (outside its accepted fragment).
fn run_handler(rt: &tokio::runtime::Runtime, p: &Program, edb: &Edb) -> Option<Result<Vec<Tuple>, String>> {
    use inputlayer::protocol::wire::WireValue;
    use inputlayer::protocol::Handler;
    use inputlayer::value::Value;
    use inputlayer::{Config, StorageEngine};
    let dir = tempfile::tempdir().expect("tempdir");
    let mut cfg = Config::default();
    cfg.storage.data_dir = dir.path().to_path_buf();
    cfg.storage.performance.num_threads = 1;
    let handler = Handler::new(StorageEngine::new(cfg).ok()?);
    let kg = Some("default".to_string());
    let val = |v: &Value| -> String {
        match v {
            Value::Int64(i) => format!("{}", i),
            Value::String(s) => format!("\"{}\"", s),
            other => format!("{:?}", other),
        }
    };
    for (r, ts) in edb {
        if ts.is_empty() {
            continue;
        }
        let rows: Vec<String> = ts.iter().map(|t| format!("({},)", t.values().iter().map(|v| val(v)).collect::<Vec<_>>().join(", "))).collect();
        let rows: Vec<String> = rows.iter().map(|r| if r.matches(',').count() > 1 { r.replace(",)", ")") } else { r.clone() }).collect();
        let text = format!("+{}[{}]", rel_name(*r), rows.join(", "));
        if rt.block_on(handler.query_program(kg.clone(), text)).is_err() {
            return None;
        }
    }
    for c in &p.clauses {
        // the handler names its own query rule __query__: register ours under another name
        let r = rt.block_on(handler.query_program(kg.clone(), format!("+{}", c.iql().replace("__query__", "qq"))));
        match r {
            Ok(qr) => {
                let m = format!("{:?}", qr.rows);
                if m.contains("rror") || m.contains("nsafe") || m.contains("Unstratified") {
                    return None;
                }
            }
            Err(_) => return None,
        }
    }
    let q = p.clauses.last().unwrap();
    let vars: Vec<String> = (0..q.args.len()).map(|i| format!("V{}", i)).collect();
    let r = rt.block_on(handler.query_program(kg.clone(), format!("?{}({})", rel_name(q.head).replace("__query__", "qq"), vars.join(", "))));
    Some(match r {
        Ok(qr) => Ok(qr
            .rows
            .iter()
            .map(|row| {
                Tuple::new(
                    row.values
                        .iter()
                        .map(|w| match w {
                            WireValue::Null => Value::Null,
                            WireValue::Int32(i) => Value::Int32(*i),
                            WireValue::Int64(i) => Value::Int64(*i),
                            WireValue::Float64(f) => Value::Float64(*f),
                            WireValue::String(s) => Value::String(s.as_str().into()),
                            WireValue::Bool(b) => Value::Bool(*b),
                            WireValue::Timestamp(t) => Value::Timestamp(*t),
                            _ => Value::Null,
                        })
                        .collect(),
                )
            })
            .collect()),
        Err(e) => Err(e),
    })
}

fn main() {
    let mut args = parse_args();
    let mode = if args.extra.is_empty() { "c01".to_string() } else { args.extra.remove(0) };
    let mut rng = Rng::new(args.seed);
    let fuel = 60;
    match mode.as_str() {
        "c01" => {
            let rt = tokio::runtime::Builder::new_multi_thread().worker_threads(2).enable_all().build().expect("rt");
            let mut sink = Sink::new(&args, "From IL Require Import Checks.C01.", "c01case", "c01_check", 10);
            let mut cases: Vec<(Program, Edb, Vec<&'static str>)> =
                corpus().into_iter().map(|(p, e, tag)| (p, e, vec!["corpus", tag])).collect();
            let gcfg = GenCfg::default();
            while cases.len() < args.n {
                match rng.below(10) {
                    0 => {
                        cases.push(gen_bound_rec_family(&mut rng));
                        continue;
                    }
                    1 => {
                        cases.push(gen_shared_family(&mut rng));
                        continue;
                    }
                    2 => {
                        cases.push(gen_neg_order_family(&mut rng));
                        continue;
                    }
                    3 => {
                        cases.push(gen_rec_query_family(&mut rng));
                        continue;
                    }
                    4 => {
                        cases.push(gen_multikey_family(&mut rng));
                        continue;
                    }
                    _ => {}
                }
                let (p, tags) = gen_program(&mut rng, &gcfg);
                let nedb = rng.range(1, 2);
                for _ in 0..nedb {
                    let edb = gen_edb(&mut rng, tags.contains(&"strings"));
                    cases.push((p.clone(), edb, tags.clone()));
                }
            }
            for (p, edb, tags) in cases {
                let idx = sink.next_idx();
                if !sink.wants(idx) {
                    sink.push(String::new(), serde_json::json!(null), &[], None);
                    continue;
                }
                let text = p.iql();
                let res = run_engine(&text, &edb, 0, 1, 0);
                // every third case also goes through the production path (persistent rules via the handler)
                let via_handler = if idx % 3 == 0 && !p.mutual() { run_handler(&rt, &p, &edb) } else { None };
                match &via_handler {
                    Some(Ok(_)) => sink.tally("handler:answered"),
                    Some(Err(_)) => sink.tally("handler:error"),
                    None => sink.tally("handler:not-run-or-refused"),
                }
                let coq = format!(
                    "C01Case {}%nat {} {} {} {}",
                    fuel,
                    p.coq(),
                    edb_coq(&edb),
                    coq_res(&res),
                    match &via_handler { Some(r) => format!("(Some {})", coq_res(r)), None => "None".to_string() }
                );
                let nontriv = match &res {
                    Ok(ts) if !ts.is_empty() => Some(format!("{}|{}|{}", text, edb_coq(&edb), tuples_key(ts))),
                    _ => None,
                };
                match &res {
                    Ok(ts) => sink.tally(if ts.is_empty() { "answer:empty" } else { "answer:nonempty" }),
                    Err(_) => sink.tally("answer:error"),
                }
                sink.tally(&format!("clauses:{}", p.clauses.len()));
                sink.push(coq, serde_json::json!({"program": text, "edb": edb_json(&edb), "engine_answer": json_res(&res), "handler_answer": via_handler.as_ref().map(json_res)}), &tags, nontriv);
            }
            sink.finish();
        }
        "c07" => {
            let mut sink = Sink::new(&args, "From IL Require Import Checks.C07.", "c07case", "c07_check", 10);
            let mut cases: Vec<(Program, Edb, Vec<&'static str>)> =
                corpus().into_iter().map(|(p, e, tag)| (p, e, vec!["corpus", tag])).collect();
            cases.extend(agg_corpus().into_iter().map(|(p, e, tag)| (p, e, vec!["corpus", tag])));
            while cases.len() < args.n {
                if rng.chance(1, 6) {
                    cases.push(gen_rec_query_family(&mut rng));
                    continue;
                }
                if rng.chance(1, 6) {
                    cases.push(gen_union_proj_family(&mut rng));
                    continue;
                }
                let mut gcfg = GenCfg::default();
                gcfg.allow_agg = rng.chance(1, 3);
                if gcfg.allow_agg {
                    gcfg.allow_strings = false; // sum/min/max over strings is not specified
                }
                let (mut p, mut tags) = gen_program(&mut rng, &gcfg);
                if gcfg.allow_agg {
                    add_agg_query(&mut rng, &mut p);
                    tags.push("aggregate");
                }
                let edb = gen_edb(&mut rng, tags.contains(&"strings"));
                cases.push((p, edb, tags));
            }
            for (p, edb, tags) in cases {
                let idx = sink.next_idx();
                if !sink.wants(idx) {
                    sink.push(String::new(), serde_json::json!(null), &[], None);
                    continue;
                }
                let text = p.iql();
                let cfg_bits = if rng.chance(1, 2) { 0 } else { 31 };
                let workers = if tags.contains(&"union-of-projections") { *rng.pick(&[2usize, 3, 4, 8]) } else { *rng.pick(&[1usize, 1, 2, 3, 4]) };
                sink.tally(&format!("workers:{}", workers));
                let res = run_engine(&text, &edb, cfg_bits, workers, 0);
                let coq = format!("C07Case {}%nat {} {} {}", fuel, p.coq(), edb_coq(&edb), coq_res(&res));
                let nontriv = match &res {
                    Ok(ts) if !ts.is_empty() => Some(format!("{}|{}|{}", text, edb_coq(&edb), tuples_key(ts))),
                    _ => None,
                };
                sink.tally(match &res { Ok(ts) if ts.is_empty() => "answer:empty", Ok(_) => "answer:nonempty", Err(_) => "answer:error" });
                sink.push(coq, serde_json::json!({"program": text, "edb": edb_json(&edb), "config_bits": cfg_bits, "workers": workers, "engine_answer": json_res(&res)}), &tags, nontriv);
            }
            sink.finish();
        }
        "c08" => {
            let mut sink = Sink::new(&args, "From IL Require Import Checks.C08.", "c08case", "c08_check", 7);
            let mut cases: Vec<(Program, Edb, Vec<&'static str>)> =
                corpus().into_iter().map(|(p, e, tag)| (p, e, vec!["corpus", tag])).collect();
            let gcfg = GenCfg { allow_mutual: false, ..GenCfg::default() };
            while cases.len() < args.n {
                if rng.chance(1, 3) {
                    cases.push(gen_shared_family(&mut rng));
                    continue;
                }
                if rng.chance(1, 4) {
                    cases.push(gen_rec_query_family(&mut rng));
                    continue;
                }
                let (p, tags) = gen_program(&mut rng, &gcfg);
                let edb = gen_edb(&mut rng, tags.contains(&"strings"));
                cases.push((p, edb, tags));
            }
            for (p, edb, tags) in cases {
                let idx = sink.next_idx();
                if !sink.wants(idx) {
                    sink.push(String::new(), serde_json::json!(null), &[], None);
                    continue;
                }
                let text = p.iql();
                let cfg_bits = if rng.chance(1, 4) { 0 } else { 31 };
                let full = run_engine(&text, &edb, cfg_bits, 1, 0);
                let alen = full.as_ref().map(|v| v.len()).unwrap_or(0);
                let mut limits = vec![1usize, 2, 3, 5];
                if alen > 0 {
                    limits.push(alen);
                }
                limits.push(alen + 1);
                limits.sort();
                limits.dedup();
                let mut runs = vec![];
                let mut jruns = vec![];
                for n in limits {
                    let r = run_engine(&text, &edb, cfg_bits, 1, n);
                    runs.push(format!("({}%nat, {})", n, coq_res(&r)));
                    jruns.push(serde_json::json!({"limit": n, "answer": json_res(&r)}));
                }
                let coq = format!("C08Case {}%nat {} {} {} {}", fuel, p.coq(), edb_coq(&edb), coq_res(&full), coq_list(&runs));
                let nontriv = if alen >= 2 { Some(format!("{}|{}", text, edb_coq(&edb))) } else { None };
                sink.tally(&format!("answer_size:{}", alen.min(9)));
                sink.push(coq, serde_json::json!({"program": text, "edb": edb_json(&edb), "config_bits": cfg_bits, "unlimited": json_res(&full), "limited": jruns}), &tags, nontriv);
            }
            sink.finish();
        }
        "c04" => {
            let mut sink = Sink::new(&args, "From IL Require Import Checks.C04.", "c04case", "c04_check", 4);
            let mut cases: Vec<(Program, Edb, Vec<&'static str>)> =
                corpus().into_iter().map(|(p, e, tag)| (p, e, vec!["corpus", tag])).collect();
            let gcfg = GenCfg::default();
            while cases.len() < args.n {
                match rng.below(8) {
                    0 => {
                        cases.push(gen_neg_order_family(&mut rng));
                        continue;
                    }
                    1 => {
                        cases.push(gen_bound_rec_family(&mut rng));
                        continue;
                    }
                    _ => {}
                }
                let (p, tags) = gen_program(&mut rng, &gcfg);
                let edb = gen_edb(&mut rng, tags.contains(&"strings"));
                cases.push((p, edb, tags));
            }
            for (p, edb, tags) in cases {
                let idx = sink.next_idx();
                if !sink.wants(idx) {
                    sink.push(String::new(), serde_json::json!(null), &[], None);
                    continue;
                }
                let cfg_bits = if rng.chance(1, 2) { 0 } else { 31 };
                let base = run_engine(&p.iql(), &edb, cfg_bits, 1, 0);
                let mut variants: Vec<(Program, &'static str)> = vec![];
                // the query rules stay at the end (the convention every submission path follows)
                let nq = p.clauses.iter().position(|c| c.head == 99).unwrap();
                for _ in 0..3 {
                    let mut cs = p.clauses[..nq].to_vec();
                    rng.shuffle(&mut cs);
                    let mut qs = p.clauses[nq..].to_vec();
                    rng.shuffle(&mut qs);
                    cs.extend(qs);
                    variants.push((Program { clauses: cs }, "permuted"));
                }
                {
                    let mut cs = p.clauses[..nq].to_vec();
                    if !cs.is_empty() {
                        let k = rng.below(cs.len() as u64) as usize;
                        let c = cs[k].clone();
                        let pos = rng.below(cs.len() as u64 + 1) as usize;
                        cs.insert(pos, c);
                    }
                    cs.extend(p.clauses[nq..].iter().cloned());
                    cs.push(p.clauses[nq].clone());
                    variants.push((Program { clauses: cs }, "duplicated-clause"));
                }
                let mut vs = vec![];
                let mut jv = vec![];
                for (vp, kind) in &variants {
                    let r = run_engine(&vp.iql(), &edb, cfg_bits, 1, 0);
                    vs.push(format!("({}, {})", vp.coq(), coq_res(&r)));
                    jv.push(serde_json::json!({"kind": kind, "program": vp.iql(), "answer": json_res(&r)}));
                }
                // engine history: other programs first on ONE engine, then p; base facts compared before/after
                let (hist_res, unchanged) = {
                    let others: Vec<String> = (0..rng.range(1, 3)).map(|_| gen_program(&mut rng, &gcfg).0.iql()).collect();
                    let text = p.iql();
                    let edb2 = edb.clone();
                    match catch(move || {
                        let mut e = IQLEngine::with_config(cfg_of(cfg_bits));
                        for (r, ts) in &edb2 {
                            if !ts.is_empty() {
                                e.add_tuples(&rel_name(*r), ts.clone());
                            }
                        }
                        let snapshot = |e: &IQLEngine| -> Vec<(String, String)> {
                            let mut v: Vec<(String, String)> = e
                                .input_tuples()
                                .iter()
                                .filter(|(k, _)| k.starts_with('e') && k.len() == 2)
                                .map(|(k, ts)| (k.clone(), tuples_key(ts)))
                                .collect();
                            v.sort();
                            v
                        };
                        let before = snapshot(&e);
                        for o in &others {
                            let _ = e.execute_tuples(o);
                        }
                        let r = e.execute_tuples(&text);
                        let after = snapshot(&e);
                        (r, before == after)
                    }) {
                        Ok(x) => x,
                        Err(pn) => (Err(format!("PANIC: {}", pn)), false),
                    }
                };
                vs.push(format!("({}, {})", p.coq(), coq_res(&hist_res)));
                jv.push(serde_json::json!({"kind": "reused-engine", "answer": json_res(&hist_res), "base_facts_unchanged": unchanged}));
                let coq = format!("C04Case {}%nat {} {} {} {} {}", fuel, p.coq(), edb_coq(&edb), coq_res(&base), coq_list(&vs), coq_bool(unchanged));
                let nontriv = match &base {
                    Ok(ts) if !ts.is_empty() && p.clauses.len() >= 3 => Some(format!("{}|{}", p.iql(), edb_coq(&edb))),
                    _ => None,
                };
                sink.push(coq, serde_json::json!({"program": p.iql(), "edb": edb_json(&edb), "config_bits": cfg_bits, "answer": json_res(&base), "variants": jv}), &tags, nontriv);
            }
            sink.finish();
        }
        "c02" | "c06" => {
            let is06 = mode == "c06";
            let (hdr, ty, chk) = if is06 { ("From IL Require Import Checks.C06.", "c06case", "c06_check") } else { ("From IL Require Import Checks.C02.", "c02case", "c02_check") };
            let mut sink = Sink::new(&args, hdr, ty, chk, 4);
            let thorough = args.extra.iter().any(|a| a == "all-configs");
            let mut cases: Vec<(Program, Edb, Vec<&'static str>)> = if is06 {
                agg_corpus().into_iter().map(|(p, e, tag)| (p, e, vec!["corpus", tag])).collect()
            } else {
                corpus().into_iter().map(|(p, e, tag)| (p, e, vec!["corpus", tag])).collect()
            };
            while cases.len() < args.n {
                if !is06 && rng.chance(1, 4) {
                    cases.push(gen_shared_family(&mut rng));
                    continue;
                }
                if !is06 && rng.chance(1, 3) {
                    cases.push(gen_bound_rec_family(&mut rng));
                    continue;
                }
                if !is06 && rng.chance(1, 6) {
                    cases.push(gen_rec_query_family(&mut rng));
                    continue;
                }
                if !is06 && rng.chance(1, 6) {
                    cases.push(gen_multikey_family(&mut rng));
                    continue;
                }
                let gcfg = GenCfg { allow_mutual: false, allow_strings: !is06, ..GenCfg::default() };
                let (mut p, mut tags) = gen_program(&mut rng, &gcfg);
                if is06 {
                    add_agg_query(&mut rng, &mut p);
                    tags.push("aggregate");
                }
                let edb = gen_edb(&mut rng, tags.contains(&"strings"));
                cases.push((p, edb, tags));
            }
            for (p, edb, tags) in cases {
                let idx = sink.next_idx();
                if !sink.wants(idx) {
                    sink.push(String::new(), serde_json::json!(null), &[], None);
                    continue;
                }
                let text = p.iql();
                let mut cfgs: Vec<u32> = if thorough { (0..32).collect() } else { vec![0, 31, 1, 2, 4, 8, 16] };
                if !thorough {
                    cfgs.push(rng.below(32) as u32);
                    cfgs.push(rng.below(32) as u32);
                    cfgs.dedup();
                }
                let mut runs = vec![];
                let mut jruns = vec![];
                let mut first: Option<Result<Vec<Tuple>, String>> = None;
                for c in cfgs {
                    let r = run_engine(&text, &edb, c, 1, 0);
                    runs.push(format!("({}, {})", coq_n(c as u128), coq_res(&r)));
                    jruns.push(serde_json::json!({"config_bits": c, "answer": json_res(&r)}));
                    if first.is_none() {
                        first = Some(r);
                    }
                }
                let case_name = if is06 { "C06Case" } else { "C02Case" };
                let coq = format!("{} {}%nat {} {} {}", case_name, fuel, p.coq(), edb_coq(&edb), coq_list(&runs));
                let nontriv = match &first {
                    Some(Ok(ts)) if !ts.is_empty() => Some(format!("{}|{}", text, edb_coq(&edb))),
                    _ => None,
                };
                sink.push(coq, serde_json::json!({"program": text, "edb": edb_json(&edb), "runs": jruns}), &tags, nontriv);
            }
            sink.finish();
        }
        "c34" => {
            use inputlayer::protocol::Handler;
            use inputlayer::{Config, StorageEngine};
            let rt = tokio::runtime::Builder::new_multi_thread().worker_threads(2).enable_all().build().expect("rt");
            let mut sink = Sink::new(&args, "From IL Require Import Checks.C34.", "c34case", "c34_check", 20);
            for case_no in 0..args.n {
                let idx = sink.next_idx();
                // a signed dependency graph over <= 5 predicates
                let np = rng.range(1, 5) as u32;
                let mut clauses = vec![];
                let nrules = rng.range(1, 6);
                for _ in 0..nrules {
                    let h = 10 + rng.below(np as u64) as u32;
                    let mut body = vec![Lit::Pos(2, vec![Term::Var(0)])];
                    let nb = rng.range(1, 2);
                    for _ in 0..nb {
                        let b = 10 + rng.below(np as u64) as u32;
                        if rng.chance(2, 5) {
                            body.push(Lit::Neg(b, vec![Term::Var(0)]));
                        } else {
                            body.push(Lit::Pos(b, vec![Term::Var(0)]));
                        }
                    }
                    clauses.push(Clause { head: h, args: vec![HTerm::Var(0)], body });
                }
                if case_no == 0 {
                    // corpus: mutual negation (DESIGN §9 row 24)
                    clauses = vec![
                        Clause { head: 10, args: vec![HTerm::Var(0)], body: vec![Lit::Pos(2, vec![Term::Var(0)]), Lit::Neg(11, vec![Term::Var(0)])] },
                        Clause { head: 11, args: vec![HTerm::Var(0)], body: vec![Lit::Pos(2, vec![Term::Var(0)]), Lit::Neg(10, vec![Term::Var(0)])] },
                    ];
                }
                let qh = clauses[rng.below(clauses.len() as u64) as usize].head;
                let npers = rng.below(clauses.len() as u64 + 1) as usize; // first npers rules persistent, the rest session
                if !sink.wants(idx) {
                    sink.push(String::new(), serde_json::json!(null), &[], None);
                    continue;
                }
                let p = Program { clauses: clauses.clone() };
                // path (a): one engine program = all rules + query
                let mut full = p.clone();
                full.clauses.push(Clause { head: 99, args: vec![HTerm::Var(0)], body: vec![Lit::Pos(qh, vec![Term::Var(0)])] });
                let edb: Edb = vec![(2, vec![Tuple::new(vec![inputlayer::value::Value::Int64(1)]), Tuple::new(vec![inputlayer::value::Value::Int64(2)])])];
                let ra = run_engine(&full.iql(), &edb, 31, 1, 0);
                let engine_ok = ra.is_ok();
                // path (b): the catalog's stratification validator on the parsed rules
                let rules: Vec<inputlayer::ast::Rule> = p.clauses.iter().filter_map(|c| inputlayer::parser::parse_rule(&c.iql()).ok()).collect();
                let validate_ok = rules.len() == p.clauses.len() && inputlayer::validate_rules_stratification(&rules).is_ok();
                // path (c): handler, first npers rules persistent, the rest as session rules of the querying program
                let dir = tempfile::tempdir().expect("tempdir");
                let mut cfg = Config::default();
                cfg.storage.data_dir = dir.path().to_path_buf();
                cfg.storage.performance.num_threads = 1;
                let handler = Handler::new(StorageEngine::new(cfg).expect("open"));
                let kg = Some("default".to_string());
                let _ = rt.block_on(handler.query_program(kg.clone(), "+e2[(1,), (2,)]".to_string()));
                let mut pers_ok = true;
                let mut msgs = vec![];
                for c in &p.clauses[..npers] {
                    let r = rt.block_on(handler.query_program(kg.clone(), format!("+{}", c.iql())));
                    let bad = match &r {
                        Ok(qr) => {
                            let m = format!("{:?}", qr.rows);
                            let b = m.contains("Unstratified") || m.contains("rror");
                            msgs.push(m);
                            b
                        }
                        Err(e) => {
                            msgs.push(e.clone());
                            true
                        }
                    };
                    if bad {
                        pers_ok = false;
                        break;
                    }
                }
                let handler_ok = if pers_ok {
                    let mut text = String::new();
                    for c in &p.clauses[npers..] {
                        text.push_str(&c.iql());
                        text.push('\n');
                    }
                    text.push_str(&format!("?{}(X0)", rel_name(qh)));
                    let r = rt.block_on(handler.query_program(kg.clone(), text));
                    match &r {
                        Ok(qr) => {
                            let m = format!("{:?}", qr.rows);
                            let b = m.contains("Unstratified");
                            msgs.push(m.chars().take(200).collect());
                            !b
                        }
                        Err(e) => {
                            msgs.push(e.clone());
                            false
                        }
                    }
                } else {
                    false
                };
                let coq = format!("C34Case {} {} {} {}", p.coq(), coq_bool(engine_ok), coq_bool(validate_ok), coq_bool(handler_ok));
                let nontriv = Some(format!("{}|{}", p.iql(), npers));
                sink.tally(if engine_ok { "engine:accepted" } else { "engine:rejected" });
                sink.tally(&format!("persistent_rules:{}", npers));
                sink.push(
                    coq,
                    serde_json::json!({"rules": p.iql(), "persistent_prefix": npers, "query": rel_name(qh), "engine_accepts": engine_ok, "engine_error": ra.err(), "validator_accepts": validate_ok, "handler_accepts": handler_ok, "handler_messages": msgs}),
                    &["signed-graph"],
                    nontriv,
                );
            }
            sink.finish();
        }
        other => {
            eprintln!("unknown mode {}", other);
            std::process::exit(2);
        }
    }
}
