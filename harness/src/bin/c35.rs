//! C35 — ordered and paginated results are exact slices; sorting never fails.
//! Three kinds of cases for Checks/C35.v:
//!   C35Cmp / C35Cmp3  the real `compare_wire_values` on pairs / triples of Option<WireValue>
//!                     (every pair over a representative domain of every kind: cross-check of the
//!                     translator tables; triples: transitivity),
//!   C35Sort           the real sort + total_count + pagination step of the query path
//!                     (`sort_rows`, `apply_pagination`, via the cfg hook `verif_sort_paginate`) on
//!                     random row sets with mixed kinds, random keys / directions / limit / offset;
//!                     a panic is recorded (catch_unwind), not fatal,
//!   C35Query          the same through the handler query paths on a stored relation (plain query_program, clean
//!                     session = fast path, dirty session = slow path with ephemeral facts and/or rules; entered via
//!                     query_program_with_session or execute_program(Some(&sid), ..)):
//!                     `?t(A:asc, B:desc, C), limit(n, off)` against the un-annotated answer.
use inputlayer::protocol::handler::{verif_compare_wire_values, verif_sort_paginate};
use inputlayer::protocol::{Handler, WireTuple, WireValue};
use inputlayer::statement::SortDirection;
use inputlayer::value::{Tuple, Value};
use inputlayer::{Config, StorageEngine};
use std::cmp::Ordering;
use vharness::*;

fn coq_wire(v: &WireValue) -> String {
    // exhaustive on purpose: a new WireValue variant is a build error until it is modelled
    match v {
        WireValue::Null => "WNull".into(),
        WireValue::Int32(i) => format!("(WI32 {})", coq_z(*i as i128)),
        WireValue::Int64(i) => format!("(WI64 {})", coq_z(*i as i128)),
        WireValue::Float64(f) => format!("(WF64 {})", coq_n(f.to_bits() as u128)),
        WireValue::String(s) => format!("(WStr {})", coq_str(s)),
        WireValue::Bool(b) => format!("(WBool {})", coq_bool(*b)),
        WireValue::Timestamp(t) => format!("(WTs {})", coq_z(*t as i128)),
        WireValue::Vector(xs) => format!("(WVec {})", coq_list(&xs.iter().map(|f| coq_n(f.to_bits() as u128)).collect::<Vec<_>>())),
        WireValue::VectorInt8(xs) => format!("(WVec8 {})", coq_list(&xs.iter().map(|i| coq_z(*i as i128)).collect::<Vec<_>>())),
        WireValue::Bytes(bs) => format!("(WBytes {})", coq_list(&bs.iter().map(|b| coq_n(*b as u128)).collect::<Vec<_>>())),
    }
}
fn coq_row(r: &WireTuple) -> String {
    coq_list(&r.values.iter().map(coq_wire).collect::<Vec<_>>())
}
fn coq_rows(rs: &[WireTuple]) -> String {
    coq_list(&rs.iter().map(coq_row).collect::<Vec<_>>())
}
fn coq_ord(o: Ordering) -> &'static str {
    match o {
        Ordering::Less => "Lt",
        Ordering::Equal => "Eq",
        Ordering::Greater => "Gt",
    }
}
fn coq_keys(keys: &[(usize, SortDirection)]) -> String {
    coq_list(&keys.iter().map(|(c, d)| format!("({}, {})", coq_nat(*c), coq_bool(*d == SortDirection::Desc))).collect::<Vec<_>>())
}
fn coq_onat(x: Option<usize>) -> String {
    coq_opt(x.map(coq_nat))
}
fn show(v: &WireValue) -> String {
    match v {
        WireValue::Float64(f) => format!("Float64({:?}/0x{:016x})", f, f.to_bits()),
        other => format!("{:?}", other),
    }
}
fn show_rows(rs: &[WireTuple]) -> Vec<Vec<String>> {
    rs.iter().map(|r| r.values.iter().map(show).collect()).collect()
}

fn f(bits: u64) -> WireValue {
    WireValue::Float64(f64::from_bits(bits))
}
const NAN: u64 = 0x7FF8_0000_0000_0000;
const NNAN: u64 = 0xFFF8_0000_0000_0000;

fn cmp_domain() -> Vec<Option<WireValue>> {
    let mut v: Vec<Option<WireValue>> = vec![None];
    for w in [
        WireValue::Null,
        WireValue::Bool(false),
        WireValue::Bool(true),
        WireValue::Int32(-1),
        WireValue::Int32(7),
        WireValue::Int64(-1),
        WireValue::Int64(0),
        WireValue::Int64(2),
        WireValue::Int64(7),
        WireValue::Int64(1 << 53),
        WireValue::Int64((1 << 53) + 1),
        WireValue::Int64(i64::MAX),
        WireValue::Int64(i64::MIN),
        f(NAN),
        f(NNAN),
        f(0),
        f(1 << 63),
        f(0x3FF8_0000_0000_0000), // 1.5
        f(0x4000_0000_0000_0000), // 2.0
        f(0x4340_0000_0000_0000), // 2^53
        f(0x43E0_0000_0000_0000), // 2^63
        f(0x7FF0_0000_0000_0000),
        f(0xFFF0_0000_0000_0000),
        WireValue::String("".into()),
        WireValue::String("a".into()),
        WireValue::String("\u{e9}".into()),
        WireValue::Timestamp(-5),
        WireValue::Timestamp(7),
        WireValue::Vector(vec![1.0]),
        WireValue::Vector(vec![]),
        WireValue::VectorInt8(vec![3]),
        WireValue::Bytes(vec![1, 2]),
        WireValue::Bytes(vec![]),
    ] {
        v.push(Some(w));
    }
    v
}

/// value generators per column profile
fn gen_val(r: &mut Rng, profile: u64) -> WireValue {
    match profile {
        0 => WireValue::Int64(r.range(-3, 3)),
        1 => {
            if r.chance(1, 2) {
                WireValue::Int64(r.range(-3, 3))
            } else {
                WireValue::Int32(r.range(-3, 3) as i32)
            }
        }
        // floats with every special value
        2 => f(*r.pick(&[NAN, NNAN, 0, 1 << 63, 0x3FF0_0000_0000_0000, 0xBFF0_0000_0000_0000, 0x4000_0000_0000_0000,
            0x7FF0_0000_0000_0000, 0xFFF0_0000_0000_0000, 0x3FF8_0000_0000_0000, 1, 0x7FF0_0000_0000_0001])),
        // NaN-free floats mixed with small ints
        3 => {
            if r.chance(1, 2) {
                WireValue::Int64(r.range(-3, 3))
            } else {
                f(*r.pick(&[0, 1 << 63, 0x3FF0_0000_0000_0000, 0xBFF0_0000_0000_0000, 0x4000_0000_0000_0000, 0x3FF8_0000_0000_0000,
                    0x7FF0_0000_0000_0000, 0xFFF0_0000_0000_0000, 0xC008_0000_0000_0000]))
            }
        }
        // floats incl. NaN mixed with small ints
        4 => {
            if r.chance(1, 3) {
                WireValue::Int64(r.range(-3, 3))
            } else {
                gen_val(r, 2)
            }
        }
        // every kind
        5 => match r.below(12) {
            0 => WireValue::Null,
            1 => WireValue::Bool(r.chance(1, 2)),
            2 => WireValue::Int32(r.range(-2, 2) as i32),
            3 => WireValue::Int64(r.range(-2, 2)),
            4 => gen_val(r, 2),
            5 => WireValue::String((*r.pick(&["", "a", "ab", "b", "\u{e9}", "\u{10000}"])).to_string()),
            6 => WireValue::Timestamp(r.range(-2, 2)),
            7 => WireValue::Vector(vec![r.range(0, 2) as f32; r.below(3) as usize]),
            8 => WireValue::VectorInt8(vec![r.range(-1, 1) as i8; r.below(3) as usize]),
            9 => WireValue::Bytes(vec![r.below(3) as u8; r.below(3) as usize]),
            10 => WireValue::Int64(r.next() as i64),
            _ => f(r.next()),
        },
        // strings
        6 => WireValue::String((*r.pick(&["", "a", "ab", "b", "B", "\u{e9}", "\u{ffff}", "\u{10000}"])).to_string()),
        // the known class: integers beyond 2^53 next to floats
        _ => match r.below(4) {
            0 => f(0x4340_0000_0000_0000 + r.below(3)),
            1 => f(0x43E0_0000_0000_0000),
            2 => WireValue::Int64((1i64 << 53) + r.range(-2, 3)),
            _ => WireValue::Int64(i64::MAX - r.range(0, 600)),
        },
    }
}

fn gen_rows(r: &mut Rng, nrows: usize, ncols: usize, profiles: &[u64], ragged: bool) -> Vec<WireTuple> {
    (0..nrows)
        .map(|_| {
            let n = if ragged && r.chance(1, 5) { r.below(ncols as u64 + 1) as usize } else { ncols };
            WireTuple::new((0..n).map(|c| gen_val(r, profiles[c])).collect())
        })
        .collect()
}

fn pick_limit(r: &mut Rng, n: usize) -> Option<usize> {
    match r.below(6) {
        0 | 1 => None,
        2 => Some(0),
        3 => Some(n + r.below(3) as usize),
        _ => Some(r.below(n as u64 + 1) as usize),
    }
}

fn sort_case(sink: &mut Sink, rows: Vec<WireTuple>, keys: Vec<(usize, SortDirection)>, limit: Option<usize>, offset: Option<usize>, tag: &str) {
    let (rs, ks) = (rows.clone(), keys.clone());
    let out = catch(move || verif_sort_paginate(rs, &ks, limit, offset));
    let (panicked, res, total) = match &out {
        Ok((res, total)) => (false, res.clone(), *total),
        Err(_) => (true, vec![], 0),
    };
    let coq = format!(
        "(C35Sort {} {} {} {} {} {} {})",
        coq_keys(&keys), coq_onat(limit), coq_onat(offset), coq_rows(&rows), coq_bool(panicked), coq_rows(&res), coq_nat(total)
    );
    let desc = serde_json::json!({"call": "verif_sort_paginate (sort_rows; total_count; apply_pagination)",
        "order_by": keys.iter().map(|(c, d)| format!("{}:{:?}", c, d)).collect::<Vec<_>>(), "limit": limit, "offset": offset,
        "rows": show_rows(&rows), "panicked": out.as_ref().err(), "result": show_rows(&res), "total_count": total});
    sink.tally(&format!("sort_rows:{}", match rows.len() { 0 => "0", 1..=2 => "1-2", 3..=20 => "3-20", 21..=60 => "21-60", _ => ">60" }));
    sink.tally(&format!("sort_keys:{}", keys.len()));
    if panicked {
        sink.tally("sort_panicked");
    }
    let nontrivial = !keys.is_empty() && rows.len() >= 3 && !res.is_empty();
    sink.push(coq, desc.clone(), &[tag], if nontrivial { Some(desc.to_string()) } else { None });
}

fn to_value(w: &WireValue) -> Option<Value> {
    Some(match w {
        WireValue::Null => Value::Null,
        WireValue::Int32(i) => Value::Int32(*i),
        WireValue::Int64(i) => Value::Int64(*i),
        WireValue::Float64(f) => Value::Float64(*f),
        WireValue::String(s) => Value::string(s),
        WireValue::Bool(b) => Value::Bool(*b),
        WireValue::Timestamp(t) => Value::Timestamp(*t),
        _ => return None,
    })
}

fn main() {
    let args = parse_args();
    std::panic::set_hook(Box::new(|_| {}));
    let mut rng = Rng::new(args.seed);
    let mut sink = Sink::new(&args, "From IL Require Import Checks.C35.", "c35case", "c35_check", 250);
    let asc = SortDirection::Asc;
    let desc_ = SortDirection::Desc;

    // ---------------- corpus: witnesses
    // (a) pre-repair: NaN compares Equal to everything -> order not transitive; >20 rows made sort_by panic
    {
        let mut rows = vec![];
        for i in 0..40u64 {
            let v = if i % 5 == 2 { f(NAN) } else { f(((40 - i) as f64).to_bits()) };
            rows.push(WireTuple::new(vec![v, WireValue::Int64(i as i64)]));
        }
        sort_case(&mut sink, rows.clone(), vec![(0, asc)], None, None, "corpus_nan");
        sort_case(&mut sink, rows, vec![(0, desc_)], Some(7), Some(3), "corpus_nan");
        let small = vec![f(0x4000_0000_0000_0000), f(NAN), f(0x3FF0_0000_0000_0000)].into_iter().map(|v| WireTuple::new(vec![v])).collect::<Vec<_>>();
        sort_case(&mut sink, small, vec![(0, asc)], None, None, "corpus_nan");
    }
    // (b) still in the tree: Int64 vs Float64 compared after rounding to f64 (finding int-float-precision)
    {
        let w = vec![WireValue::Int64((1 << 53) + 1), f(0x4340_0000_0000_0000), WireValue::Int64(1 << 53)];
        let rows: Vec<WireTuple> = w.into_iter().map(|v| WireTuple::new(vec![v])).collect();
        sort_case(&mut sink, rows, vec![(0, asc)], None, None, "corpus_precision");
    }

    // ---------------- comparator: all pairs over the domain, sampled triples
    let dom = cmp_domain();
    for a in &dom {
        for b in &dom {
            let (ab, ba) = (verif_compare_wire_values(a.as_ref(), b.as_ref()), verif_compare_wire_values(b.as_ref(), a.as_ref()));
            let coq = format!("(C35Cmp {} {} {} {})", coq_opt(a.as_ref().map(coq_wire)), coq_opt(b.as_ref().map(coq_wire)), coq_ord(ab), coq_ord(ba));
            let desc = serde_json::json!({"compare_wire_values": [a.as_ref().map(show), b.as_ref().map(show)], "result": format!("{:?}", ab)});
            sink.tally("cmp_pair");
            sink.push(coq, desc.clone(), &["cmp_pair"], Some(desc.to_string()));
        }
    }
    for _ in 0..(args.n * 4) {
        // half of the triples inside the numeric group, where payloads decide
        let pick = |r: &mut Rng| -> Option<WireValue> {
            if r.chance(1, 2) {
                let p = *r.pick(&[3u64, 4, 7]);
                Some(gen_val(r, p))
            } else {
                r.pick(&dom).clone()
            }
        };
        let (a, b, c) = (pick(&mut rng), pick(&mut rng), pick(&mut rng));
        let cmp = |x: &Option<WireValue>, y: &Option<WireValue>| verif_compare_wire_values(x.as_ref(), y.as_ref());
        let (ab, bc, ac) = (cmp(&a, &b), cmp(&b, &c), cmp(&a, &c));
        let coq = format!(
            "(C35Cmp3 {} {} {} {} {} {})",
            coq_opt(a.as_ref().map(coq_wire)), coq_opt(b.as_ref().map(coq_wire)), coq_opt(c.as_ref().map(coq_wire)),
            coq_ord(ab), coq_ord(bc), coq_ord(ac)
        );
        let chain = (ab != Ordering::Greater && bc != Ordering::Greater) || (ab != Ordering::Less && bc != Ordering::Less);
        let desc = serde_json::json!({"compare_wire_values_triple": [a.as_ref().map(show), b.as_ref().map(show), c.as_ref().map(show)],
            "results": [format!("{:?}", ab), format!("{:?}", bc), format!("{:?}", ac)]});
        sink.tally(if chain { "cmp_triple_premise_holds" } else { "cmp_triple_vacuous" });
        sink.push(coq, desc.clone(), &["cmp_triple"], if chain { Some(desc.to_string()) } else { None });
    }

    // ---------------- sort + paginate on random row sets
    for _ in 0..args.n {
        let ncols = rng.range(1, 3) as usize;
        let profiles: Vec<u64> = (0..ncols).map(|_| *rng.pick(&[0u64, 1, 2, 3, 3, 4, 5, 5, 6, 7])).collect();
        let nrows = match rng.below(10) {
            0 => rng.below(3) as usize,
            1..=6 => rng.range(3, 20) as usize,
            7 | 8 => rng.range(21, 60) as usize,
            _ => rng.range(61, 110) as usize,
        };
        let ragged = rng.chance(1, 4);
        let rows = gen_rows(&mut rng, nrows, ncols, &profiles, ragged);
        let nkeys = *rng.pick(&[0usize, 1, 1, 1, 2, 2, 3]);
        let keys: Vec<(usize, SortDirection)> =
            (0..nkeys).map(|_| (rng.below(ncols as u64 + 1) as usize, if rng.chance(1, 2) { asc } else { desc_ })).collect();
        let limit = pick_limit(&mut rng, nrows);
        let offset = pick_limit(&mut rng, nrows);
        for p in &profiles {
            sink.tally(&format!("column_profile:{}", ["int64", "int32+int64", "floats+NaN", "int64+floats", "int64+floats+NaN", "all-kinds", "strings", "big-int+float"][*p as usize]));
        }
        sort_case(&mut sink, rows, keys, limit, offset, "sort_random");
    }

    // ---------------- the same through the handler's query paths:
    //   Plain            Handler::query_program(Some(kg), ..)
    //   SessClean        a session without ephemeral state (fast path of query_program_with_session)
    //   SessFactInT      part of t's tuples are ephemeral session facts      (slow path)
    //   SessFactOther    an ephemeral fact in an unrelated relation           (slow path)
    //   SessRule         an ephemeral session rule over t                     (slow path)
    //   SessFactAndRule  both                                                 (slow path)
    // session paths are entered through query_program_with_session or execute_program(Some(&sid), ..)
    let rt = tokio::runtime::Builder::new_current_thread().enable_all().build().expect("rt");
    // corpus: a score table, top-k / bottom-k / windows, on every path (the stored order is not the sorted order)
    {
        let names = ["m", "c", "x", "a", "q", "f", "z", "b", "k"];
        let scores = [30i64, 10, 90, 20, 70, 50, 40, 80, 60];
        let tuples: Vec<Tuple> =
            (0..names.len()).map(|i| Tuple::new(vec![Value::string(names[i]), Value::Int64(scores[i]), Value::Int64(i as i64)])).collect();
        for (pi, path) in ALL_PATHS.iter().enumerate() {
            for (aa, ab, limit, offset) in [("", ":desc", Some(2), None), (":asc", "", Some(3), Some(2)), ("", ":asc", Some(4), Some(1))] {
                let eph: Vec<bool> = (0..tuples.len()).map(|i| i % 4 == 1).collect();
                let spec = QSpec { tuples: tuples.clone(), eph, aa, ab, limit, offset, path: *path, via_execute: pi % 2 == 0 };
                query_case(&mut sink, &rt, &spec, "corpus_query");
            }
        }
    }
    let nq = (args.n / 5).max(12);
    for qi in 0..nq {
        let profiles: Vec<u64> = (0..2).map(|_| *rng.pick(&[0u64, 1, 2, 3, 4, 5, 6])).collect();
        let nrows = if qi % 4 == 3 { rng.range(25, 45) } else { rng.range(2, 14) } as usize;
        let mut tuples = vec![];
        for i in 0..nrows {
            let (a, b) = loop {
                let (a, b) = (gen_val(&mut rng, profiles[0]), gen_val(&mut rng, profiles[1]));
                if let (Some(a), Some(b)) = (to_value(&a), to_value(&b)) {
                    break (a, b);
                }
            };
            tuples.push(Tuple::new(vec![a, b, Value::Int64(i as i64)]));
        }
        let mut eph: Vec<bool> = (0..nrows).map(|_| rng.chance(1, 3)).collect();
        let forced = rng.below(nrows as u64) as usize;
        eph[forced] = true;
        let ann = |r: &mut Rng| *r.pick(&["", ":asc", ":desc"]);
        let (aa, ab) = (ann(&mut rng), ann(&mut rng));
        let limit = match rng.below(3) {
            0 => None,
            _ => Some(rng.below(nrows as u64 + 2) as usize),
        };
        let offset = if limit.is_some() && rng.chance(2, 3) { Some(rng.below(nrows as u64 + 2) as usize) } else { None };
        let path = *rng.pick(&[Path::Plain, Path::Plain, Path::SessClean, Path::SessFactInT, Path::SessFactInT, Path::SessFactOther,
            Path::SessRule, Path::SessRule, Path::SessFactAndRule]);
        let via_execute = rng.chance(1, 2);
        let spec = QSpec { tuples, eph, aa, ab, limit, offset, path, via_execute };
        query_case(&mut sink, &rt, &spec, "handler_query");
    }
    sink.finish();
}

#[derive(Clone, Copy, Debug, PartialEq)]
enum Path {
    Plain,
    SessClean,
    SessFactInT,
    SessFactOther,
    SessRule,
    SessFactAndRule,
}
const ALL_PATHS: [Path; 6] = [Path::Plain, Path::SessClean, Path::SessFactInT, Path::SessFactOther, Path::SessRule, Path::SessFactAndRule];

struct QSpec {
    tuples: Vec<Tuple>,
    /// which tuples are ephemeral session facts (used by SessFactInT / SessFactAndRule only)
    eph: Vec<bool>,
    aa: &'static str,
    ab: &'static str,
    limit: Option<usize>,
    offset: Option<usize>,
    path: Path,
    via_execute: bool,
}

fn query_case(sink: &mut Sink, rt: &tokio::runtime::Runtime, q: &QSpec, tag: &str) {
    let (asc, desc_) = (SortDirection::Asc, SortDirection::Desc);
    let dir = tempfile::tempdir().expect("tempdir");
    let mut config = Config::default();
    config.storage.data_dir = dir.path().to_path_buf();
    let st = StorageEngine::new(config).expect("storage");
    st.create_knowledge_graph("k").expect("kg");
    let split = matches!(q.path, Path::SessFactInT | Path::SessFactAndRule);
    let stored: Vec<Tuple> = q.tuples.iter().zip(&q.eph).filter(|(_, e)| !(split && **e)).map(|(t, _)| t.clone()).collect();
    let ephemeral: Vec<Tuple> = q.tuples.iter().zip(&q.eph).filter(|(_, e)| split && **e).map(|(t, _)| t.clone()).collect();
    let mut setup_err: Option<String> = None;
    if !stored.is_empty() {
        if let Err(e) = st.insert_tuples_into("k", "t", stored.clone()) {
            setup_err = Some(format!("insert: {}", e));
        }
    }
    let handler = Handler::new(st);
    let mut session_ops: Vec<String> = vec![];
    let sid: Option<String> = if q.path == Path::Plain {
        None
    } else {
        match handler.create_session("k") {
            Ok(s) => Some(s),
            Err(e) => {
                setup_err = Some(format!("create_session: {}", e));
                None
            }
        }
    };
    if let Some(sid) = &sid {
        if split {
            session_ops.push(format!("session_insert_ephemeral t {:?}", ephemeral.iter().map(|t| format!("{:?}", t.values())).collect::<Vec<_>>()));
            if let Err(e) = handler.session_insert_ephemeral(sid, "t", ephemeral.clone()) {
                setup_err = Some(format!("session_insert_ephemeral: {}", e));
            }
        }
        if q.path == Path::SessFactOther {
            session_ops.push("session_insert_ephemeral u [[Int64(1)]]".into());
            if let Err(e) = handler.session_insert_ephemeral(sid, "u", vec![Tuple::new(vec![Value::Int64(1)])]) {
                setup_err = Some(format!("session_insert_ephemeral u: {}", e));
            }
        }
        if matches!(q.path, Path::SessRule | Path::SessFactAndRule) {
            let rule = "w(X) <- t(X, Y, Z)".to_string();
            session_ops.push(format!("execute_program(session) {}", rule));
            if let Err(e) = rt.block_on(handler.execute_program(Some(sid), None, rule, None)) {
                setup_err = Some(format!("session rule: {}", e));
            }
        }
    }
    let lim_txt = match (q.limit, q.offset) {
        (Some(l), Some(o)) => format!(", limit({}, {})", l, o),
        (Some(l), None) => format!(", limit({})", l),
        _ => String::new(),
    };
    let q_full = "?t(A, B, C)".to_string();
    let q_sorted = format!("?t(A{}, B{}, C){}", q.aa, q.ab, lim_txt);
    let entry = match (&sid, q.via_execute) {
        (None, _) => "Handler::query_program(Some(\"k\"), q)",
        (Some(_), true) => "Handler::execute_program(Some(&sid), None, q, None)",
        (Some(_), false) => "Handler::query_program_with_session(&sid, q)",
    };
    let run = |text: String| {
        let h = std::panic::AssertUnwindSafe(&handler);
        let r = std::panic::AssertUnwindSafe(rt);
        let sid = sid.clone();
        let via = q.via_execute;
        catch(move || match &sid {
            None => r.block_on(h.query_program(Some("k".into()), text)),
            Some(s) if via => r.block_on(h.execute_program(Some(s), None, text, None)),
            Some(s) => r.block_on(h.query_program_with_session(s, text)),
        })
    };
    let full = run(q_full.clone());
    let sorted = run(q_sorted.clone());
    let mut keys = vec![];
    for (i, a) in [q.aa, q.ab].iter().enumerate() {
        match *a {
            ":asc" => keys.push((i, asc)),
            ":desc" => keys.push((i, desc_)),
            _ => {}
        }
    }
    let path_name = format!("{:?}", q.path);
    let full_rows = match &full {
        Ok(Ok(r)) if setup_err.is_none() => r.rows.clone(),
        other => {
            // the un-annotated reference itself is unavailable (not C35's business): record and skip
            sink.tally(&format!("query_setup_failed:{}", path_name));
            eprintln!("note: setup failed on path {}: {:?} / {:?}", path_name, setup_err, other.as_ref().map(|r| r.as_ref().map(|x| x.rows.len())));
            return;
        }
    };
    // failed: 0 = ok, 1 = panic, 2 = Err
    let (failed, res, total, err) = match &sorted {
        Ok(Ok(r)) => (0, r.rows.clone(), r.total_count, None),
        Ok(Err(e)) => (2, vec![], 0, Some(e.clone())),
        Err(p) => (1, vec![], 0, Some(format!("panic: {}", p))),
    };
    let coq = format!(
        "(C35Query {} {} {} {} {} {} {})",
        coq_keys(&keys), coq_onat(q.limit), coq_onat(q.offset), coq_rows(&full_rows), coq_nat(failed), coq_rows(&res), coq_nat(total)
    );
    let desc = serde_json::json!({"kg": "k", "path": path_name, "entry_point": entry,
        "stored_tuples_of_t": stored.iter().map(|t| format!("{:?}", t.values())).collect::<Vec<_>>(),
        "session_setup": session_ops,
        "query": q_sorted, "reference_query_same_path": q_full, "full_answer": show_rows(&full_rows), "error": err,
        "result": show_rows(&res), "total_count": total});
    sink.tally(&format!("query_path:{}", path_name));
    if sid.is_some() {
        sink.tally(if q.via_execute { "query_entry:execute_program" } else { "query_entry:query_program_with_session" });
    }
    let cuts = res.len() < full_rows.len();
    if !keys.is_empty() && cuts {
        sink.tally(&format!("query_sorted_and_cut:{}", path_name));
    }
    if failed != 0 {
        sink.tally("query_failed");
    }
    let nontrivial = !keys.is_empty() && full_rows.len() >= 3 && !res.is_empty();
    sink.push(coq, desc.clone(), &[tag, &format!("path_{}", path_name)], if nontrivial { Some(desc.to_string()) } else { None });
    drop(handler);
}
