//! C33 — declared schemas are enforced.
//! Declares schemas (all declared types) on relation `r` and drives every path that stores tuples:
//! `+r[..]` and update statements through `Handler::query_program`, the validate + insert engine API,
//! `session_insert_ephemeral`; records accept/reject decisions and the relation contents after every
//! step; emits cases for Checks/C33.v.
use inputlayer::protocol::wire::WireValue;
use inputlayer::protocol::Handler;
use inputlayer::schema::{ColumnSchema, RelationSchema, SchemaType};
use inputlayer::value::{Tuple, Value};
use inputlayer::{Config, StorageEngine};
use vharness::*;

const KG: &str = "default";

#[derive(Clone, Debug, PartialEq)]
enum Arg {
    X,
    Y,
    C(Value),
}
#[derive(Clone, Debug)]
enum Op {
    Declare(Vec<SchemaType>, bool), // types, via statement text?
    Validate(Vec<Tuple>),
    Session(Vec<Tuple>),
    Ins(Vec<Tuple>),
    Upd(Vec<Arg>, Vec<Arg>),
    Del(Tuple),
    CondDelAll,
    ApiIns(Vec<Tuple>),
}

fn type_text(t: &SchemaType) -> Option<String> {
    Some(match t {
        SchemaType::Int => "int".into(),
        SchemaType::Float => "float".into(),
        SchemaType::String => "string".into(),
        SchemaType::Bool => "bool".into(),
        SchemaType::Vector { dim: None } => "vector".into(),
        SchemaType::Vector { dim: Some(n) } => format!("vector({})", n),
        SchemaType::Named(n) => n.clone(),
        _ => return None, // symbol / timestamp / any have no statement syntax
    })
}
fn coq_type(t: &SchemaType) -> String {
    match t {
        SchemaType::Int => "TyInt".into(),
        SchemaType::Float => "TyFloat".into(),
        SchemaType::Symbol => "TySymbol".into(),
        SchemaType::String => "TyString".into(),
        SchemaType::Bool => "TyBool".into(),
        SchemaType::Timestamp => "TyTimestamp".into(),
        SchemaType::Vector { dim: None } => "(TyVector None)".into(),
        SchemaType::Vector { dim: Some(n) } => format!("(TyVector (Some {}))", coq_nat(*n)),
        SchemaType::Any => "TyAny".into(),
        SchemaType::Named(_) => "TyNamed".into(),
    }
}
fn coq_schema(ts: &[SchemaType]) -> String {
    coq_list(&ts.iter().map(coq_type).collect::<Vec<_>>())
}

/// text of a constant, None when the value kind has no literal syntax
fn val_text(v: &Value) -> Option<String> {
    Some(match v {
        Value::Int64(i) if *i >= 0 => format!("{}", i),
        Value::Float64(f) if f.is_finite() && *f >= 0.0 => {
            let s = format!("{}", f);
            if s.contains('.') {
                s
            } else {
                format!("{}.5", s) // never used: generator only produces x.5 floats
            }
        }
        Value::String(s) => format!("\"{}\"", s),
        Value::Bool(b) => format!("{}", b),
        Value::Vector(xs) => format!("[{}]", xs.iter().map(|x| format!("{:.1}", x)).collect::<Vec<_>>().join(", ")),
        _ => return None,
    })
}
fn textable(t: &Tuple) -> bool {
    t.values().iter().all(|v| val_text(v).is_some())
}
fn tuple_text(t: &Tuple) -> String {
    format!("({})", t.values().iter().map(|v| val_text(v).unwrap_or_else(|| "?".into())).collect::<Vec<_>>().join(", "))
}
fn arg_text(a: &Arg) -> String {
    match a {
        Arg::X => "X".into(),
        Arg::Y => "Y".into(),
        Arg::C(v) => val_text(v).expect("textable constant"),
    }
}
fn args_text(a: &[Arg]) -> String {
    a.iter().map(arg_text).collect::<Vec<_>>().join(", ")
}
fn coq_args(a: &[Arg]) -> String {
    coq_list(
        &a.iter()
            .map(|a| match a {
                Arg::X => "AX".to_string(),
                Arg::Y => "AY".to_string(),
                Arg::C(v) => format!("(AC {})", coq_value(v)),
            })
            .collect::<Vec<_>>(),
    )
}
fn num_after(msg: &str, after: &str) -> Option<u64> {
    let i = msg.find(after)? + after.len();
    let digits: String = msg[i..].chars().skip_while(|c| !c.is_ascii_digit()).take_while(|c| c.is_ascii_digit()).collect();
    digits.parse().ok()
}

struct Step {
    coq: String,
    desc: String,
}

fn run_history(rt: &tokio::runtime::Runtime, ops: &[Op]) -> Vec<Step> {
    let dir = tempfile::tempdir().expect("tempdir");
    let mut cfg = Config::default();
    cfg.storage.data_dir = dir.path().to_path_buf();
    cfg.storage.performance.num_threads = 1;
    let handler = Handler::new(StorageEngine::new(cfg).expect("open"));
    let sid = handler.create_session(KG).expect("session");
    let mut out = vec![];
    let run_stmt = |text: &str| -> (Result<String, String>,) {
        let reply = rt.block_on(handler.query_program(Some(KG.to_string()), text.to_string()));
        (reply.map(|qr| {
            qr.rows
                .iter()
                .filter_map(|r| match r.values.first() {
                    Some(WireValue::String(s)) => Some(s.clone()),
                    _ => None,
                })
                .collect::<Vec<_>>()
                .join(" | ")
        }),)
    };
    for op in ops {
        let (coq_op, desc) = match op {
            Op::Declare(types, via_text) => {
                let ok;
                let d;
                if *via_text {
                    let cols: Vec<String> = types.iter().enumerate().map(|(i, t)| format!("c{}: {}", i, type_text(t).expect("textable type"))).collect();
                    let text = format!("+r({})", cols.join(", "));
                    let (r,) = run_stmt(&text);
                    ok = matches!(&r, Ok(m) if m.contains("registered"));
                    d = format!("{}   => {:?}", text, r);
                } else {
                    let mut rs = RelationSchema::new("r");
                    for (i, t) in types.iter().enumerate() {
                        rs = rs.with_column(ColumnSchema::new(format!("c{}", i), t.clone()));
                    }
                    let r = handler.get_storage().register_or_update_schema_in(KG, rs);
                    ok = r.is_ok();
                    d = format!("register schema {:?} => {:?}", types, r.map_err(|e| e.to_string()));
                }
                (format!("C33Declare {} {}", coq_schema(types), coq_bool(ok)), d)
            }
            Op::Validate(ts) => {
                let r = handler.validate_tuples_against_schema(KG, "r", ts);
                (format!("C33Validate {} {}", coq_tuples(ts), coq_bool(r.is_ok())), format!("validate {:?} => {}", ts, if r.is_ok() { "ok" } else { "rejected" }))
            }
            Op::Session(ts) => {
                let r = handler.session_insert_ephemeral(&sid, "r", ts.clone());
                (format!("C33Session {} {}", coq_tuples(ts), coq_bool(r.is_ok())), format!("session insert {:?} => {:?}", ts, r))
            }
            Op::ApiIns(ts) => {
                let storage = handler.get_storage();
                let (res, d) = match storage.validate_tuples_in(KG, "r", ts) {
                    Err(e) => ("None".to_string(), format!("rejected: {}", e)),
                    Ok(()) => match storage.insert_tuples_into(KG, "r", ts.clone()) {
                        Ok((n, dup)) => (format!("(Some (Some ({}, {})))", coq_n(n as u128), coq_n(dup as u128)), format!("ok ({}, {})", n, dup)),
                        Err(e) => ("(Some None)".to_string(), format!("engine error: {}", e)),
                    },
                };
                (format!("C33ApiIns {} {}", coq_tuples(ts), res), format!("api validate+insert {:?} => {}", ts, d))
            }
            Op::Ins(_) | Op::Upd(..) | Op::Del(_) | Op::CondDelAll => {
                let (text, q) = match op {
                    Op::Ins(ts) => (format!("+r[{}]", ts.iter().map(tuple_text).collect::<Vec<_>>().join(", ")), format!("(SIns {})", coq_tuples(ts))),
                    Op::Upd(d, i) => (format!("-r({}), +r({}) <- r(X, Y)", args_text(d), args_text(i)), format!("(SUpd {} {} CTrue)", coq_args(d), coq_args(i))),
                    Op::Del(t) => (format!("-r{}", tuple_text(t)), format!("(SDel {})", coq_tuple(t))),
                    _ => ("-r(X, Y) <- r(X, Y)".to_string(), "(SCond [AX; AY] CTrue)".to_string()),
                };
                let (r,) = run_stmt(&text);
                let res = match &r {
                    Err(_) => "(SAccepted SRErr)".to_string(),
                    Ok(m) if m.contains("rejected") => "SRejected".to_string(),
                    Ok(m) => {
                        let rep = match op {
                            Op::Ins(_) => num_after(m, "Inserted").map(|n| format!("(SRIns {})", coq_n(n as u128))),
                            Op::Del(_) => num_after(m, "Deleted").map(|n| format!("(SRDel {})", coq_n(n as u128))),
                            Op::CondDelAll => num_after(m, "Conditional delete:").map(|n| format!("(SRCond {})", coq_n(n as u128))),
                            Op::Upd(..) => match (num_after(m, "Update:"), num_after(m, "deleted,")) {
                                (Some(d), Some(i)) => Some(format!("(SRUpd {} {})", coq_n(d as u128), coq_n(i as u128))),
                                _ => None,
                            },
                            _ => None,
                        };
                        format!("(SAccepted {})", rep.unwrap_or_else(|| "SRErr".to_string()))
                    }
                };
                (format!("C33Stmt {} {}", q, res), format!("{}   => {:?}", text, r))
            }
        };
        let raw: Vec<Tuple> = handler.get_storage().get_rules_and_data(KG).map(|(_, d)| d.get("r").cloned().unwrap_or_default()).unwrap_or_default();
        out.push(Step { coq: format!("(({}), {})", coq_op, coq_tuples(&raw)), desc: format!("{}   -> {:?}", desc, raw.iter().map(|t| format!("{:?}", t.values())).collect::<Vec<_>>()) });
    }
    out
}

fn emit(sink: &mut Sink, rt: &tokio::runtime::Runtime, ops: &[Op], tag: &'static str) {
    if !sink.wants(sink.next_idx()) {
        sink.push(String::new(), serde_json::json!(null), &[tag], None);
        return;
    }
    let steps = run_history(rt, ops);
    let coq = format!("C33Case {}", coq_list(&steps.iter().map(|s| s.coq.clone()).collect::<Vec<_>>()));
    let mut declared = false;
    let mut stored_after_decl = false;
    for op in ops {
        let k = match op {
            Op::Declare(..) => {
                declared = true;
                "op:declare"
            }
            Op::Validate(_) => "op:validate",
            Op::Session(_) => "op:session-insert",
            Op::Ins(_) => "op:insert",
            Op::Upd(..) => "op:update",
            Op::Del(_) => "op:delete",
            Op::CondDelAll => "op:conditional-delete",
            Op::ApiIns(_) => "op:api-insert",
        };
        if declared && !matches!(op, Op::Declare(..) | Op::Del(_) | Op::CondDelAll) {
            stored_after_decl = true;
        }
        sink.tally(k);
    }
    // non-trivial = a schema is declared and at least one storing / validating step follows it
    let key = if stored_after_decl { Some(format!("{:?}", ops)) } else { None };
    sink.push(coq, serde_json::json!({"steps": steps.iter().map(|s| s.desc.clone()).collect::<Vec<_>>()}), &[tag], key);
}

fn all_types() -> Vec<SchemaType> {
    vec![
        SchemaType::Int,
        SchemaType::Float,
        SchemaType::Symbol,
        SchemaType::String,
        SchemaType::Bool,
        SchemaType::Timestamp,
        SchemaType::Vector { dim: None },
        SchemaType::Vector { dim: Some(2) },
        SchemaType::Vector { dim: Some(3) },
        SchemaType::Any,
        SchemaType::Named("Email".to_string()),
    ]
}
fn all_values() -> Vec<Value> {
    vec![
        Value::Null,
        Value::Bool(true),
        Value::Int32(7),
        Value::Int64(7),
        Value::Float64(1.5),
        Value::Timestamp(1_700_000_000_000),
        Value::String("a".into()),
        Value::Vector(vec![1.0f32, 2.0].into()),
        Value::Vector(vec![1.0f32, 2.0, 3.0].into()),
        Value::VectorInt8(vec![1i8, 2].into()),
        Value::VectorInt8(vec![1i8, 2, 3].into()),
    ]
}

fn main() {
    let args = parse_args();
    let mut rng = Rng::new(args.seed);
    let rt = tokio::runtime::Builder::new_multi_thread().worker_threads(2).enable_all().build().expect("tokio");
    let mut sink = Sink::new(&args, "From IL Require Import Checks.C33.", "c33case", "c33_check", 20);
    let s = |x: &str| Value::String(x.into());
    let t2 = |a: Value, b: Value| Tuple::new(vec![a, b]);
    let xy = vec![Arg::X, Arg::Y];
    let yx = vec![Arg::Y, Arg::X];
    // ---- corpus
    // update whose insert half does not conform (once stored ("a", 1) in typed(int, string))
    emit(&mut sink, &rt, &[Op::Declare(vec![SchemaType::Int, SchemaType::String], true), Op::Ins(vec![t2(Value::Int64(1), s("a"))]), Op::Upd(xy.clone(), yx.clone())], "corpus");
    emit(&mut sink, &rt, &[Op::Declare(vec![SchemaType::Int, SchemaType::String], false), Op::Ins(vec![t2(Value::Int64(1), s("a")), t2(Value::Int64(2), s("b"))]), Op::Upd(xy.clone(), vec![Arg::X, Arg::C(Value::Int64(5))]), Op::Upd(xy.clone(), vec![Arg::X, Arg::C(s("z"))])], "corpus");
    // declaration over existing data that does not conform (data-first workflow): must be rejected
    emit(&mut sink, &rt, &[Op::Ins(vec![t2(Value::Int64(1), s("info")), t2(s("bad"), s("error"))]), Op::Declare(vec![SchemaType::Int, SchemaType::String], true), Op::Ins(vec![t2(s("x"), s("y"))]), Op::Declare(vec![SchemaType::Any, SchemaType::String], false), Op::Ins(vec![t2(s("x"), s("y"))])], "corpus");
    // whole batch rejected because of one tuple; conforming batch accepted; re-declaration
    emit(&mut sink, &rt, &[Op::Declare(vec![SchemaType::Int, SchemaType::Float], true), Op::Ins(vec![t2(Value::Int64(1), Value::Float64(0.5)), t2(Value::Int64(2), s("no"))]), Op::Ins(vec![t2(Value::Int64(1), Value::Float64(0.5)), t2(Value::Int64(2), Value::Int64(3))]), Op::Declare(vec![SchemaType::Int, SchemaType::Int], false), Op::Declare(vec![SchemaType::Float, SchemaType::Float], false)], "corpus");
    // ---- exhaustive matrix: every declared type x every value kind, through three storing/validating paths
    for ty in all_types() {
        for v in all_values() {
            let t = Tuple::new(vec![v.clone()]);
            emit(&mut sink, &rt, &[Op::Declare(vec![ty.clone()], false), Op::Validate(vec![t.clone()]), Op::Session(vec![t.clone()]), Op::ApiIns(vec![t.clone()])], "matrix");
        }
    }
    // ---- positional batches: for every declared type and every value that does NOT conform to it, a batch of
    //      conforming tuples with the one non-conforming tuple at every position (first / middle / last) — in
    //      particular batches that differ from a conforming one only in a vector's length or an integer's
    //      width — through every validating / storing path; the batch must be rejected as a whole each time
    for ty in all_types() {
        let conforming: Vec<Value> = all_values().into_iter().filter(|v| ty.matches(v)).collect();
        if conforming.is_empty() {
            continue;
        }
        for bad in all_values().into_iter().filter(|v| !ty.matches(v)) {
            // prefer a conforming value of the same constructor as the offender (a "near miss")
            let near = conforming.iter().find(|c| std::mem::discriminant(*c) == std::mem::discriminant(&bad)).unwrap_or(&conforming[0]).clone();
            let other = conforming.last().unwrap().clone();
            let mut ops = vec![Op::Declare(vec![ty.clone(), SchemaType::Int], false)];
            for pos in 0..3usize {
                let mut vals = vec![near.clone(), other.clone(), near.clone()];
                vals[pos] = bad.clone();
                let batch: Vec<Tuple> = vals.into_iter().enumerate().map(|(i, v)| Tuple::new(vec![v, Value::Int64(i as i64)])).collect();
                ops.push(Op::Validate(batch.clone()));
                ops.push(Op::Session(batch.clone()));
                ops.push(Op::ApiIns(batch.clone()));
                if batch.iter().all(textable) {
                    ops.push(Op::Ins(batch.clone()));
                }
            }
            // and the conforming batch is accepted
            let okb: Vec<Tuple> = vec![near.clone(), other.clone()].into_iter().enumerate().map(|(i, v)| Tuple::new(vec![v, Value::Int64(i as i64)])).collect();
            ops.push(Op::ApiIns(okb));
            emit(&mut sink, &rt, &ops, "positional");
        }
    }
    // ---- random histories on a binary relation
    // (vector types have no working statement syntax in a schema declaration: "+r(c: vector)" is a parse error; they are declared through the API)
    let text_types = [SchemaType::Int, SchemaType::Float, SchemaType::String, SchemaType::Bool, SchemaType::Named("Email".to_string())];
    let text_vals: Vec<Value> = vec![Value::Int64(1), Value::Int64(2), Value::Float64(0.5), Value::Float64(2.5), s("a"), s("b"), Value::Bool(true), Value::Vector(vec![1.0f32, 2.0].into()), Value::Vector(vec![1.0f32, 2.0, 3.0].into())];
    for _ in 0..args.n {
        let len = rng.range(3, 10);
        let mut ops = vec![];
        // a schema and a pool of values biased towards conforming ones
        let via_text = rng.chance(1, 2);
        let gen_schema = |rng: &mut Rng, via_text: bool| -> Vec<SchemaType> {
            (0..2)
                .map(|_| if via_text { rng.pick(&text_types).clone() } else { rng.pick(&all_types()).clone() })
                .collect()
        };
        let mut sc = gen_schema(&mut rng, via_text);
        if !via_text && rng.chance(1, 3) {
            let k = rng.below(2) as usize;
            sc[k] = SchemaType::Vector { dim: Some(*rng.pick(&[2usize, 3])) };
        }
        let good = |rng: &mut Rng, ty: &SchemaType, pool: &[Value]| -> Value {
            let ok: Vec<&Value> = pool.iter().filter(|v| ty.matches(v)).collect();
            if ok.is_empty() || rng.chance(1, 5) {
                // half of the deviations are near misses: same constructor as a conforming value (another vector
                // length, another integer width), which only the declared type tells apart
                let near: Vec<&Value> = pool.iter().filter(|v| !ty.matches(v) && ok.iter().any(|c| std::mem::discriminant(*c) == std::mem::discriminant(*v) || matches!((*c, *v), (Value::Int64(_), Value::Int32(_)) | (Value::Vector(_), Value::VectorInt8(_)) | (Value::VectorInt8(_), Value::Vector(_))))).collect();
                if !near.is_empty() && rng.chance(1, 2) {
                    (*rng.pick(&near)).clone()
                } else {
                    rng.pick(pool).clone()
                }
            } else {
                (*rng.pick(&ok)).clone()
            }
        };
        let data_first = rng.chance(1, 4);
        if !data_first {
            ops.push(Op::Declare(sc.clone(), via_text));
        }
        let malformed = rng.chance(1, 12);
        for _ in 0..len {
            let mk = |rng: &mut Rng, pool: &[Value]| -> Tuple {
                let mut vals = vec![good(rng, &sc[0], pool), good(rng, &sc[1], pool)];
                if malformed && rng.chance(1, 4) {
                    if rng.chance(1, 2) {
                        vals.pop();
                    } else {
                        vals.push(Value::Int64(0));
                    }
                }
                Tuple::new(vals)
            };
            match rng.below(20) {
                0..=5 => {
                    let n = rng.range(1, 4);
                    ops.push(Op::Ins((0..n).map(|_| mk(&mut rng, &text_vals)).collect()));
                }
                6..=8 => {
                    let n = rng.range(1, 4);
                    ops.push(Op::ApiIns((0..n).map(|_| mk(&mut rng, &all_values())).collect()));
                }
                9 | 10 => {
                    let n = rng.range(1, 3);
                    ops.push(Op::Validate((0..n).map(|_| mk(&mut rng, &all_values())).collect()));
                }
                11 | 12 => {
                    let n = rng.range(1, 3);
                    ops.push(Op::Session((0..n).map(|_| mk(&mut rng, &all_values())).collect()));
                }
                13..=15 => {
                    let tm = |rng: &mut Rng| -> Vec<Arg> {
                        match rng.below(5) {
                            0 => vec![Arg::X, Arg::Y],
                            1 => vec![Arg::Y, Arg::X],
                            2 => vec![Arg::X, Arg::C(rng.pick(&text_vals).clone())],
                            3 => vec![Arg::C(rng.pick(&text_vals).clone()), Arg::Y],
                            _ => vec![Arg::X, Arg::X],
                        }
                    };
                    let i = tm(&mut rng);
                    ops.push(Op::Upd(vec![Arg::X, Arg::Y], i));
                }
                16 => {
                    let t = mk(&mut rng, &text_vals);
                    if textable(&t) {
                        ops.push(Op::Del(t));
                    }
                }
                17 => ops.push(Op::CondDelAll),
                _ => {
                    if rng.chance(1, 2) {
                        ops.push(Op::Declare(sc.clone(), via_text));
                    } else {
                        let vt = rng.chance(1, 2);
                        let sc2 = gen_schema(&mut rng, vt);
                        ops.push(Op::Declare(sc2, vt));
                    }
                }
            }
        }
        emit(&mut sink, &rt, &ops, if malformed { "random-malformed" } else { "random" });
    }
    sink.finish();
}
