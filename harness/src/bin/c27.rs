//! C27 — authorization holds for every program: generated multi-line programs x identities x
//! every combination of KG roles through the real `Handler::execute_program`.
#[path = "../auth_common.rs"]
mod auth_common;
fn main() {
    auth_common::drive(&auth_common::Params {
        ctor: "C27Case",
        header: "From IL Require Import Checks.C27.",
        case_ty: "c27case",
        checker: "c27_check",
        internal_bias: 1,
        inject_errors: false,
        admin_share: 1,
    });
}
