//! C17 — knowledge graphs are isolated and drops are final.
//! (a) sequential histories over a pool of KG / relation names chosen to collide at the persistence
//!     layer (`a`, `a:b`, `a_b`, `persist`, `metadata`, ...) with restarts, full observation after
//!     every item;  (b) insert / delete / drop / create threads driven through enumerated and random
//!     interleavings of the sched_point hooks, observed at the end and after a restart.
//! Emits cases for Checks/C17.v.  `--unfixed` makes the cases ask for the model of the pinned tree.
#[path = "../conc_ctl.rs"]
mod conc_ctl;
use conc_ctl::*;
use inputlayer::statement::{RuleDef, SerializableBodyPred, SerializableRule, SerializableTerm};
use inputlayer::storage::StorageError;
use inputlayer::verif_hooks;
use inputlayer::{Config, StorageEngine, Tuple, Value};
use std::sync::atomic::{AtomicUsize, Ordering};
use std::sync::{Arc, Mutex};
use std::time::Duration;
use vharness::*;

#[derive(Clone, Debug)]
enum Op {
    Create { id: u64, k: String },
    Drop { id: u64, k: String },
    Ins { id: u64, k: String, rel: String, ts: Vec<u64> },
    Del { id: u64, k: String, rel: String, ts: Vec<u64> },
    Rule { id: u64, k: String, rel: String },
    Obs { id: u64 },
}
#[derive(Clone, Debug)]
enum Item {
    Op(Op),
    Restart,
}
fn cn(x: u64) -> String {
    coq_n(x as u128)
}
fn cts(ts: &[u64]) -> String {
    coq_list(&ts.iter().map(|t| cn(*t)).collect::<Vec<_>>())
}
impl Op {
    fn id(&self) -> u64 {
        match self {
            Op::Create { id, .. } | Op::Drop { id, .. } | Op::Ins { id, .. } | Op::Del { id, .. } | Op::Rule { id, .. } | Op::Obs { id } => *id,
        }
    }
    fn coq(&self) -> String {
        match self {
            Op::Create { id, k } => format!("(KCreate {} {})", cn(*id), coq_str(k)),
            Op::Drop { id, k } => format!("(KDrop {} {})", cn(*id), coq_str(k)),
            Op::Ins { id, k, rel, ts } => format!("(KIns {} {} {} {})", cn(*id), coq_str(k), coq_str(rel), cts(ts)),
            Op::Del { id, k, rel, ts } => format!("(KDel {} {} {} {})", cn(*id), coq_str(k), coq_str(rel), cts(ts)),
            Op::Rule { id, k, rel } => format!("(KRule {} {} {})", cn(*id), coq_str(k), coq_str(rel)),
            Op::Obs { id } => format!("(KObs {})", cn(*id)),
        }
    }
    fn text(&self) -> String {
        match self {
            Op::Create { id, k } => format!("#{id} create {k:?}"),
            Op::Drop { id, k } => format!("#{id} drop {k:?}"),
            Op::Ins { id, k, rel, ts } => format!("#{id} insert {k:?}.{rel:?} {ts:?}"),
            Op::Del { id, k, rel, ts } => format!("#{id} delete {k:?}.{rel:?} {ts:?}"),
            Op::Rule { id, k, rel } => format!("#{id} rule {k:?}.{rel:?}"),
            Op::Obs { id } => format!("#{id} observe"),
        }
    }
    fn steps(&self) -> usize {
        match self {
            Op::Ins { .. } => 4,
            Op::Del { .. } => 3,
            Op::Drop { .. } => 7,
            Op::Create { .. } => 2,
            _ => 1,
        }
    }
}
impl Item {
    fn coq(&self) -> String {
        match self {
            Item::Op(o) => format!("(HOp {})", o.coq()),
            Item::Restart => "HRestart".into(),
        }
    }
    fn text(&self) -> String {
        match self {
            Item::Op(o) => o.text(),
            Item::Restart => "restart".into(),
        }
    }
}

type Obs = Vec<(String, Vec<(String, u64)>, Vec<String>)>;
fn obs_coq(o: &Obs) -> String {
    let es: Vec<String> = o
        .iter()
        .map(|(k, fs, rs)| {
            let f: Vec<String> = fs.iter().map(|(r, t)| format!("({}, {})", coq_str(r), cn(*t))).collect();
            let r: Vec<String> = rs.iter().map(|r| coq_str(r)).collect();
            format!("({}, ({}, {}))", coq_str(k), coq_list(&f), coq_list(&r))
        })
        .collect();
    coq_list(&es)
}
#[derive(Clone, Debug)]
enum Res {
    Ok,
    Count(u64, u64),
    Err(u64, String),
    Seen(Obs),
}
impl Res {
    fn coq(&self) -> String {
        match self {
            Res::Ok => "KOk".into(),
            Res::Count(a, b) => format!("(KCount {} {})", cn(*a), cn(*b)),
            Res::Err(c, _) => format!("(KErr {})", cn(*c)),
            Res::Seen(o) => format!("(KSeen {})", obs_coq(o)),
        }
    }
}
fn err_code(e: &StorageError) -> Res {
    let m = e.to_string();
    let c = match e {
        StorageError::KnowledgeGraphNotFound(_) => 1,
        StorageError::KnowledgeGraphExists(_) => 2,
        StorageError::InvalidRelationName(_) => 3,
        StorageError::CannotDropDefault | StorageError::CannotDropCurrentKnowledgeGraph => 5,
        StorageError::Other(s) if s.contains("derived relation") => 4,
        StorageError::Other(s) if s.contains("is being dropped") => 6,
        _ => 7,
    };
    Res::Err(c, m)
}

fn tuple_of(t: u64) -> Tuple {
    Tuple::new(vec![Value::Int64(t as i64), Value::Int64(0)])
}
fn tuple_id(t: &Tuple) -> u64 {
    match t.get(0) {
        Some(Value::Int64(i)) => *i as u64,
        _ => u64::MAX,
    }
}
fn rule_def(rel: &str) -> RuleDef {
    let v = |s: &str| SerializableTerm::Variable(s.to_string());
    RuleDef {
        name: rel.to_string(),
        rule: SerializableRule {
            head_relation: rel.to_string(),
            head_args: vec![v("X"), v("Y")],
            body: vec![SerializableBodyPred::Atom { relation: format!("base_{rel}"), args: vec![v("X"), v("Y")], negated: false }],
        },
    }
}
fn observe(eng: &StorageEngine) -> Obs {
    let mut out = vec![];
    for k in eng.list_knowledge_graphs() {
        if let Ok(snap) = eng.get_snapshot_for(&k) {
            let mut fs = vec![];
            for (r, ts) in snap.input_tuples.iter() {
                for t in ts {
                    fs.push((r.clone(), tuple_id(t)));
                }
            }
            fs.sort();
            let mut rs: Vec<String> = snap.rules.iter().map(|r| r.head.relation.clone()).collect();
            rs.sort();
            out.push((k, fs, rs));
        }
    }
    out
}
fn do_op(eng: &StorageEngine, op: &Op) -> Res {
    match op {
        Op::Create { k, .. } => match eng.create_knowledge_graph(k) {
            Ok(()) => Res::Ok,
            Err(e) => err_code(&e),
        },
        Op::Drop { k, .. } => match eng.drop_knowledge_graph(k) {
            Ok(()) => Res::Ok,
            Err(e) => err_code(&e),
        },
        Op::Ins { k, rel, ts, .. } => match eng.insert_tuples_into(k, rel, ts.iter().map(|t| tuple_of(*t)).collect()) {
            Ok((a, b)) => Res::Count(a as u64, b as u64),
            Err(e) => err_code(&e),
        },
        Op::Del { k, rel, ts, .. } => match eng.delete_tuples_from(k, rel, ts.iter().map(|t| tuple_of(*t)).collect()) {
            Ok(a) => Res::Count(a as u64, 0),
            Err(e) => err_code(&e),
        },
        Op::Rule { k, rel, .. } => match eng.register_rule_in(k, &rule_def(rel)) {
            Ok(_) => Res::Ok,
            Err(e) => err_code(&e),
        },
        Op::Obs { .. } => Res::Seen(observe(eng)),
    }
}
fn open(dir: &std::path::Path) -> Result<StorageEngine, String> {
    let mut config = Config::default();
    config.storage.data_dir = dir.to_path_buf();
    config.storage.performance.num_threads = 1;
    catch(std::panic::AssertUnwindSafe(|| StorageEngine::new(config).map_err(|e| e.to_string()))).and_then(|r| r)
}

// ------------------------------------------------------------------ sequential histories
struct SeqOut {
    coq: String,
    desc: serde_json::Value,
    tags: Vec<String>,
    key: Option<String>,
}
fn run_seq(hist: &[Item], fx: bool, name: &str) -> SeqOut {
    let dir = scratch_dir();
    let mut eng = Some(open(dir.path()).expect("open"));
    let mut impls: Vec<String> = vec![];
    let mut texts: Vec<String> = vec![];
    let mut tags: Vec<String> = vec!["seq".into()];
    let mut dead = false;
    for it in hist {
        let (r, ob) = if dead {
            (Res::Err(98, "engine did not reopen".into()), vec![])
        } else {
            match it {
                Item::Op(o) => {
                    let e = eng.as_ref().unwrap();
                    let r = catch(std::panic::AssertUnwindSafe(|| do_op(e, o))).unwrap_or_else(|m| Res::Err(97, m));
                    (r, observe(e))
                }
                Item::Restart => {
                    eng = None;
                    match open(dir.path()) {
                        Ok(e) => {
                            let ob = observe(&e);
                            eng = Some(e);
                            (Res::Ok, ob)
                        }
                        Err(m) => {
                            dead = true;
                            tags.push("reopen-failed".into());
                            (Res::Err(98, m), vec![])
                        }
                    }
                }
            }
        };
        if let Res::Err(c, m) = &r {
            if *c >= 7 {
                tags.push("unexpected-error".into());
                texts.push(format!("{} -> unexpected error: {m}", it.text()));
            } else {
                texts.push(format!("{} -> err{c}", it.text()));
            }
        } else {
            texts.push(format!("{} -> {}", it.text(), match &r { Res::Seen(_) => "seen".to_string(), o => format!("{o:?}") }));
        }
        impls.push(format!("({}, {})", r.coq(), obs_coq(&ob)));
    }
    let coq = format!("C17Seq {} {} {}", coq_bool(fx), coq_list(&hist.iter().map(Item::coq).collect::<Vec<_>>()), coq_list(&impls));
    let nkg = {
        let mut ks: Vec<&String> = hist
            .iter()
            .filter_map(|i| match i {
                Item::Op(Op::Create { k, .. }) => Some(k),
                _ => None,
            })
            .collect();
        ks.sort();
        ks.dedup();
        ks.len()
    };
    let has_restart = hist.iter().any(|i| matches!(i, Item::Restart));
    let has_drop = hist.iter().any(|i| matches!(i, Item::Op(Op::Drop { .. })));
    if has_restart {
        tags.push("with-restart".into());
    }
    if has_drop {
        tags.push("with-drop".into());
    }
    let key = if nkg >= 2 && (has_restart || has_drop) { Some(texts.join(";")) } else { None };
    SeqOut { coq, desc: serde_json::json!({"kind":"sequential","name":name,"history":texts}), tags, key }
}

fn gen_seq(rng: &mut Rng) -> Vec<Item> {
    let kgs_all = ["a", "b", "a:b", "a_b", "persist", "metadata", "default", "k1", "a:"];
    let rels_all = ["r", "b:r", "b_r", "x"];
    // a history uses 2-4 KG names; the colliding ones are over-represented
    let nk = rng.range(2, 4) as usize;
    let mut kgs: Vec<&str> = vec![];
    while kgs.len() < nk {
        let k = if rng.chance(1, 2) { *rng.pick(&["a", "a:b", "a_b", "b"]) } else { *rng.pick(&kgs_all) };
        if !kgs.contains(&k) {
            kgs.push(k);
        }
    }
    let mut id = 1u64;
    let mut h = vec![];
    // create most of them up front
    for k in &kgs {
        if rng.chance(4, 5) && *k != "default" {
            h.push(Item::Op(Op::Create { id, k: k.to_string() }));
            id += 1;
        }
    }
    let n = rng.range(4, 14);
    for _ in 0..n {
        let k = rng.pick(&kgs).to_string();
        let rel = rng.pick(&rels_all).to_string();
        let nt = rng.range(1, 3) as usize;
        let ts: Vec<u64> = (0..nt).map(|_| rng.below(5)).collect();
        let it = match rng.below(20) {
            0..=7 => Item::Op(Op::Ins { id, k, rel, ts }),
            8..=10 => Item::Op(Op::Del { id, k, rel, ts }),
            11..=12 => Item::Op(Op::Create { id, k }),
            13..=15 => Item::Op(Op::Drop { id, k }),
            16 => Item::Op(Op::Rule { id, k, rel: format!("v_{}", rng.below(2)) }),
            _ => Item::Restart,
        };
        id += 1;
        h.push(it);
    }
    if rng.chance(2, 3) {
        h.push(Item::Restart);
    }
    h
}

/// histories over KG names that are prefixes of one another (`s`, `s_eu`, `s_eu2`), relations that
/// cannot collide as shard file names, every drop eventually followed by a restart
fn gen_seq_prefix(rng: &mut Rng) -> Vec<Item> {
    let kgs = ["s", "s_eu", "s_eu2"];
    let rels = ["r", "x"];
    let mut id = 1u64;
    let mut h = vec![];
    let mut order: Vec<&str> = kgs.to_vec();
    rng.shuffle(&mut order);
    for k in &order {
        h.push(Item::Op(Op::Create { id, k: k.to_string() }));
        id += 1;
        h.push(Item::Op(Op::Ins { id, k: k.to_string(), rel: rng.pick(&rels).to_string(), ts: vec![rng.below(5), rng.below(5)] }));
        id += 1;
    }
    let n = rng.range(3, 9);
    for _ in 0..n {
        let k = rng.pick(&kgs).to_string();
        let rel = rng.pick(&rels).to_string();
        let ts: Vec<u64> = (0..rng.range(1, 2)).map(|_| rng.below(5)).collect();
        match rng.below(10) {
            0..=2 => h.push(Item::Op(Op::Ins { id, k, rel, ts })),
            3 => h.push(Item::Op(Op::Del { id, k, rel, ts })),
            4 => h.push(Item::Op(Op::Create { id, k })),
            5..=7 => {
                h.push(Item::Op(Op::Drop { id, k }));
                if rng.chance(2, 3) {
                    h.push(Item::Restart);
                }
            }
            8 => h.push(Item::Op(Op::Rule { id, k, rel: "v_0".to_string() })),
            _ => h.push(Item::Restart),
        }
        id += 1;
    }
    h.push(Item::Restart);
    h
}

fn seq_corpus() -> Vec<(&'static str, Vec<Item>)> {
    let c = |id, k: &str| Item::Op(Op::Create { id, k: k.to_string() });
    let d = |id, k: &str| Item::Op(Op::Drop { id, k: k.to_string() });
    let i = |id, k: &str, r: &str, ts: &[u64]| Item::Op(Op::Ins { id, k: k.to_string(), rel: r.to_string(), ts: ts.to_vec() });
    let x = |id, k: &str, r: &str, ts: &[u64]| Item::Op(Op::Del { id, k: k.to_string(), rel: r.to_string(), ts: ts.to_vec() });
    vec![
        // DESIGN §9 row 16: KG `a:b` -> after restart its relation shows up in KG `a`
        ("colon-name-restart", vec![c(1, "a"), c(2, "a:b"), i(3, "a:b", "r", &[1]), Item::Restart]),
        // dropping `a` deletes the shards of `a:b`
        ("colon-name-drop-prefix", vec![c(1, "a"), c(2, "a:b"), i(3, "a:b", "r", &[1]), d(4, "a"), Item::Restart]),
        // a KG called like the persist directory: dropping it removes every KG's persisted data
        ("reserved-persist", vec![c(1, "a"), i(2, "a", "r", &[1, 2]), c(3, "persist"), d(4, "persist"), Item::Restart]),
        ("reserved-metadata", vec![c(1, "a"), c(2, "metadata"), d(3, "metadata"), Item::Restart]),
        // shard file names collide after sanitize_name: a:b_r vs a_b:r
        ("sanitize-collision", vec![c(1, "a"), c(2, "a_b"), i(3, "a", "b_r", &[1]), i(4, "a_b", "r", &[2]), Item::Restart, Item::Restart, Item::Restart]),
        // delete on a KG that does not exist creates a shard: the KG appears after a restart
        ("ghost-delete", vec![x(1, "ghost", "r", &[1]), Item::Restart]),
        ("delete-after-drop", vec![c(1, "a"), i(2, "a", "r", &[1]), d(3, "a"), x(4, "a", "r", &[1]), Item::Restart]),
        // plain drop / re-create / restart
        ("drop-recreate", vec![c(1, "a"), i(2, "a", "r", &[1, 2]), Item::Op(Op::Rule { id: 3, k: "a".into(), rel: "v".into() }), d(4, "a"), c(5, "a"), Item::Restart, i(6, "a", "r", &[3]), Item::Restart]),
        // one KG name is a proper prefix of another: dropping the shorter one must not touch the longer one's shards
        ("prefix-names-drop-shorter", vec![c(1, "s"), c(2, "s_eu"), i(3, "s", "r", &[1]), i(4, "s_eu", "r", &[2, 3]), d(5, "s"), Item::Restart, i(6, "s_eu", "r", &[4]), Item::Restart]),
        ("prefix-names-three", vec![c(1, "s_eu2"), c(2, "s_eu"), c(3, "s"), i(4, "s_eu2", "x", &[1]), i(5, "s_eu", "r", &[2]), i(6, "s", "r", &[3]), d(7, "s_eu"), Item::Restart, d(8, "s"), Item::Restart]),
        ("two-kgs-same-relation", vec![c(1, "a"), c(2, "b"), i(3, "a", "r", &[1]), i(4, "b", "r", &[2]), x(5, "a", "r", &[2]), d(6, "b"), Item::Restart]),
    ]
}

// ------------------------------------------------------------------ concurrent configurations
fn parks(label: &str) -> bool {
    matches!(
        label,
        "start"
            | "op"
            | "se:insert:after_view_check"
            | "se:insert:after_persist"
            | "se:insert:before_kg_lock"
            | "se:delete:after_persist"
            | "se:delete:before_kg_lock"
            | "se:drop:after_exists_check"
            | "se:drop:after_tombstone"
            | "se:drop:after_map_remove"
            | "se:drop:finish_entry"
            | "se:drop:after_shards_deleted"
            | "se:drop:before_tombstone_remove"
            | "se:create:after_dropping_check"
    )
}
fn label_code(l: &str) -> u64 {
    match l {
        "op" => 0,
        "se:insert:after_view_check" => 1,
        "se:insert:after_persist" => 3,
        "se:insert:before_kg_lock" => 4,
        "se:delete:after_persist" => 5,
        "se:delete:before_kg_lock" => 6,
        "se:drop:after_exists_check" => 10,
        "se:drop:after_tombstone" => 11,
        "se:drop:after_map_remove" => 12,
        "se:drop:finish_entry" => 13,
        "se:drop:after_shards_deleted" => 14,
        "se:drop:before_tombstone_remove" => 15,
        "se:create:after_dropping_check" => 20,
        "done" => 9,
        _ => 99,
    }
}
/// a thread parked holding the dropping read guard blocks every section that takes the write lock
fn enabled(v: &[ThreadView]) -> Vec<bool> {
    let guard_held = v.iter().any(|t| matches!(t.parked, Some("se:insert:after_persist") | Some("se:delete:after_persist")));
    v.iter()
        .map(|t| match t.parked {
            Some("se:drop:after_exists_check") | Some("se:drop:before_tombstone_remove") => !guard_held,
            _ => true,
        })
        .collect()
}

struct ConcCfg {
    name: String,
    setup: Vec<Item>,
    progs: Vec<Vec<Op>>,
    exhaustive: bool,
    budget: usize,
    seed: u64,
}
struct Exec {
    outcome: Outcome,
    results: Vec<Vec<(u64, Res)>>,
    fin: Obs,
    after_restart: Result<Obs, String>,
}
fn run_conc(cfg: &ConcCfg, choose: &mut dyn FnMut(usize, &[usize]) -> usize) -> Exec {
    let dir = scratch_dir();
    let eng = Arc::new(open(dir.path()).expect("open"));
    for it in &cfg.setup {
        if let Item::Op(o) = it {
            let _ = do_op(&eng, o);
        }
    }
    let n = cfg.progs.len();
    let results: Vec<Arc<Mutex<Vec<(u64, Res)>>>> = (0..n).map(|_| Arc::new(Mutex::new(vec![]))).collect();
    let mut bodies: Vec<Body> = vec![];
    for (t, prog) in cfg.progs.iter().enumerate() {
        let prog = prog.clone();
        let eng = Arc::clone(&eng);
        let out = Arc::clone(&results[t]);
        bodies.push(Box::new(move || {
            for (i, op) in prog.iter().enumerate() {
                if i > 0 {
                    verif_hooks::sched_point("op");
                }
                let r = do_op(&eng, op);
                out.lock().unwrap().push((op.id(), r));
            }
        }));
    }
    let mut after = |_: usize, _: &[Ev]| {};
    let outcome = run_execution(bodies, parks, None, &enabled, choose, &mut after, Duration::from_secs(20));
    let fin = observe(&eng);
    let results: Vec<Vec<(u64, Res)>> = results.iter().map(|r| r.lock().unwrap().clone()).collect();
    drop(eng);
    let after_restart = open(dir.path()).map(|e| observe(&e));
    Exec { outcome, results, fin, after_restart }
}

struct CaseOut {
    coq: String,
    desc: serde_json::Value,
    tags: Vec<String>,
    key: Option<String>,
    infeasible: bool,
}
fn emit_conc(cfg: &ConcCfg, ex: &Exec, fx: bool) -> CaseOut {
    let progs_coq: Vec<String> = cfg.progs.iter().map(|p| coq_list(&p.iter().map(Op::coq).collect::<Vec<_>>())).collect();
    let sched_coq: Vec<String> =
        ex.outcome.schedule.iter().zip(ex.outcome.arrived.iter()).map(|(t, l)| format!("({}, {})", coq_nat(*t), cn(label_code(l)))).collect();
    let res_coq: Vec<String> =
        ex.results.iter().map(|rs| coq_list(&rs.iter().map(|(id, r)| format!("({}, {})", cn(*id), r.coq())).collect::<Vec<_>>())).collect();
    let mut tags = vec!["conc".to_string(), format!("threads:{}", cfg.progs.len()), if cfg.exhaustive { "enumerated".into() } else { "sampled".into() }];
    let restart_obs = match &ex.after_restart {
        Ok(o) => o.clone(),
        Err(_) => {
            tags.push("reopen-failed".into());
            vec![("<reopen failed>".to_string(), vec![], vec![])]
        }
    };
    let coq = format!(
        "C17Conc {} {} {} {} {} {} {}",
        coq_bool(fx),
        coq_list(&cfg.setup.iter().map(Item::coq).collect::<Vec<_>>()),
        coq_list(&progs_coq),
        coq_list(&sched_coq),
        coq_list(&res_coq),
        obs_coq(&ex.fin),
        obs_coq(&restart_obs)
    );
    let sched_txt: Vec<String> = ex.outcome.schedule.iter().zip(ex.outcome.arrived.iter()).map(|(t, l)| format!("T{t}->{l}")).collect();
    let unexpected: Vec<String> = ex
        .results
        .iter()
        .flatten()
        .filter_map(|(id, r)| match r {
            Res::Err(c, m) if *c >= 7 => Some(format!("#{id}: {m}")),
            _ => None,
        })
        .collect();
    if !unexpected.is_empty() || !ex.outcome.panics.is_empty() {
        tags.push("unexpected-error".into());
    }
    if ex.results.iter().flatten().any(|(_, r)| matches!(r, Res::Err(1, _))) {
        tags.push("op-hit-missing-kg".into());
    }
    let desc = serde_json::json!({
        "kind": "concurrent", "config": cfg.name,
        "setup": cfg.setup.iter().map(Item::text).collect::<Vec<_>>(),
        "threads": cfg.progs.iter().map(|p| p.iter().map(Op::text).collect::<Vec<_>>()).collect::<Vec<_>>(),
        "schedule": sched_txt,
        "results": ex.results.iter().map(|rs| rs.iter().map(|(id, r)| format!("#{id}: {r:?}")).collect::<Vec<_>>()).collect::<Vec<_>>(),
        "final": format!("{:?}", ex.fin),
        "after_restart": format!("{:?}", ex.after_restart),
        "unexpected_errors": unexpected,
        "panics": format!("{:?}", ex.outcome.panics),
    });
    let switches = ex.outcome.schedule.windows(2).filter(|w| w[0] != w[1]).count();
    let key = if switches >= 2 { Some(format!("{}|{}", cfg.name, sched_txt.join(","))) } else { None };
    CaseOut { coq, desc, tags, key, infeasible: ex.outcome.infeasible }
}

fn interleavings(progs: &[Vec<Op>]) -> f64 {
    let mut total = 0usize;
    let mut r = 1f64;
    for p in progs {
        let l: usize = p.iter().map(Op::steps).sum();
        for k in 1..=l {
            total += 1;
            r = r * total as f64 / k as f64;
        }
    }
    r
}

fn run_cfg(cfg: &ConcCfg, fx: bool) -> Vec<CaseOut> {
    let mut outs = vec![];
    if cfg.exhaustive {
        let mut prefix: Vec<usize> = vec![];
        while outs.len() < cfg.budget {
            let ex = {
                let mut ch = prefix_chooser(&prefix);
                run_conc(cfg, &mut ch)
            };
            let o = &ex.outcome;
            let mut next: Option<Vec<usize>> = None;
            for i in (0..o.schedule.len()).rev() {
                let cur = o.schedule[i];
                if let Some(nx) = o.enabled_sets[i].iter().copied().filter(|x| *x > cur).min() {
                    let mut p = o.schedule[..i].to_vec();
                    p.push(nx);
                    next = Some(p);
                    break;
                }
            }
            outs.push(emit_conc(cfg, &ex, fx));
            match next {
                Some(p) => prefix = p,
                None => break,
            }
        }
    } else {
        let mut rng = Rng::new(cfg.seed);
        for _ in 0..cfg.budget {
            let mut ch = |_: usize, en: &[usize]| en[rng.below(en.len() as u64) as usize];
            let ex = run_conc(cfg, &mut ch);
            outs.push(emit_conc(cfg, &ex, fx));
        }
    }
    outs
}

fn conc_corpus(scale: usize) -> Vec<ConcCfg> {
    let c = |id, k: &str| Op::Create { id, k: k.to_string() };
    let d = |id, k: &str| Op::Drop { id, k: k.to_string() };
    let i = |id, k: &str, ts: &[u64]| Op::Ins { id, k: k.to_string(), rel: "r".to_string(), ts: ts.to_vec() };
    let x = |id, k: &str, ts: &[u64]| Op::Del { id, k: k.to_string(), rel: "r".to_string(), ts: ts.to_vec() };
    let cfg = |name: &str, setup: Vec<Op>, progs: Vec<Vec<Op>>, exhaustive: bool, budget: usize| ConcCfg {
        name: name.to_string(),
        setup: setup.into_iter().map(Item::Op).collect(),
        progs,
        exhaustive,
        budget,
        seed: 17,
    };
    vec![
        cfg("insert-vs-drop", vec![c(1, "k")], vec![vec![i(2, "k", &[1, 2])], vec![d(3, "k")]], true, 400),
        cfg("delete-vs-drop", vec![c(1, "k"), i(2, "k", &[1, 2])], vec![vec![x(3, "k", &[1])], vec![d(4, "k")]], true, 200),
        cfg("insert-vs-drop-recreate", vec![c(1, "k")], vec![vec![i(2, "k", &[1, 2])], vec![d(3, "k"), c(4, "k")]], false, 150 * scale),
        cfg("insert-vs-drop-vs-create", vec![c(1, "k")], vec![vec![i(2, "k", &[1])], vec![d(3, "k")], vec![c(4, "k")]], false, 150 * scale),
        cfg("two-inserts-vs-drop", vec![c(1, "k"), c(2, "j")], vec![vec![i(3, "k", &[1]), i(4, "j", &[2])], vec![d(5, "k")], vec![i(6, "k", &[3])]], false, 100 * scale),
    ]
}

fn gen_conc(rng: &mut Rng, idx: usize, per: usize) -> ConcCfg {
    let names = ["k", "j"];
    let mut id = 1u64;
    let mut setup = vec![];
    for k in names {
        if rng.chance(3, 4) {
            setup.push(Item::Op(Op::Create { id, k: k.to_string() }));
            id += 1;
            if rng.chance(1, 2) {
                setup.push(Item::Op(Op::Ins { id, k: k.to_string(), rel: "r".into(), ts: vec![100 + id] }));
                id += 1;
            }
        }
    }
    let nthreads = rng.range(2, 3) as usize;
    let mut progs = vec![];
    for _ in 0..nthreads {
        let nops = rng.range(1, 2) as usize;
        let mut p = vec![];
        for _ in 0..nops {
            let k = rng.pick(&names).to_string();
            let op = match rng.below(10) {
                0..=3 => Op::Ins { id, k, rel: "r".into(), ts: vec![id * 10, id * 10 + 1] },
                4 => Op::Del { id, k, rel: "r".into(), ts: vec![100 + rng.below(4)] },
                5..=7 => Op::Drop { id, k },
                _ => Op::Create { id, k },
            };
            id += 1;
            p.push(op);
        }
        progs.push(p);
    }
    let exhaustive = interleavings(&progs) <= per as f64;
    ConcCfg { name: format!("random-{idx}"), setup, progs, exhaustive, budget: per, seed: rng.next() }
}

fn main() {
    let args = parse_args();
    let fx = !args.extra.iter().any(|a| a == "--unfixed");
    let mut rng = Rng::new(args.seed);
    let mut sink = Sink::new(&args, "From IL Require Import Checks.C17.", "c17case", "c17_check", 40);
    // ---- sequential part: corpus + about a quarter of the budget
    for (name, h) in seq_corpus() {
        let o = run_seq(&h, fx, name);
        let tags: Vec<&str> = o.tags.iter().map(String::as_str).collect();
        sink.tally("seq:corpus");
        sink.push(o.coq, o.desc, &tags, o.key);
    }
    let nseq = (args.n / 4).max(20);
    for i in 0..nseq {
        let h = if i % 3 == 2 { gen_seq_prefix(&mut rng) } else { gen_seq(&mut rng) };
        let o = run_seq(&h, fx, &format!("random-{i}"));
        let tags: Vec<&str> = o.tags.iter().map(String::as_str).collect();
        sink.tally("seq:random");
        sink.push(o.coq, o.desc, &tags, o.key);
    }
    // ---- concurrent part
    let scale = (args.n / 1200).max(1);
    let mut configs = conc_corpus(scale);
    let corpus_n = configs.len();
    let per = 25usize;
    let fixed: usize = configs.iter().map(|c| c.budget).sum();
    let nrandom = (args.n.saturating_sub(nseq + fixed) / per).max(4);
    for i in 0..nrandom {
        configs.push(gen_conc(&mut rng, i, per));
    }
    let configs = Arc::new(configs);
    let next = Arc::new(AtomicUsize::new(0));
    let results: Arc<Mutex<Vec<Option<Vec<CaseOut>>>>> = Arc::new(Mutex::new((0..configs.len()).map(|_| None).collect()));
    let workers = std::thread::available_parallelism().map(|x| x.get()).unwrap_or(4).min(8);
    let mut hs = vec![];
    for _ in 0..workers {
        let configs = Arc::clone(&configs);
        let next = Arc::clone(&next);
        let results = Arc::clone(&results);
        hs.push(std::thread::spawn(move || loop {
            let i = next.fetch_add(1, Ordering::SeqCst);
            if i >= configs.len() {
                break;
            }
            let outs = run_cfg(&configs[i], fx);
            results.lock().unwrap()[i] = Some(outs);
        }));
    }
    for h in hs {
        h.join().expect("runner");
    }
    let mut results = results.lock().unwrap();
    for (i, slot) in results.iter_mut().enumerate() {
        let outs = slot.take().unwrap_or_default();
        sink.tally(if i < corpus_n { "conc:config-corpus" } else { "conc:config-random" });
        for c in outs {
            if c.infeasible {
                sink.tally("infeasible-execution-skipped");
                continue;
            }
            sink.tally("conc:executions");
            let tags: Vec<&str> = c.tags.iter().map(String::as_str).collect();
            sink.push(c.coq, c.desc, &tags, c.key);
        }
    }
    sink.finish();
}
