//! C24 — vector index search returns valid nearest neighbours.
//! Builds real `HnswIndex`es through histories (insert / insert_batch / delete / update / rebuild /
//! save+load), runs searches with k / ef variations and records for each search: the arguments, the
//! raw hnsw_rs result for the widened request the wrapper issues (hook verif_raw_search), the graph
//! node list (hook verif_graph_nodes) and the result of Index::search.  Cases go to Checks/C24.v.
use inputlayer::hnsw_index::HnswIndex;
use inputlayer::index_manager::{DistanceMetric, HnswConfig, Index};
use std::panic::AssertUnwindSafe;
use vharness::*;
#[path = "../vector_util.rs"]
mod vector_util;
use vector_util::*;

#[derive(Clone, Debug)]
enum Op {
    Ins(usize, Vec<f32>),
    Batch(Vec<(usize, Vec<f32>)>),
    Del(usize),
    Rebuild(Vec<(usize, Vec<f32>)>),
    SaveLoad,
    Search(Vec<f32>, usize, Option<usize>),
}

fn op_coq(o: &Op) -> String {
    match o {
        Op::Ins(id, v) => format!("(OIns {} {})", coq_n(*id as u128), vec_bits(v)),
        Op::Batch(es) => format!("(OBatch {})", entries_bits(es)),
        Op::Del(id) => format!("(ODel {})", coq_n(*id as u128)),
        Op::Rebuild(es) => format!("(ORebuild {})", entries_bits(es)),
        Op::SaveLoad => "OSaveLoad".to_string(),
        Op::Search(..) => unreachable!(),
    }
}

struct Outcome {
    steps: Vec<String>,
    desc: Vec<String>,
    panicked: bool,
    nontrivial: bool,
    tallies: Vec<String>,
}

fn run_case(cfg: &HnswConfig, ops: &[Op], tmp: &std::path::Path) -> Outcome {
    let mut index = HnswIndex::new(cfg.clone());
    let mut out = Outcome { steps: vec![], desc: vec![], panicked: false, nontrivial: false, tallies: vec![] };
    let manhattan = matches!(cfg.metric, DistanceMetric::Manhattan);
    for o in ops {
        let res = catch(AssertUnwindSafe(|| match o {
            Op::Ins(id, v) => {
                let ok = index.insert(*id, v).is_ok();
                (format!("C24Op {}", op_coq(o)), format!("insert({}, {:?}) ok={}", id, v, ok), None)
            }
            Op::Batch(es) => {
                let ok = index.insert_batch(es).is_ok();
                (format!("C24Op {}", op_coq(o)), format!("insert_batch({:?}) ok={}", es, ok), None)
            }
            Op::Del(id) => {
                index.delete(*id);
                (format!("C24Op {}", op_coq(o)), format!("delete({}) tombstones={}", id, index.tombstone_count()), None)
            }
            Op::Rebuild(es) => {
                let ok = index.rebuild(es).is_ok();
                (format!("C24Op {}", op_coq(o)), format!("rebuild({:?}) ok={}", es, ok), None)
            }
            Op::SaveLoad => {
                let d = tmp.join("sl");
                index.save(&d).expect("save");
                index = HnswIndex::load(&d).expect("load");
                (format!("C24Op {}", op_coq(o)), "save; load".to_string(), None)
            }
            Op::Search(q, k, ef) => {
                let nt = index.tombstone_count();
                let efs = ef.unwrap_or(cfg.ef_search);
                let kk = (if manhattan { (k * 4).max(efs) } else { *k }) + nt;
                let ee = efs + nt;
                let pq = if needs_norm(cfg.metric) { normalize(q) } else { q.clone() };
                let raw = index.verif_raw_search(&pq, kk, ee);
                let nodes = index.verif_graph_nodes();
                let res = index.search(q, *k, *ef);
                let raw_coq: Vec<String> = raw.iter().map(|(i, d)| format!("({}, {})", coq_n(*i as u128), coq_n(d.to_bits() as u128))).collect();
                let res_coq: Vec<String> = res.iter().map(|(i, d)| format!("({}, {})", coq_n(*i as u128), coq_n(d.to_bits() as u128))).collect();
                let coq = format!(
                    "C24Q (C24Search {} {} {} {} {} {} {} {})",
                    vec_bits(q),
                    coq_n(*k as u128),
                    coq_opt(ef.map(|e| coq_n(e as u128))),
                    coq_n(kk as u128),
                    coq_n(ee as u128),
                    coq_list(&raw_coq),
                    entries_bits(&nodes),
                    coq_list(&res_coq)
                );
                let complete = nodes.len() > ee || raw.len() == kk.min(nodes.len());
                let stat = format!(
                    "graph-search:{}:m={}:n={}",
                    if nodes.len() > ee { "n>ef" } else if complete { "complete" } else { "INCOMPLETE" },
                    cfg.m,
                    match nodes.len() { 0..=3 => "0-3", 4..=9 => "4-9", 10..=29 => "10-29", _ => "30+" }
                );
                (coq, format!("search({:?}, k={}, ef={:?}) graph_nodes={} tombstones={} raw_len={} -> {:?}", q, k, ef, nodes.len(), nt, raw.len(), res), Some((res.len(), stat)))
            }
        }));
        match res {
            Ok((coq, d, s)) => {
                out.steps.push(format!("({})", coq));
                out.desc.push(d);
                if let Some((n, stat)) = s {
                    if n >= 2 {
                        out.nontrivial = true;
                    }
                    out.tallies.push(stat);
                    out.tallies.push(format!("result_len:{}", match n { 0 => "0", 1 => "1", 2..=5 => "2-5", _ => "6+" }));
                }
            }
            Err(msg) => {
                out.panicked = true;
                out.desc.push(format!("PANIC {}", msg));
                break;
            }
        }
    }
    out
}

fn gen_vec(r: &mut Rng, dim: usize, scale: f32, allow_zero: bool) -> Vec<f32> {
    loop {
        let v: Vec<f32> = (0..dim).map(|_| (r.range(-8, 8) as f32) * scale).collect();
        if allow_zero || v.iter().any(|x| *x != 0.0) {
            return v;
        }
    }
}

fn gen_case(r: &mut Rng) -> (HnswConfig, Vec<Op>) {
    let cfg = HnswConfig {
        m: *r.pick(&[4usize, 8, 16, 32]),
        ef_construction: *r.pick(&[20usize, 100, 200]),
        ef_search: *r.pick(&[1usize, 4, 8, 32, 50, 200]),
        metric: *r.pick(&METRICS),
    };
    let norm = needs_norm(cfg.metric);
    let dim = r.range(1, 8) as usize;
    // whole-case scale: mostly 1 (integer components), sometimes tiny (near-zero norms) or fractional
    let scale: f32 = *r.pick(&[1.0f32, 1.0, 1.0, 1.0, 0.5, 0.0009765625, 1e-5]);
    let n = match r.below(10) {
        0 => r.range(0, 2),
        1..=5 => r.range(3, 15),
        6..=8 => r.range(16, 40),
        _ => r.range(41, 60),
    } as usize;
    let mut ops: Vec<Op> = vec![];
    let mut pool: Vec<Vec<f32>> = vec![];
    let fresh = |r: &mut Rng, pool: &mut Vec<Vec<f32>>| -> Vec<f32> {
        // duplicates of stored vectors every so often
        if !pool.is_empty() && r.chance(1, 6) {
            r.pick(pool).clone()
        } else {
            let allow_zero = !norm || r.chance(1, 30);
            let v = gen_vec(r, dim, scale, allow_zero);
            pool.push(v.clone());
            v
        }
    };
    let mut ids: Vec<usize> = vec![];
    // ---- build phase
    match r.below(3) {
        0 if n <= 25 => {
            for i in 0..n {
                ops.push(Op::Ins(i, fresh(r, &mut pool)));
                ids.push(i);
            }
        }
        1 => {
            let es: Vec<(usize, Vec<f32>)> = (0..n).map(|i| (i * 3 + 1, fresh(r, &mut pool))).collect();
            ids = es.iter().map(|e| e.0).collect();
            ops.push(Op::Batch(es));
        }
        _ => {
            let es: Vec<(usize, Vec<f32>)> = (0..n).map(|i| (i + 100, fresh(r, &mut pool))).collect();
            ids = es.iter().map(|e| e.0).collect();
            ops.push(Op::Rebuild(es));
        }
    }
    // ---- searches interleaved with a few mutations
    let rounds = r.range(1, 4);
    for round in 0..rounds {
        let nsearch = r.range(1, 3);
        for _ in 0..nsearch {
            let q = if !pool.is_empty() && r.chance(1, 3) { r.pick(&pool).clone() } else { gen_vec(r, dim, scale, !norm) };
            let q = if norm && q.iter().all(|x| *x == 0.0) { gen_vec(r, dim, scale, false) } else { q };
            let cur = ids.len().max(1);
            let k = *r.pick(&[0usize, 1, 1, 2, 3, 5, 10, cur, cur + 3]);
            let ef = match r.below(7) {
                0 | 1 => None,
                2 => Some(1),
                3 => Some(k.max(1)),
                4 => Some(cur),
                5 => Some(cur + 10),
                _ => Some(200),
            };
            ops.push(Op::Search(q, k, ef));
        }
        if round + 1 == rounds {
            break;
        }
        let nmut = r.range(1, 4);
        for _ in 0..nmut {
            match r.below(10) {
                0..=3 if !ids.is_empty() => {
                    let pos = r.below(ids.len() as u64) as usize;
                    ops.push(Op::Del(ids.remove(pos)));
                }
                4..=5 if !ids.is_empty() => {
                    // update = delete + insert of the same identifier
                    let id = *r.pick(&ids);
                    ops.push(Op::Del(id));
                    ops.push(Op::Ins(id, fresh(r, &mut pool)));
                }
                6 => ops.push(Op::SaveLoad),
                7 if !ids.is_empty() => {
                    let id = *r.pick(&ids);
                    ops.push(Op::Ins(id, fresh(r, &mut pool)));
                }
                _ => {
                    let id = 1000 + r.below(50) as usize;
                    ops.push(Op::Ins(id, fresh(r, &mut pool)));
                    if !ids.contains(&id) {
                        ids.push(id);
                    }
                }
            }
        }
    }
    (cfg, ops)
}

fn corpus() -> Vec<(&'static str, HnswConfig, Vec<Op>)> {
    let c = |metric| HnswConfig { m: 16, ef_construction: 100, ef_search: 32, metric };
    let mut out = vec![];
    // Manhattan: the L1-nearest vector is not among the 4k L2-nearest
    let es: Vec<(usize, Vec<f32>)> = vec![(0, vec![3.0, 3.0]), (1, vec![3.0, -3.0]), (2, vec![-3.0, 3.0]), (3, vec![-3.0, -3.0]), (4, vec![5.0, 0.0])];
    out.push(("manhattan-l1-nearest-outside-4k", c(DistanceMetric::Manhattan), vec![Op::Rebuild(es), Op::Search(vec![0.0, 0.0], 1, Some(100)), Op::Search(vec![0.0, 0.0], 1, None)]));
    // deleted identifier while its tombstone is pending; k results must still come back
    let mut h: Vec<Op> = (0..8).map(|i| Op::Ins(i, vec![i as f32, 0.0])).collect();
    h.extend([Op::Del(0), Op::Del(1), Op::Search(vec![0.0, 0.0], 3, None), Op::Search(vec![0.0, 0.0], 6, Some(100)), Op::Search(vec![0.0, 0.0], 8, Some(100))]);
    out.push(("pending-tombstones", c(DistanceMetric::Euclidean), h));
    // update = delete + insert
    let mut h: Vec<Op> = (0..5).map(|i| Op::Ins(i, vec![i as f32 + 1.0, 1.0])).collect();
    h.extend([Op::Del(2), Op::Ins(2, vec![-4.0, 7.0]), Op::Search(vec![-4.0, 7.0], 2, Some(50)), Op::SaveLoad, Op::Search(vec![-4.0, 7.0], 5, Some(50))]);
    out.push(("update-reachable", c(DistanceMetric::Cosine), h));
    // duplicates, k = 0, k > n, ef = 1
    let es: Vec<(usize, Vec<f32>)> = (0..6).map(|i| (i, vec![(i % 2) as f32, 1.0, -1.0])).collect();
    out.push(("duplicates-and-degenerate-k", c(DistanceMetric::DotProduct), vec![Op::Rebuild(es), Op::Search(vec![1.0, 1.0, -1.0], 0, None), Op::Search(vec![1.0, 1.0, -1.0], 10, Some(1)), Op::Search(vec![0.0, 1.0, -1.0], 3, Some(6))]));
    out.push(("empty-and-single", c(DistanceMetric::Euclidean), vec![Op::Search(vec![1.0], 3, None), Op::Ins(42, vec![1.0, 2.0, 3.0]), Op::Search(vec![1.0, 2.0, 3.0], 10, None), Op::Del(42), Op::Search(vec![1.0, 2.0, 3.0], 10, None)]));
    out
}

fn emit(sink: &mut Sink, name: &str, cfg: &HnswConfig, ops: &[Op], tmp: &std::path::Path) {
    let depth = ops.len() + 2;
    let mut tab = NormTable::new();
    if needs_norm(cfg.metric) {
        for o in ops {
            match o {
                Op::Ins(_, v) => tab.add(v, depth),
                Op::Search(q, _, _) => tab.add(q, 1),
                Op::Batch(es) | Op::Rebuild(es) => {
                    for (_, v) in es {
                        tab.add(v, depth)
                    }
                }
                _ => {}
            }
        }
    }
    let out = run_case(cfg, ops, tmp);
    for t in &out.tallies {
        sink.tally(t);
    }
    sink.tally(&format!("metric:{}", metric_coq(cfg.metric)));
    for o in ops {
        sink.tally(match o {
            Op::Ins(..) => "op:insert",
            Op::Batch(..) => "op:insert_batch",
            Op::Del(..) => "op:delete",
            Op::Rebuild(..) => "op:rebuild",
            Op::SaveLoad => "op:save_load",
            Op::Search(..) => "op:search",
        });
    }
    let coq = format!("C24Case {} {} {} {}", config_coq(cfg), tab.coq(), coq_list(&out.steps), coq_bool(out.panicked));
    let key = if out.nontrivial && !out.panicked { Some(format!("{:?} {:?}", cfg, ops)) } else { None };
    sink.push(
        coq,
        serde_json::json!({"name": name, "config": format!("{:?}", cfg), "steps": out.desc, "panicked": out.panicked}),
        &[if name == "random" { "random" } else { "corpus" }],
        key,
    );
}

fn main() {
    let args = parse_args();
    let mut rng = Rng::new(args.seed);
    let mut sink = Sink::new(&args, "From IL Require Import Checks.C24.", "c24case", "c24_check", 10);
    let tmp = tempfile::tempdir().expect("tmpdir");
    for (name, cfg, ops) in corpus() {
        if sink.wants(sink.next_idx()) {
            emit(&mut sink, name, &cfg, &ops, tmp.path());
        } else {
            sink.push(String::new(), serde_json::json!(null), &[], None);
        }
    }
    while sink.count < args.n {
        let (cfg, ops) = gen_case(&mut rng);
        if sink.wants(sink.next_idx()) {
            emit(&mut sink, "random", &cfg, &ops, tmp.path());
        } else {
            sink.push(String::new(), serde_json::json!(null), &[], None);
        }
    }
    sink.finish();
}
